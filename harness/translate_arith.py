"""Arithmetic translator: straight-line / loop Python functions over exact numbers -> Lean `def`s (lean/ShapeVerif/Gen/Arith.lean).

A small typed compiler for the numeric kernels of shapepy.  Accepted Python subset:
  statements : docstring, `assert` (ignored), `a, b = <2-tuple expr>`, `name = expr`, `name op= expr`, `self._x op= expr`,
               `if test: return expr` (optionally with `else`/following statements), `return expr`,
               `for v in range(a[, b]): <assignments to ONE variable>`, `for v in <list>: <assignments to ONE variable>`
  expressions: names, int/float literals (floats become their exact dyadic rational), + - * / // % **(literal exponent), unary -,
               comparisons (chains), and/or/not, `abs`, `x[0]`/`x[1]` on points, `self._x`, `p.cross(q)`, `p.inner(q)`,
               `Math.comb(a, b)`, `Fraction(a[, b])`, `min`/`max`, conditional expressions, tuples of two numbers, `tuple()`, `None`,
               `tuple(<expr> for v in range(n))`.
Types: Nat (Python ints that are counts/indices), Rat (exact numbers), Pt (Point2D), Bool, ListRat.
Anything else raises Unsupported(file:line): the definition is then left out of the generated file, every theorem about it fails
to build and the decision falls to the correspondence check (see DESIGN.md §5a).
"""
import ast
from fractions import Fraction

from harness.translate import Unsupported, find_class, find_func, body_wo_doc, where


class Cx:
    """compilation context of one function"""

    def __init__(self, fname, env, ret, consts=None):
        self.fname = fname
        self.env = dict(env)        # python name / attribute text -> (lean expr, type)
        self.ret = ret              # 'Rat' | 'Nat' | 'Bool' | 'Pt' | 'OptPair' | 'ListRat' | 'Int'
        self.consts = consts or {}  # class attributes like self.dx -> Fraction


def lit(v, ty, node, cx):
    if isinstance(v, bool):
        raise Unsupported(f"boolean literal in arithmetic at {where(node, cx.fname)}")
    if isinstance(v, int):
        if ty == "Nat":
            if v < 0:
                raise Unsupported(f"negative literal for a natural number at {where(node, cx.fname)}")
            return str(v)
        if ty == "Int":
            return f"({v} : Int)"
        return f"({v} : Rat)"
    if isinstance(v, float):
        fr = Fraction(v)
        return f"(({fr.numerator} : Rat) / ({fr.denominator} : Rat))"
    raise Unsupported(f"unsupported literal {v!r} at {where(node, cx.fname)}")


def is_lit(e):
    return isinstance(e, ast.Constant) and isinstance(e.value, (int, float)) and not isinstance(e.value, bool)


def cast(s, frm, to, node, cx):
    if frm == to:
        return s
    if frm == "Nat" and to == "Rat":
        return f"(({s} : Nat) : Rat)"
    if frm == "Nat" and to == "Int":
        return f"(({s} : Nat) : Int)"
    if frm == "Int" and to == "Rat":
        return f"(({s} : Int) : Rat)"
    raise Unsupported(f"cannot use a {frm} as {to} at {where(node, cx.fname)}")


def num(e, cx, want=None):
    """numeric / point expression -> (lean, type)"""
    if is_lit(e):
        ty = want if want in ("Nat", "Rat", "Int") else ("Rat" if isinstance(e.value, float) else "Nat")
        if isinstance(e.value, float):
            ty = "Rat"
        return lit(e.value, ty, e, cx), ty
    key = ast.unparse(e)
    if key in cx.env:
        return cx.env[key]
    if key in cx.consts:
        return lit(cx.consts[key], "Rat", e, cx), "Rat"
    if isinstance(e, ast.Subscript) and isinstance(e.slice, ast.Constant) and e.slice.value in (0, 1):
        b, t = num(e.value, cx)
        if t == "Pt":
            return f"{b}.{'x' if e.slice.value == 0 else 'y'}", "Rat"
    if isinstance(e, ast.UnaryOp) and isinstance(e.op, ast.USub):
        b, t = num(e.operand, cx, want if want != "Nat" else "Int")
        if t == "Nat":
            b, t = cast(b, "Nat", "Int", e, cx), "Int"
        if t == "Pt":
            return f"(Pt.neg {b})", "Pt"
        return f"(-{b})", t
    if isinstance(e, ast.BinOp):
        if isinstance(e.op, ast.Pow):
            b, t = num(e.left, cx, want)
            if isinstance(e.right, ast.Constant) and isinstance(e.right.value, int) and e.right.value >= 0:
                return f"({b} ^ {e.right.value})", t
            ex, tex = num(e.right, cx, "Nat")
            if tex != "Nat":
                raise Unsupported(f"exponent is not a natural number at {where(e, cx.fname)}")
            return f"({b} ^ {ex})", t
        # literal operands take the type of the other side
        if is_lit(e.left) and not is_lit(e.right):
            r, tr = num(e.right, cx, want)
            l, tl = num(e.left, cx, tr if tr in ("Nat", "Rat", "Int") else "Rat")
        else:
            l, tl = num(e.left, cx, want)
            r, tr = num(e.right, cx, tl if tl in ("Nat", "Rat", "Int") else "Rat")
        if tl == "Pt" or tr == "Pt":
            if isinstance(e.op, ast.Sub) and tl == tr == "Pt":
                return f"({l} - {r})", "Pt"
            if isinstance(e.op, ast.Add) and tl == tr == "Pt":
                return f"({l} + {r})", "Pt"
            raise Unsupported(f"unsupported point arithmetic at {where(e, cx.fname)}")
        if isinstance(e.op, ast.Div):
            l, r = cast(l, tl, "Rat", e, cx), cast(r, tr, "Rat", e, cx)
            return f"({l} / {r})", "Rat"
        ty = "Rat" if "Rat" in (tl, tr) else ("Int" if "Int" in (tl, tr) else "Nat")
        l, r = cast(l, tl, ty, e, cx), cast(r, tr, ty, e, cx)
        sym = {ast.Add: "+", ast.Sub: "-", ast.Mult: "*", ast.FloorDiv: "/", ast.Mod: "%"}.get(type(e.op))
        if sym is None or (ty == "Rat" and sym in ("/", "%")):
            raise Unsupported(f"unsupported operator {type(e.op).__name__} on {ty} at {where(e, cx.fname)}")
        return f"({l} {sym} {r})", ty
    if isinstance(e, ast.Call):
        f = e.func
        if isinstance(f, ast.Attribute) and f.attr in ("cross", "inner") and len(e.args) == 1:
            a, ta = num(f.value, cx)
            b, tb = num(e.args[0], cx)
            if ta == tb == "Pt":
                return f"(Gen.{f.attr} {a} {b})", "Rat"
        if isinstance(f, ast.Attribute) and ast.unparse(f) == "Math.comb" and len(e.args) == 2:
            a, ta = num(e.args[0], cx, "Nat")
            b, tb = num(e.args[1], cx, "Nat")
            if ta == tb == "Nat":
                return f"(Gen.comb {a} {b})", "Nat"
        if isinstance(f, ast.Name) and f.id == "abs" and len(e.args) == 1:
            a, ta = num(e.args[0], cx, "Rat")
            return f"(absR {cast(a, ta, 'Rat', e, cx)})", "Rat"
        if isinstance(f, ast.Name) and f.id in ("min", "max") and len(e.args) == 2:
            a, ta = num(e.args[0], cx, "Rat")
            b, tb = num(e.args[1], cx, "Rat")
            a, b = cast(a, ta, "Rat", e, cx), cast(b, tb, "Rat", e, cx)
            # Python: min(a, b) = b if b < a else a ; max(a, b) = b if b > a else a
            return (f"(if {b} < {a} then {b} else {a})" if f.id == "min" else f"(if {a} < {b} then {b} else {a})"), "Rat"
        if ast.unparse(f) in ("Fraction", "fractions.Fraction") and len(e.args) in (1, 2):
            a, ta = num(e.args[0], cx, "Nat")
            a = cast(a, ta, "Rat", e, cx)
            if len(e.args) == 1:
                return a, "Rat"
            b, tb = num(e.args[1], cx, "Nat")
            return f"({a} / {cast(b, tb, 'Rat', e, cx)})", "Rat"
        if isinstance(f, ast.Name) and f.id in ("float", "int") and len(e.args) == 1:
            return num(e.args[0], cx, want)
    if isinstance(e, ast.IfExp):
        a, ta = num(e.body, cx, want)
        b, tb = num(e.orelse, cx, ta)
        if ta != tb:
            order = ["Nat", "Int", "Rat"]
            if ta not in order or tb not in order:
                raise Unsupported(f"branches of different type at {where(e, cx.fname)}")
            ty = order[max(order.index(ta), order.index(tb))]
            a, b, ta = cast(a, ta, ty, e, cx), cast(b, tb, ty, e, cx), ty
        return f"(if {prop(e.test, cx)} then {a} else {b})", ta
    raise Unsupported(f"unsupported expression {key[:60]} at {where(e, cx.fname)}")


def prop(e, cx):
    """condition -> Lean Prop (decidable)"""
    if isinstance(e, ast.BoolOp):
        op = " ∧ " if isinstance(e.op, ast.And) else " ∨ "
        return "(" + op.join(prop(v, cx) for v in e.values) + ")"
    if isinstance(e, ast.UnaryOp) and isinstance(e.op, ast.Not):
        return f"(¬ {prop(e.operand, cx)})"
    if isinstance(e, ast.Compare):
        parts, left = [], e.left
        syms = {ast.Lt: "<", ast.LtE: "≤", ast.Gt: ">", ast.GtE: "≥", ast.Eq: "=", ast.NotEq: "≠"}
        for op, right in zip(e.ops, e.comparators):
            sym = syms.get(type(op))
            if sym is None:
                raise Unsupported(f"unsupported comparison at {where(e, cx.fname)}")
            if is_lit(left) and not is_lit(right):
                r, tr = num(right, cx)
                l, tl = num(left, cx, tr)
            else:
                l, tl = num(left, cx)
                r, tr = num(right, cx, tl)
            ty = "Rat" if "Rat" in (tl, tr) else ("Int" if "Int" in (tl, tr) else "Nat")
            if "Pt" in (tl, tr):
                raise Unsupported(f"comparison of points at {where(e, cx.fname)}")
            parts.append(f"{cast(l, tl, ty, e, cx)} {sym} {cast(r, tr, ty, e, cx)}")
            left = right
        return "(" + " ∧ ".join(parts) + ")"
    if isinstance(e, ast.Constant) and isinstance(e.value, bool):
        return "True" if e.value else "False"
    if isinstance(e, ast.Name) and e.id in cx.env and cx.env[e.id][1] == "Bool":
        return f"({cx.env[e.id][0]} = true)"
    # truthiness of a number
    v, t = num(e, cx)
    if t in ("Rat", "Nat", "Int"):
        return f"({v} ≠ 0)"
    raise Unsupported(f"unsupported condition {ast.unparse(e)[:60]} at {where(e, cx.fname)}")


def value(e, cx):
    """expression in return position, according to cx.ret"""
    if cx.ret == "Bool":
        if isinstance(e, ast.Constant) and isinstance(e.value, bool):
            return "true" if e.value else "false"
        return f"decide {prop(e, cx)}"
    if cx.ret == "OptPair":
        if isinstance(e, ast.Constant) and e.value is None:
            return "none"
        if isinstance(e, ast.Call) and ast.unparse(e) == "tuple()":
            return "none"
        if isinstance(e, ast.Tuple) and len(e.elts) == 0:
            return "none"
        if isinstance(e, ast.Tuple) and len(e.elts) == 2:
            a, ta = num(e.elts[0], cx, "Rat")
            b, tb = num(e.elts[1], cx, "Rat")
            return f"some ({cast(a, ta, 'Rat', e, cx)}, {cast(b, tb, 'Rat', e, cx)})"
        raise Unsupported(f"unsupported return value {ast.unparse(e)[:60]} at {where(e, cx.fname)}")
    if cx.ret == "Pt":
        if isinstance(e, ast.Name) and e.id == "self" and "self._x" in cx.env:
            return f"⟨{cx.env['self._x'][0]}, {cx.env['self._y'][0]}⟩"
        v, t = num(e, cx)
        if t == "Pt":
            return v
        raise Unsupported(f"unsupported point return at {where(e, cx.fname)}")
    if cx.ret == "ListRat":
        # tuple(<expr> for v in range(n))
        if isinstance(e, ast.Call) and isinstance(e.func, ast.Name) and e.func.id in ("tuple", "list") and len(e.args) == 1 \
                and isinstance(e.args[0], (ast.GeneratorExp, ast.ListComp)) and len(e.args[0].generators) == 1:
            g = e.args[0].generators[0]
            if g.ifs or not isinstance(g.target, ast.Name):
                raise Unsupported(f"unsupported comprehension at {where(e, cx.fname)}")
            rng = range_list(g.iter, cx)
            sub = Cx(cx.fname, cx.env, "Rat", cx.consts)
            sub.env[g.target.id] = (g.target.id, "Nat")
            b, tb = num(e.args[0].elt, sub, "Rat")
            return f"({rng}).map fun {g.target.id} => {cast(b, tb, 'Rat', e, cx)}"
        raise Unsupported(f"unsupported list return at {where(e, cx.fname)}")
    v, t = num(e, cx, cx.ret)
    return cast(v, t, cx.ret, e, cx)


def range_list(it, cx):
    """`range(a)`, `range(a, b)`, `range(a, b, 2)` -> Lean list of Nat"""
    if not (isinstance(it, ast.Call) and isinstance(it.func, ast.Name) and it.func.id == "range" and 1 <= len(it.args) <= 3):
        raise Unsupported(f"loop does not range over range(...) at {where(it, cx.fname)}")
    args = [num(a, cx, "Nat") for a in it.args]
    if any(t != "Nat" for _, t in args):
        raise Unsupported(f"non-natural range bound at {where(it, cx.fname)}")
    if len(args) == 1:
        return f"List.range {args[0][0]}"
    if len(args) == 2:
        return f"List.range' {args[0][0]} ({args[1][0]} - {args[0][0]})"
    if not is_lit(it.args[2]) or it.args[2].value <= 0:
        raise Unsupported(f"unsupported range step at {where(it, cx.fname)}")
    st = it.args[2].value
    return f"List.range' {args[0][0]} (({args[1][0]} - {args[0][0]} + {st - 1}) / {st}) {st}"


def target_key(t, cx):
    if isinstance(t, ast.Name):
        return t.id
    if isinstance(t, ast.Attribute):
        return ast.unparse(t)
    raise Unsupported(f"unsupported assignment target at {where(t, cx.fname)}")


def assign_expr(st, cx):
    """(key, lean expr, type) of `x = e` / `x op= e`"""
    if isinstance(st, ast.Assign) and len(st.targets) == 1:
        key = target_key(st.targets[0], cx)
        want = cx.env[key][1] if key in cx.env else None
        v, t = num(st.value, cx, want)
        # `value = 0 * coefs[0]` style initialisations are handled by the caller's env
        return key, v, t
    if isinstance(st, ast.AugAssign):
        key = target_key(st.target, cx)
        if key not in cx.env:
            raise Unsupported(f"augmented assignment to unknown {key} at {where(st, cx.fname)}")
        fake = ast.BinOp(left=st.target, op=st.op, right=st.value)
        ast.copy_location(fake, st)
        v, t = num(fake, cx, cx.env[key][1])
        return key, v, t
    raise Unsupported(f"unsupported statement {type(st).__name__} at {where(st, cx.fname)}")


def lean_name(key):
    return key.replace("self._", "s_").replace(".", "_")


def block(stmts, cx, ind="  "):
    """continuation-passing compilation of a statement list that ends in `return`"""
    if not stmts:
        raise Unsupported(f"function may fall off its end in {cx.fname}")
    st, rest = stmts[0], stmts[1:]
    if isinstance(st, ast.Return):
        return ind + value(st.value, cx)
    if isinstance(st, ast.Expr) and isinstance(st.value, ast.Call) and ast.unparse(st.value.func) == "float":
        return block(rest, cx, ind)          # `float(x)` used as a type check
    if isinstance(st, ast.Assign) and len(st.targets) == 1 and isinstance(st.targets[0], ast.Tuple):
        names = [t.id for t in st.targets[0].elts if isinstance(t, ast.Name)]
        src = ast.unparse(st.value)
        if src in cx.env and cx.env[src][1] == "PtPair" and len(names) == 2:
            a, b = cx.env[src][0]
            cx.env[names[0]] = (a, "Pt")
            cx.env[names[1]] = (b, "Pt")
            return block(rest, cx, ind)
        raise Unsupported(f"unsupported tuple assignment at {where(st, cx.fname)}")
    if isinstance(st, ast.Assign) and len(st.targets) == 1 and isinstance(st.targets[0], ast.Name) \
            and (isinstance(st.value, (ast.Compare, ast.BoolOp)) or (isinstance(st.value, ast.UnaryOp) and isinstance(st.value.op, ast.Not))):
        nm = st.targets[0].id
        c = prop(st.value, cx)
        cx.env[nm] = (nm, "Bool")
        return f"{ind}let {nm} : Bool := decide {c}\n" + block(rest, cx, ind)
    if isinstance(st, (ast.Assign, ast.AugAssign)):
        key, v, t = assign_expr(st, cx)
        nm = lean_name(key)
        cx.env[key] = (nm, t)
        return f"{ind}let {nm} : {t} := {v}\n" + block(rest, cx, ind)
    if isinstance(st, ast.If):
        c = prop(st.test, cx)
        sub = Cx(cx.fname, cx.env, cx.ret, cx.consts)
        if st.body and isinstance(st.body[-1], ast.Return):
            thn = block(st.body, sub, ind + "  ")
            els_stmts = (st.orelse + rest) if not (st.orelse and isinstance(st.orelse[-1], ast.Return)) else st.orelse
            if st.orelse and isinstance(st.orelse[-1], ast.Return) and rest:
                raise Unsupported(f"unreachable statements after if/else at {where(st, cx.fname)}")
            els = block(els_stmts, Cx(cx.fname, cx.env, cx.ret, cx.consts), ind + "  ")
            return f"{ind}if {c} then\n{thn}\n{ind}else\n{els}"
        raise Unsupported(f"`if` without return at {where(st, cx.fname)}")
    if isinstance(st, ast.For):
        if st.orelse or not isinstance(st.target, ast.Name):
            raise Unsupported(f"unsupported loop at {where(st, cx.fname)}")
        keys = set()
        for b in st.body:
            if not isinstance(b, (ast.Assign, ast.AugAssign)):
                raise Unsupported(f"unsupported loop body at {where(b, cx.fname)}")
            keys.add(target_key(b.targets[0] if isinstance(b, ast.Assign) else b.target, cx))
        if len(keys) != 1:
            raise Unsupported(f"loop updates {len(keys)} variables at {where(st, cx.fname)}")
        key = keys.pop()
        if key not in cx.env:
            raise Unsupported(f"loop variable {key} not initialised at {where(st, cx.fname)}")
        acc, accty = cx.env[key]
        it = st.iter
        sub = Cx(cx.fname, cx.env, cx.ret, cx.consts)
        if isinstance(it, ast.Call):
            lst = range_list(it, cx)
            sub.env[st.target.id] = (st.target.id, "Nat")
        else:
            l, tl = num(it, cx)
            if tl != "ListRat":
                raise Unsupported(f"loop over a non-list at {where(st, cx.fname)}")
            lst = l
            sub.env[st.target.id] = (st.target.id, "Rat")
        nm = lean_name(key)
        sub.env[key] = (nm, accty)
        body = ""
        for b in st.body:
            k, v, t = assign_expr(b, sub)
            if t != accty:
                v = cast(v, t, accty, b, cx)
            body += f"let {nm} : {accty} := {v}; "
        cx.env[key] = (nm, accty)
        return f"{ind}let {nm} : {accty} := ({lst}).foldl (fun ({nm} : {accty}) {st.target.id} => {body}{nm}) {acc}\n" + block(rest, cx, ind)
    raise Unsupported(f"unsupported statement {type(st).__name__} at {where(st, cx.fname)}")


def compile_fn(fn, fname, lean_sig, env, ret, consts=None, pre=None):
    cx = Cx(fname, env, ret, consts)
    body = body_wo_doc(fn)
    body = [s for s in body if not (isinstance(s, ast.If) and ast.unparse(s.test).startswith("not isinstance"))]   # `if not isinstance(other, Point2D): other = Point2D(other)`
    if pre:
        body = pre(body, cx)
    return f"def {lean_sig} :=\n{block(body, cx)}\n"


# ------------------------------------------------------------------ the units
def units(srcdir):
    """list of (name, thunk) ; each thunk returns Lean source of one definition"""
    import os
    poly = ast.parse(open(os.path.join(srcdir, "polygon.py")).read())
    curve = ast.parse(open(os.path.join(srcdir, "curve.py")).read())
    p2 = find_class(poly, "Point2D")
    box = find_class(poly, "Box")
    math_ = find_class(curve, "Math")
    inter = find_class(curve, "Intersection")
    out = []

    def need(cls, name):
        fn = find_func(cls, name)
        if fn is None:
            raise Unsupported(f"{cls.name}.{name} not found")
        return fn

    PT2 = {"self": ("self", "Pt"), "other": ("other", "Pt")}
    out.append(("inner", lambda: compile_fn(need(p2, "inner"), "polygon.py", "inner (self other : Pt) : Rat", PT2, "Rat")))
    out.append(("cross", lambda: compile_fn(need(p2, "cross"), "polygon.py", "cross (self other : Pt) : Rat", PT2, "Rat")))
    out.append(("ptEq", lambda: compile_fn(need(p2, "__eq__"), "polygon.py", "ptEq (self other : Pt) : Bool", PT2, "Bool")))
    mv = {"self": ("self", "Pt"), "vector": ("vector", "Pt"), "self._x": ("self.x", "Rat"), "self._y": ("self.y", "Rat")}
    out.append(("ptMove", lambda: compile_fn(need(p2, "move"), "polygon.py", "ptMove (self vector : Pt) : Pt", mv, "Pt")))
    sc = {"self": ("self", "Pt"), "xscale": ("xscale", "Rat"), "yscale": ("yscale", "Rat"), "self._x": ("self.x", "Rat"), "self._y": ("self.y", "Rat")}
    out.append(("ptScale", lambda: compile_fn(need(p2, "scale"), "polygon.py", "ptScale (self : Pt) (xscale yscale : Rat) : Pt", sc, "Pt")))

    def box_consts():
        c = {}
        for st in box.body:
            if isinstance(st, ast.Assign) and isinstance(st.value, ast.Constant) and isinstance(st.value.value, (int, float)):
                c["self." + st.targets[0].id] = st.value.value
        return c
    bx = {"self.lowpt": ("lo", "Pt"), "self.toppt": ("hi", "Pt"), "point": ("point", "Pt")}
    out.append(("boxContains", lambda: compile_fn(need(box, "__contains__"), "polygon.py", "boxContains (lo hi point : Pt) : Bool", bx, "Bool", box_consts())))

    def box_and():
        fn = need(box, "__and__")
        env = {"self.lowpt": ("alo", "Pt"), "self.toppt": ("ahi", "Pt"), "other.lowpt": ("blo", "Pt"), "other.toppt": ("bhi", "Pt")}

        def pre(body, cx):
            # `return None` -> True (disjoint) ; `return Box(...)` -> False
            class R(ast.NodeTransformer):
                def visit_Return(self, n):
                    isnone = isinstance(n.value, ast.Constant) and n.value.value is None
                    return ast.copy_location(ast.Return(value=ast.Constant(value=bool(isnone))), n)
            return [R().visit(s) for s in body]
        return compile_fn(fn, "polygon.py", "boxDisjoint (alo ahi blo bhi : Pt) : Bool", env, "Bool", None, pre)
    out.append(("boxDisjoint", box_and))

    NN = {"n": ("n", "Nat"), "i": ("i", "Nat")}

    def comb():
        fn = need(math_, "comb")
        return compile_fn(fn, "curve.py", "comb (n i : Nat) : Nat", NN, "Nat")
    out.append(("comb", comb))

    def horner():
        fn = need(math_, "horner_method")
        env = {"node": ("node", "Rat"), "coefs": ("coefs", "ListRat")}

        def pre(body, cx):
            # `value = 0 * coefs[0]` : a zero of the coefficients' type
            st = body[0]
            if isinstance(st, ast.Assign) and ast.unparse(st.value) in ("0 * coefs[0]", "0"):
                cx.env[st.targets[0].id] = ("(0 : Rat)", "Rat")
                return body[1:]
            raise Unsupported(f"unsupported initial value in horner_method at {where(st, 'curve.py')}")
        return compile_fn(fn, "curve.py", "horner (node : Rat) (coefs : List Rat) : Rat", env, "Rat", None, pre)
    out.append(("horner", horner))

    def linspace(pyname, leanname):
        fn = need(math_, pyname)
        return compile_fn(fn, "curve.py", f"{leanname} (npts : Nat) : List Rat", {"npts": ("npts", "Nat")}, "ListRat")
    out.append(("closedLinspace", lambda: linspace("closed_linspace", "closedLinspace")))
    out.append(("openLinspace", lambda: linspace("open_linspace", "openLinspace")))

    def caract():
        """the entry rule inside the double loop of Math.bezier_caract_matrix"""
        fn = need(math_, "bezier_caract_matrix")
        loops = [n for n in ast.walk(fn) if isinstance(n, ast.For)]
        outer = next((l for l in loops if any(isinstance(b, ast.For) for b in l.body)), None)
        if outer is None:
            raise Unsupported("double loop of bezier_caract_matrix not found")
        inner = next(b for b in outer.body if isinstance(b, ast.For))
        cx = Cx("curve.py", {"degree": ("deg", "Nat"), outer.target.id: ("i", "Nat"), inner.target.id: ("j", "Nat")}, "Int")
        if ast.unparse(outer.iter) != "range(degree + 1)":
            raise Unsupported(f"unsupported row range at {where(outer, 'curve.py')}")
        rng = inner.iter
        if not (isinstance(rng, ast.Call) and ast.unparse(rng.func) == "range" and len(rng.args) == 1):
            raise Unsupported(f"unsupported column range at {where(inner, 'curve.py')}")
        bound, tb = num(rng.args[0], cx, "Nat")
        stmts = list(inner.body)
        # val = ... ; matrix[i, j] = <expr>
        lets = ""
        for st in stmts[:-1]:
            k, v, t = assign_expr(st, cx)
            cx.env[k] = (k, t)
            lets += f"    let {k} : {t} := {v}\n"
        last = stmts[-1]
        if not (isinstance(last, ast.Assign) and ast.unparse(last.targets[0]) in ("matrix[i, j]", f"matrix[{outer.target.id}, {inner.target.id}]")):
            raise Unsupported(f"unsupported matrix assignment at {where(last, 'curve.py')}")
        v, t = num(last.value, cx, "Int")
        v = cast(v, t, "Int", last, cx)
        return f"def caractEntry (deg i j : Nat) : Int :=\n  if j < {bound} then\n{lets}    {v}\n  else 0\n"
    out.append(("caractEntry", caract))

    def lines():
        fn = need(inter, "lines")
        env = {"curvea.ctrlpoints": (("pta0", "pta1"), "PtPair"), "curveb.ctrlpoints": (("ptb0", "ptb1"), "PtPair")}
        return compile_fn(fn, "curve.py", "linesInter (pta0 pta1 ptb0 ptb1 : Pt) : Option (Rat × Rat)", env, "OptPair")
    out.append(("linesInter", lines))
    return out


# ------------------------------------------------------------------ the quadrature loop of IntegratePlanar.vertical (list pipeline)
def vertical_unit(srcdir):
    """`IntegratePlanar.vertical`: a pipeline of tuple comprehensions over the quadrature nodes, closed by `np.inner(weights, values)`.
    Calls into pynurbs / the curve object are mapped to the model (`curve(nodes)` ↦ map evalSeg, `curve.derivate()` ↦ derivSeg,
    `open_newton_cotes(n)` ↦ openWeights n — pynurbs is modelled, see DESIGN §9); everything else is translated."""
    import os
    curve = ast.parse(open(os.path.join(srcdir, "curve.py")).read())
    fn = find_func(find_class(curve, "IntegratePlanar"), "vertical")
    if fn is None:
        raise Unsupported("IntegratePlanar.vertical not found")
    fname = "curve.py"
    body = [s for s in body_wo_doc(fn) if not (isinstance(s, ast.If) and ast.unparse(s.test) == "nnodes is None")]
    env = {"curve": ("curve", "Seg"), "expx": ("expx", "Nat"), "expy": ("expy", "Nat"), "nnodes": ("nnodes", "Nat")}
    lines = []

    def lst(e):
        """list-valued expression -> (lean, elem type)"""
        src = ast.unparse(e)
        if isinstance(e, ast.Name) and e.id in env and env[e.id][1] in ("ListRat", "ListPt"):
            return env[e.id]
        if src == "Math.open_linspace(nnodes)":
            return "(Gen.openLinspace nnodes)", "ListRat"
        if src.endswith("open_newton_cotes(nnodes)"):
            return "(openWeights nnodes)", "ListRat"
        if isinstance(e, ast.Call) and isinstance(e.func, ast.Name) and e.func.id in env and env[e.func.id][1] == "Seg" and len(e.args) == 1:
            a, ta = lst(e.args[0])
            if ta == "ListRat":
                return f"({a}.map (evalSeg {env[e.func.id][0]}))", "ListPt"
        if isinstance(e, ast.Call) and isinstance(e.func, ast.Name) and e.func.id in ("tuple", "list") and len(e.args) == 1:
            g = e.args[0]
            if isinstance(g, (ast.GeneratorExp, ast.ListComp)) and len(g.generators) == 1 and not g.generators[0].ifs and isinstance(g.generators[0].target, ast.Name):
                it, tit = lst(g.generators[0].iter)
                v = g.generators[0].target.id
                cx = Cx(fname, {v: (v, "Pt" if tit == "ListPt" else "Rat"), "expx": ("expx", "Nat"), "expy": ("expy", "Nat")}, "Rat")
                b, tb = num(g.elt, cx, "Rat")
                return f"({it}.map fun {v} => {cast(b, tb, 'Rat', e, cx)})", "ListRat"
            # tuple(map(np.prod, zip(a, b, c)))
            if isinstance(g, ast.Call) and ast.unparse(g.func) == "map" and len(g.args) == 2 and ast.unparse(g.args[0]) in ("np.prod", "math.prod") \
                    and isinstance(g.args[1], ast.Call) and ast.unparse(g.args[1].func) == "zip":
                parts = [lst(a) for a in g.args[1].args]
                if len(parts) == 3 and all(t == "ListRat" for _, t in parts):
                    (a, _), (b, _), (c, _) = parts
                    return f"((List.zip {a} (List.zip {b} {c})).map fun abc => abc.1 * abc.2.1 * abc.2.2)", "ListRat"
        raise Unsupported(f"unsupported list expression {src[:60]} at {where(e, fname)}")

    for st in body:
        if isinstance(st, ast.Assign) and len(st.targets) == 1 and isinstance(st.targets[0], ast.Name):
            nm, src = st.targets[0].id, ast.unparse(st.value)
            if src == "curve.derivate()":
                env[nm] = (nm, "Seg")
                lines.append(f"  let {nm} : Seg := derivSeg curve")
                continue
            v, t = lst(st.value)
            env[nm] = (nm, t)
            lines.append(f"  let {nm} : List {'Pt' if t == 'ListPt' else 'Rat'} := {v}")
            continue
        if isinstance(st, ast.Return):
            r = st.value
            if isinstance(r, ast.Call) and ast.unparse(r.func) == "np.inner" and len(r.args) == 2:
                (a, ta), (b, tb) = lst(r.args[0]), lst(r.args[1])
                if ta == tb == "ListRat":
                    lines.append(f"  ((List.zip {a} {b}).map fun wf => wf.1 * wf.2).sum")
                    return "def vertical (curve : Seg) (expx expy nnodes : Nat) : Rat :=\n" + "\n".join(lines) + "\n"
            raise Unsupported(f"unsupported return {ast.unparse(r)[:60]} at {where(st, fname)}")
        raise Unsupported(f"unsupported statement {type(st).__name__} at {where(st, fname)}")
    raise Unsupported("IntegratePlanar.vertical has no return")


HEADER2 = "/- GENERATED by harness/translate_arith.py from /repo/src/shapepy — do not edit; regenerated on every run -/\n"


def regenerate_integrals(srcdir):
    out = [HEADER2, "import ShapeVerif.Model.Quadrature\nimport ShapeVerif.Gen.Arith\nset_option linter.unusedVariables false\n\nnamespace ShapeVerif.Gen\nopen ShapeVerif\n\n"]
    msgs = []
    try:
        out.append("/-- `IntegratePlanar.vertical(curve, expx, expy, nnodes)` -/\n" + vertical_unit(srcdir) + "\n")
    except Unsupported as e:
        msgs.append(f"vertical: unsupported construct: {e}")
        out.append(f"-- vertical: NOT TRANSLATED ({e})\n\n")
    except Exception as e:
        msgs.append(f"vertical: translator error {e!r}")
        out.append(f"-- vertical: NOT TRANSLATED ({e!r})\n\n")
    out.append("end ShapeVerif.Gen\n")
    return "".join(out), msgs


HEADER = "/- GENERATED by harness/translate_arith.py from /repo/src/shapepy — do not edit; regenerated on every run -/\n"


def regenerate(srcdir):
    """returns (lean source, messages)"""
    msgs = []
    out = [HEADER, "import ShapeVerif.Model.Basic\nset_option linter.unusedVariables false\n\nnamespace ShapeVerif.Gen\nopen ShapeVerif\n\n"]
    try:
        us = units(srcdir)
    except Exception as e:
        return "".join(out) + f"-- NOT TRANSLATED ({e!r})\n\nend ShapeVerif.Gen\n", [f"arith: {e!r}"]
    for name, thunk in us:
        try:
            out.append(thunk() + "\n")
        except Unsupported as e:
            msgs.append(f"{name}: unsupported construct: {e}")
            out.append(f"-- {name}: NOT TRANSLATED ({e})\n\n")
        except Exception as e:
            msgs.append(f"{name}: translator error {e!r}")
            out.append(f"-- {name}: NOT TRANSLATED ({e!r})\n\n")
    out.append("end ShapeVerif.Gen\n")
    return "".join(out), msgs
