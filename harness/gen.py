"""Generators.  Every random choice comes from the rng of the check context (seeded by VERIF_SEED)."""
import math
from fractions import Fraction as F


def rat(rng, lo=-8, hi=8, dens=(1, 1, 2, 4)):
    d = rng.choice(dens)
    return F(rng.randint(lo * d, hi * d), d)


def pt(rng, lo=-8, hi=8, dens=(1, 1, 2, 4)):
    return (rat(rng, lo, hi, dens), rat(rng, lo, hi, dens))


def param(rng, dens=(2, 3, 4, 5, 8)):
    d = rng.choice(dens)
    return F(rng.randint(1, d - 1), d)


def ctrl(rng, degree, **kw):
    return [pt(rng, **kw) for _ in range(degree + 1)]


def maxden(vals):
    m = 1
    for v in vals:
        if isinstance(v, (tuple, list)):
            m = max(m, maxden(v))
        else:
            m = max(m, F(v).denominator)
    return m


def as_kind(rng, v, kind):
    """numeric representation of an exact value: 'int' (if integral) / 'frac' / 'float'"""
    if kind == "float":
        return float(v)
    if kind == "int" and F(v).denominator == 1:
        return int(v)
    return F(v)


# ------------------------------------------------------------------ polygons
def area2(vs):
    n = len(vs)
    return sum(vs[i][0] * vs[(i + 1) % n][1] - vs[(i + 1) % n][0] * vs[i][1] for i in range(n))


def star_polygon(rng, n, R, cx=0, cy=0, den=4):
    """star-shaped polygon with rational vertices around (cx, cy), counter-clockwise"""
    while True:
        angs = sorted(rng.sample(range(0, 360, 5), n))
        gaps = [(angs[(i + 1) % n] - angs[i]) % 360 for i in range(n)]
        if max(gaps) <= 150:      # the centre is strictly inside, with margin
            break
    vs = []
    for a in angs:
        r = rng.uniform(R * 0.45, R)
        x = F(round(r * math.cos(math.radians(a)) * den), den) + cx
        y = F(round(r * math.sin(math.radians(a)) * den), den) + cy
        vs.append((x, y))
    return vs


def rect_polygon(rng, cx=0, cy=0, den=2):
    """slightly sheared quadrilateral (not axis-parallel, so it stays in general position)"""
    w, h = F(rng.randint(2, 10)), F(rng.randint(2, 10))
    sx, sy = F(rng.randint(-3, 3), 7), F(rng.randint(-3, 3), 11)
    pts = [(-w / 2, -h / 2), (w / 2, -h / 2), (w / 2, h / 2), (-w / 2, h / 2)]
    return [(x + sx * y + cx, y + sy * x + cy) for x, y in pts]


def lshape_polygon(rng, cx=0, cy=0):
    """an L / notch shape, sheared"""
    a, b = F(rng.randint(4, 9)), F(rng.randint(4, 9))
    c, d = F(rng.randint(1, int(a) - 2)), F(rng.randint(1, int(b) - 2))
    pts = [(0, 0), (a, 0), (a, b), (a - c, b), (a - c, d), (0, d)]
    sx, sy = F(rng.randint(-2, 2), 7), F(rng.randint(-2, 2), 11)
    return [(x + sx * y + cx - a / 2, y + sy * x + cy - b / 2) for x, y in pts]


def polygon(rng, cx=0, cy=0, R=8):
    k = rng.random()
    if k < 0.6:
        return star_polygon(rng, rng.randint(3, 9), R, cx, cy)
    if k < 0.8:
        return rect_polygon(rng, cx, cy)
    return lshape_polygon(rng, cx, cy)


# ---------------------------------------------------------------------------------------------------------------------------------------------
def separation(polys):
    """Smallest distance between a FEATURE POINT of the arrangement of the polygons (vertices, crossings, and the midpoint of every
    stretch of an edge between two features - the points the library evaluates) and an edge it does not lie on.  Exact rational
    geometry, distance returned as float.  shapepy decides `point on curve` with an ABSOLUTE 1e-6: drawings whose separation is near or
    below that are fragile territory (finding K8) and are not generated at random."""
    import math
    edges = []
    for pi, vs in enumerate(polys):
        n = len(vs)
        for i in range(n):
            edges.append((pi, (F(vs[i][0]), F(vs[i][1])), (F(vs[(i + 1) % n][0]), F(vs[(i + 1) % n][1]))))
    params = {k: {F(0), F(1)} for k in range(len(edges))}
    for i, (pa, a0, a1) in enumerate(edges):
        for j, (pb, b0, b1) in enumerate(edges):
            if pa >= pb:
                continue
            v0 = (a1[0] - a0[0], a1[1] - a0[1]); v1 = (b1[0] - b0[0], b1[1] - b0[1]); d = (b0[0] - a0[0], b0[1] - a0[1])
            den = v0[0] * v1[1] - v0[1] * v1[0]
            if den == 0:
                continue
            u = (d[0] * v1[1] - d[1] * v1[0]) / den; v = (d[0] * v0[1] - d[1] * v0[0]) / den
            if 0 <= u <= 1 and 0 <= v <= 1:
                params[i].add(u); params[j].add(v)
    best = float("inf")
    for i, (pa, a0, a1) in enumerate(edges):
        us = sorted(params[i])
        cand = set(us)
        for x in range(len(us)):
            for y in range(x + 1, len(us)):
                cand.add((us[x] + us[y]) / 2)
        for u in cand:
            p = (a0[0] + u * (a1[0] - a0[0]), a0[1] + u * (a1[1] - a0[1]))
            for j, (pb, b0, b1) in enumerate(edges):
                if j == i:
                    continue
                dv = (b1[0] - b0[0], b1[1] - b0[1]); n2 = dv[0] * dv[0] + dv[1] * dv[1]
                t = ((p[0] - b0[0]) * dv[0] + (p[1] - b0[1]) * dv[1]) / n2
                t = max(F(0), min(F(1), t))
                q = (b0[0] + t * dv[0], b0[1] + t * dv[1])
                d2 = (p[0] - q[0]) ** 2 + (p[1] - q[1]) ** 2
                if d2 == 0:
                    continue        # the point lies on that edge (a crossing or a shared vertex)
                best = min(best, math.sqrt(float(d2)))
    return best


def crosses(va, vb):
    """exact: some edge of polygon va properly crosses some edge of polygon vb"""
    def edges(vs):
        return [((F(vs[i][0]), F(vs[i][1])), (F(vs[(i + 1) % len(vs)][0]), F(vs[(i + 1) % len(vs)][1]))) for i in range(len(vs))]
    for a0, a1 in edges(va):
        for b0, b1 in edges(vb):
            v0 = (a1[0] - a0[0], a1[1] - a0[1]); v1 = (b1[0] - b0[0], b1[1] - b0[1]); d = (b0[0] - a0[0], b0[1] - a0[1])
            den = v0[0] * v1[1] - v0[1] * v1[0]
            if den == 0:
                continue
            u = (d[0] * v1[1] - d[1] * v1[0]) / den; v = (d[0] * v0[1] - d[1] * v0[0]) / den
            if 0 < u < 1 and 0 < v < 1:
                return True
    return False


def contacts(polys):
    """exact: two DIFFERENT polygons of the list have a common point (a vertex of one on an edge of the other, or two edges crossing)"""
    def edges(vs):
        return [((F(vs[i][0]), F(vs[i][1])), (F(vs[(i + 1) % len(vs)][0]), F(vs[(i + 1) % len(vs)][1]))) for i in range(len(vs))]
    E = [edges(vs) for vs in polys]
    for i in range(len(polys)):
        for j in range(len(polys)):
            if i == j:
                continue
            for v in polys[i]:
                p = (F(v[0]), F(v[1]))
                for b0, b1 in E[j]:
                    if (b1[0] - b0[0]) * (p[1] - b0[1]) - (b1[1] - b0[1]) * (p[0] - b0[0]) == 0 \
                            and min(b0[0], b1[0]) <= p[0] <= max(b0[0], b1[0]) and min(b0[1], b1[1]) <= p[1] <= max(b0[1], b1[1]):
                        return True
            if i < j and crosses(polys[i], polys[j]):
                return True
    return False


def dist_to_curves(p, shape):
    """float distance from point p to the boundary of a (polygonal) shapepy shape"""
    import math
    best = float("inf")
    px, py = float(p[0]), float(p[1])
    for j in getattr(shape, "jordans", ()):
        for sg in j.segments:
            a, b = sg.ctrlpoints[0], sg.ctrlpoints[-1]
            ax, ay, bx, by = float(a[0]), float(a[1]), float(b[0]), float(b[1])
            dx, dy = bx - ax, by - ay
            n2 = dx * dx + dy * dy
            t = 0.0 if n2 == 0 else max(0.0, min(1.0, ((px - ax) * dx + (py - ay) * dy) / n2))
            best = min(best, math.hypot(px - ax - t * dx, py - ay - t * dy))
    return best
