"""Translator fidelity: the Lean definitions REGENERATED from the Python source (Gen/Arith.lean) and the real Python functions they were
translated from are run on the same random exact inputs and must agree (differential test of harness/translate_arith.py itself).
`check(ctx, units)` is called from the property harnesses that rely on the corresponding unit."""
import os, subprocess
from fractions import Fraction as F
from harness import core

GENDRIVER = os.path.join(core.LEAN, ".lake", "build", "bin", "gendriver")


class GenDrv:
    def __init__(self):
        self.p = subprocess.Popen([GENDRIVER], stdin=subprocess.PIPE, stdout=subprocess.PIPE, text=True)

    def ask(self, line):
        self.p.stdin.write(line + "\n"); self.p.stdin.flush()
        return self.p.stdout.readline().rstrip("\n")

    def close(self):
        try:
            self.p.stdin.close(); self.p.wait(timeout=5)
        except Exception:
            self.p.kill()


def fr(x):
    x = F(x)
    return str(x.numerator) if x.denominator == 1 else f"{x.numerator}/{x.denominator}"


def ept(p):
    return f"{fr(p[0])} {fr(p[1])}"


def rr(rng, lo=-9, hi=9):
    return F(rng.randint(lo * 4, hi * 4), rng.choice([1, 1, 2, 3, 4, 7]))


def rpt(rng):
    return (rr(rng), rr(rng))


def check(ctx, units, n=None):
    if not os.path.exists(GENDRIVER):
        ctx.notes.append("translator fidelity: gendriver is not built (a unit is outside the translator's grammar); skipped")
        return
    from shapepy.polygon import Point2D, Box
    from shapepy.curve import Math, Intersection, PlanarCurve
    import random
    rng = random.Random(ctx.seed * 7919 + 17)      # own stream: the property's generators are not shifted by this test
    n = n or (40 if ctx.quick else 400)
    g = GenDrv()
    try:
        for unit in units:
            for it in range(n):
                if unit in ("inner", "cross"):
                    p, q = rpt(rng), rpt(rng)
                    exp = fr(getattr(Point2D(*p), unit)(Point2D(*q)))
                    got = g.ask(f"{unit} {ept(p)} {ept(q)}")
                    inp = {"p": p, "q": q}
                elif unit == "pteq":
                    p = rpt(rng)
                    d = rng.choice([F(0), F(1, 10**9), F(1, 10**9 + 1), F(2, 10**9), F(1, 2 * 10**9), F(999999999, 10**18), F(1000000001, 10**18), rr(rng)])
                    q = (p[0] + d * rng.choice([0, 1, -1]), p[1] + d * rng.choice([0, 1, -1]))
                    # (float tolerance against exact Fractions: Python compares Fraction with float exactly)
                    class Raw(Point2D):
                        pass
                    a, b = Point2D(0, 0), Point2D(0, 0)
                    a._x, a._y, b._x, b._y = p[0], p[1], q[0], q[1]
                    exp = "T" if a == b else "F"
                    got = g.ask(f"pteq {ept(p)} {ept(q)}")
                    inp = {"p": p, "q": q}
                elif unit == "move":
                    p, v = rpt(rng), rpt(rng)
                    r = Point2D(*p).move(Point2D(*v))
                    exp, got, inp = ept((r[0], r[1])), g.ask(f"move {ept(p)} {ept(v)}"), {"p": p, "v": v}
                elif unit == "scale":
                    p, a, b = rpt(rng), rr(rng), rr(rng)
                    r = Point2D(*p).scale(a, b)
                    exp, got, inp = ept((r[0], r[1])), g.ask(f"scale {ept(p)} {fr(a)} {fr(b)}"), {"p": p, "sx": a, "sy": b}
                elif unit == "boxin":
                    lo = rpt(rng); hi = (lo[0] + abs(rr(rng)), lo[1] + abs(rr(rng)))
                    # offsets at 0, half and twice the 1e-6 margin (NOT at the margin itself: `Fraction - float` is float arithmetic in Python,
                    # so the code's threshold is the rounded double lo - 1e-6, the model's the exact rational; they differ in the 16th digit)
                    e = rng.choice([F(0), F(1, 2 * 10**6), F(2, 10**6), F(999, 10**9), F(1001, 10**9), rr(rng)])
                    base = rng.choice([lo, hi, (lo[0], hi[1]), ((lo[0] + hi[0]) / 2, (lo[1] + hi[1]) / 2), rpt(rng)])
                    p = (base[0] + e * rng.choice([0, 1, -1]), base[1] + e * rng.choice([0, 1, -1]))
                    P = Point2D(0, 0); P._x, P._y = p
                    exp = "T" if (P in Box(Point2D(*lo), Point2D(*hi))) else "F"
                    got, inp = g.ask(f"boxin {ept(lo)} {ept(hi)} {ept(p)}"), {"lo": lo, "hi": hi, "p": p}
                elif unit == "boxdisj":
                    alo = rpt(rng); ahi = (alo[0] + abs(rr(rng)), alo[1] + abs(rr(rng)))
                    blo = rng.choice([rpt(rng), ahi, (ahi[0], alo[1]), (alo[0] - 1, alo[1] - 1)]); bhi = (blo[0] + abs(rr(rng)), blo[1] + abs(rr(rng)))
                    exp = "T" if (Box(Point2D(*alo), Point2D(*ahi)) & Box(Point2D(*blo), Point2D(*bhi))) is None else "F"
                    got, inp = g.ask(f"boxdisj {ept(alo)} {ept(ahi)} {ept(blo)} {ept(bhi)}"), {"a": (alo, ahi), "b": (blo, bhi)}
                elif unit == "comb":
                    nn = rng.randint(0, 30); i = rng.randint(0, nn)
                    exp, got, inp = str(Math.comb(nn, i)), g.ask(f"comb {nn} {i}"), {"n": nn, "i": i}
                elif unit == "horner":
                    t = rr(rng); cs = [rr(rng) for _ in range(rng.randint(1, 8))]
                    exp, got, inp = fr(Math.horner_method(t, tuple(cs))), g.ask(f"horner {fr(t)} {len(cs)} " + " ".join(fr(c) for c in cs)), {"t": t, "coefs": cs}
                elif unit == "caract":
                    d = rng.randint(0, 9); i = rng.randint(0, d); j = rng.randint(0, d)
                    exp, got, inp = str(int(Math.bezier_caract_matrix(d)[i][j])), g.ask(f"caract {d} {i} {j}"), {"degree": d, "i": i, "j": j}
                elif unit in ("open", "closed"):
                    k = rng.randint(2, 40)
                    real = Math.open_linspace(k) if unit == "open" else Math.closed_linspace(k)
                    exp, got, inp = " ".join(fr(x) for x in real), g.ask(f"{unit} {k}"), {"npts": k}
                elif unit == "lines":
                    a0, a1, b0, b1 = rpt(rng), rpt(rng), rpt(rng), rpt(rng)
                    m = rng.random()
                    if m < 0.2:       # touching at an end point / T-junction
                        b0 = a1
                    elif m < 0.3:     # parallel
                        b1 = (b0[0] + (a1[0] - a0[0]) * 2, b0[1] + (a1[1] - a0[1]) * 2)
                    elif m < 0.4:     # crossing exactly at a parameter on the border of [0, 1]
                        b0 = (a0[0] + (a1[0] - a0[0]), a0[1] + (a1[1] - a0[1])); b1 = (b0[0] + rr(rng), b0[1] + rr(rng))
                    if a0 == a1 or b0 == b1:
                        continue
                    r = Intersection.lines(PlanarCurve([Point2D(*a0), Point2D(*a1)]), PlanarCurve([Point2D(*b0), Point2D(*b1)]))
                    exp = "none" if len(r) == 0 else f"{fr(r[0])} {fr(r[1])}"
                    got, inp = g.ask(f"lines {ept(a0)} {ept(a1)} {ept(b0)} {ept(b1)}"), {"a": (a0, a1), "b": (b0, b1)}
                else:
                    raise ValueError(unit)
                ctx.case("translator-fidelity:" + unit, (unit, repr(inp)), nontrivial=False)
                ctx.check(got == exp, f"the Lean definition regenerated from the source ({unit}) disagrees with the running Python function", {"unit": unit, **inp}, exp, got)
    finally:
        g.close()
