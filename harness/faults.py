"""Exception / interrupt injection at the k-th internal call boundary of an operation (sys.settrace)."""
import sys


class Boom(BaseException):
    """an exception no library code catches on purpose"""


def _is_lib(frame):
    fn = frame.f_code.co_filename
    return "shapepy" in fn or "pynurbs" in fn


def _wants_lines(frame):
    """line events are also fault points inside jordancurve.py: its in-place operations (split, the segments setter, invert, the signed-length cache)
    have windows between two statements that contain no Python-level call (`list.pop` … `list.insert`), where an asynchronous interrupt can land"""
    return frame.f_code.co_filename.endswith("jordancurve.py")


def _is_event(frame, event):
    return (event == "call" and _is_lib(frame)) or (event == "line" and _wants_lines(frame))


def profile_calls(fn):
    """run fn once and return the list of callee names of every library call event, in order"""
    sites = []

    def tracer(frame, event, arg):
        if _is_event(frame, event):
            back = frame.f_back
            sites.append((back.f_code.co_name if back else "?", frame.f_code.co_name) if event == "call" else ("line", frame.f_code.co_name, frame.f_lineno))
        return tracer if _wants_lines(frame) else None
    sys.settrace(tracer)
    try:
        fn()
    finally:
        sys.settrace(None)
    return sites


def run_with_fault(fn, k, exc_type=Boom):
    """run fn and raise exc_type() when the k-th library call event happens; returns ('raised', exc) / ('completed', value)"""
    state = {"n": 0}

    def tracer(frame, event, arg):
        if _is_event(frame, event):
            if state["n"] == k:
                state["n"] += 1
                raise exc_type()
            state["n"] += 1
        return tracer if _wants_lines(frame) else None
    sys.settrace(tracer)
    try:
        try:
            v = fn()
        finally:
            sys.settrace(None)
        return "completed", v
    except BaseException as ex:     # includes SystemError raised by numpy callbacks that swallow the injected exception
        sys.settrace(None)
        return "raised", ex


def stratified_points(sites, per_site=3, limit=60, rng=None):
    """indices covering every distinct (caller, callee) site: first, middle and last occurrence"""
    by = {}
    for i, s in enumerate(sites):
        by.setdefault(s, []).append(i)
    pts = set()
    for s, idx in by.items():
        picks = [idx[0], idx[len(idx) // 2], idx[-1]][:per_site]
        pts.update(picks)
    pts = sorted(pts)
    if len(pts) > limit and rng is not None:
        keep = set(rng.sample(pts, limit))
        pts = [p for p in pts if p in keep]
    return pts


def fingerprint(objs):
    """cheap syntactic state of operands: cached length, segment identities and control-point values of every curve"""
    out = []
    for S in objs:
        js = getattr(S, "jordans", None)
        if js is None:
            js = [S] if hasattr(S, "segments") else []
        for j in js:
            out.append((getattr(j, "_JordanCurve__lenght", None),
                        tuple(tuple((p._x, p._y) for p in s.ctrlpoints) for s in j.segments)))
    return tuple(out)


def fingerprint_light(objs):
    """cached length and identity/length of the segment tuple of every curve (cache writes, re-assigned segment lists)"""
    out = []
    for S in objs:
        js = getattr(S, "jordans", None)
        if js is None:
            js = [S] if hasattr(S, "segments") else []
        for j in js:
            segs = getattr(j, "_JordanCurve__segments", ())
            out.append((getattr(j, "_JordanCurve__lenght", None), id(segs), len(segs)))
    return tuple(out)


def dirty_points(fn, objs, limit=40, rng=None):
    """one profiling run that records, at every library call event, whether the operands' syntactic state differs from the
    state at entry; returns (number of events, fault points): the first and the last event of every maximal run of events
    with one and the same non-initial state - i.e. EVERY distinct intermediate state of the operands observable at a call
    boundary is hit - plus the sites list for reporting."""
    first = (fingerprint_light(objs), fingerprint(objs))
    seen = []      # (event index, state id)
    states = {}
    sites = []
    last = {"light": first[0], "full": first[1]}

    def tracer(frame, event, arg):
        if _is_event(frame, event):
            back = frame.f_back
            sites.append((back.f_code.co_name if back else "?", frame.f_code.co_name) if event == "call" else ("line", frame.f_code.co_name, frame.f_lineno))
            light = fingerprint_light(objs)
            # the full state (all control-point values) is re-read when the light state moved and at every 64th event
            if light != last["light"] or len(sites) % 64 == 0:
                last["light"], last["full"] = light, fingerprint(objs)
            fp = (light, last["full"])
            if fp != first:
                sid = states.setdefault(fp, len(states))
                seen.append((len(sites) - 1, sid))
        return tracer if _wants_lines(frame) else None
    sys.settrace(tracer)
    try:
        fn()
    finally:
        sys.settrace(None)
    pts = set()
    prev = None
    for idx, sid in seen:
        if prev is None or prev[1] != sid or prev[0] != idx - 1:
            pts.add(idx)
            if prev is not None:
                pts.add(prev[0])
        prev = (idx, sid)
    if prev is not None:
        pts.add(prev[0])
    pts = sorted(pts)
    if len(pts) > limit and rng is not None:
        keep = set(rng.sample(pts, limit))
        pts = [p for p in pts if p in keep]
    return len(sites), pts, sites, len(states)
