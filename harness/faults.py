"""Exception / interrupt injection at the k-th internal call boundary of an operation (sys.settrace)."""
import sys


class Boom(BaseException):
    """an exception no library code catches on purpose"""


def _is_lib(frame):
    fn = frame.f_code.co_filename
    return "shapepy" in fn or "pynurbs" in fn


def profile_calls(fn):
    """run fn once and return the list of callee names of every library call event, in order"""
    sites = []

    def tracer(frame, event, arg):
        if event == "call" and _is_lib(frame):
            back = frame.f_back
            sites.append((back.f_code.co_name if back else "?", frame.f_code.co_name))
        return None
    sys.settrace(tracer)
    try:
        fn()
    finally:
        sys.settrace(None)
    return sites


def run_with_fault(fn, k, exc_type=Boom):
    """run fn and raise exc_type() when the k-th library call event happens; returns ('raised', exc) / ('completed', value)"""
    state = {"n": 0}

    def tracer(frame, event, arg):
        if event == "call" and _is_lib(frame):
            if state["n"] == k:
                state["n"] += 1
                raise exc_type()
            state["n"] += 1
        return None
    sys.settrace(tracer)
    try:
        try:
            v = fn()
        finally:
            sys.settrace(None)
        return "completed", v
    except BaseException as ex:     # includes SystemError raised by numpy callbacks that swallow the injected exception
        sys.settrace(None)
        return "raised", ex


def stratified_points(sites, per_site=3, limit=60, rng=None):
    """indices covering every distinct (caller, callee) site: first, middle and last occurrence"""
    by = {}
    for i, s in enumerate(sites):
        by.setdefault(s, []).append(i)
    pts = set()
    for s, idx in by.items():
        picks = [idx[0], idx[len(idx) // 2], idx[-1]][:per_site]
        pts.update(picks)
    pts = sorted(pts)
    if len(pts) > limit and rng is not None:
        keep = set(rng.sample(pts, limit))
        pts = [p for p in pts if p in keep]
    return pts
