"""Deterministic corpus of NON-transversal operand pairs (shared vertices, shared edges, T-junctions, chords through vertices,
equal shapes, complements).  Every (pair, operation) outcome on the unchanged tree is dispositioned: right, or a catalogued
finding K2-… in known_findings.json.  Polygons are given by vertex lists (counter-clockwise = bounded)."""
from fractions import Fraction as F

SQ = [(0, 0), (2, 0), (2, 2), (0, 2)]
L = [(0, 0), (3, 0), (3, 3), (2, 3), (2, 1), (0, 1)]
U = [(0, 0), (3, 0), (3, 3), (2, 3), (2, 1), (1, 1), (1, 3), (0, 3)]
HEX = [(0, 0), (2, 0), (3, 1), (2, 2), (0, 2), (-1, 1)]

PAIRS = {
    "equal-squares": (SQ, SQ),
    "equal-rotated-start": (SQ, SQ[2:] + SQ[:2]),
    "side-by-side-shared-edge": (SQ, [(2, 0), (4, 0), (4, 2), (2, 2)]),
    "shared-edge-part": (SQ, [(2, F(1, 2)), (4, F(1, 2)), (4, F(3, 2)), (2, F(3, 2))]),
    "touch-at-vertex": (SQ, [(2, 2), (4, 2), (4, 4), (2, 4)]),
    "t-junction-vertex-on-edge": (SQ, [(1, 2), (3, 3), (0, 4)]),
    "t-junction-crossing": (SQ, [(1, 0), (3, -1), (3, 1)]),
    "triangle-on-square-diagonal": ([(0, 0), (2, 0), (2, 2)], SQ),
    "square-contains-diagonal-triangle": (SQ, [(0, 0), (2, 0), (2, 2)]),
    "rect-on-hexagon-vertices": ([(0, 0), (2, 0), (2, 2), (0, 2)], HEX),
    "hexagon-vs-rect-on-its-vertices": (HEX, [(0, 0), (2, 0), (2, 2), (0, 2)]),
    "triangle-vertices-on-L": ([(0, 1), (3, 0), (2, 3)], L),
    "quad-vertices-on-L": ([(0, 1), (1, 0), (3, 2), (2, 3)], L),
    "notch-filler-in-U": ([(1, 1), (2, 1), (2, 3), (1, 3)], U),
    "U-and-notch-filler": (U, [(1, 1), (2, 1), (2, 3), (1, 3)]),
    "inner-sharing-corner": (SQ, [(0, 0), (1, 0), (1, 1), (0, 1)]),
    "inner-sharing-edge": (SQ, [(0, 0), (2, 0), (2, 1), (0, 1)]),
    "cross-through-vertex": (SQ, [(1, 1), (3, 3), (1, 3)]),
    "collinear-overlap-offset": (SQ, [(1, 0), (3, 0), (3, 1), (1, 1)]),
    "square-vs-own-complement": (SQ, SQ[::-1]),
    "square-vs-complement-of-neighbour": (SQ, [(2, 0), (4, 0), (4, 2), (2, 2)][::-1]),
    "complement-contains-touching": (SQ[::-1], [(2, 2), (4, 2), (4, 4), (2, 4)]),
    # float coordinates: a vertex of one polygon on the interior of an edge of the other (the two crossing parameters found for
    # its incident edges differ in their last bits)
    "float-t-junction-outside": ([(0.0, 0.0), (0.3, 0.0), (0.3, 0.3), (0.0, 0.3)], [(0.1, 0.3), (0.25, 0.5), (0.05, 0.45)]),
    "float-t-junction-inside": ([(0.0, 0.0), (0.3, 0.0), (0.3, 0.3), (0.0, 0.3)], [(0.1, 0.3), (0.05, 0.15), (0.2, 0.1)]),
    "float-t-junction-through": ([(0.0, 0.0), (0.3, 0.0), (0.3, 0.3), (0.0, 0.3)], [(0.1, 0.3), (0.4, 0.1), (0.4, 0.5)]),
    "float-t-junction-side": ([(0.1, 0.1), (0.7, 0.1), (0.7, 0.7), (0.1, 0.7)], [(0.7, 0.3), (0.9, 0.2), (0.9, 0.6)]),
    "float-t-junction-through-side": ([(0.1, 0.1), (0.7, 0.1), (0.7, 0.7), (0.1, 0.7)], [(0.7, 0.3), (0.3, 0.9), (1.1, 0.8)]),
}

OPS = ("or", "and", "sub", "xor")


def sig(name, op):
    return {"family": "degenerate-corpus", "pair": name, "op": op}


def build(name):
    from harness import impl
    va, vb = PAIRS[name]
    if name.startswith("float-"):
        # real objects get the floats; the model gets their exact dyadic values
        return [(F(x), F(y)) for x, y in va], [(F(x), F(y)) for x, y in vb], impl.poly(va), impl.poly(vb)
    va = [(F(x), F(y)) for x, y in va]
    vb = [(F(x), F(y)) for x, y in vb]
    return va, vb, impl.poly(va), impl.poly(vb)


def evaluate(ctx, aspect, names=None):
    """aspect: 'region' (C01), 'subset' (C03), 'measure' (C05), 'wellformed' (C06)"""
    from harness import core, impl
    drv = ctx.drv
    for name in (names or list(PAIRS)):
        va, vb, A, B = build(name)
        ta, tb = "S " + core.epoly(va), "S " + core.epoly(vb)
        if aspect == "subset":
            ctx.case("degenerate-corpus", (name, "subset"))
            try:
                with impl.time_limit(60):
                    got = (B in A, A in B)
            except (impl.Timeout, Exception) as ex:
                ctx.fail("degenerate pair: containment raised", {"pair": name}, got=repr(ex), sig=sig(name, "in")); continue
            exp = (drv.ask(f"subset {tb} {ta}") == "ok", drv.ask(f"subset {ta} {tb}") == "ok")
            ctx.check(got == exp, "degenerate pair: `B in A` is not the subset relation", {"pair": name, "A": va, "B": vb}, exp, got, sig=sig(name, "in"))
            continue
        results = {}
        for op in OPS:
            _, _, A, B = build(name)
            ctx.case("degenerate-corpus", (name, op, aspect))
            try:
                with impl.time_limit(60):
                    results[op] = impl.OPS[op](A, B)
            except impl.Timeout:
                ctx.fail("degenerate pair: operator did not return", {"pair": name, "op": op}, sig=sig(name, op)); continue
            except BaseException as ex:
                # non-transversal operands may raise (C01 exempts them); a wrong answer may not be returned
                ctx.count("degenerate-raised:" + type(ex).__name__)
                continue
            R = results[op]
            d = {"pair": name, "op": op, "A": va, "B": vb}
            if aspect == "region":
                ans = drv.ask(f"regioncheck {op} {ta} {tb} {core.eshape(R)}")
                ctx.check(ans == "ok", "degenerate pair: result region differs from the pointwise meaning", {**d, "witness": ans}, sig=sig(name, op))
            elif aspect == "wellformed":
                k = impl.kind(R)
                # what the pointwise meaning says: is A op B the empty set / the whole plane?
                exp_empty = drv.ask(f"regioncheck {op} {ta} {tb} E") == "ok"
                exp_whole = drv.ask(f"regioncheck {op} {ta} {tb} W") == "ok"
                if exp_empty or exp_whole:
                    ctx.check(k == ("Empty" if exp_empty else "Whole"), "degenerate pair: empty/whole result is not the singleton", {**d, "expected": "Empty" if exp_empty else "Whole"}, None, k, sig=sig(name, op))
                if k in ("Empty", "Whole"):
                    continue
                tok = core.eshape(R)
                ctx.check(drv.ask("rempty " + tok) == "F" and drv.ask("rwhole " + tok) == "F", "degenerate pair: empty/whole result is not the singleton", d, sig=sig(name, op))
                chain = all(s.ctrlpoints[-1] is j.segments[(i + 1) % len(j.segments)].ctrlpoints[0] and tuple(s.ctrlpoints[0]) != tuple(s.ctrlpoints[-1])
                            for j in R.jordans for i, s in enumerate(j.segments))
                ctx.check(chain, "degenerate pair: boundary is not a closed chain without zero-length pieces", d, sig=sig(name, op))
        if aspect == "measure" and len(results) == 4:
            from harness.props.c05 import m, MOMS
            _, _, A, B = build(name)
            for (a, b) in MOMS:
                ma, mb, mu, mi, md, mx = (m(S, a, b) for S in (A, B, results["or"], results["and"], results["sub"], results["xor"]))
                if name.startswith("float-"):
                    tol = 1e-5 * max(1e-12, max(abs(float(v)) for v in (ma, mb, mu, mi, md, mx)))
                    ok = abs(mu + mi - ma - mb) <= tol and abs(md - (ma - mi)) <= tol and abs(mx - (mu - mi)) <= tol
                else:
                    ok = (mu + mi == ma + mb) and (md == ma - mi) and (mx == mu - mi)
                ctx.check(ok, "degenerate pair: inclusion-exclusion identities", {"pair": name, "a": a, "b": b}, None, [str(v) for v in (ma, mb, mu, mi, md, mx)], sig=sig(name, "measure"))
