"""Deterministic corpus of curved operand pairs (circle of quadratic arcs vs rotated square).  Curved boolean
operations rely on a multi-start Newton search; entries K3-* are catalogued findings (known_findings.json), the
others must be right.  Each entry: name -> (radius, circle centre, square side, square centre, rotation angle)."""

PAIRS = {
    "cs-1": (1.0, (0.1, -0.2), 1.4, (0.7, 0.1), 0.1),
    "cs-2": (2.0, (-0.2, 0.1), 2.8, (1.5, -0.3), 0.2),
    "cs-3": (1.5, (0.0, 0.0), 2.1, (1.2, 0.2), 0.25),
    "cs-4": (1.0, (0.3, 0.3), 1.4, (0.8, -0.1), 0.05),
    "cs-5": (1.0, (0.0, 0.0), 1.5, (1.0, 0.0), 0.0),
    "cs-6": (2.0, (0.25, -0.1), 2.5, (1.3, 0.3), 0.15),
    # strongly curved arcs (a circle of 4 quadratic arcs): second moments of the pieces need the full node count
    "c4-1": (1.0, (0.1, -0.2), 1.4, (0.7, 0.1), 0.1, 4),
    "c4-2": (2.0, (0.25, -0.1), 2.5, (1.3, 0.3), 0.15, 4),
    "K3-wrong-1": (1.0, (0.247, -0.172), 1.4, (0.828, 0.04), 0.26),
    "K3-wrong-2": (1.5, (0.068, -0.297), 2.1, (0.911, -0.117), 0.231),
    "K3-raises-1": (1.0, (-0.105, -0.218), 1.4, (0.753, 0.199), 0.219),
}


def build(name):
    from shapepy import Primitive
    r, cc, side, sc, ang = PAIRS[name][:5]
    nd = PAIRS[name][5] if len(PAIRS[name]) > 5 else 16
    C = Primitive.circle(radius=r, center=cc, ndivangle=nd)
    O = Primitive.square(side=side, center=sc)
    O.rotate(ang)
    return C, O


def sig(name):
    return {"family": "curved-corpus", "pair": name}
