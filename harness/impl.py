"""Helpers around the real implementation: building shapes, expressions, time limits, snapshots."""
import signal, copy, math
from fractions import Fraction as F
from harness import core, gen


class Timeout(BaseException):
    pass


def _alarm(signum, frame):
    raise Timeout()


class time_limit:
    """`with time_limit(20): ...` raises Timeout (a BaseException) when the body hangs"""
    def __init__(self, seconds):
        self.s = seconds

    def __enter__(self):
        self.old = signal.signal(signal.SIGALRM, _alarm)
        signal.alarm(self.s)

    def __exit__(self, *a):
        signal.alarm(0)
        signal.signal(signal.SIGALRM, self.old)
        return False


def poly(vs):
    from shapepy import Primitive
    return Primitive.polygon([tuple(v) for v in vs])


OPS = {"or": lambda a, b: a | b, "and": lambda a, b: a & b, "sub": lambda a, b: a - b, "xor": lambda a, b: a ^ b,
       "add": lambda a, b: a + b, "mul": lambda a, b: a * b}
CANON = {"add": "or", "mul": "and"}
SYMBOL = {"or": "|", "and": "&", "sub": "-", "xor": "^", "add": "+", "mul": "*"}


def rand_expr(rng, leaves, ops=("or", "and", "sub", "xor", "add", "mul"), pinv=0.15):
    """read-once expression tree over the leaf indices (each leaf used exactly once)"""
    leaves = list(leaves)
    rng.shuffle(leaves)

    def build(ls):
        if len(ls) == 1:
            e = ("L", ls[0])
        else:
            k = rng.randint(1, len(ls) - 1)
            e = ("B", rng.choice(ops), build(ls[:k]), build(ls[k:]))
        if rng.random() < pinv:
            e = ("I", rng.choice(["~", "neg"]), e)
        return e
    return build(leaves)


def eval_expr(e, shapes):
    if e[0] == "L":
        return shapes[e[1]]
    if e[0] == "I":
        v = eval_expr(e[2], shapes)
        return ~v if e[1] == "~" else -v
    return OPS[e[1]](eval_expr(e[2], shapes), eval_expr(e[3], shapes))


def enc_expr(e):
    if e[0] == "L":
        return f"L {e[1]}"
    if e[0] == "I":
        return "I " + enc_expr(e[2])
    return f"B {CANON.get(e[1], e[1])} {enc_expr(e[2])} {enc_expr(e[3])}"


def show_expr(e):
    if e[0] == "L":
        return f"s{e[1]}"
    if e[0] == "I":
        return ("~" if e[1] == "~" else "-") + show_expr(e[2])
    return f"({show_expr(e[2])} {SYMBOL[e[1]]} {show_expr(e[3])})"


def expr_ops(e, acc=None):
    acc = acc if acc is not None else []
    if e[0] == "I":
        acc.append(e[1]); expr_ops(e[2], acc)
    elif e[0] == "B":
        acc.append(e[1]); expr_ops(e[2], acc); expr_ops(e[3], acc)
    return acc


def kind(s):
    return type(s).__name__.replace("Shape", "")


def leaf_family(ctx, n, spread=6, pinv=0.25, tries=200):
    """n polygons (some inverted) jointly in general position (decided by the Lean model)"""
    rng = ctx.rng
    for _ in range(tries):
        vss = []
        for i in range(n):
            cx, cy = rng.randint(-spread, spread), rng.randint(-spread, spread)
            vs = gen.polygon(rng, cx, cy, R=rng.choice([4, 6, 8]))
            vss.append(vs)
        ok = ctx.drv.ask("genpos " + core.elist(vss, core.epoly)) == "T"
        ctx.count("genpos-accepted" if ok else "genpos-rejected")
        if not ok:
            continue
        out = []
        for vs in vss:
            if gen.area2(vs) < 0:
                vs = vs[::-1]
            inv = rng.random() < pinv
            out.append(vs[::-1] if inv else vs)
        return out
    raise RuntimeError("could not generate a general-position family")


def scaled_family(ctx, n, scales=(F(1, 50000), F(1, 20000), F(1, 5000), F(1, 200), F(1000)), pinv=0.25, tries=300, force=None, crossing=False):
    """n integer-coordinate polygons jointly in general position, all multiplied by one exact scale factor (drawings in other
    units).  Integer coordinates keep every crossing point's denominator below 10^9 after scaling, so results stay exact.

    Fragile territory (finding K8): the library decides "point on curve" with an ABSOLUTE 1e-6, so a drawing whose features come closer than that -
    at ITS unit - is decided differently from the same drawing at unit 1.  Random drawings keep 20x that distance at their unit: the separation is
    computed once at unit 1 (it scales linearly), up to 24 candidate drawings are tried for the wanted unit, and if none is roomy enough the roomiest
    one is used at the smallest unit of the list that it supports.  The catalogued near-tolerance drawing is a deterministic corpus entry of C01."""
    rng = ctx.rng
    k = rng.choice(scales) if force is None else force
    best = None
    cands = 0
    for _ in range(tries):
        vss = [gen.star_polygon(rng, rng.randint(3, 7), rng.choice([12, 20, 30]), rng.randint(-15, 15), rng.randint(-15, 15), den=1) for _ in range(n)]
        if any(len(set(vs)) != len(vs) for vs in vss):
            continue
        if ctx.drv.ask("genpos " + core.elist(vss, core.epoly)) != "T":
            continue
        out = []
        for vs in vss:
            if gen.area2(vs) < 0:
                vs = vs[::-1]
            if rng.random() < pinv:
                vs = vs[::-1]
            out.append([(F(x), F(y)) for x, y in vs])
        if crossing and not gen.crosses(out[0], out[1]):
            continue
        sep1 = gen.separation(out)
        cands += 1
        if best is None or sep1 > best[0]:
            best = (sep1, out)
        if sep1 * float(k) >= 2e-5 or cands >= 24:
            break
    if best is None:
        raise RuntimeError("could not generate a scaled general-position family")
    sep1, out = best
    if sep1 * float(k) < 2e-5:
        ctx.count("scaled-family:unit-raised-near-tolerance")
        allowed = sorted(u for u in set(scales) | {F(1, 200), F(1)} if sep1 * float(u) >= 2e-5)
        k = allowed[0] if allowed else F(1000)
    ctx.count("scale:" + str(k))
    return [[(x * k, y * k) for x, y in vs] for vs in out], k


def shape_tokens_of_vertices(vs):
    return "S " + core.epoly(vs)


def snapshot(ctx, shape):
    """region-level canonical form of a polygonal shape (via the model's canonShape)"""
    return ctx.drv.ask("canon " + core.eshape(shape))


def is_polygonal(shape):
    return all(seg.degree == 1 for j in getattr(shape, "jordans", ()) for seg in j.segments)
