"""C09 — move / rotate / scale transform the region exactly as the affine map does."""
import copy, math
from fractions import Fraction as F
from harness import core, gen, impl, shapes

RULE = ("shapes of every kind (simple both orientations, with holes, unbounded, several components, validated by the model) and closed curves; random sequences of 1-4 "
        "transformations: rational move / positive rational scale (exact comparison of every vertex with the transformed description, Fraction types), rotations by "
        "arbitrary angles in radians or degrees (1e-9); T(p) in S' iff p in S at arrangement sample points, area and moments against the model on the transformed "
        "description, identity of the returned object, inverse sequence restores ==; distinct = distinct (shape, sequence)")
ASSUMPTIONS = ["rotation uses numpy cos/sin: compared to 1e-9, not exact"]


def apply_desc(d, seq):
    for t in seq:
        if t[0] == "move":
            d = shapes.map_desc(d, lambda p, t=t: (p[0] + t[1], p[1] + t[2]))
        elif t[0] == "scale":
            d = shapes.map_desc(d, lambda p, t=t: (p[0] * t[1], p[1] * t[2]))
    return d


def run(ctx):
    from shapepy import IntegrateShape, JordanCurve
    rng, drv = ctx.rng, ctx.drv
    n = 40 if ctx.quick else 400
    for it in range(n):
        kind = shapes.DEFINED[it % len(shapes.DEFINED)]
        S, d = shapes.make(rng, kind, rng.randint(-3, 3), rng.randint(-3, 3), drv)
        S0 = copy.deepcopy(S)
        seq = []
        for _ in range(rng.randint(1, 4)):
            if rng.random() < 0.5:
                seq.append(("move", gen.rat(rng, -9, 9), gen.rat(rng, -9, 9)))
            else:
                seq.append(("scale", F(rng.randint(1, 9), rng.choice([1, 2, 3])), F(rng.randint(1, 9), rng.choice([1, 2, 5]))))
        desc = {"kind": kind, "shape": core.jsonable(d), "sequence": core.jsonable(seq)}
        ctx.sample(desc, limit=2)
        ctx.case("exact-sequence", (repr(d), repr(seq)))
        ctx.count("kind:" + kind)
        pts = core.dpts(drv.ask("samples 1 " + shapes.enc_desc(d)))
        pts = [p for p in pts if drv.ask(f"onb {shapes.enc_desc(d)} {core.ept(p)}") == "F"]
        pts = rng.sample(pts, min(10, len(pts)))
        before = [p in S for p in pts]
        same = True
        for t in seq:
            args = [gen.as_kind(rng, a, rng.choice(["int", "frac"])) for a in t[1:]]
            r = S.move(args[0], args[1]) if t[0] == "move" else S.scale(args[0], args[1])
            same = same and (r is S)
        ctx.check(same, "transformation did not return the same object", desc)
        d2 = apply_desc(d, seq)
        # exact vertices (region-level: the canonical cycles) and types
        ctx.check(drv.ask("canon " + core.eshape(S)) == drv.ask("canon " + shapes.enc_desc(d2)), "transformed shape differs from the affine image", desc,
                  drv.ask("canon " + shapes.enc_desc(d2)), drv.ask("canon " + core.eshape(S)))
        allv = [c for j in S.jordans for v in j.vertices for c in v]
        ctx.check(all(core.isfrac(c) for c in allv), "rational data became inexact under move/scale", desc)
        nv0 = sum(len(j.vertices) for j in S0.jordans)
        ctx.check(sum(len(j.vertices) for j in S.jordans) == nv0, "number of vertices changed", desc)
        # membership T(p) in T(S) iff p in S
        def T(p):
            for t in seq:
                p = (p[0] + t[1], p[1] + t[2]) if t[0] == "move" else (p[0] * t[1], p[1] * t[2])
            return p
        after = [T(p) in S for p in pts]
        ctx.check(after == before, "T(p) in T(S) differs from p in S", {**desc, "points": pts}, before, after)
        # area and moments against the model of the transformed description
        det = F(1)
        for t in seq:
            if t[0] == "scale":
                det *= t[1] * t[2]
        ctx.check(IntegrateShape.area(S) == det * IntegrateShape.area(S0), "area is not |det T| times the old area", desc, det * IntegrateShape.area(S0), IntegrateShape.area(S))
        from harness.props.c04 import rebuild
        twin = rebuild(d2)
        ctx.check(abs(float(S) - float(det * IntegrateShape.area(S0))) <= 1e-9 * abs(float(det * IntegrateShape.area(S0))) and float(S) == float(twin), "float(S) after the transformation is not |det T| times the old area", desc, float(twin), float(S))
        ctx.check(S == twin and twin == S, "transformed shape is not == to the shape built at the new place", desc)
        for (a, b) in [(1, 0), (0, 1), (1, 1), (2, 0)]:
            exp = F(drv.ask(f"moment {shapes.enc_desc(d2)} {a} {b}"))
            ctx.check(IntegrateShape.polynomial(S, a, b) == exp, "moment of the transformed shape", {**desc, "a": a, "b": b}, exp, IntegrateShape.polynomial(S, a, b))
        # inverse sequence restores a shape == to the original
        for t in reversed(seq):
            if t[0] == "move":
                S.move(-t[1], -t[2])
            else:
                S.scale(1 / t[1], 1 / t[2])
        ctx.check(S == S0, "inverse transformation does not restore an equal shape", desc)
        ctx.check(drv.ask("canon " + core.eshape(S)) == drv.ask("canon " + shapes.enc_desc(d)), "inverse transformation does not restore the region", desc)
    # ---- the offset is one of the shape's own points (aliasing): the map is still the translation by the VALUE the point had
    for kind in shapes.DEFINED:
        for pick in (0, -1):
            for level in ("shape", "curve"):
                S, d = shapes.make(rng, kind, rng.randint(1, 3), rng.randint(1, 3), drv)
                J = S.jordans[pick]
                v = J.vertices[pick]
                off = (F(v[0]), F(v[1]))
                ctx.case("aliased-offset", (kind, pick, level, repr(d)))
                if level == "shape":
                    S.move(v)
                    d2 = apply_desc(d, [("move", off[0], off[1])])
                    ctx.check(drv.ask("canon " + core.eshape(S)) == drv.ask("canon " + shapes.enc_desc(d2)),
                              "move by one of the shape's own vertices (same object) is not the translation by that vector", {"kind": kind, "shape": core.jsonable(d), "offset": off},
                              drv.ask("canon " + shapes.enc_desc(d2)), drv.ask("canon " + core.eshape(S)))
                else:
                    exp = [(F(w[0]) + off[0], F(w[1]) + off[1]) for w in J.vertices]
                    J.move(v)
                    got = [(F(w[0]), F(w[1])) for w in J.vertices]
                    ctx.check(got == exp, "curve.move by one of its own vertices (same object) is not the translation by that vector", {"kind": kind, "shape": core.jsonable(d), "offset": off}, exp, got)
    # ---- rotations (numerical)
    m = 25 if ctx.quick else 200
    for it in range(m):
        kind = shapes.DEFINED[it % len(shapes.DEFINED)]
        S, d = shapes.make(rng, kind, rng.randint(-3, 3), rng.randint(-3, 3), drv)
        S0 = copy.deepcopy(S)
        deg = rng.random() < 0.5
        ang = rng.choice([90, 180, 270, 30, 45, rng.uniform(-360, 360)]) if deg else rng.uniform(-7, 7)
        rad = math.radians(ang) if deg else ang
        desc = {"kind": kind, "shape": core.jsonable(d), "angle": ang, "degrees": deg}
        ctx.case("rotation", (repr(d), ang, deg))
        pts = core.dpts(drv.ask("samples 1 " + shapes.enc_desc(d)))
        vs = shapes.desc_points(d)
        def far(p):
            # keep points farther than 1e-4 from every vertex-line (cheap proxy: distance to every edge)
            return drv.ask(f"onb {shapes.enc_desc(d)} {core.ept(p)}") == "F"
        pts = [p for p in rng.sample(pts, min(12, len(pts))) if far(p)]
        before = [p in S for p in pts]
        r = S.rotate(ang, degrees=deg)
        ctx.check(r is S, "rotate did not return the same object", desc)
        c, s = math.cos(rad), math.sin(rad)
        after = [((c * float(p[0]) - s * float(p[1])), (s * float(p[0]) + c * float(p[1]))) in S for p in pts]
        # sample points are cell centres of the arrangement: at least ~1e-3 from the boundary for these generators
        ctx.check(after == before, "R(p) in R(S) differs from p in S", {**desc, "points": pts}, before, after)
        a0, a1 = float(S0), float(S)
        ctx.check(abs(a1 - a0) <= 1e-9 * max(1, abs(a0)), "rotation changed the area", desc, a0, a1)
        for v0, v1 in zip([v for j in S0.jordans for v in j.vertices], [v for j in S.jordans for v in j.vertices]):
            ex = (c * float(v0[0]) - s * float(v0[1]), s * float(v0[0]) + c * float(v0[1]))
            ctx.check(abs(float(v1[0]) - ex[0]) < 1e-9 and abs(float(v1[1]) - ex[1]) < 1e-9, "rotated vertex", {**desc, "vertex": v0}, ex, tuple(map(float, v1)))
        S.rotate(-ang, degrees=deg)
        ctx.check(S == S0, "inverse rotation does not restore an equal shape", desc)
    # ---- a single tiny but exactly representable translation of integer-coordinate shapes of several kinds
    from shapepy import ConnectedShape
    tiny = (F(1, 10 ** 9), F(-1, 10 ** 9))
    sqo, sqh = [(0, 0), (6, 0), (6, 6), (0, 6)], [(2, 2), (2, 4), (4, 4), (4, 2)]
    for nm, X, vsets in (("simple", shapes.simple(sqo), [sqo]), ("ring", ConnectedShape([shapes.simple(sqo), shapes.simple(sqh)]), [sqo, sqh])):
        X.move(*tiny)
        got = sorted(tuple(v) for j in X.jordans for v in j.vertices)
        exp = sorted((x + tiny[0], y + tiny[1]) for vs in vsets for x, y in vs)
        ctx.case("tiny-steps", ("single", nm))
        ctx.check(got == exp, "a translation by 1e-9 (exactly representable) was not applied", {"shape": nm, "move": tiny}, exp[:2], got[:2])
    # ---- many tiny steps add up
    J = JordanCurve.from_vertices([(0, 0), (4, 0), (4, 3), (0, 3)])
    for _ in range(2000):
        J.move(F(1, 10 ** 9), 0)
    ctx.case("tiny-steps", "2000 x 1e-9")
    ctx.check([tuple(v) for v in J.vertices] == [(x + F(2000, 10 ** 9), y) for x, y in [(0, 0), (4, 0), (4, 3), (0, 3)]], "2000 moves by 1e-9 do not add up to a move by 2e-6", {"steps": 2000})
    Jf = JordanCurve.from_vertices([(0.0, 0.0), (4.0, 0.0), (4.0, 3.0), (0.0, 3.0)])
    for _ in range(2000):
        Jf.move(5e-10, -5e-10)
    ctx.check(abs(float(Jf.vertices[0][0]) - 1e-6) < 1e-12 and abs(float(Jf.vertices[0][1]) + 1e-6) < 1e-12, "2000 float moves by 5e-10 do not add up", {"steps": 2000}, (1e-6, -1e-6), tuple(map(float, Jf.vertices[0])))
    # ---- distinct control points with EQUAL coordinates (two arcs bulging to the same interior point): every one must move
    from shapepy import SimpleShape
    cpt = (F(1), F(3))
    segs = [[(0, 1), cpt, (2, 1)], [(2, 1), (2, 5)], [(2, 5), cpt, (0, 5)], [(0, 5), (0, 1)]]
    for t in (("move", F(3), F(-2)), ("scale", F(2), F(3)), ("scale", F(-1), F(-1))):
        S = SimpleShape(JordanCurve.from_ctrlpoints(segs))
        f = (lambda p: (p[0] + t[1], p[1] + t[2])) if t[0] == "move" else (lambda p: (p[0] * t[1], p[1] * t[2]))
        (S.move if t[0] == "move" else S.scale)(t[1], t[2])
        got = [[tuple(p) for p in sg.ctrlpoints] for sg in S.jordans[0].segments]
        exp = [[f(p) for p in sg] for sg in segs]
        ctx.case("coincident-control-points", t)
        ctx.check(got == exp, "control points with equal coordinates were not all transformed", {"ctrl": segs, "transformation": t}, exp, got)
    # two vertices closer than the 1e-9 point tolerance are still two vertices
    eps = F(1, 10 ** 9)      # representable (denominator <= 10^9) and within the 1e-9 tolerance of Point2D.__eq__
    vs = [(0, 0), (4, 0), (4, 3), (4 + eps, 3 + eps), (0, 3)]
    J = JordanCurve.from_vertices(vs)
    J.move(5, 7)
    ctx.case("coincident-control-points", "near-coincident-vertices")
    ctx.check([tuple(v) for v in J.vertices] == [(x + 5, y + 7) for x, y in vs], "vertices closer than 1e-9 were not all moved", {"vertices": vs})
    # ---- curves with shared junction objects: each vertex moved exactly once (heap model: C09.move_geom)
    for it in range(10 if ctx.quick else 200):
        vs = shapes.rand_simple_vs(rng, 0, 0, R=5)
        j = JordanCurve.from_vertices(vs)
        dx, dy = gen.rat(rng), gen.rat(rng)
        j.move(dx, dy)
        ctx.case("curve-move", (tuple(vs), dx, dy))
        ctx.check([tuple(v) for v in j.vertices] == [(x + dx, y + dy) for x, y in vs], "curve vertices not moved exactly once", {"vertices": vs, "move": (dx, dy)})
