"""C03 — `B in A` for curves and shapes means subset."""
import copy
from fractions import Fraction as F
from harness import core, gen, impl, shapes

RULE = ("ordered pairs of shapes of every kind (Empty, Whole, simple both orientations, with holes, unbounded with holes, several components; validated by the model) that are nested, disjoint or "
        "transversally crossing: `B in A` compared with the verified region-subset decision (regionSubset on the arrangement); closed curves against shapes with both boundary flags; "
        "deterministic families of the property text (unbounded in unbounded with a notch, vertices-on-boundary quadrilaterals, hole in hole); consequences A in A, A|B == A and A&B == B; "
        "distinct = distinct ordered pair; non-trivial = both defined and bounding boxes overlap")
ASSUMPTIONS = ["pairs sharing boundary pieces are a deterministic corpus; open/closed distinction is exact only for polygons"]


def nested_pair(rng, drv):
    """(outer kind, inner simple) with the inner polygon well inside / in a hole / outside"""
    A, da = shapes.make(rng, rng.choice(["simple", "connected", "simple-inv", "connected-unbounded", "disjoint"]), 0, 0, drv)
    where = rng.choice(["centre", "far", "near"])
    c = {"centre": (0, 0), "far": (40, 3), "near": (rng.randint(-9, 9), rng.randint(-9, 9))}[where]
    small = shapes.ccw(gen.star_polygon(rng, rng.randint(3, 5), rng.choice([1, 2]), c[0], c[1], den=8))
    if rng.random() < 0.3:
        small = small[::-1]
    return A, da, shapes.simple(small), ("S", small)


def run(ctx):
    from shapepy import EmptyShape, WholeShape, Primitive, JordanCurve
    rng, drv = ctx.rng, ctx.drv
    E, W = EmptyShape(), WholeShape()
    from harness import degen
    degen.evaluate(ctx, "subset")      # deterministic non-transversal corpus (findings K2-*)
    n = 60 if ctx.quick else 1500
    for it in range(n):
        if it % 3 == 0:
            A, da, B, db = nested_pair(rng, drv)
            if rng.random() < 0.5:
                A, da, B, db = B, db, A, da
        else:
            ka, kb = rng.choice(shapes.KINDS), rng.choice(shapes.KINDS)
            A, da = shapes.make(rng, ka, rng.randint(-4, 4), rng.randint(-4, 4), drv)
            B, db = shapes.make(rng, kb, rng.randint(-4, 4), rng.randint(-4, 4), drv)
        ta, tb = shapes.enc_desc(da), shapes.enc_desc(db)
        if da[0] not in "EW" and db[0] not in "EW" and drv.ask(f"transversal {ta} {tb}") != "T":
            ctx.count("skipped-nontransversal"); continue
        ha = hb = "fresh"
        if da[0] not in "EW":
            A, ha = shapes.vary_history(rng, A, da)
        if db[0] not in "EW":
            B, hb = shapes.vary_history(rng, B, db)
        ctx.count("history:" + ha); ctx.count("history:" + hb)
        desc = {"A": core.jsonable(da), "B": core.jsonable(db), "history": [ha, hb]}
        ctx.sample(desc, limit=2)
        exp = drv.ask(f"subset {tb} {ta}") == "ok"
        try:
            with impl.time_limit(120):
                got = B in A
        except impl.Timeout:
            ctx.fail("containment did not return", desc); continue
        except Exception as ex:
            ctx.fail("containment raised", desc, got=repr(ex)); continue
        ctx.case("shape-in-shape", (repr(da), repr(db)), nontrivial=da[0] not in "EW" and db[0] not in "EW")
        ctx.count(f"pair:{da[0]}{db[0]}"); ctx.count("subset" if exp else "not-subset")
        ctx.check(got is True or got is False, "containment did not return a bool", desc, None, repr(got))
        ctx.check(got == exp, "`B in A` is not the subset relation", desc, exp, got)
        ctx.check(A in A, "A in A is False", {"A": desc["A"]})
        if exp and got and da[0] not in "EW" and db[0] not in "EW":
            u, i = A | B, A & B
            ctx.check(drv.ask(f"regioneq {core.eshape(u)} {ta}") == "ok" and drv.ask(f"regioneq {core.eshape(i)} {tb}") == "ok",
                      "B in A but A|B / A&B are not A / B", desc)
        # closed curves of B against A
        if da[0] not in "EW" and db[0] not in "EW":
            for jb in B.jordans:
                vs = [tuple(v) for v in jb.vertices]
                for flag in (True, False):
                    expj = drv.ask(f"curvein {ta} {core.epoly(vs)} {'T' if flag else 'F'}") == "T"
                    gotj = A.contains_jordan(jb, flag)
                    ctx.case("curve-in-shape", (repr(da), tuple(vs), flag))
                    ctx.check(gotj == expj, "`J in A` disagrees with point-wise containment of the curve", {**desc, "curve": vs, "boundary": flag}, expj, gotj)
    # ---- curves that touch the boundary of the shape: closed (boundary=True) vs open (boundary=False)
    for it in range(10 if ctx.quick else 300):
        kind = rng.choice(shapes.DEFINED)
        A, da = shapes.make(rng, kind, 0, 0, drv)
        ta = shapes.enc_desc(da)
        cands = []
        for vs in curves_of(da):
            cands.append(("own-curve", vs))
            cands.append(("own-curve-reversed", vs[::-1]))
            # a triangle with one vertex on the boundary (an edge midpoint) pointing along the inner normal
            a, b = vs[0], vs[1]
            mid = ((a[0] + b[0]) / 2, (a[1] + b[1]) / 2)
            nx, ny = -(b[1] - a[1]), (b[0] - a[0])
            for sgn, nm in ((F(1, 16), "touching-from-the-left"), (F(-1, 16), "touching-from-the-right")):
                tip = [mid, (mid[0] + sgn * nx + sgn * (b[0] - a[0]) / 4, mid[1] + sgn * ny + sgn * (b[1] - a[1]) / 4), (mid[0] + sgn * nx - sgn * (b[0] - a[0]) / 4, mid[1] + sgn * ny - sgn * (b[1] - a[1]) / 4)]
                cands.append((nm, tip))
        for nm, vs in cands:
            J = JordanCurve.from_vertices(vs)
            for flag in (True, False):
                exp = drv.ask(f"curvein {ta} {core.epoly(vs)} {'T' if flag else 'F'}") == "T"
                ctx.case("curve-touching-boundary", (repr(da), nm, tuple(vs), flag))
                try:
                    got = A.contains_jordan(J, flag)
                except Exception as ex:
                    ctx.fail("contains_jordan raised", {"A": core.jsonable(da), "curve": vs, "boundary": flag}, got=repr(ex)); continue
                ctx.check(got == exp, "`J in A` with a curve touching the boundary disagrees with the closed/open rule", {"A": core.jsonable(da), "which": nm, "curve": vs, "boundary": flag}, exp, got)
    # ---- Empty / Whole table
    S, ds = shapes.make(rng, "connected", 0, 0, drv)
    table = [(E, E, True), (E, W, True), (W, E, False), (W, W, True), (E, S, True), (W, S, False), (S, E, False), (S, W, True)]
    for B, A, exp in table:
        ctx.case("singleton-containment", (type(B).__name__, type(A).__name__))
        ctx.check((B in A) == exp, "Empty/Whole containment table", {"B": type(B).__name__, "A": type(A).__name__}, exp, B in A)
    # ---- deterministic families from the property text
    L = [(0, 0), (3, 0), (3, 3), (2, 3), (2, 1), (0, 1)]
    notch = [(F(1, 4), F(3, 2)), (F(3, 2), F(3, 2)), (F(3, 2), F(5, 2)), (F(1, 4), F(5, 2))]
    inside = [(F(9, 4), F(1, 4)), (F(11, 4), F(1, 4)), (F(11, 4), F(3, 4)), (F(9, 4), F(3, 4))]
    corpus = [
        ("unbounded-in-unbounded: (~L) in (~notch-square)", ("S", L[::-1]), ("S", notch[::-1])),
        ("unbounded-in-unbounded: (~notch-square) in (~L)", ("S", notch[::-1]), ("S", L[::-1])),
        ("unbounded-in-unbounded: (~L) in (~inside-square)", ("S", L[::-1]), ("S", inside[::-1])),
        ("vertices-on-boundary quadrilateral in L", ("S", [(0, 1), (1, 0), (3, 2), (2, 3)]), ("S", L)),
        ("vertices-on-boundary quadrilateral 2 in L", ("S", [(0, 1), (3, 0), (3, 3), (2, 3)]), ("S", L)),
        ("L in L", ("S", L), ("S", L)),
        ("notch square in L", ("S", notch), ("S", L)),
        ("inside square in L", ("S", inside), ("S", L)),
        ("hole in hole", ("C", [[(-5, -5), (5, -5), (5, 5), (-5, 5)], [(-1, -1), (-1, 1), (1, 1), (1, -1)]]), ("C", [[(-6, -6), (6, -6), (6, 6), (-6, 6)], [(-F(1, 2), -F(1, 2)), (-F(1, 2), F(1, 2)), (F(1, 2), F(1, 2)), (F(1, 2), -F(1, 2))]])),
        ("bigger hole not in smaller-holed", ("C", [[(-5, -5), (5, -5), (5, 5), (-5, 5)], [(-F(1, 2), -F(1, 2)), (-F(1, 2), F(1, 2)), (F(1, 2), F(1, 2)), (F(1, 2), -F(1, 2))]]), ("C", [[(-6, -6), (6, -6), (6, 6), (-6, 6)], [(-1, -1), (-1, 1), (1, 1), (1, -1)]])),
    ]
    from harness.props.c04 import rebuild
    for name, db, da in corpus:
        B, A = rebuild(db), rebuild(da)
        exp = drv.ask(f"subset {shapes.enc_desc(db)} {shapes.enc_desc(da)}") == "ok"
        ctx.case("corpus", name)
        try:
            got = B in A
        except Exception as ex:
            ctx.fail("containment raised", {"case": name}, got=repr(ex)); continue
        ctx.check(got == exp, "`B in A` is not the subset relation (corpus)", {"case": name, "B": core.jsonable(db), "A": core.jsonable(da)}, exp, got)
    # circles: regular polygon inscribed in / circumscribing the circle
    C = Primitive.circle(radius=1)
    ctx.case("corpus", "square-in-circle")
    ctx.check((Primitive.regular_polygon(4, radius=0.99) in C) and not (Primitive.regular_polygon(4, radius=1.3) in C) and (C in Primitive.square(side=2.1)), "circle / polygon containment", {"case": "circle"})


def curves_of(d):
    if d[0] == "S":
        return [d[1]]
    if d[0] == "C":
        return d[1]
    return [vs for c in d[1] for vs in c]


def curve_in(drv, vs, ta, flag):
    """point-wise truth of `curve in A` for a polygon curve that crosses A's boundary transversally or not at all:
    every vertex and the midpoint of every piece between consecutive crossing/vertex points must be in A."""
    n = len(vs)
    pts = []
    for i in range(n):
        a, b = vs[i], vs[(i + 1) % n]
        pts.append(a)
        for k in range(1, 16):
            t = F(k, 16)
            pts.append((a[0] + t * (b[0] - a[0]), a[1] + t * (b[1] - a[1])))
    res = [drv.ask(f"mem {ta} {core.ept(p)} {'T' if flag else 'F'}") == "T" for p in pts]
    onb = [drv.ask(f"onb {ta} {core.ept(p)}") == "T" for p in pts]
    if any(onb):
        return None      # sampled point exactly on the boundary: ambiguous for this oracle
    if all(res):
        # a dent between two samples could still leave A; decide exactly with the crossing test: no crossing => inside
        return True if drv.ask(f"jinter {core.epoly(vs)} {all_curves(ta)} T T") == "0" else None
    return False


def all_curves(ta):
    # crossing test needs a single curve: only used when A is simple
    t = ta.split()
    return " ".join(t[1:]) if t[0] == "S" else "0"
