"""C16 — primitive factories build the documented positive shapes or raise ValueError."""
import math
from fractions import Fraction as F
from harness import core, gen, impl, shapes

RULE = ("Primitive.square/triangle/regular_polygon/polygon/circle for int/Fraction/float sizes and centres, nsides 3..12, ndivangle 4..256: vertices against the Lean "
        "model (exact for rational parameters), counter-clockwise, closed-form area, centre contained and far points not, circle within the quadratic band proved in "
        "Props/C16 and area between inscribed and circumscribed polygons; polygon() keeps the vertices and its orientation decides interior/exterior; malformed "
        "parameter stream must raise ValueError; distinct = distinct parameter tuple")
ASSUMPTIONS = ["regular_polygon(n != 4) and circle use numpy trigonometry: compared to 1e-12 relative"]


def run(ctx):
    from shapepy import Primitive, SimpleShape, IntegrateShape
    rng, drv = ctx.rng, ctx.drv
    def check_circle(rad, c, nd):
        ce = c if c is not None else (0, 0)
        # circle
        C = Primitive.circle(radius=rad, ndivangle=nd, **({} if c is None else {"center": c}))
        desc = {"factory": "circle", "ndivangle": nd, "radius": rad, "center": c}
        ctx.case("circle", ("circle", nd, repr(rad), repr(c)))
        r = float(rad)
        h = math.tan(math.pi / nd)
        J = C.jordans[0]
        # signature for finding K1: does the library's own clean rule (model: cleanSeg, tolerance 1e-9) degree-reduce the first arc?
        arc0 = [(F(r), F(0)), (F(r), F(r * h)), (F(r * math.cos(2 * math.pi / nd)), F(r * math.sin(2 * math.pi / nd)))]
        reduced = len(core.dseg(drv.ask("cleanseg " + core.eseg(arc0)))) < 3
        sig = {"family": "circle", "arcs_degree_reduced": reduced}
        ctx.count("circle-arcs-degree-reduced" if reduced else "circle-arcs-kept")
        ctx.check(len(J.segments) == nd and all(s.degree == 2 for s in J.segments) and float(J) > 0, "circle is not ndivangle counter-clockwise quadratic arcs", desc, sig=sig)
        hi = r * math.sqrt(1 + h ** 4 / (4 * (1 + h * h)))
        r = float(rad)
        worst = 0.0
        for s in J.segments[:: max(1, nd // 8)]:
            for t in (0, 0.25, 0.5, 0.75, 1):
                p = s(t)
                d = math.hypot(float(p[0]) - float(ce[0]), float(p[1]) - float(ce[1]))
                worst = max(worst, d - hi, r - d)
        ctx.check(worst <= 1e-9 * max(1, r), "circle leaves the quadratic-approximation band", desc, 0, worst, sig=sig)
        sector = h * r * r * (2 * h * h + 3) / (3 * (1 + h * h))
        ctx.check(abs(float(C) - nd * sector) <= 1e-9 * r * r, "circle area is not the closed form", desc, nd * sector, float(C), sig=sig)
        insc, circ = nd * r * r * math.sin(2 * math.pi / nd) / 2, nd * r * r * h
        ctx.check(insc - 1e-9 <= float(C) <= circ + 1e-9, "circle area outside [inscribed, circumscribed] polygon areas", desc, sig=sig)
        ctx.check(ce in C and (float(ce[0]) + 0.999 * r * math.cos(0.3), float(ce[1]) + 0.999 * r * math.sin(0.3)) in C and
                  (float(ce[0]) + 1.2 * r, float(ce[1])) not in C, "circle containment of centre / near-boundary / far point", desc)
    # deterministic: LARGE units of length (a valid call must return the circle, whatever the rounding drift of the n-times rotated point)
    for rad, c, nd in ((6371000.0, None, 72), (10 ** 7, None, 16), (2.5e9, (1.0e9, -3.0e9), 16), (1.0e6, None, 64), (4.0e5, (5.0e5, 1.0e5), 360)):
        try:
            check_circle(rad, c, nd)
        except Exception as ex:
            ctx.fail("valid circle parameters, but the factory raised", {"factory": "circle", "radius": rad, "center": c, "ndivangle": nd}, got=repr(ex))
    # deterministic corpus: canonical input of finding K1 and its x20 scaled twin (which must be clean)
    check_circle(0.22026826599843585, (4, 3), 256)
    check_circle(20 * 0.22026826599843585, (80, 60), 256)
    n = 40 if ctx.quick else 1500
    for it in range(n):
        kind = rng.choice(["int", "frac", "float"])
        size = {"int": rng.randint(1, 9), "frac": F(rng.randint(1, 40), rng.randint(1, 9)), "float": rng.uniform(0.1, 9)}[kind]
        ckind = rng.choice(["int", "frac", "float", "default"])
        c = {"int": (rng.randint(-5, 5), rng.randint(-5, 5)), "frac": (F(rng.randint(-20, 20), 3), F(rng.randint(-20, 20), 7)),
             "float": (rng.uniform(-5, 5), rng.uniform(-5, 5)), "default": None}[ckind]
        ce = c if c is not None else (0, 0)
        exact = kind != "float" and ckind != "float"
        for fam in ("square", "triangle", "regular4"):
            kw = {} if c is None else {"center": c}
            if fam == "square":
                S = Primitive.square(side=size, **kw)
            elif fam == "triangle":
                S = Primitive.triangle(side=size, **kw)
            else:
                S = Primitive.regular_polygon(4, radius=size, **kw)
            desc = {"factory": fam, "size": size, "center": c}
            ctx.case(fam, (fam, repr(size), repr(c)))
            ctx.count("numeric:" + kind)
            exp = core.dpts(drv.ask(f"prim {fam} {core.er(size)} {core.ept(ce)}"))
            got = [tuple(v) for v in S.jordans[0].vertices]
            if exact:
                ctx.check(got == exp and all(core.isfrac(x) for v in got for x in v), "vertices of the primitive", desc, exp, got)
            else:
                ctx.check(len(got) == len(exp) and all(abs(float(a) - float(b)) <= 1e-12 * max(1, abs(float(b))) for g, e in zip(got, exp) for a, b in zip(g, e)), "vertices of the primitive (float)", desc, exp, got)
            area = {"square": size * size, "triangle": size * size / 2, "regular4": 2 * size * size}[fam]
            ctx.check(isinstance(S, SimpleShape) and abs(float(S) - float(area)) <= 1e-12 * float(area) and float(S.jordans[0]) > 0, "not a counter-clockwise SimpleShape of the closed-form area", desc, float(area), float(S))
            inner = ce if fam != "triangle" else (ce[0] + size / 4, ce[1] + size / 4)
            ctx.check(inner in S and S.contains_point(inner, False), "inner point not contained", desc)
            ctx.check((ce[0] + 3 * size, ce[1] + size) not in S, "far point contained", desc)
        # regular polygons
        ns = rng.randint(3, 12) if rng.random() < 0.6 else rng.choice([13, 17, 24, 31, 48, 61, 64, 97, 122, 128, 197, 244, 256, 343, 345, 360, 500])
        rad = size
        S = Primitive.regular_polygon(ns, radius=rad, **({} if c is None else {"center": c}))
        got = [tuple(v) for v in S.jordans[0].vertices]
        desc = {"factory": "regular", "nsides": ns, "radius": rad, "center": c}
        ctx.case("regular", ("regular", ns, repr(rad), repr(c)))
        ok = len(got) == ns and all(abs(float(v[0]) - (float(ce[0]) + float(rad) * math.cos(2 * math.pi * i / ns))) < 1e-9 and
                                   abs(float(v[1]) - (float(ce[1]) + float(rad) * math.sin(2 * math.pi * i / ns))) < 1e-9 for i, v in enumerate(got))
        ctx.check(ok, "regular polygon vertices", desc)
        a = ns * float(rad) ** 2 * math.sin(2 * math.pi / ns) / 2
        ctx.check(abs(float(S) - a) <= 1e-9 * a and ce in S and (ce[0] + 2 * rad, ce[1]) not in S, "regular polygon area / containment", desc, a, float(S))
        check_circle(rad, c, rng.choice([4, 5, 6, 8, 12, 16, 32, 64, 128, 256]))
        # polygon keeps order and orientation
        vs = shapes.rand_simple_vs(rng, 0, 0, R=5)
        if rng.random() < 0.5:
            vs = vs[::-1]
        P = Primitive.polygon(vs)
        ctx.case("polygon", ("polygon", tuple(vs)))
        ctx.check([tuple(v) for v in P.jordans[0].vertices] == vs, "polygon() changed the vertices or their order", {"vertices": vs})
        inside = (sum(v[0] for v in vs) / len(vs), sum(v[1] for v in vs) / len(vs))
        wn = int(drv.ask(f"wind {core.epoly(vs)} {core.ept(inside)}"))
        if wn != 0 and drv.ask(f"onb S {core.epoly(vs)} {core.ept(inside)}") == "F":
            ctx.check((inside in P) == (gen.area2(vs) > 0), "orientation of polygon() does not decide interior/exterior", {"vertices": vs})
    # ---- malformed parameters must raise ValueError
    bad = [("square", dict(side=0)), ("square", dict(side=-1)), ("square", dict(side="a")), ("square", dict(side=None)), ("square", dict(side=1, center="ab")),
           ("square", dict(side=1, center=(1, 2, 3))), ("triangle", dict(side=0)), ("triangle", dict(side=-2)), ("triangle", dict(side="a")), ("triangle", dict(side=1, center=(1,))),
           ("regular_polygon", dict(nsides=2)), ("regular_polygon", dict(nsides=3.0)), ("regular_polygon", dict(nsides=5, radius=0)), ("regular_polygon", dict(nsides=5, radius=-1)),
           ("regular_polygon", dict(nsides="5")), ("circle", dict(radius=0)), ("circle", dict(radius=-1)), ("circle", dict(radius="r")), ("circle", dict(ndivangle=3)),
           ("circle", dict(ndivangle=4.0)), ("circle", dict(ndivangle=0)), ("circle", dict(radius=1, center="c")), ("circle", dict(radius=float("nan")))]
    for name, kw in bad:
        ctx.case("invalid", (name, repr(kw)))
        try:
            r = getattr(Primitive, name)(**kw)
            if name == "circle" and "radius" in kw and isinstance(kw["radius"], float) and kw["radius"] != kw["radius"]:
                ctx.count("nan-radius-accepted")   # NaN compares false with > 0: the assert rejects it; reaching here would be a failure
            ctx.fail("invalid parameters accepted", {"factory": name, "kwargs": repr(kw)}, "ValueError", repr(r)[:60])
        except ValueError:
            ctx.count("ValueError")
        except Exception as ex:
            ctx.fail("invalid parameters raise the wrong exception", {"factory": name, "kwargs": repr(kw)}, "ValueError", repr(ex))
