"""C11 — a call that raises or is interrupted leaves its operands intact."""
import copy
from fractions import Fraction as F
from harness import core, gen, impl, shapes, faults

RULE = ("for every operation (| & - ^ ~, `B in A`, `J in A`, ==, float, IntegrateShape.polynomial, copy, curve intersection) on operand pairs of several kinds (crossing simple polygons, simple vs shape with "
        "holes, several components): the library call events of the operation are counted with sys.settrace, then the operation is re-run on fresh copies with a BaseException / KeyboardInterrupt raised at "
        "the k-th call event, for k stratified over every distinct (caller, callee) site (first / middle / last occurrence); after the fault the region-level snapshot (Lean canonShape), area, signed "
        "lengths and two containment answers of every operand must equal those before the call; invalid-argument stream for move / scale / rotate must raise and leave the shape unchanged; "
        "distinct = distinct (operation, operands, k); non-trivial = fault actually interrupted the operation")
ASSUMPTIONS = ["crash points are library call boundaries (as the property quantifies), not bytecode boundaries",
               "when the injected exception surfaces inside a numpy callback CPython reports SystemError: still 'raises for any reason'"]


def observe(ctx, S):
    """region-level observation of an operand"""
    from shapepy import EmptyShape, WholeShape
    if isinstance(S, (EmptyShape, WholeShape)):
        return (impl.kind(S),)
    js = S.jordans if hasattr(S, "jordans") else [S]
    tok = core.eshape(S) if hasattr(S, "jordans") else "S " + core.ejordan(S)
    canon = ctx.drv.ask("canon " + tok)
    probe = [(F(1, 3), F(1, 5)), tuple(js[0].vertices[0])]
    mem = tuple((p in S) for p in probe) if hasattr(S, "jordans") else tuple((p in S) for p in probe)
    return (impl.kind(S) if hasattr(S, "jordans") else "Jordan", canon, tuple(round(float(j), 9) for j in js), mem)


from decimal import Decimal
from fractions import Fraction


def run(ctx):
    from shapepy import IntegrateShape, ConnectedShape
    rng, drv = ctx.rng, ctx.drv
    pairs = []
    va, vb = impl.leaf_family(ctx, 2, pinv=0.0)
    pairs.append(("simple x unbounded simple", lambda: (impl.poly(va), impl.poly(vb[::-1]))))
    outer, holes = None, None
    Sc, dc = shapes.make(rng, "connected", 0, 0, drv)
    big = shapes.rand_simple_vs(rng, 0, 0, R=14, n=7)
    pairs.append(("simple contains connected", lambda: (shapes.simple(big), copy.deepcopy(Sc))))
    vc = shapes.rand_simple_vs(rng, 5, 1, R=6)
    if drv.ask(f"transversal S {core.epoly(vc)} {shapes.enc_desc(dc)}") == "T":
        pairs.append(("simple x connected", lambda: (shapes.simple(vc), copy.deepcopy(Sc))))
    Sd, dd = shapes.make(rng, "disjoint", 0, 0, drv)
    pairs.append(("unbounded simple x disjoint", lambda: (shapes.simple(shapes.cw(shapes.rand_simple_vs(rng, 40, 0, R=3))), copy.deepcopy(Sd))))
    operations = {
        "or": lambda A, B: A | B, "and": lambda A, B: A & B, "sub": lambda A, B: A - B, "xor": lambda A, B: A ^ B, "inv": lambda A, B: ~A,
        "B in A": lambda A, B: B in A, "A in B": lambda A, B: A in B, "J in A": lambda A, B: B.jordans[0] in A, "eq": lambda A, B: A == B, "eq-self": lambda A, B: A == copy.deepcopy(A),
        "float": lambda A, B: (float(A), float(B.jordans[0])), "moment": lambda A, B: IntegrateShape.polynomial(B, 1, 1), "copy": lambda A, B: copy.deepcopy(B),
        "intersection": lambda A, B: A.jordans[0].intersection(B.jordans[0]),
    }
    per_op = 3 if ctx.quick else 40
    per_dirty = 12 if ctx.quick else 150
    if ctx.quick:
        pairs = pairs[:2]
        operations = {k: v for k, v in operations.items() if k in ("or", "and", "B in A", "J in A", "eq", "float", "moment", "copy", "intersection")}
    for pname, mk in pairs:
        A0, B0 = mk()
        ref = (observe(ctx, A0), observe(ctx, B0))
        for oname, op in operations.items():
            A, B = copy.deepcopy(A0), copy.deepcopy(B0)
            try:
                nev, dirty, sites, nstates = faults.dirty_points(lambda: op(A, B), (A, B), limit=per_dirty, rng=rng)
            except Exception as ex:
                ctx.notes.append(f"{oname} on {pname} raises without injection: {ex!r}")
                nev, dirty, sites, nstates = 0, [], [], 0
            ctx.count("call-events", nev); ctx.count("intermediate-operand-states", nstates); ctx.count("dirty-fault-points", len(dirty))
            # every distinct intermediate state of the operands (first and last call boundary at which it is visible), plus a stratified sample of all call sites
            ks = sorted(set(dirty) | set(faults.stratified_points(sites, limit=per_op, rng=rng)))
            # the un-faulted run itself must leave the operands intact as regions
            ctx.check((observe(ctx, A), observe(ctx, B)) == ref, "operation changed its operands (no fault)", {"pair": pname, "operation": oname})
            for i, k in enumerate(ks):
                A, B = copy.deepcopy(A0), copy.deepcopy(B0)
                exc = KeyboardInterrupt if i % 3 == 0 else faults.Boom
                status, val = faults.run_with_fault(lambda: op(A, B), k, exc)
                ctx.case("fault", (pname, oname, k), nontrivial=status == "raised")
                ctx.count("status:" + status)
                got = (observe(ctx, A), observe(ctx, B))
                ctx.check(got == ref, "operands differ after an interrupted call", {"pair": pname, "operation": oname, "k": k, "site": sites[k] if k < len(sites) else None, "exception": exc.__name__}, ref, got)
        ctx.sample({"pair": pname, "operations": list(operations), "fault points per operation": per_op}, limit=4)
    # ---- invalid arguments of the in-place transformations
    bad_calls = [("move", ("ab",)), ("move", ((1,),)), ("move", (None,)), ("move", ("a", "b")), ("move", ((1, 2, 3),)),
                 ("scale", ("x", 1)), ("scale", (1, None)), ("scale", (2, "y")), ("scale", ([1], 2)),
                 ("rotate", ("a",)), ("rotate", (None,)), ("rotate", ([1],)), ("rotate", ("a", True)),
                 # arguments whose FIRST component is fine and whose second one is only rejected by the arithmetic itself (float() accepts it)
                 ("scale", (2, Decimal("1.5"))), ("scale", (Fraction(3, 2), "2")), ("scale", (2, b"3")), ("scale", (Decimal("2"), 3)),
                 ("move", (2, "1.5")), ("move", ((Fraction(1, 2), Decimal("3")),)), ("move", (2, None)), ("move", ((1, [2]),))]
    for kind in shapes.DEFINED:
        S, d = shapes.make(rng, kind, rng.randint(-2, 2), rng.randint(-2, 2), drv)
        for target, tname in ((S, "shape"), (S.jordans[0], "curve")):
            for meth, args in bad_calls:
                ref = observe(ctx, S)
                ctx.case("invalid-argument", (kind, tname, meth, repr(args)))
                try:
                    getattr(target, meth)(*args)
                    ctx.fail("invalid transformation arguments accepted", {"kind": kind, "target": tname, "call": f"{meth}{args!r}"})
                except Exception:
                    ctx.count("rejected")
                ctx.check(observe(ctx, S) == ref, "rejected transformation changed the shape", {"kind": kind, "target": tname, "call": f"{meth}{args!r}"})
