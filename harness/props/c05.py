"""C05 — operator results are measure-consistent (inclusion-exclusion)."""
from fractions import Fraction as F
from collections import Counter
from harness import core, gen, impl, shapes

RULE = ("pairs of shapes: random rational polygon pairs in general position (either orientation), pairs of validated shapes of every kind (transversal), and read-once expressions; the four identities "
        "m(A|B)+m(A&B)=m(A)+m(B), m(A-B)=m(A)-m(A&B), m(A^B)=m(A|B)-m(A&B), m(~A)=-m(A) for the six moments of order <= 2, exact Fraction equality (Whole counted as 0); the piece-conservation "
        "certificate of Props/C05 (boundary pieces of A|B and A&B are a rearrangement of the split operands' pieces) is evaluated on every pair; float and circle pairs to 1e-5 relative; "
        "distinct = distinct (pair); non-trivial = operands cross")
ASSUMPTIONS = ["moments of the results are computed by the library's own integrator (proved exact for polygons in Props/C04)"]

MOMS = [(0, 0), (1, 0), (0, 1), (2, 0), (1, 1), (0, 2)]


def m(S, a, b):
    from shapepy import IntegrateShape, EmptyShape, WholeShape
    if isinstance(S, (EmptyShape, WholeShape)):
        return F(0)
    return IntegrateShape.polynomial(S, a, b)


def pieces(S):
    from shapepy import EmptyShape, WholeShape
    if isinstance(S, (EmptyShape, WholeShape)):
        return Counter()
    return Counter(tuple((p[0], p[1]) for p in s.ctrlpoints) for j in S.jordans for s in j.segments)


def run(ctx):
    from shapepy import Primitive
    rng, drv = ctx.rng, ctx.drv
    from harness import degen
    degen.evaluate(ctx, "measure")      # deterministic non-transversal corpus (findings K2-*)
    n = 16 if ctx.quick else 300
    for it in range(n):
        if it % 2 == 0:
            if it % 4 == 0:
                # (the units are cycled, not drawn: the smallest ones are where absolute tolerances bite)
                SC = (F(1, 50000), F(1, 20000), F(1, 5000), F(1, 200), F(1000))
                (va, vb), unit = impl.scaled_family(ctx, 2, pinv=0.3, force=SC[(it // 4) % len(SC)], crossing=True)
            else:
                va, vb = impl.leaf_family(ctx, 2, pinv=0.3)
            A, B = impl.poly(va), impl.poly(vb)
            desc = {"A": va, "B": vb}
            key = (tuple(va), tuple(vb))
        else:
            ka, kb = rng.choice(shapes.DEFINED), rng.choice(shapes.DEFINED)
            A, da = shapes.make(rng, ka, rng.randint(-4, 4), rng.randint(-4, 4), drv)
            B, db = shapes.make(rng, kb, rng.randint(-4, 4), rng.randint(-4, 4), drv)
            if drv.ask(f"transversal {shapes.enc_desc(da)} {shapes.enc_desc(db)}") != "T":
                ctx.count("skipped-nontransversal"); continue
            desc = {"A": core.jsonable(da), "B": core.jsonable(db)}
            key = (repr(da), repr(db))
        ctx.sample(core.jsonable(desc), limit=2)
        if it % 3 == 1:
            # both operands are queried, transformed in place by the same exact orientation-preserving map and queried again
            from harness import shapes as shp
            A, _d, _T, seq = shp.warm_transform(rng, A, ("S", [(0, 0), (1, 0), (0, 1)]), others=(B,), force_reflect=True)
            desc = {**desc, "in-place": core.jsonable(seq)}
            ctx.count("warm-transformed")
        import copy as _copy
        A0, B0 = _copy.deepcopy(A), _copy.deepcopy(B)      # the operators refine their operands in place: measure the operands as given
        try:
            with impl.time_limit(180):
                U, I, D, X, N = A | B, A & B, A - B, A ^ B, ~A
        except impl.Timeout:
            ctx.fail("operator did not return", desc); continue
        except Exception as ex:
            ctx.fail("operator raised on transversal operands", desc, got=repr(ex)); continue
        ctx.case("identities", key, nontrivial=impl.kind(I) != "Empty")
        if it % 2 == 0:
            # the measures are those of the RIGHT regions only if the regions are right: the four results of simple polygon pairs are also certified
            # (a union computed as "two disjoint pieces" satisfies every measure identity while A|B and A&B are both wrong)
            ta, tb = core.eshape(A0), core.eshape(B0)        # the operands as they were handed to the operators (possibly transformed in place before)
            for opn, Rr in (("or", U), ("and", I), ("sub", D), ("xor", X)):
                ans = drv.ask(f"regioncheck {opn} {ta} {tb} {core.eshape(Rr)}")
                ctx.check(ans == "ok", "a result whose measure enters the identities is not the right region", {**desc, "op": opn, "witness": ans})
        ctx.count("kinds:" + impl.kind(A)[0] + impl.kind(B)[0])
        # exact Fraction identities are demanded while no coordinate involved has a denominator whose square reaches 10^9 (beyond that every Point2D
        # operation re-limits denominators - finding K5 - and the statement's own 1e-5 relative tolerance applies, as for float data)
        dens = gen.maxden([tuple(v) for S_ in (A, B, U, I, D, X) for j in getattr(S_, "jordans", ()) for v in j.vertices])
        exact = dens * dens < 10 ** 9
        ctx.count("exact-regime" if exact else "rounded-regime")

        def same(x, y, scale):
            return x == y if exact else abs(float(x) - float(y)) <= 1e-5 * max(abs(float(scale)), 1e-300)
        for (a, b) in MOMS:
            ma, mb, mu, mi, md, mx, mn = (m(S, a, b) for S in (A0, B0, U, I, D, X, N))
            big = max(abs(ma), abs(mb), abs(mu), abs(mi))
            ctx.check(same(m(A, a, b), ma, big) and same(m(B, a, b), mb, big), "an operator changed a moment of its operand", {**desc, "a": a, "b": b})
            mo = {"a": a, "b": b}
            ctx.check(all(core.isfrac(v) for v in (ma, mb, mu, mi, md, mx, mn)), "moment is not an exact rational", {**desc, **mo})
            ctx.check(same(mu + mi, ma + mb, big), "m(A|B) + m(A&B) != m(A) + m(B)", {**desc, **mo}, ma + mb, mu + mi)
            ctx.check(same(md, ma - mi, big), "m(A-B) != m(A) - m(A&B)", {**desc, **mo}, ma - mi, md)
            ctx.check(same(mx, mu - mi, big), "m(A^B) != m(A|B) - m(A&B)", {**desc, **mo}, mu - mi, mx)
            ctx.check(same(mn, -ma, big), "m(~A) != -m(A)", {**desc, **mo}, -ma, mn)
        # conservation certificate (hypothesis of C05.incl_excl_of_cert): pieces(A|B) + pieces(A&B) = pieces(A) + pieces(B) after the in-place split
        cert = pieces(U) + pieces(I) == pieces(A) + pieces(B)
        ctx.count("certificate-holds" if cert else "certificate-fails")
        if exact and impl.kind(U) not in ("Whole",) and impl.kind(I) not in ("Empty",):
            ctx.check(cert, "boundary pieces of A|B and A&B are not a rearrangement of the operands' pieces", desc)
    # ---- curved pairs: deterministic corpus (1e-5 relative); K3-* entries are catalogued findings
    from harness import curved
    names = list(curved.PAIRS) if not ctx.quick else ["cs-1", "cs-5", "c4-1", "c4-2", "K3-wrong-1", "K3-raises-1"]
    for name in names:
        C, O = curved.build(name)
        C0, O0 = curved.build(name)             # measured as given (the operators refine C and O in place)
        desc = {"pair": name, "params": curved.PAIRS[name]}
        try:
            with impl.time_limit(180):
                U, I, D, X = C | O, C & O, C - O, C ^ O
        except impl.Timeout:
            ctx.fail("operator did not return", desc, sig=curved.sig(name)); continue
        except Exception as ex:
            ctx.fail("curved pair: operator raised", desc, got=repr(ex), sig=curved.sig(name)); continue
        ctx.case("curved-identities", name)
        for (a, b) in MOMS:
            vals = [float(m(S, a, b)) for S in (C0, O0, U, I, D, X)]
            mc, mo_, mu, mi, md, mx = vals
            tol = 1e-5 * max(1.0, max(abs(v) for v in vals))
            ctx.check(abs(mu + mi - mc - mo_) <= tol and abs(md - (mc - mi)) <= tol and abs(mx - (mu - mi)) <= tol,
                      "curved pair: inclusion-exclusion beyond 1e-5", {**desc, "a": a, "b": b}, None, vals, sig=curved.sig(name))
            ctx.check(abs(float(m(C, a, b)) - mc) <= tol, "curved pair: an operator changed a moment of its operand beyond 1e-5", {**desc, "a": a, "b": b}, mc, float(m(C, a, b)), sig=curved.sig(name))
