"""C01 — boolean operators are pointwise set operations (and return, for transversal operands)."""
from fractions import Fraction as F
from harness import core, gen, impl

RULE = ("read-once operator expressions (| & - ^ + * ~ unary-) over 2..5 random rational polygons (star/sheared-rect/L, 3..9 vertices, "
        "either orientation) filtered by the Lean model for joint general position; the REAL result is certified by the verified slab "
        "checker (exprcheck) at every cell of the arrangement; plus float polygons and circles sampled at arrangement cells; "
        "distinct = distinct (leaves, expression); non-trivial = result needed the recombination path (operands cross)")
ASSUMPTIONS = ["boundary recombination is certified per executed result (all points off the boundaries), not proved for all inputs",
               "curved operands: membership sampled against exact subdivision winding, away from the 1e-6 boundary band"]


def run(ctx):
    rng, drv = ctx.rng, ctx.drv
    from harness import degen
    degen.evaluate(ctx, "region")      # deterministic non-transversal corpus (findings K2-*)
    # ---- nested leaves (no crossings at all): rings inside the holes of rings, to any depth
    for it in range(4 if ctx.quick else 60):
        base = gen.star_polygon(rng, rng.randint(4, 7), 16, rng.randint(-3, 3), rng.randint(-3, 3), den=1)
        if gen.area2(base) < 0:
            base = base[::-1]
        c = (sum(p[0] for p in base) / len(base), sum(p[1] for p in base) / len(base))
        depth = rng.randint(4, 6)
        facs = [F(depth - i, depth) for i in range(depth)]
        vss = [[(c[0] + f * (x - c[0]), c[1] + f * (y - c[1])) for x, y in base] for f in facs]
        if drv.ask("simplej " + core.epoly(base)) != "T":
            continue
        # ((s0 - s1) | (s2 - s3) | ...), optionally complemented
        e = None
        for i in range(0, depth - 1, 2):
            ring = ("B", "sub", ("L", i), ("L", i + 1))
            e = ring if e is None else ("B", rng.choice(["or", "add", "xor"]), e, ring)
        if depth % 2 == 1:
            e = ("B", "or", e, ("L", depth - 1))
        if it % 2 == 1:
            e = ("I", "~", e)
        desc = {"leaves": vss, "expr": impl.show_expr(e), "family": "nested"}
        try:
            with impl.time_limit(120):
                R = impl.eval_expr(e, [impl.poly(vs) for vs in vss])
                R2 = ~(~R)
        except impl.Timeout:
            ctx.fail("operator did not return within 120 s", desc); continue
        except Exception as ex:
            ctx.fail("operator raised on operands that do not touch", desc, got=repr(ex)); continue
        ctx.case("nested-leaves", (repr(vss), impl.show_expr(e)))
        leaves_tok = core.elist(vss, impl.shape_tokens_of_vertices)
        for X, nm in ((R, "result"), (R2, "double complement of the result")):
            ans = drv.ask(f"exprcheck {leaves_tok} {impl.enc_expr(e)} {core.eshape(X)}")
            ctx.check(ans == "ok", "nested rings: result region differs from the pointwise meaning", {**desc, "which": nm, "witness": ans})
    # ---- operands that met before while far apart, then moved onto each other in place
    for it in range(6 if ctx.quick else 120):
        va, vb = impl.leaf_family(ctx, 2, pinv=0.5)
        A = impl.poly(va)
        B = impl.poly([(x + 60, y) for x, y in vb])
        e = impl.rand_expr(rng, range(2))
        desc = {"leaves": [va, vb], "expr": impl.show_expr(e), "family": "met-before-while-apart"}
        try:
            with impl.time_limit(120):
                impl.eval_expr(e, [A, B]); (A & B, A | B, B in A, A in B, A.box(), B.box(), float(A), float(B))
                B.move(-60, 0)
                if it % 2 == 0:
                    A.scale(1, 1); B.scale(1, 1)
                R = impl.eval_expr(e, [A, B])
        except impl.Timeout:
            ctx.fail("operator did not return within 120 s", desc); continue
        except Exception as ex:
            ctx.fail("operator raised on transversal operands", desc, got=repr(ex)); continue
        ctx.case("met-before", (repr(va), repr(vb), impl.show_expr(e)))
        ans = drv.ask(f"exprcheck {core.elist([va, vb], impl.shape_tokens_of_vertices)} {impl.enc_expr(e)} {core.eshape(R)}")
        ctx.check(ans == "ok", "operands moved in place after an earlier operation: result region differs from the pointwise meaning", {**desc, "witness": ans})
    # ---- an UNBOUNDED simple operand that was drawn point-reflected, used, and reflected onto its place in place (scale(-1,-1)), against a bounded one
    from harness import shapes as shp_
    for it in range(4 if ctx.quick else 60):
        va, vb = impl.leaf_family(ctx, 2, pinv=0.0)
        va = va[::-1]                                  # clockwise: the complement of a polygon
        A, hname = shp_.vary_history(rng, impl.poly(va), ("S", va), variant="reflected-in-place" if it % 2 == 0 else "scaled-in-place")
        B = impl.poly(vb)
        for opn in ("or", "and", "sub", "xor"):
            e = ("B", opn, ("L", 0), ("L", 1))
            desc = {"leaves": [va, vb], "expr": impl.show_expr(e), "family": "unbounded-operand-with-history", "history": hname}
            ctx.case("unbounded-history", (repr(va), repr(vb), opn))
            try:
                with impl.time_limit(60):
                    R = impl.eval_expr(e, [A, B])
            except impl.Timeout:
                ctx.fail("operator did not return within 60 s", desc); continue
            except Exception as ex:
                ctx.fail("operator raised on transversal operands", desc, got=repr(ex)); continue
            ans = drv.ask(f"exprcheck {core.elist([va, vb], impl.shape_tokens_of_vertices)} {impl.enc_expr(e)} {core.eshape(R)}")
            ctx.check(ans == "ok", "result region differs from the pointwise meaning", {**desc, "witness": ans})
    # ---- deterministic: a drawing at unit 1/5000 in which a point the library evaluates lies 1.0e-7 from another edge (finding K8), and the same at unit 1
    from fractions import Fraction as F_
    K8 = [[("2/625", "1/1000"), ("-2/625", "11/2500"), ("-23/5000", "1/200"), ("-1/200", "-17/5000"), ("-23/5000", "-1/250"), ("1/1000", "-3/5000")],
          [("1/5000", "3/625"), ("-19/5000", "11/5000"), ("1/1000", "1/1250")],
          [("1/1000", "29/5000"), ("-7/1000", "3/1250"), ("-17/2500", "9/5000"), ("1/2500", "-1/1000")]]
    e8 = ("B", "xor", ("B", "and", ("L", 0), ("L", 1)), ("L", 2))
    for unit in (F_(1), F_(5000)):
        vss8 = [[(F_(x) * unit, F_(y) * unit) for x, y in vs] for vs in K8]
        sep = gen.separation(vss8)
        sig8 = {"family": "near-tolerance", "separation_below_2e-6": sep < 2e-6}
        desc8 = {"leaves": vss8, "expr": impl.show_expr(e8), "separation": sep}
        ctx.case("near-tolerance", ("K8", str(unit)))
        try:
            with impl.time_limit(60):
                R8 = impl.eval_expr(e8, [impl.poly(vs) for vs in vss8])
            ans8 = drv.ask(f"exprcheck {core.elist(vss8, impl.shape_tokens_of_vertices)} {impl.enc_expr(e8)} {core.eshape(R8)}")
            ctx.check(ans8 == "ok", "result region differs from the pointwise meaning", {**desc8, "witness": ans8}, sig=sig8)
        except impl.Timeout:
            ctx.fail("operator did not return within 60 s", desc8, sig=sig8)
        except Exception as ex:
            ctx.fail("operator raised on transversal operands", desc8, got=repr(ex), sig=sig8)
    # ---- deterministic: an operand whose OWN curves touch (a vertex of a hole lies exactly on the outer boundary of the same ConnectedShape), finding K10
    from harness.props.c04 import rebuild as _rebuild
    K10A = ("C", [[("-45/4", "2"), ("-25/2", "7/4"), ("-51/4", "3/2"), ("-63/4", "13/4"), ("-14", "11/2"), ("-51/4", "6"), ("-12", "21/4")],
                  [("14", "11/4"), ("23/2", "3/4"), ("19/2", "3/4"), ("31/4", "9/4"), ("7", "19/4"), ("31/4", "9/2"), ("25/2", "17/4"), ("51/4", "15/4")]])
    K10B = ("C", [[("7/2", "8"), ("5/2", "11/2"), ("1", "8"), ("-5/2", "13/2"), ("-7/2", "1"), ("-9/4", "-1"), ("-5/2", "-9/2"), ("4", "-9/2"), ("23/4", "-15/4")],
                  [("15/8", "3/4"), ("1", "5/4"), ("7/4", "7/4")],
                  [("5", "1/6"), ("19/4", "-5/24"), ("35/8", "7/24"), ("17/4", "1/6"), ("4", "17/12"), ("35/8", "37/24")]])
    conv10 = lambda d: ("C", [[(F_(x), F_(y)) for x, y in vs] for vs in d[1]])
    dA10, dB10 = conv10(K10A), conv10(K10B)
    sig10 = {"family": "self-touching-operand", "own_curves_touch": gen.contacts(dB10[1]), "operands_touch": gen.contacts([dA10[1][0], dA10[1][1]] + dB10[1][:1])}
    from harness import shapes as shp10
    for opn in ("or", "and", "sub", "xor"):
        A10, B10 = _rebuild(dA10), _rebuild(dB10)
        desc10 = {"A": core.jsonable(K10A), "B": core.jsonable(K10B), "op": opn}
        ctx.case("self-touching-operand", ("K10", opn))
        try:
            with impl.time_limit(60):
                R10 = impl.OPS[opn](A10, B10)
            ans10 = drv.ask(f"regioncheck {opn} {shp10.enc_desc(dA10)} {shp10.enc_desc(dB10)} {core.eshape(R10)}")
            ctx.check(ans10 == "ok", "result region differs from the pointwise meaning", {**desc10, "witness": ans10}, sig=sig10)
        except impl.Timeout:
            ctx.fail("operator did not return within 60 s", desc10, sig=sig10)
        except Exception as ex:
            ctx.fail("operator raised on transversal operands", desc10, got=repr(ex), sig=sig10)
    n = 40 if ctx.quick else 600
    for it in range(n):
        k = rng.choice([2, 2, 2, 3, 3, 4, 5])
        if it % 4 == 3:
            k = min(k, 3)
            vss, unit = impl.scaled_family(ctx, k)       # the same kind of drawing in other units of length (exact)
        else:
            vss = impl.leaf_family(ctx, k)
        e = impl.rand_expr(rng, range(k))
        shapes = [impl.poly(vs) for vs in vss]
        if it % 3 == 1:
            # operands that already have a history (warm caches, moved away and back, refined by split, complemented in place)
            from harness import shapes as shp
            hist = []
            for i, vs in enumerate(vss):
                shapes[i], h = shp.vary_history(rng, shapes[i], ("S", vs))
                hist.append(h)
                ctx.count("history:" + h)
        desc = {"leaves": vss, "expr": impl.show_expr(e)}
        ctx.sample(core.jsonable(desc), limit=3)
        for o in impl.expr_ops(e):
            ctx.count("op:" + o)
        try:
            with impl.time_limit(60):
                R = impl.eval_expr(e, shapes)
        except impl.Timeout:
            ctx.case("expr", None)
            ctx.fail("operator did not return within 60 s", desc, sig={"family": "G-expr"})
            continue
        except Exception as ex:
            ctx.case("expr", None)
            ctx.fail("operator raised on transversal operands", desc, got=repr(ex), sig={"family": "G-expr"})
            continue
        ctx.count("result:" + impl.kind(R))
        leaves_tok = core.elist(vss, impl.shape_tokens_of_vertices)
        ans = drv.ask(f"exprcheck {leaves_tok} {impl.enc_expr(e)} {core.eshape(R)}")
        nontrivial = impl.kind(R) not in ("Empty", "Whole")
        ctx.case("expr", (tuple(map(tuple, vss)), impl.show_expr(e)), nontrivial=nontrivial)
        if ans != "ok":
            ctx.fail("result region differs from the pointwise meaning", {**desc, "witness": ans}, sig={"family": "G-expr"})
            continue
        # the same through membership queries of the real result at the witness cells of a small sample
        pts = core.dpts(drv.ask(f"samples {core.elist(list(vss), impl.shape_tokens_of_vertices)}"))
        for p in rng.sample(pts, min(8, len(pts))):
            if any(drv.ask(f"onb {impl.shape_tokens_of_vertices(vs)} {core.ept(p)}") == "T" for vs in vss):
                ctx.count("sample-on-boundary-skipped")
                continue
            if gen.dist_to_curves(p, R) < 2e-5:
                # (a cell centre of a drawing at a tiny unit can lie within the library's ABSOLUTE 1e-6 on-curve tolerance of the boundary - K8 territory)
                ctx.count("sample-near-boundary-skipped")
                continue
            exp = drv.ask(f"memw {core.eshape(R)} {core.ept(p)}") == "T"
            got = p in R
            ctx.check(got == exp, "p in result disagrees with the model on the same result", {**desc, "point": p}, exp, got)
