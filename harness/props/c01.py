"""C01 — boolean operators are pointwise set operations (and return, for transversal operands)."""
from fractions import Fraction as F
from harness import core, gen, impl

RULE = ("read-once operator expressions (| & - ^ + * ~ unary-) over 2..5 random rational polygons (star/sheared-rect/L, 3..9 vertices, "
        "either orientation) filtered by the Lean model for joint general position; the REAL result is certified by the verified slab "
        "checker (exprcheck) at every cell of the arrangement; plus float polygons and circles sampled at arrangement cells; "
        "distinct = distinct (leaves, expression); non-trivial = result needed the recombination path (operands cross)")
ASSUMPTIONS = ["boundary recombination is certified per executed result (all points off the boundaries), not proved for all inputs",
               "curved operands: membership sampled against exact subdivision winding, away from the 1e-6 boundary band"]


def run(ctx):
    rng, drv = ctx.rng, ctx.drv
    from harness import degen
    degen.evaluate(ctx, "region")      # deterministic non-transversal corpus (findings K2-*)
    n = 40 if ctx.quick else 1500
    for it in range(n):
        k = rng.choice([2, 2, 2, 3, 3, 4, 5])
        if it % 4 == 3:
            k = min(k, 3)
            vss, unit = impl.scaled_family(ctx, k)       # the same kind of drawing in other units of length (exact)
        else:
            vss = impl.leaf_family(ctx, k)
        e = impl.rand_expr(rng, range(k))
        shapes = [impl.poly(vs) for vs in vss]
        desc = {"leaves": vss, "expr": impl.show_expr(e)}
        ctx.sample(core.jsonable(desc), limit=3)
        for o in impl.expr_ops(e):
            ctx.count("op:" + o)
        try:
            with impl.time_limit(60):
                R = impl.eval_expr(e, shapes)
        except impl.Timeout:
            ctx.case("expr", None)
            ctx.fail("operator did not return within 60 s", desc, sig={"family": "G-expr"})
            continue
        except Exception as ex:
            ctx.case("expr", None)
            ctx.fail("operator raised on transversal operands", desc, got=repr(ex), sig={"family": "G-expr"})
            continue
        ctx.count("result:" + impl.kind(R))
        leaves_tok = core.elist(vss, impl.shape_tokens_of_vertices)
        ans = drv.ask(f"exprcheck {leaves_tok} {impl.enc_expr(e)} {core.eshape(R)}")
        nontrivial = impl.kind(R) not in ("Empty", "Whole")
        ctx.case("expr", (tuple(map(tuple, vss)), impl.show_expr(e)), nontrivial=nontrivial)
        if ans != "ok":
            ctx.fail("result region differs from the pointwise meaning", {**desc, "witness": ans}, sig={"family": "G-expr"})
            continue
        # the same through membership queries of the real result at the witness cells of a small sample
        pts = core.dpts(drv.ask(f"samples {core.elist(list(vss), impl.shape_tokens_of_vertices)}"))
        for p in rng.sample(pts, min(8, len(pts))):
            if any(drv.ask(f"onb {impl.shape_tokens_of_vertices(vs)} {core.ept(p)}") == "T" for vs in vss):
                ctx.count("sample-on-boundary-skipped")
                continue
            exp = drv.ask(f"memw {core.eshape(R)} {core.ept(p)}") == "T"
            got = p in R
            ctx.check(got == exp, "p in result disagrees with the model on the same result", {**desc, "point": p}, exp, got)
