"""C10 — answers depend only on the current geometry, not on earlier calls."""
import copy, os, subprocess, sys, json, math
from fractions import Fraction as F
from harness import core, gen, impl, shapes, history

RULE = ("random histories (<=16 steps: constructions, move/scale/rotate/invert, copies, float(), in-place split) on closed polygons; after EVERY step every live "
        "object is asked its signed length, box, orientation and two point memberships and the answers are compared with a fresh deep copy and with the "
        "Lean heap model (which answers the length query from its cache); shapes of all kinds: the same operator before and after unrelated queries; "
        "the same script in fresh processes under different PYTHONHASHSEED; distinct = distinct history")
ASSUMPTIONS = ["process-level determinism (hash seeds, cold module caches) is exercised, not proved"]

SCRIPT = r'''
import sys, warnings; warnings.filterwarnings("ignore")
sys.path.insert(0, sys.argv[1])
from fractions import Fraction as F
from shapepy import *
if len(sys.argv) > 2 and sys.argv[2] == "explicit-options-first":
    # the same process first answers questions with explicit optional arguments (must not influence the default answers below)
    _c = Primitive.circle(radius=3)
    IntegrateShape.area(_c, nnodes=2); IntegrateShape.polynomial(Primitive.square(side=2), 1, 0, nnodes=1); IntegrateShape.polynomial(_c, 1, 1, nnodes=3)
    _c.jordans[0].points(3); _c.jordans[0].intersection(Primitive.square(side=5).jordans[0], equal_beziers=False, end_points=False)
    _c.contains_point((0.5, 0.5), False); float(_c); _c == Primitive.circle(radius=3)
A = Primitive.polygon([(0,0),(F(7,2),F(1,3)),(3,4),(F(-1,2),3)]); B = Primitive.polygon([(1,1),(6,2),(5,6),(2,5)])
C = Primitive.circle(radius=2, center=(1, 1))
out = []
for op in "|&-^":
    R = eval("A %s B" % op)
    out.append((op, type(R).__name__, [[str(tuple(v)) for v in j.vertices] for j in R.jordans]))
R = A | C
out.append(("circle", type(R).__name__, round(float(R), 9), [len(j.segments) for j in R.jordans]))
out.append(("inter", [tuple(map(str, t)) for t in A.jordans[0].intersection(B.jordans[0])]))
out.append(("float", float(A), float(A.jordans[0]), (F(1,2), F(1,2)) in A, A == B, IntegrateShape.polynomial(A, 2, 1).__str__()))
print(repr(out))
'''


def queries(j, pts):
    from shapepy import SimpleShape
    b = j.box()
    s = SimpleShape(j)
    return (float(j), tuple(b.lowpt), tuple(b.toppt), tuple(p in s for p in pts), tuple(p in j for p in pts))


def run(ctx):
    from shapepy import JordanCurve, SimpleShape
    rng, drv = ctx.rng, ctx.drv
    n = 30 if ctx.quick else 400
    for it in range(n):
        ops = history.rand_history(rng, rng.randint(4, 16), nvars=rng.randint(1, 3), with_rot=(it % 3 == 0))
        has_rot = any(o[0] == "rot" for o in ops)
        bad = []

        def on_step(op, objs):
            for v, j in objs.items():
                pts = [gen.pt(rng), tuple(j.vertices[0])]
                live = queries(j, pts)
                again = queries(j, pts)
                fresh = queries(copy.deepcopy(j), pts)
                if live != again:
                    bad.append(("asking twice changed the answer", v, op, live, again))
                if live != fresh:
                    bad.append(("live object answers differently from a fresh deep copy", v, op, live, fresh))
        objs, mops, outs = history.run_real(rng, ops, on_step=on_step)
        desc = {"history": mops}
        ctx.sample(desc, limit=2)
        ctx.case("history", tuple(mops))
        for o in ops:
            ctx.count("hop:" + o[0])
        for what, v, op, x, y in bad[:3]:
            ctx.fail(what, {**desc, "var": v, "after": repr(op)}, x, y)
        ans = drv.ask("heap " + str(len(mops)) + " " + " ".join(mops))
        mouts, mvars, sep, cache = history.parse_model(ans)
        ctx.check(cache, "model cache inconsistent (should be impossible: proved)", desc)
        for k, (op, out, mo) in enumerate(zip(ops, outs, mouts)):
            if op[0] != "len":
                continue
            g = core.Toks(mo.split(" ", 1)[1]).jordan()
            exp = history.signed_length(g)
            ctx.count("len:" + mo.split(" ", 1)[0])
            ctx.check(abs(out - exp) <= 1e-9 * max(1.0, abs(exp)), "float(curve) is not the signed length of the current geometry", {**desc, "step": k}, exp, out)
        if not has_rot:
            for v, j in objs.items():
                ctx.check(shapes.geom(j) == mvars.get(v), "geometry after history differs from the heap model", {**desc, "var": v}, mvars.get(v), shapes.geom(j))
    # ---- shapes of all kinds: same operator before and after unrelated calls
    m = 15 if ctx.quick else 100
    for it in range(m):
        ka, kb = rng.choice(shapes.DEFINED), rng.choice(shapes.DEFINED)
        A, da = shapes.make(rng, ka, rng.randint(-3, 3), rng.randint(-3, 3), drv)
        B, db = shapes.make(rng, kb, rng.randint(-3, 3), rng.randint(-3, 3), drv)
        if drv.ask(f"transversal {shapes.enc_desc(da)} {shapes.enc_desc(db)}") != "T":
            ctx.count("skipped-nontransversal"); continue
        op = rng.choice(["or", "and", "sub", "xor"])
        desc = {"A": core.jsonable(da), "B": core.jsonable(db), "op": op}
        try:
            with impl.time_limit(120):
                fa0, fb0 = float(A), float(B)
                R1 = impl.OPS[op](A, B)
                # unrelated queries in between
                float(A), A == B, (F(1, 3), F(1, 5)) in A, B in A, A.box(), [float(j) for j in A.jordans]
                R2 = impl.OPS[op](A, B)
                R3 = impl.OPS[op](copy.deepcopy(A), copy.deepcopy(B))
        except impl.Timeout:
            ctx.fail("operation did not return", desc); continue
        except Exception as ex:
            ctx.fail("operator raised on transversal operands", desc, got=repr(ex)); continue
        ctx.case("operator-repeat", (repr(da), repr(db), op))
        s1, s2, s3 = (drv.ask("canon " + core.eshape(R)) for R in (R1, R2, R3))
        ctx.check(s1 == s2, "same operator gives a different region the second time", desc, s1, s2)
        ctx.check(s1 == s3, "operator on fresh deep copies gives a different region", desc, s1, s3)
        ctx.check((float(A), float(B)) == (fa0, fb0), "float(shape) changed after operators and queries", desc)
    # ---- shapes of every kind: warm every cache, transform in place, then every answer must equal that of a freshly BUILT twin
    from harness.props.c04 import rebuild
    from harness.props.c09 import apply_desc
    for it in range(12 if ctx.quick else 100):
        kind = shapes.DEFINED[it % len(shapes.DEFINED)]
        S, d = shapes.make(rng, kind, rng.randint(-2, 2), rng.randint(-2, 2), drv)
        probeS, dp = shapes.make(rng, "simple", rng.randint(-2, 2), rng.randint(-2, 2), drv)
        seq = []
        for _ in range(rng.randint(1, 3)):
            seq.append(("move", gen.rat(rng, -9, 9), gen.rat(rng, -9, 9)) if rng.random() < 0.5 else
                       ("scale", F(rng.choice([-3, -2, -1, 1, 2, 3]), rng.choice([1, 2])), F(rng.choice([-2, -1, 1, 2, 3]), rng.choice([1, 3]))))
        # mirrors flip orientation: keep an even number of sign changes per axis pair so that the kind of shape is preserved
        if sum(1 for t in seq if t[0] == "scale" and (t[1] < 0) != (t[2] < 0)) % 2 == 1:
            seq.append(("scale", F(-1), F(1)))
        desc = {"kind": kind, "shape": core.jsonable(d), "sequence": core.jsonable(seq)}
        def battery(X, P):
            pts = [(F(1, 3), F(1, 5)), (F(-7, 2), F(9, 4)), tuple(X.jordans[0].vertices[0])]
            b = X.box()
            out = [float(X), tuple(b.lowpt), tuple(b.toppt), tuple(p in X for p in pts), tuple(round(float(j), 9) for j in X.jordans), P in X, X in P]
            out += [tuple((tuple(sb.box().lowpt), tuple(sb.box().toppt), round(float(sb), 9)) for sb in getattr(X, "subshapes", ()))]
            return out
        try:
            with impl.time_limit(240):
                w0 = battery(S, probeS)                       # warm every cache
                for t in seq:
                    (S.move if t[0] == "move" else S.scale)(t[1], t[2])
                    battery(S, probeS)
                live = battery(S, probeS)
                again = battery(S, probeS)
                twin = rebuild(apply_desc(d, seq))
                fresh = battery(twin, shapes.simple(dp[1]))
                op_live = drv.ask("canon " + core.eshape(S | probeS)) if drv.ask(f"transversal {shapes.enc_desc(apply_desc(d, seq))} {shapes.enc_desc(dp)}") == "T" else None
                op_fresh = drv.ask("canon " + core.eshape(twin | shapes.simple(dp[1]))) if op_live is not None else None
        except impl.Timeout:
            ctx.fail("queries did not return", desc); continue
        except Exception as ex:
            ctx.fail("query raised after in-place transformations", desc, got=repr(ex)); continue
        ctx.case("warm-transform-query", (repr(d), repr(seq)))
        ctx.count("kind:" + kind)
        ctx.check(live == again, "asking twice changed the answers", desc, live, again)
        ctx.check(live == fresh, "transformed shape answers differently from a freshly built one", desc, fresh, live)
        ctx.check(op_live == op_fresh, "operator with a third shape differs from the freshly built twin", desc)
    # ---- equal shapes that were operands of DIFFERENT operations (refined in place at different places) still compare equal
    from shapepy import Primitive
    for it in range(3 if ctx.quick else 40):
        vs = shapes.rand_simple_vs(rng, 0, 0, R=6)
        if drv.ask("genpos 1 " + core.epoly(vs)) != "T":
            continue
        a, b, ref = shapes.simple(vs), shapes.simple(vs), shapes.simple(vs)
        box = a.box()
        lo, hi = tuple(box.lowpt), tuple(box.toppt)
        w = hi[0] - lo[0]
        below = shapes.simple([(lo[0] + w / 3, lo[1] - 5), (lo[0] + 2 * w / 3, lo[1] - 5), (lo[0] + w / 2, (lo[1] + hi[1]) / 2)])
        above = shapes.simple([(lo[0] + w / 3, hi[1] + 5), (lo[0] + w / 2, (lo[1] + hi[1]) / 2), (lo[0] + 2 * w / 3, hi[1] + 5)])
        ok_pos = drv.ask(f"transversal {core.eshape(a)} {core.eshape(below)}") == "T" and drv.ask(f"transversal {core.eshape(a)} {core.eshape(above)}") == "T"
        if not ok_pos:
            continue
        e0 = (a == b, a == ref)
        try:
            a | below; b | above
        except Exception as ex:
            ctx.fail("operator raised on transversal operands", {"vertices": vs}, got=repr(ex)); continue
        e1 = (a == b, b == a, a == ref, ref == b, copy.deepcopy(a) == b)
        ctx.case("equal-after-different-operations", tuple(vs))
        ctx.check(all(e0) and all(e1), "equal shapes compare unequal after being operands of different operations", {"vertices": vs}, True, (e0, e1))
    # ---- same computation in fresh processes, different hash seeds
    seeds = ["0", "1"] if ctx.quick else ["0", "1", "42", "random", "4242"]
    outs = []
    for hs in seeds:
        env = dict(os.environ, PYTHONHASHSEED=hs, MPLBACKEND="Agg")
        extra = ["explicit-options-first"] if hs in ("1", "4242") else []
        p = subprocess.run(["/venv/bin/python", "-c", SCRIPT, os.path.join(core.REPO, "src")] + extra, capture_output=True, text=True, env=env, timeout=600)
        outs.append(p.stdout.strip() if p.returncode == 0 else "ERROR " + p.stderr[-300:])
        ctx.case("fresh-process", ("hashseed", hs))
    ctx.check(all(o == outs[0] and not o.startswith("ERROR") for o in outs), "results differ between processes / hash seeds", {"hashseeds": seeds}, outs[0][:300], [o[:300] for o in outs[1:]])
