"""C13 — rational input gives exact rational output."""
import subprocess, os, json
from fractions import Fraction as F
from harness import core, gen, impl, shapes

RULE = ("(1) Point2D from int/Fraction coordinates incl. denominators above 10^9: stored value == Lean limitDenominator (CPython's algorithm), well-formed Fraction, unchanged when den <= 10^9, "
        "also under Python 3.11 (polygon.py stand-alone); (2) random rational polygon pairs in general position with int / Fraction / mixed inputs: every crossing parameter, every vertex of every operator result, "
        "every area and moment is a well-formed Fraction and equals the model's exact value; move/scale keep exactness; distinct = distinct input; non-trivial = result has new vertices")
ASSUMPTIONS = ["beyond polygon.py the code needs pynurbs/matplotlib and runs on Python 3.12 only"]

P311 = r'''
import sys, importlib.util, json
from fractions import Fraction as F
spec = importlib.util.spec_from_file_location("polygon", sys.argv[1]); m = importlib.util.module_from_spec(spec); spec.loader.exec_module(m)
out = []
for n, d, n2, d2 in json.loads(sys.argv[2]):
    try:
        p = m.Point2D(F(n, d), F(n2, d2))
        out.append([type(p[0]).__name__, type(p[0].numerator).__name__, str(p[0]), str(p[1])])
    except Exception as e:
        out.append(["ERR", type(e).__name__, "", ""])
print(json.dumps(out))
'''


def run(ctx):
    from harness import fidelity
    fidelity.check(ctx, ['inner', 'cross', 'move', 'scale'])
    from shapepy import Point2D, JordanCurve, IntegrateShape
    rng, drv = ctx.rng, ctx.drv
    # ---- (1) Point2D storage
    coords = []
    for it in range(60 if ctx.quick else 1500):
        big = rng.random() < 0.6
        d = rng.randint(10 ** 9 + 1, 10 ** 12) if big else rng.choice([1, 2, 3, 7, 10 ** 9, 999999937])
        n = rng.randint(-10 ** 13, 10 ** 13)
        d2 = rng.choice([1, 3, rng.randint(1, 10 ** 10)])
        n2 = rng.randint(-10 ** 6, 10 ** 6)
        coords.append((n, d, n2, d2))
    for (n, d, n2, d2) in coords:
        x, y = F(n, d), F(n2, d2)
        ctx.case("point-storage", (n, d, n2, d2))
        ctx.count("den>1e9" if x.denominator > 10 ** 9 else "den<=1e9")
        try:
            p = Point2D(x, y)
            got = (p[0], p[1])
        except Exception as ex:
            ctx.fail("Point2D raised on rational coordinates", {"x": x, "y": y}, got=repr(ex)); continue
        ex = (F(drv.ask(f"limitden {core.er(x)} 1000000000")), F(drv.ask(f"limitden {core.er(y)} 1000000000")))
        ctx.check(core.isfrac(got[0]) and core.isfrac(got[1]), "stored coordinate is not a well-formed Fraction", {"x": x, "y": y}, None, repr(got))
        ctx.check(got == ex, "stored coordinate differs from limit_denominator(10**9)", {"x": x, "y": y}, ex, got)
        if x.denominator <= 10 ** 9:
            ctx.check(got[0] == x, "coordinate with denominator <= 10^9 was changed", {"x": x})
        # later arithmetic keeps working
        try:
            q = p + Point2D(1, F(1, 3)); q = 2 * q
            ctx.check(core.isfrac(q[0]) and core.isfrac(q[1]), "arithmetic on a stored point lost exactness", {"x": x, "y": y})
        except Exception as exn:
            ctx.fail("arithmetic on a stored point raised", {"x": x, "y": y}, got=repr(exn))
    # Python 3.11 for polygon.py
    try:
        sample = coords[:40]
        p = subprocess.run(["python3-vt", "-c", P311, os.path.join(core.REPO, "src", "shapepy", "polygon.py"), json.dumps(sample)], capture_output=True, text=True, timeout=300)
        if p.returncode == 0:
            res = json.loads(p.stdout.strip().splitlines()[-1])
            for (n, d, n2, d2), r in zip(sample, res):
                ex = F(drv.ask(f"limitden {core.er(F(n, d))} 1000000000"))
                ctx.case("point-storage-py311", ("311", n, d))
                ctx.check(r[0] == "Fraction" and r[1] == "int" and F(r[2]) == ex, "Python 3.11: Point2D storage", {"x": F(n, d)}, str(ex), r)
        else:
            ctx.notes.append("python3-vt could not load polygon.py: " + p.stderr[-200:])
    except FileNotFoundError:
        ctx.notes.append("python3-vt not available: 3.11 clause not run")
    # ---- coordinates over ONE large common denominator (stored unchanged): points of an edge at rational parameters and the area are exact
    from shapepy import JordanCurve as _JC, IntegrateShape as _IS, SimpleShape as _SS
    for D in (999999937, 10 ** 9, 123456789):
        for it in range(2 if ctx.quick else 12):
            while True:
                nums = [(rng.randint(-3 * D, 3 * D), rng.randint(-3 * D, 3 * D)) for _ in range(3)]
                a2 = (nums[1][0] - nums[0][0]) * (nums[2][1] - nums[0][1]) - (nums[1][1] - nums[0][1]) * (nums[2][0] - nums[0][0])
                if a2 > 0:
                    break
            vs = [(F(x, D), F(y, D)) for x, y in nums]
            J = _JC.from_vertices(vs)
            desc = {"vertices": vs, "denominator": D}
            ctx.case("common-large-denominator", (D, tuple(nums)))
            ctx.check([tuple(v) for v in J.vertices] == vs, "coordinates with a denominator <= 10^9 are not stored unchanged", desc)
            for k, sg in enumerate(J.segments):
                p0, p1 = vs[k], vs[(k + 1) % 3]
                for t in (F(1, 2), F(1, 3), F(3, 7)):
                    exp = (p0[0] + t * (p1[0] - p0[0]), p0[1] + t * (p1[1] - p0[1]))
                    got = tuple(sg(t))
                    ctx.check(got == exp and all(core.isfrac(c) for c in got), "point of an edge at a rational parameter is not the exact rational", {**desc, "edge": k, "t": t}, exp, got)
            ar = _IS.area(_SS(J))
            ctx.check(core.isfrac(ar) and ar == F(a2, 2 * D * D), "area of a triangle over a common large denominator is not the exact rational", desc, F(a2, 2 * D * D), ar)
    # ---- the same drawing in microns: crossing PARAMETERS are scale-free exact rationals (no tolerance may decide whether two straight edges cross)
    for unit in (F(1, 10 ** 6), F(1, 10 ** 7)):
        for it in range(2 if ctx.quick else 10):
            (va, vb), _u = impl.scaled_family(ctx, 2, scales=(F(1),), pinv=0.0, crossing=True)
            sa, sb = [(x * unit, y * unit) for x, y in va], [(x * unit, y * unit) for x, y in vb]
            got = sorted((a, b, u, v) for a, b, u, v in _JC.from_vertices(sa).intersection(_JC.from_vertices(sb)) if u is not None)
            exp = sorted((a, b, u, v) for a, b, u, v in _JC.from_vertices(va).intersection(_JC.from_vertices(vb)) if u is not None)
            ctx.case("micron-crossings", (tuple(va), tuple(vb), unit))
            ctx.check(len(exp) > 0 and got == exp and all(core.isfrac(x) for t in got for x in t[2:]), "crossing parameters of the same drawing at a tiny unit differ from those at unit 1 (they are scale-free exact rationals)",
                      {"A": va, "B": vb, "unit": unit}, exp, got)
    # ---- deterministic corpus: finding K5 (derived quantities are not exact once two coordinate denominators multiply beyond 10^9)
    from shapepy import Primitive
    k5 = [(F(1, 99991), F(0)), (F(1), F(1, 99989)), (F(1, 7), F(99990, 99991))]
    S5 = Primitive.polygon(k5)
    ctx.case("large-denominator-area", "K5")
    exp5 = F(drv.ask(f"moment S {core.epoly(k5)} 0 0"))
    dprod = max(a.denominator * b.denominator for p in k5 for a in p for q in k5 for b in q)
    ctx.check([tuple(v) for v in S5.jordans[0].vertices] == k5, "vertices with denominators <= 10^9 were changed", {"vertices": k5})
    ctx.check(IntegrateShape.area(S5) == exp5, "area of a rational polygon is not the exact rational", {"vertices": k5}, exp5, IntegrateShape.area(S5),
              sig={"family": "large-denominator", "pairwise_den_product_gt_1e9": dprod > 10 ** 9})
    small = [(F(1, 9991), F(0)), (F(1), F(1, 9989)), (F(1, 7), F(9990, 9991))]
    ctx.case("large-denominator-area", "below-threshold")
    ctx.check(IntegrateShape.area(Primitive.polygon(small)) == F(drv.ask(f"moment S {core.epoly(small)} 0 0")), "area of a rational polygon is not the exact rational", {"vertices": small},
              sig={"family": "large-denominator", "pairwise_den_product_gt_1e9": False})
    # ---- (2) operators, crossings, moments on rational polygons (int / Fraction / mixed)
    # crossing parameters are exact whatever their denominator (they are not stored in a Point2D)
    for it in range(8 if ctx.quick else 300):
        for _ in range(50):
            va = shapes.ccw(gen.star_polygon(rng, rng.randint(3, 5), 40000, 0, 0, den=1))
            vb = shapes.ccw(gen.star_polygon(rng, rng.randint(3, 5), 40000, rng.randint(-20000, 20000), rng.randint(-20000, 20000), den=1))
            if drv.ask("genpos " + core.elist([va, vb], core.epoly)) == "T":
                break
        got = JordanCurve.from_vertices(va).intersection(JordanCurve.from_vertices(vb))
        t = core.Toks(drv.ask(f"jinter {core.epoly(va)} {core.epoly(vb)} T T"))
        exp = []
        for _ in range(t.nat()):
            a, b = t.nat(), t.nat(); u, v = t.tok(), t.tok()
            exp.append((a, b, F(u), F(v)))
        ctx.case("large-integer-crossing", (tuple(va), tuple(vb)), nontrivial=len(exp) > 0)
        ctx.count("param-den>1e9" if any(x[2].denominator > 10 ** 9 for x in exp) else "param-den<=1e9")
        ctx.check(sorted(tuple(x) for x in got) == sorted(exp) and all(core.isfrac(x[2]) and core.isfrac(x[3]) for x in got),
                  "crossing parameters of large-integer polygons are not the exact rationals", {"A": va, "B": vb}, sorted(exp)[:3], sorted(tuple(x) for x in got)[:3])
    for it in range(25 if ctx.quick else 800):
        vss = impl.leaf_family(ctx, 2, pinv=0.2)
        kind = rng.choice(["frac", "int", "mixed"])
        if kind != "frac":
            vss = [[(F(round(x)), F(round(y))) for x, y in vs] for vs in vss]
            if drv.ask("genpos " + core.elist(vss, core.epoly)) != "T":
                ctx.count("rounded-not-genpos"); continue
        def rep(v):
            return int(v) if (kind == "int" or (kind == "mixed" and rng.random() < 0.5)) and v.denominator == 1 else v
        A, B = (impl.poly([(rep(x), rep(y)) for x, y in vs]) for vs in vss)
        desc = {"A": vss[0], "B": vss[1], "numeric": kind}
        ctx.count("numeric:" + kind)
        inter = A.jordans[0].intersection(B.jordans[0])
        exact_pts = set()
        for (a, b, u, v) in inter:
            ctx.check(u is None or (core.isfrac(u) and core.isfrac(v)), "crossing parameter is not an exact rational", {**desc, "tuple": (a, b, u, v)})
            if u is not None:
                p0, p1 = vss[0][a], vss[0][(a + 1) % len(vss[0])]
                exact_pts.add((p0[0] + u * (p1[0] - p0[0]), p0[1] + u * (p1[1] - p0[1])))
        mi = core.Toks(drv.ask(f"jinter {core.epoly(vss[0])} {core.epoly(vss[1])} T T"))
        k = mi.nat()
        model_pts = set()
        for _ in range(k):
            a, b = mi.nat(), mi.nat()
            u, v = mi.tok(), mi.tok()
            if u != "N":
                p0, p1 = vss[0][a], vss[0][(a + 1) % len(vss[0])]
                model_pts.add((p0[0] + F(u) * (p1[0] - p0[0]), p0[1] + F(u) * (p1[1] - p0[1])))
        ctx.check(exact_pts == model_pts, "crossing points differ from the model's exact crossings", desc, sorted(model_pts), sorted(exact_pts))
        allowed = set(vss[0]) | set(vss[1]) | model_pts
        for op in ("or", "and", "sub", "xor"):
            A2, B2 = (impl.poly(vs) for vs in vss)
            R = impl.OPS[op](A2, B2)
            verts = [tuple(v) for j in getattr(R, "jordans", ()) for v in j.vertices]
            ctx.case("operator-exactness", (repr(vss), op, kind), nontrivial=any(v not in set(vss[0]) | set(vss[1]) for v in verts))
            ctx.check(all(core.isfrac(c) for v in verts for c in v), "result vertex is not a well-formed Fraction", {**desc, "op": op}, None, [v for v in verts if not all(core.isfrac(c) for c in v)][:2])
            ctx.check(all(v in allowed for v in verts), "result vertex is not an operand vertex or an exact crossing", {**desc, "op": op}, None, [v for v in verts if v not in allowed][:2])
            if verts:
                for (a, b) in [(0, 0), (1, 0), (1, 1), (0, 2)]:
                    got = IntegrateShape.polynomial(R, a, b)
                    exp = F(drv.ask(f"moment {core.eshape(R)} {a} {b}"))
                    ctx.check(core.isfrac(got) and got == exp, "moment of a result is not the exact rational", {**desc, "op": op, "a": a, "b": b}, exp, got)
        # move / scale keep exactness
        j = JordanCurve.from_vertices(vss[0])
        j.move(rep(F(3)), F(-7, 3)); j.scale(F(5, 2), rep(F(2)))
        ok = all(core.isfrac(c) for v in j.vertices for c in v) and [tuple(v) for v in j.vertices] == [((x + 3) * F(5, 2), (y - F(7, 3)) * 2) for x, y in vss[0]]
        ctx.check(ok, "move/scale of rational data is not exact", desc)
        # a shape that has ALREADY been measured (caches warm), then scaled / moved in place: the new measures are the exact rationals of the new geometry
        S1 = impl.poly(vss[0])
        m0 = {(a, b): IntegrateShape.polynomial(S1, a, b) for (a, b) in [(0, 0), (1, 0), (0, 1)]}
        float(S1); str(S1)
        sx, sy, dx, dy = F(rng.randint(2, 5), rng.choice([1, 3])), F(rng.randint(1, 4), rng.choice([1, 2, 7])), F(rng.randint(-5, 5), 2), F(rng.randint(-5, 5), 3)
        S1.scale(rep(sx), sy); S1.move(dx, rep(dy))
        vs1 = [(x * sx + dx, y * sy + dy) for x, y in vss[0]]
        for (a, b) in [(0, 0), (1, 0), (0, 1), (1, 1)]:
            got = IntegrateShape.polynomial(S1, a, b)
            exp = F(drv.ask(f"moment S {core.epoly(vs1)} {a} {b}"))
            ctx.check(core.isfrac(got) and got == exp, "moment after measuring, scaling and moving in place is not the exact rational of the new geometry",
                      {**desc, "scale": (sx, sy), "move": (dx, dy), "a": a, "b": b}, exp, got)
