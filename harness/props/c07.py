"""C07 — == is region equality and an equivalence relation."""
import copy, math
from fractions import Fraction as F
from harness import core, gen, impl, shapes

RULE = ("shapes of every kind and closed curves (validated by the model) in many representations of the same region: rotated vertex lists, inserted collinear vertices (in-place split), "
        "int / Fraction / float coordinates of equal value, permuted components and holes, rebuilt through operators; and unequal near-misses (same area elsewhere, one hole moved, "
        "other kind, complement); X == Y must equal (same kind and regionEq decided by the verified checker); reflexive / symmetric / transitive on generated triples; != is the negation; "
        "always a bool, also for mixed-degree curves; distinct = distinct (X, Y) pair; non-trivial = both defined")
ASSUMPTIONS = ["curved equality is exercised on circles / circle-polygon results (numerical), polygons exactly"]


def rebuild(d, rep="frac", rot=0, perm=False, rng=None):
    from harness.props.c04 import rebuild as rb
    def cv(v):
        if rep == "float":
            return float(v)
        if rep == "int" and F(v).denominator == 1:
            return int(v)
        return F(v)
    def rv(vs):
        k = rot % len(vs)
        vs = vs[k:] + vs[:k]
        return [(cv(x), cv(y)) for x, y in vs]
    if d[0] == "S":
        d2 = ("S", rv(d[1]))
    elif d[0] == "C":
        cs = [rv(vs) for vs in d[1]]
        if perm:
            rng.shuffle(cs)
        d2 = ("C", cs)
    else:
        comps = [[rv(vs) for vs in c] for c in d[1]]
        if perm:
            rng.shuffle(comps)
            for c in comps:
                rng.shuffle(c)
        d2 = ("D", comps)
    return rb(d2)


def floatable(d):
    return all(F(float(c)) == c for p in shapes.desc_points(d) for c in p)


def run(ctx):
    from shapepy import EmptyShape, WholeShape, Primitive, JordanCurve, ConnectedShape, DisjointShape
    rng, drv = ctx.rng, ctx.drv
    E, W = EmptyShape(), WholeShape()

    def eq(X, Y, desc):
        try:
            with impl.time_limit(120):
                r = X == Y
                nr = X != Y
        except impl.Timeout:
            ctx.fail("== did not return", desc); return None
        except Exception as ex:
            ctx.fail("== raised", desc, got=repr(ex)); return None
        ctx.check(r is True or r is False, "== did not return a bool", desc, None, repr(r))
        ctx.check(nr == (not r), "!= is not the negation of ==", desc)
        return r

    n = 5 if ctx.quick else 150
    for it in range(n):
        kind = shapes.DEFINED[it % len(shapes.DEFINED)]
        S, d = shapes.make(rng, kind, rng.randint(-3, 3), rng.randint(-3, 3), drv)
        ctx.sample({"kind": kind, "shape": core.jsonable(d)}, limit=2)
        desc = {"shape": core.jsonable(d)}
        # equal representations
        reps = []
        reps.append(("rotated", rebuild(d, rot=rng.randint(1, 5))))
        reps.append(("permuted", rebuild(d, rot=rng.randint(0, 3), perm=True, rng=rng)))
        if floatable(d):
            reps.append(("float", rebuild(d, rep="float", rot=rng.randint(0, 3))))
        reps.append(("deepcopy", copy.deepcopy(S)))
        sp = copy.deepcopy(S)
        for j in sp.jordans:
            k = len(j.segments)
            j.split([rng.randrange(k), rng.randrange(k)], [F(1, 2), F(1, 3)])
        reps.append(("split", sp))
        reps.append(("double-complement", ~(~S)))
        # the same region reached through a history of queries and in-place operations (warm caches, in-place complement, …)
        for _ in range(2):
            Y, h = shapes.vary_history(rng, rebuild(d), d)
            reps.append(("history:" + h, Y))
        if d[0] == "S":
            for h in ("invert-twice", "complement-inverted-in-place"):
                Y, _h = shapes.vary_history(rng, rebuild(d), d, variant=h)
                reps.append(("history:" + h, Y))
        # float coordinates, refined in place at parameters that are not mid-points (what an operator leaves behind)
        if floatable(d):
            Yf = rebuild(d, rep="float")
            for j in Yf.jordans:
                k = len(j.segments)
                j.split([rng.randrange(k), rng.randrange(k), rng.randrange(k)], [1 / 3, 0.3, 0.7])
            reps.append(("float-split-off-centre", Yf))
            # used as an operand of a crossing operator (splits it in place), compared with a copy taken before
            Yo = rebuild(d, rep="float")
            cutter = shapes.simple([(float(x) + 0.37, float(y) + 0.21) for x, y in shapes.desc_points(d)[:3]])
            try:
                Yo | cutter; Yo & cutter
            except Exception:
                pass
            reps.append(("float-after-being-an-operand", Yo))
        for name, Y in reps:
            ctx.case("equal-representation", (repr(d), name))
            ctx.count("rep:" + name)
            r = eq(S, Y, {**desc, "representation": name})
            if r is not None:
                ctx.check(r, "same region in another representation compares unequal", {**desc, "representation": name})
                ctx.check(eq(Y, S, desc) == r, "== is not symmetric", {**desc, "representation": name})
        # transitivity on three representations
        if len(reps) >= 3:
            a, b, c = reps[0][1], reps[1][1], reps[-2][1]
            ctx.check((not (eq(a, b, desc) and eq(b, c, desc))) or eq(a, c, desc), "== is not transitive", desc)
        ctx.check(eq(S, S, desc), "== is not reflexive", desc)
        # unequal near-misses
        moved = copy.deepcopy(S).move(F(1, 7), 0)
        others = [("moved", moved), ("complement", ~S), ("empty", E), ("whole", W), ("scaled", copy.deepcopy(S).scale(1, F(9, 8)))]
        if d[0] == "C" and len(d[1]) >= 2:
            hm = ("C", [d[1][0]] + [[(x + F(1, 8), y) for x, y in vs] for vs in d[1][1:]])
            if drv.ask("wf " + shapes.enc_desc(hm)) == "":
                others.append(("hole-moved", rebuild(hm)))
        if d[0] == "S":
            # same area, other place / other shape
            others.append(("other-kind", ConnectedShape([shapes.simple(d[1]), shapes.simple([(100, 100), (100, 101), (101, 101), (101, 100)])])) if gen.area2(d[1]) > 0 else ("moved2", copy.deepcopy(S).move(0, 3)))
        for name, Y in others:
            ctx.case("unequal-pair", (repr(d), name))
            exp = False
            if impl.kind(Y) == impl.kind(S) and impl.kind(S) not in ("Empty", "Whole"):
                exp = drv.ask(f"regioneq {core.eshape(S)} {core.eshape(Y)}") == "ok"
            r = eq(S, Y, {**desc, "other": name})
            if r is not None:
                ctx.check(r == exp, "== disagrees with (same kind and same region)", {**desc, "other": name}, exp, r)
    # ---- closed curves
    for it in range(5 if ctx.quick else 200):
        while True:
            vs = shapes.rand_simple_vs(rng, 0, 0, R=6)
            if drv.ask("genpos 1 " + core.epoly(vs)) == "T":
                break
        J = JordanCurve.from_vertices(vs)
        k = rng.randint(1, len(vs) - 1)
        K = JordanCurve.from_vertices(vs[k:] + vs[:k])
        Rv = JordanCurve.from_vertices(vs[::-1])
        M = JordanCurve.from_vertices([(x + F(1, 9), y) for x, y in vs])
        ctx.case("curve-eq", tuple(vs))
        desc = {"vertices": vs}
        ctx.check(eq(J, K, desc) is True, "curve == its rotation is False", desc)
        ctx.check(eq(J, Rv, desc) is False, "curve == its reversal is True (orientation ignored)", desc)
        ctx.check(eq(J, M, desc) is False, "curve == a moved copy is True", desc)
    # ---- nearly equal areas: an extra hole smaller than every area tolerance must still make the shapes unequal
    plate = [(-2, -2), (2, -2), (2, 2), (-2, 2)]
    h1 = [(-1, -1), (-1, F(-1, 2)), (F(-1, 2), F(-1, 2)), (F(-1, 2), -1)]
    tiny = [(1, 1), (1, 1 + F(1, 2000)), (1 + F(1, 2000), 1 + F(1, 2000)), (1 + F(1, 2000), 1)]
    X1 = ConnectedShape([shapes.simple(plate), shapes.simple(h1)])
    X2 = ConnectedShape([shapes.simple(plate), shapes.simple(h1), shapes.simple(tiny)])
    ctx.case("unequal-pair", "extra-tiny-hole")
    ctx.check(eq(X1, X2, {"case": "extra tiny hole"}) is False and eq(X2, X1, {"case": "extra tiny hole (swapped)"}) is False, "shapes differing by a tiny extra hole compare equal", {"case": "tiny hole 1/2000"})
    Y1 = DisjointShape([shapes.simple(plate), shapes.simple([(10, 10), (11, 10), (11, 11), (10, 11)])])
    Y2 = DisjointShape([shapes.simple(plate), shapes.simple([(10, 10), (11, 10), (11, 11), (10, 11)]), shapes.simple([(20, 20), (20 + F(1, 2000), 20), (20 + F(1, 2000), 20 + F(1, 2000)), (20, 20 + F(1, 2000))])])
    ctx.check(eq(Y1, Y2, {"case": "extra tiny component"}) is False and eq(Y2, Y1, {"case": "extra tiny component (swapped)"}) is False, "shapes differing by a tiny extra component compare equal", {"case": "tiny component"})
    # ---- redundant vertices (deterministic)
    a = JordanCurve.from_vertices([(0, 0), (1, 0), (2, 0), (2, 2), (0, 2)])
    b = JordanCurve.from_vertices([(2, 2), (0, 2), (0, 0), (1, 0), (2, 0)])
    c = JordanCurve.from_vertices([(2, 2), (0, 2), (0, 0), (2, 0)])
    ctx.case("curve-eq", "redundant-vertex")
    for x, y, nm in ((a, b, "a==b"), (a, c, "a==c"), (c, a, "c==a"), (b, a, "b==a"), (a, a, "a==a")):
        ctx.check(eq(x, y, {"case": "redundant vertex " + nm}) is True, "curves with a redundant vertex: equal curves compare unequal", {"case": nm})
    # ---- curved and mixed-degree
    c1 = Primitive.circle()
    c2 = Primitive.circle().move(0.1, 0.2).move(-0.1, -0.2)
    c3 = Primitive.circle(ndivangle=8)
    mixed = Primitive.circle() & Primitive.square(side=1.5)
    mixed2 = Primitive.square(side=1.5) & Primitive.circle()
    ctx.case("curved-eq", "circle-roundtrip")
    ctx.check(eq(c1, c2, {"case": "circle moved and moved back"}) is True, "circle moved and moved back != original", {"case": "circle roundtrip"})
    ctx.check(eq(c1, c3, {"case": "circle 16 vs 8 arcs"}) is False, "circles with different arcs compare equal", {"case": "circle 16 vs 8"})
    ctx.check(eq(mixed, mixed, {"case": "mixed degrees"}) is True and eq(mixed, mixed2, {"case": "mixed degrees commuted"}) is True, "mixed-degree shape equality", {"case": "circle & square"})
    ctx.check(eq(mixed.jordans[0], c1.jordans[0], {"case": "mixed curve vs circle"}) is False, "mixed-degree curve comparison", {"case": "mixed curve"})
    # mixed-degree curves with redundant vertices (in-place split of straight and curved pieces), every start vertex
    D = JordanCurve.from_ctrlpoints([[(0.0, 0.0), (2.0, 0.0)], [(2.0, 0.0), (3.0, 1.0), (2.0, 2.0)], [(2.0, 2.0), (1.0, 3.0), (0.0, 2.0)], [(0.0, 2.0), (0.0, 0.0)]])
    ctx.case("curved-eq", "mixed-degree-with-redundant-vertices")
    for k in range(4):
        ctrl = [[tuple(map(float, p)) for p in sgm.ctrlpoints] for sgm in D.segments]
        Dk = JordanCurve.from_ctrlpoints(ctrl[k:] + ctrl[:k])
        Ds = copy.deepcopy(Dk)
        Ds.split([0, 1, 3], [0.5, 0.5, 0.25])
        for x, y, nm in ((D, Ds, "D==split"), (Ds, D, "split==D"), (Ds, Ds, "split==split"), (Dk, D, "rotated==D")):
            ctx.check(eq(x, y, {"case": f"mixed degree, start {k}, {nm}"}) is True, "mixed-degree curve with redundant vertices: equal curves compare unequal", {"start": k, "pair": nm})
    ctx.check(eq(E, E, {}) and eq(W, W, {}) and not eq(E, W, {}) and not eq(c1, E, {}), "singleton equality", {"case": "singletons"})
