"""C19 — directly constructed composite shapes equal the ones operators build."""
import copy, itertools
from fractions import Fraction as F
from harness import core, gen, impl, shapes

RULE = ("valid lists of sub-shapes (one outer region with 1-2 holes; an unbounded region with 2 holes; 2-3 pairwise disjoint components, some with holes; curved members; Empty entries), in every "
        "order (all permutations up to 6, random ones beyond): ConnectedShape(list) / DisjointShape(list) compared with the operator results (& resp. |) by the verified region-equality checker, ==, "
        "area and six moments, point containment at arrangement cells, complement; DisjointShape([S]) is a copy of S, DisjointShape([]) and of Empty entries is Empty; also against the Lean model "
        "connectedNew/disjointNew (membership = all/any); distinct = distinct (list, order)")
ASSUMPTIONS = ["validity of the input lists (nesting / disjointness) is established by the model's wfProblems"]

MOMS = [(0, 0), (1, 0), (0, 1), (2, 0), (1, 1), (0, 2)]


def run(ctx):
    from functools import reduce
    from shapepy import ConnectedShape, DisjointShape, EmptyShape, IntegrateShape, SimpleShape, Primitive
    rng, drv = ctx.rng, ctx.drv
    E = EmptyShape()
    n = 12 if ctx.quick else 120
    for it in range(n):
        kind = ["connected", "connected-unbounded", "disjoint"][it % 3]
        S0, d = shapes.make(rng, kind, rng.randint(-3, 3), rng.randint(-3, 3), drv)
        desc = {"kind": kind, "shape": core.jsonable(d)}
        ctx.sample(desc, limit=2)
        tok = shapes.enc_desc(d)
        if d[0] == "C":
            parts = [("S", vs) for vs in d[1]]
            mk = lambda lst: ConnectedShape([shapes.simple(p[1]) for p in lst])
            via_ops = reduce(lambda a, b: a & b, [shapes.simple(p[1]) for p in parts])
        else:
            parts = [("S", c[0]) if len(c) == 1 else ("C", c) for c in d[1]]
            def mk(lst):
                return DisjointShape([shapes.simple(p[1]) if p[0] == "S" else ConnectedShape([shapes.simple(v) for v in p[1]]) for p in lst])
            via_ops = reduce(lambda a, b: a | b, [shapes.simple(p[1]) if p[0] == "S" else reduce(lambda a, b: a & b, [shapes.simple(v) for v in p[1]]) for p in parts])
        perms = list(itertools.permutations(parts))
        if len(perms) > 6:
            perms = rng.sample(perms, 6)
        base = mk(parts)
        pts = core.dpts(drv.ask("samples 1 " + tok))
        pts = [p for p in rng.sample(pts, min(12, len(pts))) if drv.ask(f"onb {tok} {core.ept(p)}") == "F"]
        for pi, perm in enumerate(perms):
            X = mk(list(perm))
            ctx.case("composite-order", (repr(d), pi))
            d2 = {**desc, "order": pi}
            ctx.check(impl.kind(X) == impl.kind(via_ops), "kind differs from the operator result", d2, impl.kind(via_ops), impl.kind(X))
            ctx.check(drv.ask(f"regioneq {core.eshape(X)} {core.eshape(via_ops)}") == "ok", "region differs from the operator result", d2)
            ctx.check(drv.ask(f"regioneq {core.eshape(X)} {tok}") == "ok", "region differs from the model's all/any meaning", d2)
            try:
                with impl.time_limit(120):
                    ctx.check((X == via_ops) and (X == base), "directly constructed shape is not == to the operator result / other order", d2)
            except impl.Timeout:
                ctx.fail("== did not return", d2)
            for (a, b) in MOMS:
                ctx.check(IntegrateShape.polynomial(X, a, b) == IntegrateShape.polynomial(via_ops, a, b) == F(drv.ask(f"moment {tok} {a} {b}")), "moment differs", {**d2, "a": a, "b": b})
            ctx.check(float(X) == float(base), "float(area) depends on the order", d2)
            ctx.check([p in X for p in pts] == [p in via_ops for p in pts] == [drv.ask(f"memw {tok} {core.ept(p)}") == "T" for p in pts], "containment answers differ", d2)
            ctx.check(drv.ask(f"compl {tok} {core.eshape(~X)}") == "ok", "complement differs", d2)
            # sub-shape containment
            inner = shapes.simple(parts[0][1]) if parts[0][0] == "S" else None
            if inner is not None and d[0] == "D":
                ctx.check(inner in X, "a component is not contained in the DisjointShape", d2)
    # ---- composites with a history: queried, transformed in place (not undone), compared with the composite built at the new place
    from harness.props.c04 import rebuild
    for it in range(6 if ctx.quick else 120):
        kind = ["connected", "connected-unbounded", "disjoint"][it % 3]
        X, d = shapes.make(rng, kind, rng.randint(-3, 3), rng.randint(-3, 3), drv)
        X, d2, T, seq = shapes.warm_transform(rng, X, d, force_reflect=(it % 2 == 0))
        twin = rebuild(d2)
        desc = {"kind": kind, "shape": core.jsonable(d), "in-place": core.jsonable(seq)}
        ctx.case("composite-after-transform", (repr(d), repr(seq)))
        tok2 = shapes.enc_desc(d2)
        ctx.check(drv.ask(f"regioneq {core.eshape(X)} {tok2}") == "ok", "transformed composite: wrong region", desc)
        ctx.check(float(X) == float(twin) and [float(sb) for sb in X.subshapes] == [float(sb) for sb in twin.subshapes], "transformed composite: float(area) of the shape or its sub-shapes is stale", desc, float(twin), float(X))
        try:
            with impl.time_limit(120):
                ctx.check(X == twin and twin == X, "transformed composite is not == to the composite built at the new place", desc)
        except impl.Timeout:
            ctx.fail("== did not return", desc)
        pts = [T(p) for p in core.dpts(drv.ask("samples 1 " + shapes.enc_desc(d)))[:40:4]]
        pts = [p for p in pts if drv.ask(f"onb {tok2} {core.ept(p)}") == "F" and gen.maxden([p]) < 10 ** 8]
        ctx.check([p in X for p in pts] == [drv.ask(f"memw {tok2} {core.ept(p)}") == "T" for p in pts], "transformed composite: containment answers", desc)
        for (a, b) in MOMS[:4]:
            ctx.check(IntegrateShape.polynomial(X, a, b) == F(drv.ask(f"moment {tok2} {a} {b}")), "transformed composite: moment", {**desc, "a": a, "b": b})
    # ---- collapse rules of DisjointShape
    S, ds = shapes.make(rng, "simple", 0, 0, drv)
    C, dc = shapes.make(rng, "connected", 30, 0, drv)
    ctx.case("collapse", "single")
    one = DisjointShape([S])
    ctx.check(isinstance(one, SimpleShape) and one == S and one is not S and not (shapes.point_ids(one) & shapes.point_ids(S)), "DisjointShape([S]) is not a copy of S", {})
    onec = DisjointShape([C])
    ctx.check(isinstance(onec, ConnectedShape) and onec == C and onec is not C, "DisjointShape([C]) is not a copy of C", {})
    ctx.check(DisjointShape([]) is E and DisjointShape([E]) is E and DisjointShape([E, E, E]) is E, "DisjointShape of nothing is not Empty", {})
    withe = DisjointShape([E, S, E, C])
    ctx.check(withe == DisjointShape([S, C]) and withe == DisjointShape([C, E, S]), "Empty entries are not ignored", {})
    ctx.check(DisjointShape([E, S]) == S, "DisjointShape([Empty, S]) is not S", {})
    # ---- nesting two levels deep: a ring inside the hole of a ring
    def sq(h, c=(0, 0)):
        return [(c[0] - h, c[1] - h), (c[0] + h, c[1] - h), (c[0] + h, c[1] + h), (c[0] - h, c[1] + h)]
    for c in ((0, 0), (F(7, 2), F(-1, 3))):
        Aq, Qq, Iq, Pq = (shapes.simple(sq(h, c)) for h in (8, 6, 4, 2))
        outer_ring, inner_ring = Aq - Qq, Iq - Pq
        direct = DisjointShape([ConnectedShape([shapes.simple(sq(8, c)), shapes.simple(sq(6, c)[::-1])]), ConnectedShape([shapes.simple(sq(4, c)), shapes.simple(sq(2, c)[::-1])])])
        built = outer_ring | inner_ring
        ctx.case("two-level-nesting", c)
        tok = "D 2 2 " + core.epoly(sq(8, c)) + " " + core.epoly(sq(6, c)[::-1]) + " 2 " + core.epoly(sq(4, c)) + " " + core.epoly(sq(2, c)[::-1])
        for X, nm in ((direct, "DisjointShape([ring, ring])"), (built, "ring | ring"), (DisjointShape([inner_ring, outer_ring]), "reversed order"), (~~built, "double complement")):
            ctx.check(impl.kind(X) == "Disjoint" and drv.ask(f"regioneq {core.eshape(X)} {tok}") == "ok", "ring inside the hole of a ring: wrong region or kind", {"centre": c, "how": nm}, None, impl.kind(X))
            pts = [(c[0], c[1]), (c[0] + 3, c[1]), (c[0] + 5, c[1]), (c[0] + 7, c[1]), (c[0] + 9, c[1])]
            ctx.check([p in X for p in pts] == [False, True, False, True, False], "ring inside the hole of a ring: containment", {"centre": c, "how": nm}, None, [p in X for p in pts])
        ctx.check(direct == built and built == direct, "directly built nested rings are not == to the operator result", {"centre": c})
    # exactly one real shape among Empty entries
    for lst_name, lst in (("[S, E]", [S, E]), ("[E, C]", [E, C]), ("[E, S, E]", [E, S, E])):
        X = DisjointShape(lst)
        real = [x for x in lst if x is not E][0]
        ctx.case("collapse", lst_name)
        ctx.check(type(X) is type(real) and X == real and real == X and X is not real, "DisjointShape of one shape and Empty entries is not a copy of that shape", {"list": lst_name}, type(real).__name__, type(X).__name__)
    # ---- curved members
    big = Primitive.circle(radius=3)
    hole = Primitive.circle(radius=1, center=(0.5, 0.25))
    far = Primitive.circle(radius=1, center=(10, 0))
    ring = ConnectedShape([big, ~hole])
    ctx.case("curved-composite", "ring")
    ctx.check(ring == big - hole and ConnectedShape([~hole, big]) == ring, "curved ConnectedShape differs from big - hole", {"case": "ring"})
    ctx.check(abs(float(ring) - (float(big) - float(hole))) < 1e-9 and (2.5, 0) in ring and (0.5, 0.25) not in ring, "curved ring area / containment", {"case": "ring"})
    two = DisjointShape([far, ring])
    ctx.check(two == (ring | far) and DisjointShape([ring, far]) == two and (10, 0) in two and (0.5, 0.25) not in two, "curved DisjointShape differs from ring | far", {"case": "ring+far"})
