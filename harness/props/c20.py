"""C20 — plotting draws exactly the boundary of the shape."""
import copy
from fractions import Fraction as F
from harness import core, gen, impl, shapes

RULE = ("shapes of every kind with line, quadratic and cubic boundary pieces (validated polygons, rounded curves, circles, operator results) are plotted on the Agg backend; the PathPatch objects "
        "added to the axes are read back and DECODED by the Lean model with matplotlib's arities (any encoding that decodes to the boundary is accepted): one filled path per component containing "
        "all its curves, one outline per curve, segment by segment, closed, in order; fill colour vs background hole by the sign of the area; Empty draws nothing, Whole only colours the background; "
        "the shape is unchanged; distinct = distinct shape; non-trivial = at least one curved piece or hole")
ASSUMPTIONS = ["matplotlib Path code arities (MOVETO 1, LINETO 1, CURVE3 2, CURVE4 3, CLOSEPOLY 1) are modelled, not verified"]


def run(ctx):
    import matplotlib
    matplotlib.use("Agg")
    import matplotlib.pyplot as plt
    from matplotlib.patches import PathPatch
    from shapepy import ShapePloter, EmptyShape, WholeShape, JordanCurve, SimpleShape, ConnectedShape, DisjointShape, Primitive
    from harness.props.c04 import rounded
    rng, drv = ctx.rng, ctx.drv

    def subjects():
        for it in range(14 if ctx.quick else 400):
            kind = shapes.DEFINED[it % len(shapes.DEFINED)]
            S, d = shapes.make(rng, kind, rng.randint(-3, 3), rng.randint(-3, 3), drv)
            yield kind, S
        for it in range(6 if ctx.quick else 120):
            vs = shapes.rand_simple_vs(rng, 0, 0, R=5, n=rng.randint(3, 6))
            deg = 2 + it % 2
            segs = rounded(vs, cubic=(deg == 3))
            # mixed: replace one curved piece by its chord to get line + curve in one boundary
            if it % 3 == 0:
                segs[0] = [segs[0][0], segs[0][-1]]
            S = SimpleShape(JordanCurve.from_ctrlpoints([[(float(x), float(y)) for x, y in c] for c in segs]))
            if it % 4 == 1:
                S.invert()
            yield f"rounded-deg{deg}", S
        yield "circle", Primitive.circle(radius=2, center=(1, 1), ndivangle=8)
        yield "circle-hole", Primitive.square(side=6) - Primitive.circle(radius=1, ndivangle=4)
        big = SimpleShape(JordanCurve.from_ctrlpoints([[(float(x), float(y)) for x, y in c] for c in rounded([(-9, -9), (9, -8), (8, 9), (-8, 8)], cubic=True)]))
        yield "cubic-with-hole", ConnectedShape([big, ~Primitive.square(side=2)])
        drop = lambda: JordanCurve.from_ctrlpoints([[(0.0, 0.0), (3.0, 2.0), (-3.0, 2.0), (0.0, 0.0)]])
        yield "teardrop-one-cubic", SimpleShape(drop())
        yield "teardrop-hole", ConnectedShape([Primitive.square(side=10.0, center=(0.0, 1.0)), SimpleShape(drop().invert())])
        yield "two-components", DisjointShape([Primitive.circle(radius=1, center=(-5, 0), ndivangle=4), Primitive.square(side=2, center=(5, 0))])
        # an unbounded component together with bounded ones: the complement of a ring = outside + island
        yield "outside-plus-island", ~(Primitive.square(side=8) - Primitive.square(side=4))
        yield "outside-plus-curved-island", (~Primitive.square(side=10.0)) | Primitive.circle(radius=1.0, ndivangle=4)
        yield "outside-plus-two-islands", ~ConnectedShape([Primitive.square(side=20), ~Primitive.square(side=2, center=(-4, 0)), ~Primitive.square(side=2, center=(4, 0))])

    replot = {"simple", "connected", "disjoint", "circle", "rounded-deg2", "cubic-with-hole", "two-components"}
    for name, S in subjects():
        before = copy.deepcopy(S)
        fig, ax = plt.subplots()
        bg0 = ax.get_facecolor()
        try:
            ShapePloter(fig=fig, ax=ax).plot(S)
        except Exception as ex:
            ctx.case("plot", name)
            ctx.fail("plot raised", {"shape": name}, got=repr(ex)); plt.close(fig); continue
        patches = [p for p in ax.patches if isinstance(p, PathPatch)]
        comps = list(S.subshapes) if isinstance(S, DisjointShape) else [S]
        ncurves = sum(len(c.jordans) for c in comps)
        desc = {"shape": name, "kind": impl.kind(S), "degrees": sorted({s.degree for j in S.jordans for s in j.segments})}
        ctx.case("plot", (name, core.eshape(S)[:200]), nontrivial=max(desc["degrees"]) > 1 or ncurves > 1)
        ctx.count("kind:" + impl.kind(S)); ctx.count("maxdeg:%d" % max(desc["degrees"]))
        ctx.sample(desc, limit=3)
        fills = [p for p in patches if p.get_facecolor()[3] != 0]      # outlines are drawn with facecolor="none"
        lines = [p for p in patches if p.get_facecolor()[3] == 0]
        ctx.check(len(fills) == len(comps), "number of filled paths is not the number of components", desc, len(comps), len(fills))
        ctx.check(len(lines) == ncurves, "number of outlines is not the number of boundary curves", desc, ncurves, len(lines))

        def decode(patch):
            path = patch.get_path()
            toks = " ".join(f"{core.er(F(float(v[0])))} {core.er(F(float(v[1])))} {int(c)}" for v, c in zip(path.vertices, path.codes))
            return drv.ask(f"decode {len(path.codes)} {toks}")

        def expected(js, rounding=None):
            out = []
            for j in js:
                segs = []
                for s in j.segments:
                    pts = [(float(p[0]), float(p[1])) for p in s.ctrlpoints]
                    if rounding:
                        pts = [(1e-6 * round(1e6 * x), 1e-6 * round(1e6 * y)) for x, y in pts]
                    segs.append(pts)
                out.append(segs)
            return out

        def close(a, b, tol):
            return len(a) == len(b) and all(len(x) == len(y) and all(len(s) == len(t) and all(abs(float(p[0]) - q[0]) <= tol and abs(float(p[1]) - q[1]) <= tol for p, q in zip(s, t)) for s, t in zip(x, y)) for x, y in zip(a, b))

        for comp, patch in zip(comps, fills):
            ans = decode(patch)
            if ans in ("reject", "bad-op"):
                ctx.fail("filled path does not decode to closed curves", desc, got=ans); continue
            t = core.Toks(ans); got = t.lst(t.jordan)
            ctx.check(close(got, expected(comp.jordans), 1e-9), "filled path does not retrace the boundary of its component", desc, None, str(got)[:300])
            pos = float(comp) > 0
            fc = patch.get_facecolor()
            ctx.check((fc[:3] == (1.0, 1.0, 1.0)) == (not pos), "bounded component not filled / unbounded not drawn as a hole in the background", desc, pos, fc)
        all_js = [j for c in comps for j in c.jordans]
        for j, patch in zip(all_js, lines):
            ans = decode(patch)
            if ans in ("reject", "bad-op"):
                ctx.fail("outline does not decode to a closed curve", desc, got=ans); continue
            t = core.Toks(ans); got = t.lst(t.jordan)
            ctx.check(close(got, expected([j]), 2e-6), "outline does not retrace its boundary curve", desc, None, str(got)[:300])
        if any(float(c) < 0 for c in comps):
            ctx.check(ax.get_facecolor() != bg0, "unbounded component: background not coloured", desc)
        ctx.check(S == before and core.eshape(S) == core.eshape(before), "plotting modified the shape", desc)
        ctx.check(all(set(vars(j)) == set(vars(jb)) for j, jb in zip(S.jordans, before.jordans)), "plotting left new attributes on the curves of the shape", desc)
        plt.close(fig)
        # plot again after an in-place transformation: the second drawing must follow the moved shape
        if name in replot:
            S.move(5, 1); S.scale(2, 0.5)
            fig2, ax2 = plt.subplots()
            ShapePloter(fig=fig2, ax=ax2).plot(S)
            patches2 = [p for p in ax2.patches if isinstance(p, PathPatch)]
            lines2 = [p for p in patches2 if p.get_facecolor()[3] == 0]
            fills2 = [p for p in patches2 if p.get_facecolor()[3] != 0]
            comps2 = list(S.subshapes) if isinstance(S, DisjointShape) else [S]
            ok = len(lines2) == sum(len(c.jordans) for c in comps2) and len(fills2) == len(comps2)
            for j, patch in zip([j for c in comps2 for j in c.jordans], lines2):
                ans = decode(patch)
                if ans in ("reject", "bad-op"):
                    ok = False; continue
                t = core.Toks(ans); got = t.lst(t.jordan)
                ok = ok and close(got, expected([j]), 2e-6)
            for comp, patch in zip(comps2, fills2):
                ans = decode(patch)
                if ans in ("reject", "bad-op"):
                    ok = False; continue
                t = core.Toks(ans); got = t.lst(t.jordan)
                ok = ok and close(got, expected(comp.jordans), 1e-9)
            ctx.case("replot-after-transform", name)
            ctx.check(ok, "second plot after an in-place move/scale does not retrace the moved boundary", desc)
            plt.close(fig2)
    # Empty / Whole
    for nm, S in (("empty", EmptyShape()), ("whole", WholeShape())):
        fig, ax = plt.subplots()
        bg0 = ax.get_facecolor()
        ShapePloter(fig=fig, ax=ax).plot(S)
        ctx.case("plot", nm)
        ctx.check(len(ax.patches) == 0 and len(ax.collections) == 0, "Empty/Whole must not add artists", {"shape": nm})
        ctx.check((ax.get_facecolor() != bg0) == (nm == "whole"), "Empty draws nothing, Whole colours the background", {"shape": nm})
        plt.close(fig)
