"""C17 — Jordan-curve constructors agree with each other and reject open chains."""
import copy
from fractions import Fraction as F
from harness import core, gen, impl, shapes

RULE = ("closed curves described four ways (from_vertices, from_segments, from_ctrlpoints, from_full_curve through pynurbs): polygons from the validated generator and rounded curves with quadratic / "
        "cubic pieces; pairwise ==, vertices (each control point once, in order), segments, box, signed length and area compared with each other and with the Lean model (vertices, box, area exact); "
        "box() encloses sampled curve points; sign of float(curve) = orientation; malformed stream: chains with a gap, reversed piece, missing piece, non-curve arguments must raise; "
        "distinct = distinct description; non-trivial = at least 3 segments")
ASSUMPTIONS = ["from_full_curve depends on pynurbs' knot splitting (modelled, compared numerically to 1e-9)"]


def run(ctx):
    import pynurbs
    from shapepy import JordanCurve, PlanarCurve, Point2D
    from shapepy.jordancurve import IntegrateJordan
    from harness.props.c04 import rounded
    rng, drv = ctx.rng, ctx.drv
    n = 30 if ctx.quick else 400
    for it in range(n):
        vs = shapes.rand_simple_vs(rng, rng.randint(-4, 4), rng.randint(-4, 4), R=6)
        if it % 3 == 0:
            vs = vs[::-1]
        mode = it % 3          # 0: polygon, 1: quadratic pieces, 2: cubic pieces
        ctrl = [[vs[i], vs[(i + 1) % len(vs)]] for i in range(len(vs))] if mode == 0 else rounded(vs, cubic=(mode == 2))
        if it == 1:
            # deterministic entry (finding K9): a closed curve of quadratic pieces whose FIRST piece is a straight line in disguise
            K9 = [[("-9/8", "11/4"), ("-1", "17/4"), ("-7/8", "23/4")], [("-7/8", "23/4"), ("-3/4", "29/4"), ("-31/8", "55/8")], [("-31/8", "55/8"), ("-7", "13/2"), ("-13/2", "25/8")],
                  [("-13/2", "25/8"), ("-6", "-1/4"), ("-21/4", "3/8")], [("-21/4", "3/8"), ("-9/2", "1"), ("-23/8", "9/8")], [("-23/8", "9/8"), ("-5/4", "5/4"), ("-9/8", "11/4")]]
            ctrl = [[(F(x), F(y)) for x, y in c] for c in K9]
        if it == 2:
            # deterministic: a simple closed curve of two cubics whose handles overshoot so that the control legs cross - the CONTROL POLYGON winds the
            # other way (shoelace area -3) while the curve itself is counter-clockwise (exact area +231/20)
            ctrl = [[(F(-1), F(-4)), (F(5), F(2)), (F(3), F(-2)), (F(-2), F(5))], [(F(-2), F(5)), (F(-5), F(4)), (F(3), F(3)), (F(-1), F(-4))]]
        desc = {"ctrl": ctrl}
        ctx.sample(core.jsonable(desc), limit=2)
        curves = {}
        curves["ctrlpoints"] = JordanCurve.from_ctrlpoints(ctrl)
        curves["segments"] = JordanCurve.from_segments([PlanarCurve(c) for c in ctrl])
        if mode == 0:
            curves["vertices"] = JordanCurve.from_vertices(vs)
            # polygon as a degree-1 spline with all vertices as control points
            kv = pynurbs.GeneratorKnotVector.uniform(1, len(vs) + 1)
            full = pynurbs.Curve(kv, [Point2D(p) for p in vs + [vs[0]]])
            curves["full_curve"] = JordanCurve.from_full_curve(full)
            # the same polygon as a DEGREE-ELEVATED quadratic spline (every side written with its midpoint as middle control point, as CAD exports do)
            n_ = len(vs)
            kv2 = [F(0)] * 3 + [F(k) for k in range(1, n_) for _ in (0, 1)] + [F(n_)] * 3
            pts2 = []
            for i_ in range(n_):
                a_, b_ = vs[i_], vs[(i_ + 1) % n_]
                pts2 += [a_, ((a_[0] + b_[0]) / 2, (a_[1] + b_[1]) / 2)]
            pts2.append(vs[0])
            full2 = pynurbs.Curve(kv2)
            full2.ctrlpoints = [Point2D(p) for p in pts2]
            curves["full_curve_elevated"] = JordanCurve.from_full_curve(full2)
        elif mode == 1:
            # the quadratic pieces as ONE quadratic spline with double interior knots
            n_ = len(ctrl)
            kv2 = [F(0)] * 3 + [F(k) for k in range(1, n_) for _ in (0, 1)] + [F(n_)] * 3
            pts2 = [p for c in ctrl for p in c[:2]] + [ctrl[0][0]]
            full2 = pynurbs.Curve(kv2)
            full2.ctrlpoints = [Point2D(p) for p in pts2]
            curves["full_curve"] = JordanCurve.from_full_curve(full2)
        ctx.case("constructors", (repr(ctrl), mode))
        ctx.count("mode:%d" % mode)
        names = list(curves)
        ref = curves[names[0]]
        # (a piece whose control points are collinear and equally spaced is a straight line in disguise: the constructors reduce it, exactly as the
        #  model's `cleanSeg` does - the EXPECTED curve is the description after that reduction)
        ctrl_eff = ctrl if mode == 0 else [[tuple(p) for p in core.dseg(drv.ask("cleanseg " + core.eseg(c)))] for c in ctrl]
        if ctrl_eff != [[tuple(p) for p in c] for c in ctrl]:
            ctx.count("description-with-reducible-piece")
        sig17 = {"family": "constructors", "has_reducible_piece": ctrl_eff != [[tuple(p) for p in c] for c in ctrl]}
        tok = core.ejordan_ctrl(ctrl_eff)
        exp_vertices = core.dpts(drv.ask("vertices " + tok))
        eb = core.Toks(drv.ask("jbox " + tok)); elo, ehi = eb.pt(), eb.pt()
        earea = F(drv.ask("jarea " + tok))
        for nm in names:
            J = curves[nm]
            d2 = {**desc, "constructor": nm}
            got_v = [tuple(v) for v in J.vertices]
            if nm.startswith("full_curve"):
                ok = len(got_v) == len(exp_vertices) and all(abs(float(a) - float(b)) < 1e-9 for g, e in zip(got_v, exp_vertices) for a, b in zip(g, e))
                ctx.check(ok, "vertices of from_full_curve", d2, exp_vertices, got_v)
            else:
                ctx.check(got_v == exp_vertices, "vertices are not each control point once, in order", d2, exp_vertices, got_v, sig=sig17)
                ctx.check(shapes.geom(J) == [[tuple(p) for p in c] for c in ctrl_eff], "segments differ from the description", d2)
                b = J.box()
                ctx.check((tuple(b.lowpt), tuple(b.toppt)) == (elo, ehi), "box()", d2, (elo, ehi), (tuple(b.lowpt), tuple(b.toppt)))
                ctx.check(IntegrateJordan.area(J) == earea, "area", d2, earea, IntegrateJordan.area(J))
            ctx.check(abs(float(J) - float(ref)) <= 1e-9 * abs(float(ref)), "signed length differs between constructors", d2, float(ref), float(J))
            ctx.check((float(J) > 0) == (earea > 0), "sign of float(curve) is not the orientation", d2)
            # junction objects are shared, every other control point appears once
            segs = J.segments
            ctx.check(all(segs[i].ctrlpoints[-1] is segs[(i + 1) % len(segs)].ctrlpoints[0] for i in range(len(segs))), "junction points are not shared objects", d2, sig=sig17)
            for s in segs[:3]:
                for t in (F(1, 3), F(1, 2), F(9, 10)):
                    ctx.check(s(t) in J.box(), "box() does not enclose a curve point", d2)
        # `==` projects points with Newton's iteration: with Fraction control points of curved pieces the numbers explode,
        # so curved descriptions are compared through float copies of the same control points
        if mode != 0:
            fl = [[(float(x), float(y)) for x, y in c] for c in ctrl]
            cmp_curves = {"ctrlpoints": JordanCurve.from_ctrlpoints(fl), "segments": JordanCurve.from_segments([PlanarCurve(c) for c in fl])}
        else:
            cmp_curves = curves
        cref = cmp_curves[names[0]]
        for nm in [n_ for n_ in names[1:] if n_ in cmp_curves]:
            try:
                with impl.time_limit(120):
                    same = cmp_curves[nm] == cref and cref == cmp_curves[nm]
            except impl.Timeout:
                ctx.fail("== between constructors did not return", {**desc, "constructor": nm}); continue
            except Exception as ex:
                ctx.fail("== between constructors raised", {**desc, "constructor": nm}, got=repr(ex)); continue
            ctx.check(same, "curves from two constructors are not ==", {**desc, "constructors": (names[0], nm)})
    # ---- two distinct control points with the same coordinates are two vertices
    arch = [[(0, 0), (1, 2), (2, 0)], [(2, 0), (2, 2)], [(2, 2), (1, 2)], [(1, 2), (0, 2)], [(0, 2), (0, 0)]]
    exp_v = core.dpts(drv.ask("vertices " + core.ejordan_ctrl(arch)))
    for how in ("ctrlpoints", "segments"):
        J = JordanCurve.from_ctrlpoints(arch) if how == "ctrlpoints" else JordanCurve.from_segments([PlanarCurve(c) for c in arch])
        ctx.case("coincident-control-points", how)
        ctx.check([tuple(v) for v in J.vertices] == exp_v and len(J.vertices) == 6, "control points with equal coordinates are not listed separately", {"ctrl": arch, "constructor": how}, exp_v, [tuple(v) for v in J.vertices])
    # ---- from_full_curve for a genuinely curved closed spline (docs example style)
    kv = (0, 0, 0, 0.5, 1, 1, 1)
    cps = [Point2D(p) for p in [(0, 0), (4, 0), (0, 3), (0, 0)]]
    Jf = JordanCurve.from_full_curve(pynurbs.Curve(kv, cps))
    ctx.case("full-curve", "docs-example")
    ctx.check(len(Jf.segments) == 2 and [tuple(map(float, v)) for v in Jf.vertices] == [(0.0, 0.0), (4.0, 0.0), (2.0, 1.5), (0.0, 3.0)], "from_full_curve docs example", {"case": "docs"},
              None, [tuple(map(float, v)) for v in Jf.vertices])
    # ---- malformed chains and non-curve arguments
    sq = [[(0, 0), (2, 0)], [(2, 0), (2, 2)], [(2, 2), (0, 2)], [(0, 2), (0, 0)]]
    bad = {
        "gap": [[(0, 0), (2, 0)], [(2, F(1, 100)), (2, 2)], [(2, 2), (0, 2)], [(0, 2), (0, 0)]],
        "tiny-gap-1e-6": [[(0, 0), (2, 0)], [(2, 1e-6), (2, 2)], [(2, 2), (0, 2)], [(0, 2), (0, 0)]],
        "missing-piece": sq[:3],
        "reversed-piece": [sq[0], [sq[1][1], sq[1][0]], sq[2], sq[3]],
        "not-closing": [[(0, 0), (2, 0)], [(2, 0), (2, 2)], [(2, 2), (0, 2)], [(0, 2), (0, 1)]],
        "not-closing-small": [[(0, 0), (2, 0)], [(2, 0), (2, 2)], [(2, 2), (0, 2)], [(0, 2), (F(1, 1000), 0)]],
        "single-open-segment": [[(0, 0), (1, 1), (2, 0)]],
        "two-segments-open-at-wrap": [[(0, 0), (2, 0)], [(2, 0), (1, 1)]],
    }
    for nm, chain in bad.items():
        for how in ("ctrlpoints", "segments"):
            ctx.case("malformed", (nm, how))
            try:
                J = JordanCurve.from_ctrlpoints(chain) if how == "ctrlpoints" else JordanCurve.from_segments([PlanarCurve(c) for c in chain])
                ctx.fail("open chain accepted", {"chain": nm, "constructor": how}, "exception", repr(J))
            except Exception:
                ctx.count("rejected")
            exp = drv.ask("fromsegments " + core.ejordan_ctrl(chain))
            ctx.check(exp == "reject", "model accepts a chain the property rejects", {"chain": nm}, "reject", exp[:60])
    for nm, arg in {"string": "abc", "number": 3, "points-not-curves": [(0, 0), (1, 1)], "none": None}.items():
        ctx.case("malformed", ("non-curve", nm))
        try:
            J = JordanCurve.from_segments(arg)
            ctx.fail("non-curve argument accepted by from_segments", {"argument": nm}, "exception", repr(J))
        except Exception:
            ctx.count("rejected")
    for nm, arg in {"string": "abc", "number": 3, "none": None, "one-point": [(0, 0)]}.items():
        ctx.case("malformed", ("vertices", nm))
        try:
            J = JordanCurve.from_vertices(arg)
            if nm != "one-point":
                ctx.fail("non-vertex argument accepted by from_vertices", {"argument": nm}, "exception", repr(J))
        except Exception:
            ctx.count("rejected")
