"""C04 — area and polynomial moments equal the true integrals."""
from fractions import Fraction as F
from harness import core, gen, impl, shapes

RULE = ("shapes of every kind (simple either orientation, with holes, unbounded, several components) from validated rational polygons, "
        "plus rounded polygons with quadratic and (degree-elevated) cubic boundary pieces, plus float copies; IntegrateShape.polynomial(a,b) for a+b<=4, "
        "area, float() compared with the model's exact integral (Fraction equality on the proved exactness domain, measured quadrature error outside); "
        "distinct = distinct (shape, exponents); non-trivial = non-empty boundary")
ASSUMPTIONS = ["Green's theorem identifies the boundary integral with the region integral (mathematics, not code)",
               "float inputs: agreement within 1e-9 relative"]


def rounded(vs, cubic=False):
    """closed curve of quadratic pieces [m_{i-1}, v_i, m_i] (or their degree elevation) through the edge midpoints"""
    n = len(vs)
    mids = [((vs[i][0] + vs[(i + 1) % n][0]) / 2, (vs[i][1] + vs[(i + 1) % n][1]) / 2) for i in range(n)]
    segs = []
    for i in range(n):
        a, v, b = mids[i - 1], vs[i], mids[i]
        if cubic:
            k = cubic if isinstance(cubic, F) else F(3, 4)      # 2/3 would be the degree elevation of the quadratic piece
            c1 = (a[0] + k * (v[0] - a[0]), a[1] + k * (v[1] - a[1]))
            c2 = (b[0] + k * (v[0] - b[0]), b[1] + k * (v[1] - b[1]))
            segs.append([a, c1, c2, b])
        else:
            segs.append([a, v, b])
    return segs


def run(ctx):
    from harness import fidelity
    fidelity.check(ctx, ['open', 'closed'])
    from shapepy import IntegrateShape, JordanCurve, SimpleShape, ConnectedShape
    from shapepy.jordancurve import IntegrateJordan
    rng, drv = ctx.rng, ctx.drv
    exps = [(a, b) for a in range(5) for b in range(5) if a + b <= 4]
    n = 30 if ctx.quick else 600
    for it in range(n):
        kind = shapes.DEFINED[it % len(shapes.DEFINED)]
        S, d = shapes.make(rng, kind, rng.randint(-4, 4), rng.randint(-4, 4), drv)
        if it % 2 == 1:
            S, d, _T, seq = shapes.warm_transform(rng, S, d)       # queries, in-place move/scale, queries: then the integrals
            ctx.count("warm-transformed")
        tok = shapes.enc_desc(d)
        ctx.sample({"kind": kind, "shape": core.jsonable(d)}, limit=2)
        for (a, b) in (exps if it % 3 == 0 else rng.sample(exps, 5)):
            got = IntegrateShape.polynomial(S, a, b)
            exp = F(drv.ask(f"moment {tok} {a} {b}"))
            ctx.case("polygon-moment", (repr(d), a, b))
            ctx.count("kind:" + kind)
            ctx.check(core.isfrac(got) and got == exp, "polygon moment is not the exact integral", {"shape": d, "a": a, "b": b}, exp, got)
        area = F(drv.ask(f"moment {tok} 0 0"))
        ctx.check(IntegrateShape.area(S) == area and abs(float(S) - float(area)) <= 1e-12 * max(1, abs(float(area))), "area / float(S)", {"shape": d}, area, float(S))
        # unbounded = minus the bounded complement
        inv = ~S
        a, b = rng.choice(exps)
        ctx.case("complement-moment", (repr(d), "inv", a, b))
        ctx.check(IntegrateShape.polynomial(inv, a, b) == -IntegrateShape.polynomial(S, a, b), "moment(~S) != -moment(S)", {"shape": d, "a": a, "b": b})
        # float copy of the same shape
        if it % 2 == 0:
            fd = shapes.map_desc(d, lambda p: (float(p[0]), float(p[1])))
            verts = shapes.desc_points(d)
            if all(F(float(x)) == x and F(float(y)) == y for x, y in verts):
                Sf = rebuild(fd)
                a, b = rng.choice(exps)
                got = IntegrateShape.polynomial(Sf, a, b)
                exp = F(drv.ask(f"moment {tok} {a} {b}"))
                scale = max(1.0, max(abs(float(c)) for p in verts for c in p)) ** (a + b + 2)
                ctx.case("float-moment", (repr(d), "float", a, b))
                ctx.check(abs(float(got) - float(exp)) <= 1e-9 * scale, "float polygon moment", {"shape": d, "a": a, "b": b}, float(exp), float(got))
    # ---- very small and nearly centred shapes: values far below 1e-9 are still the exact rationals
    for sc in (F(1, 100000), F(1, 10 ** 7)):
        vs = [(x * sc, y * sc) for x, y in [(1, 1), (2, 1), (2, 2), (1, 2)]]
        S = shapes.simple(vs)
        for (a, b) in [(0, 0), (1, 0), (2, 2)]:
            exp = F(drv.ask(f"moment S {core.epoly(vs)} {a} {b}"))
            ctx.case("tiny-shape-moment", (str(sc), a, b))
            ctx.check(IntegrateShape.polynomial(S, a, b) == exp and exp != 0, "moment of a tiny shape is not the exact integral", {"vertices": vs, "a": a, "b": b}, exp, IntegrateShape.polynomial(S, a, b))
        ctx.check(IntegrateShape.area(S) == sc * sc and IntegrateShape.area(~S) == -sc * sc, "area of a tiny shape", {"vertices": vs})
    off = [(F(-1, 4) + F(1, 10 ** 9), F(-1, 4)), (F(1, 4) + F(1, 10 ** 9), F(-1, 4)), (F(1, 4) + F(1, 10 ** 9), F(1, 4)), (F(-1, 4) + F(1, 10 ** 9), F(1, 4))]
    ctx.case("tiny-shape-moment", "nearly-centred")
    ctx.check(IntegrateShape.polynomial(shapes.simple(off), 1, 0) == F(1, 4 * 10 ** 9), "first moment of a nearly centred square", {"vertices": off}, F(1, 4 * 10 ** 9), IntegrateShape.polynomial(shapes.simple(off), 1, 0))
    # ---- curved boundaries with rational control points
    m = 12 if ctx.quick else 300
    maxerr = 0.0
    for it in range(m):
        vs = shapes.rand_simple_vs(rng, rng.randint(-3, 3), rng.randint(-3, 3), R=6, n=rng.randint(3, 6))
        if it % 4 == 3:
            vs = vs[::-1]
        for cubic in (False, True):
            segs = rounded(vs, cubic)
            J = JordanCurve.from_ctrlpoints(segs)
            S = SimpleShape(J)
            tok = "S " + core.ejordan(J)          # the curve as stored (the constructor degree-reduces what it can)
            deg = 3 if cubic else 2
            # (a piece whose three neighbouring vertices are collinear is a straight line in disguise: the constructor may reduce it - the model's
            #  `cleanSeg` says which pieces are genuine)
            exp_deg = [len(core.dseg(drv.ask("cleanseg " + core.eseg(sg_)))) - 1 for sg_ in segs]
            ctx.check([sg.degree for sg in J.segments] == exp_deg, "constructor changed the degree of a genuine curved piece (or kept a reducible one)", {"ctrl": segs}, exp_deg, [sg.degree for sg in J.segments])
            if any(d != deg for d in exp_deg):
                ctx.count("curved-family:has-reducible-piece")
            for (a, b) in [(0, 0), (1, 0), (0, 1), (2, 0), (1, 1), (0, 2), (3, 1)]:
                got = IntegrateShape.polynomial(S, a, b)
                quad = F(drv.ask(f"quadmoment {tok} {a} {b}"))
                exact = F(drv.ask(f"moment {tok} {a} {b}"))
                ctx.case(f"curved-moment-deg{deg}", (tuple(vs), cubic, a, b))
                ctx.check(core.isfrac(got) and got == quad, "curved moment differs from the model of the code's quadrature", {"ctrl": segs, "a": a, "b": b}, quad, got)
                in_domain = (a + b <= 3) if deg == 2 else (a + b == 0)
                if in_domain:
                    ctx.check(got == exact, "curved moment not exact inside the proved exactness domain", {"ctrl": segs, "a": a, "b": b}, exact, got)
                else:
                    scale = 8.0 ** (a + b + 2)
                    err = abs(float(got - exact)) / scale
                    maxerr = max(maxerr, err)
                    ctx.check(err <= 1e-3, "curved moment beyond quadrature accuracy", {"ctrl": segs, "a": a, "b": b}, float(exact), float(got))
            ctx.check(float(J) * (1 if gen.area2(vs) > 0 else -1) > 0, "sign of float(curve) is not the orientation", {"ctrl": segs})
        # the degree-elevated cubic describes the same curve: the constructor reduces it back and all moments agree
        Je = JordanCurve.from_ctrlpoints(rounded(vs, F(2, 3)))
        Jq = JordanCurve.from_ctrlpoints(rounded(vs, False))
        ctx.case("degree-elevated", (tuple(vs), "elevated"))
        ctx.check(Je == Jq and IntegrateShape.polynomial(SimpleShape(Je), 1, 1) == IntegrateShape.polynomial(SimpleShape(Jq), 1, 1),
                  "degree-elevated description gives a different curve", {"vs": vs})
    # ---- curved pieces in special position: end points on the same ordinate / abscissa, symmetric arches, lens, arch-shaped hole
    def arch(x0, x1, y, h, deg):
        xm = (x0 + x1) / 2
        if deg == 2:
            return [(x0, y), (xm, y + h), (x1, y)]
        return [(x0, y), (x0 + (x1 - x0) / 4, y + h), (x1 - (x1 - x0) / 4, y + h), (x1, y)]
    special = []
    for it in range(6 if ctx.quick else 150):
        x0, w, y = gen.rat(rng, -4, 4), F(rng.randint(1, 8), 2), gen.rat(rng, -4, 4)
        h = F(rng.choice([-3, -2, -1, 1, 2, 3]), rng.choice([1, 2]))
        deg = 2 + it % 2
        up = arch(x0, x0 + w, y, h, deg)
        if it % 3 == 0:      # arch over a flat base
            segs = [up, [up[-1], up[0]]] if h > 0 else [[up[0], up[-1]], up[::-1]]
        elif it % 3 == 1:    # lens of two arches
            dn = arch(x0, x0 + w, y, -h, deg)
            segs = [dn, up[::-1]] if h > 0 else [up, dn[::-1]]
        else:                # vertical arch (end points on the same abscissa) closed by two straight pieces
            v = [(p[1], p[0]) for p in up]
            far = (v[0][0] - abs(h) * 2 - 1, (v[0][1] + v[-1][1]) / 2)
            segs = [v, [v[-1], far], [far, v[0]]]
        special.append(segs)
    for segs in special:
        J = JordanCurve.from_ctrlpoints(segs)
        S = SimpleShape(J)
        tok = "S " + core.ejordan(J)
        maxdeg = max(sg.degree for sg in J.segments)
        for (a, b) in [(0, 0), (1, 0), (0, 1), (1, 1), (2, 0)]:
            got = IntegrateShape.polynomial(S, a, b)
            quad = F(drv.ask(f"quadmoment {tok} {a} {b}"))
            exact = F(drv.ask(f"moment {tok} {a} {b}"))
            ctx.case("curved-special-position", (repr(segs), a, b))
            ctx.check(got == quad, "curved moment differs from the model of the code's quadrature (special position)", {"ctrl": segs, "a": a, "b": b}, quad, got)
            if (a + b <= 3 and maxdeg == 2) or (a + b == 0):
                ctx.check(got == exact, "curved moment not exact inside the proved exactness domain (special position)", {"ctrl": segs, "a": a, "b": b}, exact, got)
        inv = ~S
        ctx.check(IntegrateShape.area(inv) == -IntegrateShape.area(S), "area(~S) != -area(S) (special position)", {"ctrl": segs})
    # a square with an arch-shaped hole: holes subtracted
    hole = JordanCurve.from_ctrlpoints([[(1, 1), (3, 1)], [(3, 1), (2, 3), (1, 1)]])
    hole.invert()
    plate = ConnectedShape([shapes.simple([(0, 0), (6, 0), (6, 6), (0, 6)]), SimpleShape(hole)])
    ctx.case("curved-special-position", "square-with-arch-hole")
    ctx.check(IntegrateShape.area(plate) == 36 - F(4, 3), "square with an arch-shaped hole: area", {"case": "plate"}, 36 - F(4, 3), IntegrateShape.area(plate))
    ctx.notes.append(f"max measured relative quadrature error outside the exactness domain: {maxerr:.3e}")
    # ---- circles: exact area formula of the quadratic approximation
    from shapepy import Primitive
    import math
    for nd in ([4, 8, 16] if ctx.quick else [4, 5, 6, 8, 12, 16, 32, 64]):
        r = rng.choice([1, 2, 0.5])
        c = Primitive.circle(radius=r, ndivangle=nd)
        h = math.tan(math.pi / nd)
        sector = h * r * r * (2 * h * h + 3) / (3 * (1 + h * h))
        ctx.case("circle-area", ("circle", nd, r))
        ctx.check(abs(float(c) - nd * sector) <= 1e-9 * r * r, "circle area != closed form of the quadratic arcs", {"ndivangle": nd, "radius": r}, nd * sector, float(c))
        ctx.check(abs(float(c) - math.pi * r * r) <= math.pi * r * r * 2 * h ** 3, "circle area far from pi r^2", {"ndivangle": nd, "radius": r})


def rebuild(d):
    from shapepy import ConnectedShape, DisjointShape
    if d[0] == "S":
        return shapes.simple(d[1])
    if d[0] == "C":
        return ConnectedShape([shapes.simple(vs) for vs in d[1]])
    comps = []
    for c in d[1]:
        comps.append(shapes.simple(c[0]) if len(c) == 1 else ConnectedShape([shapes.simple(vs) for vs in c]))
    return DisjointShape(comps)
