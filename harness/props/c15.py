"""C15 — splitting and cleaning a curve never change the curve."""
import copy, math
from fractions import Fraction as F
from harness import core, gen, impl, shapes

RULE = ("closed rational polygons (both orientations) x multisets of (segment, parameter) pairs with repeated, nearly equal (1e-9 apart), near-0/1 and ordinary parameters, "
        "repeated split/clean sequences: segments compared exactly with the Lean model of split, orientation / area / length / point set preserved, each piece retraces its part, "
        "junction = segment(t), no zero-length piece, clean() idempotent and split-then-clean == original with the original segmentation; circles and rounded curves to 1e-6; "
        "distinct = distinct (curve, request); non-trivial = at least one kept parameter")
ASSUMPTIONS = ["curved pieces may be degree-reduced within 1e-9 by the library: compared to 1e-6 as the property states"]


def rand_pairs(rng, nseg):
    k = rng.randint(1, 5)
    out = []
    for _ in range(k):
        i = rng.randrange(nseg)
        c = rng.random()
        if c < 0.5:
            t = gen.param(rng)
        elif c < 0.6:
            t = rng.choice([F(0), F(1)])
        elif c < 0.7:
            t = rng.choice([F(1, 10 ** 7), 1 - F(1, 10 ** 7)])       # inside the 1e-6 end filter
        elif c < 0.8 and out:
            i, t0 = out[-1]; t = t0                                   # exact repeat
        elif c < 0.9 and out:
            i, t0 = out[-1]; t = min(F(1), t0 + F(1, 10 ** 9))        # nearly equal
        else:
            t = F(rng.randint(1, 99), 100)
        out.append((i, t))
    return out


def run(ctx):
    from shapepy import JordanCurve, Primitive, SimpleShape
    from shapepy.jordancurve import IntegrateJordan
    rng, drv = ctx.rng, ctx.drv
    n = 60 if ctx.quick else 800
    for it in range(n):
        while True:   # simple and without redundant (collinear) vertices, decided by the model
            vs = shapes.rand_simple_vs(rng, rng.randint(-3, 3), rng.randint(-3, 3), R=6)
            if drv.ask("genpos 1 " + core.epoly(vs)) == "T":
                break
        if it % 3 == 0:
            vs = vs[::-1]
        j = JordanCurve.from_vertices(vs)
        j0 = copy.deepcopy(j)
        area0, len0 = IntegrateJordan.area(j), float(j)
        rounds = rng.randint(1, 3)
        desc = {"vertices": vs, "requests": []}
        model = core.epoly(vs)
        for r in range(rounds):
            pairs = rand_pairs(rng, len(j.segments))
            desc["requests"].append(pairs)
            before = [[tuple(p) for p in s.ctrlpoints] for s in j.segments]
            try:
                j.split([p[0] for p in pairs], [p[1] for p in pairs])
            except Exception as ex:
                ctx.case("split", None)
                ctx.fail("split raised on valid parameters", desc, got=repr(ex)); break
            model = drv.ask(f"jsplit {model} {core.elist(pairs, lambda p: str(p[0]) + ' ' + core.er(p[1]))}")
            got = shapes.geom(j)
            exp = core.djordan(model)
            kept = sum(1 for p in pairs if not (abs(p[1]) < 1e-6 or abs(p[1] - 1) < 1e-6))
            ctx.case("split", (tuple(vs), repr(desc["requests"])), nontrivial=kept > 0)
            if not ctx.check(got == exp, "segments after split differ from the model", desc, exp, got):
                break
            # property-level checks on the implementation itself
            ctx.check(all(s[0] != s[-1] for s in got), "zero-length piece after split", desc)
            ctx.check(all(got[i][-1] == got[(i + 1) % len(got)][0] for i in range(len(got))), "consecutive pieces do not share their junction", desc)
            ids_ok = all(j.segments[i].ctrlpoints[-1] is j.segments[(i + 1) % len(j.segments)].ctrlpoints[0] for i in range(len(j.segments)))
            ctx.check(ids_ok, "junction point is not one shared object", desc)
            ctx.check(IntegrateJordan.area(j) == area0, "split changed the enclosed area", desc, area0, IntegrateJordan.area(j))
            ctx.check(abs(float(j) - len0) <= 1e-9 * abs(len0), "split changed the signed length / orientation", desc, len0, float(j))
            for (i, t) in pairs:
                q = PlanarEval(before[i], t)
                if not (abs(t) < 1e-6 or abs(t - 1) < 1e-6):
                    L = math.sqrt(float((before[i][1][0] - before[i][0][0]) ** 2 + (before[i][1][1] - before[i][0][1]) ** 2))
                    near = any(abs(float(s[0][0] - q[0])) <= 2e-6 * L and abs(float(s[0][1] - q[1])) <= 2e-6 * L for s in got)
                    ctx.check(near, "no junction at (or within 1e-6 of the parameter of) segment(t)", {**desc, "pair": (i, t)}, q)
            cheap = all(t.denominator <= 1000 for _, t in pairs)
            if cheap and it % 2 == 0:
                ctx.check(j == j0, "split curve is not == to the original", desc)
            else:
                ctx.count("eq-check-skipped-large-denominators")
        # clean: idempotent, gives back the original segmentation
        jc = copy.deepcopy(j)
        jc.clean()
        g1 = shapes.geom(jc)
        jc.clean()
        ctx.case("clean", (tuple(vs), "clean", repr(desc["requests"])))
        ctx.check(shapes.geom(jc) == g1, "clean() is not idempotent", desc)
        base = shapes.geom(j0)
        k = next((r for r in range(len(g1)) if g1[r:] + g1[:r] == base), None)
        ctx.check(len(g1) == len(base) and k is not None, "split followed by clean does not give back the original segmentation", desc, base, g1)
        if it % 2 == 0:
            ctx.check(jc == j0, "cleaned curve is not == to the original", desc)
    extra_families(ctx)
    # ---- curved: circle pieces
    for it in range(6 if ctx.quick else 80):
        nd = rng.choice([4, 8, 16])
        c = Primitive.circle(radius=rng.choice([1, 2]), ndivangle=nd).jordans[0]
        c0 = copy.deepcopy(c)
        a0 = float(IntegrateJordan.area(c))
        idx = rng.sample(range(nd), rng.randint(1, 3))           # one well-separated parameter per arc (close parameters: family above)
        pairs = [(i, rng.choice([0.25, 0.5, 0.3, 0.75])) for i in idx]
        c.split([p[0] for p in pairs], [p[1] for p in pairs])
        ctx.case("curved-split", ("circle", nd, repr(pairs)))
        ctx.check(abs(float(IntegrateJordan.area(c)) - a0) <= 1e-6, "split changed the area of a circle", {"ndivangle": nd, "pairs": pairs}, a0, float(IntegrateJordan.area(c)))
        gaps = [abs(p[1] - q[1]) for p in pairs for q in pairs if p is not q and p[0] == q[0]]
        if not gaps or min(gaps) >= 0.2:
            ctx.check(all(s.degree == 2 for s in c.segments), "long circle pieces were degree-reduced", {"ndivangle": nd, "pairs": pairs})
        for (i, t) in pairs:
            q = c0.segments[i](t)
            ctx.check(any(abs(float(s.ctrlpoints[0][0] - q[0])) < 1e-6 and abs(float(s.ctrlpoints[0][1] - q[1])) < 1e-6 for s in c.segments), "no junction at segment(t) on the circle", {"pairs": pairs})
        if all(s.degree == 2 for s in c.segments):       # == is only promised while the pieces keep the degree of their segment
            ctx.check(c == c0, "split circle is not == to the original", {"ndivangle": nd, "pairs": pairs})


def extra_families(ctx):
    import copy, math
    from shapepy import JordanCurve, Primitive
    from shapepy.jordancurve import IntegrateJordan
    rng, drv = ctx.rng, ctx.drv
    # (a) curved segments split at parameters that are close to each other or to an end: pieces may be degree-reduced, but the
    #     chain must stay closed with shared junctions, and later calls must keep working
    for it in range(8 if ctx.quick else 150):
        nd = rng.choice([4, 8, 16])
        c = Primitive.circle(radius=rng.choice([1.0, 2.0]), ndivangle=nd).jordans[0]
        a0 = float(IntegrateJordan.area(c))
        i = rng.randrange(nd)
        base = rng.choice([0.3, 0.5, 0.7])
        pairs = rng.choice([[(i, base), (i, base + 0.01)], [(i, 0.01)], [(i, 0.99)], [(i, base), (i, base + 0.002), ((i + 1) % nd, 0.5)], [(i, 0.005), (i, 0.5), (i, 0.995)]])
        desc = {"ndivangle": nd, "pairs": pairs}
        ctx.case("curved-close-parameters", (nd, repr(pairs)))
        try:
            c.split([p[0] for p in pairs], [p[1] for p in pairs])
            segs = c.segments
            ok_chain = all(segs[k].ctrlpoints[-1] is segs[(k + 1) % len(segs)].ctrlpoints[0] for k in range(len(segs)))
            ctx.check(ok_chain, "after a split with close parameters consecutive pieces do not share one junction point", desc)
            ctx.check(all(tuple(sg.ctrlpoints[0]) != tuple(sg.ctrlpoints[-1]) for sg in segs), "zero-length piece after a split with close parameters", desc)
            err = abs(float(IntegrateJordan.area(c)) - a0)
            r2 = a0 / math.pi
            reduced = any(sg.degree == 1 for sg in segs)
            ctx.check(err <= 1e-6, "split with close parameters changed the area by more than 1e-6", desc, a0, float(IntegrateJordan.area(c)),
                      sig={"family": "curved-close-parameters", "a_piece_was_degree_reduced": reduced, "error_below_2e-5_r2": err <= 2e-5 * r2})
            verts = [tuple(map(float, v)) for v in c.vertices]
            ctx.check(len(set(verts)) == len(verts), "duplicated vertex after a split with close parameters", desc)
            c2 = copy.deepcopy(c)
            c2.split([0], [0.5]); c2.clean(); float(c2)
        except Exception as ex:
            ctx.fail("split / clean raised after a split with close parameters", desc, got=repr(ex))
    # (b) vertices that are NEARLY collinear are not redundant: clean() must keep them (exact rational polygons)
    for dev in (F(1, 10000), F(1, 1000), F(1, 100000)):
        for k in range(2 if ctx.quick else 10):
            w = F(rng.randint(1, 4))
            vs = [(0, 0), (w, -dev), (2 * w, 0), (2 * w, 3), (w, 3 + dev), (0, 3)]
            sh = (F(rng.randint(-3, 3)), F(rng.randint(-3, 3)))
            vs = [(x + sh[0], y + sh[1]) for x, y in vs]
            J = JordanCurve.from_vertices(vs)
            a0 = IntegrateJordan.area(J)
            J.clean()
            ctx.case("near-collinear-clean", (repr(vs),))
            exp = core.djordan(drv.ask("cleanj " + core.epoly(vs)))
            ctx.check(len(J.segments) == len(exp) == 6 and IntegrateJordan.area(J) == a0, "clean() removed a vertex that is not redundant", {"vertices": vs, "deviation": dev}, 6, len(J.segments),
                      sig={"family": "near-collinear-clean", "deviation_below_6e-5": dev < F(6, 100000)})
    # regular polygons with many sides: every vertex is a real vertex
    for ns in (120, 360):
        P = Primitive.regular_polygon(ns).jordans[0]
        a0 = float(IntegrateJordan.area(P))
        P.clean()
        ctx.case("near-collinear-clean", ("regular", ns))
        ctx.check(len(P.segments) == ns and abs(float(IntegrateJordan.area(P)) - a0) < 1e-12, "clean() removed vertices of a regular polygon", {"nsides": ns}, ns, len(P.segments))


def PlanarEval(ctrl, t):
    (x0, y0), (x1, y1) = ctrl
    return (x0 + t * (x1 - x0), y0 + t * (y1 - y0))
