"""C15 — splitting and cleaning a curve never change the curve."""
import copy, math
from fractions import Fraction as F
from harness import core, gen, impl, shapes

RULE = ("closed rational polygons (both orientations) x multisets of (segment, parameter) pairs with repeated, nearly equal (1e-9 apart), near-0/1 and ordinary parameters, "
        "repeated split/clean sequences: segments compared exactly with the Lean model of split, orientation / area / length / point set preserved, each piece retraces its part, "
        "junction = segment(t), no zero-length piece, clean() idempotent and split-then-clean == original with the original segmentation; circles and rounded curves to 1e-6; "
        "distinct = distinct (curve, request); non-trivial = at least one kept parameter")
ASSUMPTIONS = ["curved pieces may be degree-reduced within 1e-9 by the library: compared to 1e-6 as the property states"]


def rand_pairs(rng, nseg):
    k = rng.randint(1, 5)
    out = []
    for _ in range(k):
        i = rng.randrange(nseg)
        c = rng.random()
        if c < 0.5:
            t = gen.param(rng)
        elif c < 0.6:
            t = rng.choice([F(0), F(1)])
        elif c < 0.7:
            t = rng.choice([F(1, 10 ** 7), 1 - F(1, 10 ** 7)])       # inside the 1e-6 end filter
        elif c < 0.8 and out:
            i, t0 = out[-1]; t = t0                                   # exact repeat
        elif c < 0.9 and out:
            i, t0 = out[-1]; t = min(F(1), t0 + F(1, 10 ** 9))        # nearly equal
        else:
            t = F(rng.randint(1, 99), 100)
        out.append((i, t))
    return out


def run(ctx):
    from shapepy import JordanCurve, Primitive, SimpleShape
    from shapepy.jordancurve import IntegrateJordan
    rng, drv = ctx.rng, ctx.drv
    n = 60 if ctx.quick else 2500
    for it in range(n):
        while True:   # simple and without redundant (collinear) vertices, decided by the model
            vs = shapes.rand_simple_vs(rng, rng.randint(-3, 3), rng.randint(-3, 3), R=6)
            if drv.ask("genpos 1 " + core.epoly(vs)) == "T":
                break
        if it % 3 == 0:
            vs = vs[::-1]
        j = JordanCurve.from_vertices(vs)
        j0 = copy.deepcopy(j)
        area0, len0 = IntegrateJordan.area(j), float(j)
        rounds = rng.randint(1, 3)
        desc = {"vertices": vs, "requests": []}
        model = core.epoly(vs)
        for r in range(rounds):
            pairs = rand_pairs(rng, len(j.segments))
            desc["requests"].append(pairs)
            before = [[tuple(p) for p in s.ctrlpoints] for s in j.segments]
            try:
                j.split([p[0] for p in pairs], [p[1] for p in pairs])
            except Exception as ex:
                ctx.case("split", None)
                ctx.fail("split raised on valid parameters", desc, got=repr(ex)); break
            model = drv.ask(f"jsplit {model} {core.elist(pairs, lambda p: str(p[0]) + ' ' + core.er(p[1]))}")
            got = shapes.geom(j)
            exp = core.djordan(model)
            kept = sum(1 for p in pairs if not (abs(p[1]) < 1e-6 or abs(p[1] - 1) < 1e-6))
            ctx.case("split", (tuple(vs), repr(desc["requests"])), nontrivial=kept > 0)
            if not ctx.check(got == exp, "segments after split differ from the model", desc, exp, got):
                break
            # property-level checks on the implementation itself
            ctx.check(all(s[0] != s[-1] for s in got), "zero-length piece after split", desc)
            ctx.check(all(got[i][-1] == got[(i + 1) % len(got)][0] for i in range(len(got))), "consecutive pieces do not share their junction", desc)
            ids_ok = all(j.segments[i].ctrlpoints[-1] is j.segments[(i + 1) % len(j.segments)].ctrlpoints[0] for i in range(len(j.segments)))
            ctx.check(ids_ok, "junction point is not one shared object", desc)
            ctx.check(IntegrateJordan.area(j) == area0, "split changed the enclosed area", desc, area0, IntegrateJordan.area(j))
            ctx.check(abs(float(j) - len0) <= 1e-9 * abs(len0), "split changed the signed length / orientation", desc, len0, float(j))
            for (i, t) in pairs:
                q = PlanarEval(before[i], t)
                if not (abs(t) < 1e-6 or abs(t - 1) < 1e-6):
                    L = math.sqrt(float((before[i][1][0] - before[i][0][0]) ** 2 + (before[i][1][1] - before[i][0][1]) ** 2))
                    near = any(abs(float(s[0][0] - q[0])) <= 2e-6 * L and abs(float(s[0][1] - q[1])) <= 2e-6 * L for s in got)
                    ctx.check(near, "no junction at (or within 1e-6 of the parameter of) segment(t)", {**desc, "pair": (i, t)}, q)
            cheap = all(t.denominator <= 1000 for _, t in pairs)
            if cheap and it % 2 == 0:
                ctx.check(j == j0, "split curve is not == to the original", desc)
            else:
                ctx.count("eq-check-skipped-large-denominators")
        # clean: idempotent, gives back the original segmentation
        jc = copy.deepcopy(j)
        jc.clean()
        g1 = shapes.geom(jc)
        jc.clean()
        ctx.case("clean", (tuple(vs), "clean", repr(desc["requests"])))
        ctx.check(shapes.geom(jc) == g1, "clean() is not idempotent", desc)
        base = shapes.geom(j0)
        k = next((r for r in range(len(g1)) if g1[r:] + g1[:r] == base), None)
        ctx.check(len(g1) == len(base) and k is not None, "split followed by clean does not give back the original segmentation", desc, base, g1)
        if it % 2 == 0:
            ctx.check(jc == j0, "cleaned curve is not == to the original", desc)
    # ---- curved: circle pieces
    for it in range(6 if ctx.quick else 80):
        nd = rng.choice([4, 8, 16])
        c = Primitive.circle(radius=rng.choice([1, 2]), ndivangle=nd).jordans[0]
        c0 = copy.deepcopy(c)
        a0 = float(IntegrateJordan.area(c))
        pairs = [(rng.randrange(nd), rng.choice([0.25, 0.5, 0.3, 0.75])) for _ in range(rng.randint(1, 3))]
        c.split([p[0] for p in pairs], [p[1] for p in pairs])
        ctx.case("curved-split", ("circle", nd, repr(pairs)))
        ctx.check(abs(float(IntegrateJordan.area(c)) - a0) <= 1e-6, "split changed the area of a circle", {"ndivangle": nd, "pairs": pairs}, a0, float(IntegrateJordan.area(c)))
        ctx.check(all(s.degree == 2 for s in c.segments), "long circle pieces were degree-reduced", {"ndivangle": nd, "pairs": pairs})
        for (i, t) in pairs:
            q = c0.segments[i](t)
            ctx.check(any(abs(float(s.ctrlpoints[0][0] - q[0])) < 1e-6 and abs(float(s.ctrlpoints[0][1] - q[1])) < 1e-6 for s in c.segments), "no junction at segment(t) on the circle", {"pairs": pairs})
        ctx.check(c == c0, "split circle is not == to the original", {"ndivangle": nd, "pairs": pairs})


def PlanarEval(ctrl, t):
    (x0, y0), (x1, y1) = ctrl
    return (x0 + t * (x1 - x0), y0 + t * (y1 - y0))
