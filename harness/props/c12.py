"""C12 — results do not depend on position, orientation or unit of length."""
import math
from fractions import Fraction as F
from harness import core, gen, impl, shapes

RULE = ("pairs of rational polygons in general position (either orientation) x exact similarity maps T (translations up to 1e6, Pythagorean rotations 3-4-5 / 5-12-13 / 8-15-17 / 20-21-29, "
        "uniform scales 1e-3 .. 1e5): the real T(A) op T(B) is compared, as an exact canonical region, with T applied to the real A op B, for | & - ^ and ~; "
        "T(p) in T(A) iff p in A, T(B) in T(A) iff B in A, areas scale by k^2; deterministic float/curved scale sweep (circles) with catalogued findings; "
        "distinct = distinct (pair, op, T); non-trivial = operands cross")
ASSUMPTIONS = ["curved / float operands are a deterministic corpus; scale dependence of the absolute tolerances is a recorded finding (K1)"]

PYTH = [(F(3, 5), F(4, 5)), (F(5, 13), F(12, 13)), (F(8, 17), F(15, 17)), (F(20, 29), F(21, 29)), (F(-4, 5), F(3, 5)), (F(0), F(1)), (F(-1), F(0)), (F(12, 13), F(-5, 13))]


def rand_T(rng, small=False):
    c, s = rng.choice(PYTH) if rng.random() < 0.7 else (F(1), F(0))
    k = rng.choice([F(1, 1000), F(1, 100), F(1, 7), F(1), F(3), F(1000), F(100000), F(5, 2)])
    if small:
        k = rng.choice([F(1, 50000), F(1, 20000), F(1, 1000)])      # millimetres vs. tens of metres
    mag = rng.choice([1, 10, 1000, 10 ** 6])
    dx, dy = F(rng.randint(-mag, mag)), F(rng.randint(-mag, mag), rng.choice([1, 2, 4]))
    def T(p):
        x, y = p
        return (k * (c * x - s * y) + dx, k * (s * x + c * y) + dy)
    return T, {"cos": c, "sin": s, "scale": k, "shift": (dx, dy)}, k


def run(ctx):
    from harness import fidelity
    fidelity.check(ctx, ['pteq', 'boxin', 'boxdisj'])
    from shapepy import JordanCurve
    from shapepy import IntegrateShape, Primitive
    rng, drv = ctx.rng, ctx.drv
    n = 30 if ctx.quick else 400
    for it in range(n):
        if it % 3 == 2:
            (va, vb), unit0 = impl.scaled_family(ctx, 2, scales=(F(1),), pinv=0.25)     # integer coordinates: exact after tiny scales
            T, tdesc, k = rand_T(rng, small=True)
        else:
            va, vb = impl.leaf_family(ctx, 2, pinv=0.25)
            T, tdesc, k = rand_T(rng)
        ta, tb = [T(p) for p in va], [T(p) for p in vb]
        # denominators of transformed coordinates must stay below 10^9 (stored unchanged: C13) for an exact comparison
        if gen.maxden(ta + tb) > 10 ** 8:
            ctx.count("skipped-large-denominator"); continue
        op = rng.choice(["or", "and", "sub", "xor"])
        desc = {"A": va, "B": vb, "op": op, "T": tdesc}
        ctx.sample(core.jsonable(desc), limit=2)
        A, B, TA, TB = impl.poly(va), impl.poly(vb), impl.poly(ta), impl.poly(tb)
        try:
            with impl.time_limit(120):
                R = impl.OPS[op](A, B)
                TR = impl.OPS[op](TA, TB)
        except impl.Timeout:
            ctx.fail("operator did not return", desc); continue
        except Exception as ex:
            ctx.fail("operator raised on transversal operands", desc, got=repr(ex)); continue
        ctx.case("similarity", (tuple(va), tuple(vb), op, repr(tdesc)), nontrivial=impl.kind(R) != "Empty")
        ctx.count("scale:" + str(tdesc["scale"])); ctx.count("op:" + op)
        ctx.check(impl.kind(R) == impl.kind(TR), "kind of the result depends on the similarity map", desc, impl.kind(R), impl.kind(TR))
        if impl.kind(R) in ("Empty", "Whole") or impl.kind(R) != impl.kind(TR):
            continue
        # T applied to the real result, as a model shape
        def tshape(S):
            from shapepy.shape import SimpleShape, ConnectedShape
            def tj(j):
                return [T(tuple(v)) for v in [s.ctrlpoints[0] for s in j.segments]]
            if isinstance(S, SimpleShape):
                return "S " + core.epoly(tj(S.jordans[0]))
            if isinstance(S, ConnectedShape):
                return "C " + core.elist(S.jordans, lambda j: core.epoly(tj(j)))
            return "D " + core.elist(S.subshapes, lambda c: core.elist(c.jordans, lambda j: core.epoly(tj(j))))
        exp = drv.ask("canon " + tshape(R))
        got = drv.ask("canon " + core.eshape(TR))
        # Point2D arithmetic re-limits denominators to 10^9 (finding K5): exact equality is demanded only while every vertex
        # involved has a denominator whose square stays below 10^9; beyond that the comparison is numerical (1e-9 relative)
        dens = gen.maxden([tuple(v) for S_ in (R, TR) for j in S_.jordans for v in j.vertices])
        if dens * dens < 10 ** 9:
            ctx.count("exact-regime")
            ctx.check(got == exp, "T(A) op T(B) is not T(A op B)", desc, exp[:300], got[:300])
            ctx.check(IntegrateShape.area(TR) == k * k * IntegrateShape.area(R), "area does not scale by the square of the factor", desc)
        else:
            ctx.count("rounded-regime")
            ctx.check(canon_close(got, exp, 1e-9 * float(k) * 20), "T(A) op T(B) is not T(A op B) (numerical)", desc, exp[:300], got[:300])
            a1, a0 = float(IntegrateShape.area(TR)), float(k * k * IntegrateShape.area(R))
            # (rounded regime = finding K5: every Point2D operation re-limits denominators to 10^9, an ABSOLUTE quantisation of up to ~1e-12 per
            #  coordinate in unlucky cases; its effect on the area is perimeter x quantisation, which is what the tolerance allows on top of 1e-9 relative)
            per = sum(abs(float(v[0])) + abs(float(v[1])) for j in TR.jordans for v in j.vertices)
            ctx.check(abs(a1 - a0) <= 1e-9 * abs(a0) + 1e-12 * per, "area does not scale by the square of the factor (numerical)", desc, a0, a1)
        # complement, membership, containment
        ctx.check(canon_close(drv.ask("canon " + core.eshape(~TA)), drv.ask("canon " + tshape(~A)), 0), "~T(A) is not T(~A)", desc)
        pts = core.dpts(drv.ask("samples 2 S " + core.epoly(va) + " S " + core.epoly(vb)))
        pts = [p for p in rng.sample(pts, min(8, len(pts))) if drv.ask(f"onb S {core.epoly(va)} {core.ept(p)}") == "F"]
        pts = [p for p in pts if gen.maxden([T(p)]) <= 10 ** 9]
        ctx.check([T(p) in TA for p in pts] == [p in A for p in pts], "T(p) in T(A) differs from p in A", {**desc, "points": pts})
        ctx.check((TB in TA) == (B in A) and (TA in TB) == (A in B), "T(B) in T(A) differs from B in A", desc)
        # the same objects that were just used as operands, transformed IN PLACE by a translation and a uniform scaling
        if dens * dens < 10 ** 9 and it % 2 == 0:
            dx, dy, kk = F(rng.randint(-50, 50)), F(rng.randint(-50, 50), 2), F(rng.choice([2, 3, 5]), rng.choice([1, 2]))
            for X in (A, B):
                X.move(dx, dy); X.scale(kk, kk)
            def T2(p):
                return ((p[0] + dx) * kk, (p[1] + dy) * kk)
            try:
                with impl.time_limit(120):
                    R2 = impl.OPS[op](A, B)
                def t2shape(S):
                    from shapepy.shape import SimpleShape, ConnectedShape
                    def tj(j):
                        return [T2(tuple(s_.ctrlpoints[0])) for s_ in j.segments]
                    if isinstance(S, SimpleShape):
                        return "S " + core.epoly(tj(S.jordans[0]))
                    if isinstance(S, ConnectedShape):
                        return "C " + core.elist(S.jordans, lambda j: core.epoly(tj(j)))
                    return "D " + core.elist(S.subshapes, lambda c: core.elist(c.jordans, lambda j: core.epoly(tj(j))))
                ctx.check(impl.kind(R2) == impl.kind(R) and canon_close(drv.ask("canon " + core.eshape(R2)), drv.ask("canon " + t2shape(R)), 1e-9),
                          "operands moved and scaled in place after an operation: the operator no longer commutes with the map", desc)
                ctx.check([T2(p) in A for p in pts] == [p in impl.poly(va) for p in pts], "T(p) in T(A) differs from p in A (in-place T)", desc)
            except impl.Timeout:
                ctx.fail("operator did not return", desc)
            except Exception as ex:
                ctx.fail("operator raised after in-place transformation of earlier operands", desc, got=repr(ex))
    # ---- measured first, THEN re-scaled in place (a change of unit of an existing drawing): areas scale by k^2, containment is unchanged
    from shapepy.shape import SimpleShape, ConnectedShape
    for it in range(6 if ctx.quick else 40):
        k = rng.choice([F(1, 1000), F(1, 20), 10, 25, 1000])
        cx, cy = rng.randint(-3, 3), rng.randint(-3, 3)
        outer = [(cx - 4, cy - 4), (cx + 4, cy - 3), (cx + 5, cy + 4), (cx - 3, cy + 5)]
        inner = [(cx - 1, cy - 1), (cx + 1, cy - 1), (cx + 2, cy + 1), (cx, cy + 2)]
        apart = [(cx + 7, cy), (cx + 9, cy), (cx + 9, cy + 2)]
        A, B, Cc = impl.poly(outer), impl.poly(inner), impl.poly(apart)
        ring = A - B
        desc = {"outer": outer, "inner": inner, "apart": apart, "factor": k}
        ctx.case("measure-then-rescale", (tuple(outer), tuple(inner), k))
        before = {"B in A": B in A, "A in B": A in B, "C in A": Cc in A, "B in ring": B in ring, "areaA": float(A), "areaB": float(B), "areaR": float(ring)}
        for X in (A, B, Cc, ring):
            X.scale(k, k)
        after = {"B in A": B in A, "A in B": A in B, "C in A": Cc in A, "B in ring": B in ring, "areaA": float(A), "areaB": float(B), "areaR": float(ring)}
        kk = float(k) ** 2
        exp = {q: (v if isinstance(v, bool) else v * kk) for q, v in before.items()}
        ok = all((after[q] == exp[q]) if isinstance(exp[q], bool) else abs(after[q] - exp[q]) <= 1e-9 * abs(exp[q]) for q in exp)
        ctx.check(ok, "a drawing measured and then re-scaled in place answers differently from the same drawing in the new unit", desc, exp, after)
        A2, B2 = impl.poly([(x * k, y * k) for x, y in outer]), impl.poly([(x * k, y * k) for x, y in inner])
        ctx.check((B2 in A) == before["B in A"] and (B in A2) == before["B in A"] and (A2 in B) == before["A in B"],
                  "containment between a re-scaled drawing and a fresh drawing in the new unit differs", desc)
    # ---- orientation: a curved shape that fits TIGHTLY in a polygon (control polygon pokes out of the polygon's box in some orientations only)
    tight = []
    circ = lambda: Primitive.circle(radius=1.0, ndivangle=16).rotate(math.pi / 16)
    tight.append(("circle-in-square-2.02", circ, lambda: Primitive.square(side=2.02), True))
    tight.append(("circle-in-square-1.98", circ, lambda: Primitive.square(side=1.98), False))
    lens = lambda: SimpleShape(JordanCurve.from_ctrlpoints([[(-2.0, 0.0), (0.0, -1.0), (2.0, 0.0)], [(2.0, 0.0), (0.0, 1.0), (-2.0, 0.0)]]))
    tight.append(("lens-in-rectangle", lens, lambda: impl.poly([(-2.2, -0.6), (2.2, -0.6), (2.2, 0.6), (-2.2, 0.6)]), True))
    for name, mkB, mkA, truth in tight:
        answers = {}
        for ang in (0.0, 0.2, math.pi / 4, math.pi / 2, 2.0):
            for unit, shift in ((1.0, (0.0, 0.0)), (50.0, (300.0, -200.0))):
                A, B = mkA(), mkB()
                for X in (A, B):
                    X.rotate(ang); X.scale(unit, unit); X.move(shift)
                ctx.case("tight-fit-orientation", (name, ang, unit))
                try:
                    with impl.time_limit(120):
                        answers[(round(ang, 3), unit)] = (B in A)
                except impl.Timeout:
                    answers[(round(ang, 3), unit)] = "timeout"
        ctx.check(all(v == truth for v in answers.values()), "T(B) in T(A) depends on the orientation / unit of the drawing", {"pair": name}, truth, {str(k): v for k, v in answers.items()})
    # ---- deterministic float / curved scale sweep: circle & square at several units
    global REF_AREA
    REF_AREA = _ref()
    # the reference itself is validated against the analytic lens area (true circle; the 16-arc approximation is within 2e-4)
    # true circle clipped by the square [0.25,1.75] x [-0.75,0.75]: 2*int_{0.25}^{1} min(0.75, sqrt(1-x^2)) dx (midpoint rule, 2e5 nodes)
    N = 200000
    lens = sum(2 * min(0.75, math.sqrt(max(0.0, 1 - (0.25 + (i + 0.5) * 0.75 / N) ** 2))) for i in range(N)) * 0.75 / N
    ctx.check(abs(REF_AREA - lens) <= 5e-4, "unit-1 reference area of circle & square is wrong", {"pair": "circle(1) & square(1.5,(1,0))"}, lens, REF_AREA)
    for scale in ([0.05, 1.0, 20.0] if ctx.quick else [0.01, 0.05, 0.2, 1.0, 7.0, 20.0, 1000.0]):
        r, side, cx = 1.0 * scale, 1.5 * scale, 1.0 * scale
        C = Primitive.circle(radius=r)
        S = Primitive.square(side=side, center=(cx, 0))
        desc = {"pair": "circle(r) & square(1.5 r, center=(r,0))", "unit": scale}
        ctx.case("scale-sweep", ("sweep", scale))
        arc0 = [(F(r), F(0)), (F(r), F(r * math.tan(math.pi / 16))), (F(r * math.cos(math.pi / 8)), F(r * math.sin(math.pi / 8)))]
        reduced = len(core.dseg(drv.ask("cleanseg " + core.eseg(arc0)))) < 3
        sig = {"family": "scale-sweep", "arcs_degree_reduced": reduced, "unit_below_0.5": scale < 0.5}
        try:
            with impl.time_limit(120):
                R = C & S
            a = float(R) / (scale * scale)
            ctx.check(impl.kind(R) == "Simple" and abs(a - REF_AREA) <= 2e-5, "C & S at this unit differs from the unit-1 result", desc, REF_AREA, a, sig=sig)
        except impl.Timeout:
            ctx.fail("operator did not return", desc, sig=sig)
        except Exception as ex:
            ctx.fail("operator raised", desc, got=repr(ex), sig=sig)


def canon_close(a, b, tol):
    ta, tb = a.split(), b.split()
    if len(ta) != len(tb):
        return False
    for x, y in zip(ta, tb):
        if x == y:
            continue
        try:
            if abs(float(F(x)) - float(F(y))) > tol:
                return False
        except (ValueError, ZeroDivisionError):
            return False
    return True


# area of circle(1) & square(1.5, center=(1,0)) for the 16-arc quadratic circle, from the unit-1 run (cross-checked by sampling below)
REF_AREA = None


def _ref():
    import sys
    from shapepy import Primitive
    return float(Primitive.circle(radius=1.0) & Primitive.square(side=1.5, center=(1.0, 0)))
