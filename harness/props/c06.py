"""C06 — results are canonical, well-formed shapes; empty/whole are the singletons."""
import copy
from fractions import Fraction as F
from harness import core, gen, impl, shapes

RULE = ("every operator result on (a) read-once expressions over general-position polygons and (b) transversal pairs of validated shapes of every kind is checked by the Lean model: wfProblems = [] "
        "(closed chains, no zero-length piece, no self-crossing, one outer-or-unbounded boundary with holes inside, >= 2 pairwise disjoint components), kind against the tables of the docs, "
        "geometrically empty / whole results must be the singletons; singleton laws S|~S, S&~S, S-S, S^S, S^~S for every kind incl. circles; nested and disjoint pairs whose results are Empty/Whole; "
        "distinct = distinct (operands, operator); non-trivial = result is a defined shape")
ASSUMPTIONS = ["kind tables of the docs are 'may' tables: the result kind must be one of the documented ones"]

# documented result kinds of ~
INV_KIND = {"Simple": {"Simple"}, "Connected": {"Disjoint", "Simple"}, "Disjoint": {"Connected", "Disjoint", "Simple"}, "Empty": {"Whole"}, "Whole": {"Empty"}}


def check_result(ctx, R, desc, what_prefix=""):
    from shapepy import EmptyShape, WholeShape
    drv = ctx.drv
    k = impl.kind(R)
    ctx.count("result:" + k)
    if k in ("Empty", "Whole"):
        ctx.check(R is (EmptyShape() if k == "Empty" else WholeShape()), "singleton result is not THE singleton object", desc)
        return
    if not impl.is_polygonal(R):
        return
    tok = core.eshape(R)
    probs = drv.ask("wf " + tok)
    ctx.check(probs == "", what_prefix + "result is not well formed", desc, "", probs)
    ctx.check(drv.ask("rempty " + tok) == "F", what_prefix + "geometrically empty result is not the EmptyShape singleton", desc)
    ctx.check(drv.ask("rwhole " + tok) == "F", what_prefix + "whole-plane result is not the WholeShape singleton", desc)
    if k == "Connected":
        ctx.check(len(R.subshapes) >= 2 and all(impl.kind(s) == "Simple" for s in R.subshapes), "ConnectedShape structure", desc)
    if k == "Disjoint":
        ctx.check(len(R.subshapes) >= 2 and all(impl.kind(s) in ("Simple", "Connected") for s in R.subshapes), "DisjointShape structure", desc)


def run(ctx):
    from shapepy import EmptyShape, WholeShape, Primitive
    rng, drv = ctx.rng, ctx.drv
    E, W = EmptyShape(), WholeShape()
    from harness import degen
    degen.evaluate(ctx, "wellformed")      # deterministic non-transversal corpus (findings K2-*)
    # (a) expressions
    for it in range(12 if ctx.quick else 300):
        k = rng.choice([2, 2, 3, 3, 4])
        if it % 3 == 2:
            k = min(k, 3)
            vss, unit = impl.scaled_family(ctx, k)
        else:
            vss = impl.leaf_family(ctx, k)
        e = impl.rand_expr(rng, range(k))
        desc = {"leaves": vss, "expr": impl.show_expr(e)}
        ctx.sample(core.jsonable(desc), limit=2)
        try:
            with impl.time_limit(120):
                R = impl.eval_expr(e, [impl.poly(vs) for vs in vss])
        except impl.Timeout:
            ctx.fail("operator did not return", desc); continue
        except Exception as ex:
            ctx.fail("operator raised on transversal operands", desc, got=repr(ex)); continue
        ctx.case("expr-result", (repr(vss), impl.show_expr(e)), nontrivial=impl.kind(R) not in ("Empty", "Whole"))
        check_result(ctx, R, desc)
    # (b) pairs of kinds, every operator + complement kind table
    for it in range(8 if ctx.quick else 60):
        ka, kb = rng.choice(shapes.DEFINED), rng.choice(shapes.DEFINED)
        A, da = shapes.make(rng, ka, rng.randint(-4, 4), rng.randint(-4, 4), drv)
        B, db = shapes.make(rng, kb, rng.randint(-4, 4), rng.randint(-4, 4), drv)
        if drv.ask(f"transversal {shapes.enc_desc(da)} {shapes.enc_desc(db)}") != "T":
            ctx.count("skipped-nontransversal"); continue
        for op in ("or", "and", "sub", "xor"):
            desc = {"A": core.jsonable(da), "B": core.jsonable(db), "op": op}
            try:
                with impl.time_limit(120):
                    R = impl.OPS[op](A, B)
            except impl.Timeout:
                ctx.fail("operator did not return", desc); continue
            except Exception as ex:
                ctx.fail("operator raised on transversal operands", desc, got=repr(ex)); continue
            ctx.case("pair-result", (repr(da), repr(db), op), nontrivial=impl.kind(R) not in ("Empty", "Whole"))
            check_result(ctx, R, desc)
            for tokS, nameS in (("E", "Empty"), ("W", "Whole")):
                if drv.ask(f"regioncheck {op} {shapes.enc_desc(da)} {shapes.enc_desc(db)} {tokS}") == "ok":
                    ctx.check(impl.kind(R) == nameS, "geometrically empty/whole result is not the singleton", desc, nameS, impl.kind(R))
        N = ~A
        ctx.case("complement-kind", (repr(da), "inv"))
        ctx.check(impl.kind(N) in INV_KIND[impl.kind(A)], "kind of ~A is not in the documented table", {"A": core.jsonable(da)}, sorted(INV_KIND[impl.kind(A)]), impl.kind(N))
        check_result(ctx, N, {"A": core.jsonable(da), "op": "~"})
        ctx.check(drv.ask(f"compl {shapes.enc_desc(da)} {core.eshape(N)}") == "ok", "~A is not the complement region", {"A": core.jsonable(da)})
    # singleton laws for every kind (incl. curved)
    laws = [("S|~S", lambda S: S | ~S, W), ("S&~S", lambda S: S & ~S, E), ("S-S", lambda S: S - S, E), ("S^S", lambda S: S ^ S, E), ("S^~S", lambda S: S ^ ~S, W),
            ("~S|S", lambda S: ~S | S, W), ("S-copy(S)", lambda S: S - copy.deepcopy(S), E), ("S+~S", lambda S: S + ~S, W), ("S*~S", lambda S: S * ~S, E)]
    kinds = rng.sample(shapes.DEFINED, 2) if ctx.quick else shapes.DEFINED
    subjects = [(k, shapes.make(rng, k, rng.randint(-3, 3), rng.randint(-3, 3), drv)[0]) for k in kinds]
    if ctx.quick:
        laws = laws[:5]
    nd = 4 if ctx.quick else 16      # curved intersection is a Newton search per pair of arcs: keep the quick tier small
    subjects += [("circle", Primitive.circle(radius=2, center=(1, 1), ndivangle=nd)), ("circle-inv", ~Primitive.circle(radius=1, ndivangle=nd)), ("empty", E), ("whole", W),
                 ("square", Primitive.square(side=2)), ("regular5", Primitive.regular_polygon(5))]
    for kname, S in subjects:
        for lname, f, exp in laws:
            ctx.case("singleton-law", (kname, lname))
            try:
                with impl.time_limit(120):
                    R = f(S)
            except impl.Timeout:
                ctx.fail("singleton law did not return", {"kind": kname, "law": lname}); continue
            except Exception as ex:
                ctx.fail("singleton law raised", {"kind": kname, "law": lname}, got=repr(ex)); continue
            ctx.check(R is exp, "singleton law does not give the singleton", {"kind": kname, "law": lname}, type(exp).__name__, impl.kind(R))
    # singleton laws on objects with a history: S and H = ~S are used while far apart, then moved onto each other in place
    for it in range(6 if ctx.quick else 150):
        vs = shapes.rand_simple_vs(rng, 0, 0, R=5)
        S = shapes.simple(vs)
        H = shapes.simple([(x + 40, y) for x, y in vs][::-1])      # the complement of S, built 40 units to the right
        try:
            with impl.time_limit(120):
                (S & H, S | H, H in S, S in H, float(S), float(H), S.box(), H.box())      # use them while their boxes are apart
                H.move(-40, 0)                                                                  # now H is exactly ~S
                if it % 2 == 0:
                    S.scale(2, 2); H.scale(2, 2)
                res = [("S&H", S & H, E), ("S|H", S | H, W), ("S-S", S - S, E), ("S^H", S ^ H, W), ("H&S", H & S, E)]
        except impl.Timeout:
            ctx.fail("singleton law did not return (objects with a history)", {"vertices": vs}); continue
        except Exception as ex:
            ctx.fail("singleton law raised (objects with a history)", {"vertices": vs}, got=repr(ex)); continue
        for nm, R, exp in res:
            ctx.case("singleton-law-history", (tuple(vs), nm))
            ctx.check(R is exp, "singleton law does not give the singleton (objects with a history)", {"vertices": vs, "law": nm}, type(exp).__name__, impl.kind(R))
    # singleton laws on COMPOSITE objects with a history: used (operators, containment, boxes of the shape and of its sub-shapes) at one place, then moved /
    # scaled in place by more than their size, then combined with their own complement
    comp_kinds = [k for k in shapes.DEFINED if not k.startswith("simple")]
    for ci, kname in enumerate(comp_kinds if not ctx.quick else rng.sample(comp_kinds, min(3, len(comp_kinds)))):
        S, d = shapes.make(rng, kname, rng.randint(-2, 2), rng.randint(-2, 2), drv)
        far = Primitive.square(side=2, center=(200, 200))
        try:
            with impl.time_limit(240):
                (S | far, S & far, far in S, S in far, float(S), S.box())
                for sub in getattr(S, "subshapes", ()):
                    sub.box(); float(sub)
                S.move(61, -37)
                if ci % 2 == 0:
                    S.scale(3, 3)
                res = [("S|~S", S | ~S, W), ("S&~S", S & ~S, E), ("S-S", S - S, E), ("S^S", S ^ S, E), ("S^~S", S ^ ~S, W)]
        except impl.Timeout:
            ctx.fail("singleton law did not return (composite with a history)", {"kind": kname, "shape": core.jsonable(d)}); continue
        except Exception as ex:
            ctx.fail("singleton law raised (composite with a history)", {"kind": kname, "shape": core.jsonable(d)}, got=repr(ex)); continue
        for nm, R, exp in res:
            ctx.case("singleton-law-composite-history", (kname, repr(d), nm))
            ctx.check(R is exp, "singleton law does not give the singleton (composite used, then moved in place)", {"kind": kname, "shape": core.jsonable(d), "law": nm}, type(exp).__name__, impl.kind(R))
    # a ring used at one place, moved in place, then cut with a square that sits in its (new) hole: Empty, and the union has two components
    for it in range(2 if ctx.quick else 20):
        ring = Primitive.square(side=8) - Primitive.square(side=4)
        (ring | Primitive.square(side=1, center=(20, 0)), Primitive.square(side=1) in ring, ring.box(), [sub.box() for sub in ring.subshapes])
        dx, dy = rng.randint(30, 60), rng.randint(-60, -30)
        ring.move(dx, dy)
        inner = Primitive.square(side=2, center=(dx, dy))
        ctx.case("moved-ring", (dx, dy))
        I, U = ring & inner, ring | inner
        ctx.check(I is E, "a ring moved in place and a square inside its hole: the intersection is not the Empty singleton", {"move": (dx, dy)}, "Empty", impl.kind(I))
        ctx.check(impl.kind(U) == "Disjoint", "a ring moved in place and a square inside its hole: the union is not a two-component shape", {"move": (dx, dy)}, "Disjoint", impl.kind(U))
    # nesting four levels deep (a ring inside the hole of a ring inside the hole of …): results must be well formed
    def sq(h):
        return [(-h, -h), (h, -h), (h, h), (-h, h)]
    rings = [shapes.simple(sq(10)) - shapes.simple(sq(9)), shapes.simple(sq(7)) - shapes.simple(sq(6)), shapes.simple(sq(4)) - shapes.simple(sq(3)), shapes.simple(sq(1))]
    acc = rings[0]
    for r in rings[1:]:
        acc = acc | r
    ctx.case("deep-nesting", "4-rings")
    check_result(ctx, acc, {"case": "three nested rings and a core"})
    tokd = "D 4 2 " + core.epoly(sq(10)) + " " + core.epoly(sq(9)[::-1]) + " 2 " + core.epoly(sq(7)) + " " + core.epoly(sq(6)[::-1]) + " 2 " + core.epoly(sq(4)) + " " + core.epoly(sq(3)[::-1]) + " 1 " + core.epoly(sq(1))
    ctx.check(impl.kind(acc) == "Disjoint" and len(acc.subshapes) == 4 and drv.ask(f"regioneq {core.eshape(acc)} {tokd}") == "ok", "deeply nested rings: wrong grouping or region", {"case": "4 levels"}, None, impl.kind(acc))
    inv = ~acc
    check_result(ctx, inv, {"case": "complement of nested rings"})
    ctx.check(drv.ask(f"compl {tokd} {core.eshape(inv)}") == "ok", "complement of deeply nested rings", {"case": "4 levels"})
    # nested / apart pairs whose results are Empty or the operand
    for it in range(8 if ctx.quick else 60):
        big = shapes.simple(shapes.rand_simple_vs(rng, 0, 0, R=8))
        small = shapes.simple(shapes.ccw(gen.star_polygon(rng, 4, 1, 0, 0, den=8)))
        far = shapes.simple(shapes.rand_simple_vs(rng, 40, 0, R=5))
        ctx.case("degenerate-results", ("nested", it))
        ctx.check((small - big) is E and (small & far) is E and (big | ~small) is W and (~big & small) is E, "nested/apart pairs must give the singletons", {"iteration": it})
    # curved corpus: results well formed where polygonal checks do not apply -> closed chains and no zero-length piece
    from harness import curved
    for name in (["cs-1", "cs-5", "K3-wrong-1"] if ctx.quick else list(curved.PAIRS)):
        C, O = curved.build(name)
        for op in ("or", "and", "sub"):
            ctx.case("curved-result", (name, op))
            try:
                with impl.time_limit(120):
                    R = impl.OPS[op](C, O)
            except Exception as ex:
                ctx.fail("curved pair: operator raised", {"pair": name, "op": op}, got=repr(ex), sig=curved.sig(name)); continue
            bad = []
            for j in getattr(R, "jordans", ()):
                segs = j.segments
                for i, s in enumerate(segs):
                    nxt = segs[(i + 1) % len(segs)]
                    if s.ctrlpoints[-1] is not nxt.ctrlpoints[0]:
                        bad.append("open chain")
                    if abs(float(s.ctrlpoints[0][0] - s.ctrlpoints[-1][0])) < 1e-9 and abs(float(s.ctrlpoints[0][1] - s.ctrlpoints[-1][1])) < 1e-9:
                        bad.append("zero-length piece")
            ctx.check(not bad, "curved pair: result is not well formed", {"pair": name, "op": op}, [], bad[:3], sig=curved.sig(name))
