"""C08 — operators and queries leave operands unchanged; results share no state."""
import copy
from fractions import Fraction as F
from harness import core, gen, impl, shapes, history

RULE = ("(1) random histories (<=14 steps) over 2-4 closed polygons: constructions, move/scale/invert, copies, SimpleShape(j), "
        "float(), in-place split, executed on the real objects and on the Lean heap model, geometry of EVERY live object compared exactly after the history, "
        "Point2D identity sets of distinct objects must be disjoint; (2) every operator / query on pairs of shapes of all kinds: region-level snapshots "
        "(Lean canonShape) of the operands before and after, no shared Point2D with the result, mutate-one-compare-other; distinct = distinct history / (shapes, operation)")
ASSUMPTIONS = ["region-level snapshot = cleaned oriented vertex cycles (polygons); operators may refine operand curves in place (split), which does not change the region (C15)"]


def snap(ctx, s):
    return ctx.drv.ask("canon " + core.eshape(s))


def run(ctx):
    from shapepy import EmptyShape, WholeShape, IntegrateShape, ShapePloter
    rng, drv = ctx.rng, ctx.drv
    # ---------- (1) histories against the heap model
    n = 40 if ctx.quick else 1000
    for it in range(n):
        ops = history.rand_history(rng, rng.randint(4, 14), nvars=rng.randint(2, 4))
        objs, mops, outs = history.run_real(rng, ops)
        ans = drv.ask("heap " + str(len(mops)) + " " + " ".join(mops))
        if ans == "bad-op":
            raise RuntimeError("driver rejected history " + " | ".join(mops))
        mouts, mvars, sep, cache = history.parse_model(ans)
        desc = {"history": mops}
        ctx.sample(desc, limit=2)
        ctx.case("heap-history", tuple(mops))
        for o in ops:
            ctx.count("hop:" + o[0])
        ctx.check(sep, "model lost separation (should be impossible: proved)", desc)
        for v, j in objs.items():
            ctx.check(shapes.geom(j) == mvars.get(v), "geometry after history differs from the heap model", {**desc, "var": v}, mvars.get(v), shapes.geom(j))
            if mvars.get(v):
                # the object must also ANSWER like its geometry: orientation / signed length and one membership query
                exp_len = history.signed_length(mvars[v])
                ctx.check(abs(float(j) - exp_len) <= 1e-9 * abs(exp_len), "object does not answer like its geometry after the history (signed length)", {**desc, "var": v}, exp_len, float(j))
                from shapepy import SimpleShape
                far = (F(1000), F(777))
                ctx.check((far in SimpleShape(j)) == (exp_len < 0), "object does not answer like its geometry after the history (far point)", {**desc, "var": v})
        vs = list(objs)
        for a in vs:
            for b in vs:
                if a < b:
                    shared = shapes.point_ids(objs[a]) & shapes.point_ids(objs[b])
                    ctx.check(not shared, "two objects share Point2D cells", {**desc, "vars": (a, b)})
    # ---------- (1b) curved objects (interior control points are Point2D objects too)
    from shapepy import Primitive, JordanCurve, SimpleShape
    from harness.props.c04 import rounded
    def ctrl_snapshot(X):
        return [[tuple(p) for p in sg.ctrlpoints] for j in X.jordans for sg in j.segments]
    curved = [("circle", lambda: Primitive.circle(radius=2.0, center=(1.0, 1.0), ndivangle=8)),
              # float control points: containment tests project points with Newton's iteration, which explodes on Fractions
              ("rounded-quadratic", lambda: SimpleShape(JordanCurve.from_ctrlpoints([[(float(x), float(y)) for x, y in c] for c in rounded(shapes.rand_simple_vs(rng, 0, 0, R=5, n=5), cubic=False)]))),
              ("rounded-cubic", lambda: SimpleShape(JordanCurve.from_ctrlpoints([[(float(x), float(y)) for x, y in c] for c in rounded(shapes.rand_simple_vs(rng, 0, 0, R=5, n=4), cubic=True)]))),
              ("circle-inverted", lambda: ~Primitive.circle(radius=1, ndivangle=4)),
              ("polygon", lambda: shapes.simple(shapes.rand_simple_vs(rng, 0, 0, R=5, n=5)))]

    def answers(X):
        """what the object ANSWERS (derived / cached state included): boxes of the shape and of its curves, closed membership of its own vertices, a far point, area"""
        b = X.box()
        vs = [tuple(v) for j in X.jordans for v in j.vertices][:4]
        return (tuple(b.lowpt), tuple(b.toppt), [(tuple(j.box().lowpt), tuple(j.box().toppt)) for j in X.jordans],
                [X.contains_point(v, True) for v in vs], (1000.0, 777.0) in X, float(X))
    producers = [("copy", lambda S: copy.copy(S)), ("deepcopy", lambda S: copy.deepcopy(S)), ("invert", lambda S: ~S), ("neg", lambda S: -S),
                 ("SimpleShape(jordan)", lambda S: SimpleShape(S.jordans[0])), ("copy(jordan)", lambda S: SimpleShape(copy.copy(S.jordans[0]))),
                 ("or Empty", lambda S: S | EmptyShape()), ("and Whole", lambda S: S & WholeShape()), ("Empty or", lambda S: EmptyShape() | S),
                 ("or inner", lambda S: S | Primitive.square(side=0.1, center=(0.5, 0.5)) if float(S) > 0 else S & WholeShape())]
    for cname, mk in curved:
        for pname, prod in producers:
            S = mk()
            answers(S)                          # the source has been used before it is copied: its caches are warm
            snap0 = ctrl_snapshot(S)
            ctx.case("curved-copy", (cname, pname))
            try:
                R = prod(S)
            except Exception as ex:
                ctx.fail("producer raised on a curved shape", {"shape": cname, "producer": pname}, got=repr(ex)); continue
            ctx.check(ctrl_snapshot(S) == snap0, "producing a copy/result changed the curved operand", {"shape": cname, "producer": pname})
            ctx.check(not (shapes.point_ids(R) & shapes.point_ids(S)), "curved result shares Point2D objects with its source", {"shape": cname, "producer": pname})
            rsnap = ctrl_snapshot(R)
            aS = answers(S)
            R.move(3, 0.5); R.scale(2, 3)
            ctx.check(ctrl_snapshot(S) == snap0, "transforming the result changed the curved source", {"shape": cname, "producer": pname})
            ctx.check(answers(S) == aS, "transforming the result changed what the source ANSWERS (box / boundary membership / area)", {"shape": cname, "producer": pname}, aS, answers(S))
            R3 = prod(S)
            aR3 = answers(R3)
            S.move(-2.5, 1.25)
            ctx.check(answers(R3) == aR3, "moving the source changed what an earlier result ANSWERS (box / boundary membership / area)", {"shape": cname, "producer": pname}, aR3, answers(R3))
            S.move(2.5, -1.25)
            R2 = prod(S)
            r2 = ctrl_snapshot(R2)
            S.rotate(90, degrees=True); S.move(-1, 4)
            ctx.check(ctrl_snapshot(R2) == r2, "transforming the source changed an earlier curved result", {"shape": cname, "producer": pname})
    # ---------- (2) operators and queries on shapes of every kind
    m = 120 if ctx.quick else 800
    binops = ["or", "and", "sub", "xor", "add", "mul"]
    for it in range(m):
        ka, kb = rng.choice(shapes.KINDS), rng.choice(shapes.KINDS)
        A, da = shapes.make(rng, ka, rng.randint(-3, 3), rng.randint(-3, 3), drv)
        B, db = shapes.make(rng, kb, rng.randint(-3, 3), rng.randint(-3, 3), drv)
        grid_op = None
        if it < 48:
            # deterministic grid: every binary operator x relation (B inside A, A inside B, crossing, apart) x orientation of A
            grid_op = binops[it % 6]
            rel = ["B-in-A", "A-in-B", "cross", "apart"][(it // 6) % 4]
            inv_a = (it // 24) % 2 == 1
            big = shapes.rand_simple_vs(rng, 0, 0, R=8)
            small = shapes.ccw(gen.star_polygon(rng, rng.randint(3, 5), 1, 0, 0, den=8))
            if rel == "B-in-A":
                vsa, vsb = big, small
            elif rel == "A-in-B":
                vsa, vsb = small, big
            elif rel == "cross":
                vsa, vsb = big, shapes.rand_simple_vs(rng, 6, 1, R=8)
            else:
                vsa, vsb = big, shapes.rand_simple_vs(rng, 30, 2, R=5)
            if inv_a:
                vsa = vsa[::-1]
            ka = kb = "simple"
            A, da = shapes.simple(vsa), ("S", vsa)
            B, db = shapes.simple(vsb), ("S", vsb)
            ctx.count("grid:" + rel)
        trans = ctx.drv.ask(f"transversal {shapes.enc_desc(da)} {shapes.enc_desc(db)}") == "T"
        sa, sb = snap(ctx, A), snap(ctx, B)
        op = grid_op or rng.choice(binops + ["inv", "neg", "eq", "in", "point", "float", "moment", "copy", "deepcopy", "plot", "jordan-in", "box"])
        desc = {"A": core.jsonable(da), "B": core.jsonable(db), "op": op}
        ctx.count("kind:" + ka); ctx.count("qop:" + op)
        R = None
        try:
            with impl.time_limit(60):
                if op in binops:
                    if not trans:
                        ctx.count("skipped-nontransversal"); continue
                    R = impl.OPS[op](A, B)
                elif op == "inv":
                    R = ~A
                elif op == "neg":
                    R = -A
                elif op == "eq":
                    A == B
                elif op == "in":
                    B in A
                elif op == "point":
                    if ka not in ("empty", "whole"):
                        A.contains_point(gen.pt(rng), rng.random() < 0.5)
                    else:
                        gen.pt(rng) in A
                elif op == "float":
                    float(A)
                elif op == "moment":
                    if ka not in ("empty", "whole"):
                        IntegrateShape.polynomial(A, 1, 1)
                elif op == "copy":
                    R = copy.copy(A)
                elif op == "deepcopy":
                    R = copy.deepcopy(A)
                elif op == "plot":
                    import matplotlib.pyplot as plt
                    pl = ShapePloter(); pl.plot(A); plt.close("all")
                elif op == "jordan-in":
                    if kb not in ("empty", "whole") and ka not in ("empty", "whole"):
                        B.jordans[0] in A
                elif op == "box":
                    if ka not in ("empty", "whole"):
                        A.box()
        except impl.Timeout:
            ctx.fail("operation did not return", desc); continue
        except Exception as ex:
            if op in binops and trans:
                ctx.fail("operator raised on transversal operands", desc, got=repr(ex), sig={"family": "kinds"})
            ctx.count("raised:" + type(ex).__name__)
        ctx.case("operand-intact", (repr(da), repr(db), op))
        ctx.check(not (shapes.point_ids(A) & shapes.point_ids(B)) or A is B, "operation left its two operands sharing Point2D objects", desc)
        ctx.check(snap(ctx, A) == sa, "operation changed the region of its first operand", desc, sa, snap(ctx, A))
        ctx.check(snap(ctx, B) == sb, "operation changed the region of its second operand", desc, sb, snap(ctx, B))
        if R is None:
            continue
        if ka in ("empty", "whole") and op in ("copy", "deepcopy"):
            ctx.check(R is A, "Empty/Whole must copy to themselves", desc)
            continue
        if isinstance(R, (EmptyShape, WholeShape)):
            continue
        ids = shapes.point_ids(R)
        ctx.check(not (ids & shapes.point_ids(A)) and not (ids & shapes.point_ids(B)), "result shares Point2D objects with an operand", desc)
        ctx.check(R is not A and R is not B, "result is one of the operands", desc)
        # mutate result -> operands unchanged ; mutate operand -> result unchanged
        sr = snap(ctx, R)
        mut = rng.choice(["move", "scale", "rotate", "invert"])
        def mutate(X):
            if mut == "move":
                X.move((3, F(1, 2)))
            elif mut == "scale":
                X.scale(2, 3)
            elif mut == "rotate":
                X.rotate(90, degrees=True)
            elif hasattr(X, "invert"):
                X.invert()
            else:
                for j in X.jordans:
                    j.invert()
        mutate(R)
        ctx.check(snap(ctx, A) == sa and snap(ctx, B) == sb, "mutating the result changed an operand", {**desc, "mutation": mut})
        if op in ("copy", "deepcopy", "inv", "neg") or (op in binops and ka not in ("empty", "whole")):
            R2 = copy.deepcopy(A) if op in ("copy", "deepcopy") else (~A if op in ("inv", "neg") else None)
            if R2 is not None and not isinstance(R2, (EmptyShape, WholeShape)):
                s2 = snap(ctx, R2)
                Rk = copy.copy(A) if op == "copy" else (copy.deepcopy(A) if op == "deepcopy" else ~A)
                mutate(A)
                ctx.check(snap(ctx, Rk) == s2, "mutating the operand changed the earlier result", {**desc, "mutation": mut})
