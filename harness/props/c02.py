"""C02 — point membership is geometric truth, with the documented boundary rule."""
import math
from fractions import Fraction as F
from harness import core, gen, impl, shapes

RULE = ("shapes of every kind (validated by the model) x points: every arrangement cell centre (complete for polygons), every vertex, rational points on edges, +-1e-3 normal offsets of edge "
        "midpoints, far points; `p in S`, contains_point(p, True/False), `p in jordan`, Empty/Whole compared with the Lean decision rule (exact winding number + boundary table); "
        "float copies; circles and rounded quadratic/cubic curves at radial offsets inside/outside the curve incl. the band between curve and chord polygon, truth from a 2000-chord "
        "polygonisation with distance margin; distinct = distinct (shape, point); non-trivial = point inside the bounding box")
ASSUMPTIONS = ["curved truth: dense polygonisation (points closer than 1e-4 to the curve are not generated)",
               "identification of winding-number membership with the topological interior is the Jordan curve theorem (not formalised)"]


def dense_poly(J, per=400):
    pts = []
    for s in J.segments:
        for i in range(per):
            p = s(i / per)
            pts.append((float(p[0]), float(p[1])))
    return pts


def wn_float(poly, p):
    w = 0
    n = len(poly)
    px, py = p
    for i in range(n):
        x0, y0 = poly[i]; x1, y1 = poly[(i + 1) % n]
        cr = (x0 - px) * (y1 - py) - (x1 - px) * (y0 - py)
        if y0 <= py:
            if y1 > py and cr > 0:
                w += 1
        elif y1 <= py and cr < 0:
            w -= 1
    return w


def min_dist(poly, p):
    best = 1e300
    n = len(poly)
    for i in range(n):
        x0, y0 = poly[i]; x1, y1 = poly[(i + 1) % n]
        dx, dy = x1 - x0, y1 - y0
        L2 = dx * dx + dy * dy
        t = 0 if L2 == 0 else max(0, min(1, ((p[0] - x0) * dx + (p[1] - y0) * dy) / L2))
        d = math.hypot(p[0] - (x0 + t * dx), p[1] - (y0 + t * dy))
        best = min(best, d)
    return best


def run(ctx):
    from shapepy import EmptyShape, WholeShape, Primitive, JordanCurve, SimpleShape
    rng, drv = ctx.rng, ctx.drv
    n = 24 if ctx.quick else 300
    for it in range(n):
        kind = shapes.DEFINED[it % len(shapes.DEFINED)]
        S, d = shapes.make(rng, kind, rng.randint(-3, 3), rng.randint(-3, 3), drv)
        tok = shapes.enc_desc(d)
        S, hist = shapes.vary_history(rng, S, d)
        ctx.count("history:" + hist)
        usefloat = it % 5 == 4
        if usefloat:
            verts = shapes.desc_points(d)
            if all(F(float(c)) == c for p in verts for c in p):
                from harness.props.c04 import rebuild
                S = rebuild(shapes.map_desc(d, lambda p: (float(p[0]), float(p[1]))))
                ctx.count("float-shape")
        ctx.sample({"kind": kind, "shape": core.jsonable(d)}, limit=2)
        pts = core.dpts(drv.ask("samples 1 " + tok))
        cells = rng.sample(pts, min(30 if ctx.quick else 80, len(pts)))
        curves = [vs for vs in (d[1] if d[0] == "C" else ([d[1]] if d[0] == "S" else [v for c in d[1] for v in c]))]
        special = []
        for vs in curves:
            m = len(vs)
            for i in rng.sample(range(m), min(3, m)):
                a, b = vs[i], vs[(i + 1) % m]
                special.append(a)                                            # vertex
                t = gen.param(rng, dens=(2, 3, 4, 8))
                special.append((a[0] + t * (b[0] - a[0]), a[1] + t * (b[1] - a[1])))   # exactly on the edge
                mid = ((a[0] + b[0]) / 2, (a[1] + b[1]) / 2)
                L = math.sqrt(float((b[0] - a[0]) ** 2 + (b[1] - a[1]) ** 2))
                nx, ny = -(b[1] - a[1]) / F(L).limit_denominator(1000), (b[0] - a[0]) / F(L).limit_denominator(1000)
                for off in (F(1, 1000), F(1, 10000), F(1, 100000)):      # 1e-3 … 1e-5 from the edge: far outside the 1e-6 boundary band
                    special.append((mid[0] + off * nx, mid[1] + off * ny))
                    special.append((mid[0] - off * nx, mid[1] - off * ny))
        special.append((F(1000), F(777)))
        for p in cells + special:
            onb = drv.ask(f"onb {tok} {core.ept(p)}") == "T"
            ctx.case("polygon-point", (repr(d), p), nontrivial=True)
            ctx.count("on-boundary" if onb else "off-boundary")
            q = (float(p[0]), float(p[1])) if usefloat and not onb else p
            for flag in (True, False):
                exp = drv.ask(f"mem {tok} {core.ept(p)} {'T' if flag else 'F'}") == "T"
                got = S.contains_point(q, flag)
                ctx.check(got == exp, "contains_point disagrees with the decision rule", {"shape": d, "point": p, "boundary": flag}, exp, got)
            exp_in = drv.ask(f"mem {tok} {core.ept(p)} T") == "T"
            ctx.check((q in S) == exp_in, "`p in S` disagrees with the decision rule", {"shape": d, "point": p}, exp_in, q in S)
            onj = any(q in j for j in S.jordans)
            ctx.check(onj == onb, "`p in jordan` (boundary test) disagrees", {"shape": d, "point": p}, onb, onj)
            ctx.check((q not in EmptyShape()) and (q in WholeShape()), "Empty/Whole membership", {"point": p})
    normal_offset_family(ctx)
    # ---- curved shapes
    m = 10 if ctx.quick else 200
    for it in range(m):
        choice = it % 3
        if choice == 0:
            nd = rng.choice([4, 5, 8, 16, 32])
            r = rng.choice([1, 2.5, 0.5])
            c = (rng.uniform(-2, 2), rng.uniform(-2, 2))
            S = Primitive.circle(radius=r, center=c, ndivangle=nd)
            name = f"circle(r={r}, ndiv={nd})"
            scale = r
        else:
            from harness.props.c04 import rounded
            vs = shapes.rand_simple_vs(rng, rng.randint(-2, 2), rng.randint(-2, 2), R=5, n=rng.randint(3, 6))
            segs = rounded(vs, cubic=(choice == 2))
            S = SimpleShape(JordanCurve.from_ctrlpoints(segs))
            name = f"rounded(deg={choice + 1}) {vs}"
            c = (float(sum(v[0] for v in vs)) / len(vs), float(sum(v[1] for v in vs)) / len(vs))
            scale = 5.0
        if it % 4 == 3:
            S.invert()
            name += " inverted"
        J = S.jordans[0]
        micro_offset_points(ctx, S, name, 6 if ctx.quick else 20)
        poly = dense_poly(J, 500 if ctx.quick else 2000)
        ccw = float(J) > 0
        k = 0
        tries = 0
        while k < (30 if ctx.quick else 60) and tries < 1000:
            tries += 1
            # points near the boundary: pick a boundary point and move along the outward/inward normal by a small or larger offset
            i = rng.randrange(len(poly))
            x0, y0 = poly[i]; x1, y1 = poly[(i + 1) % len(poly)]
            nx, ny = (y1 - y0), -(x1 - x0)
            L = math.hypot(nx, ny) or 1.0
            off = rng.choice([1e-3, 3e-3, 1e-2, 0.1, -1e-3, -3e-3, -1e-2, -0.1, 0.5]) * scale
            p = (x0 + off * nx / L, y0 + off * ny / L)
            if min_dist(poly, p) < 2e-4 * scale:
                continue
            k += 1
            w = wn_float(poly, p)
            truth = (w != 0) if ccw else (w == 0)
            ctx.case("curved-point", (name, round(p[0], 9), round(p[1], 9)))
            ctx.count("curved-near" if abs(off) <= 1e-2 * scale else "curved-far")
            for flag in (True, False):
                got = S.contains_point(p, flag)
                ctx.check(got == truth, "curved shape: membership is not geometric truth", {"shape": name, "point": p, "boundary": flag, "offset": off}, truth, got)
            # the exact model of the code's own subdivision (Model/WindCurved.lean); `cert` = the point is PROVED to be on no point of the boundary (C02b)
            mm, cert = drv.ask(f"memc {core.eshape(S)} {core.ept(p)}").split()
            ctx.count("curved-certified" if cert == "T" else "curved-uncertified")
            if cert == "T":
                ctx.check((mm == "T") == truth, "harness self-check: exact curved model and dense polygonisation disagree", {"shape": name, "point": p}, truth, mm)
                for flag in (True, False):
                    ctx.check(S.contains_point(p, flag) == (mm == "T"), "curved shape: membership differs from the exact model of the subdivided winding number at a point certified off the boundary",
                              {"shape": name, "point": p, "boundary": flag}, mm == "T", S.contains_point(p, flag))


def micro_offset_points(ctx, S, name, k):
    """points a few microns (6e-6 … 2e-5, absolute) off a curved boundary, on both sides: outside the 1e-6 on-curve tolerance but between a short piece
    of the curve and its chord for any reasonable flatness threshold.  Truth = the exact model of the subdivided winding number at points that carry
    the off-boundary certificate (C02b)."""
    rng, drv = ctx.rng, ctx.drv
    J = S.jordans[0]
    segs = [sg for sg in J.segments if sg.degree > 1]
    done = 0
    for _ in range(8 * k):
        if done >= k or not segs:
            break
        sg = rng.choice(segs)
        t = rng.uniform(0.05, 0.95)
        p0 = sg(t); d = sg.derivate()(t)
        L = math.hypot(float(d[0]), float(d[1]))
        if L == 0:
            continue
        off = rng.choice([6e-6, 9e-6, 1.3e-5, 2e-5]) * rng.choice([1, -1])
        p = (float(p0[0]) + off * float(d[1]) / L, float(p0[1]) - off * float(d[0]) / L)
        mm, cert = drv.ask(f"memc {core.eshape(S)} {core.ept(p)}").split()
        if cert != "T":
            ctx.count("micro-offset-uncertified"); continue
        done += 1
        ctx.case("curved-micro-offset", (name, round(t, 9), off))
        for flag in (True, False):
            got = S.contains_point(p, flag)
            ctx.check(got == (mm == "T"), "curved shape: a point a few microns off the boundary is on the wrong side (exact model of the subdivided winding number)",
                      {"shape": name, "t": t, "offset": off, "point": p, "boundary": flag}, mm == "T", got)


def normal_offset_family(ctx):
    """points at a small signed distance s along the LEFT normal of a smooth boundary piece: the region of an oriented closed
    curve is on the left of the direction of travel, so p = C(t) + s*n_left is inside iff s > 0 (for |s| far below the local
    feature size).  Exercises large drawings, where the gap between a curved piece and its chords is large in absolute terms."""
    import math
    from shapepy import Primitive, JordanCurve, SimpleShape
    from harness.props.c04 import rounded
    rng = ctx.rng
    subjects = []
    for r, nd in ((1.0, 16), (1000.0, 4), (3000.0, 4), (3000.0, 16), (0.5, 8)):
        subjects.append((f"circle(r={r}, ndiv={nd})", Primitive.circle(radius=r, center=(r / 7, -r / 3), ndivangle=nd), r))
    for scale in (1.0, 700.0):
        vs = [(x * scale, y * scale) for x, y in shapes.rand_simple_vs(rng, 0, 0, R=6, n=5)]
        for cubic in (False, True):
            segs = [[(float(x), float(y)) for x, y in c] for c in rounded(vs, cubic)]
            subjects.append((f"rounded(deg={3 if cubic else 2}, scale={scale})", SimpleShape(JordanCurve.from_ctrlpoints(segs)), 6 * scale))
    subjects += [(n + " inverted", ~S, sc) for n, S, sc in subjects[:3]]
    for name, S, scale in subjects:
        J = S.jordans[0]
        for _ in range(10 if ctx.quick else 60):
            sg = rng.choice(J.segments)
            if sg.degree == 1:
                continue
            t = rng.uniform(0.05, 0.95)
            c = sg(t)
            d = sg.derivate()(t)
            L = math.hypot(float(d[0]), float(d[1]))
            nl = (-float(d[1]) / L, float(d[0]) / L)
            for s_abs in (2e-4, 5e-4, 1e-3, 1e-2, 1e-3 * scale):
                for sgn in (1, -1):
                    sd = sgn * s_abs
                    p = (float(c[0]) + sd * nl[0], float(c[1]) + sd * nl[1])
                    truth = sd > 0
                    ctx.case("curved-normal-offset", (name, round(t, 6), sd))
                    got = S.contains_point(p, True)
                    got_open = S.contains_point(p, False)
                    ctx.check(got == truth and got_open == truth, "curved shape: point at a small normal offset is on the wrong side", {"shape": name, "t": t, "offset": sd, "point": p}, truth, (got, got_open))
