"""C14 — curve intersection reports exactly the crossings, with the documented encoding."""
from fractions import Fraction as F
from harness import core, gen, impl, shapes

RULE = ("random pairs of closed rational polygons (general position or not: shared vertices and collinear overlaps included), all four flag combinations and A & B: "
        "the returned tuples are compared for exact equality with the Lean model of intersection (mirrored, incl. (None, None) entries), encoding bounds, "
        "A.segments[a](u) == B.segments[b](v) exactly, sortedness, operand swap symmetry, even count on transversal pairs; curved corpus (circle/square/circle pairs) to 1e-6; "
        "distinct = distinct (pair, flags); non-trivial = at least one crossing")
ASSUMPTIONS = ["curved pairs: Newton search is numerical; only the reported tuples are validated, completeness is checked by parity on a fixed corpus"]


def enc_tuples(ts):
    return sorted((a, b, None if u is None else F(u), None if v is None else F(v)) for a, b, u, v in ts)


def model_tuples(drv, va, vb, eq, ep):
    t = core.Toks(drv.ask(f"jinter {core.epoly(va)} {core.epoly(vb)} {'T' if eq else 'F'} {'T' if ep else 'F'}"))
    out = []
    for _ in range(t.nat()):
        a, b = t.nat(), t.nat()
        u, v = t.tok(), t.tok()
        out.append((a, b, None if u == "N" else F(u), None if v == "N" else F(v)))
    return sorted(out, key=lambda x: (x[0], x[1], x[2] is not None, x[2] or 0, x[3] or 0))


def run(ctx):
    from harness import fidelity
    fidelity.check(ctx, ['lines', 'cross'])
    from shapepy import JordanCurve, Primitive
    rng, drv = ctx.rng, ctx.drv
    n = 60 if ctx.quick else 2000
    for it in range(n):
        mode = it % 4
        if mode == 0:
            if it % 8 == 0:
                (va, vb), unit = impl.scaled_family(ctx, 2, pinv=0.3, crossing=True)
            else:
                va, vb = impl.leaf_family(ctx, 2, pinv=0.3)
        elif mode == 1:   # arbitrary position on a coarse grid: shared vertices, parallel and collinear edges happen
            va = shapes.ccw(gen.star_polygon(rng, rng.randint(3, 6), 4, 0, 0, den=1))
            vb = shapes.ccw(gen.star_polygon(rng, rng.randint(3, 6), 4, rng.randint(-2, 2), rng.randint(-2, 2), den=1))
        elif mode == 2:   # identical and shifted copies: equal segments
            va = shapes.rand_simple_vs(rng, 0, 0, R=5)
            vb = list(va) if rng.random() < 0.5 else va[1:] + va[:1]
        else:             # far apart
            va = shapes.rand_simple_vs(rng, 0, 0, R=4)
            vb = shapes.rand_simple_vs(rng, 40, 3, R=4)
        if it % 10 == 9:
            # large integer coordinates: the exact crossing parameters have denominators beyond 10^9
            for _ in range(50):
                va = shapes.ccw(gen.star_polygon(rng, rng.randint(3, 5), 40000, 0, 0, den=1))
                vb = shapes.ccw(gen.star_polygon(rng, rng.randint(3, 5), 40000, rng.randint(-20000, 20000), rng.randint(-20000, 20000), den=1))
                if drv.ask("genpos " + core.elist([va, vb], core.epoly)) == "T":
                    break
            mode = 0
            ctx.count("large-integer-pair")
        if len(set(va)) != len(va) or len(set(vb)) != len(vb):
            continue
        A, B = JordanCurve.from_vertices(va), JordanCurve.from_vertices(vb)
        desc = {"A": va, "B": vb}
        ctx.sample(core.jsonable(desc), limit=2)
        trans = mode == 0
        for eq in (True, False):
            for ep in (True, False):
                got = A.intersection(B, equal_beziers=eq, end_points=ep)
                exp = model_tuples(drv, va, vb, eq, ep)
                ctx.case("intersection", (tuple(va), tuple(vb), eq, ep), nontrivial=len(exp) > 0)
                ctx.count(f"mode{mode}")
                g = sorted(got, key=lambda x: (x[0], x[1], x[2] is not None, x[2] or 0, x[3] or 0))
                ctx.check([tuple(x) for x in g] == exp, "intersection differs from the model", {**desc, "equal_beziers": eq, "end_points": ep}, exp, g)
                ctx.check(list(got) == sorted(got, key=lambda x: (x[0], x[1], -1 if x[2] is None else x[2], -1 if x[3] is None else x[3])), "result is not sorted", {**desc, "equal_beziers": eq, "end_points": ep})
                for (a, b, u, v) in got:
                    ok = 0 <= a < len(A.segments) and 0 <= b < len(B.segments)
                    if u is not None:
                        ok = ok and 0 <= u <= 1 and 0 <= v <= 1 and tuple(A.segments[a](u)) == tuple(B.segments[b](v))
                    else:
                        ok = ok and v is None and A.segments[a] == B.segments[b]
                    ctx.check(ok, "tuple violates the documented encoding", {**desc, "tuple": (a, b, u, v)})
        amp = A & B
        ctx.check(tuple(amp) == tuple(A.intersection(B, equal_beziers=False, end_points=False)), "A & B is not intersection(False, False)", desc)
        swapped = B.intersection(A)
        ctx.check(sorted((b, a, v, u) for a, b, u, v in A.intersection(B) if u is not None) == sorted(t for t in swapped if t[2] is not None), "operand swap does not swap (a,u) and (b,v)", desc)
        if trans:       # (before B is moved in place below: the moved pair is no longer in general position)
            k = len(A.intersection(B))
            ctx.check(k % 2 == 0, "odd number of crossings of two closed curves in general position", desc, "even", k)
            ctx.count("crossings:%d" % min(k, 8))
        if it % 3 == 0:
            # the same curve objects after an in-place move / scale of one of them
            dx, dy = F(rng.randint(-3, 3)), F(rng.randint(-3, 3), 2)
            kk = F(rng.choice([1, 2, 3]), rng.choice([1, 2]))
            B.move(dx, dy); B.scale(kk, kk)
            vb2 = [((x + dx) * kk, (y + dy) * kk) for x, y in vb]
            got2 = sorted(B.intersection(A), key=lambda x: (x[0], x[1], x[2] is not None, x[2] or 0, x[3] or 0))
            exp2 = model_tuples(drv, vb2, va, True, True)
            ctx.case("intersection-after-transform", (tuple(va), tuple(vb), dx, dy, kk), nontrivial=len(exp2) > 0)
            ctx.check([tuple(x) for x in got2] == exp2, "intersection after an in-place move/scale differs from the model", {**desc, "move": (dx, dy), "scale": kk}, exp2, got2)
    # ---- curved corpus (deterministic)
    import math
    corpus = [("circle-square", Primitive.circle(radius=1), Primitive.square(side=F(3, 2)), 8),
              ("circle-circle", Primitive.circle(radius=1), Primitive.circle(radius=1, center=(1, F(1, 5))), 2),
              ("circle-triangle", Primitive.circle(radius=2, center=(F(1, 3), F(1, 7))), Primitive.polygon([(-4, -1), (4, F(-1, 2)), (F(1, 5), 5)]), 2),
              ("circle-smallsquare", Primitive.circle(radius=3), Primitive.square(side=1, center=(3, F(1, 9))), 2),
              ("circle-circle-close", Primitive.circle(radius=1.0), Primitive.circle(radius=1.0, center=(0.3, 0.0)), 2)]
    # a long flat parabola dipping just below a rectangle edge: two crossings that are close in parameter space (du = 5e-4)
    from shapepy import JordanCurve, SimpleShape
    for w, dip in ((4000.0, 1e-3), (400.0, 1e-2)):
        # y(t) = H (1 - 4 (1 + dip/H) (t - t^2)) - minimum -dip at t = 1/2, zeros at t = 1/2 +- sqrt(dip/H)/2 (du = sqrt(dip/H))
        H = w
        para = JordanCurve.from_ctrlpoints([[(-w / 2, H), (0.0, -H - 2 * dip), (w / 2, H)], [(w / 2, H), (w / 2, 2 * H)], [(w / 2, 2 * H), (-w / 2, 2 * H)], [(-w / 2, 2 * H), (-w / 2, H)]])
        rect = JordanCurve.from_vertices([(-w, -30.0), (w, -30.0), (w, 0.0), (-w, 0.0)])
        corpus.append((f"flat-parabola-w{w}-dip{dip}", SimpleShape(para), SimpleShape(rect), 2))
    for name, SA, SB, expected in corpus:
        A, B = SA.jordans[0], SB.jordans[0]
        full = A.intersection(B)
        ctx.case("curved-intersection", name)
        spurious = [t for t in full if t[2] is None and not (A.segments[t[0]] == B.segments[t[1]])]
        ctx.check(not spurious, "(None, None) reported for segments that are not identical", {"pair": name}, [], spurious[:4])
        got = A.intersection(B, equal_beziers=False, end_points=True)
        bad = []
        for (a, b, u, v) in got:
            pa, pb = A.segments[a](u), B.segments[b](v)
            if not (0 <= u <= 1 and 0 <= v <= 1 and abs(float(pa[0] - pb[0])) <= 1e-6 and abs(float(pa[1] - pb[1])) <= 1e-6):
                bad.append((a, b, float(u), float(v)))
        ctx.check(not bad, "curved crossing tuple is not a common point", {"pair": name}, None, bad[:3], sig={"family": "curved", "pair": name})
        pts = {(round(float(A.segments[a](u)[0]), 5), round(float(A.segments[a](u)[1]), 5)) for a, b, u, v in got}
        # independent count: inside/outside transitions of the curved shape along the other boundary (dense sampling)
        trans = 0
        prev = None
        for sg in B.segments:
            for i in range(400):
                q = sg(i / 400.0)
                cur = SA.contains_point((float(q[0]), float(q[1])), False)
                if prev is not None and cur != prev:
                    trans += 1
                prev = cur
        if not name.startswith("flat-parabola"):      # (the dense sampling is too coarse for the 4-unit gap of the flat parabola: analytic count)
            ctx.check(trans == expected, "corpus expectation is wrong (harness self-check)", {"pair": name}, expected, trans)
        ctx.check(len(pts) == expected, "curved pair: number of distinct crossings", {"pair": name}, expected, len(pts), sig={"family": "curved", "pair": name})
        # the same curve OBJECTS after in-place similarity maps applied to both (caches of the first query are warm): the crossings move with the drawing
        if name in ("circle-square", "circle-triangle", "circle-smallsquare"):
            for tname, tf in (("rotate90", lambda J: J.rotate(90, degrees=True)), ("reflect", lambda J: J.scale(1, -1)), ("scale3", lambda J: J.scale(3, 3)), ("rotate-37", lambda J: J.rotate(-37, degrees=True))):
                float(A); float(B)
                tf(A); tf(B)
                got2 = A.intersection(B, equal_beziers=False, end_points=True)
                bad2 = []
                for (a, b, u, v) in got2:
                    pa, pb = A.segments[a](u), B.segments[b](v)
                    if not (0 <= u <= 1 and 0 <= v <= 1 and abs(float(pa[0] - pb[0])) <= 1e-6 and abs(float(pa[1] - pb[1])) <= 1e-6):
                        bad2.append((a, b, float(u), float(v)))
                pts2 = {(round(float(A.segments[a](u)[0]), 4), round(float(A.segments[a](u)[1]), 4)) for a, b, u, v in got2}
                ctx.case("curved-intersection-history", (name, tname))
                ctx.check(not bad2, "curved crossing tuple is not a common point after an in-place map of both curves", {"pair": name, "map": tname}, None, bad2[:3])
                ctx.check(len(pts2) == expected, "curved pair: number of distinct crossings changed after an in-place similarity map of both curves", {"pair": name, "map": tname}, expected, len(pts2))
