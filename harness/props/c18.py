"""C18 — segment calculus: evaluation, derivative, split, box, point-on-curve, winding contribution."""
import math
from fractions import Fraction as F
from harness import core, gen

RULE = ("random rational control polygons of degree 1..6 (denominators 1,2,4), parameters with denominators 2..8; "
        "a case is one (segment, operation, argument) triple; distinct = distinct (control polygon, op, args); "
        "non-trivial = degree >= 1 and not all control points equal")
ASSUMPTIONS = ["pynurbs split/derivative matrices are modelled (de Casteljau / n·Δ) and compared on every run",
               "Newton projection (point in segment) and arctan2 winding are numerical: checked on the generated corpus only"]


def run(ctx):
    from harness import fidelity
    fidelity.check(ctx, ['comb', 'horner', 'caract'])
    from shapepy import PlanarCurve
    from shapepy.curve import Math, IntegratePlanar
    from shapepy.polygon import Point2D
    rng, drv = ctx.rng, ctx.drv
    n = (60 if ctx.quick else 1500) if not __import__("os").environ.get("N") else int(__import__("os").environ["N"])
    # tables
    for d in range(0, 7):
        got = Math.bezier_caract_matrix(d)
        again = Math.bezier_caract_matrix(d)   # warm memo
        exp = drv.ask(f"caract {d}")
        enc = core.elist(got, lambda row: core.elist(row, lambda v: str(int(v))))
        ctx.case("caract-matrix", ("caract", d))
        ctx.check(enc == exp and got == again, "caract-matrix", {"degree": d}, exp, enc)
        for i in range(d + 1):
            ctx.case("comb", ("comb", d, i), nontrivial=False)
            ctx.check(str(Math.comb(d, i)) == drv.ask(f"comb {d} {i}") == str(math.comb(d, i)), "comb", {"n": d, "i": i})
    for it in range(n):
        deg = rng.randint(1, 6)
        kind = rng.choice(["frac", "frac", "int", "mixed"])
        cp = gen.ctrl(rng, deg, dens=(1,) if kind == "int" else (1, 1, 2, 4))
        cpi = [tuple(gen.as_kind(rng, c, "int" if kind in ("int", "mixed") else "frac") for c in p) for p in cp]
        seg = PlanarCurve(cpi)
        es = core.eseg(cp)
        desc = {"ctrl": cp, "degree": deg}
        ctx.sample({"op": "eval/deriv/split/box", **core.jsonable(desc)})
        # ---- evaluation
        ts = [gen.param(rng) for _ in range(3)] + [F(0), F(1), F(rng.randint(-8, 16), 8)]
        for t in ts:
            got = seg(t)
            exp = core.Toks(drv.ask(f"eval {es} {core.er(t)}")).pt()
            bern = core.Toks(drv.ask(f"bern {es} {core.er(t)}")).pt()
            ctx.case("eval", ("eval", tuple(cp), t))
            ok = core.isfrac(got[0]) and core.isfrac(got[1]) and (got[0], got[1]) == exp == bern
            ctx.check(ok, "segment(t) != Bernstein sum", {**desc, "t": t}, exp, tuple(got))
        # several parameters at once + float parameter
        tf = rng.random()
        gotf = seg(tf)
        expf = core.Toks(drv.ask(f"eval {es} {core.er(tf)}")).pt()
        ctx.case("eval-float", ("evalf", tuple(cp), tf))
        ctx.check(abs(gotf[0] - float(expf[0])) < 1e-9 and abs(gotf[1] - float(expf[1])) < 1e-9, "segment(float t)", {**desc, "t": tf}, expf, tuple(gotf))
        # ---- derivatives
        for k in range(1, deg + 2):
            t = gen.param(rng)
            got = seg.derivate(k)(t)
            exp = core.Toks(drv.ask(f"deriv {k} {es} {core.er(t)}")).pt()
            ctx.case("derivative", ("deriv", tuple(cp), k, t))
            ctx.check((got[0], got[1]) == exp, "derivate(k)(t)", {**desc, "k": k, "t": t}, exp, tuple(got))
        # ---- split
        nn = rng.randint(1, 3 if deg <= 3 else 1)
        nodes = sorted({gen.param(rng, dens=(2, 3, 4, 5) if deg > 3 else (2, 3, 4, 5, 8)) for _ in range(nn)})
        pieces = seg.split(tuple(nodes))
        exp = core.dsegs(drv.ask(f"split {es} {core.elist(nodes, core.er)}"))
        got = [[tuple(p) for p in pc.ctrlpoints] for pc in pieces]
        ctx.case("split", ("split", tuple(cp), tuple(nodes)))
        exact = gen.maxden(exp) * 1000 < 10 ** 9
        ctx.count("split-exact" if exact else "split-rounded")
        if exact:
            ctx.check(got == exp, "split control points", {**desc, "nodes": nodes}, exp, got)
        else:
            ok = len(got) == len(exp) and all(abs(float(a) - float(b)) < 1e-8 for g, e in zip(got, exp) for p, q in zip(g, e) for a, b in zip(p, q))
            ctx.check(ok, "split control points (rounded)", {**desc, "nodes": nodes}, exp, got)
        # property form: piece_j(s) = segment(t_j + s (t_{j+1} - t_j)) on the implementation itself
        knots = [F(0)] + nodes + [F(1)]
        for j, pc in enumerate(pieces):
            s = gen.param(rng, dens=(2, 3, 4))
            a = pc(s)
            b = seg(knots[j] + s * (knots[j + 1] - knots[j]))
            if exact:
                ctx.check((a[0], a[1]) == (b[0], b[1]), "piece_j(s) != segment(t_j+s*dt)", {**desc, "nodes": nodes, "j": j, "s": s}, tuple(b), tuple(a))
            else:
                ctx.check(abs(a[0] - b[0]) < 1e-8 and abs(a[1] - b[1]) < 1e-8, "piece_j(s) !~ segment(t_j+s*dt)", {**desc, "nodes": nodes, "j": j, "s": s}, tuple(b), tuple(a))
        # ---- box
        box = seg.box()
        exp = core.Toks(drv.ask(f"box {es}"))
        elo, ehi = exp.pt(), exp.pt()
        ctx.case("box", ("box", tuple(cp)))
        ctx.check((tuple(box.lowpt), tuple(box.toppt)) == (elo, ehi), "box()", desc, (elo, ehi), (tuple(box.lowpt), tuple(box.toppt)))
        for t in [F(i, 12) for i in range(13)]:
            p = seg(t)
            ctx.check(p in box, "box() does not contain segment(t)", {**desc, "t": t})
        # ---- membership: far points are never in the segment; straight segment points are in it
        far = (box.toppt[0] + 1, box.toppt[1] + F(1, 3))
        ctx.case("contains", ("contains", tuple(cp)))
        ctx.check(far not in seg, "far point in segment", {**desc, "point": far})
        if deg == 1 and cp[0] != cp[1]:
            t = gen.param(rng, dens=(2, 4))
            ctx.check(seg(t) in seg, "segment(t) not in straight segment", {**desc, "t": t})
            d = (cp[1][0] - cp[0][0], cp[1][1] - cp[0][1])
            mid = seg(F(1, 2))
            nrm = math.sqrt(float(d[0] ** 2 + d[1] ** 2))
            for off, inside in ((2e-6, False), (2e-7, True)):
                q = (float(mid[0]) - off * float(d[1]) / nrm, float(mid[1]) + off * float(d[0]) / nrm)
                ctx.check((q in seg) == inside, "tolerance band of point-on-segment", {**desc, "point": q, "offset": off}, inside, q in seg)
        # ---- winding contribution = subtended angle (numerical reference by fine chords)
        c = (float(box.lowpt[0]) - 1.3, float(box.lowpt[1]) - 0.7) if it % 2 else (float(box.toppt[0]) + 0.9, float(box.toppt[1]) + 1.1)
        N = 256
        ref = 0.0
        prev = seg(F(0))
        for i in range(1, N + 1):
            cur = seg(F(i, N))
            a0 = math.atan2(float(prev[1]) - c[1], float(prev[0]) - c[0])
            a1 = math.atan2(float(cur[1]) - c[1], float(cur[0]) - c[0])
            dd = (a1 - a0) / math.tau
            dd = dd - round(dd)
            ref += dd
            prev = cur
        got = IntegratePlanar.winding_number(seg, center=c)
        ctx.case("winding-contribution", ("wind", tuple(cp), c))
        ctx.check(abs(got - ref) < 1e-9, "winding contribution != subtended angle", {**desc, "center": c}, ref, got)
    # segments of a curve that is scaled / rotated / moved in place after its derivative and projection were used
    from shapepy import JordanCurve
    from harness.props.c04 import rounded
    from harness import shapes
    for it in range(6 if ctx.quick else 150):
        vs = shapes.rand_simple_vs(rng, 0, 0, R=5, n=rng.randint(3, 5))
        segs = [[(float(x), float(y)) for x, y in c] for c in rounded(vs, cubic=(it % 2 == 1))]
        J = JordanCurve.from_ctrlpoints(segs)
        sg = J.segments[rng.randrange(len(J.segments))]
        t = rng.choice([0.25, 0.5, 0.625])
        sg.derivate()(t); sg.derivate(2)(t); (sg(t) in sg); (sg(0.3) in J)        # warm whatever can be cached
        sx, sy = rng.choice([(3.0, 0.5), (0.25, 2.0), (-2.0, -2.0)])
        J.scale(sx, sy)
        if it % 2 == 0:
            J.rotate(90, degrees=True)
        J.move(1.5, -2.25)
        cp = [tuple(map(float, p)) for p in sg.ctrlpoints]
        es = core.eseg(cp)
        ctx.case("owned-segment-after-transform", (repr(segs), sx, sy, t))
        for kk in (1, 2):
            got = sg.derivate(kk)(t)
            exp = core.Toks(drv.ask(f"deriv {kk} {es} {core.er(t)}")).pt()
            ctx.check(abs(float(got[0]) - float(exp[0])) < 1e-9 and abs(float(got[1]) - float(exp[1])) < 1e-9, "derivate(k) of a segment of a transformed curve is stale", {"ctrl": cp, "k": kk, "t": t}, exp, tuple(got))
        got = sg(t)
        exp = core.Toks(drv.ask(f"eval {es} {core.er(t)}")).pt()
        ctx.check(abs(float(got[0]) - float(exp[0])) < 1e-9 and abs(float(got[1]) - float(exp[1])) < 1e-9, "segment(t) of a transformed curve is stale", {"ctrl": cp, "t": t}, exp, tuple(got))
        ctx.check(sg(t) in sg and sg(0.3) in J, "segment(t) not in the segment of a transformed curve", {"ctrl": cp, "t": t})
        b = sg.box()
        ctx.check(all(p in b for p in [sg(u / 8) for u in range(9)]), "box() of a segment of a transformed curve does not contain it", {"ctrl": cp})
    # regular curved segments: segment(t) in segment (numerical projection)
    for it in range(20 if ctx.quick else 300):
        deg = rng.randint(2, 3)
        xs = sorted(rng.sample(range(-16, 17), deg + 1))
        # x-monotone control polygon => no cusp, loop or self-crossing; floats keep Newton's iteration cheap
        cp = [(x / 2.0, rng.randint(-6, 6) / 2.0) for x in xs]
        seg = PlanarCurve(cp)
        t = rng.random()
        ctx.case("curved-contains", ("curved-in", tuple(cp), t))
        ctx.check(seg(t) in seg, "segment(t) not in regular curved segment", {"ctrl": cp, "t": t})
        tm = rng.uniform(0.2, 0.8)
        c0, d0 = seg(tm), seg.derivate()(tm)
        L = math.hypot(float(d0[0]), float(d0[1]))
        for off in (3e-6, 1e-5, 1e-4, 5e-4):
            q = (float(c0[0]) - off * float(d0[1]) / L, float(c0[1]) + off * float(d0[0]) / L)
            ctx.check(q not in seg, "a point farther than the tolerance from a curved segment is `in` it", {"ctrl": cp, "t": tm, "offset": off})
