"""Common machinery of the /verif checks: Lean build + axiom audit, the model driver, evidence,
known findings, verdicts.  Runs under /venv/bin/python (3.12) with shapepy imported from /repo/src."""
import json, os, re, subprocess, sys, time, random, hashlib, traceback
from fractions import Fraction

VERIF = os.path.dirname(os.path.dirname(os.path.abspath(__file__)))
LEAN = os.path.join(VERIF, "lean")
REPO = os.environ.get("VERIF_REPO", "/repo")
DRIVER = os.path.join(LEAN, ".lake", "build", "bin", "driver")
ALLOWED_AXIOMS = {"propext", "Classical.choice", "Quot.sound"}
FORBIDDEN = re.compile(r"\b(sorry|admit|native_decide|bv_decide|implemented_by)\b|^\s*axiom\s|unsafe\s|maxHeartbeats\s+0")

TRUSTED_BASE = [
    "Lean 4.33 kernel; axioms per theorem audited on every run: subset of {propext, Classical.choice, Quot.sound}",
    "hand-written executable model lean/ShapeVerif/Model/*.lean (Mathlib-free, over core Rat), tied to /repo by the correspondence harness on every run",
    "translator harness/translate.py (Python ast -> lean/ShapeVerif/Gen/*.lean), regenerated on every run",
    "correspondence harness (generators, canonicalisation, line protocol) in harness/*.py",
    "modelled, not verified: pynurbs (split, derivative, least squares, Newton-Cotes weights), numpy/math floating point, fractions.Fraction, matplotlib path semantics",
    "meaning of 'region of an oriented polygon' = signed crossing number of a vertical ray (Jordan curve theorem not formalised); moments via Green's theorem",
]


def sh(cmd, cwd=None, timeout=None, env=None):
    p = subprocess.run(cmd, shell=True, cwd=cwd, capture_output=True, text=True, timeout=timeout, env=env)
    return p.returncode, p.stdout + p.stderr


# ----------------------------------------------------------------------------- Lean side
def lean_sources():
    out = []
    for root, _, files in os.walk(os.path.join(LEAN, "ShapeVerif")):
        for f in files:
            if f.endswith(".lean"):
                out.append(os.path.join(root, f))
    out.append(os.path.join(LEAN, "Driver.lean"))
    return sorted(out)


def strip_comments(text):
    text = re.sub(r"/-.*?-/", "", text, flags=re.S)
    return re.sub(r"--.*", "", text)


def grep_forbidden():
    hits = []
    for path in lean_sources():
        body = strip_comments(open(path).read())
        for i, line in enumerate(body.splitlines(), 1):
            if FORBIDDEN.search(line):
                hits.append(f"{os.path.relpath(path, LEAN)}: {line.strip()[:100]}")
    return hits


def translate():
    """regenerate lean/ShapeVerif/Gen/*.lean from /repo/src; returns (ok, message)"""
    try:
        from harness import translate as tr
    except Exception as e:  # pragma: no cover
        return False, f"translator import failed: {e!r}"
    try:
        return tr.regenerate(os.path.join(REPO, "src", "shapepy"), os.path.join(LEAN, "ShapeVerif", "Gen"))
    except Exception as e:
        return False, f"translator failed: {e!r}"


def lake_build(targets=("ShapeVerif", "driver")):
    """returns (ok, log, failed_modules)"""
    rc, out = sh("lake build " + " ".join(targets), cwd=LEAN, timeout=3000)
    failed = re.findall(r"✖ \[\d+/\d+\] Building (\S+)", out)
    failed += re.findall(r"error: (\S+?\.lean):\d+", out)
    return rc == 0, out, sorted(set(failed))


def props_modules(pid):
    """Props/<pid>.lean and its continuation files Props/<pid>b.lean, Props/<pid>c.lean, …"""
    d = os.path.join(LEAN, "ShapeVerif", "Props")
    return sorted(f[:-5] for f in os.listdir(d) if re.fullmatch(re.escape(pid) + r"[a-z]?\.lean", f))


def props_theorems(pid):
    """names of the theorems stated in the Props files of a property"""
    out = []
    for mod in props_modules(pid):
        body = strip_comments(open(os.path.join(LEAN, "ShapeVerif", "Props", mod + ".lean")).read())
        ns = re.findall(r"^namespace\s+(\S+)", body, flags=re.M)
        prefix = (ns[0] + ".") if ns else ""
        out += [prefix + m for m in re.findall(r"^theorem\s+(\S+)", body, flags=re.M)]
    return out


def audit(pid):
    """#print axioms for every theorem of Props/<pid>; returns dict name -> sorted axiom list, plus log"""
    names = props_theorems(pid)
    if not names:
        return {}, "no theorems"
    os.makedirs(os.path.join(LEAN, ".audit"), exist_ok=True)
    src = os.path.join(LEAN, ".audit", f"Audit_{pid}.lean")
    with open(src, "w") as f:
        for mod in props_modules(pid):
            f.write(f"import ShapeVerif.Props.{mod}\n")
        for n in names:
            f.write(f"#print axioms {n}\n")
    rc, out = sh(f"lake env lean {src}", cwd=LEAN, timeout=900)
    res = {}
    for m in re.finditer(r"'([^']+)' depends on axioms: \[([^\]]*)\]", out):
        res[m.group(1)] = sorted(a.strip() for a in m.group(2).replace("\n", " ").split(",") if a.strip())
    for m in re.finditer(r"'([^']+)' does not depend on any axioms", out):
        res[m.group(1)] = []
    return res, out if rc != 0 else ""


# ----------------------------------------------------------------------------- driver
class Driver:
    def __init__(self):
        if not os.path.exists(DRIVER):
            raise RuntimeError("model driver not built: run ./check --setup")
        self.p = subprocess.Popen([DRIVER], stdin=subprocess.PIPE, stdout=subprocess.PIPE, text=True, bufsize=1 << 20)
        self.n = 0

    def ask_many(self, lines):
        if not lines:
            return []
        # chunk to keep pipes from filling
        out = []
        CH = 200
        for i in range(0, len(lines), CH):
            chunk = lines[i:i + CH]
            self.p.stdin.write("\n".join(chunk) + "\n")
            self.p.stdin.flush()
            for _ in chunk:
                ans = self.p.stdout.readline()
                if not ans:
                    raise RuntimeError("model driver died")
                out.append(ans.rstrip("\n"))
        self.n += len(lines)
        return out

    def ask(self, line):
        return self.ask_many([line])[0]

    def close(self):
        try:
            self.p.stdin.close()
            self.p.wait(timeout=5)
        except Exception:
            self.p.kill()


# ----------------------------------------------------------------------------- protocol encoding
def to_frac(v):
    if isinstance(v, Fraction):
        return v
    if isinstance(v, int):
        return Fraction(v)
    if isinstance(v, float):
        return Fraction(v)
    try:
        import numpy as np
        if isinstance(v, np.integer):
            return Fraction(int(v))
        if isinstance(v, np.floating):
            return Fraction(float(v))
    except ImportError:
        pass
    return Fraction(v)


def er(v):
    f = to_frac(v)
    return str(f.numerator) if f.denominator == 1 else f"{f.numerator}/{f.denominator}"


def ept(p):
    return f"{er(p[0])} {er(p[1])}"


def elist(items, f):
    items = list(items)
    return " ".join([str(len(items))] + [f(x) for x in items])


def eseg(ctrl):
    return elist(ctrl, ept)


def ejordan_ctrl(segs):
    """segs: list of control-point lists"""
    return elist(segs, eseg)


def ejordan(j):
    """a real JordanCurve"""
    return ejordan_ctrl([[tuple(p) for p in s.ctrlpoints] for s in j.segments])


def eshape(s):
    from shapepy.shape import EmptyShape, WholeShape, SimpleShape, ConnectedShape, DisjointShape
    if isinstance(s, EmptyShape):
        return "E"
    if isinstance(s, WholeShape):
        return "W"
    if isinstance(s, SimpleShape):
        return "S " + ejordan(s.jordans[0])
    if isinstance(s, ConnectedShape):
        return "C " + elist(s.jordans, ejordan)
    if isinstance(s, DisjointShape):
        return "D " + elist(s.subshapes, lambda c: elist(c.jordans, ejordan))
    raise TypeError(type(s))


def epoly(vs):
    """a polygon given by vertices, as a model Jordan"""
    n = len(vs)
    return ejordan_ctrl([[vs[i], vs[(i + 1) % n]] for i in range(n)])


class Toks:
    def __init__(self, s):
        self.t = s.split()
        self.i = 0

    def tok(self):
        v = self.t[self.i]
        self.i += 1
        return v

    def nat(self):
        return int(self.tok())

    def rat(self):
        return Fraction(self.tok())

    def pt(self):
        return (self.rat(), self.rat())

    def lst(self, f):
        return [f() for _ in range(self.nat())]

    def seg(self):
        return self.lst(self.pt)

    def jordan(self):
        return self.lst(self.seg)

    def done(self):
        return self.i == len(self.t)


def dpts(s):
    t = Toks(s)
    return t.lst(t.pt)


def dseg(s):
    return Toks(s).seg()


def djordan(s):
    return Toks(s).jordan()


def dsegs(s):
    t = Toks(s)
    return t.lst(t.seg)


def isfrac(v):
    """a well-formed exact rational: int, or Fraction with int numerator and denominator"""
    if isinstance(v, bool):
        return False
    if isinstance(v, int):
        return True
    return isinstance(v, Fraction) and type(v.numerator) is int and type(v.denominator) is int


# ----------------------------------------------------------------------------- known findings
def load_findings():
    path = os.path.join(VERIF, "known_findings.json")
    if not os.path.exists(path):
        return {"findings": [], "fixed": []}
    return json.load(open(path))


# ----------------------------------------------------------------------------- context of one check run
class Ctx:
    def __init__(self, pid, tier, seed):
        self.pid, self.tier, self.seed = pid, tier, seed
        self.rng = random.Random(seed * 1000003 + int(pid[1:]))
        self.quick = tier == "quick"
        self.evaluations = 0
        self.keys = set()
        self.dist = {}
        self.samples = []
        self.failures = []      # dicts: {what, input, expected, got, sig}
        self.known_hits = []    # (finding id, what)
        self.notes = []
        self.findings = [f for f in load_findings().get("findings", []) if pid in f.get("properties", [f.get("property")])]
        self._drv = None
        self.t0 = time.time()
        self.budget = float(os.environ.get("VERIF_BUDGET", "0") or 0)

    @property
    def drv(self):
        if self._drv is None:
            self._drv = Driver()
        return self._drv

    def count(self, key, n=1):
        self.dist[key] = self.dist.get(key, 0) + n

    def case(self, family, key=None, nontrivial=True):
        """register one executed case; `key` identifies distinct inputs"""
        self.evaluations += 1
        self.count("family:" + family)
        if nontrivial and key is not None:
            self.keys.add(hashlib.sha1(repr(key).encode()).hexdigest())

    def sample(self, obj, limit=6):
        if len(self.samples) < limit:
            self.samples.append(obj)

    def fail(self, what, inp, expected=None, got=None, sig=None):
        """a property failure on a concrete input.  `sig` is a dict of decidable features of the
        input used to match known findings."""
        rec = {"what": what, "input": inp, "expected": expected, "got": got, "sig": sig or {}}
        for f in self.findings:
            if finding_matches(f, rec):
                self.known_hits.append((f["id"], what, rec))
                return
        self.failures.append(rec)

    def check(self, cond, what, inp, expected=None, got=None, sig=None):
        if not cond:
            self.fail(what, inp, expected, got, sig)
        return cond


def finding_matches(f, rec):
    """a known finding lists `match`: all listed signature keys must be equal, and `what` must be one
    of the listed failure kinds.  Nothing else is suppressed."""
    m = f.get("match", {})
    if "what" in m and rec["what"] not in m["what"]:
        return False
    for k, v in m.get("sig", {}).items():
        if rec["sig"].get(k) != v:
            return False
    if "input" in m and json.dumps(rec["input"], default=str, sort_keys=True) != json.dumps(m["input"], default=str, sort_keys=True):
        return False
    return True


def jsonable(o):
    if isinstance(o, Fraction):
        return str(o)
    if isinstance(o, (list, tuple)):
        return [jsonable(x) for x in o]
    if isinstance(o, dict):
        return {str(k): jsonable(v) for k, v in o.items()}
    if isinstance(o, (int, float, str, bool)) or o is None:
        return o
    return repr(o)
