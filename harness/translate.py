"""Translator slice: Python AST of selected shapepy functions -> Lean data in lean/ShapeVerif/Gen/*.lean.

Regenerated on every run; files are rewritten only when their content changes (keeps lake's no-op fast).
What is translated (DESIGN.md §5a):
  * BaseShape.__neg__/__add__/__mul__/__sub__/__xor__                         -> Gen.baseMethods : Methods
  * EmptyShape / WholeShape .__or__/__and__/__sub__/__invert__ (+ inherited)   -> Gen.emptyOps / Gen.wholeOps
  * DefinedShape.__or__/__and__ (isinstance / `in` short-cut chains)           -> Gen.definedOr / Gen.definedAnd : Chain
  * SimpleShape._contains_point (comparison table on the winding value)        -> Gen.simpleTable
  * Connected/Disjoint._contains_point (all / any loops)                       -> Gen.connectedQuant / Gen.disjointQuant
  * plot.patch_segment (degree -> code, count, first index)                    -> Gen.patchTable
  * tolerance literals with their call sites                                   -> Gen.consts
A construct outside the grammar raises Unsupported(file:line); the Gen file is then written with the
definition missing, so every theorem about it fails to build ("not re-checked") and the decision falls to
the correspondence check.
"""
import ast, os
from fractions import Fraction


class Unsupported(Exception):
    pass


def write_if_changed(path, text):
    os.makedirs(os.path.dirname(path), exist_ok=True)
    if os.path.exists(path) and open(path).read() == text:
        return False
    open(path, "w").write(text)
    return True


def find_class(tree, name):
    for n in tree.body:
        if isinstance(n, ast.ClassDef) and n.name == name:
            return n
    raise Unsupported(f"class {name} not found")


def find_func(node, name):
    for n in node.body:
        if isinstance(n, ast.FunctionDef) and n.name == name:
            return n
    return None


def body_wo_doc(fn):
    body = list(fn.body)
    if body and isinstance(body[0], ast.Expr) and isinstance(getattr(body[0], "value", None), ast.Constant) and isinstance(body[0].value.value, str):
        body = body[1:]
    return [s for s in body if not isinstance(s, ast.Assert)]


def where(node, fname):
    return f"{fname}:{getattr(node, 'lineno', '?')}"


# ------------------------------------------------------------------ Term expressions
def term(e, names, fname):
    """names: python variable name -> Lean Term constructor ('self'/'other')"""
    if isinstance(e, ast.Name):
        if e.id in names:
            return f"Term.{names[e.id]}"
        raise Unsupported(f"unknown name {e.id} at {where(e, fname)}")
    if isinstance(e, ast.UnaryOp):
        if isinstance(e.op, ast.Invert):
            return f"(Term.inv {term(e.operand, names, fname)})"
        if isinstance(e.op, ast.USub):
            return f"(Term.neg {term(e.operand, names, fname)})"
    if isinstance(e, ast.BinOp):
        ops = {ast.BitOr: "or", ast.BitAnd: "and", ast.Sub: "sub", ast.BitXor: "xor", ast.Add: "add", ast.Mult: "mul"}
        for k, v in ops.items():
            if isinstance(e.op, k):
                return f"(Term.{v} {term(e.left, names, fname)} {term(e.right, names, fname)})"
    if isinstance(e, ast.Call) and isinstance(e.func, ast.Name):
        if e.func.id in ("copy", "deepcopy") and len(e.args) == 1:
            return f"(Term.copy {term(e.args[0], names, fname)})"
        if e.func.id == "WholeShape" and not e.args:
            return "Term.whole"
        if e.func.id == "EmptyShape" and not e.args:
            return "Term.empty"
    raise Unsupported(f"unsupported expression {ast.dump(e)[:80]} at {where(e, fname)}")


def method_names(fn):
    args = [a.arg for a in fn.args.args]
    names = {args[0]: "self"}
    if len(args) > 1:
        names[args[1]] = "other"
    return names


def simple_method(cls, name, fname):
    """a method whose body is `return <expr>`"""
    fn = find_func(cls, name)
    if fn is None:
        return None
    body = body_wo_doc(fn)
    if len(body) == 1 and isinstance(body[0], ast.Return):
        return term(body[0].value, method_names(fn), fname)
    raise Unsupported(f"{cls.name}.{name} is not a single return at {where(fn, fname)}")


def guard(test, names, fname):
    if isinstance(test, ast.Call) and isinstance(test.func, ast.Name) and test.func.id == "isinstance" and len(test.args) == 2:
        obj, cls = test.args
        if isinstance(cls, ast.Name) and cls.id in ("WholeShape", "EmptyShape"):
            return f"(Guard.is{cls.id[:-5]} {term(obj, names, fname)})"
    if isinstance(test, ast.Compare) and len(test.ops) == 1 and isinstance(test.ops[0], ast.In):
        return f"(Guard.subset {term(test.left, names, fname)} {term(test.comparators[0], names, fname)})"
    raise Unsupported(f"unsupported guard {ast.dump(test)[:80]} at {where(test, fname)}")


def chain(cls, name, fname):
    fn = find_func(cls, name)
    if fn is None:
        raise Unsupported(f"{cls.name}.{name} not found")
    names = method_names(fn)
    body = body_wo_doc(fn)
    guards = []
    i = 0
    while i < len(body) and isinstance(body[i], ast.If):
        st = body[i]
        if st.orelse or len(st.body) != 1 or not isinstance(st.body[0], ast.Return):
            raise Unsupported(f"unsupported if at {where(st, fname)}")
        guards.append(f"({guard(st.test, names, fname)}, {term(st.body[0].value, names, fname)})")
        i += 1
    rest = body[i:]
    # new_jordans = FollowPath.X(self, other); if len(new_jordans) == 0: return T; return ShapeFromJordans(new_jordans)
    if len(rest) != 3 or not isinstance(rest[0], ast.Assign) or not isinstance(rest[1], ast.If) or not isinstance(rest[2], ast.Return):
        raise Unsupported(f"unsupported tail of {cls.name}.{name} at {where(fn, fname)}")
    call = rest[0].value
    if not (isinstance(call, ast.Call) and isinstance(call.func, ast.Attribute) and isinstance(call.func.value, ast.Name)
            and call.func.value.id == "FollowPath" and [getattr(a, "id", None) for a in call.args] == list(names)):
        raise Unsupported(f"unsupported recombination call at {where(rest[0], fname)}")
    var = rest[0].targets[0].id
    t = rest[1].test
    ok_test = (isinstance(t, ast.Compare) and isinstance(t.left, ast.Call) and getattr(t.left.func, "id", None) == "len"
               and getattr(t.left.args[0], "id", None) == var and isinstance(t.ops[0], ast.Eq)
               and isinstance(t.comparators[0], ast.Constant) and t.comparators[0].value == 0)
    if not ok_test or len(rest[1].body) != 1 or not isinstance(rest[1].body[0], ast.Return):
        raise Unsupported(f"unsupported empty-result test at {where(rest[1], fname)}")
    on_empty = term(rest[1].body[0].value, names, fname)
    r = rest[2].value
    if not (isinstance(r, ast.Call) and getattr(r.func, "id", None) == "ShapeFromJordans" and getattr(r.args[0], "id", None) == var):
        raise Unsupported(f"unsupported final return at {where(rest[2], fname)}")
    return "{ guards := [" + ", ".join(guards) + f'], recombine := "{call.func.attr}", onEmpty := {on_empty} }}'


# ------------------------------------------------------------------ comparison table of SimpleShape._contains_point
def cmp_expr(e, wname, fname):
    """comparison of the winding value against a number, on doubled integers"""
    if isinstance(e, ast.Compare) and len(e.ops) == 1 and isinstance(e.left, ast.Name) and e.left.id == wname:
        c = e.comparators[0]
        if isinstance(c, ast.UnaryOp) and isinstance(c.op, ast.USub) and isinstance(c.operand, ast.Constant):
            val = -Fraction(str(c.operand.value))
        elif isinstance(c, ast.Constant):
            val = Fraction(str(c.value))
        else:
            raise Unsupported(f"unsupported comparand at {where(e, fname)}")
        v2 = val * 2          # compare 2*wind (an integer) with 2*c = N/D as  w2 * D  op  N  over the integers
        ops = {ast.Gt: ">", ast.GtE: "≥", ast.Lt: "<", ast.LtE: "≤", ast.Eq: "=", ast.NotEq: "≠"}
        for k, sym in ops.items():
            if isinstance(e.ops[0], k):
                if v2.denominator == 1:
                    return f"decide (w2 {sym} ({int(v2)} : Int))"
                return f"decide (w2 * ({v2.denominator} : Int) {sym} ({v2.numerator} : Int))"
    raise Unsupported(f"unsupported comparison {ast.dump(e)[:80]} at {where(e, fname)}")


def table_expr(e, wname, fname):
    if isinstance(e, ast.IfExp):
        if not (isinstance(e.test, ast.Name) and e.test.id == "boundary"):
            raise Unsupported(f"unsupported conditional at {where(e, fname)}")
        return f"(if boundary then {table_expr(e.body, wname, fname)} else {table_expr(e.orelse, wname, fname)})"
    return cmp_expr(e, wname, fname)


def simple_table(cls, fname):
    fn = find_func(cls, "_contains_point")
    body = body_wo_doc(fn)
    # jordan = ...; wind = IntegrateJordan.winding_number(...); if float(jordan) > 0: return A; return B
    assigns = [s for s in body if isinstance(s, ast.Assign)]
    wname = None
    for s in assigns:
        v = s.value
        if isinstance(v, ast.Call) and isinstance(v.func, ast.Attribute) and v.func.attr == "winding_number":
            wname = s.targets[0].id
    rest = [s for s in body if not isinstance(s, ast.Assign)]
    if wname is None or len(rest) != 2 or not isinstance(rest[0], ast.If) or not isinstance(rest[1], ast.Return):
        raise Unsupported(f"unsupported shape of SimpleShape._contains_point at {where(fn, fname)}")
    t = rest[0].test
    ok = (isinstance(t, ast.Compare) and isinstance(t.left, ast.Call) and getattr(t.left.func, "id", None) == "float"
          and isinstance(t.ops[0], ast.Gt) and isinstance(t.comparators[0], ast.Constant) and t.comparators[0].value == 0)
    if not ok or len(rest[0].body) != 1 or not isinstance(rest[0].body[0], ast.Return) or rest[0].orelse:
        raise Unsupported(f"unsupported orientation test at {where(rest[0], fname)}")
    pos = table_expr(rest[0].body[0].value, wname, fname)
    neg = table_expr(rest[1].value, wname, fname)
    return f"if ccw then {pos} else {neg}"


def quant_loop(cls, fname):
    """for sub in self.subshapes: if [not] sub.contains_point(..): return C ; return D  -> Quant"""
    fn = find_func(cls, "_contains_point")
    body = body_wo_doc(fn)
    if len(body) == 1 and isinstance(body[0], ast.Return) and isinstance(body[0].value, ast.Call) and getattr(body[0].value.func, "id", None) in ("all", "any") \
            and len(body[0].value.args) == 1 and isinstance(body[0].value.args[0], (ast.GeneratorExp, ast.ListComp)):
        g = body[0].value.args[0]
        if len(g.generators) == 1 and not g.generators[0].ifs and ast.unparse(g.generators[0].iter) == "self.subshapes" \
                and ast.unparse(g.elt) == f"{ast.unparse(g.generators[0].target)}.contains_point(point, boundary)":
            return "Quant.all" if body[0].value.func.id == "all" else "Quant.any"
        raise Unsupported(f"unsupported all/any expression in {cls.name}._contains_point at {where(fn, fname)}")
    if len(body) != 2 or not isinstance(body[0], ast.For) or not isinstance(body[1], ast.Return):
        raise Unsupported(f"unsupported loop in {cls.name}._contains_point at {where(fn, fname)}")
    loop = body[0]
    it = loop.iter
    if not (isinstance(it, ast.Attribute) and it.attr == "subshapes"):
        raise Unsupported(f"loop does not range over subshapes at {where(loop, fname)}")
    if len(loop.body) != 1 or not isinstance(loop.body[0], ast.If) or loop.body[0].orelse:
        raise Unsupported(f"unsupported loop body at {where(loop, fname)}")
    iff = loop.body[0]
    test, negated = iff.test, False
    if isinstance(test, ast.UnaryOp) and isinstance(test.op, ast.Not):
        test, negated = test.operand, True
    okcall = (isinstance(test, ast.Call) and isinstance(test.func, ast.Attribute) and test.func.attr == "contains_point"
              and getattr(test.func.value, "id", None) == loop.target.id
              and [getattr(a, "id", None) for a in test.args] == ["point", "boundary"])
    if not okcall or len(iff.body) != 1 or not isinstance(iff.body[0], ast.Return):
        raise Unsupported(f"unsupported membership test at {where(iff, fname)}")
    early, final = iff.body[0].value, body[1].value
    if not (isinstance(early, ast.Constant) and isinstance(final, ast.Constant)):
        raise Unsupported(f"non-constant returns at {where(iff, fname)}")
    if negated and early.value is False and final.value is True:
        return "Quant.all"
    if (not negated) and early.value is True and final.value is False:
        return "Quant.any"
    raise Unsupported(f"loop is neither all nor any at {where(loop, fname)}")


# ------------------------------------------------------------------ plot.patch_segment
def patch_table(tree, fname):
    fn = find_func(tree, "patch_segment")
    if fn is None:
        raise Unsupported("plot.patch_segment not found")
    rows = []
    node = None
    for st in fn.body:
        if isinstance(st, ast.If):
            node = st
    while node is not None:
        t = node.test
        if not (isinstance(t, ast.Compare) and isinstance(t.left, ast.Attribute) and t.left.attr == "degree"
                and isinstance(t.ops[0], ast.Eq) and isinstance(t.comparators[0], ast.Constant)):
            raise Unsupported(f"unsupported degree test at {where(node, fname)}")
        deg = t.comparators[0].value
        first, code, count = None, None, None
        for st in node.body:
            # vertices.append(segment.ctrlpoints[1]) | vertices += list(segment.ctrlpoints[1:])
            if isinstance(st, ast.Expr) and isinstance(st.value, ast.Call) and getattr(st.value.func, "attr", None) == "append":
                tgt = st.value.func.value.id
                arg = st.value.args[0]
                if tgt == "vertices":
                    first = arg.slice.value
                    nverts = 1
                else:
                    code, count = arg.attr, 1
            elif isinstance(st, ast.AugAssign) and isinstance(st.op, ast.Add):
                tgt = st.target.id
                v = st.value
                if tgt == "vertices":
                    sl = v.args[0].slice if isinstance(v, ast.Call) else v.slice
                    if not (isinstance(sl, ast.Slice) and sl.upper is None and sl.step is None):
                        raise Unsupported(f"unsupported slice at {where(st, fname)}")
                    first = sl.lower.value
                    nverts = None
                else:
                    if isinstance(v, ast.BinOp) and isinstance(v.op, ast.Mult):
                        code, count = v.left.elts[0].attr, v.right.value
                    elif isinstance(v, ast.List):
                        code, count = v.elts[0].attr, len(v.elts)
                    else:
                        raise Unsupported(f"unsupported commands at {where(st, fname)}")
            else:
                raise Unsupported(f"unsupported statement at {where(st, fname)}")
        nv = nverts if nverts is not None else f"(deg + 1 - {first})"
        rows.append((deg, first, code, count, nverts))
        nxt = node.orelse
        node = nxt[0] if (len(nxt) == 1 and isinstance(nxt[0], ast.If)) else None
    lines = []
    for deg, first, code, count, nverts in rows:
        nv = nverts if nverts is not None else deg + 1 - first
        lines.append(f"  | {deg} => some ({first}, PCode.{code.lower()}, {count}, {nv})")
    return "\n".join(lines) + "\n  | _ => none"


# ------------------------------------------------------------------ natural-number arithmetic (node counts, exponents)
def nat_expr(e, env, fname):
    """env: python source text of a name/attribute -> Lean variable"""
    key = ast.unparse(e)
    if key in env:
        return env[key]
    if isinstance(e, ast.Constant) and isinstance(e.value, int) and not isinstance(e.value, bool) and e.value >= 0:
        return str(e.value)
    if isinstance(e, ast.BinOp):
        ops = {ast.Add: "+", ast.Mult: "*", ast.Sub: "-", ast.FloorDiv: "/"}
        for k, sym in ops.items():
            if isinstance(e.op, k):
                return f"({nat_expr(e.left, env, fname)} {sym} {nat_expr(e.right, env, fname)})"
    if isinstance(e, ast.Call) and isinstance(e.func, ast.Name) and e.func.id in ("max", "min") and len(e.args) == 2:
        fn = "Nat.max" if e.func.id == "max" else "Nat.min"
        return f"({fn} {nat_expr(e.args[0], env, fname)} {nat_expr(e.args[1], env, fname)})"
    raise Unsupported(f"unsupported arithmetic {key[:60]} at {where(e, fname)}")


def default_nodes(cls, fn_name, fname):
    """`if nnodes is None: nnodes = <expr>` inside IntegratePlanar.<fn_name>"""
    fn = find_func(cls, fn_name)
    if fn is None:
        raise Unsupported(f"{cls.name}.{fn_name} not found")
    for st in fn.body:
        if isinstance(st, ast.If) and isinstance(st.test, ast.Compare) and ast.unparse(st.test) == "nnodes is None":
            if len(st.body) == 1 and isinstance(st.body[0], ast.Assign) and ast.unparse(st.body[0].targets[0]) == "nnodes":
                return nat_expr(st.body[0].value, {"expx": "a", "expy": "b", "curve.degree": "deg", "curve.npts": "(deg + 1)"}, fname)
    raise Unsupported(f"default node count not found in {fn_name} at {where(fn, fname)}")


def moment_reduction(tree, fname):
    """IntegrateShape.polynomial: total += IntegrateJordan.vertical(jordan, E1, E2, nnodes) ... return total / D"""
    cls = find_class(tree, "IntegrateShape")
    fn = find_func(cls, "polynomial")
    call, div = None, None
    for n in ast.walk(fn):
        if isinstance(n, ast.Call) and isinstance(n.func, ast.Attribute) and n.func.attr == "vertical" and ast.unparse(n.func.value) == "IntegrateJordan":
            call = n
        if isinstance(n, ast.Return) and isinstance(n.value, ast.BinOp) and isinstance(n.value.op, ast.Div) and ast.unparse(n.value.left) == "total":
            div = n.value.right
    if call is None or div is None or len(call.args) < 3:
        raise Unsupported(f"unsupported shape of IntegrateShape.polynomial at {where(fn, fname)}")
    env = {"expx": "a", "expy": "b"}
    return nat_expr(call.args[1], env, fname), nat_expr(call.args[2], env, fname), nat_expr(div, env, fname)


# ------------------------------------------------------------------ JordanCurve.intersection: the keep-condition of the end_points filter
def bool_expr(e, fname):
    """boolean expression over ui, vi (parameters, `None` for identical segments already excluded) -> Lean Bool term over u v : Rat"""
    if isinstance(e, ast.BoolOp):
        op = " && " if isinstance(e.op, ast.And) else " || "
        return "(" + op.join(bool_expr(v, fname) for v in e.values) + ")"
    if isinstance(e, ast.UnaryOp) and isinstance(e.op, ast.Not):
        return f"(!{bool_expr(e.operand, fname)})"
    if isinstance(e, ast.Compare):
        def term_(x):
            if isinstance(x, ast.Name) and x.id in ("ui", "vi"):
                return "u" if x.id == "ui" else "v"
            if isinstance(x, ast.Constant) and isinstance(x.value, (int, float)) and not isinstance(x.value, bool):
                fr = Fraction(x.value)
                return f"(({fr.numerator} : Rat) / ({fr.denominator} : Rat))"
            raise Unsupported(f"unsupported operand {ast.dump(x)[:50]} at {where(e, fname)}")
        if len(e.ops) == 1 and isinstance(e.ops[0], ast.Is) and isinstance(e.comparators[0], ast.Constant) and e.comparators[0].value is None:
            return "false"       # `ui is None`: handled by the `none` branch of the generated match
        parts, left = [], e.left
        syms = {ast.Lt: "<", ast.LtE: "≤", ast.Gt: ">", ast.GtE: "≥", ast.Eq: "=", ast.NotEq: "≠"}
        for op, right in zip(e.ops, e.comparators):
            sym = next((v for k, v in syms.items() if isinstance(op, k)), None)
            if sym is None:
                raise Unsupported(f"unsupported comparison at {where(e, fname)}")
            parts.append(f"decide ({term_(left)} {sym} {term_(right)})")
            left = right
        return "(" + " && ".join(parts) + ")"
    raise Unsupported(f"unsupported boolean expression {ast.dump(e)[:60]} at {where(e, fname)}")


def intersection_filters(jtree, fname):
    """returns (Lean term for `tuple with (None, None) is removed when equal_beziers is False`, Lean term of the KEEP condition under end_points=False)"""
    fn = find_func(find_class(jtree, "JordanCurve"), "intersection")
    rm_none, keep = None, None
    for st in fn.body:
        if isinstance(st, ast.If) and isinstance(st.test, ast.UnaryOp) and isinstance(st.test.op, ast.Not) and isinstance(st.test.operand, ast.Name):
            flag = st.test.operand.id
            loop = st.body[0] if st.body and isinstance(st.body[0], ast.For) else None
            if loop is None:
                raise Unsupported(f"unsupported filter at {where(st, fname)}")
            if flag == "equal_beziers":
                iff = loop.body[0]
                if not (isinstance(iff, ast.If) and ast.unparse(iff.test) == "ui is None" and "remove" in ast.unparse(iff.body[0])):
                    raise Unsupported(f"unsupported equal_beziers filter at {where(loop, fname)}")
                rm_none = "true"
            elif flag == "end_points":
                iff = loop.body[0]
                if not (isinstance(iff, ast.If) and len(iff.body) == 1 and isinstance(iff.body[0], ast.Continue) and "remove" in ast.unparse(loop.body[1])):
                    raise Unsupported(f"unsupported end_points filter at {where(loop, fname)}")
                none_kept = "ui is None" in ast.unparse(iff.test)
                keep = (bool_expr(iff.test, fname), "true" if none_kept else "false")
    if rm_none is None or keep is None:
        raise Unsupported("intersection filters not found")
    return rm_none, keep


# ------------------------------------------------------------------ Primitive vertex formulas
def coord_expr(e, var, fname):
    if isinstance(e, ast.Name) and e.id == var:
        return "s"
    if isinstance(e, ast.Constant) and isinstance(e.value, int) and not isinstance(e.value, bool):
        return f"({e.value} : Rat)"
    if isinstance(e, ast.UnaryOp) and isinstance(e.op, ast.USub):
        return f"(-{coord_expr(e.operand, var, fname)})"
    if isinstance(e, ast.BinOp) and isinstance(e.op, (ast.Div, ast.Mult, ast.Add, ast.Sub)):
        sym = {ast.Div: "/", ast.Mult: "*", ast.Add: "+", ast.Sub: "-"}[type(e.op)]
        return f"({coord_expr(e.left, var, fname)} {sym} {coord_expr(e.right, var, fname)})"
    raise Unsupported(f"unsupported coordinate {ast.dump(e)[:50]} at {where(e, fname)}")


def primitive_vertices(ptree, fn_name, var, fname, branch_test=None):
    """vertex list literal `[(a, b), ...]` of a Primitive factory (after an optional `var /= k`), every vertex added to `center`"""
    fn = find_func(find_class(ptree, "Primitive"), fn_name)
    scale = "s"
    lst = None
    for n in ast.walk(fn):
        if isinstance(n, ast.AugAssign) and isinstance(n.target, ast.Name) and n.target.id == var and isinstance(n.op, ast.Div) and isinstance(n.value, ast.Constant):
            scale = f"(s / ({n.value.value} : Rat))"
        if isinstance(n, ast.Assign) and isinstance(n.value, ast.List) and n.value.elts and all(isinstance(t, ast.Tuple) and len(t.elts) == 2 for t in n.value.elts):
            if lst is None:
                lst = n.value
    if lst is None:
        raise Unsupported(f"vertex list of Primitive.{fn_name} not found")
    src = ast.unparse(fn)
    if "center + Point2D(vertex)" not in src:
        raise Unsupported(f"Primitive.{fn_name}: vertices are not `center + Point2D(vertex)`")
    verts = ", ".join(f"c + ⟨{coord_expr(t.elts[0], var, fname)}, {coord_expr(t.elts[1], var, fname)}⟩" for t in lst.elts)
    return f"(fun s => [{verts}]) {scale}"


# ------------------------------------------------------------------ containment dispatch (_contains_shape of the three classes)
def _loop_rule(stmts, fname):
    """recognise one block of a `_contains_shape` body; returns the CRule constructor name"""
    src = [ast.unparse(s) for s in stmts]
    if len(stmts) == 1 and isinstance(stmts[0], ast.Return) and not (isinstance(stmts[0].value, ast.Call) and getattr(stmts[0].value.func, "id", None) in ("all", "any")):
        v = stmts[0].value
        if isinstance(v, ast.Call) and isinstance(v.func, ast.Attribute) and v.func.attr.endswith("__contains_simple") \
                and ast.unparse(v.func.value) == "self" and [ast.unparse(a) for a in v.args] == ["other"]:
            return "leaf"
        raise Unsupported(f"unsupported return {src[0][:60]} at {where(stmts[0], fname)}")
    pre = []
    while stmts and isinstance(stmts[0], ast.Assign):
        pre.append(stmts[0])
        stmts = stmts[1:]
    if len(stmts) == 1 and isinstance(stmts[0], ast.Return) and isinstance(stmts[0].value, ast.Call) and getattr(stmts[0].value.func, "id", None) in ("all", "any") \
            and len(stmts[0].value.args) == 1 and isinstance(stmts[0].value.args[0], (ast.GeneratorExp, ast.ListComp)) and len(stmts[0].value.args[0].generators) == 1 \
            and not stmts[0].value.args[0].generators[0].ifs:
        # `return all(<test> for sub in <list>)` / `return any(...)`: rewritten as the equivalent loop and recognised below
        g = stmts[0].value.args[0]
        is_all_ = stmts[0].value.func.id == "all"
        test_ = g.elt if not is_all_ else ast.UnaryOp(op=ast.Not(), operand=g.elt)
        iff_ = ast.If(test=test_, body=[ast.Return(value=ast.Constant(value=not is_all_))], orelse=[])
        loop_ = ast.For(target=g.generators[0].target, iter=g.generators[0].iter, body=[iff_], orelse=[])
        for n_ in (iff_, loop_, test_):
            ast.copy_location(n_, stmts[0])
        ast.fix_missing_locations(loop_)
        stmts = [loop_, ast.copy_location(ast.Return(value=ast.Constant(value=is_all_)), stmts[0])]
    if len(stmts) != 2 or not isinstance(stmts[0], ast.For) or not isinstance(stmts[1], ast.Return):
        raise Unsupported(f"unsupported containment block at {where(stmts[0] if stmts else pre[0], fname)}")
    loop, final = stmts
    if loop.orelse or len(loop.body) != 1 or not isinstance(loop.body[0], ast.If) or loop.body[0].orelse \
            or len(loop.body[0].body) != 1 or not isinstance(loop.body[0].body[0], ast.Return):
        raise Unsupported(f"unsupported containment loop at {where(loop, fname)}")
    var = ast.unparse(loop.target)
    over = ast.unparse(loop.iter)
    test = loop.body[0].test
    early = loop.body[0].body[0].value
    if not (isinstance(early, ast.Constant) and isinstance(final.value, ast.Constant)):
        raise Unsupported(f"non-constant returns at {where(loop, fname)}")
    early, last = early.value, final.value.value
    negated = False
    t = test
    if isinstance(t, ast.UnaryOp) and isinstance(t.op, ast.Not):
        t, negated = t.operand, True
    # normalise the membership test to (inner, outer): "inner in outer"
    if isinstance(t, ast.Compare) and len(t.ops) == 1 and isinstance(t.ops[0], (ast.In, ast.NotIn)):
        inner, outer = ast.unparse(t.left), ast.unparse(t.comparators[0])
        if isinstance(t.ops[0], ast.NotIn):
            negated = not negated
    elif isinstance(t, ast.Call) and isinstance(t.func, ast.Attribute) and t.func.attr == "contains_shape" and len(t.args) == 1:
        inner, outer = ast.unparse(t.args[0]), ast.unparse(t.func.value)
    else:
        raise Unsupported(f"unsupported containment test {ast.unparse(test)[:60]} at {where(loop, fname)}")
    is_all = negated and early is False and last is True       # if not (…): return False ; return True
    is_any = (not negated) and early is True and last is False  # if …: return True ; return False
    if not (is_all or is_any):
        raise Unsupported(f"loop is neither all nor any at {where(loop, fname)}")
    if not pre:
        if over == "self.subshapes" and (inner, outer) == ("other", var):
            return "allSelf" if is_all else "anySelf"
        if over == "other.subshapes" and (inner, outer) == (var, "self") and is_all:
            return "allOther"
    elif len(pre) == 1 and ast.unparse(pre[0].value) == "~self" and over == "other.subshapes" and is_any:
        inv = ast.unparse(pre[0].targets[0])
        if (inner, outer) == (inv, f"~{var}"):
            return "anyComplOther"
    raise Unsupported(f"unrecognised containment loop at {where(loop, fname)}")


def contain_rules(tree, fname):
    """table (self kind, other kind) -> CRule from the three `_contains_shape` bodies"""
    kinds = {"SimpleShape": "simple", "ConnectedShape": "connected", "DisjointShape": "disjoint"}
    rows = []
    for clsname, ks in kinds.items():
        fn = find_func(find_class(tree, clsname), "_contains_shape")
        if fn is None:
            raise Unsupported(f"{clsname}._contains_shape not found")
        body = body_wo_doc(fn)
        remaining = list(kinds.values())
        i = 0
        while i < len(body):
            st = body[i]
            if isinstance(st, ast.If) and isinstance(st.test, ast.Call) and getattr(st.test.func, "id", None) == "isinstance" \
                    and ast.unparse(st.test.args[0]) == "other" and not st.orelse:
                c = st.test.args[1]
                names = [c.id] if isinstance(c, ast.Name) else [e.id for e in c.elts]
                rule = _loop_rule(list(st.body), fname)
                for n in names:
                    if n not in kinds:
                        raise Unsupported(f"unknown class {n} at {where(st, fname)}")
                    if kinds[n] in remaining:
                        rows.append((ks, kinds[n], rule))
                        remaining.remove(kinds[n])
                i += 1
                continue
            rule = _loop_rule(body[i:], fname)
            for ko in remaining:
                rows.append((ks, ko, rule))
            remaining = []
            break
    lines = [f"  | .{a}, .{b} => some .{r}" for a, b, r in rows]
    if len(rows) < 9:
        lines.append("  | _, _ => none")
    return "\n".join(lines)


def contains_shape_head(tree, fname):
    """DefinedShape.contains_shape: `if isinstance(other, EmptyShape): return True; if isinstance(other, WholeShape): return False; return self._contains_shape(other)`"""
    fn = find_func(find_class(tree, "DefinedShape"), "contains_shape")
    body = body_wo_doc(fn)
    got = {}
    for st in body[:-1]:
        if not (isinstance(st, ast.If) and ast.unparse(st.test) in ("isinstance(other, EmptyShape)", "isinstance(other, WholeShape)")
                and len(st.body) == 1 and isinstance(st.body[0], ast.Return) and isinstance(st.body[0].value, ast.Constant)):
            raise Unsupported(f"unsupported head of contains_shape at {where(st, fname)}")
        got["Empty" if "Empty" in ast.unparse(st.test) else "Whole"] = st.body[0].value.value
    if ast.unparse(body[-1]) != "return self._contains_shape(other)" or set(got) != {"Empty", "Whole"}:
        raise Unsupported(f"unsupported tail of contains_shape at {where(body[-1], fname)}")
    return ("true" if got["Empty"] else "false"), ("true" if got["Whole"] else "false")


# ------------------------------------------------------------------ __invert__ of the three defined classes
def invert_rules(tree, fname):
    """which construction each class uses for `~shape`"""
    rules = {}
    for clsname, key in (("SimpleShape", "simple"), ("ConnectedShape", "connected"), ("DisjointShape", "disjoint")):
        fn = find_func(find_class(tree, clsname), "__invert__") or find_func(find_class(tree, "DefinedShape"), "__invert__")
        if fn is None:
            raise Unsupported(f"{clsname}.__invert__ not found")
        body = [ast.unparse(x) for x in body_wo_doc(fn)]
        if body == ["return self.__class__(~self.jordans[0])"] or body == ["return SimpleShape(~self.jordans[0])"]:
            rules[key] = "simpleOfInvertedCurve"
        elif body == ["simples = [~simple for simple in self.subshapes]", "return DisjointShape(simples)"] or body == ["return DisjointShape([~simple for simple in self.subshapes])"]:
            rules[key] = "disjointOfInvertedSubs"
        elif body == ["return ShapeFromJordans(tuple((~jordan for jordan in self.jordans)))"]:
            rules[key] = "regroupInvertedCurves"
        else:
            raise Unsupported(f"unsupported body of {clsname}.__invert__ at {where(fn, fname)}: {body}")
    return "\n".join(f"  | .{k} => .{v}" for k, v in rules.items())


# ------------------------------------------------------------------ DisjointShape.__new__ (collapse rules, in source order)
def disjoint_new_steps(tree, fname):
    fn = find_func(find_class(tree, "DisjointShape"), "__new__")
    if fn is None:
        raise Unsupported("DisjointShape.__new__ not found")
    steps = []
    body = body_wo_doc(fn)
    i = 0
    while i < len(body):
        st = body[i]
        src = ast.unparse(st)
        if isinstance(st, ast.Assign) and src in ("subshapes = list(subshapes)", "subshapes = tuple(subshapes)"):
            pass
        elif isinstance(st, ast.While) and ast.unparse(st.test) == "EmptyShape() in subshapes" and [ast.unparse(b) for b in st.body] == ["subshapes.remove(EmptyShape())"]:
            steps.append("removeEmpty")
        elif isinstance(st, ast.Assign) and isinstance(st.value, (ast.ListComp, ast.GeneratorExp, ast.Call)) and "EmptyShape" in src and " if " in src \
                and ("is not" in src or "!=" in src or "not isinstance" in src):
            steps.append("removeEmpty")          # a filtering comprehension that keeps the non-empty operands
        elif isinstance(st, ast.If) and ast.unparse(st.test) == "len(subshapes) == 0" and [ast.unparse(b) for b in st.body] == ["return EmptyShape()"] and not st.orelse:
            steps.append("zeroIsEmpty")
        elif isinstance(st, ast.If) and ast.unparse(st.test) == "len(subshapes) == 1" and [ast.unparse(b) for b in st.body] == ["return copy(subshapes[0])"] and not st.orelse:
            steps.append("oneIsCopy")
        elif isinstance(st, ast.For) and all(isinstance(b, ast.Assert) for b in st.body):
            pass
        elif isinstance(st, ast.Assign) and "__new__" in src:
            rest = [ast.unparse(b) for b in body[i + 1:]]
            if rest == ["instance.subshapes = subshapes", "return instance"]:
                steps.append("build")
                break
            raise Unsupported(f"unsupported tail of DisjointShape.__new__ at {where(st, fname)}")
        else:
            raise Unsupported(f"unsupported statement in DisjointShape.__new__ at {where(st, fname)}: {src[:60]}")
        i += 1
    return "[" + ", ".join("." + x for x in steps) + "]"


# ------------------------------------------------------------------ SimpleShape.__contains_simple: decision table over geometric oracles
def contains_simple_table(tree, fname):
    fn = None
    for n in find_class(tree, "SimpleShape").body:
        if isinstance(n, ast.FunctionDef) and n.name.endswith("__contains_simple"):
            fn = n
    if fn is None:
        raise Unsupported("SimpleShape.__contains_simple not found")
    body = body_wo_doc(fn)
    binds = {}
    i = 0
    while i < len(body) and isinstance(body[i], ast.Assign):
        binds[ast.unparse(body[i].targets[0])] = ast.unparse(body[i].value)
        i += 1
    want = {"areaA": "float(other)", "areaB": "float(self)", "jordana": "other.jordans[0]", "jordanb": "self.jordans[0]"}
    if binds != want:
        raise Unsupported(f"unexpected bindings in __contains_simple at {where(fn, fname)}: {binds}")
    atoms = {"areaA < 0": "aNeg", "areaA > 0": "aPos", "areaB > 0": "bPos", "areaB < 0": "bNeg", "0 > areaA": "aNeg", "0 < areaA": "aPos", "0 < areaB": "bPos", "0 > areaB": "bNeg",
             "not self.box() & other.box()": "boxApart", "self.box() & other.box() is None": "boxApart", "not other.box() & self.box()": "boxApart",
             "jordana in self": "jaIn", "jordana not in self": "(!jaIn)", "jordanb in other": "jbIn", "jordanb not in other": "(!jbIn)",
             "areaA > areaB": "aGtB", "areaB < areaA": "aGtB", "~self in ~other": "recC"}

    def bexp(e):
        src = ast.unparse(e)
        if src in atoms:
            return atoms[src]
        if isinstance(e, ast.Constant) and isinstance(e.value, bool):
            return "true" if e.value else "false"
        if isinstance(e, ast.BoolOp):
            return "(" + (" && " if isinstance(e.op, ast.And) else " || ").join(bexp(v) for v in e.values) + ")"
        if isinstance(e, ast.UnaryOp) and isinstance(e.op, ast.Not):
            return f"(!{bexp(e.operand)})"
        raise Unsupported(f"unsupported condition `{src[:60]}` in __contains_simple at {where(e, fname)}")

    def chain(stmts):
        if not stmts:
            raise Unsupported("__contains_simple may fall off its end")
        st = stmts[0]
        if isinstance(st, ast.Return):
            return bexp(st.value)
        if isinstance(st, ast.If) and not st.orelse and len(st.body) == 1 and isinstance(st.body[0], ast.Return):
            return f"(if {bexp(st.test)} then {bexp(st.body[0].value)} else {chain(stmts[1:])})"
        raise Unsupported(f"unsupported statement in __contains_simple at {where(st, fname)}")
    return chain(body[i:])


# ------------------------------------------------------------------ numeric literals
def literal_consts(srcdir):
    """(name, value-as-Fraction) for the tolerance literals the properties mention"""
    out = []

    def lits(fn):
        return [n.value for n in ast.walk(fn) if isinstance(n, ast.Constant) and isinstance(n.value, (int, float)) and not isinstance(n.value, bool)]

    poly = ast.parse(open(os.path.join(srcdir, "polygon.py")).read())
    p2 = find_class(poly, "Point2D")
    eq = find_func(p2, "__eq__")
    fl = [v for v in lits(eq) if isinstance(v, float)]
    out.append(("pointEqTol", Fraction(max(fl)) if fl else None))
    out.append(("pointEqTolMin", Fraction(min(fl)) if fl else None))
    init = find_func(p2, "__init__")
    md = None
    for n in ast.walk(init):
        if isinstance(n, ast.Call) and getattr(n.func, "attr", None) == "limit_denominator":
            a = n.args[0]
            try:
                md = Fraction(eval(compile(ast.Expression(a), "<lit>", "eval"), {"__builtins__": {}}))
            except Exception:
                md = None
    out.append(("maxDenominator", md))
    box = find_class(poly, "Box")
    for st in box.body:
        if isinstance(st, ast.Assign) and isinstance(st.value, ast.Constant):
            out.append(("box" + st.targets[0].id.capitalize(), Fraction(st.value.value)))
    jc = ast.parse(open(os.path.join(srcdir, "jordancurve.py")).read())
    sp = find_func(find_class(jc, "JordanCurve"), "split")
    fl = [v for v in lits(sp) if isinstance(v, float)]
    out.append(("splitEndTol", Fraction(max(fl)) if fl else None))
    out.append(("splitEndTolMin", Fraction(min(fl)) if fl else None))
    cv = ast.parse(open(os.path.join(srcdir, "curve.py")).read())
    pc = find_class(cv, "PlanarCurve")
    fl = [v for v in lits(find_func(pc, "__contains__")) if isinstance(v, float)]
    out.append(("onCurveTol", Fraction(fl[0]) if len(fl) == 1 else None))
    bc = find_class(cv, "BezierCurve")
    cl = find_func(bc, "clean")
    d = cl.args.defaults
    out.append(("cleanTol", Fraction(d[0].value) if d and isinstance(d[0], ast.Constant) and isinstance(d[0].value, float) else None))
    return out


def lean_rat(fr):
    if fr is None:
        return "none"
    return f"some (({fr.numerator} : Rat) / ({fr.denominator} : Rat))"


# ------------------------------------------------------------------ driver
HEADER = "/- GENERATED by harness/translate.py from /repo/src/shapepy — do not edit; regenerated on every run -/\n"


def regenerate(srcdir, gendir):
    msgs = []
    shape_src = os.path.join(srcdir, "shape.py")
    tree = ast.parse(open(shape_src).read())
    fname = "shape.py"
    out = [HEADER, "import ShapeVerif.Model.Dispatch\nset_option linter.unusedVariables false\n\nnamespace ShapeVerif.Gen\nopen ShapeVerif\n"]

    def emit(name, ty, thunk):
        try:
            out.append(f"def {name} : {ty} := {thunk()}\n")
        except Unsupported as e:
            msgs.append(f"{name}: unsupported construct: {e}")
            out.append(f"-- {name}: NOT TRANSLATED ({e})\n")
        except Exception as e:  # malformed source etc.
            msgs.append(f"{name}: translator error {e!r}")
            out.append(f"-- {name}: NOT TRANSLATED ({e!r})\n")

    base = find_class(tree, "BaseShape")
    emit("baseMethods", "Methods", lambda: "{ " + ", ".join(
        f"{k} := {simple_method(base, '__' + k + '__', fname)}" for k in ("neg", "add", "mul", "sub", "xor")) + " }")

    def singleton_ops(clsname):
        cls = find_class(tree, clsname)

        def get(op):
            t = simple_method(cls, f"__{op}__", fname)
            if t is None:   # inherited from BaseShape
                t = simple_method(base, f"__{op}__", fname)
            if t is None:
                raise Unsupported(f"{clsname}.__{op}__ not found")
            return t
        return "[" + ", ".join(f'("{op}", {get(op)})' for op in ("or", "and", "sub", "xor", "invert", "neg", "add", "mul")) + "]"

    emit("emptyOps", "List (String × Term)", lambda: singleton_ops("EmptyShape"))
    emit("wholeOps", "List (String × Term)", lambda: singleton_ops("WholeShape"))
    defined = find_class(tree, "DefinedShape")
    emit("definedOr", "Chain", lambda: chain(defined, "__or__", fname))
    emit("definedAnd", "Chain", lambda: chain(defined, "__and__", fname))
    simple = find_class(tree, "SimpleShape")
    emit("simpleTable (ccw boundary : Bool) (w2 : Int)", "Bool", lambda: simple_table(simple, fname))
    emit("connectedQuant", "Quant", lambda: quant_loop(find_class(tree, "ConnectedShape"), fname))
    emit("disjointQuant", "Quant", lambda: quant_loop(find_class(tree, "DisjointShape"), fname))
    out.append("\nend ShapeVerif.Gen\n")
    ch1 = write_if_changed(os.path.join(gendir, "Dispatch.lean"), "".join(out))

    # plot + consts
    out2 = [HEADER, "import ShapeVerif.Model.Plot\nset_option linter.unusedVariables false\n\nnamespace ShapeVerif.Gen\nopen ShapeVerif\n"]
    try:
        ptree = ast.parse(open(os.path.join(srcdir, "plot.py")).read())
        tbl = patch_table(ptree, "plot.py")
        out2.append("/-- degree ↦ (index of the first control point used, path code, number of codes, number of vertices) -/\n")
        out2.append("def patchTable : Nat → Option (Nat × PCode × Nat × Nat)\n" + tbl + "\n")
    except Unsupported as e:
        msgs.append(f"patchTable: unsupported construct: {e}")
        out2.append(f"-- patchTable: NOT TRANSLATED ({e})\n")
    except Exception as e:
        msgs.append(f"patchTable: translator error {e!r}")
        out2.append(f"-- patchTable: NOT TRANSLATED ({e!r})\n")
    try:
        for name, val in literal_consts(srcdir):
            out2.append(f"def {name} : Option Rat := {lean_rat(val)}\n")
    except Exception as e:
        msgs.append(f"consts: translator error {e!r}")
        out2.append(f"-- consts: NOT TRANSLATED ({e!r})\n")
    try:
        ctree = ast.parse(open(os.path.join(srcdir, "curve.py")).read())
        ip = find_class(ctree, "IntegratePlanar")
        out2.append("/-- default number of quadrature nodes of `IntegratePlanar.vertical(curve, a, b)` for a segment of degree `deg` -/\n")
        out2.append(f"def verticalNodes (a b deg : Nat) : Nat := {default_nodes(ip, 'vertical', 'curve.py')}\n")
        e1, e2, dv = moment_reduction(tree, "shape.py")
        out2.append("/-- `IntegrateShape.polynomial(S, a, b)` = (sum over curves of `vertical(curve, e1, e2)`) / divisor -/\n")
        out2.append(f"def momentExpX (a b : Nat) : Nat := {e1}\ndef momentExpY (a b : Nat) : Nat := {e2}\ndef momentDivisor (a b : Nat) : Nat := {dv}\n")
    except Unsupported as e:
        msgs.append(f"integrals: unsupported construct: {e}")
        out2.append(f"-- integrals: NOT TRANSLATED ({e})\n")
    except Exception as e:
        msgs.append(f"integrals: translator error {e!r}")
        out2.append(f"-- integrals: NOT TRANSLATED ({e!r})\n")
    try:
        jtree = ast.parse(open(os.path.join(srcdir, "jordancurve.py")).read())
        rm_none, (keep, none_kept) = intersection_filters(jtree, "jordancurve.py")
        out2.append("/-- `intersection(..., equal_beziers=False)` removes exactly the `(None, None)` entries -/\n")
        out2.append(f"def equalBeziersFilterRemovesNone : Bool := {rm_none}\n")
        out2.append("/-- `intersection(..., end_points=False)` KEEPS an entry iff this holds (`none` = `(None, None)`) -/\n")
        out2.append(f"def keepWithoutEndPoints : Option (Rat × Rat) → Bool\n  | none => {none_kept}\n  | some (u, v) => {keep}\n")
    except Unsupported as e:
        msgs.append(f"intersection filters: unsupported construct: {e}")
        out2.append(f"-- intersection filters: NOT TRANSLATED ({e})\n")
    except Exception as e:
        msgs.append(f"intersection filters: translator error {e!r}")
        out2.append(f"-- intersection filters: NOT TRANSLATED ({e!r})\n")
    try:
        prtree = ast.parse(open(os.path.join(srcdir, "primitive.py")).read())
        for nm, var in (("square", "side"), ("triangle", "side"), ("regular_polygon", "radius")):
            lean_nm = {"square": "squareVertices", "triangle": "triangleVertices", "regular_polygon": "regular4Vertices"}[nm]
            out2.append(f"/-- vertices of `Primitive.{nm}` (the `nsides == 4` branch for regular_polygon) as written in the source -/\n")
            out2.append(f"def {lean_nm} (s : Rat) (c : Pt) : List Pt := {primitive_vertices(prtree, nm, var, 'primitive.py')}\n")
    except Unsupported as e:
        msgs.append(f"primitives: unsupported construct: {e}")
        out2.append(f"-- primitives: NOT TRANSLATED ({e})\n")
    except Exception as e:
        msgs.append(f"primitives: translator error {e!r}")
        out2.append(f"-- primitives: NOT TRANSLATED ({e!r})\n")
    out2.append("\nend ShapeVerif.Gen\n")
    ch2 = write_if_changed(os.path.join(gendir, "Tables.lean"), "".join(out2))
    out4 = [HEADER, "import ShapeVerif.Model.Contain\nimport ShapeVerif.Model.Compose\nset_option linter.unusedVariables false\n\nnamespace ShapeVerif.Gen\nopen ShapeVerif\n"]
    try:
        tbl = contain_rules(tree, "shape.py")
        e, w = contains_shape_head(tree, "shape.py")
        out4.append("/-- which loop `<self kind>._contains_shape(other)` runs for each kind of `other` -/\n")
        out4.append("def containRule : CKind → CKind → Option CRule\n" + tbl + "\n")
        out4.append("/-- `DefinedShape.contains_shape`: answers for `other` Empty / Whole before the dispatch -/\n")
        out4.append(f"def containsEmptyAnswer : Bool := {e}\ndef containsWholeAnswer : Bool := {w}\n")
        out4.append("/-- `SimpleShape.__contains_simple` (is `other` = A inside `self` = B?) as a decision over its geometric tests: signs of the two areas, boxes apart,\n"
                    "`jordana in self`, `jordanb in other`, `areaA > areaB`, and the recursive answer for the complements -/\n")
        out4.append("def containsSimpleTable (aPos aNeg bPos bNeg boxApart jaIn jbIn aGtB recC : Bool) : Bool :=\n  " + contains_simple_table(tree, "shape.py") + "\n")
        out4.append("/-- the statements of `DisjointShape.__new__`, in source order -/\n")
        out4.append("def disjointNewSteps : List NewStep := " + disjoint_new_steps(tree, "shape.py") + "\n")
        out4.append("/-- how `~shape` is built for each kind -/\n")
        out4.append("def invertRule : CKind → InvRule\n" + invert_rules(tree, "shape.py") + "\n")
    except Unsupported as e:
        msgs.append(f"containRule: unsupported construct: {e}")
        out4.append(f"-- containRule: NOT TRANSLATED ({e})\n")
    except Exception as e:
        msgs.append(f"containRule: translator error {e!r}")
        out4.append(f"-- containRule: NOT TRANSLATED ({e!r})\n")
    out4.append("\nend ShapeVerif.Gen\n")
    ch4 = write_if_changed(os.path.join(gendir, "Contain.lean"), "".join(out4))
    from harness import translate_arith
    src3, msgs3 = translate_arith.regenerate(srcdir)
    msgs += msgs3
    ch3 = write_if_changed(os.path.join(gendir, "Arith.lean"), src3)
    src5, msgs5 = translate_arith.regenerate_integrals(srcdir)
    msgs += msgs5
    ch3 = write_if_changed(os.path.join(gendir, "Integrals.lean"), src5) or ch3
    if msgs:
        return False, "; ".join(msgs)
    return True, f"translated 24 table units and {src3.count(chr(10) + 'def ') + src5.count(chr(10) + 'def ')} arithmetic units from shape.py, plot.py, polygon.py, jordancurve.py, curve.py (changed: {ch1 or ch2 or ch3 or ch4})"
