"""Translator slice: Python AST of selected shapepy functions -> Lean data in lean/ShapeVerif/Gen/*.lean.
Regenerated on every run; files are rewritten only when their content changes (keeps lake's no-op fast)."""
import ast, os


def write_if_changed(path, text):
    os.makedirs(os.path.dirname(path), exist_ok=True)
    if os.path.exists(path) and open(path).read() == text:
        return False
    open(path, "w").write(text)
    return True


def regenerate(srcdir, gendir):
    return True, "no translated units yet"
