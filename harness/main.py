"""Entry point:  ./check --setup | ./check Cxx [--tier quick|thorough] [--replay file]"""
import argparse, fcntl, importlib, json, os, sys, time, traceback

sys.path.insert(0, os.path.dirname(os.path.dirname(os.path.abspath(__file__))))
from harness import core


def setup():
    ok, msg = core.translate()
    print("translate:", msg)
    okb, log, failed = core.lake_build(("ShapeVerif", "driver", "gendriver"))
    print(log[-3000:])
    if not okb:
        print("setup: lake build failed", failed)
        return 2
    return 0


def locked(fn):
    os.makedirs(os.path.join(core.LEAN, ".audit"), exist_ok=True)
    with open(os.path.join(core.LEAN, ".audit", "lock"), "w") as lk:
        fcntl.flock(lk, fcntl.LOCK_EX)
        try:
            return fn()
        finally:
            fcntl.flock(lk, fcntl.LOCK_UN)


def proof_side(pid, thorough):
    """regenerate Gen, build, grep, audit.  Returns a dict."""
    res = {"translate_ok": True, "build_ok": True, "broken": [], "axioms": {}, "theorems": []}
    tok, tmsg = core.translate()
    res["translate_ok"], res["translate_msg"] = tok, tmsg
    # (a unit the translator cannot render is left out of Gen/*.lean: exactly the properties whose theorems mention it then
    #  fail to build below - no other property is affected)
    # only the modules this property's theorems depend on (a broken obligation of another property is that property's business)
    okb, log, failed = core.lake_build(tuple(f"ShapeVerif.Props.{m}" for m in core.props_modules(pid)) + ("driver",))
    res["build_ok"] = okb
    if not okb:
        res["build_log_tail"] = log[-4000:]
        res["broken"] += [f"lake build: {m}" for m in failed] or ["lake build failed"]
    # optional: the driver of the regenerated definitions (translator fidelity test); not building is not an alarm by itself
    okg, _, _ = core.lake_build(("gendriver",))
    res["gendriver_ok"] = okg
    if not okg:
        try:
            os.remove(os.path.join(core.LEAN, ".lake", "build", "bin", "gendriver"))
        except OSError:
            pass
    hits = core.grep_forbidden()
    if hits:
        res["broken"] += [f"forbidden construct: {h}" for h in hits]
    names = core.props_theorems(pid)
    res["theorems"] = names
    if okb:
        ax, alog = core.audit(pid)
        res["axioms"] = ax
        for n in names:
            if n not in ax:
                res["broken"].append(f"theorem not checked: {n}")
            elif not set(ax[n]) <= core.ALLOWED_AXIOMS:
                res["broken"].append(f"theorem {n} uses axioms {ax[n]}")
        if thorough:
            rc, out = core.sh("lake env leanchecker " + " ".join(f"ShapeVerif.Props.{m}" for m in core.props_modules(pid)), cwd=core.LEAN, timeout=3000)
            res["leanchecker_rc"] = rc
            if rc != 0:
                res["broken"].append("leanchecker: " + out[-300:])
    return res


def main():
    ap = argparse.ArgumentParser()
    ap.add_argument("pid", nargs="?")
    ap.add_argument("--setup", action="store_true")
    ap.add_argument("--tier", default=os.environ.get("VERIF_TIER", "quick"))
    ap.add_argument("--replay")
    a = ap.parse_args()
    if a.setup:
        sys.exit(locked(setup))
    pid = a.pid
    tier = a.tier if a.tier in ("quick", "thorough") else "quick"
    seed = int(os.environ.get("VERIF_SEED", "0") or 0)
    replay = None
    if a.replay:
        replay = json.load(open(a.replay))
        seed, tier = replay.get("seed", seed), replay.get("tier", tier)
    t0 = time.time()
    ctx = core.Ctx(pid, tier, seed)
    try:
        proof = locked(lambda: proof_side(pid, tier == "thorough"))
    except Exception as e:
        print("infrastructure failure (proof side):", repr(e))
        traceback.print_exc()
        sys.exit(2)
    if not os.path.exists(core.DRIVER):
        print("infrastructure failure: model driver did not build")
        print(proof.get("build_log_tail", ""))
        sys.exit(2)
    sys.path.insert(0, os.path.join(core.REPO, "src"))
    mod = importlib.import_module(f"harness.props.{pid.lower()}")
    crash = None
    try:
        if replay and hasattr(mod, "replay"):
            mod.replay(ctx, replay)
        else:
            mod.run(ctx)
    except Exception as e:
        tb = traceback.format_exc()
        frames = traceback.extract_tb(e.__traceback__)
        in_lib = [f for f in frames if os.path.join(core.REPO, "src") in f.filename or "/shapepy/" in f.filename]
        if in_lib:
            # the library raised where the harness expected it to answer: that is an observation about the library, not a harness failure
            ctx.fail("library call raised unexpectedly inside the harness", {"where": f"{in_lib[-1].filename}:{in_lib[-1].lineno} in {in_lib[-1].name}", "harness_line": f"{frames[0].filename}:{frames[0].lineno}"},
                     got=repr(e), sig={"family": "unexpected-exception"})
            ctx.notes.append(tb[-1500:])
        else:
            crash = tb
    finally:
        if ctx._drv:
            ctx._drv.close()
    if crash:
        print("infrastructure failure (harness):")
        print(crash)
        sys.exit(2)
    wall = time.time() - t0
    names = proof["theorems"]
    discharged = sum(1 for n in names if n in proof["axioms"] and set(proof["axioms"][n]) <= core.ALLOWED_AXIOMS) if proof["build_ok"] else 0
    # known findings
    seen = {}
    for fid, what, rec in ctx.known_hits:
        seen.setdefault(fid, what)
    for fid, what in sorted(seen.items()):
        f = next(f for f in ctx.findings if f["id"] == fid)
        print(f"KNOWN-FINDING: property={pid} {fid} {f['title']}")
    violations = 0
    replay_path = None
    os.makedirs(os.path.join(core.VERIF, "replays"), exist_ok=True)
    if ctx.failures:
        violations = len(ctx.failures)
        replay_path = os.path.join("replays", f"{pid}-{tier}-{seed}.json")
        json.dump({"property": pid, "seed": seed, "tier": tier, "kind": "failing-input",
                   "failures": core.jsonable(ctx.failures[:20]),
                   "replay_cmd": f"./check {pid} --replay {replay_path}"},
                  open(os.path.join(core.VERIF, replay_path), "w"), indent=1)
        print(f"VIOLATION property={pid} replay={replay_path}")
        for r in ctx.failures[:5]:
            print("  ", r["what"], "|", json.dumps(core.jsonable(r["input"]))[:400], "| expected", core.jsonable(r["expected"]), "| got", core.jsonable(r["got"]))
    elif proof["broken"]:
        violations = 1
        replay_path = os.path.join("replays", f"{pid}-{tier}-{seed}.json")
        json.dump({"property": pid, "seed": seed, "tier": tier, "kind": "proof-or-correspondence-broken",
                   "no_longer_checks": proof["broken"], "build_log_tail": proof.get("build_log_tail", ""),
                   "searched": {"evaluations": ctx.evaluations, "distribution": ctx.dist},
                   "replay_cmd": f"./check {pid} --replay {replay_path}"},
                  open(os.path.join(core.VERIF, replay_path), "w"), indent=1)
        print(f"VIOLATION property={pid} replay={replay_path} no-failing-input-found")
        for b in proof["broken"][:8]:
            print("  ", b)
    ev = {
        "property_id": pid, "tier": tier, "seed": seed, "level": "proof",
        "coverage": {
            "obligations": max(len(names), 1), "discharged": discharged if names else 0,
            "checker_cmd": "cd lean && lake build ShapeVerif driver && lake env lean .audit/Audit_%s.lean  (#print axioms of every theorem of Props/%s.lean)" % (pid, pid),
            "trusted_base": core.TRUSTED_BASE,
            "theorems": [{"name": n, "axioms": proof["axioms"].get(n)} for n in names],
            "partial": [n for n in names if n.endswith("_partial")],
            "translator": proof.get("translate_msg"),
            "proof_side_broken": proof["broken"],
            "evaluations": ctx.evaluations,
            "distinct_nontrivial": len(ctx.keys),
            "rule": getattr(mod, "RULE", ""),
            "samples": core.jsonable(ctx.samples) or ["(no sample recorded)"],
            "input_distribution": ctx.dist,
            "known_findings_hit": sorted(seen),
            "model_queries": ctx._drv.n if ctx._drv else 0,
            "notes": ctx.notes,
        },
        "assumptions": getattr(mod, "ASSUMPTIONS", []),
        "wall_s": round(wall, 2),
        "violations": violations,
    }
    os.makedirs(os.path.join(core.VERIF, "evidence"), exist_ok=True)
    json.dump(ev, open(os.path.join(core.VERIF, "evidence", f"{pid}.json"), "w"), indent=1)
    print(f"{pid} tier={tier} seed={seed}: theorems {discharged}/{len(names)}, cases {ctx.evaluations} (distinct non-trivial {len(ctx.keys)}), "
          f"known-finding hits {len(ctx.known_hits)}, violations {violations}, {wall:.1f}s")
    sys.exit(1 if violations else 0)


if __name__ == "__main__":
    main()
