"""Random operation histories over a store of closed polygons, run on the real JordanCurve objects and on the
Lean heap model (object identity, shared junction points, cached signed length, in-place split)."""
import copy, math
from fractions import Fraction as F
from harness import core, gen, shapes


def rand_history(rng, length, nvars=3, with_rot=False):
    ops = []
    live = []
    for step in range(length):
        if not live or (len(live) < nvars and rng.random() < 0.25):
            v = len(live)
            vs = shapes.rand_simple_vs(rng, rng.randint(-5, 5), rng.randint(-5, 5), R=rng.choice([3, 5]), n=rng.randint(3, 6))
            if rng.random() < 0.3:
                vs = vs[::-1]
            ops.append(("poly", v, vs)); live.append(v); continue
        v = rng.choice(live)
        k = rng.random()
        if k < 0.18:
            ops.append(("move", v, gen.pt(rng, -6, 6)))
        elif k < 0.32:
            sx, sy = F(rng.choice([1, 2, 3, 1, 1])) / rng.choice([1, 2, 3]), F(rng.choice([1, 2, 3])) / rng.choice([1, 2])
            sgn = rng.choice([(1, 1), (1, 1), (-1, -1), (-1, 1), (1, -1)])      # mirrors and point reflections are legal in-place scalings
            if sgn == (-1, -1) and rng.random() < 0.5:
                sy = sx                                                          # uniform negative factor
            ops.append(("scale", v, sgn[0] * sx, sgn[1] * sy))
        elif k < 0.40 and with_rot:
            ops.append(("rot", v, rng.choice([90, 180, 270])))
        elif k < 0.50:
            ops.append(("invert", v))
        elif k < 0.72:
            ops.append(("len", v))
        elif k < 0.82 and len(live) < nvars + 1:
            d = len(live); live.append(d)
            ops.append((rng.choice(["copy", "deepcopy", "adopt"]), d, v))
        elif k < 0.92:
            ops.append(("split", v, None))   # parameters chosen at run time from the current number of segments
        else:
            ops.append(("len", v))
    return ops


ROT = {90: (0, 1), 180: (-1, 0), 270: (0, -1)}


def signed_length(g):
    """signed length of a polygon geometry (list of 2-point segments), as float(jordan) computes it"""
    L = sum(math.sqrt(float((s[1][0] - s[0][0]) ** 2 + (s[1][1] - s[0][1]) ** 2)) for s in g)
    A = sum((s[0][0] + s[1][0]) * (s[1][1] - s[0][1]) for s in g) / 2
    return L if A > 0 else -L


def run_real(rng, ops, on_step=None):
    """executes the history on real objects; returns (objects, transcript of model ops, outputs)"""
    from shapepy import JordanCurve, SimpleShape
    objs = {}
    mops, outs = [], []
    for op in ops:
        kind = op[0]
        if kind == "poly":
            objs[op[1]] = JordanCurve.from_vertices([tuple(p) for p in op[2]])
            mops.append(f"poly {op[1]} {core.elist(op[2], core.ept)}"); outs.append(None)
        elif kind == "move":
            r = objs[op[1]].move(op[2]); assert r is objs[op[1]]
            mops.append(f"move {op[1]} {core.ept(op[2])}"); outs.append(None)
        elif kind == "scale":
            r = objs[op[1]].scale(op[2], op[3]); assert r is objs[op[1]]
            mops.append(f"scale {op[1]} {core.er(op[2])} {core.er(op[3])}"); outs.append(None)
        elif kind == "rot":
            objs[op[1]].rotate(op[2], degrees=True)
            c, s = ROT[op[2]]
            mops.append(f"rot {op[1]} {c} {s}"); outs.append(None)
        elif kind == "invert":
            objs[op[1]].invert()
            mops.append(f"invert {op[1]}"); outs.append(None)
        elif kind in ("copy", "deepcopy"):
            objs[op[1]] = copy.copy(objs[op[2]]) if kind == "copy" else copy.deepcopy(objs[op[2]])
            mops.append(f"copy {op[1]} {op[2]}"); outs.append(None)
        elif kind == "adopt":
            objs[op[1]] = SimpleShape(objs[op[2]]).jordans[0]
            mops.append(f"adopt {op[1]} {op[2]}"); outs.append(None)
        elif kind == "len":
            outs.append(float(objs[op[1]]))
            mops.append(f"len {op[1]}")
        elif kind == "split":
            j = objs[op[1]]
            n = len(j.segments)
            k = rng.randint(1, 3)
            pairs = [(rng.randrange(n), rng.choice([gen.param(rng, dens=(2, 3, 4)), F(0), F(1), F(1, 2)])) for _ in range(k)]
            j.split([p[0] for p in pairs], [p[1] for p in pairs])
            mops.append(f"split {op[1]} " + core.elist(pairs, lambda p: f"{p[0]} {core.er(p[1])}")); outs.append(None)
        if on_step:
            on_step(op, objs)
    return objs, mops, outs


def parse_model(ans):
    """'o1 ; o2 ; ... || v geom ; v geom || sep=T cache=T' -> (per-op outputs, {v: geom}, sep, cache)"""
    a, b, c = ans.split(" || ")
    outs = a.split(" ; ")
    vars_ = {}
    for part in b.split(" ; "):
        part = part.strip()
        if not part:
            continue
        t = core.Toks(part)
        v = t.nat()
        vars_[v] = t.jordan()
    flags = dict(x.split("=") for x in c.split())
    return outs, vars_, flags["sep"] == "T", flags["cache"] == "T"
