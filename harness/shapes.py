"""Shapes of every kind built DIRECTLY (constructors, not operators), with nesting known by construction."""
from fractions import Fraction as F
from harness import gen, core


def simple(vs):
    from shapepy import JordanCurve, SimpleShape
    return SimpleShape(JordanCurve.from_vertices([tuple(v) for v in vs]))


def ccw(vs):
    return vs if gen.area2(vs) > 0 else vs[::-1]


def cw(vs):
    return vs if gen.area2(vs) < 0 else vs[::-1]


def rand_simple_vs(rng, cx=0, cy=0, R=8, n=None):
    return ccw(gen.star_polygon(rng, n or rng.randint(3, 8), R, cx, cy))


def holed_vs(rng, cx=0, cy=0, nholes=None):
    """outer star polygon (min radius 0.45*8=3.6) and 1-2 small holes well inside, pairwise apart"""
    outer = rand_simple_vs(rng, cx, cy, R=8, n=rng.randint(5, 9))
    k = nholes or rng.randint(1, 2)
    centers = [(-F(3, 2), F(1, 4)), (F(3, 2), -F(1, 3))][:k] if k == 2 else [(F(rng.randint(-2, 2), 4), F(rng.randint(-2, 2), 4))]
    holes = [cw(gen.star_polygon(rng, rng.randint(3, 6), 1, cx + hx, cy + hy, den=8)) for hx, hy in centers]
    return outer, holes


def make(rng, kind, cx=0, cy=0, drv=None):
    """like make_raw, but (when a model driver is given) re-draws until the Lean model accepts the shape as well formed"""
    for _ in range(50):
        s, d = make_raw(rng, kind, cx, cy)
        # a composite whose own curves touch each other (a vertex of a hole exactly on the outer boundary, …) is a well-formed shape for the model but
        # a NON-transversal configuration for the operators (finding K2): such operands are exercised by the deterministic corpus only
        if d[0] in ("C", "D"):
            curves = d[1] if d[0] == "C" else [vs for c in d[1] for vs in c]
            if gen.contacts(curves):
                continue
        if drv is None or d[0] in ("E", "W") or drv.ask("wf " + enc_desc(d)) == "":
            return s, d
    raise RuntimeError("could not generate a well-formed " + kind)


def make_raw(rng, kind, cx=0, cy=0):
    """returns (shape, description) where description = ('S', vs) | ('C', [vs...]) | ('D', [[vs...], ...]) | ('E',) | ('W',)"""
    from shapepy import ConnectedShape, DisjointShape, EmptyShape, WholeShape
    if kind == "empty":
        return EmptyShape(), ("E",)
    if kind == "whole":
        return WholeShape(), ("W",)
    if kind == "simple":
        vs = rand_simple_vs(rng, cx, cy)
        return simple(vs), ("S", vs)
    if kind == "simple-inv":
        vs = cw(rand_simple_vs(rng, cx, cy))
        return simple(vs), ("S", vs)
    if kind == "connected":
        outer, holes = holed_vs(rng, cx, cy)
        return ConnectedShape([simple(outer)] + [simple(h) for h in holes]), ("C", [outer] + holes)
    if kind == "connected-unbounded":
        # the plane minus two far-apart polygons
        a = cw(rand_simple_vs(rng, cx - 12, cy, R=4))
        b = cw(rand_simple_vs(rng, cx + 12, cy, R=4))
        return ConnectedShape([simple(a), simple(b)]), ("C", [a, b])
    if kind == "disjoint":
        a = rand_simple_vs(rng, cx - 12, cy, R=5)
        outer, holes = holed_vs(rng, cx + 12, cy, nholes=1)
        comp2 = ConnectedShape([simple(outer)] + [simple(h) for h in holes])
        return DisjointShape([simple(a), comp2]), ("D", [[a], [outer] + holes])
    raise ValueError(kind)


KINDS = ["simple", "simple-inv", "connected", "connected-unbounded", "disjoint", "empty", "whole"]
DEFINED = ["simple", "simple-inv", "connected", "connected-unbounded", "disjoint"]


def enc_desc(d):
    """model tokens of a description"""
    if d[0] == "E":
        return "E"
    if d[0] == "W":
        return "W"
    if d[0] == "S":
        return "S " + core.epoly(d[1])
    if d[0] == "C":
        return "C " + core.elist(d[1], core.epoly)
    return "D " + core.elist(d[1], lambda c: core.elist(c, core.epoly))


def map_desc(d, f):
    if d[0] in ("E", "W"):
        return d
    if d[0] == "S":
        return ("S", [f(p) for p in d[1]])
    if d[0] == "C":
        return ("C", [[f(p) for p in vs] for vs in d[1]])
    return ("D", [[[f(p) for p in vs] for vs in c] for c in d[1]])


def desc_points(d):
    if d[0] in ("E", "W"):
        return []
    if d[0] == "S":
        return list(d[1])
    if d[0] == "C":
        return [p for vs in d[1] for p in vs]
    return [p for c in d[1] for vs in c for p in vs]


def point_ids(shape):
    """ids of all Point2D objects reachable from a shape / curve"""
    out = set()
    js = getattr(shape, "jordans", None)
    if js is None:
        js = [shape] if hasattr(shape, "segments") else []
    for j in js:
        for s in j.segments:
            for p in s.ctrlpoints:
                out.add(id(p))
    return out


def geom(j):
    """exact control polygons of a curve"""
    return [[(p[0], p[1]) for p in s.ctrlpoints] for s in j.segments]


def vary_history(rng, S, d, variant=None):
    """Returns (object, variant name): an object denoting the SAME region as description `d`, but reached through a history of
    queries and in-place operations (warm caches, moved away and back, scaled and back, complemented in place, refined by split).
    Every step is exact for rational data.  Stale per-object state shows up as a difference from the freshly built `S`."""
    from shapepy import SimpleShape
    variants = ["fresh", "warm", "move-back", "scale-back", "split", "warm-transform-warm", "reflected-in-place", "reflected-in-place", "scaled-in-place"]
    if d[0] == "S":
        variants += ["invert-twice", "complement-inverted-in-place"]
    v = variant or rng.choice(variants)
    probe = (F(1, 3), F(2, 7))

    def warm(X):
        float(X); X.box(); probe in X
        for j in X.jordans:
            float(j); j.box()
        for sub in getattr(X, "subshapes", ()):
            float(sub); sub.box(); probe in sub
    if v == "fresh":
        return S, v
    if v == "warm":
        warm(S)
    elif v == "move-back":
        warm(S); S.move(F(7, 2), -5); warm(S); S.move(-F(7, 2), 5)
    elif v == "scale-back":
        warm(S); S.scale(F(3, 2), 2); warm(S); S.scale(F(2, 3), F(1, 2))
    elif v == "warm-transform-warm":
        warm(S); S.scale(-2, -2); warm(S); S.move(1, 1); warm(S); S.move(-1, -1); S.scale(-F(1, 2), -F(1, 2))
    elif v == "split":
        for j in S.jordans:
            k = len(j.segments)
            j.split([rng.randrange(k), rng.randrange(k)], [F(1, 2), F(1, 4)])
    elif v == "invert-twice":
        warm(S); S.invert(); warm(S); S.invert()
    elif v == "reflected-in-place":
        # the point-reflected twin is built, used (caches of shape, sub-shapes and curves warm), and reflected onto the description in place:
        # the history does NOT return through the states it came from (a negative factor swaps the corners of any cached box)
        from harness.props.c04 import rebuild
        X = rebuild(map_desc(d, lambda p: (-p[0], -p[1])))
        warm(X); X.scale(-1, -1)
        return X, v
    elif v == "scaled-in-place":
        # a twin drawn at another size and place, used, then brought onto the description in place (a net change of area: nothing returns to a cached state)
        from harness.props.c04 import rebuild
        X = rebuild(map_desc(d, lambda p: ((F(p[0]) - 3) / 2, (F(p[1]) + 5) / 4)))
        warm(X); X.scale(2, 4); warm(X); X.move(3, -5)
        return X, v
    elif v == "complement-inverted-in-place":
        X = simple(d[1][::-1])
        warm(X); X.invert()
        return X, v
    return S, v


def warm_transform(rng, S, d, others=(), force_reflect=False):
    """warm every cache of S (and of `others`, transformed along), then apply a random exact orientation-preserving in-place
    transformation sequence WITHOUT undoing it.  Returns (S, transformed description, map on points).  Stale per-object state
    (cached area / box / length / derivative of the shape or of its sub-shapes and curves) shows up against the description."""
    probe = (F(1, 3), F(2, 7))

    def warm(X):
        float(X); X.box(); probe in X
        for j in X.jordans:
            float(j); j.box()
        for sub in getattr(X, "subshapes", ()):
            float(sub); sub.box(); probe in sub
    seq = []
    for _ in range(rng.randint(1, 3)):
        k = rng.random()
        if k < 0.4:
            seq.append(("move", F(rng.randint(-12, 12), rng.choice([1, 2])), F(rng.randint(-12, 12))))
        elif k < 0.8:
            seq.append(("scale", F(rng.choice([1, 2, 3, 5]), rng.choice([1, 2, 3])), F(rng.choice([1, 2, 3]), rng.choice([1, 2]))))
        else:
            kk = F(rng.choice([-3, -2, -1]), rng.choice([1, 2]))
            seq.append(("scale", kk, kk))
    if force_reflect:
        kk = F(rng.choice([-3, -2, -1]), rng.choice([1, 2]))
        seq.append(("scale", kk, kk))          # a point reflection: orientation is preserved, every cached signed quantity must follow
    for X in (S,) + tuple(others):
        warm(X)
        for t in seq:
            (X.move if t[0] == "move" else X.scale)(t[1], t[2])
            warm(X)

    def T(p):
        for t in seq:
            p = (p[0] + t[1], p[1] + t[2]) if t[0] == "move" else (p[0] * t[1], p[1] * t[2])
        return p
    return S, map_desc(d, T), T, seq
