/-
Line-protocol driver for the definitions REGENERATED from the Python source (`Gen/Arith.lean`, `Gen/Contain.lean`).
Used by harness/fidelity.py: the generated Lean functions and the real Python functions they were translated from are run on
the same inputs and must agree — a differential test of the translator itself (the theorems are about the generated
terms; this ties the generated terms back to the running code).  Built as the optional executable `gendriver`: when a unit
is outside the translator's grammar this file does not build, the fidelity test is skipped and the affected theorems are
already reported as not re-checked by the proof side.
-/
import ShapeVerif.Gen.Arith
import ShapeVerif.Gen.Contain

open ShapeVerif

abbrev P := StateT (List String) Option

def tok : P String := do
  match (← get) with
  | [] => failure
  | t :: rest => set rest; pure t

def pNat : P Nat := do
  let t ← tok
  match t.toNat? with
  | some n => pure n
  | none => failure

def pRat : P Rat := do
  let t ← tok
  match t.splitOn "/" with
  | [n] => match n.toInt? with
    | some i => pure (i : Rat)
    | none => failure
  | [n, d] => match n.toInt?, d.toNat? with
    | some i, some k => if k = 0 then failure else pure (mkRat i k)
    | _, _ => failure
  | _ => failure

def pPt : P Pt := do
  let x ← pRat
  let y ← pRat
  pure ⟨x, y⟩

def pList {α} (p : P α) : P (List α) := do
  let n ← pNat
  let rec go : Nat → List α → P (List α)
    | 0, acc => pure acc.reverse
    | k + 1, acc => do
      let a ← p
      go k (a :: acc)
  go n []

def pKind : P CKind := do
  let t ← tok
  match t with
  | "simple" => pure .simple | "connected" => pure .connected | "disjoint" => pure .disjoint
  | _ => failure

def sRat (r : Rat) : String := if r.den = 1 then toString r.num else s!"{r.num}/{r.den}"
def sBool (b : Bool) : String := if b then "T" else "F"
def sPt (p : Pt) : String := s!"{sRat p.x} {sRat p.y}"
def sRule : Option CRule → String
  | some .leaf => "leaf" | some .allSelf => "allSelf" | some .anySelf => "anySelf"
  | some .allOther => "allOther" | some .anyComplOther => "anyComplOther" | none => "none"

def answer : P String := do
  let op ← tok
  match op with
  | "inner" => do let p ← pPt; let q ← pPt; pure (sRat (Gen.inner p q))
  | "cross" => do let p ← pPt; let q ← pPt; pure (sRat (Gen.cross p q))
  | "pteq" => do let p ← pPt; let q ← pPt; pure (sBool (Gen.ptEq p q))
  | "move" => do let p ← pPt; let v ← pPt; pure (sPt (Gen.ptMove p v))
  | "scale" => do let p ← pPt; let a ← pRat; let b ← pRat; pure (sPt (Gen.ptScale p a b))
  | "boxin" => do let lo ← pPt; let hi ← pPt; let p ← pPt; pure (sBool (Gen.boxContains lo hi p))
  | "boxdisj" => do let a ← pPt; let b ← pPt; let c ← pPt; let d ← pPt; pure (sBool (Gen.boxDisjoint a b c d))
  | "comb" => do let n ← pNat; let i ← pNat; pure (toString (Gen.comb n i))
  | "horner" => do let t ← pRat; let cs ← pList pRat; pure (sRat (Gen.horner t cs))
  | "caract" => do let d ← pNat; let i ← pNat; let j ← pNat; pure (toString (Gen.caractEntry d i j))
  | "open" => do let n ← pNat; pure (" ".intercalate ((Gen.openLinspace n).map sRat))
  | "closed" => do let n ← pNat; pure (" ".intercalate ((Gen.closedLinspace n).map sRat))
  | "lines" => do
    let a0 ← pPt; let a1 ← pPt; let b0 ← pPt; let b1 ← pPt
    match Gen.linesInter a0 a1 b0 b1 with
    | none => pure "none"
    | some (u, v) => pure s!"{sRat u} {sRat v}"
  | "crule" => do let a ← pKind; let b ← pKind; pure (sRule (Gen.containRule a b))
  | _ => failure

def step (line : String) : String :=
  let toks := (line.splitOn " ").filter (· ≠ "")
  match (answer.run toks) with
  | some (out, []) => out
  | _ => "bad-op"

partial def loop (h : IO.FS.Stream) (o : IO.FS.Stream) : IO Unit := do
  let line ← h.getLine
  if line.isEmpty then return ()
  o.putStrLn (step (line.dropRightWhile (· == '\n')))
  o.flush
  loop h o

def main : IO Unit := do loop (← IO.getStdin) (← IO.getStdout)
