def hello := "world"
