/-
Ground truth for the crossing-number membership: TRIANGLES, in full generality (every position of the
vertices and of the query point, vertical edges and abscissae equal to a vertex abscissa included).

Route: the contribution of an edge `p → q` to the crossing number at `x` depends only on the two
propositions `p.x ≤ x.x`, `q.x ≤ x.x` and on the sign of `triCross p q x` (`contrib_tri`).  The three
`triCross` values of a point are its (unnormalised) barycentric coordinates: they add up to
`triCross p q r` and reproduce the abscissa (`tri_sum`, `tri_bary`).  What remains is a statement about
seven rationals (`core_inside`, `core_outside`).
-/
import ShapeVerif.Proofs.Geom
import ShapeVerif.Proofs.Quadrature
import Mathlib.Tactic.Ring
import Mathlib.Tactic.Linarith
import Mathlib.Tactic.LinearCombination

namespace ShapeVerif
open ShapeVerif.Geom

namespace Tri

/-- contribution of an edge in terms of "start is left of (or at) the point", "end is left of (or at) the
point" and the side `h` of the point with respect to the directed edge -/
def g (U V : Prop) [Decidable U] [Decidable V] (h : Rat) : Int :=
  if U ∧ ¬ V ∧ 0 < h then 1 else if V ∧ ¬ U ∧ h < 0 then -1 else 0

theorem g_same {U V : Prop} [Decidable U] [Decidable V] (h : Rat) (huv : U ↔ V) : g U V h = 0 := by
  unfold g
  rw [if_neg (fun hh => hh.2.1 (huv.mp hh.1)), if_neg (fun hh => hh.2.1 (huv.mpr hh.1))]

theorem g_up {U V : Prop} [Decidable U] [Decidable V] (h : Rat) (hu : U) (hv : ¬ V) :
    g U V h = if 0 < h then 1 else 0 := by
  unfold g
  by_cases hh : 0 < h
  · rw [if_pos ⟨hu, hv, hh⟩, if_pos hh]
  · rw [if_neg (fun k => hh k.2.2), if_neg (fun k => hv k.1), if_neg hh]

theorem g_down {U V : Prop} [Decidable U] [Decidable V] (h : Rat) (hu : ¬ U) (hv : V) :
    g U V h = if h < 0 then -1 else 0 := by
  unfold g
  by_cases hh : h < 0
  · rw [if_neg (fun k => hu k.1), if_pos ⟨hv, hu, hh⟩, if_pos hh]
  · rw [if_neg (fun k => hu k.1), if_neg (fun k => hh k.2.2), if_neg hh]

theorem ite_cancel {P Q : Prop} [Decidable P] [Decidable Q] (h : P ↔ Q) :
    (if P then (1 : Int) else 0) + (if Q then -1 else 0) = 0 := by
  by_cases hp : P
  · rw [if_pos hp, if_pos (h.mp hp)]; rfl
  · rw [if_neg hp, if_neg (fun k => hp (h.mpr k))]; rfl

theorem ite_cancel' {P Q : Prop} [Decidable P] [Decidable Q] (h : P ↔ Q) :
    (if Q then (-1 : Int) else 0) + (if P then 1 else 0) = 0 := by
  rw [Int.add_comm]; exact ite_cancel h

theorem cross_eq_triCross (p q x : Pt) : Pt.cross (q - p) (x - p) = triCross p q x := by
  simp only [Pt.cross, Pt.sub_x, Pt.sub_y, triCross]

theorem contrib_tri (p q x : Pt) :
    contrib ⟨p, q⟩ x = g (p.x ≤ x.x) (q.x ≤ x.x) (triCross p q x) := by
  rw [contrib_cross, cross_eq_triCross]
  unfold g
  by_cases h1 : p.x < q.x
  · rw [if_pos h1]
    by_cases h2 : p.x ≤ x.x ∧ x.x < q.x ∧ 0 < triCross p q x
    · rw [if_pos h2, if_pos ⟨h2.1, not_le.mpr h2.2.1, h2.2.2⟩]
    · rw [if_neg h2, if_neg (fun k => h2 ⟨k.1, not_le.mp k.2.1, k.2.2⟩), if_neg]
      intro k; exact k.2.1 (le_trans (le_of_lt h1) k.1)
  · rw [if_neg h1]
    by_cases h3 : q.x < p.x
    · rw [if_pos h3]
      have hn : ¬ (p.x ≤ x.x ∧ ¬ q.x ≤ x.x ∧ 0 < triCross p q x) :=
        fun k => k.2.1 (le_trans (le_of_lt h3) k.1)
      by_cases h2 : q.x ≤ x.x ∧ x.x < p.x ∧ triCross p q x < 0
      · have hp : q.x ≤ x.x ∧ ¬ p.x ≤ x.x ∧ triCross p q x < 0 := ⟨h2.1, not_le.mpr h2.2.1, h2.2.2⟩
        rw [if_pos h2, if_neg hn, if_pos hp]
      · have hp : ¬ (q.x ≤ x.x ∧ ¬ p.x ≤ x.x ∧ triCross p q x < 0) :=
          fun k => h2 ⟨k.1, not_le.mp k.2.1, k.2.2⟩
        rw [if_neg h2, if_neg hn, if_neg hp]
    · rw [if_neg h3]
      have he : p.x = q.x := le_antisymm (not_lt.mp h3) (not_lt.mp h1)
      rw [he, if_neg (fun k => k.2.1 k.1), if_neg (fun k => k.2.1 k.1)]

theorem tri_sum (p q r x : Pt) :
    triCross p q x + triCross q r x + triCross r p x = triCross p q r := by
  unfold triCross; ring

/-- the abscissa of `x` from its barycentric coordinates -/
theorem tri_bary (p q r x : Pt) :
    triCross p q r * x.x = triCross q r x * p.x + triCross r p x * q.x + triCross p q x * r.x := by
  unfold triCross; ring

theorem tri_ne (p q r : Pt) (h : triCross p q r ≠ 0) : ¬ (p.x = q.x ∧ q.x = r.x) := by
  rintro ⟨h1, h2⟩
  apply h
  unfold triCross
  rw [← h2, ← h1]; ring

/-! ### the statement about seven rationals

`a b c` are the abscissae of the vertices, `t` the abscissa of the point, `h1 h2 h3` the sides of the point
with respect to `p → q`, `q → r`, `r → p`. -/

section core
variable {a b c t h1 h2 h3 T : Rat}

/-- vertex `a` alone is left of the point: the edges `a → b` (up) and `c → a` (down) are met, both or none -/
theorem type1 (hT : 0 < T) (hs : h1 + h2 + h3 = T) (hb : T * t = h2 * a + h3 * b + h1 * c)
    (hout : h1 < 0 ∨ h2 < 0 ∨ h3 < 0) (hA : a ≤ t) (hB : t < b) (hC : t < c) :
    0 < h1 ↔ h3 < 0 := by
  have Ea : T * (t - a) = h3 * (b - a) + h1 * (c - a) := by linear_combination hb + a * hs
  have Eb : T * (t - b) = h2 * (a - b) + h1 * (c - b) := by linear_combination hb + b * hs
  have Ec : T * (t - c) = h2 * (a - c) + h3 * (b - c) := by linear_combination hb + c * hs
  have hab : 0 < b - a := by linarith
  have hac : 0 < c - a := by linarith
  constructor
  · intro p1
    by_contra n3
    have n3 : 0 ≤ h3 := not_lt.mp n3
    have n2 : h2 < 0 := by
      rcases hout with h | h | h
      · linarith
      · exact h
      · linarith
    have k2 : 0 < (-h2) * (b - a) := mul_pos (by linarith) hab
    have k2' : 0 < (-h2) * (c - a) := mul_pos (by linarith) hac
    rcases le_total b c with hbc | hbc
    · have k1 : 0 ≤ h1 * (c - b) := mul_nonneg (le_of_lt p1) (by linarith)
      have k3 : 0 < T * (b - t) := mul_pos hT (by linarith)
      linarith
    · have k1 : 0 ≤ h3 * (b - c) := mul_nonneg n3 (by linarith)
      have k3 : 0 < T * (c - t) := mul_pos hT (by linarith)
      linarith
  · intro p3
    by_contra n1
    have n1 : h1 ≤ 0 := not_lt.mp n1
    have k1 : 0 < (-h3) * (b - a) := mul_pos (by linarith) hab
    have k2 : 0 ≤ (-h1) * (c - a) := mul_nonneg (by linarith) (le_of_lt hac)
    have k3 : 0 ≤ T * (t - a) := mul_nonneg (le_of_lt hT) (by linarith)
    linarith

/-- vertex `c` alone is right of the point: the edges `b → c` (up) and `c → a` (down) are met, both or none -/
theorem type2 (hT : 0 < T) (hs : h1 + h2 + h3 = T) (hb : T * t = h2 * a + h3 * b + h1 * c)
    (hout : h1 < 0 ∨ h2 < 0 ∨ h3 < 0) (hA : a ≤ t) (hB : b ≤ t) (hC : t < c) :
    0 < h2 ↔ h3 < 0 := by
  have Ea : T * (t - a) = h3 * (b - a) + h1 * (c - a) := by linear_combination hb + a * hs
  have Eb : T * (t - b) = h2 * (a - b) + h1 * (c - b) := by linear_combination hb + b * hs
  have Ec : T * (t - c) = h2 * (a - c) + h3 * (b - c) := by linear_combination hb + c * hs
  have hac : 0 < c - a := by linarith
  have hbc : 0 < c - b := by linarith
  constructor
  · intro p2
    by_contra n3
    have n3 : 0 ≤ h3 := not_lt.mp n3
    have n1 : h1 < 0 := by
      rcases hout with h | h | h
      · exact h
      · linarith
      · linarith
    have k1 : 0 < (-h1) * (c - a) := mul_pos (by linarith) hac
    have k1' : 0 < (-h1) * (c - b) := mul_pos (by linarith) hbc
    rcases le_total a b with hab | hab
    · have k2 : 0 ≤ h2 * (b - a) := mul_nonneg (le_of_lt p2) (by linarith)
      have k3 : 0 ≤ T * (t - b) := mul_nonneg (le_of_lt hT) (by linarith)
      linarith
    · have k2 : 0 ≤ h3 * (a - b) := mul_nonneg n3 (by linarith)
      have k3 : 0 ≤ T * (t - a) := mul_nonneg (le_of_lt hT) (by linarith)
      linarith
  · intro p3
    by_contra n2
    have n2 : h2 ≤ 0 := not_lt.mp n2
    have k1 : 0 < (-h3) * (c - b) := mul_pos (by linarith) hbc
    have k2 : 0 ≤ (-h2) * (c - a) := mul_nonneg (by linarith) (le_of_lt hac)
    have k3 : 0 < T * (c - t) := mul_pos hT (by linarith)
    linarith

theorem core_outside (hT : 0 < T) (hs : h1 + h2 + h3 = T) (hb : T * t = h2 * a + h3 * b + h1 * c)
    (hout : h1 < 0 ∨ h2 < 0 ∨ h3 < 0) :
    g (a ≤ t) (b ≤ t) h1 + g (b ≤ t) (c ≤ t) h2 + g (c ≤ t) (a ≤ t) h3 = 0 := by
  -- the two rotations of the hypotheses
  have hs' : h2 + h3 + h1 = T := by linarith
  have hb' : T * t = h3 * b + h1 * c + h2 * a := by linarith
  have hout' : h2 < 0 ∨ h3 < 0 ∨ h1 < 0 := by
    rcases hout with h | h | h
    · exact Or.inr (Or.inr h)
    · exact Or.inl h
    · exact Or.inr (Or.inl h)
  have hs'' : h3 + h1 + h2 = T := by linarith
  have hb'' : T * t = h1 * c + h2 * a + h3 * b := by linarith
  have hout'' : h3 < 0 ∨ h1 < 0 ∨ h2 < 0 := by
    rcases hout with h | h | h
    · exact Or.inr (Or.inl h)
    · exact Or.inr (Or.inr h)
    · exact Or.inl h
  by_cases hA : a ≤ t <;> by_cases hB : b ≤ t <;> by_cases hC : c ≤ t
  · rw [g_same h1 (iff_of_true hA hB), g_same h2 (iff_of_true hB hC), g_same h3 (iff_of_true hC hA)]; rfl
  · -- a, b left; c right
    rw [g_same h1 (iff_of_true hA hB), g_up h2 hB hC, g_down h3 hC hA, Int.zero_add]
    exact ite_cancel (type2 hT hs hb hout hA hB (not_le.mp hC))
  · -- c, a left; b right  (rotation'' : (c, a, b), (h3, h1, h2))
    rw [g_up h1 hA hB, g_down h2 hB hC, g_same h3 (iff_of_true hC hA), Int.add_zero]
    exact ite_cancel (type2 hT hs'' hb'' hout'' hC hA (not_le.mp hB))
  · -- a left; b, c right
    rw [g_up h1 hA hB, g_same h2 (iff_of_false hB hC), g_down h3 hC hA, Int.add_zero]
    exact ite_cancel (type1 hT hs hb hout hA (not_le.mp hB) (not_le.mp hC))
  · -- b, c left; a right  (rotation' : (b, c, a), (h2, h3, h1))
    rw [g_down h1 hA hB, g_same h2 (iff_of_true hB hC), g_up h3 hC hA, Int.add_zero]
    exact ite_cancel' (type2 hT hs' hb' hout' hB hC (not_le.mp hA))
  · -- b left; c, a right  (rotation')
    rw [g_down h1 hA hB, g_up h2 hB hC, g_same h3 (iff_of_false hC hA), Int.add_zero]
    exact ite_cancel' (type1 hT hs' hb' hout' hB (not_le.mp hC) (not_le.mp hA))
  · -- c left; a, b right  (rotation'')
    rw [g_same h1 (iff_of_false hA hB), g_down h2 hB hC, g_up h3 hC hA, Int.zero_add]
    exact ite_cancel' (type1 hT hs'' hb'' hout'' hC (not_le.mp hA) (not_le.mp hB))
  · rw [g_same h1 (iff_of_false hA hB), g_same h2 (iff_of_false hB hC), g_same h3 (iff_of_false hC hA)]; rfl

theorem core_inside (_hT : 0 < T) (hs : h1 + h2 + h3 = T) (hb : T * t = h2 * a + h3 * b + h1 * c)
    (hne : ¬ (a = b ∧ b = c)) (p1 : 0 < h1) (p2 : 0 < h2) (p3 : 0 < h3) :
    g (a ≤ t) (b ≤ t) h1 + g (b ≤ t) (c ≤ t) h2 + g (c ≤ t) (a ≤ t) h3 = 1 := by
  have n1 : ¬ h1 < 0 := not_lt.mpr (le_of_lt p1)
  have n2 : ¬ h2 < 0 := not_lt.mpr (le_of_lt p2)
  have n3 : ¬ h3 < 0 := not_lt.mpr (le_of_lt p3)
  by_cases hA : a ≤ t <;> by_cases hB : b ≤ t <;> by_cases hC : c ≤ t
  · -- the point is right of (or at) every vertex: impossible
    exfalso
    have k1 : 0 ≤ h2 * (t - a) := mul_nonneg (le_of_lt p2) (by linarith)
    have k2 : 0 ≤ h3 * (t - b) := mul_nonneg (le_of_lt p3) (by linarith)
    have k3 : 0 ≤ h1 * (t - c) := mul_nonneg (le_of_lt p1) (by linarith)
    have e : h2 * (t - a) + h3 * (t - b) + h1 * (t - c) = 0 := by linear_combination t * hs + hb
    have z1 : h2 * (t - a) = 0 := by linarith
    have z2 : h3 * (t - b) = 0 := by linarith
    have z3 : h1 * (t - c) = 0 := by linarith
    have ea : t - a = 0 := (mul_eq_zero.mp z1).resolve_left (ne_of_gt p2)
    have eb : t - b = 0 := (mul_eq_zero.mp z2).resolve_left (ne_of_gt p3)
    have ec : t - c = 0 := (mul_eq_zero.mp z3).resolve_left (ne_of_gt p1)
    exact hne ⟨by linarith, by linarith⟩
  · rw [g_same h1 (iff_of_true hA hB), g_up h2 hB hC, g_down h3 hC hA, if_pos p2, if_neg n3]; rfl
  · rw [g_up h1 hA hB, g_down h2 hB hC, g_same h3 (iff_of_true hC hA), if_pos p1, if_neg n2]; rfl
  · rw [g_up h1 hA hB, g_same h2 (iff_of_false hB hC), g_down h3 hC hA, if_pos p1, if_neg n3]; rfl
  · rw [g_down h1 hA hB, g_same h2 (iff_of_true hB hC), g_up h3 hC hA, if_neg n1, if_pos p3]; rfl
  · rw [g_down h1 hA hB, g_up h2 hB hC, g_same h3 (iff_of_false hC hA), if_neg n1, if_pos p2]; rfl
  · rw [g_same h1 (iff_of_false hA hB), g_down h2 hB hC, g_up h3 hC hA, if_neg n2, if_pos p3]; rfl
  · -- the point is strictly left of every vertex: impossible
    exfalso
    have k1 : 0 < h2 * (a - t) := mul_pos p2 (by linarith [not_le.mp hA])
    have k2 : 0 < h3 * (b - t) := mul_pos p3 (by linarith [not_le.mp hB])
    have k3 : 0 < h1 * (c - t) := mul_pos p1 (by linarith [not_le.mp hC])
    have e : h2 * (t - a) + h3 * (t - b) + h1 * (t - c) = 0 := by linear_combination t * hs + hb
    linarith

end core

theorem wind_tri (p q r x : Pt) :
    wind (Jordan.fromVertices [p, q, r]).edges x
      = g (p.x ≤ x.x) (q.x ≤ x.x) (triCross p q x) + g (q.x ≤ x.x) (r.x ≤ x.x) (triCross q r x)
        + g (r.x ≤ x.x) (p.x ≤ x.x) (triCross r p x) := by
  rw [wind_fromVertices3, contrib_tri, contrib_tri, contrib_tri]

/-- reversing the triangle negates the crossing number -/
theorem wind_tri_rev (p q r x : Pt) :
    wind (Jordan.fromVertices [p, q, r]).edges x = - wind (Jordan.fromVertices [r, q, p]).edges x := by
  rw [wind_fromVertices3, wind_fromVertices3]
  have e : ∀ u v : Pt, contrib ⟨u, v⟩ x = - contrib ⟨v, u⟩ x := by
    intro u v
    rw [contrib_cross u v x, contrib_cross v u x, cross_eq_triCross, cross_eq_triCross]
    have hc : triCross v u x = - triCross u v x := by unfold triCross; ring
    rw [hc]
    rcases lt_trichotomy u.x v.x with h | h | h
    · rw [if_pos h, if_neg (not_lt.mpr (le_of_lt h)), if_pos h]
      by_cases k : u.x ≤ x.x ∧ x.x < v.x ∧ 0 < triCross u v x
      · rw [if_pos k, if_pos ⟨k.1, k.2.1, by linarith [k.2.2]⟩]; rfl
      · rw [if_neg k, if_neg (fun m => k ⟨m.1, m.2.1, by linarith [m.2.2]⟩)]; rfl
    · rw [if_neg (by rw [h]; exact lt_irrefl _), if_neg (by rw [h]; exact lt_irrefl _),
        if_neg (by rw [h]; exact lt_irrefl _), if_neg (by rw [h]; exact lt_irrefl _)]; rfl
    · rw [if_neg (not_lt.mpr (le_of_lt h)), if_pos h, if_pos h]
      by_cases k : v.x ≤ x.x ∧ x.x < u.x ∧ triCross u v x < 0
      · rw [if_pos k, if_pos ⟨k.1, k.2.1, by linarith [k.2.2]⟩]
      · rw [if_neg k, if_neg (fun m => k ⟨m.1, m.2.1, by linarith [m.2.2]⟩)]; rfl
  rw [e p q, e q r, e r p]; omega

end Tri

open Tri

/-- counter-clockwise triangle: crossing number 1 at every point strictly inside -/
theorem triangle_wind_inside (p q r x : Pt) (hccw : 0 < triCross p q r)
    (h1 : 0 < triCross p q x) (h2 : 0 < triCross q r x) (h3 : 0 < triCross r p x) :
    wind (Jordan.fromVertices [p, q, r]).edges x = 1 := by
  rw [wind_tri]
  exact core_inside hccw (tri_sum p q r x) (tri_bary p q r x) (tri_ne p q r (ne_of_gt hccw)) h1 h2 h3

/-- counter-clockwise triangle: crossing number 0 at every point strictly outside some edge line -/
theorem triangle_wind_outside (p q r x : Pt) (hccw : 0 < triCross p q r)
    (hout : triCross p q x < 0 ∨ triCross q r x < 0 ∨ triCross r p x < 0) :
    wind (Jordan.fromVertices [p, q, r]).edges x = 0 := by
  rw [wind_tri]
  exact core_outside hccw (tri_sum p q r x) (tri_bary p q r x) hout

/-- clockwise triangle: crossing number −1 at every point strictly inside -/
theorem triangle_wind_inside_cw (p q r x : Pt) (hcw : triCross p q r < 0)
    (h1 : triCross p q x < 0) (h2 : triCross q r x < 0) (h3 : triCross r p x < 0) :
    wind (Jordan.fromVertices [p, q, r]).edges x = -1 := by
  rw [wind_tri_rev]
  have e0 : triCross r q p = - triCross p q r := by unfold triCross; ring
  have e1 : triCross r q x = - triCross q r x := by unfold triCross; ring
  have e2 : triCross q p x = - triCross p q x := by unfold triCross; ring
  have e3 : triCross p r x = - triCross r p x := by unfold triCross; ring
  rw [triangle_wind_inside r q p x (by linarith) (by linarith) (by linarith) (by linarith)]

end ShapeVerif
