/- Bézier segments are affinely invariant, for EVERY degree: the Bernstein basis is a partition of
unity (binomial theorem), evaluation is linear in the control values, hence `move`, `scale`, `rot` of the
control polygon move / scale / rotate every point of the curve; `derivate()` commutes with `scale` and
ignores `move`; the exact integral ∫ x^a y^b dy scales by `sx^a · sy^(b+1)`. -/
import ShapeVerif.Proofs.BernsteinGen
import ShapeVerif.Proofs.DerivGen
import ShapeVerif.Proofs.QuadGen
import ShapeVerif.Proofs.Quadrature
import ShapeVerif.Props.C04b
import Mathlib.Tactic.Ring
import Mathlib.Tactic.Linarith
import Mathlib.Data.Nat.Choose.Sum
import Mathlib.Algebra.BigOperators.Group.Finset.Basic

namespace ShapeVerif

/-! ### partition of unity -/

/-- binomial theorem: Σ_i C(n,i) t^i (1−t)^(n−i) = 1 -/
theorem bernstein_sum_one (n : Nat) (t : Rat) :
    ∑ i ∈ Finset.range (n + 1), ((Nat.choose n i : Rat) * t ^ i * (1 - t) ^ (n - i)) = 1 := by
  have h := add_pow t (1 - t) n
  have e : t + (1 - t) = 1 := by ring
  rw [e, one_pow] at h
  refine Eq.trans ?_ h.symm
  apply Finset.sum_congr rfl
  intro i _
  ring

theorem bernstein_partition_of_unity (n : Nat) (t : Rat) : bernsteinCoord (List.replicate (n + 1) 1) t = 1 := by
  rw [bernsteinCoord_eq_sum]
  simp only [List.length_replicate, Nat.add_sub_cancel]
  refine Eq.trans ?_ (bernstein_sum_one n t)
  apply Finset.sum_congr rfl
  intro i hi
  have hi' : i < n + 1 := Finset.mem_range.mp hi
  rw [List.getD_eq_getElem?_getD, List.getElem?_replicate, if_pos hi', Option.getD_some, one_mul]

/-! ### evaluation is linear in the control values -/

private theorem getD_map_lt {α : Type} (l : List α) (f : α → Rat) (i : Nat) (h : i < l.length) :
    (l.map f).getD i 0 = f l[i] := by
  rw [List.getD_eq_getElem?_getD, List.getElem?_map, List.getElem?_eq_getElem h]
  rfl

/-- the coordinate evaluation of mapped control points as a sum over the indices of the list -/
theorem evalCoord_map_eq_sum {α : Type} (l : List α) (f : α → Rat) (t : Rat) :
    evalCoord (l.map f) t = ∑ i ∈ Finset.range l.length,
      (if h : i < l.length then f l[i] else 0)
        * ((Nat.choose (l.length - 1) i : Rat) * t ^ i * (1 - t) ^ (l.length - 1 - i)) := by
  rw [evalCoord_eq_sum, List.length_map]
  apply Finset.sum_congr rfl
  intro i hi
  have hi' : i < l.length := Finset.mem_range.mp hi
  rw [getD_map_lt l f i hi', dif_pos hi']

theorem evalCoord_map_lin {α : Type} (l : List α) (u v : α → Rat) (a b : Rat) (t : Rat) :
    evalCoord (l.map fun p => a * u p + b * v p) t
      = a * evalCoord (l.map u) t + b * evalCoord (l.map v) t := by
  rw [evalCoord_map_eq_sum, evalCoord_map_eq_sum, evalCoord_map_eq_sum, Finset.mul_sum, Finset.mul_sum,
    ← Finset.sum_add_distrib]
  apply Finset.sum_congr rfl
  intro i hi
  have hi' : i < l.length := Finset.mem_range.mp hi
  rw [dif_pos hi', dif_pos hi', dif_pos hi']
  ring

theorem evalCoord_map_const {α : Type} (l : List α) (hl : l ≠ []) (c : Rat) (t : Rat) :
    evalCoord (l.map fun _ => c) t = c := by
  rw [evalCoord_map_eq_sum]
  have hlen : l.length - 1 + 1 = l.length := by
    have : 0 < l.length := List.length_pos_iff.mpr hl
    omega
  have h1 := bernstein_sum_one (l.length - 1) t
  rw [hlen] at h1
  calc
    _ = ∑ i ∈ Finset.range l.length,
          c * ((Nat.choose (l.length - 1) i : Rat) * t ^ i * (1 - t) ^ (l.length - 1 - i)) := by
        apply Finset.sum_congr rfl
        intro i hi
        rw [dif_pos (Finset.mem_range.mp hi)]
    _ = c := by rw [← Finset.mul_sum, h1, mul_one]

theorem evalCoord_map_add_const {α : Type} (l : List α) (hl : l ≠ []) (u : α → Rat) (c : Rat) (t : Rat) :
    evalCoord (l.map fun p => u p + c) t = evalCoord (l.map u) t + c := by
  have h := evalCoord_map_lin l u (fun _ => c) 1 1 t
  rw [evalCoord_map_const l hl c t] at h
  have e : (fun p => 1 * u p + 1 * (fun _ : α => c) p) = fun p => u p + c := by
    funext p; ring
  rw [e] at h
  rw [h]; ring

theorem evalCoord_map_mul_right {α : Type} (l : List α) (u : α → Rat) (k : Rat) (t : Rat) :
    evalCoord (l.map fun p => u p * k) t = evalCoord (l.map u) t * k := by
  have h := evalCoord_map_lin l u u k 0 t
  have e : (fun p => k * u p + 0 * u p) = fun p => u p * k := by
    funext p; ring
  rw [e] at h
  rw [h]; ring

/-! ### the affine maps -/

theorem evalSeg_map_move (s : Seg) (hs : s ≠ []) (d : Pt) (t : Rat) :
    evalSeg (s.map (·.move d)) t = (evalSeg s t).move d := by
  unfold evalSeg Seg.xs Seg.ys Pt.move
  simp only [List.map_map]
  have ex : ((fun p : Pt => p.x) ∘ fun p : Pt => (⟨p.x + d.x, p.y + d.y⟩ : Pt)) = fun p => p.x + d.x := rfl
  have ey : ((fun p : Pt => p.y) ∘ fun p : Pt => (⟨p.x + d.x, p.y + d.y⟩ : Pt)) = fun p => p.y + d.y := rfl
  rw [ex, ey, evalCoord_map_add_const s hs, evalCoord_map_add_const s hs]

theorem evalSeg_map_scale (s : Seg) (sx sy : Rat) (t : Rat) :
    evalSeg (s.map (·.scale sx sy)) t = (evalSeg s t).scale sx sy := by
  unfold evalSeg Seg.xs Seg.ys Pt.scale
  simp only [List.map_map]
  have ex : ((fun p : Pt => p.x) ∘ fun p : Pt => (⟨p.x * sx, p.y * sy⟩ : Pt)) = fun p => p.x * sx := rfl
  have ey : ((fun p : Pt => p.y) ∘ fun p : Pt => (⟨p.x * sx, p.y * sy⟩ : Pt)) = fun p => p.y * sy := rfl
  rw [ex, ey, evalCoord_map_mul_right, evalCoord_map_mul_right]

theorem evalSeg_map_rot (s : Seg) (c sn : Rat) (t : Rat) :
    evalSeg (s.map (·.rot c sn)) t = (evalSeg s t).rot c sn := by
  unfold evalSeg Seg.xs Seg.ys Pt.rot
  simp only [List.map_map]
  have ex : ((fun p : Pt => p.x) ∘ fun p : Pt => (⟨c * p.x - sn * p.y, sn * p.x + c * p.y⟩ : Pt))
      = fun p => c * p.x + (-sn) * p.y := by
    funext p; simp only [Function.comp]; ring
  have ey : ((fun p : Pt => p.y) ∘ fun p : Pt => (⟨c * p.x - sn * p.y, sn * p.x + c * p.y⟩ : Pt))
      = fun p => sn * p.x + c * p.y := rfl
  rw [ex, ey, evalCoord_map_lin, evalCoord_map_lin]
  congr 1
  ring

/-! ### the derivative -/

private theorem zip_tail_map {α β : Type} (f : α → β) (l : List α) :
    (l.map f).zip (l.map f).tail = (l.zip l.tail).map fun ab => (f ab.1, f ab.2) := by
  rw [← List.map_tail, List.zip_map]
  rfl

theorem derivSeg_map_scale (s : Seg) (sx sy : Rat) :
    derivSeg (s.map (·.scale sx sy)) = (derivSeg s).map (·.scale sx sy) := by
  unfold derivSeg
  rw [List.length_map]
  by_cases h : s.length ≤ 1
  · rw [if_pos h, if_pos h]
    simp [Pt.scale, Pt.zero]
  · rw [if_neg h, if_neg h, zip_tail_map, List.map_map, List.map_map]
    apply List.map_congr_left
    intro ab _
    show Pt.smul _ (Pt.sub _ _) = Pt.scale (Pt.smul _ (Pt.sub _ _)) sx sy
    simp only [Pt.smul, Pt.sub, Pt.scale, Pt.mk.injEq]
    constructor <;> ring

theorem derivSeg_map_move (s : Seg) (hs : 2 ≤ s.length) (d : Pt) :
    derivSeg (s.map (·.move d)) = derivSeg s := by
  unfold derivSeg
  rw [List.length_map]
  have h : ¬ s.length ≤ 1 := by omega
  rw [if_neg h, if_neg h, zip_tail_map, List.map_map]
  apply List.map_congr_left
  intro ab _
  show Pt.smul _ (Pt.sub _ _) = Pt.smul _ (Pt.sub _ _)
  simp only [Pt.smul, Pt.sub, Pt.move, Pt.mk.injEq]
  constructor <;> ring

/-! ### the exact integral -/

theorem exactVertical_scale (s : Seg) (hs : 2 ≤ s.length) (sx sy : Rat) (a b : Nat) :
    exactVertical (s.map (·.scale sx sy)) a b = sx ^ a * sy ^ (b + 1) * exactVertical s a b := by
  have hpos : 1 ≤ (a + b + 1) * (s.length - 1) := Nat.mul_pos (by omega) (by omega)
  have hlen : (s.map (·.scale sx sy)).length = s.length := List.length_map _
  rw [← C04.segment_integral_exact_n s hs a b ((a + b + 1) * (s.length - 1)) hpos (by omega),
    ← C04.segment_integral_exact_n (s.map (·.scale sx sy)) (by rw [hlen]; exact hs) a b
      ((a + b + 1) * (s.length - 1)) hpos (by rw [hlen]; omega)]
  unfold verticalN
  simp only
  rw [← quad_smul]
  apply quad_congr
  intro t
  rw [derivSeg_map_scale, evalSeg_map_scale, evalSeg_map_scale]
  simp only [Pt.scale]
  rw [mul_pow, mul_pow, pow_succ]
  ring

end ShapeVerif
