/-
ChordPathGen — the chords summed by the curved winding number (`subdivChords`, Model/WindCurved.lean) form a PATH along the
curve: consecutive chords share their end point, the path runs from the first to the last control point of the piece, every
chord joins two points of the curve in parameter order, and the chords of a closed boundary form a closed path.
-/
import ShapeVerif.Props.C02b
import ShapeVerif.Props.C18b
import ShapeVerif.Model.WindCurved
import ShapeVerif.Proofs.CasteljauGen
import ShapeVerif.Proofs.TranslateGen

namespace ShapeVerif

/-- `es` is a path of edges from `a` to `b`: consecutive edges share their end point -/
def IsPath : List Edge → Pt → Pt → Prop
  | [], a, b => a = b
  | e :: rest, a, b => e.p = a ∧ IsPath rest e.q b

theorem isPath_append {es fs : List Edge} {a b d : Pt} (h1 : IsPath es a b) (h2 : IsPath fs b d) :
    IsPath (es ++ fs) a d := by
  induction es generalizing a with
  | nil =>
    simp only [IsPath] at h1
    subst h1
    simpa using h2
  | cons e rest ih =>
    simp only [IsPath] at h1
    simp only [List.cons_append, IsPath]
    exact ⟨h1.1, ih h1.2⟩

theorem isPath_chord (s : Seg) : IsPath [s.chord] (s.headD Pt.zero) (s.getLastD Pt.zero) := by
  simp [IsPath, Seg.chord]

private theorem headD_of_head? {s t : Seg} (h : s.head? = t.head?) : s.headD Pt.zero = t.headD Pt.zero := by
  rw [List.headD_eq_head?_getD, List.headD_eq_head?_getD, h]

private theorem getLastD_of_getLast? {s t : Seg} (h : s.getLast? = t.getLast?) :
    s.getLastD Pt.zero = t.getLastD Pt.zero := by
  rw [List.getLastD_eq_getLast?, List.getLastD_eq_getLast?, h]

private theorem split_ne_nil (s : Seg) (hl : ¬ s.length ≤ 2) :
    (splitAt s (1 / 2)).1 ≠ [] ∧ (splitAt s (1 / 2)).2 ≠ [] := by
  obtain ⟨h1, h2⟩ := splitAt_lengths s (1 / 2)
  constructor
  · intro he; rw [he] at h1; simp at h1; omega
  · intro he; rw [he] at h2; simp at h2; omega

theorem subdivChords_path (c : Pt) (fuel : Nat) (s : Seg) (hs : s ≠ []) :
    IsPath (subdivChords c fuel s) (s.headD Pt.zero) (s.getLastD Pt.zero) := by
  induction fuel generalizing s with
  | zero => exact isPath_chord s
  | succ n ih =>
    unfold subdivChords
    split
    · exact isPath_chord s
    · rename_i hl
      split
      · obtain ⟨hne1, hne2⟩ := split_ne_nil s hl
        obtain ⟨e1, e2, e3, _⟩ := splitAt_endpoints s hs (1 / 2)
        have p1 := ih _ hne1
        have p2 := ih _ hne2
        rw [headD_of_head? e1] at p1
        rw [getLastD_of_getLast? e2] at p2
        have hmid : (splitAt s (1 / 2)).1.getLastD Pt.zero = (splitAt s (1 / 2)).2.headD Pt.zero := by
          rw [List.getLastD_eq_getLast?, List.headD_eq_head?_getD, e3]
        rw [hmid] at p1
        exact isPath_append p1 p2
      · exact isPath_chord s

theorem subdivChords_on_curve (c : Pt) (fuel : Nat) (s : Seg) (hs : s ≠ []) :
    ∀ e ∈ subdivChords c fuel s, ∃ t0 t1 : Rat, 0 ≤ t0 ∧ t0 ≤ t1 ∧ t1 ≤ 1 ∧ e.p = evalSeg s t0 ∧ e.q = evalSeg s t1 := by
  have hchord : ∀ s : Seg, s ≠ [] → ∀ e ∈ [s.chord],
      ∃ t0 t1 : Rat, 0 ≤ t0 ∧ t0 ≤ t1 ∧ t1 ≤ 1 ∧ e.p = evalSeg s t0 ∧ e.q = evalSeg s t1 := by
    intro s hs e he
    rw [List.mem_singleton] at he
    subst he
    refine ⟨0, 1, le_refl _, by norm_num, le_refl _, ?_, ?_⟩
    · rw [evalSeg_zero s hs]; rfl
    · rw [evalSeg_one s hs]; rfl
  induction fuel generalizing s with
  | zero => exact hchord s hs
  | succ n ih =>
    unfold subdivChords
    split
    · exact hchord s hs
    · rename_i hl
      split
      · obtain ⟨hne1, hne2⟩ := split_ne_nil s hl
        intro e he
        rcases List.mem_append.mp he with he | he
        · obtain ⟨t0, t1, h0, h01, h1, hp, hq⟩ := ih _ hne1 e he
          rw [C18.split_left_all s hs] at hp hq
          exact ⟨1 / 2 * t0, 1 / 2 * t1, by linarith, by linarith, by linarith, hp, hq⟩
        · obtain ⟨t0, t1, h0, h01, h1, hp, hq⟩ := ih _ hne2 e he
          rw [C18.split_right_all s hs] at hp hq
          exact ⟨1 / 2 + t0 * (1 - 1 / 2), 1 / 2 + t1 * (1 - 1 / 2), by linarith, by linarith, by linarith, hp, hq⟩
      · exact hchord s hs

/-- an open chain of pieces, each ending where the next one starts and the last one ending at the start of `z` -/
theorem chain_chords_path (c : Pt) (fuel : Nat) : ∀ (l : List Seg) (s z : Seg),
    (∀ x ∈ s :: l, x ≠ []) →
    (∀ p ∈ (s :: l).zip (l ++ [z]), p.1.getLastD Pt.zero = p.2.headD Pt.zero) →
    IsPath ((s :: l).flatMap (subdivChords c fuel)) (s.headD Pt.zero) (z.headD Pt.zero)
  | [], s, z, hne, hch => by
    have h := hch (s, z) (by simp)
    simp only at h
    simp only [List.flatMap_cons, List.flatMap_nil, List.append_nil]
    rw [← h]
    exact subdivChords_path c fuel s (hne s (by simp))
  | s' :: l, s, z, hne, hch => by
    have h := hch (s, s') (by simp)
    simp only at h
    rw [List.flatMap_cons]
    have p1 := subdivChords_path c fuel s (hne s (by simp))
    rw [h] at p1
    refine isPath_append p1 (chain_chords_path c fuel l s' z ?_ ?_)
    · intro x hx; exact hne x (List.mem_cons_of_mem _ hx)
    · intro p hp
      apply hch p
      simp only [List.cons_append, List.zip_cons_cons]
      exact List.mem_cons_of_mem _ hp

theorem jordan_chords_closed (c : Pt) (fuel : Nat) (j : Jordan) (hj : ∀ s ∈ j, s ≠ [])
    (hchain : ∀ p ∈ j.zip (j.tail ++ j.take 1), p.1.getLastD Pt.zero = p.2.headD Pt.zero) (s0 : Seg) (rest : Jordan)
    (hj0 : j = s0 :: rest) :
    IsPath (j.flatMap (subdivChords c fuel)) (s0.headD Pt.zero) (s0.headD Pt.zero) := by
  subst hj0
  exact chain_chords_path c fuel rest s0 s0 hj (by simpa using hchain)

end ShapeVerif
