/- `derivate()` is the derivative, for every degree: the control values `n (c_{i+1} - c_i)` evaluate
to the formal derivative of the coordinate polynomial. -/
import ShapeVerif.Proofs.Quadrature
import Mathlib.Data.Nat.Choose.Basic
import Mathlib.Data.Nat.Factorial.Basic
import Mathlib.Tactic.Ring
import Mathlib.Tactic.Linarith
import Mathlib.Tactic.NormNum
import Mathlib.Tactic.FieldSimp
import Mathlib.Tactic.LinearCombination
import Mathlib.Algebra.Ring.Parity
import Mathlib.Algebra.BigOperators.Group.List.Basic

namespace ShapeVerif

/-! ### `Math.comb` is the binomial coefficient -/

private theorem foldl_mul_range (a i : Nat) :
    (List.range i).foldl (fun v k => v * (a + k)) 1 = a.ascFactorial i := by
  induction i with
  | zero => simp
  | succ i ih =>
    rw [List.range_succ, List.foldl_append, ih]
    simp [Nat.ascFactorial_succ, Nat.mul_comm]

private theorem foldl_div_range (v m : Nat) :
    (List.range m).foldl (fun v k => v / (k + 2)) v = v / (m + 1).factorial := by
  induction m with
  | zero => simp
  | succ m ih =>
    rw [List.range_succ, List.foldl_append, ih]
    simp only [List.foldl_cons, List.foldl_nil]
    rw [Nat.div_div_eq_div_mul, Nat.factorial_succ (m + 1), Nat.mul_comm]

theorem comb_eq_choose_aux (n i : Nat) (h : i ≤ n) : comb n i = Nat.choose n i := by
  unfold comb
  simp only
  rw [foldl_mul_range, foldl_div_range]
  obtain ⟨d, rfl⟩ := Nat.exists_eq_add_of_le' h
  rw [Nat.add_sub_cancel, Nat.choose_eq_asc_factorial_div_factorial]
  cases i with
  | zero => simp
  | succ i => simp

/-! ### the basis-matrix entries as signed products of binomial coefficients -/

/-- `(-1)^(n+i+j) C(n,i) C(n-i,j)`, total in `i` (zero for `i > n`) -/
private def cE (n i j : Nat) : Rat :=
  (-1) ^ (n + i + j) * (n.choose i : Rat) * ((n - i).choose j : Rat)

private theorem caractEntry_cast (n i j : Nat) (h : i ≤ n) : ((caractEntry n i j : Int) : Rat) = cE n i j := by
  unfold caractEntry cE
  by_cases hj : j ≤ n - i
  · simp only [hj, if_true]
    rw [comb_eq_choose_aux n i h, comb_eq_choose_aux (n - i) j hj]
    by_cases hp : (n + i + j) % 2 = 1
    · simp only [hp, if_true]
      rw [Odd.neg_one_pow (Nat.odd_iff.mpr hp)]
      push_cast; ring
    · simp only [hp, if_false]
      rw [Even.neg_one_pow (Nat.even_iff.mpr (by omega))]
      push_cast; ring
  · simp only [hj, if_false]
    rw [Nat.choose_eq_zero_of_lt (by omega : n - i < j)]
    simp

private theorem choose_pred_mul (d j : Nat) :
    (d : Rat) * ((d - 1).choose j : Rat) = ((d : Rat) - j) * (d.choose j : Rat) := by
  cases d with
  | zero => cases j <;> simp
  | succ d =>
    simp only [Nat.add_sub_cancel]
    by_cases hj : j ≤ d + 1
    · have := Nat.choose_mul_succ_eq d j
      have h2 : ((d.choose j * (d + 1) : Nat) : Rat) = (((d + 1).choose j * (d + 1 - j) : Nat) : Rat) := by
        rw [this]
      rw [Nat.cast_mul, Nat.cast_mul, Nat.cast_sub hj] at h2
      push_cast at h2 ⊢
      linear_combination h2
    · rw [Nat.choose_eq_zero_of_lt (by omega : d < j), Nat.choose_eq_zero_of_lt (by omega : d + 1 < j)]
      simp

private theorem cE_last (m j : Nat) : cE m (m + 1) j = 0 := by
  simp [cE]

private theorem cE_zero (m j : Nat) :
    -((m : Rat) + 1) * cE m 0 j = ((m : Rat) + 1 - j) * cE (m + 1) 0 j := by
  unfold cE
  have h := choose_pred_mul (m + 1) j
  simp only [Nat.add_sub_cancel, Nat.choose_zero_right, Nat.sub_zero, Nat.cast_one, Nat.add_zero] at h ⊢
  push_cast at h
  have e : (-1 : Rat) ^ (m + 1 + j) = -(-1) ^ (m + j) := by
    rw [show m + 1 + j = (m + j) + 1 by omega, pow_succ]; ring
  rw [e]
  linear_combination (-(-1 : Rat) ^ (m + j)) * h

private theorem cE_step (m i j : Nat) (hi : i ≤ m) :
    ((m : Rat) + 1) * cE m i j - ((m : Rat) + 1) * cE m (i + 1) j
      = ((m : Rat) + 1 - j) * cE (m + 1) (i + 1) j := by
  obtain ⟨d, rfl⟩ := Nat.exists_eq_add_of_le hi
  unfold cE
  have h1 : (((i + d + 1) * (i + d).choose i : Nat) : Rat)
      = (((i + d + 1).choose (i + 1) * (i + 1) : Nat) : Rat) := by
    rw [Nat.add_one_mul_choose_eq]
  have h2 : (((i + d).choose (i + 1) * (i + d + 1) : Nat) : Rat)
      = (((i + d + 1).choose (i + 1) * (i + d + 1 - (i + 1)) : Nat) : Rat) := by
    rw [Nat.choose_mul_succ_eq]
  have h3 := choose_pred_mul d j
  have e1 : i + d - i = d := by omega
  have e2 : i + d - (i + 1) = d - 1 := by omega
  have e3 : i + d + 1 - (i + 1) = d := by omega
  rw [e3] at h2
  rw [e1, e2, e3]
  push_cast at h1 h2 ⊢
  have p1 : (-1 : Rat) ^ (i + d + (i + 1) + j) = -(-1) ^ (i + d + i + j) := by
    rw [show i + d + (i + 1) + j = (i + d + i + j) + 1 by omega, pow_succ]; ring
  have p2 : (-1 : Rat) ^ (i + d + 1 + (i + 1) + j) = (-1) ^ (i + d + i + j) := by
    rw [show i + d + 1 + (i + 1) + j = (i + d + i + j) + 2 by omega, pow_add]; norm_num
  rw [p1, p2]
  linear_combination ((-1 : Rat) ^ (i + d + i + j) * (d.choose j : Rat)) * h1
    + ((-1 : Rat) ^ (i + d + i + j) * ((d - 1).choose j : Rat)) * h2
    + ((-1 : Rat) ^ (i + d + i + j) * ((i + d + 1).choose (i + 1) : Rat)) * h3

/-! ### indexed weighted sums -/

private def wsum {α : Type} (l : List α) (o : Nat) (f : α → Nat → Rat) : Rat :=
  ((l.zipIdx o).map fun p => f p.1 p.2).sum

private theorem wsum_nil {α : Type} (o : Nat) (f : α → Nat → Rat) : wsum [] o f = 0 := rfl

private theorem wsum_cons {α : Type} (x : α) (l : List α) (o : Nat) (f : α → Nat → Rat) :
    wsum (x :: l) o f = f x o + wsum l (o + 1) f := by
  simp [wsum, List.zipIdx_cons]

private theorem wsum_shift {α : Type} (l : List α) (o : Nat) (f : α → Nat → Rat) :
    wsum l (o + 1) f = wsum l o (fun x i => f x (i + 1)) := by
  induction l generalizing o with
  | nil => rfl
  | cons x l ih => rw [wsum_cons, wsum_cons, ih]

private theorem wsum_congr {α : Type} (l : List α) (o : Nat) (f g : α → Nat → Rat)
    (h : ∀ x i, o ≤ i → i < o + l.length → f x i = g x i) : wsum l o f = wsum l o g := by
  induction l generalizing o with
  | nil => rfl
  | cons x l ih =>
    rw [wsum_cons, wsum_cons, h x o (le_refl _) (by simp), ih (o + 1)]
    intro y i h1 h2
    exact h y i (by omega) (by simp only [List.length_cons]; omega)

private theorem wsum_mul_left {α : Type} (l : List α) (o : Nat) (k : Rat) (f : α → Nat → Rat) :
    wsum l o (fun x i => k * f x i) = k * wsum l o f := by
  induction l generalizing o with
  | nil => simp [wsum_nil]
  | cons x l ih => rw [wsum_cons, wsum_cons, ih]; ring

private theorem wsum_sub {α : Type} (l : List α) (o : Nat) (f g : α → Nat → Rat) :
    wsum l o (fun x i => f x i - g x i) = wsum l o f - wsum l o g := by
  induction l generalizing o with
  | nil => simp [wsum_nil]
  | cons x l ih => rw [wsum_cons, wsum_cons, wsum_cons, ih]; ring

private theorem wsum_map {α β : Type} (l : List α) (h : α → β) (o : Nat) (f : β → Nat → Rat) :
    wsum (l.map h) o f = wsum l o (fun x i => f (h x) i) := by
  induction l generalizing o with
  | nil => rfl
  | cons x l ih => rw [List.map_cons, wsum_cons, wsum_cons, ih]

private theorem canonCoef_eq_wsum (cs : List Rat) (deg j : Nat) :
    canonCoef cs deg j = wsum cs 0 (fun c i => c * ((caractEntry deg i j : Int) : Rat)) := rfl

/-- summation by parts on the control polygon -/
private theorem wsum_abel (g : Nat → Rat) (c : Rat) (rest : List Rat) (o : Nat)
    (hg : g (o + rest.length) = 0) :
    wsum ((c :: rest).zip rest) o (fun p i => (p.2 - p.1) * g i)
      = wsum rest o (fun x i => x * g i) - wsum (c :: rest) o (fun x i => x * g i) := by
  induction rest generalizing c o with
  | nil =>
    simp only [List.length_nil, Nat.add_zero] at hg
    simp [wsum_nil, wsum_cons, hg]
  | cons d r ih =>
    have hg' : g (o + 1 + r.length) = 0 := by
      rw [← hg]; congr 1; simp only [List.length_cons]; omega
    rw [List.zip_cons_cons, wsum_cons, ih d (o + 1) hg']
    simp only [wsum_cons]
    ring

/-! ### the coefficient identity -/

private theorem canonCoef_deriv (c : Rat) (rest : List Rat) (m j : Nat) (hlen : rest.length = m + 1) :
    canonCoef (derivCoord (c :: rest)) m j = ((m : Rat) + 1 - j) * canonCoef (c :: rest) (m + 1) j := by
  have hN : (((c :: rest).length - 1 : Nat) : Rat) = (m : Rat) + 1 := by
    simp [hlen]
  rw [canonCoef_eq_wsum, canonCoef_eq_wsum]
  unfold derivCoord
  simp only [List.tail_cons]
  rw [hN, wsum_map]
  -- left side: replace the entries, sum by parts
  rw [wsum_congr _ 0 _ (fun p i => (p.2 - p.1) * (((m : Rat) + 1) * cE m i j))]
  · rw [wsum_abel (fun i => ((m : Rat) + 1) * cE m i j) c rest 0 (by rw [hlen]; simp [cE_last])]
    rw [wsum_cons, wsum_cons, wsum_shift, wsum_shift]
    rw [caractEntry_cast (m + 1) 0 j (by omega)]
    have key : wsum rest 0 (fun x i => x * (((m : Rat) + 1) * cE m i j))
        - wsum rest 0 (fun x i => x * (((m : Rat) + 1) * cE m (i + 1) j))
        = ((m : Rat) + 1 - j) * wsum rest 0 (fun x i => x * ((caractEntry (m + 1) (i + 1) j : Int) : Rat)) := by
      rw [← wsum_sub, ← wsum_mul_left]
      apply wsum_congr
      intro x i _ hi
      rw [caractEntry_cast (m + 1) (i + 1) j (by omega)]
      have := cE_step m i j (by omega)
      linear_combination x * this
    have h0 := cE_zero m j
    linear_combination key + c * h0
  · intro p i _ hi
    have hi' : i ≤ m := by
      simp only [List.length_zip, List.length_cons, hlen] at hi
      omega
    rw [caractEntry_cast m i j hi']
    ring

/-! ### the coefficient lists -/

private theorem pderiv_getElem (p : List Rat) (k : Nat) (h : k < (pderiv p).length)
    (h' : k + 1 < p.length) : (pderiv p)[k] = ((k : Rat) + 1) * p[k + 1] := by
  cases p with
  | nil => simp at h'
  | cons a p => simp [pderiv]

private theorem coordPoly_getElem (cs : List Rat) (k : Nat) (h : k < (coordPoly cs).length) :
    (coordPoly cs)[k] = canonCoef cs (cs.length - 1) (cs.length - 1 - k) := by
  have hk : k < cs.length - 1 + 1 := by rw [length_coordPoly] at h; exact h
  have e : coordPoly cs = ((List.range (cs.length - 1 + 1)).map (canonCoef cs (cs.length - 1))).reverse := rfl
  simp only [e, List.getElem_reverse, List.getElem_map, List.getElem_range, List.length_map,
    List.length_range]
  congr 1

private theorem length_derivCoord (cs : List Rat) : (derivCoord cs).length = cs.length - 1 := by
  unfold derivCoord
  simp only [List.length_map, List.length_zip, List.length_tail]
  omega

/-- for a control polygon with at least two values the power-basis coefficient list of `derivate()`
is the formal derivative of the coefficient list -/
theorem coordPoly_derivCoord (cs : List Rat) (h2 : 2 ≤ cs.length) :
    coordPoly (derivCoord cs) = pderiv (coordPoly cs) := by
  match cs, h2 with
  | c :: rest, h2 =>
    obtain ⟨m, hm⟩ : ∃ m, rest.length = m + 1 := ⟨rest.length - 1, by simp at h2; omega⟩
    have hl1 : (coordPoly (derivCoord (c :: rest))).length = m + 1 := by
      rw [length_coordPoly, length_derivCoord]; simp [hm]
    have hl2 : (pderiv (coordPoly (c :: rest))).length = m + 1 := by
      rw [length_pderiv, length_coordPoly]; simp [hm]
    apply List.ext_getElem (by rw [hl1, hl2])
    intro k hk1 hk2
    have hk : k < m + 1 := by rw [hl1] at hk1; exact hk1
    rw [pderiv_getElem _ k hk2 (by rw [length_coordPoly]; simp [hm]; omega),
      coordPoly_getElem, coordPoly_getElem]
    have e1 : (derivCoord (c :: rest)).length - 1 = m := by rw [length_derivCoord]; simp [hm]
    have e2 : (c :: rest).length - 1 = m + 1 := by simp [hm]
    rw [e1, e2, show m + 1 - (k + 1) = m - k by omega, canonCoef_deriv c rest m (m - k) hm]
    congr 1
    rw [Nat.cast_sub (by omega)]
    ring

/-! ### the target theorems -/

theorem deriv_is_derivative (cs : List Rat) (t : Rat) :
    evalCoord (derivCoord cs) t = peval (pderiv (coordPoly cs)) t := by
  by_cases h2 : 2 ≤ cs.length
  · rw [← peval_coordPoly, coordPoly_derivCoord cs h2]
  · match cs, h2 with
    | [], _ => simp [derivCoord, evalCoord, canonCoefs, canonCoef, horner, coordPoly, pderiv, peval]
    | [a], _ => simp [derivCoord, evalCoord, canonCoefs, canonCoef, horner, coordPoly, pderiv, peval]
    | _ :: _ :: _, h2 => simp at h2

private theorem evalCoord_zero (t : Rat) : evalCoord [0] t = 0 := by
  simp [evalCoord, canonCoefs, canonCoef, horner]

private theorem pderiv_short (cs : List Rat) (h : cs.length ≤ 1) (t : Rat) :
    peval (pderiv (coordPoly cs)) t = 0 := by
  have : (pderiv (coordPoly cs)).length = 0 := by
    rw [length_pderiv, length_coordPoly]; omega
  rw [List.length_eq_zero_iff.mp this]; rfl

private theorem derivSeg_ys (s : Seg) (h : ¬ s.length ≤ 1) : (derivSeg s).ys = derivCoord s.ys := by
  unfold derivSeg derivCoord Seg.ys
  simp only [h, if_false, List.length_map, List.map_map, ← List.map_tail, List.zip_map, List.map_map]
  rfl

private theorem derivSeg_xs (s : Seg) (h : ¬ s.length ≤ 1) : (derivSeg s).xs = derivCoord s.xs := by
  unfold derivSeg derivCoord Seg.xs
  simp only [h, if_false, List.length_map, List.map_map, ← List.map_tail, List.zip_map, List.map_map]
  rfl

theorem derivOK_all (s : Seg) : DerivOK s := by
  intro t
  by_cases h : s.length ≤ 1
  · rw [pderiv_short _ (by simpa [Seg.ys] using h)]
    simp only [derivSeg, h, if_true, evalSeg, Seg.ys, List.map_cons, List.map_nil, Pt.zero]
    exact evalCoord_zero t
  · show evalCoord (derivSeg s).ys t = _
    rw [derivSeg_ys s h, deriv_is_derivative]

theorem derivSeg_x_ok (s : Seg) (t : Rat) :
    (evalSeg (derivSeg s) t).x = peval (pderiv (coordPoly s.xs)) t := by
  by_cases h : s.length ≤ 1
  · rw [pderiv_short _ (by simpa [Seg.xs] using h)]
    simp only [derivSeg, h, if_true, evalSeg, Seg.xs, List.map_cons, List.map_nil, Pt.zero]
    exact evalCoord_zero t
  · show evalCoord (derivSeg s).xs t = _
    rw [derivSeg_xs s h, deriv_is_derivative]

end ShapeVerif
