/- Closed curves with pieces of EVERY degree: the area `∮ x dy` is invariant under exact rotation.
For one piece with coordinate polynomials `X, Y` the rotated piece has `X' = cX − sY`, `Y' = sX + cY` and
`X' · (Y')' = (c² + s²) · X · Y' + F'` with `F = cs (X² − Y²)/2 − s² X Y`, so the boundary integral changes
by `F(1) − F(0)`, which depends only on the END POINTS; around a closed chain these terms telescope. -/
import ShapeVerif.Model.Jordan
import ShapeVerif.Proofs.Quadrature
import ShapeVerif.Proofs.QuadGen
import ShapeVerif.Proofs.AffineGen
import ShapeVerif.Proofs.TranslateGen
import ShapeVerif.Proofs.SplitIntGen
import Mathlib.Algebra.Polynomial.Derivative
import Mathlib.Tactic.Ring
import Mathlib.Tactic.Linarith

open Polynomial

namespace ShapeVerif

/-! ### the coordinate polynomials of a rotated piece -/

theorem toPoly_xs_rot (s : Seg) (c sn : Rat) :
    toPoly (coordPoly (Seg.xs (s.map (·.rot c sn))))
      = C c * toPoly (coordPoly s.xs) - C sn * toPoly (coordPoly s.ys) := by
  apply Polynomial.funext
  intro r
  rw [← evalSeg_x_eq, evalSeg_map_rot, eval_sub, eval_mul, eval_mul, eval_C, eval_C, ← evalSeg_x_eq,
    ← evalSeg_y_eq]
  rfl

theorem toPoly_ys_rot (s : Seg) (c sn : Rat) :
    toPoly (coordPoly (Seg.ys (s.map (·.rot c sn))))
      = C sn * toPoly (coordPoly s.xs) + C c * toPoly (coordPoly s.ys) := by
  apply Polynomial.funext
  intro r
  rw [← evalSeg_y_eq, evalSeg_map_rot, eval_add, eval_mul, eval_mul, eval_C, eval_C, ← evalSeg_x_eq,
    ← evalSeg_y_eq]
  rfl

/-- the pointwise (polynomial) identity behind the rotation rule -/
theorem rot_integrand (X Y : Rat[X]) (c sn : Rat) :
    (C c * X - C sn * Y) * derivative (C sn * X + C c * Y)
      = C (c * c + sn * sn) * (X * derivative Y)
        + derivative (C (c * sn / 2) * (X ^ 2 - Y ^ 2) - C (sn * sn) * (X * Y)) := by
  have h2 : (C (c * sn / 2) : Rat[X]) * C 2 = C c * C sn := by
    rw [← C_mul, ← C_mul]; congr 1; ring
  simp only [derivative_add, derivative_sub, derivative_mul, derivative_C, derivative_pow, zero_mul,
    zero_add, C_add, C_mul, Nat.cast_ofNat, Nat.add_one_sub_one, pow_one]
  have e : (C (c * sn / 2) : Rat[X]) * (C 2 * X * derivative X - C 2 * Y * derivative Y)
      = (C (c * sn / 2) * C 2) * (X * derivative X - Y * derivative Y) := by ring
  rw [e, h2]
  ring

/-- the end-point potential of the rotation rule -/
def rotPot (c sn : Rat) (p : Pt) : Rat := c * sn * (p.x ^ 2 - p.y ^ 2) / 2 - sn * sn * (p.x * p.y)

theorem exactVertical_rot_pot (s : Seg) (hs : 2 ≤ s.length) (c sn : Rat) :
    exactVertical (s.map (·.rot c sn)) 1 0
      = (c * c + sn * sn) * exactVertical s 1 0
        + (rotPot c sn (s.getLastD Pt.zero) - rotPot c sn (s.headD Pt.zero)) := by
  have hne : s ≠ [] := by
    intro h; rw [h] at hs; simp at hs
  rw [exactVertical_eq_Iint, exactVertical_eq_Iint, toPoly_xs_rot, toPoly_ys_rot]
  simp only [pow_one, pow_zero, mul_one]
  rw [rot_integrand, map_add, Iint_C_mul, Iint_derivative]
  simp only [eval_sub, eval_mul, eval_C, eval_pow, ← evalSeg_x_eq, ← evalSeg_y_eq]
  rw [evalSeg_one s hne, evalSeg_zero s hne]
  unfold rotPot
  ring

theorem exactVertical_rot (s : Seg) (hs : 2 ≤ s.length) (c sn : Rat) :
    exactVertical (s.map (·.rot c sn)) 1 0
      = (c * c + sn * sn) * exactVertical s 1 0
        + c * sn * (((s.getLastD Pt.zero).x ^ 2 - (s.headD Pt.zero).x ^ 2) - ((s.getLastD Pt.zero).y ^ 2 - (s.headD Pt.zero).y ^ 2)) / 2
        - sn * sn * ((s.getLastD Pt.zero).x * (s.getLastD Pt.zero).y - (s.headD Pt.zero).x * (s.headD Pt.zero).y) := by
  rw [exactVertical_rot_pot s hs c sn]
  unfold rotPot
  ring

/-! ### summing over a curve -/

theorem jordanExactVertical_rot (j : Jordan) (hj : ∀ s ∈ j, 2 ≤ s.length) (c sn : Rat) :
    jordanExactVertical (j.map (·.rot c sn)) 1 0
      = (c * c + sn * sn) * jordanExactVertical j 1 0
        + (List.map (fun s : Seg => rotPot c sn (s.getLastD Pt.zero) - rotPot c sn (s.headD Pt.zero)) j).sum := by
  unfold Jordan.map jordanExactVertical
  induction j with
  | nil => simp
  | cons s j ih =>
    simp only [List.map_cons, List.sum_cons]
    rw [ih (fun s hs => hj s (List.mem_cons_of_mem _ hs)), exactVertical_rot_pot s (hj s (by simp)) c sn]
    ring

/-- the telescoping sum of an end-point potential along an open chain `s, l…` followed by `z` -/
theorem chain_pot_sum (g : Pt → Rat) : ∀ (l : List Seg) (s z : Seg),
    (∀ p ∈ (s :: l).zip (l ++ [z]), p.1.getLastD Pt.zero = p.2.headD Pt.zero) →
    (List.map (fun s : Seg => g (s.getLastD Pt.zero) - g (s.headD Pt.zero)) (s :: l)).sum
      = g (z.headD Pt.zero) - g (s.headD Pt.zero)
  | [], s, z, h => by
    have := h (s, z) (by simp)
    simp only at this
    simp only [List.map_cons, List.map_nil, List.sum_cons, List.sum_nil]
    rw [this]; ring
  | y :: l, s, z, h => by
    have h1 := h (s, y) (by simp)
    have ih := chain_pot_sum g l y z (fun ab hab => h ab (by
      simp only [List.cons_append, List.zip_cons_cons, List.mem_cons] at hab ⊢
      exact Or.inr hab))
    simp only at h1
    simp only [List.map_cons, List.sum_cons] at ih ⊢
    rw [ih, h1]; ring

theorem closed_chain_pot (g : Pt → Rat) (j : Jordan)
    (hchain : ∀ p ∈ j.zip (j.tail ++ j.take 1), p.1.getLastD Pt.zero = p.2.headD Pt.zero) :
    (List.map (fun s : Seg => g (s.getLastD Pt.zero) - g (s.headD Pt.zero)) j).sum = 0 := by
  cases j with
  | nil => rfl
  | cons s0 t =>
    rw [chain_pot_sum g t s0 s0 (by simpa using hchain)]
    ring

theorem area_rot_closed_all (j : Jordan) (hj : ∀ s ∈ j, 2 ≤ s.length)
    (hchain : ∀ p ∈ j.zip (j.tail ++ j.take 1), p.1.getLastD Pt.zero = p.2.headD Pt.zero)
    (c sn : Rat) (h : c * c + sn * sn = 1) :
    Jordan.area (j.map (·.rot c sn)) = Jordan.area j := by
  unfold Jordan.area
  rw [jordanExactVertical_rot j hj c sn, closed_chain_pot (rotPot c sn) j hchain, h]
  ring

end ShapeVerif
