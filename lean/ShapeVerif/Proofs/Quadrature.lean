/- helper lemmas about the quadrature model (M2): exactness table of the open Newton–Cotes rule,
linearity lift to polynomials, evaluation homomorphisms of the list-polynomial operations,
`vertical = exactVertical`, Green anchors, reversal, additivity. -/
import ShapeVerif.Model.Jordan
import ShapeVerif.Proofs.Bezier
import Mathlib.Tactic.Ring
import Mathlib.Tactic.Linarith
import Mathlib.Tactic.NormNum
import Mathlib.Tactic.IntervalCases
import Mathlib.Algebra.BigOperators.Group.List.Basic

namespace ShapeVerif

/-! ### the exactness table -/

/-- number of monomials integrated exactly by the `n`-node rule: `n`, and `n + 1` for odd `n`
(the rule is symmetric) -/
def exactCount (n : Nat) : Nat := n + n % 2

/-- row `n` of the table: the `n`-node open Newton–Cotes rule integrates `x^k`, `k < exactCount n`, exactly -/
def exactRow (n : Nat) : Bool :=
  (List.range (exactCount n)).all fun k => quad n (fun x => x ^ k) == 1 / ((k + 1 : Nat) : Rat)

/-- the size of the table -/
abbrev tableN : Nat := 24

theorem exactRow_1 : exactRow 1 = true := by decide +kernel
theorem exactRow_2 : exactRow 2 = true := by decide +kernel
theorem exactRow_3 : exactRow 3 = true := by decide +kernel
theorem exactRow_4 : exactRow 4 = true := by decide +kernel
theorem exactRow_5 : exactRow 5 = true := by decide +kernel
theorem exactRow_6 : exactRow 6 = true := by decide +kernel
theorem exactRow_7 : exactRow 7 = true := by decide +kernel
theorem exactRow_8 : exactRow 8 = true := by decide +kernel
theorem exactRow_9 : exactRow 9 = true := by decide +kernel
theorem exactRow_10 : exactRow 10 = true := by decide +kernel
theorem exactRow_11 : exactRow 11 = true := by decide +kernel
theorem exactRow_12 : exactRow 12 = true := by decide +kernel
theorem exactRow_13 : exactRow 13 = true := by decide +kernel
theorem exactRow_14 : exactRow 14 = true := by decide +kernel
theorem exactRow_15 : exactRow 15 = true := by decide +kernel
theorem exactRow_16 : exactRow 16 = true := by decide +kernel
theorem exactRow_17 : exactRow 17 = true := by decide +kernel
theorem exactRow_18 : exactRow 18 = true := by decide +kernel
theorem exactRow_19 : exactRow 19 = true := by decide +kernel
theorem exactRow_20 : exactRow 20 = true := by decide +kernel
theorem exactRow_21 : exactRow 21 = true := by decide +kernel
theorem exactRow_22 : exactRow 22 = true := by decide +kernel
theorem exactRow_23 : exactRow 23 = true := by decide +kernel
theorem exactRow_24 : exactRow 24 = true := by decide +kernel

theorem exactRow_all (n : Nat) (h1 : 1 ≤ n) (hN : n ≤ tableN) : exactRow n = true := by
  unfold tableN at hN
  interval_cases n
  exacts [exactRow_1, exactRow_2, exactRow_3, exactRow_4, exactRow_5, exactRow_6, exactRow_7, exactRow_8,
    exactRow_9, exactRow_10, exactRow_11, exactRow_12, exactRow_13, exactRow_14, exactRow_15, exactRow_16,
    exactRow_17, exactRow_18, exactRow_19, exactRow_20, exactRow_21, exactRow_22, exactRow_23, exactRow_24]

/-- the `n`-node rule is exact on `x^k` for `k < n + n % 2` (`1 ≤ n ≤ 24`) -/
theorem quad_exact_table' (n : Nat) (h1 : 1 ≤ n) (hN : n ≤ tableN) (k : Nat) (hk : k < exactCount n) :
    quad n (fun x => x ^ k) = 1 / ((k : Rat) + 1) := by
  have h := exactRow_all n h1 hN
  unfold exactRow at h
  rw [List.all_eq_true] at h
  have := h k (List.mem_range.mpr hk)
  rw [beq_iff_eq] at this
  rw [this]; push_cast; rfl

theorem quad_exact_table (n : Nat) (h1 : 1 ≤ n) (hN : n ≤ tableN) (k : Nat) (hk : k < n) :
    quad n (fun x => x ^ k) = 1 / ((k : Rat) + 1) :=
  quad_exact_table' n h1 hN k (by unfold exactCount; omega)

/-! ### linearity of `quad` and the lift to polynomials -/

theorem foldl_quad_eq (f : Rat → Rat) (zs : List (Rat × Rat)) (a : Rat) :
    zs.foldl (fun acc (xw : Rat × Rat) => acc + xw.2 * f xw.1) a
      = a + (zs.map fun xw => xw.2 * f xw.1).sum := by
  induction zs generalizing a with
  | nil => simp
  | cons z zs ih => simp only [List.foldl_cons, List.map_cons, List.sum_cons, ih]; ring

/-- `quad n f` is the weighted sum Σ wᵢ f(xᵢ) -/
theorem quad_eq_sum (n : Nat) (f : Rat → Rat) :
    quad n f = (((openNodes n).zip (openWeights n)).map fun xw => xw.2 * f xw.1).sum := by
  unfold quad
  rw [foldl_quad_eq]; simp

theorem quad_add (n : Nat) (f g : Rat → Rat) : quad n (fun t => f t + g t) = quad n f + quad n g := by
  simp only [quad_eq_sum]
  induction (openNodes n).zip (openWeights n) with
  | nil => simp
  | cons z zs ih => simp only [List.map_cons, List.sum_cons, ih]; ring

theorem quad_smul (n : Nat) (c : Rat) (f : Rat → Rat) : quad n (fun t => c * f t) = c * quad n f := by
  simp only [quad_eq_sum]
  induction (openNodes n).zip (openWeights n) with
  | nil => simp
  | cons z zs ih => simp only [List.map_cons, List.sum_cons, ih]; ring

theorem quad_neg (n : Nat) (f : Rat → Rat) : quad n (fun t => - f t) = - quad n f := by
  have := quad_smul n (-1) f
  simpa using this

theorem quad_congr (n : Nat) {f g : Rat → Rat} (h : ∀ t, f t = g t) : quad n f = quad n g := by
  have : f = g := funext h
  rw [this]

theorem peval_nil (t : Rat) : peval [] t = 0 := rfl
theorem peval_cons (c : Rat) (p : List Rat) (t : Rat) : peval (c :: p) t = c + t * peval p t := rfl

/-- Σ_k c_k / (j + k + 1): the integral of `x^j · p` -/
def pintFrom (j : Nat) (p : List Rat) : Rat := ((p.zipIdx j).map fun (c, k) => c / ((k + 1 : Nat) : Rat)).sum

theorem pintFrom_zero (p : List Rat) : pintFrom 0 p = pint01 p := rfl

theorem quad_exact_shift (n : Nat) (h1 : 1 ≤ n) (hN : n ≤ tableN) (p : List Rat) (j : Nat)
    (hp : j + p.length ≤ exactCount n) :
    quad n (fun t => t ^ j * peval p t) = pintFrom j p := by
  induction p generalizing j with
  | nil => 
    have := quad_smul n 0 (fun _ => 0)
    simp [peval_nil, pintFrom] at this ⊢
    exact this
  | cons c p ih =>
    have e : ∀ t : Rat, t ^ j * peval (c :: p) t = c * t ^ j + t ^ (j + 1) * peval p t := by
      intro t; rw [peval_cons]; ring
    rw [quad_congr n e, quad_add, quad_smul, ih (j + 1) (by simp at hp; omega),
      quad_exact_table' n h1 hN j (by simp at hp; omega)]
    simp only [pintFrom, List.zipIdx_cons, List.map_cons, List.sum_cons]
    push_cast; ring

/-- the `n`-node rule integrates every polynomial with at most `n + n % 2` coefficients exactly -/
theorem quad_exact_poly' (n : Nat) (h1 : 1 ≤ n) (hN : n ≤ tableN) (p : List Rat)
    (hp : p.length ≤ exactCount n) : quad n (peval p) = pint01 p := by
  have := quad_exact_shift n h1 hN p 0 (by omega)
  simpa [pintFrom_zero] using this

theorem quad_exact_poly (n : Nat) (h1 : 1 ≤ n) (hN : n ≤ tableN) (p : List Rat)
    (hp : p.length ≤ n) : quad n (peval p) = pint01 p :=
  quad_exact_poly' n h1 hN p (by unfold exactCount; omega)

theorem quad_exact_poly_odd (n : Nat) (h1 : 1 ≤ n) (hN : n ≤ tableN) (hodd : n % 2 = 1) (p : List Rat)
    (hp : p.length ≤ n + 1) : quad n (peval p) = pint01 p :=
  quad_exact_poly' n h1 hN p (by unfold exactCount; omega)

/-! ### evaluation homomorphisms and length bounds -/

theorem peval_padd (p q : List Rat) (t : Rat) : peval (padd p q) t = peval p t + peval q t := by
  induction p generalizing q with
  | nil => simp [padd, peval_nil]
  | cons a p ih =>
    cases q with
    | nil => simp [padd, peval_nil]
    | cons b q => simp only [padd, peval_cons, ih]; ring

theorem peval_pscale (k : Rat) (p : List Rat) (t : Rat) : peval (pscale k p) t = k * peval p t := by
  induction p with
  | nil => simp [pscale, peval_nil]
  | cons a p ih =>
    have : pscale k (a :: p) = (k * a) :: pscale k p := rfl
    rw [this, peval_cons, peval_cons, ih]; ring

theorem peval_pmulX (p : List Rat) (t : Rat) : peval (pmulX p) t = t * peval p t := by
  simp [pmulX, peval_cons]

theorem peval_pmul (p q : List Rat) (t : Rat) : peval (pmul p q) t = peval p t * peval q t := by
  induction p with
  | nil => simp [pmul, peval_nil]
  | cons a p ih => simp only [pmul, peval_padd, peval_pscale, peval_pmulX, peval_cons, ih]; ring

theorem peval_ppow (p : List Rat) (k : Nat) (t : Rat) : peval (ppow p k) t = (peval p t) ^ k := by
  induction k with
  | zero => simp [ppow, peval_cons, peval_nil]
  | succ k ih => simp only [ppow, peval_pmul, ih]; ring

theorem peval_pmulLin (p : List Rat) (r t : Rat) : peval (pmulLin p r) t = peval p t * (t - r) := by
  simp only [pmulLin, peval_padd, peval_pmulX, peval_pscale]; ring

theorem length_padd (p q : List Rat) : (padd p q).length = max p.length q.length := by
  induction p generalizing q with
  | nil => simp [padd]
  | cons a p ih =>
    cases q with
    | nil => simp [padd]
    | cons b q => simp [padd, ih]

theorem length_pscale (k : Rat) (p : List Rat) : (pscale k p).length = p.length := by simp [pscale]

theorem length_pmulX (p : List Rat) : (pmulX p).length = p.length + 1 := by simp [pmulX]

/-- the product of two non-empty coefficient lists has `|p| + |q| − 1` coefficients -/
theorem length_pmul (p q : List Rat) (hp : 1 ≤ p.length) (hq : 1 ≤ q.length) :
    (pmul p q).length = p.length + q.length - 1 := by
  induction p with
  | nil => simp at hp
  | cons a p ih =>
    cases p with
    | nil => simp [pmul, length_padd, length_pscale, length_pmulX]; omega
    | cons b p =>
      have := ih (by simp)
      simp only [pmul, length_padd, length_pscale, length_pmulX] at this ⊢
      simp only [List.length_cons] at this ⊢
      omega

theorem length_pmul_le (p q : List Rat) (hq : 1 ≤ q.length) :
    (pmul p q).length ≤ p.length + q.length - 1 := by
  cases p with
  | nil => simp [pmul]
  | cons a p => rw [length_pmul _ _ (by simp) hq]

theorem length_ppow (p : List Rat) (hp : 1 ≤ p.length) (k : Nat) :
    (ppow p k).length = k * (p.length - 1) + 1 := by
  induction k with
  | zero => simp [ppow]
  | succ k ih =>
    simp only [ppow]
    rw [length_pmul _ _ hp (by omega), ih]
    have : (k + 1) * (p.length - 1) = k * (p.length - 1) + (p.length - 1) := by ring
    omega

theorem length_pderiv (p : List Rat) : (pderiv p).length = p.length - 1 := by
  cases p with
  | nil => simp [pderiv]
  | cons a p => simp [pderiv]

theorem length_coordPoly (cs : List Rat) : (coordPoly cs).length = cs.length - 1 + 1 := by
  simp [coordPoly, canonCoefs]


/-! ### `vertical = exactVertical` -/

theorem horner_eq_peval_reverse (t : Rat) (l : List Rat) : horner t l = peval l.reverse t := by
  unfold horner peval
  rw [List.foldr_reverse]
  congr 1
  funext v c
  ring

/-- the coordinate polynomial is the curve, for EVERY degree -/
theorem peval_coordPoly (cs : List Rat) (t : Rat) : peval (coordPoly cs) t = evalCoord cs t := by
  unfold coordPoly evalCoord
  rw [horner_eq_peval_reverse]

/-- the coefficient list of the integrand `x(t)^a y(t)^b y'(t)` -/
def integrandPoly (s : Seg) (a b : Nat) : List Rat :=
  pmul (pmul (ppow (coordPoly s.xs) a) (ppow (coordPoly s.ys) b)) (pderiv (coordPoly s.ys))

theorem exactVertical_eq (s : Seg) (a b : Nat) : exactVertical s a b = pint01 (integrandPoly s a b) := rfl

/-- "`derivate()` is the derivative" for the ordinate of segment `s` -/
def DerivOK (s : Seg) : Prop := ∀ t, (evalSeg (derivSeg s) t).y = peval (pderiv (coordPoly s.ys)) t

theorem integrand_eq (s : Seg) (hd : DerivOK s) (a b : Nat) (t : Rat) :
    (evalSeg s t).x ^ a * (evalSeg s t).y ^ b * (evalSeg (derivSeg s) t).y
      = peval (integrandPoly s a b) t := by
  unfold integrandPoly
  rw [peval_pmul, peval_pmul, peval_ppow, peval_ppow, peval_coordPoly, peval_coordPoly, hd t]
  rfl

theorem verticalN_eq_quad (s : Seg) (hd : DerivOK s) (a b n : Nat) :
    verticalN s a b n = quad n (peval (integrandPoly s a b)) := by
  unfold verticalN
  exact quad_congr n (integrand_eq s hd a b)

theorem length_integrandPoly (s : Seg) (hs : 2 ≤ s.length) (a b : Nat) :
    (integrandPoly s a b).length = (a + b + 1) * (s.length - 1) := by
  have hx : (coordPoly s.xs).length = s.length := by rw [length_coordPoly]; simp [Seg.xs]; omega
  have hy : (coordPoly s.ys).length = s.length := by rw [length_coordPoly]; simp [Seg.ys]; omega
  unfold integrandPoly
  rw [length_pmul, length_pmul, length_ppow, length_ppow, length_pderiv, hx, hy]
  · have : (a + b + 1) * (s.length - 1) = a * (s.length - 1) + b * (s.length - 1) + (s.length - 1) := by ring
    omega
  · omega
  · omega
  · rw [length_ppow] <;> omega
  · rw [length_ppow] <;> omega
  · rw [length_pmul, length_ppow, length_ppow] <;> first | omega | (rw [length_ppow] <;> omega)
  · rw [length_pderiv]; omega

/-- the quadrature with `n` nodes is exact as soon as the integrand has at most `n + n % 2` coefficients -/
theorem verticalN_eq_exact (s : Seg) (hd : DerivOK s) (hs : 2 ≤ s.length) (a b n : Nat)
    (h1 : 1 ≤ n) (hN : n ≤ tableN) (hdeg : (a + b + 1) * (s.length - 1) ≤ exactCount n) :
    verticalN s a b n = exactVertical s a b := by
  rw [verticalN_eq_quad s hd, exactVertical_eq]
  exact quad_exact_poly' n h1 hN _ (by rw [length_integrandPoly s hs]; exact hdeg)

@[simp] private theorem Pt.sub_x (p q : Pt) : (p - q).x = p.x - q.x := rfl
@[simp] private theorem Pt.sub_y (p q : Pt) : (p - q).y = p.y - q.y := rfl

theorem derivOK_1 (p0 p1 : Pt) : DerivOK [p0, p1] := by
  intro t
  simp [derivSeg, Pt.smul, Seg.ys, evalSeg, coordPoly, pderiv, peval, evalCoord, canonCoefs, canonCoef, horner,
    caractEntry, comb, List.range_succ, List.zipIdx_cons]
  try ring
theorem derivOK_2 (p0 p1 p2 : Pt) : DerivOK [p0, p1, p2] := by
  intro t
  simp [derivSeg, Pt.smul, Seg.ys, evalSeg, coordPoly, pderiv, peval, evalCoord, canonCoefs, canonCoef, horner,
    caractEntry, comb, List.range_succ, List.zipIdx_cons]
  try ring
theorem derivOK_3 (p0 p1 p2 p3 : Pt) : DerivOK [p0, p1, p2, p3] := by
  intro t
  simp [derivSeg, Pt.smul, Seg.ys, evalSeg, coordPoly, pderiv, peval, evalCoord, canonCoefs, canonCoef, horner,
    caractEntry, comb, List.range_succ, List.zipIdx_cons]
  try ring

/-- polygons are exact: straight segment, all exponents with `a + b + 4 ≤ 24` -/
theorem vertical_eq_exact_line (p q : Pt) (a b : Nat) (h : a + b + 4 ≤ tableN) :
    vertical [p, q] a b = exactVertical [p, q] a b := by
  unfold vertical
  apply verticalN_eq_exact _ (derivOK_1 p q) (by simp)
  · simp [Seg.degree]
  · simp [Seg.degree]; omega
  · simp [Seg.degree, exactCount]; omega

theorem vertical_eq_exact_quadratic (p0 p1 p2 : Pt) (a b : Nat) (h : a + b ≤ 4) :
    vertical [p0, p1, p2] a b = exactVertical [p0, p1, p2] a b := by
  unfold vertical
  apply verticalN_eq_exact _ (derivOK_2 p0 p1 p2) (by simp)
  · simp [Seg.degree]
  · simp [Seg.degree, tableN]; omega
  · simp [Seg.degree, exactCount]; omega

theorem vertical_eq_exact_cubic (p0 p1 p2 p3 : Pt) (a b : Nat) (h : a + b ≤ 1) :
    vertical [p0, p1, p2, p3] a b = exactVertical [p0, p1, p2, p3] a b := by
  unfold vertical
  apply verticalN_eq_exact _ (derivOK_3 p0 p1 p2 p3) (by simp)
  · simp [Seg.degree]
  · simp [Seg.degree, tableN]; omega
  · simp [Seg.degree, exactCount]; omega


/-! ### curves and shapes: the code's value is the exact value -/

theorem jordanVertical_congr (j : List Seg) (a b : Nat)
    (h : ∀ s ∈ j, vertical s a b = exactVertical s a b) :
    jordanVertical j a b = jordanExactVertical j a b := by
  unfold jordanVertical jordanExactVertical
  rw [List.map_congr_left h]

theorem shapePolynomial_congr (js : List (List Seg)) (a b : Nat)
    (h : ∀ j ∈ js, ∀ s ∈ j, vertical s (a + 1) b = exactVertical s (a + 1) b) :
    shapePolynomial js a b = shapeExactMoment js a b := by
  unfold shapePolynomial shapeExactMoment
  rw [List.map_congr_left fun j hj => jordanVertical_congr j (a + 1) b (h j hj)]

/-- a segment of degree ≤ 1, ≤ 2, ≤ 3 -/
def DegLe1 (s : Seg) : Prop := s.length = 2
def DegLe2 (s : Seg) : Prop := s.length = 2 ∨ s.length = 3
def DegLe3 (s : Seg) : Prop := s.length = 2 ∨ s.length = 3 ∨ s.length = 4

theorem seg_len2 {s : Seg} (h : s.length = 2) : ∃ p q, s = [p, q] := List.length_eq_two.mp h
theorem seg_len3 {s : Seg} (h : s.length = 3) : ∃ p q r, s = [p, q, r] := List.length_eq_three.mp h
theorem seg_len4 {s : Seg} (h : s.length = 4) : ∃ p q r u, s = [p, q, r, u] := by
  match s, h with
  | [p, q, r, u], _ => exact ⟨p, q, r, u, rfl⟩

theorem vertical_eq_exact_deg1 (s : Seg) (hs : DegLe1 s) (a b : Nat) (h : a + b + 4 ≤ tableN) :
    vertical s a b = exactVertical s a b := by
  obtain ⟨p, q, rfl⟩ := seg_len2 hs
  exact vertical_eq_exact_line p q a b h

theorem vertical_eq_exact_deg2 (s : Seg) (hs : DegLe2 s) (a b : Nat) (h : a + b ≤ 4) :
    vertical s a b = exactVertical s a b := by
  rcases hs with hs | hs
  · exact vertical_eq_exact_deg1 s hs a b (by unfold tableN; omega)
  · obtain ⟨p, q, r, rfl⟩ := seg_len3 hs
    exact vertical_eq_exact_quadratic p q r a b h

theorem vertical_eq_exact_deg3 (s : Seg) (hs : DegLe3 s) (a b : Nat) (h : a + b ≤ 1) :
    vertical s a b = exactVertical s a b := by
  rcases hs with hs | hs | hs
  · exact vertical_eq_exact_deg2 s (Or.inl hs) a b (by omega)
  · exact vertical_eq_exact_deg2 s (Or.inr hs) a b (by omega)
  · obtain ⟨p, q, r, u, rfl⟩ := seg_len4 hs
    exact vertical_eq_exact_cubic p q r u a b h

/-! ### additivity -/

theorem jordanExactVertical_append (j₁ j₂ : List Seg) (a b : Nat) :
    jordanExactVertical (j₁ ++ j₂) a b = jordanExactVertical j₁ a b + jordanExactVertical j₂ a b := by
  simp [jordanExactVertical, List.map_append, List.sum_append]

theorem jordanVertical_append (j₁ j₂ : List Seg) (a b : Nat) :
    jordanVertical (j₁ ++ j₂) a b = jordanVertical j₁ a b + jordanVertical j₂ a b := by
  simp [jordanVertical, List.map_append, List.sum_append]

theorem shapeExactMoment_append (js₁ js₂ : List (List Seg)) (a b : Nat) :
    shapeExactMoment (js₁ ++ js₂) a b = shapeExactMoment js₁ a b + shapeExactMoment js₂ a b := by
  simp [shapeExactMoment, List.map_append, List.sum_append, add_div]

theorem shapePolynomial_append (js₁ js₂ : List (List Seg)) (a b : Nat) :
    shapePolynomial (js₁ ++ js₂) a b = shapePolynomial js₁ a b + shapePolynomial js₂ a b := by
  simp [shapePolynomial, List.map_append, List.sum_append, add_div]

theorem shapeExactMoment_singleton (j : List Seg) (a b : Nat) :
    shapeExactMoment [j] a b = Jordan.moment j a b := by
  simp [shapeExactMoment, Jordan.moment, add_comm]


/-! ### Green-theorem anchors -/

/-- unfolding set that evaluates `exactVertical`/`Jordan.moment` on literal control polygons and literal exponents -/
macro "quad_unfold" : tactic => `(tactic|
  simp [Jordan.moment, Jordan.area, Jordan.fromVertices, jordanExactVertical, exactVertical, coordPoly, Seg.xs, Seg.ys,
    canonCoefs, canonCoef, caractEntry, comb, ppow, pmul, padd, pscale, pmulX, pderiv, pint01,
    List.range_succ, List.zipIdx_cons])

/-- the axis-parallel rectangle `[x0,x1] × [y0,y1]` as the code builds it -/
def rect (x0 y0 x1 y1 : Rat) : Jordan := Jordan.fromVertices [⟨x0, y0⟩, ⟨x1, y0⟩, ⟨x1, y1⟩, ⟨x0, y1⟩]

theorem rect_moment_00 (x0 y0 x1 y1 : Rat) :
    Jordan.moment (rect x0 y0 x1 y1) 0 0 = (x1 ^ 1 - x0 ^ 1) / 1 * ((y1 ^ 1 - y0 ^ 1) / 1) := by
  unfold rect; quad_unfold; ring
theorem rect_moment_10 (x0 y0 x1 y1 : Rat) :
    Jordan.moment (rect x0 y0 x1 y1) 1 0 = (x1 ^ 2 - x0 ^ 2) / 2 * ((y1 ^ 1 - y0 ^ 1) / 1) := by
  unfold rect; quad_unfold; ring
theorem rect_moment_01 (x0 y0 x1 y1 : Rat) :
    Jordan.moment (rect x0 y0 x1 y1) 0 1 = (x1 ^ 1 - x0 ^ 1) / 1 * ((y1 ^ 2 - y0 ^ 2) / 2) := by
  unfold rect; quad_unfold; ring
theorem rect_moment_20 (x0 y0 x1 y1 : Rat) :
    Jordan.moment (rect x0 y0 x1 y1) 2 0 = (x1 ^ 3 - x0 ^ 3) / 3 * ((y1 ^ 1 - y0 ^ 1) / 1) := by
  unfold rect; quad_unfold; ring
theorem rect_moment_11 (x0 y0 x1 y1 : Rat) :
    Jordan.moment (rect x0 y0 x1 y1) 1 1 = (x1 ^ 2 - x0 ^ 2) / 2 * ((y1 ^ 2 - y0 ^ 2) / 2) := by
  unfold rect; quad_unfold; ring
theorem rect_moment_02 (x0 y0 x1 y1 : Rat) :
    Jordan.moment (rect x0 y0 x1 y1) 0 2 = (x1 ^ 1 - x0 ^ 1) / 1 * ((y1 ^ 3 - y0 ^ 3) / 3) := by
  unfold rect; quad_unfold; ring

/-- twice the signed area of the triangle `p q r` -/
def triCross (p q r : Pt) : Rat := (q.x - p.x) * (r.y - p.y) - (q.y - p.y) * (r.x - p.x)

theorem triangle_area (p q r : Pt) : Jordan.area (Jordan.fromVertices [p, q, r]) = triCross p q r / 2 := by
  unfold triCross; quad_unfold; ring
theorem triangle_moment_00 (p q r : Pt) :
    Jordan.moment (Jordan.fromVertices [p, q, r]) 0 0 = triCross p q r / 2 := by
  unfold triCross; quad_unfold; ring
/-- first moments = area × centroid -/
theorem triangle_moment_10 (p q r : Pt) :
    Jordan.moment (Jordan.fromVertices [p, q, r]) 1 0 = triCross p q r / 2 * ((p.x + q.x + r.x) / 3) := by
  unfold triCross; quad_unfold; ring
theorem triangle_moment_01 (p q r : Pt) :
    Jordan.moment (Jordan.fromVertices [p, q, r]) 0 1 = triCross p q r / 2 * ((p.y + q.y + r.y) / 3) := by
  unfold triCross; quad_unfold; ring

/-- a curved anchor (Archimedes): the region between a quadratic arc and its chord has 2/3 of the area of
the control triangle -/
theorem parabola_segment_area (p0 p1 p2 : Pt) :
    Jordan.area [[p0, p1, p2], [p2, p0]] = 2 / 3 * (triCross p0 p1 p2 / 2) := by
  unfold triCross; quad_unfold; ring

/-- a cubic anchor: the region between a cubic arc and its chord -/
theorem cubic_segment_area (p0 p1 p2 p3 : Pt) :
    Jordan.area [[p0, p1, p2, p3], [p3, p0]]
      = 3 / 20 * (Pt.cross (p1 - p0) (p2 - p0) + Pt.cross (p1 - p0) (p3 - p0)
          + 2 * Pt.cross (p2 - p0) (p3 - p0)) := by
  quad_unfold; simp [Pt.cross]; ring

/-! ### reversal -/

/-- the node count used for the reflection argument (any count ≥ 12 ≤ `tableN` would do; 16 keeps the
kernel computation short) -/
abbrev symN : Nat := 16

/-- the 16-node rule is symmetric about 1/2: reflected nodes, same weights -/
theorem quad_sym_table :
    (((openNodes symN).zip (openWeights symN)).reverse.map fun xw => (1 - xw.1, xw.2))
      = (openNodes symN).zip (openWeights symN) := by decide +kernel

theorem quad_reflect (f : Rat → Rat) : quad symN (fun t => f (1 - t)) = quad symN f := by
  rw [quad_eq_sum, quad_eq_sum]
  conv_rhs => rw [← quad_sym_table]
  rw [List.map_map, List.map_reverse, List.sum_reverse]
  rfl

theorem exactVertical_reverse_of (s r : Seg) (hs : DerivOK s) (hr : DerivOK r) (hlen : r.length = s.length)
    (h2 : 2 ≤ s.length) (hev : ∀ t, evalSeg r t = evalSeg s (1 - t))
    (hdv : ∀ t, (evalSeg (derivSeg r) t).y = -(evalSeg (derivSeg s) (1 - t)).y)
    (a b : Nat) (hdeg : (a + b + 1) * (s.length - 1) ≤ symN) :
    exactVertical r a b = - exactVertical s a b := by
  have h24 : exactCount symN = symN := by decide
  rw [← verticalN_eq_exact s hs h2 a b symN (by decide) (by decide) (by rw [h24]; exact hdeg),
    ← verticalN_eq_exact r hr (by omega) a b symN (by decide) (by decide) (by rw [h24, hlen]; exact hdeg)]
  unfold verticalN
  rw [← quad_reflect (fun t => (evalSeg s t).x ^ a * (evalSeg s t).y ^ b * (evalSeg (derivSeg s) t).y),
    ← quad_neg]
  apply quad_congr
  intro t
  rw [hev t, hdv t]; ring

theorem evalSeg_reverse_1 (p0 p1 : Pt) (t : Rat) : evalSeg [p1, p0] t = evalSeg [p0, p1] (1 - t) := by
  bez_unfold; constructor <;> ring
theorem evalSeg_reverse_2 (p0 p1 p2 : Pt) (t : Rat) : evalSeg [p2, p1, p0] t = evalSeg [p0, p1, p2] (1 - t) := by
  bez_unfold; constructor <;> ring
theorem evalSeg_reverse_3 (p0 p1 p2 p3 : Pt) (t : Rat) :
    evalSeg [p3, p2, p1, p0] t = evalSeg [p0, p1, p2, p3] (1 - t) := by
  bez_unfold; constructor <;> ring

theorem derivSeg_reverse_1 (p0 p1 : Pt) (t : Rat) :
    (evalSeg (derivSeg [p1, p0]) t).y = -(evalSeg (derivSeg [p0, p1]) (1 - t)).y := by
  simp [derivSeg, Pt.smul]; bez_unfold
theorem derivSeg_reverse_2 (p0 p1 p2 : Pt) (t : Rat) :
    (evalSeg (derivSeg [p2, p1, p0]) t).y = -(evalSeg (derivSeg [p0, p1, p2]) (1 - t)).y := by
  simp [derivSeg, Pt.smul]; bez_unfold; ring
theorem derivSeg_reverse_3 (p0 p1 p2 p3 : Pt) (t : Rat) :
    (evalSeg (derivSeg [p3, p2, p1, p0]) t).y = -(evalSeg (derivSeg [p0, p1, p2, p3]) (1 - t)).y := by
  simp [derivSeg, Pt.smul]; bez_unfold; ring

theorem exactVertical_reverse_line (p0 p1 : Pt) (a b : Nat) (h : a + b + 1 ≤ symN) :
    exactVertical [p0, p1].reverse a b = - exactVertical [p0, p1] a b :=
  exactVertical_reverse_of [p0, p1] [p1, p0] (derivOK_1 _ _) (derivOK_1 _ _) rfl (by simp)
    (evalSeg_reverse_1 p0 p1) (derivSeg_reverse_1 p0 p1) a b (by simp; omega)

theorem exactVertical_reverse_quadratic (p0 p1 p2 : Pt) (a b : Nat) (h : a + b ≤ 7) :
    exactVertical [p0, p1, p2].reverse a b = - exactVertical [p0, p1, p2] a b :=
  exactVertical_reverse_of [p0, p1, p2] [p2, p1, p0] (derivOK_2 _ _ _) (derivOK_2 _ _ _) rfl (by simp)
    (evalSeg_reverse_2 p0 p1 p2) (derivSeg_reverse_2 p0 p1 p2) a b (by simp [symN]; omega)

theorem exactVertical_reverse_cubic (p0 p1 p2 p3 : Pt) (a b : Nat) (h : a + b ≤ 4) :
    exactVertical [p0, p1, p2, p3].reverse a b = - exactVertical [p0, p1, p2, p3] a b :=
  exactVertical_reverse_of [p0, p1, p2, p3] [p3, p2, p1, p0] (derivOK_3 _ _ _ _) (derivOK_3 _ _ _ _) rfl (by simp)
    (evalSeg_reverse_3 p0 p1 p2 p3) (derivSeg_reverse_3 p0 p1 p2 p3) a b (by simp [symN]; omega)

/-- reversal of any segment of degree ≤ 3 negates ∫ x^a y^b dy (`a + b ≤ 4`) -/
theorem exactVertical_reverse (s : Seg) (hs : DegLe3 s) (a b : Nat) (h : a + b ≤ 4) :
    exactVertical s.reverse a b = - exactVertical s a b := by
  rcases hs with hs | hs | hs
  · obtain ⟨p, q, rfl⟩ := seg_len2 hs
    exact exactVertical_reverse_line p q a b (by unfold symN; omega)
  · obtain ⟨p, q, r, rfl⟩ := seg_len3 hs
    exact exactVertical_reverse_quadratic p q r a b (by omega)
  · obtain ⟨p, q, r, u, rfl⟩ := seg_len4 hs
    exact exactVertical_reverse_cubic p q r u a b h

theorem jordanExactVertical_invert (j : Jordan) (hj : ∀ s ∈ j, DegLe3 s) (a b : Nat) (h : a + b ≤ 4) :
    jordanExactVertical j.invert a b = - jordanExactVertical j a b := by
  unfold Jordan.invert jordanExactVertical
  rw [List.map_reverse, List.sum_reverse, List.map_map]
  induction j with
  | nil => simp
  | cons s j ih =>
    simp only [List.map_cons, List.sum_cons, Function.comp]
    rw [ih (fun s hs => hj s (List.mem_cons_of_mem _ hs)), exactVertical_reverse s (hj s (by simp)) a b h]
    ring

/-- `invert` flips the sign of every moment (`a + b ≤ 3`), for curves of degree ≤ 3 -/
theorem moment_invert (j : Jordan) (hj : ∀ s ∈ j, DegLe3 s) (a b : Nat) (h : a + b ≤ 3) :
    Jordan.moment j.invert a b = - Jordan.moment j a b := by
  unfold Jordan.moment
  rw [jordanExactVertical_invert j hj (a + 1) b (by omega)]
  ring

theorem area_invert (j : Jordan) (hj : ∀ s ∈ j, DegLe3 s) : Jordan.area j.invert = - Jordan.area j :=
  jordanExactVertical_invert j hj 1 0 (by omega)

end ShapeVerif
