/- Closed curves with pieces of EVERY degree: the end points of a Bézier piece are its first and last
control points, `∫₀¹ y'(t) dt = y(1) − y(0)` on coefficient lists (fundamental theorem), hence `∮ dy = 0`
around a closed chain, and the area `∮ x dy` does not depend on the position of the curve. -/
import ShapeVerif.Model.Jordan
import ShapeVerif.Proofs.Quadrature
import ShapeVerif.Proofs.QuadGen
import ShapeVerif.Proofs.BernsteinGen
import ShapeVerif.Proofs.DerivGen
import ShapeVerif.Proofs.AffineGen
import ShapeVerif.Proofs.ReverseGen
import Mathlib.Tactic.Ring
import Mathlib.Tactic.Linarith
import Mathlib.Algebra.BigOperators.Group.Finset.Basic

namespace ShapeVerif

/-! ### end points -/

theorem evalCoord_zero_headD (cs : List Rat) (hs : cs ≠ []) : evalCoord cs 0 = cs.headD 0 := by
  rw [evalCoord_eq_sum]
  have hpos : 0 < cs.length := List.length_pos_iff.mpr hs
  rw [Finset.sum_eq_single 0]
  · cases cs with
    | nil => exact absurd rfl hs
    | cons c cs => simp
  · intro i _ hi
    rw [zero_pow hi]; ring
  · intro h
    exact absurd (Finset.mem_range.mpr hpos) h

theorem evalSeg_zero (s : Seg) (hs : s ≠ []) : evalSeg s 0 = s.headD Pt.zero := by
  cases s with
  | nil => exact absurd rfl hs
  | cons p s =>
    unfold evalSeg
    rw [evalCoord_zero_headD _ (by simp [Seg.xs]), evalCoord_zero_headD _ (by simp [Seg.ys])]
    simp [Seg.xs, Seg.ys]

theorem evalSeg_one (s : Seg) (hs : s ≠ []) : evalSeg s 1 = s.getLastD Pt.zero := by
  have h := evalSeg_reverse s 0
  have e : (1 : Rat) - 0 = 1 := by ring
  rw [e] at h
  rw [← h, evalSeg_zero s.reverse (by simpa using hs)]
  cases hr : s.reverse with
  | nil => exact absurd (List.reverse_eq_nil_iff.mp hr) hs
  | cons p r =>
    have : s = (p :: r).reverse := by rw [← hr, List.reverse_reverse]
    rw [this]
    simp

/-! ### the fundamental theorem on coefficient lists -/

theorem peval_one (p : List Rat) : peval p 1 = p.sum := by
  induction p with
  | nil => rfl
  | cons c p ih => rw [peval_cons, ih, List.sum_cons]; ring

theorem peval_zero (c : Rat) (p : List Rat) : peval (c :: p) 0 = c := by
  rw [peval_cons]; ring

private theorem pint_pderiv_aux (q : List Rat) (o : Nat) :
    ((((q.zipIdx o).map fun ck : Rat × Nat => ((ck.2 + 1 : Nat) : Rat) * ck.1).zipIdx o).map
      fun ck : Rat × Nat => ck.1 / ((ck.2 + 1 : Nat) : Rat)).sum = q.sum := by
  induction q generalizing o with
  | nil => rfl
  | cons a q ih =>
    simp only [List.zipIdx_cons, List.map_cons, List.sum_cons]
    rw [ih (o + 1)]
    have h : ((o + 1 : Nat) : Rat) ≠ 0 := by
      exact_mod_cast Nat.succ_ne_zero o
    rw [mul_div_cancel_left₀ a h]

/-- ∫₀¹ p' = p(1) − p(0) -/
theorem pint01_pderiv (p : List Rat) : pint01 (pderiv p) = peval p 1 - peval p 0 := by
  cases p with
  | nil => simp [pderiv, pint01, peval_nil]
  | cons c q =>
    rw [peval_zero, peval_cons, peval_one]
    have h := pint_pderiv_aux q 0
    unfold pint01 pderiv
    rw [h]; ring

/-- the integral of a coefficient list depends only on the polynomial function -/
theorem pint01_congr (p q : List Rat) (h : ∀ t, peval p t = peval q t) : pint01 p = pint01 q := by
  have hp := quad_exact_poly_all (p.length + q.length + 1) (by omega) p (by omega)
  have hq := quad_exact_poly_all (p.length + q.length + 1) (by omega) q (by omega)
  rw [← hp, ← hq]
  exact quad_congr _ h

theorem exactVertical_dy (s : Seg) (hs : 2 ≤ s.length) :
    exactVertical s 0 0 = (s.getLastD Pt.zero).y - (s.headD Pt.zero).y := by
  have hne : s ≠ [] := by
    intro h; rw [h] at hs; simp at hs
  have h1 : exactVertical s 0 0 = pint01 (pderiv (coordPoly s.ys)) := by
    rw [exactVertical_eq]
    apply pint01_congr
    intro t
    unfold integrandPoly
    rw [peval_pmul, peval_pmul, peval_ppow, peval_ppow]
    ring
  rw [h1, pint01_pderiv, peval_coordPoly, peval_coordPoly]
  have e1 : evalCoord s.ys 1 = (evalSeg s 1).y := rfl
  have e0 : evalCoord s.ys 0 = (evalSeg s 0).y := rfl
  rw [e1, e0, evalSeg_one s hne, evalSeg_zero s hne]

/-! ### translation -/

theorem exactVertical_move (s : Seg) (hs : 2 ≤ s.length) (d : Pt) :
    exactVertical (s.map (·.move d)) 1 0 = exactVertical s 1 0 + d.x * exactVertical s 0 0 := by
  have hne : s ≠ [] := by
    intro h; rw [h] at hs; simp at hs
  have hn : 1 ≤ 2 * (s.length - 1) := by omega
  have hlen : (s.map (·.move d)).length = s.length := List.length_map _
  rw [← verticalN_eq_exact_all s hs 1 0 (2 * (s.length - 1)) hn (by omega),
    ← verticalN_eq_exact_all s hs 0 0 (2 * (s.length - 1)) hn (by omega),
    ← verticalN_eq_exact_all (s.map (·.move d)) (by rw [hlen]; exact hs) 1 0 (2 * (s.length - 1)) hn
      (by omega)]
  unfold verticalN
  simp only
  rw [← quad_smul, ← quad_add]
  apply quad_congr
  intro t
  rw [derivSeg_map_move s hs d, evalSeg_map_move s hne d t]
  simp only [Pt.move]
  ring

theorem jordanExactVertical_move (j : Jordan) (hj : ∀ s ∈ j, 2 ≤ s.length) (d : Pt) :
    jordanExactVertical (j.map (·.move d)) 1 0
      = jordanExactVertical j 1 0 + d.x * jordanExactVertical j 0 0 := by
  unfold Jordan.map jordanExactVertical
  induction j with
  | nil => simp
  | cons s j ih =>
    simp only [List.map_cons, List.sum_cons]
    rw [ih (fun s hs => hj s (List.mem_cons_of_mem _ hs)), exactVertical_move s (hj s (by simp)) d]
    ring

theorem area_move_closed (j : Jordan) (hj : ∀ s ∈ j, 2 ≤ s.length) (hc : jordanExactVertical j 0 0 = 0) (d : Pt) :
    Jordan.area (j.map (·.move d)) = Jordan.area j := by
  unfold Jordan.area
  rw [jordanExactVertical_move j hj d, hc]
  ring

/-! ### closed chains -/

theorem jordanExactVertical_dy (j : Jordan) (hj : ∀ s ∈ j, 2 ≤ s.length) :
    jordanExactVertical j 0 0
      = (List.map (fun s : Seg => (s.getLastD Pt.zero).y - (s.headD Pt.zero).y) j).sum := by
  unfold jordanExactVertical
  rw [List.map_congr_left fun s hs => exactVertical_dy s (hj s hs)]

/-- the telescoping sum along an open chain `s, l…` followed by `z` -/
theorem chain_dy_sum : ∀ (l : List Seg) (s z : Seg),
    (∀ p ∈ (s :: l).zip (l ++ [z]), (p.1.getLastD Pt.zero).y = (p.2.headD Pt.zero).y) →
    (List.map (fun s : Seg => (s.getLastD Pt.zero).y - (s.headD Pt.zero).y) (s :: l)).sum
      = (z.headD Pt.zero).y - (s.headD Pt.zero).y
  | [], s, z, h => by
    have := h (s, z) (by simp)
    simp only at this
    simp only [List.map_cons, List.map_nil, List.sum_cons, List.sum_nil]
    rw [this]; ring
  | y :: l, s, z, h => by
    have h1 := h (s, y) (by simp)
    have ih := chain_dy_sum l y z (fun ab hab => h ab (by
      simp only [List.cons_append, List.zip_cons_cons, List.mem_cons] at hab ⊢
      exact Or.inr hab))
    simp only at h1
    simp only [List.map_cons, List.sum_cons] at ih ⊢
    rw [ih, h1]; ring

theorem closed_chain_dy (j : Jordan) (hj : ∀ s ∈ j, 2 ≤ s.length)
    (hchain : ∀ p ∈ j.zip (j.tail ++ j.take 1), (p.1.getLastD Pt.zero).y = (p.2.headD Pt.zero).y) :
    jordanExactVertical j 0 0 = 0 := by
  rw [jordanExactVertical_dy j hj]
  cases j with
  | nil => rfl
  | cons s0 t =>
    rw [chain_dy_sum t s0 s0 (by simpa using hchain)]
    ring

end ShapeVerif
