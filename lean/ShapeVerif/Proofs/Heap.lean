/- helper lemmas about the object-graph model (M6): cells, curves, variables, one-step specification -/
import ShapeVerif.Model.Heap

namespace ShapeVerif

/-! ### generic list facts -/

/-- an invariant established for the start value and preserved by every step holds after `foldl` -/
theorem foldl_inv {α β : Type} (P : β → Prop) (f : β → α → β) (l : List α) (b : β)
    (h0 : P b) (hs : ∀ b a, a ∈ l → P b → P (f b a)) : P (l.foldl f b) := by
  induction l generalizing b with
  | nil => exact h0
  | cons a t ih =>
    simp only [List.foldl_cons]
    exact ih (f b a) (hs b a (by simp) h0) (fun b' a' ha' hb' => hs b' a' (by simp [ha']) hb')

theorem getD_append_lt {α : Type} (l m : List α) (i : Nat) (d : α) (hi : i < l.length) :
    (l ++ m).getD i d = l.getD i d := by
  simp [List.getD_eq_getElem?_getD, List.getElem?_append_left hi]

theorem getD_append_ge {α : Type} (l m : List α) (k : Nat) (d : α) :
    (l ++ m).getD (l.length + k) d = m.getD k d := by
  simp [List.getD_eq_getElem?_getD, List.getElem?_append_right]

theorem map_map_cancel (f g : Pt → Pt) (hgf : ∀ p, g (f p) = p) (j : Jordan) :
    List.map (List.map g) (List.map (List.map f) j) = j := by
  simp [List.map_map, Function.comp_def, hgf]

namespace Heap

/-! ### `dedupNat`: same members, no duplicates -/

theorem mem_dedupFold (l acc : List Nat) (i : Nat) :
    i ∈ l.foldl (fun acc i => if acc.contains i then acc else acc ++ [i]) acc ↔ i ∈ acc ∨ i ∈ l := by
  induction l generalizing acc with
  | nil => simp
  | cons a t ih =>
    simp only [List.foldl_cons, ih, List.mem_cons]
    by_cases h : acc.contains a = true
    · have : a ∈ acc := List.contains_iff_mem.mp h
      simp only [h, if_true]
      grind
    · simp only [h]
      grind

theorem nodup_dedupFold (l acc : List Nat) (h : acc.Nodup) :
    (l.foldl (fun acc i => if acc.contains i then acc else acc ++ [i]) acc).Nodup := by
  induction l generalizing acc with
  | nil => simpa using h
  | cons a t ih =>
    simp only [List.foldl_cons]
    apply ih
    by_cases hc : acc.contains a = true
    · rw [if_pos hc]; exact h
    · have : a ∉ acc := fun hm => hc (List.contains_iff_mem.mpr hm)
      rw [if_neg hc, List.nodup_append]
      refine ⟨h, by simp, ?_⟩
      intro x hx y hy
      simp only [List.mem_singleton] at hy
      subst hy
      intro e; subst e; exact this hx

theorem mem_dedupNat (l : List Nat) (i : Nat) : i ∈ dedupNat l ↔ i ∈ l := by
  unfold dedupNat; rw [mem_dedupFold]; simp

theorem nodup_dedupNat (l : List Nat) : (dedupNat l).Nodup := by
  unfold dedupNat; exact nodup_dedupFold l [] (by simp)

/-- `ids c` lists exactly the cell ids occurring in the segments of `c` … -/
theorem mem_ids (c : HCurve) (i : Nat) : i ∈ ids c ↔ i ∈ c.segs.flatten := mem_dedupNat _ _

/-- … each of them once (this is why a transformation touches each vertex once) -/
theorem nodup_ids (c : HCurve) : (ids c).Nodup := nodup_dedupNat _

/-! ### `mapCells`: each listed cell is updated exactly once, all other cells are untouched -/

theorem length_mapFold (f : Pt → Pt) (is : List Nat) (cells : List Pt) :
    (is.foldl (fun cs i => cs.set i (f (cs.getD i Pt.zero))) cells).length = cells.length := by
  induction is generalizing cells with
  | nil => rfl
  | cons a t ih => simp only [List.foldl_cons, ih, List.length_set]

theorem getD_mapFold_not_mem (f : Pt → Pt) (is : List Nat) (cells : List Pt) (j : Nat) (hj : j ∉ is) :
    (is.foldl (fun cs i => cs.set i (f (cs.getD i Pt.zero))) cells).getD j Pt.zero
      = cells.getD j Pt.zero := by
  induction is generalizing cells with
  | nil => rfl
  | cons a t ih =>
    simp only [List.mem_cons, not_or] at hj
    simp only [List.foldl_cons]
    rw [ih _ hj.2]
    simp only [List.getD_eq_getElem?_getD, List.getElem?_set]
    have : a ≠ j := fun e => hj.1 e.symm
    simp [this]

theorem getD_mapFold_mem (f : Pt → Pt) (is : List Nat) (cells : List Pt) (j : Nat)
    (hn : is.Nodup) (hj : j ∈ is) (hlt : j < cells.length) :
    (is.foldl (fun cs i => cs.set i (f (cs.getD i Pt.zero))) cells).getD j Pt.zero
      = f (cells.getD j Pt.zero) := by
  induction is generalizing cells with
  | nil => simp at hj
  | cons a t ih =>
    simp only [List.foldl_cons]
    rw [List.nodup_cons] at hn
    rcases List.mem_cons.mp hj with e | hjt
    · subst e
      rw [getD_mapFold_not_mem f t _ j hn.1]
      simp [List.getD_eq_getElem?_getD, hlt]
    · have hne : a ≠ j := fun e => hn.1 (e ▸ hjt)
      rw [ih _ hn.2 hjt (by simpa using hlt)]
      simp [List.getD_eq_getElem?_getD, hne]

/-! ### variables: `lookup`, `setVar` -/

theorem lookup_mem {h : Heap} {v : Nat} {c : HCurve} (hl : h.lookup v = some c) : (v, c) ∈ h.vars := by
  unfold lookup at hl
  rcases Option.map_eq_some_iff.mp hl with ⟨a, ha, rfl⟩
  have h1 := List.find?_some ha
  have h2 := List.mem_of_find?_eq_some ha
  have : a.1 = v := by simpa using h1
  subst this
  exact h2

theorem find?_filter_ne (l : List (Nat × HCurve)) (v w : Nat) (hne : v ≠ w) :
    (l.filter fun p => p.1 != v).find? (fun p => p.1 == w) = l.find? (fun p => p.1 == w) := by
  induction l with
  | nil => rfl
  | cons a t ih =>
    obtain ⟨x, cx⟩ := a
    by_cases h1 : x = v
    · subst h1
      rw [List.filter_cons_of_neg (by simp), List.find?_cons_of_neg (by simpa using hne), ih]
    · rw [List.filter_cons_of_pos (by simpa using h1)]
      simp only [List.find?_cons, ih]

theorem lookup_setVar_ne (h : Heap) (v w : Nat) (c : HCurve) (hne : v ≠ w) :
    (h.setVar v c).lookup w = h.lookup w := by
  unfold lookup setVar
  simp only [List.find?_cons]
  have : ((v, c).1 == w) = false := by simpa using hne
  rw [this]
  simp only [find?_filter_ne _ v w hne]

theorem lookup_setVar_self (h : Heap) (v : Nat) (c : HCurve) : (h.setVar v c).lookup v = some c := by
  simp [lookup, setVar]

theorem mem_setVar (h : Heap) (v : Nat) (c : HCurve) (w : Nat) (d : HCurve) :
    (w, d) ∈ (h.setVar v c).vars ↔ (w = v ∧ d = c) ∨ ((w, d) ∈ h.vars ∧ w ≠ v) := by
  simp [setVar, List.mem_filter]

theorem geom_setVar (h : Heap) (v : Nat) (c : HCurve) : (h.setVar v c).geom = h.geom := rfl

theorem cells_setVar (h : Heap) (v : Nat) (c : HCurve) : (h.setVar v c).cells = h.cells := rfl

/-- the geometry of a curve depends only on the cells it mentions -/
theorem geom_congr (h1 h2 : Heap) (c : HCurve)
    (hc : ∀ i ∈ c.segs.flatten, h1.cell i = h2.cell i) : h1.geom c = h2.geom c := by
  unfold geom
  apply List.map_congr_left
  intro s hs
  apply List.map_congr_left
  intro i hi
  exact hc i (List.mem_flatten.mpr ⟨s, hs, hi⟩)

/-! ### the invariants at the `Prop` level -/

/-- well-formed heaps: variable names are pairwise distinct and every id used by a variable's curve
addresses an allocated cell -/
structure WF (h : Heap) : Prop where
  names : (h.vars.map Prod.fst).Nodup
  bound : ∀ v c, (v, c) ∈ h.vars → ∀ i ∈ c.segs.flatten, i < h.cells.length

/-- distinct variables own disjoint cells -/
def Sep (h : Heap) : Prop :=
  ∀ v c w d, (v, c) ∈ h.vars → (w, d) ∈ h.vars → v ≠ w → ∀ i ∈ c.segs.flatten, i ∉ d.segs.flatten

/-- a cached length was computed from the current geometry -/
def CacheOK (h : Heap) : Prop :=
  ∀ v c g, (v, c) ∈ h.vars → c.cache = some g → g = h.geom c

theorem sep_iff (h : Heap) : h.sep = true ↔ h.Sep := by
  unfold sep Sep
  simp only [List.all_eq_true, Bool.or_eq_true, beq_iff_eq, Bool.not_eq_true',
    Prod.forall]
  constructor
  · intro H v c w d hv hw hne i hi
    rcases H v c hv w d hw with e | e
    · exact absurd e hne
    · have := e i ((mem_ids c i).mpr hi)
      intro hd
      have h2 : (ids d).contains i = true := List.contains_iff_mem.mpr ((mem_ids d i).mpr hd)
      rw [this] at h2; cases h2
  · intro H v c hv w d hw
    by_cases e : v = w
    · exact Or.inl e
    · refine Or.inr fun i hi => ?_
      have := H v c w d hv hw e i ((mem_ids c i).mp hi)
      cases hc : (ids d).contains i with
      | false => rfl
      | true => exact absurd ((mem_ids d i).mp (List.contains_iff_mem.mp hc)) this

theorem cacheOK_iff (h : Heap) : h.cacheOK = true ↔ h.CacheOK := by
  unfold cacheOK CacheOK
  simp only [List.all_eq_true, Prod.forall]
  constructor
  · intro H v c g hv hg
    have := H v c hv
    rw [hg] at this
    simpa using this
  · intro H v c hv
    cases hg : c.cache with
    | none => rfl
    | some g => simpa using H v c g hv hg

theorem wf_init : init.WF := ⟨by simp [init], by simp [init]⟩
theorem sep_init : init.Sep := by intro v c w d hv; simp [init] at hv
theorem cacheOK_init : init.CacheOK := by intro v c g hv; simp [init] at hv

/-! ### the common shape of every operation

Every operation either leaves the heap untouched or produces `h'.setVar t c'` where `h'` has the same
variables as `h`, at least as many cells, agrees with `h` on every old cell that the old curve of the
target `t` does not own, and the new curve `c'` of `t` uses only cells that `t` owned before or that
are fresh. -/

structure Upd (h : Heap) (t : Nat) (h' : Heap) (c' : HCurve) : Prop where
  vars_eq : h'.vars = h.vars
  len_le : h.cells.length ≤ h'.cells.length
  frame : ∀ i, i < h.cells.length → (∀ c, h.lookup t = some c → i ∉ c.segs.flatten) →
    h'.cell i = h.cell i
  ids : ∀ i ∈ c'.segs.flatten, i < h'.cells.length ∧
    ((∃ c, h.lookup t = some c ∧ i ∈ c.segs.flatten) ∨ h.cells.length ≤ i)
  cache : ∀ g, c'.cache = some g → g = h'.geom c'

section generic
variable {h h' : Heap} {t : Nat} {c' : HCurve}

/-- under `Upd`, the geometry of every other variable's curve is the same in `h'` as in `h` -/
theorem Upd.geom_other (u : Upd h t h' c') (hw : h.WF) (hs : h.Sep) {w : Nat} {d : HCurve}
    (hd : (w, d) ∈ h.vars) (hne : w ≠ t) : h'.geom d = h.geom d := by
  apply geom_congr
  intro i hi
  apply u.frame i (hw.bound w d hd i hi)
  intro c hc hic
  exact hs t c w d (lookup_mem hc) hd (Ne.symm hne) i hic hi

theorem names_setVar (hn : (h.vars.map Prod.fst).Nodup) (v : Nat) (c : HCurve) :
    ((h.setVar v c).vars.map Prod.fst).Nodup := by
  unfold setVar
  simp only [List.map_cons, List.nodup_cons, List.mem_map, List.mem_filter, not_exists]
  constructor
  · rintro ⟨x, cx⟩ ⟨⟨_, h1⟩, h2⟩
    simp at h1 h2; exact h1 h2
  · exact hn.sublist (List.Sublist.map _ List.filter_sublist)

theorem Upd.wf (u : Upd h t h' c') (hw : h.WF) : (h'.setVar t c').WF := by
  constructor
  · apply names_setVar; rw [u.vars_eq]; exact hw.names
  · intro v c hv i hi
    rw [cells_setVar]
    rcases (mem_setVar _ _ _ _ _).mp hv with ⟨_, rfl⟩ | ⟨hm, _⟩
    · exact (u.ids i hi).1
    · rw [u.vars_eq] at hm
      exact Nat.lt_of_lt_of_le (hw.bound v c hm i hi) u.len_le

theorem Upd.sep (u : Upd h t h' c') (hw : h.WF) (hs : h.Sep) : (h'.setVar t c').Sep := by
  have key : ∀ w d, (w, d) ∈ h.vars → w ≠ t → ∀ i ∈ c'.segs.flatten, i ∉ d.segs.flatten := by
    intro w d hd hne i hi hid
    rcases (u.ids i hi).2 with ⟨c, hc, hic⟩ | hge
    · exact hs t c w d (lookup_mem hc) hd (Ne.symm hne) i hic hid
    · exact absurd (hw.bound w d hd i hid) (Nat.not_lt.mpr hge)
  intro v c w d hv hwd hne i hi hid
  rcases (mem_setVar _ _ _ _ _).mp hv with ⟨rfl, rfl⟩ | ⟨hm, hvt⟩
  · rcases (mem_setVar _ _ _ _ _).mp hwd with ⟨rfl, _⟩ | ⟨hm2, hwt⟩
    · exact hne rfl
    · rw [u.vars_eq] at hm2; exact key w d hm2 hwt i hi hid
  · rw [u.vars_eq] at hm
    rcases (mem_setVar _ _ _ _ _).mp hwd with ⟨rfl, rfl⟩ | ⟨hm2, hwt⟩
    · exact key v c hm hvt i hid hi
    · rw [u.vars_eq] at hm2; exact hs v c w d hm hm2 hne i hi hid

theorem Upd.cacheOK (u : Upd h t h' c') (hw : h.WF) (hs : h.Sep) (hc : h.CacheOK) :
    (h'.setVar t c').CacheOK := by
  intro v c g hv hg
  rw [geom_setVar]
  rcases (mem_setVar _ _ _ _ _).mp hv with ⟨_, rfl⟩ | ⟨hm, hvt⟩
  · exact u.cache g hg
  · rw [u.vars_eq] at hm
    rw [u.geom_other hw hs hm hvt]
    exact hc v c g hm hg

/-- frame: the geometry of every variable other than the target is unchanged -/
theorem Upd.frame_other (u : Upd h t h' c') (hw : h.WF) (hs : h.Sep) {w : Nat} (hne : t ≠ w) :
    ((h'.setVar t c').lookup w).map (h'.setVar t c').geom = (h.lookup w).map h.geom := by
  rw [lookup_setVar_ne _ _ _ _ hne, geom_setVar]
  have e : h'.lookup w = h.lookup w := by unfold lookup; rw [u.vars_eq]
  rw [e]
  cases hl : h.lookup w with
  | none => rfl
  | some d =>
    simp only [Option.map_some]
    rw [u.geom_other hw hs (lookup_mem hl) (Ne.symm hne)]

end generic

/-! ### every operation has the common shape -/

theorem upd_map {h : Heap} (hw : h.WF) {v : Nat} {c : HCurve} (hl : h.lookup v = some c) (f : Pt → Pt) :
    Upd h v (h.mapCells (ids c) f) { c with cache := none } where
  vars_eq := rfl
  len_le := by simp only [mapCells, length_mapFold]; exact Nat.le_refl _
  frame := by
    intro i _ hn
    unfold cell mapCells
    exact getD_mapFold_not_mem f _ _ i (fun hm => hn c hl ((mem_ids c i).mp hm))
  ids := by
    intro i hi
    refine ⟨?_, Or.inl ⟨c, hl, hi⟩⟩
    simp only [mapCells, length_mapFold]
    exact hw.bound v c (lookup_mem hl) i hi
  cache := by intro g hg; cases hg

theorem upd_poly (h : Heap) (v : Nat) (vs : List Pt) :
    Upd h v ⟨h.cells ++ vs, h.vars⟩
      ⟨(List.range vs.length).map fun i => [h.cells.length + i, h.cells.length + (i + 1) % vs.length],
        none⟩ where
  vars_eq := rfl
  len_le := by simp
  frame := by
    intro i hi _
    unfold cell
    exact getD_append_lt _ _ _ _ hi
  ids := by
    intro i hi
    simp only [List.mem_flatten, List.mem_map, List.mem_range] at hi
    obtain ⟨s, ⟨k, hk, rfl⟩, his⟩ := hi
    have hm : (k + 1) % vs.length < vs.length := Nat.mod_lt _ (by omega)
    simp only [List.mem_cons, List.not_mem_nil, or_false] at his
    simp only [List.length_append]
    rcases his with rfl | rfl <;> exact ⟨by omega, Or.inr (by omega)⟩
  cache := by intro g hg; cases hg

theorem upd_invert {h : Heap} (hw : h.WF) {v : Nat} {c : HCurve} (hl : h.lookup v = some c) :
    Upd h v h ⟨(c.segs.map List.reverse).reverse, none⟩ where
  vars_eq := rfl
  len_le := Nat.le_refl _
  frame := fun _ _ _ => rfl
  ids := by
    intro i hi
    have hi' : i ∈ c.segs.flatten := by
      simp only [List.mem_flatten, List.mem_reverse, List.mem_map] at hi ⊢
      obtain ⟨s, ⟨s0, hs0, rfl⟩, his⟩ := hi
      exact ⟨s0, hs0, by simpa using his⟩
    exact ⟨hw.bound v c (lookup_mem hl) i hi', Or.inl ⟨c, hl, hi'⟩⟩
  cache := by intro g hg; cases hg

theorem upd_len {h : Heap} (hw : h.WF) {v : Nat} {c : HCurve} (hl : h.lookup v = some c) :
    Upd h v h { c with cache := some (h.geom c) } where
  vars_eq := rfl
  len_le := Nat.le_refl _
  frame := fun _ _ _ => rfl
  ids := fun i hi => ⟨hw.bound v c (lookup_mem hl) i hi, Or.inl ⟨c, hl, hi⟩⟩
  cache := by intro g hg; cases hg; rfl

theorem copyCurve_eq (h : Heap) (c : HCurve) :
    h.copyCurve c = (⟨h.cells ++ (ids c).map h.cell, h.vars⟩,
      ⟨c.segs.map fun s => s.map fun i => h.cells.length + (ids c).idxOf i, none⟩) := rfl

theorem upd_copy (h : Heap) (d : Nat) (c : HCurve) :
    Upd h d (h.copyCurve c).1 (h.copyCurve c).2 where
  vars_eq := rfl
  len_le := by simp [copyCurve_eq]
  frame := by
    intro i hi _
    rw [copyCurve_eq]
    unfold cell
    exact getD_append_lt _ _ _ _ hi
  ids := by
    intro i hi
    rw [copyCurve_eq] at hi ⊢
    simp only [List.mem_flatten, List.mem_map] at hi
    obtain ⟨s, ⟨s0, hs0, rfl⟩, his⟩ := hi
    simp only [List.mem_map] at his
    obtain ⟨j, hj, rfl⟩ := his
    have hj' : j ∈ ids c := (mem_ids c j).mpr (List.mem_flatten.mpr ⟨s0, hs0, hj⟩)
    have := List.idxOf_lt_length_iff.mpr hj'
    simp only [List.length_append, List.length_map]
    exact ⟨by omega, Or.inr (by omega)⟩
  cache := by intro g hg; rw [copyCurve_eq] at hg; cases hg

/-- a deep copy is value-equal to the original -/
theorem geom_copyCurve (h : Heap) (c : HCurve) : (h.copyCurve c).1.geom (h.copyCurve c).2 = h.geom c := by
  rw [copyCurve_eq]
  unfold geom
  simp only [List.map_map]
  apply List.map_congr_left
  intro s hs
  simp only [Function.comp_apply, List.map_map]
  apply List.map_congr_left
  intro j hj
  have hj' : j ∈ ids c := (mem_ids c j).mpr (List.mem_flatten.mpr ⟨s, hs, hj⟩)
  have hlt := List.idxOf_lt_length_iff.mpr hj'
  simp only [Function.comp_apply, cell]
  rw [getD_append_ge]
  simp [List.getD_eq_getElem?_getD, hlt, List.getElem_idxOf, cell]

/-! ### `split`: the fold that inserts fresh junction cells -/

/-- the body of the fold in `step (.split ..)`, named so that it can be reasoned about -/
def splitStep (kept : List (Nat × Rat)) (acc : Heap × List (List Nat)) :
    List Nat × Nat → Heap × List (List Nat)
  | (s, i) =>
    let ns := dedupNodes (sortRat ((kept.filter fun (k, _) => k == i).map (·.2)))
    match s with
    | [a, b] =>
      let pa := acc.1.cell a; let pb := acc.1.cell b
      let (hh, base) := acc.1.alloc (ns.map fun t => lerp pa pb t)
      let mids := (List.range ns.length).map (base + ·)
      let chain := a :: mids ++ [b]
      (hh, acc.2 ++ (chain.zip chain.tail).map fun (x, y) => [x, y])
    | _ => (acc.1, acc.2 ++ [s])

/-- result of the fold of `split` -/
def splitFold (h : Heap) (c : HCurve) (pairs : List (Nat × Rat)) : Heap × List (List Nat) :=
  c.segs.zipIdx.foldl (splitStep (pairs.filter fun (_, t) => keepNode t)) (h, [])

theorem step_split (h : Heap) (v : Nat) (pairs : List (Nat × Rat)) :
    h.step (.split v pairs) = match h.lookup v with
      | none => (h, "novar")
      | some c => ((splitFold h c pairs).1.setVar v ⟨(splitFold h c pairs).2, none⟩, "ok") := rfl

/-- what the fold of `split` maintains -/
structure SplitInv (h : Heap) (c : HCurve) (acc : Heap × List (List Nat)) : Prop where
  vars_eq : acc.1.vars = h.vars
  len_le : h.cells.length ≤ acc.1.cells.length
  frame : ∀ i, i < h.cells.length → acc.1.cell i = h.cell i
  ids : ∀ i ∈ acc.2.flatten, i < acc.1.cells.length ∧ (i ∈ c.segs.flatten ∨ h.cells.length ≤ i)

theorem splitStep_inv {h : Heap} {c : HCurve} (hb : ∀ i ∈ c.segs.flatten, i < h.cells.length)
    (kept : List (Nat × Rat)) (acc : Heap × List (List Nat)) (si : List Nat × Nat)
    (hsi : si.1 ∈ c.segs) (P : SplitInv h c acc) : SplitInv h c (splitStep kept acc si) := by
  obtain ⟨s, k⟩ := si
  simp only at hsi
  unfold splitStep
  simp only [alloc]
  split
  · rename_i a b
    have ha : a ∈ c.segs.flatten := List.mem_flatten.mpr ⟨_, hsi, by simp⟩
    have hbb : b ∈ c.segs.flatten := List.mem_flatten.mpr ⟨_, hsi, by simp⟩
    constructor
    · exact P.vars_eq
    · simp only [List.length_append]; have := P.len_le; omega
    · intro i hi
      rw [← P.frame i hi]
      unfold cell
      exact getD_append_lt _ _ _ _ (Nat.lt_of_lt_of_le hi P.len_le)
    · intro i hi
      simp only [List.length_append, List.length_map]
      simp only [List.flatten_append, List.mem_append] at hi
      have hl := P.len_le
      rcases hi with hi | hi
      · have := P.ids i hi
        exact ⟨by omega, this.2⟩
      · simp only [List.mem_flatten, List.mem_map] at hi
        obtain ⟨l, ⟨⟨x, y⟩, hxy, rfl⟩, hil⟩ := hi
        have hx := (List.of_mem_zip hxy).1
        have hy := List.mem_of_mem_tail (List.of_mem_zip hxy).2
        have hchain : i ∈ a :: (List.map (fun x => acc.1.cells.length + x)
            (List.range (dedupNodes (sortRat (List.map (fun x => x.2)
              (List.filter (fun x => x.1 == k) kept)))).length) ++ [b]) := by
          simp only [List.mem_cons, List.not_mem_nil, or_false] at hil
          rcases hil with rfl | rfl
          · exact hx
          · exact hy
        simp only [List.mem_cons, List.mem_append, List.mem_map, List.mem_range, List.not_mem_nil,
          or_false] at hchain
        rcases hchain with rfl | ⟨j, hj, rfl⟩ | rfl
        · have := hb _ ha; exact ⟨by omega, Or.inl ha⟩
        · exact ⟨by omega, Or.inr (by omega)⟩
        · have := hb _ hbb; exact ⟨by omega, Or.inl hbb⟩
  · constructor
    · exact P.vars_eq
    · exact P.len_le
    · exact P.frame
    · intro i hi
      simp only [List.flatten_append, List.mem_append, List.flatten_cons, List.flatten_nil,
        List.append_nil] at hi
      rcases hi with hi | hi
      · exact P.ids i hi
      · have hic : i ∈ c.segs.flatten := List.mem_flatten.mpr ⟨_, hsi, hi⟩
        exact ⟨Nat.lt_of_lt_of_le (hb i hic) P.len_le, Or.inl hic⟩

theorem splitFold_inv {h : Heap} {c : HCurve} (hb : ∀ i ∈ c.segs.flatten, i < h.cells.length)
    (pairs : List (Nat × Rat)) : SplitInv h c (splitFold h c pairs) := by
  unfold splitFold
  apply foldl_inv (SplitInv h c)
  · exact ⟨rfl, Nat.le_refl _, fun _ _ => rfl, by simp⟩
  · intro acc si hsi P
    exact splitStep_inv hb _ acc si (List.fst_mem_of_mem_zipIdx hsi) P

theorem upd_split {h : Heap} (hw : h.WF) {v : Nat} {c : HCurve} (hl : h.lookup v = some c)
    (pairs : List (Nat × Rat)) :
    Upd h v (splitFold h c pairs).1 ⟨(splitFold h c pairs).2, none⟩ := by
  have I := splitFold_inv (hw.bound v c (lookup_mem hl)) pairs
  exact {
    vars_eq := I.vars_eq
    len_le := I.len_le
    frame := fun i hi _ => I.frame i hi
    ids := fun i hi => ⟨(I.ids i hi).1, (I.ids i hi).2.imp (fun hc => ⟨c, hl, hc⟩) id⟩
    cache := by intro g hg; cases hg }

/-! ### one-step specification and the invariants along every history -/

end Heap

/-- the variable an operation writes -/
def HeapOp.target : HeapOp → Nat
  | .poly v _ => v
  | .move v _ => v
  | .scale v _ _ => v
  | .rot v _ _ => v
  | .invert v => v
  | .copy d _ => d
  | .adopt d _ => d
  | .len v => v
  | .split v _ => v

namespace Heap

theorem step_spec (h : Heap) (hw : h.WF) (op : HeapOp) :
    (h.step op).1 = h ∨ ∃ h' c', Upd h op.target h' c' ∧ (h.step op).1 = h'.setVar op.target c' := by
  cases op with
  | poly v vs => exact Or.inr ⟨_, _, upd_poly h v vs, rfl⟩
  | move v d =>
    cases hl : h.lookup v with
    | none => left; simp only [step, hl]
    | some c => right; exact ⟨_, _, upd_map hw hl (fun p => p.move d), by simp only [step, hl, HeapOp.target]⟩
  | scale v sx sy =>
    cases hl : h.lookup v with
    | none => left; simp only [step, hl]
    | some c => right; exact ⟨_, _, upd_map hw hl (fun p => p.scale sx sy), by simp only [step, hl, HeapOp.target]⟩
  | rot v cs sn =>
    cases hl : h.lookup v with
    | none => left; simp only [step, hl]
    | some c => right; exact ⟨_, _, upd_map hw hl (fun p => p.rot cs sn), by simp only [step, hl, HeapOp.target]⟩
  | invert v =>
    cases hl : h.lookup v with
    | none => left; simp only [step, hl]
    | some c => right; exact ⟨_, _, upd_invert hw hl, by simp only [step, hl, HeapOp.target]⟩
  | copy d s =>
    cases hl : h.lookup s with
    | none => left; simp only [step, hl]
    | some c => right; exact ⟨_, _, upd_copy h d c, by simp only [step, hl, HeapOp.target]⟩
  | adopt d s =>
    cases hl : h.lookup s with
    | none => left; simp only [step, hl]
    | some c => right; exact ⟨_, _, upd_copy h d c, by simp only [step, hl, HeapOp.target]⟩
  | len v =>
    cases hl : h.lookup v with
    | none => left; simp only [step, hl]
    | some c =>
      cases hg : c.cache with
      | some g => left; simp only [step, hl, hg]
      | none => right; exact ⟨_, _, upd_len hw hl, by simp only [step, hl, hg, HeapOp.target]⟩
  | split v pairs =>
    cases hl : h.lookup v with
    | none => left; simp only [step_split, hl]
    | some c => right; exact ⟨_, _, upd_split hw hl pairs, by simp only [step_split, hl, HeapOp.target]⟩

theorem wf_step {h : Heap} (hw : h.WF) (op : HeapOp) : (h.step op).1.WF := by
  rcases step_spec h hw op with e | ⟨h', c', u, e⟩ <;> rw [e]
  · exact hw
  · exact u.wf hw

theorem Sep_step {h : Heap} (hw : h.WF) (hs : h.Sep) (op : HeapOp) : (h.step op).1.Sep := by
  rcases step_spec h hw op with e | ⟨h', c', u, e⟩ <;> rw [e]
  · exact hs
  · exact u.sep hw hs

theorem CacheOK_step {h : Heap} (hw : h.WF) (hs : h.Sep) (hc : h.CacheOK) (op : HeapOp) :
    (h.step op).1.CacheOK := by
  rcases step_spec h hw op with e | ⟨h', c', u, e⟩ <;> rw [e]
  · exact hc
  · exact u.cacheOK hw hs hc

/-- frame: an operation does not change the geometry of any variable other than its target -/
theorem frame_step {h : Heap} (hw : h.WF) (hs : h.Sep) (op : HeapOp) {w : Nat} (hne : op.target ≠ w) :
    ((h.step op).1.lookup w).map (h.step op).1.geom = (h.lookup w).map h.geom := by
  rcases step_spec h hw op with e | ⟨h', c', u, e⟩ <;> rw [e]
  exact u.frame_other hw hs hne

/-- the three invariants together -/
structure Inv (h : Heap) : Prop where
  wf : h.WF
  sep : h.Sep
  cache : h.CacheOK

theorem inv_init : init.Inv := ⟨wf_init, sep_init, cacheOK_init⟩

theorem inv_step {h : Heap} (I : h.Inv) (op : HeapOp) : (h.step op).1.Inv :=
  ⟨wf_step I.wf op, Sep_step I.wf I.sep op, CacheOK_step I.wf I.sep I.cache op⟩

theorem inv_runOps {h : Heap} (I : h.Inv) (ops : List HeapOp) : (h.runOps ops).Inv := by
  induction ops generalizing h with
  | nil => exact I
  | cons op rest ih => exact ih (inv_step I op)

/-- heaps reachable from the empty heap -/
def Reachable (h : Heap) : Prop := ∃ ops, h = init.runOps ops

theorem Reachable.inv {h : Heap} (r : h.Reachable) : h.Inv := by
  obtain ⟨ops, rfl⟩ := r; exact inv_runOps inv_init ops

/-- the signed-length query answers from the current geometry whenever the cache is consistent -/
theorem lenAnswer_of_cacheOK {h : Heap} (hc : h.CacheOK) (v : Nat) :
    h.lenAnswer v = (h.lookup v).map h.geom := by
  unfold lenAnswer
  cases hl : h.lookup v with
  | none => rfl
  | some c =>
    simp only [Option.map_some]
    cases hg : c.cache with
    | none => rfl
    | some g => simp only [hc v c g (lookup_mem hl) hg]

/-- after a transformation the target's geometry is the image of its old geometry:
every vertex is transformed exactly once, whatever the sharing pattern of its segments -/
theorem geom_mapCells {h : Heap} (hw : h.WF) {v : Nat} {c : HCurve} (hl : h.lookup v = some c)
    (f : Pt → Pt) (c' : HCurve) (hc' : c'.segs = c.segs) :
    (((h.mapCells (ids c) f).setVar v c').lookup v).map ((h.mapCells (ids c) f).setVar v c').geom
      = some ((h.geom c).map f) := by
  rw [lookup_setVar_self, geom_setVar]
  simp only [Option.map_some, geom, hc', Jordan.map, List.map_map]
  congr 1
  apply List.map_congr_left
  intro s hs
  simp only [Function.comp_apply, List.map_map]
  apply List.map_congr_left
  intro i hi
  have hif : i ∈ c.segs.flatten := List.mem_flatten.mpr ⟨s, hs, hi⟩
  simp only [Function.comp_apply, cell, mapCells]
  exact getD_mapFold_mem f _ _ i (nodup_ids c) ((mem_ids c i).mpr hif)
    (hw.bound v c (lookup_mem hl) i hif)

/-- cell-level form of "each vertex exactly once": an owned cell receives `f` once … -/
theorem cell_mapCells_mem (h : Heap) (c : HCurve) (f : Pt → Pt) (i : Nat)
    (hi : i ∈ c.segs.flatten) (hlt : i < h.cells.length) :
    (h.mapCells (ids c) f).cell i = f (h.cell i) :=
  getD_mapFold_mem f _ _ i (nodup_ids c) ((mem_ids c i).mpr hi) hlt

/-- … and every other cell is untouched -/
theorem cell_mapCells_not_mem (h : Heap) (c : HCurve) (f : Pt → Pt) (i : Nat)
    (hi : i ∉ c.segs.flatten) : (h.mapCells (ids c) f).cell i = h.cell i :=
  getD_mapFold_not_mem f _ _ i (fun hm => hi ((mem_ids c i).mp hm))

theorem step_move (h : Heap) (v : Nat) (d : Pt) (c : HCurve) (hl : h.lookup v = some c) :
    (h.step (.move v d)).1 = (h.mapCells (ids c) fun p => p.move d).setVar v { c with cache := none } := by
  simp only [step, hl]

theorem step_scale (h : Heap) (v : Nat) (sx sy : Rat) (c : HCurve) (hl : h.lookup v = some c) :
    (h.step (.scale v sx sy)).1
      = (h.mapCells (ids c) fun p => p.scale sx sy).setVar v { c with cache := none } := by
  simp only [step, hl]

theorem step_rot (h : Heap) (v : Nat) (cs sn : Rat) (c : HCurve) (hl : h.lookup v = some c) :
    (h.step (.rot v cs sn)).1
      = (h.mapCells (ids c) fun p => p.rot cs sn).setVar v { c with cache := none } := by
  simp only [step, hl]

theorem step_copy (h : Heap) (d s : Nat) (c : HCurve) (hl : h.lookup s = some c) :
    (h.step (.copy d s)).1 = (h.copyCurve c).1.setVar d (h.copyCurve c).2 := by
  simp only [step, hl]

theorem step_adopt (h : Heap) (d s : Nat) (c : HCurve) (hl : h.lookup s = some c) :
    (h.step (.adopt d s)).1 = (h.copyCurve c).1.setVar d (h.copyCurve c).2 := by
  simp only [step, hl]

end Heap
end ShapeVerif
