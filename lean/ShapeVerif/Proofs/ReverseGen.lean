/- reversal of a boundary piece negates its boundary integrals — for EVERY degree and ALL exponents.
The bounded versions are in `Proofs/Quadrature.lean`; here the node count is chosen from the degree of
the integrand and the general ingredients (`quad_reflect_all`, `quad_exact_poly_all`, `evalSeg_reverse`,
`derivOK_all`) replace the tables. -/
import ShapeVerif.Proofs.Quadrature
import ShapeVerif.Proofs.QuadGen
import ShapeVerif.Proofs.BernsteinGen
import ShapeVerif.Proofs.DerivGen

namespace ShapeVerif

/-! ### the derivative control polygon of a reversed polygon -/

private theorem length_derivCoord' (cs : List Rat) : (derivCoord cs).length = cs.length - 1 := by
  unfold derivCoord
  simp only [List.length_map, List.length_zip, List.length_tail]
  omega

theorem derivCoord_getElem (cs : List Rat) (i : Nat) (h : i < (derivCoord cs).length) :
    (derivCoord cs)[i] = ((cs.length - 1 : Nat) : Rat)
      * (cs[i + 1]'(by rw [length_derivCoord'] at h; omega) - cs[i]'(by rw [length_derivCoord'] at h; omega)) := by
  simp only [derivCoord, List.getElem_map, List.getElem_zip, List.getElem_tail]

/-- the derivative control values of the reversed polygon: reversed and negated -/
theorem derivCoord_reverse (cs : List Rat) :
    derivCoord cs.reverse = ((derivCoord cs).reverse).map fun v => -v := by
  apply List.ext_getElem
  · simp only [List.length_map, List.length_reverse, length_derivCoord']
  · intro i h1 h2
    have hi : i < cs.length - 1 := by
      rw [length_derivCoord', List.length_reverse] at h1; exact h1
    simp only [derivCoord_getElem, List.getElem_map, List.getElem_reverse, List.length_reverse]
    have e1 : cs.length - 1 - (i + 1) = (derivCoord cs).length - 1 - i := by
      rw [length_derivCoord']; omega
    have e2 : cs.length - 1 - i = (derivCoord cs).length - 1 - i + 1 := by
      rw [length_derivCoord']; omega
    simp only [e1, e2]
    ring

theorem evalCoord_map_neg (cs : List Rat) (t : Rat) :
    evalCoord (cs.map fun v => -v) t = - evalCoord cs t := by
  rw [evalCoord_eq_sum, evalCoord_eq_sum, List.length_map, ← Finset.sum_neg_distrib]
  apply Finset.sum_congr rfl
  intro i hi
  have hi' : i < cs.length := Finset.mem_range.mp hi
  have : (cs.map fun v => -v).getD i 0 = - cs.getD i 0 := by
    rw [List.getD_eq_getElem?_getD, List.getD_eq_getElem?_getD, List.getElem?_map,
      List.getElem?_eq_getElem hi']
    rfl
  rw [this]; ring

private theorem derivSeg_ys' (s : Seg) (h : ¬ s.length ≤ 1) : (derivSeg s).ys = derivCoord s.ys := by
  unfold derivSeg derivCoord Seg.ys
  simp only [h, if_false, List.length_map, List.map_map, ← List.map_tail, List.zip_map, List.map_map]
  rfl

private theorem evalSeg_y (s : Seg) (t : Rat) : (evalSeg s t).y = evalCoord s.ys t := rfl

theorem derivSeg_reverse_y (s : Seg) (t : Rat) :
    (evalSeg (derivSeg s.reverse) t).y = -(evalSeg (derivSeg s) (1 - t)).y := by
  by_cases h : s.length ≤ 1
  · have h' : s.reverse.length ≤ 1 := by rw [List.length_reverse]; exact h
    have e0 : ∀ u : Rat, (evalSeg [Pt.zero] u).y = 0 := by
      intro u
      simp [evalSeg, Seg.ys, Pt.zero, evalCoord, canonCoefs, canonCoef, horner]
    simp only [derivSeg, h, h', if_true, e0, neg_zero]
  · have h' : ¬ s.reverse.length ≤ 1 := by rw [List.length_reverse]; exact h
    rw [evalSeg_y, evalSeg_y, derivSeg_ys' _ h', derivSeg_ys' _ h]
    have : Seg.ys s.reverse = (Seg.ys s).reverse := by simp [Seg.ys]
    rw [this, derivCoord_reverse, evalCoord_map_neg, evalCoord_reverse]

/-! ### the segment integral -/

/-- the quadrature with as many nodes as the integrand has coefficients is exact (every degree) -/
theorem verticalN_eq_exact_all (s : Seg) (hs : 2 ≤ s.length) (a b n : Nat) (h1 : 1 ≤ n)
    (hdeg : (a + b + 1) * (s.length - 1) ≤ n) : verticalN s a b n = exactVertical s a b := by
  rw [verticalN_eq_quad s (derivOK_all s), exactVertical_eq]
  exact quad_exact_poly_all n h1 _ (by rw [length_integrandPoly s hs]; exact hdeg)

theorem exactVertical_reverse_all (s : Seg) (hs : 2 ≤ s.length) (a b : Nat) :
    exactVertical s.reverse a b = - exactVertical s a b := by
  have hn : 1 ≤ (a + b + 1) * (s.length - 1) := Nat.mul_pos (by omega) (by omega)
  have hr : 2 ≤ s.reverse.length := by rw [List.length_reverse]; exact hs
  rw [← verticalN_eq_exact_all s hs a b _ hn (Nat.le_refl _),
    ← verticalN_eq_exact_all s.reverse hr a b ((a + b + 1) * (s.length - 1)) hn
      (by rw [List.length_reverse])]
  unfold verticalN
  rw [← quad_reflect_all _
      (fun t => (evalSeg s t).x ^ a * (evalSeg s t).y ^ b * (evalSeg (derivSeg s) t).y),
    ← quad_neg]
  apply quad_congr
  intro t
  rw [evalSeg_reverse s t, derivSeg_reverse_y s t]; ring

/-! ### closed curves -/

theorem jordanExactVertical_invert_all (j : Jordan) (hj : ∀ s ∈ j, 2 ≤ s.length) (a b : Nat) :
    jordanExactVertical j.invert a b = - jordanExactVertical j a b := by
  unfold Jordan.invert jordanExactVertical
  rw [List.map_reverse, List.sum_reverse, List.map_map]
  induction j with
  | nil => simp
  | cons s j ih =>
    simp only [List.map_cons, List.sum_cons, Function.comp]
    rw [ih (fun s hs => hj s (List.mem_cons_of_mem _ hs)),
      exactVertical_reverse_all s (hj s (by simp)) a b]
    ring

theorem moment_invert_all (j : Jordan) (hj : ∀ s ∈ j, 2 ≤ s.length) (a b : Nat) :
    Jordan.moment j.invert a b = - Jordan.moment j a b := by
  unfold Jordan.moment
  rw [jordanExactVertical_invert_all j hj (a + 1) b]
  ring

theorem area_invert_all (j : Jordan) (hj : ∀ s ∈ j, 2 ≤ s.length) : Jordan.area j.invert = - Jordan.area j :=
  jordanExactVertical_invert_all j hj 1 0

end ShapeVerif
