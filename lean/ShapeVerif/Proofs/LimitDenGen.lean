/- how far `Fraction.limit_denominator` (model: `limitDenominator`) moves a number -/
import ShapeVerif.Model.Basic
import Mathlib.Tactic.Ring
import Mathlib.Tactic.Linarith
import Mathlib.Tactic.NormNum
import Mathlib.Tactic.FieldSimp
import Mathlib.Tactic.Positivity
import Mathlib.Algebra.Order.Ring.Abs
import Mathlib.Algebra.Order.Field.Basic
import Mathlib.Data.Rat.Defs

namespace ShapeVerif

namespace LimitDen

/-! ### `absR` is the absolute value -/

theorem absR_eq_abs (x : Rat) : absR x = |x| := by
  unfold absR
  split_ifs with h
  · exact (abs_of_neg h).symm
  · exact (abs_of_nonneg (not_lt.mp h)).symm

theorem absR_nonneg (x : Rat) : 0 ≤ absR x := by
  rw [absR_eq_abs]; exact abs_nonneg x

/-! ### the loop invariant -/

/-- full invariant of the continued-fraction loop (valid after its first step), for `r = N / D`:
the state `(p0,q0,p1,q1,n,d)` with `fuel` iterations left -/
structure Inv (N D maxd : Int) (fuel : Nat) (p0 q0 p1 q1 n d : Int) : Prop where
  hq0 : 0 ≤ q0
  hq1 : 1 ≤ q1
  hq1m : q1 ≤ maxd
  hd0 : 0 ≤ d
  hdn : d < n
  hfuel : d < (fuel : Int)
  det : D = d * q0 + n * q1
  sgn : ∃ s : Int, (s = 1 ∨ s = -1) ∧ N * q1 - D * p1 = -s * d ∧ N * q0 - D * p0 = s * n

/-- what is known about the state on which the loop stops -/
def Exit (N D maxd : Int) (res : Int × Int × Int × Int × Int × Int) : Prop :=
  0 ≤ res.2.1 ∧ 1 ≤ res.2.2.2.1 ∧ res.2.2.2.1 ≤ maxd ∧ 0 ≤ res.2.2.2.2.2
    ∧ res.2.2.2.2.2 < res.2.2.2.2.1
    ∧ D = res.2.2.2.2.2 * res.2.1 + res.2.2.2.2.1 * res.2.2.2.1
    ∧ (∃ s : Int, (s = 1 ∨ s = -1) ∧ N * res.2.2.2.1 - D * res.2.2.1 = -s * res.2.2.2.2.2
          ∧ N * res.2.1 - D * res.1 = s * res.2.2.2.2.1)
    ∧ (res.2.2.2.2.2 = 0 ∨ maxd < res.2.1 + res.2.2.2.2.1 / res.2.2.2.2.2 * res.2.2.2.1)

theorem Inv.exit {N D maxd : Int} {fuel : Nat} {p0 q0 p1 q1 n d : Int}
    (h : Inv N D maxd fuel p0 q0 p1 q1 n d)
    (hx : d = 0 ∨ maxd < q0 + n / d * q1) : Exit N D maxd (p0, q0, p1, q1, n, d) :=
  ⟨h.hq0, h.hq1, h.hq1m, h.hd0, h.hdn, h.det, h.sgn, hx⟩

theorem ldLoop_exit (N D maxd : Int) : ∀ (fuel : Nat) (p0 q0 p1 q1 n d : Int),
    Inv N D maxd fuel p0 q0 p1 q1 n d → Exit N D maxd (ldLoop maxd fuel p0 q0 p1 q1 n d)
  | 0, p0, q0, p1, q1, n, d, h => by
    exfalso
    have h1 := h.hfuel
    have h2 := h.hd0
    simp only [Nat.cast_zero] at h1
    linarith
  | fuel + 1, p0, q0, p1, q1, n, d, h => by
    simp only [ldLoop]
    split_ifs with hd hq
    · exact h.exit (Or.inl hd)
    · exact h.exit (Or.inr hq)
    · apply ldLoop_exit N D maxd fuel
      obtain ⟨h0, h1, h2, h3, h4, h5, h6, s, hs, hs1, hs0⟩ := h
      have hdpos : 0 < d := lt_of_le_of_ne h3 (Ne.symm hd)
      have ha : 1 ≤ n / d := Int.le_ediv_of_mul_le hdpos (by linarith)
      have hm0 : 0 ≤ n - n / d * d := by
        have := Int.emod_nonneg n hd
        rw [Int.emod_def] at this; linarith [mul_comm d (n / d)]
      have hm1 : n - n / d * d < d := by
        have := Int.emod_lt_of_pos n hdpos
        rw [Int.emod_def] at this; linarith [mul_comm d (n / d)]
      refine ⟨by linarith, ?_, not_lt.mp hq, hm0, hm1, ?_, ?_, -s, ?_, ?_, ?_⟩
      · nlinarith
      · push_cast at h5; linarith
      · rw [h6]; ring
      · rcases hs with hs | hs
        · right; rw [hs]
        · left; rw [hs]; rfl
      · have : N * (q0 + n / d * q1) - D * (p0 + n / d * p1)
            = (N * q0 - D * p0) + n / d * (N * q1 - D * p1) := by ring
        rw [this, hs1, hs0]; ring
      · rw [hs1]

theorem ldLoop_first (maxd : Int) (h1 : 1 ≤ maxd) (fuel : Nat) (num den : Int) (hden : 0 < den) :
    ldLoop maxd (fuel + 1) 0 1 1 0 num den
      = ldLoop maxd fuel 1 0 (0 + num / den * 1) (1 + num / den * 0) den (num - num / den * den) := by
  simp only [ldLoop]
  rw [if_neg (ne_of_gt hden), if_neg]
  simp only [mul_zero, add_zero]; exact not_lt.mpr h1

theorem inv_first (N D maxd : Int) (hD : 0 < D) (hm : 1 ≤ maxd) (fuel : Nat) (hf : D ≤ (fuel : Int)) :
    Inv N D maxd fuel 1 0 (0 + N / D * 1) (1 + N / D * 0) D (N - N / D * D) := by
  have hm0 : 0 ≤ N - N / D * D := by
    have := Int.emod_nonneg N (ne_of_gt hD)
    rw [Int.emod_def] at this; linarith [mul_comm D (N / D)]
  have hm1 : N - N / D * D < D := by
    have := Int.emod_lt_of_pos N hD
    rw [Int.emod_def] at this; linarith [mul_comm D (N / D)]
  refine ⟨le_refl _, by simp, by simpa using hm, hm0, hm1, by linarith, by ring, -1, Or.inr rfl, ?_, ?_⟩
  · ring
  · ring

/-! ### integer arithmetic at the exit -/

/-- the numbers available when the loop has stopped: `k = (maxd - q0) / q1`, `Q = q0 + k q1` -/
theorem exit_arith (D maxd q0 q1 n d : Int) (hD : 0 < D)
    (_hq0 : 0 ≤ q0) (hq1 : 1 ≤ q1) (hq1m : q1 ≤ maxd) (hd0 : 0 ≤ d) (hdn : d < n)
    (hdet : D = d * q0 + n * q1) (hx : d = 0 ∨ maxd < q0 + n / d * q1) :
    1 ≤ q0 + (maxd - q0) / q1 * q1
    ∧ d * maxd ≤ D
    ∧ 0 ≤ n - (maxd - q0) / q1 * d
    ∧ (¬ 2 * d * (q0 + (maxd - q0) / q1 * q1) ≤ D →
        (n - (maxd - q0) / q1 * d) * maxd ≤ (q0 + (maxd - q0) / q1 * q1) * D
        ∧ 2 * (n - (maxd - q0) / q1 * d) ≤ D) := by
  have hq1pos : 0 < q1 := by linarith
  have hk1 : (maxd - q0) / q1 * q1 ≤ maxd - q0 := Int.ediv_mul_le _ (ne_of_gt hq1pos)
  have hk2 : maxd - q0 < ((maxd - q0) / q1 + 1) * q1 := Int.lt_ediv_add_one_mul_self _ hq1pos
  generalize (maxd - q0) / q1 = k at hk1 hk2 ⊢
  have hQ : 1 ≤ q0 + k * q1 := by nlinarith
  rcases eq_or_lt_of_le hd0 with hz | hdpos
  · subst hz
    refine ⟨hQ, by nlinarith, by linarith, fun hc => ?_⟩
    exfalso; apply hc; simp only [mul_zero, zero_mul]; exact le_of_lt hD
  · have hx : maxd < q0 + n / d * q1 := by
      rcases hx with hx | hx
      · exfalso; linarith
      · exact hx
    have ha1 : n / d * d ≤ n := Int.ediv_mul_le _ (ne_of_gt hdpos)
    generalize n / d = a at ha1 hx
    -- k < a
    have hka : k + 1 ≤ a := by
      by_contra hcon
      have : a ≤ k := by omega
      have : a * q1 ≤ k * q1 := Int.mul_le_mul_of_nonneg_right this (le_of_lt hq1pos)
      linarith
    -- m = n - k d ≥ d
    have hm : d ≤ n - k * d := by
      have : 0 ≤ (a - (k + 1)) * d := mul_nonneg (by linarith) hd0
      nlinarith
    have hdet' : D = d * (q0 + k * q1) + (n - k * d) * q1 := by rw [hdet]; ring
    have hQq : maxd + 1 ≤ (q0 + k * q1) + q1 := by linarith
    have hC : d * maxd ≤ D := by
      have h1 : d * q1 ≤ (n - k * d) * q1 := Int.mul_le_mul_of_nonneg_right hm (le_of_lt hq1pos)
      have h2 : d * (maxd + 1) ≤ d * ((q0 + k * q1) + q1) := Int.mul_le_mul_of_nonneg_left hQq hd0
      nlinarith
    refine ⟨hQ, hC, by linarith, fun hc => ?_⟩
    have hc' : D < 2 * d * (q0 + k * q1) := not_le.mp hc
    generalize hQdef : q0 + k * q1 = Q at *
    generalize hmdef : n - k * d = m at *
    have hmpos : 0 < m := by linarith
    -- d Q > m q1
    have hdq : m * q1 + 1 ≤ d * Q := by linarith
    have hmq : m ≤ m * q1 := by nlinarith
    constructor
    · -- m maxd ≤ m (Q + q1) - m ≤ d Q Q + m q1 Q
      have h1 : m * (maxd + 1) ≤ m * (Q + q1) := Int.mul_le_mul_of_nonneg_left hQq (le_of_lt hmpos)
      have h2 : (m * q1 + 1) * Q ≤ d * Q * Q := Int.mul_le_mul_of_nonneg_right hdq (by linarith)
      have h3 : m * Q ≤ m * q1 * Q := Int.mul_le_mul_of_nonneg_right hmq (by linarith)
      have h4 : m * q1 * 1 ≤ m * q1 * Q := Int.mul_le_mul_of_nonneg_left hQ (by nlinarith)
      rw [hdet']
      nlinarith
    · linarith

/-! ### rational arithmetic -/

theorem den_div_le (a b : Int) (hb : 0 < b) : (((a : Rat) / (b : Rat)).den : Int) ≤ b := by
  have h : ((a : Rat) / (b : Rat)) = Rat.divInt a b := (Rat.divInt_eq_div a b).symm
  rw [h]
  exact Int.le_of_dvd hb (Rat.den_dvd a b)

theorem err_eq (P Q N D : Int) (hQ : 0 < Q) (hD : 0 < D) :
    absR ((P : Rat) / (Q : Rat) - (N : Rat) / (D : Rat))
      = ((|D * P - N * Q| : Int) : Rat) / ((Q : Rat) * (D : Rat)) := by
  have hQ' : (0 : Rat) < (Q : Rat) := by exact_mod_cast hQ
  have hD' : (0 : Rat) < (D : Rat) := by exact_mod_cast hD
  have h : (P : Rat) / (Q : Rat) - (N : Rat) / (D : Rat)
      = ((D * P - N * Q : Int) : Rat) / ((Q : Rat) * (D : Rat)) := by
    push_cast; field_simp
  rw [absR_eq_abs, h, abs_div, abs_of_pos (mul_pos hQ' hD'), Int.cast_abs]

end LimitDen

/-- the state on which the loop of `limitDenominator r maxd` stops -/
def ldState (r : Rat) (maxd : Nat) : Int × Int × Int × Int × Int × Int :=
  ldLoop maxd (r.den + 2) 0 1 1 0 r.num r.den

/-- `limitDenominator r maxd` returns `r` itself or the last convergent `p1/q1` (the first branch of
the final `if` of `limit_denominator`), not the semiconvergent `(p0 + k p1)/(q0 + k q1)` -/
def ldPicksConvergent (r : Rat) (maxd : Nat) : Prop :=
  r.den ≤ maxd ∨
    2 * (ldState r maxd).2.2.2.2.2 * ((ldState r maxd).2.1
      + ((maxd : Int) - (ldState r maxd).2.1) / (ldState r maxd).2.2.2.1 * (ldState r maxd).2.2.2.1)
      ≤ (r.den : Int)

instance (r : Rat) (maxd : Nat) : Decidable (ldPicksConvergent r maxd) := by
  unfold ldPicksConvergent; infer_instance

namespace LimitDen

/-- the result is `P/Q` with `0 < Q` and `|D P - N Q|` small, where `r = N/D` -/
theorem ld_core (r : Rat) (maxd : Nat) (h1 : 1 ≤ maxd) :
    ∃ P Q : Int, 0 < Q ∧ limitDenominator r maxd = (P : Rat) / (Q : Rat)
      ∧ |(r.den : Int) * P - r.num * Q| * (maxd : Int) ≤ Q * (r.den : Int)
      ∧ 2 * |(r.den : Int) * P - r.num * Q| ≤ (r.den : Int)
      ∧ (ldPicksConvergent r maxd → |(r.den : Int) * P - r.num * Q| * (maxd : Int) ≤ (r.den : Int)) := by
  have hden : (0 : Int) < (r.den : Int) := by exact_mod_cast r.den_pos
  unfold limitDenominator ldPicksConvergent ldState
  split_ifs with h
  · refine ⟨r.num, r.den, hden, ?_, ?_, ?_, ?_⟩
    · rw [Int.cast_natCast, Rat.num_div_den]
    · rw [mul_comm (r.den : Int) r.num, sub_self, abs_zero, zero_mul]; positivity
    · rw [mul_comm (r.den : Int) r.num, sub_self, abs_zero, mul_zero]; exact le_of_lt hden
    · intro _
      rw [mul_comm (r.den : Int) r.num, sub_self, abs_zero, zero_mul]; exact le_of_lt hden
  · have hm : (1 : Int) ≤ (maxd : Int) := by exact_mod_cast h1
    have hexit := ldLoop_exit r.num (r.den : Int) (maxd : Int) (r.den + 1) _ _ _ _ _ _
      (inv_first r.num (r.den : Int) (maxd : Int) hden hm (r.den + 1) (by push_cast; linarith))
    rw [← ldLoop_first (maxd : Int) hm (r.den + 1) r.num (r.den : Int) hden] at hexit
    generalize ldLoop (maxd : Int) (r.den + 2) 0 1 1 0 r.num (r.den : Int) = res at hexit ⊢
    obtain ⟨p0, q0, p1, q1, n, d⟩ := res
    simp only [Exit] at hexit
    simp only
    obtain ⟨hq0, hq1, hq1m, hd0, hdn, hdet, ⟨s, hs, hs1, hs0⟩, hx⟩ := hexit
    obtain ⟨hQ, hC, hm0, hsemi⟩ := exit_arith (r.den : Int) (maxd : Int) q0 q1 n d hden hq0 hq1 hq1m hd0 hdn hdet hx
    have he2 : |(r.den : Int) * p1 - r.num * q1| = d := by
      have : (r.den : Int) * p1 - r.num * q1 = s * d := by linarith
      rw [this]
      rcases hs with hs | hs
      · rw [hs, one_mul, abs_of_nonneg hd0]
      · rw [hs, neg_one_mul, abs_neg, abs_of_nonneg hd0]
    by_cases hc : 2 * d * (q0 + ((maxd : Int) - q0) / q1 * q1) ≤ (r.den : Int)
    · refine ⟨p1, q1, by linarith, by rw [if_pos hc], ?_, ?_, ?_⟩
      · rw [he2]
        have : (r.den : Int) * 1 ≤ (r.den : Int) * q1 := Int.mul_le_mul_of_nonneg_left hq1 (le_of_lt hden)
        linarith [mul_comm q1 (r.den : Int)]
      · rw [he2]; nlinarith
      · intro _; rw [he2]; exact hC
    · obtain ⟨hw, hh⟩ := hsemi hc
      have he1 : |(r.den : Int) * (p0 + ((maxd : Int) - q0) / q1 * p1)
            - r.num * (q0 + ((maxd : Int) - q0) / q1 * q1)| = n - ((maxd : Int) - q0) / q1 * d := by
        have : (r.den : Int) * (p0 + ((maxd : Int) - q0) / q1 * p1)
            - r.num * (q0 + ((maxd : Int) - q0) / q1 * q1)
            = -s * (n - ((maxd : Int) - q0) / q1 * d) := by
          have e : (r.den : Int) * (p0 + ((maxd : Int) - q0) / q1 * p1)
              - r.num * (q0 + ((maxd : Int) - q0) / q1 * q1)
              = -(r.num * q0 - (r.den : Int) * p0)
                - ((maxd : Int) - q0) / q1 * (r.num * q1 - (r.den : Int) * p1) := by ring
          rw [e, hs1, hs0]; ring
        rw [this]
        rcases hs with hs | hs
        · rw [hs, neg_one_mul, abs_neg, abs_of_nonneg hm0]
        · rw [hs, neg_neg, one_mul, abs_of_nonneg hm0]
      refine ⟨p0 + ((maxd : Int) - q0) / q1 * p1, q0 + ((maxd : Int) - q0) / q1 * q1, by linarith,
        by rw [if_neg hc], ?_, ?_, ?_⟩
      · rw [he1]; exact hw
      · rw [he1]; exact hh
      · intro hp
        rcases hp with hp | hp
        · exact absurd hp h
        · exact absurd hp hc

/-- rational form of `ld_core` -/
theorem ld_core_rat (r : Rat) (maxd : Nat) (h1 : 1 ≤ maxd) :
    ∃ (Q : Int) (E : Rat), 0 < Q ∧ 0 ≤ E ∧ ((limitDenominator r maxd).den : Rat) ≤ (Q : Rat)
      ∧ absR (limitDenominator r maxd - r) = E / ((Q : Rat) * (r.den : Rat))
      ∧ E * (maxd : Rat) ≤ (Q : Rat) * (r.den : Rat)
      ∧ 2 * E ≤ (r.den : Rat)
      ∧ (ldPicksConvergent r maxd → E * (maxd : Rat) ≤ (r.den : Rat)) := by
  obtain ⟨P, Q, hQ, heq, hw, hh, hs⟩ := ld_core r maxd h1
  have hden : (0 : Int) < (r.den : Int) := by exact_mod_cast r.den_pos
  refine ⟨Q, ((|(r.den : Int) * P - r.num * Q| : Int) : Rat), hQ, ?_, ?_, ?_, ?_, ?_, ?_⟩
  · exact_mod_cast abs_nonneg ((r.den : Int) * P - r.num * Q)
  · rw [heq]
    have := den_div_le P Q hQ
    exact_mod_cast this
  · have := err_eq P Q r.num (r.den : Int) hQ hden
    rw [Int.cast_natCast, Rat.num_div_den] at this
    rw [heq]; exact this
  · have : ((|(r.den : Int) * P - r.num * Q| * (maxd : Int) : Int) : Rat) ≤ ((Q * (r.den : Int) : Int) : Rat) := by
      exact_mod_cast hw
    push_cast at this ⊢; exact this
  · have : ((2 * |(r.den : Int) * P - r.num * Q| : Int) : Rat) ≤ (((r.den : Int) : Int) : Rat) := by
      exact_mod_cast hh
    push_cast at this ⊢; exact this
  · intro hp
    have : ((|(r.den : Int) * P - r.num * Q| * (maxd : Int) : Int) : Rat) ≤ (((r.den : Int) : Int) : Rat) := by
      exact_mod_cast hs hp
    push_cast at this ⊢; exact this

end LimitDen

open LimitDen

/-- `Fraction.limit_denominator(maxd)` moves a number by at most `1/maxd` -/
theorem limitDenominator_error (r : Rat) (maxd : Nat) (h1 : 1 ≤ maxd) :
    absR (limitDenominator r maxd - r) ≤ 1 / (maxd : Rat) := by
  obtain ⟨Q, E, hQ, hE, _, herr, hw, _, _⟩ := ld_core_rat r maxd h1
  have hQ' : (0 : Rat) < (Q : Rat) := by exact_mod_cast hQ
  have hD' : (0 : Rat) < (r.den : Rat) := by exact_mod_cast r.den_pos
  have hM' : (0 : Rat) < (maxd : Rat) := by exact_mod_cast h1
  rw [herr, div_le_div_iff₀ (mul_pos hQ' hD') hM']
  linarith

theorem mkPoint_error (x y : Rat) :
    absR ((mkPoint x y).x - x) ≤ 1 / 1000000000 ∧ absR ((mkPoint x y).y - y) ≤ 1 / 1000000000 := by
  have hx := limitDenominator_error x maxDen (by decide)
  have hy := limitDenominator_error y maxDen (by decide)
  have hm : ((maxDen : Nat) : Rat) = 1000000000 := by simp [maxDen]
  rw [hm] at hx hy
  exact ⟨hx, hy⟩

/-- the result is within `1/(2 q)` of the input, `q` its denominator -/
theorem limitDenominator_error_half (r : Rat) (maxd : Nat) (h1 : 1 ≤ maxd) :
    absR (limitDenominator r maxd - r) * ((limitDenominator r maxd).den : Rat) * 2 ≤ 1 := by
  obtain ⟨Q, E, hQ, hE, hden, herr, _, hh, _⟩ := ld_core_rat r maxd h1
  have hQ' : (0 : Rat) < (Q : Rat) := by exact_mod_cast hQ
  have hD' : (0 : Rat) < (r.den : Rat) := by exact_mod_cast r.den_pos
  rw [herr]
  have h2 : E / ((Q : Rat) * (r.den : Rat)) * ((limitDenominator r maxd).den : Rat)
      ≤ E / ((Q : Rat) * (r.den : Rat)) * (Q : Rat) :=
    mul_le_mul_of_nonneg_left hden (div_nonneg hE (le_of_lt (mul_pos hQ' hD')))
  have h3 : E / ((Q : Rat) * (r.den : Rat)) * (Q : Rat) = E / (r.den : Rat) := by field_simp
  have h4 : E / (r.den : Rat) * 2 ≤ 1 := by
    rw [div_mul_eq_mul_div, div_le_one hD']; linarith
  linarith

/-- the classical bound `error ≤ 1/(q · maxd)` — only when the last convergent (or `r` itself) is
returned; it FAILS for the semiconvergent branch, e.g. `r = 1/19`, `maxd = 10` -/
theorem limitDenominator_error_strong_of (r : Rat) (maxd : Nat) (h1 : 1 ≤ maxd)
    (hconv : ldPicksConvergent r maxd) :
    absR (limitDenominator r maxd - r) * ((limitDenominator r maxd).den : Rat) * (maxd : Rat) ≤ 1 := by
  obtain ⟨Q, E, hQ, hE, hden, herr, _, _, hs⟩ := ld_core_rat r maxd h1
  have hQ' : (0 : Rat) < (Q : Rat) := by exact_mod_cast hQ
  have hD' : (0 : Rat) < (r.den : Rat) := by exact_mod_cast r.den_pos
  have hM' : (0 : Rat) < (maxd : Rat) := by exact_mod_cast h1
  rw [herr]
  have h2 : E / ((Q : Rat) * (r.den : Rat)) * ((limitDenominator r maxd).den : Rat)
      ≤ E / ((Q : Rat) * (r.den : Rat)) * (Q : Rat) :=
    mul_le_mul_of_nonneg_left hden (div_nonneg hE (le_of_lt (mul_pos hQ' hD')))
  have h3 : E / ((Q : Rat) * (r.den : Rat)) * (Q : Rat) = E / (r.den : Rat) := by field_simp
  have h4 : E / (r.den : Rat) * (maxd : Rat) ≤ 1 := by
    rw [div_mul_eq_mul_div, div_le_one hD']; exact hs hconv
  have h5 := mul_le_mul_of_nonneg_right h2 (le_of_lt hM')
  rw [h3] at h5
  linarith

/-- the stretch statement `limitDenominator_error_strong` is false as stated: counterexample -/
theorem limitDenominator_error_strong_counterexample :
    ¬ (absR (limitDenominator (1 / 19) 10 - 1 / 19) * ((limitDenominator (1 / 19) 10).den : Rat)
        * ((10 : Nat) : Rat) ≤ 1) := by
  decide +kernel

end ShapeVerif
