/- general-degree Bernstein form: `Math.comb` is the binomial coefficient, the code's evaluation
(basis matrix + Horner) is the Bernstein sum for EVERY degree, reversal is `t ↦ 1 - t`. -/
import ShapeVerif.Model.Bezier
import Mathlib.Tactic.Ring
import Mathlib.Tactic.Linarith
import Mathlib.Data.Nat.Choose.Basic
import Mathlib.Data.Nat.Choose.Sum

namespace ShapeVerif


/-! ### `comb` -/

theorem comb_num_eq (a i : Nat) :
    (List.range i).foldl (fun v k => v * (a + k)) 1 = a.ascFactorial i := by
  induction i with
  | zero => simp
  | succ i ih =>
    rw [List.range_succ, List.foldl_append, ih]
    simp only [List.foldl_cons, List.foldl_nil, Nat.ascFactorial_succ]
    exact Nat.mul_comm _ _

theorem comb_div_eq (a m : Nat) :
    (List.range m).foldl (fun v k => v / (k + 2)) a = a / (m + 1).factorial := by
  induction m with
  | zero => simp
  | succ m ih =>
    rw [List.range_succ, List.foldl_append, ih]
    simp only [List.foldl_cons, List.foldl_nil]
    rw [Nat.div_div_eq_div_mul, Nat.factorial_succ (m + 1), Nat.mul_comm]

theorem comb_eq_choose (n i : Nat) (h : i ≤ n) : comb n i = Nat.choose n i := by
  unfold comb
  simp only
  rw [comb_num_eq, Nat.ascFactorial_eq_factorial_mul_choose (n - i) i]
  have hn : n - i + i = n := Nat.sub_add_cancel h
  rw [hn]
  cases i with
  | zero => simp
  | succ i =>
    rw [Nat.add_sub_cancel, comb_div_eq]
    exact Nat.mul_div_cancel_left _ (Nat.factorial_pos _)

/-! ### list sums as `Finset` sums -/

theorem zipIdx_sum_eq (f : Rat × Nat → Rat) (cs : List Rat) (k : Nat) :
    ((cs.zipIdx k).map f).sum = ∑ i ∈ Finset.range cs.length, f (cs.getD i 0, k + i) := by
  induction cs generalizing k with
  | nil => simp
  | cons c cs ih =>
    rw [List.zipIdx_cons, List.map_cons, List.sum_cons, ih, List.length_cons, Finset.sum_range_succ']
    simp only [List.getD_cons_succ, List.getD_cons_zero, Nat.add_zero]
    rw [add_comm]
    congr 1
    apply Finset.sum_congr rfl
    intro i _
    congr 2
    omega

theorem zipIdx_sum_eq0 (f : Rat × Nat → Rat) (cs : List Rat) :
    (cs.zipIdx.map f).sum = ∑ i ∈ Finset.range cs.length, f (cs.getD i 0, i) := by
  rw [zipIdx_sum_eq]
  simp

theorem horner_range (t : Rat) (g : Nat → Rat) (m : Nat) :
    horner t ((List.range (m + 1)).map g) = ∑ j ∈ Finset.range (m + 1), g j * t ^ (m - j) := by
  induction m with
  | zero => simp [horner]
  | succ m ih =>
    have hstep : horner t ((List.range (m + 1 + 1)).map g)
        = horner t ((List.range (m + 1)).map g) * t + g (m + 1) := by
      unfold horner
      rw [List.range_succ (n := m + 1), List.map_append, List.foldl_append]
      rfl
    rw [hstep, ih, Finset.sum_range_succ _ (m + 1), Finset.sum_mul]
    simp only [Nat.sub_self, pow_zero, mul_one]
    congr 1
    apply Finset.sum_congr rfl
    intro j hj
    have hj' : j ≤ m := by have := Finset.mem_range.mp hj; omega
    have : m + 1 - j = (m - j) + 1 := by omega
    rw [this, pow_succ]; ring

/-! ### the rows of the basis matrix are the Bernstein polynomials -/

theorem sign_ite (a : Nat) (v : Int) : (if a % 2 = 1 then -v else v) = (-1) ^ a * v := by
  rcases Nat.even_or_odd a with h | h
  · have : ¬ a % 2 = 1 := by rw [Nat.even_iff] at h; omega
    rw [if_neg this, h.neg_one_pow, one_mul]
  · have : a % 2 = 1 := Nat.odd_iff.mp h
    rw [if_pos this, h.neg_one_pow]; ring

theorem caractEntry_eq (deg i j : Nat) (hi : i ≤ deg) (hj : j ≤ deg - i) :
    (caractEntry deg i j : Rat)
      = (-1) ^ (deg + i + j) * (Nat.choose deg i : Rat) * (Nat.choose (deg - i) j : Rat) := by
  unfold caractEntry
  rw [if_pos hj]
  simp only
  rw [sign_ite, comb_eq_choose deg i hi, comb_eq_choose (deg - i) j hj]
  push_cast
  ring

theorem caractEntry_zero (deg i j : Nat) (hj : ¬ j ≤ deg - i) : caractEntry deg i j = 0 := by
  unfold caractEntry
  rw [if_neg hj]

theorem caract_row (n i : Nat) (hi : i ≤ n) (t : Rat) :
    ∑ j ∈ Finset.range (n + 1), (caractEntry n i j : Rat) * t ^ (n - j)
      = (Nat.choose n i : Rat) * t ^ i * (1 - t) ^ (n - i) := by
  have hsub : Finset.range (n - i + 1) ⊆ Finset.range (n + 1) :=
    Finset.range_subset_range.mpr (by omega)
  rw [← Finset.sum_subset hsub]
  · have hb : (1 - t) ^ (n - i)
        = ∑ j ∈ Finset.range (n - i + 1), (1 : Rat) ^ j * (-t) ^ (n - i - j) * (Nat.choose (n - i) j : Rat) := by
      rw [← add_pow]; congr 1; ring
    rw [hb, Finset.mul_sum]
    apply Finset.sum_congr rfl
    intro j hj
    have hj' : j ≤ n - i := by have := Finset.mem_range.mp hj; omega
    rw [caractEntry_eq n i j hi hj']
    have e1 : n - j = i + (n - i - j) := by omega
    have e2 : n + i + j = (n - i - j) + 2 * (i + j) := by omega
    rw [e1, e2, pow_add, pow_add, pow_mul, neg_pow t]
    simp only [one_pow, even_two, Even.neg_pow, mul_one]
    ring
  · intro j _ hj
    have : ¬ j ≤ n - i := by
      intro h; exact hj (Finset.mem_range.mpr (by omega))
    rw [caractEntry_zero n i j this]; simp

theorem evalCoord_eq_sum (cs : List Rat) (t : Rat) :
    evalCoord cs t = ∑ i ∈ Finset.range cs.length,
      cs.getD i 0 * ((Nat.choose (cs.length - 1) i : Rat) * t ^ i * (1 - t) ^ (cs.length - 1 - i)) := by
  unfold evalCoord canonCoefs
  simp only
  rw [horner_range]
  unfold canonCoef
  simp only [zipIdx_sum_eq0]
  simp only [Finset.sum_mul]
  rw [Finset.sum_comm]
  apply Finset.sum_congr rfl
  intro i hi
  have hi' : i ≤ cs.length - 1 := by have := Finset.mem_range.mp hi; omega
  rw [← caract_row _ i hi' t, Finset.mul_sum]
  apply Finset.sum_congr rfl
  intro j _
  ring

theorem bernsteinCoord_eq_sum (cs : List Rat) (t : Rat) :
    bernsteinCoord cs t = ∑ i ∈ Finset.range cs.length,
      cs.getD i 0 * ((Nat.choose (cs.length - 1) i : Rat) * t ^ i * (1 - t) ^ (cs.length - 1 - i)) := by
  unfold bernsteinCoord
  simp only
  rw [zipIdx_sum_eq0]
  apply Finset.sum_congr rfl
  intro i hi
  have hi' : i ≤ cs.length - 1 := by have := Finset.mem_range.mp hi; omega
  simp only
  rw [comb_eq_choose _ i hi']
  ring

theorem evalCoord_eq_bernsteinCoord (cs : List Rat) (t : Rat) : evalCoord cs t = bernsteinCoord cs t := by
  rw [evalCoord_eq_sum, bernsteinCoord_eq_sum]

theorem evalSeg_eq_bernsteinSeg (s : Seg) (t : Rat) : evalSeg s t = bernsteinSeg s t := by
  unfold evalSeg bernsteinSeg
  rw [evalCoord_eq_bernsteinCoord, evalCoord_eq_bernsteinCoord]

/-! ### reversal -/

theorem evalCoord_reverse (cs : List Rat) (t : Rat) : evalCoord cs.reverse t = evalCoord cs (1 - t) := by
  rw [evalCoord_eq_sum, evalCoord_eq_sum, List.length_reverse]
  rw [← Finset.sum_range_reflect]
  apply Finset.sum_congr rfl
  intro i hi
  have hi' : i < cs.length := Finset.mem_range.mp hi
  have e1 : cs.length - 1 - (cs.length - 1 - i) = i := by omega
  have e2 : cs.reverse.getD (cs.length - 1 - i) 0 = cs.getD i 0 := by
    rw [List.getD_eq_getElem?_getD, List.getD_eq_getElem?_getD,
      List.getElem?_reverse (by omega)]
    congr 2
  have e3 : Nat.choose (cs.length - 1) (cs.length - 1 - i) = Nat.choose (cs.length - 1) i :=
    Nat.choose_symm (by omega)
  rw [e1, e2, e3]
  have : (1 - (1 - t)) = t := by ring
  rw [this]
  ring

theorem evalSeg_reverse (s : Seg) (t : Rat) : evalSeg s.reverse t = evalSeg s (1 - t) := by
  unfold evalSeg Seg.xs Seg.ys
  rw [List.map_reverse, List.map_reverse, evalCoord_reverse, evalCoord_reverse]

end ShapeVerif
