/- helper lemmas for C01b: termination and structural invariants of the recombination loops (Model/Follow.lean) -/
import ShapeVerif.Model.Follow
import Mathlib.Data.List.Rotate
import Mathlib.Data.List.Perm.Basic
import Mathlib.Data.List.Nodup
import Mathlib.Data.List.Chain

namespace ShapeVerif.Follow
open ShapeVerif

/-! ## A. `pursue_path` -/

/-- all pairs `(k + i, s)` with `s < ns[i]` -/
def validPairsFrom : Nat → List Nat → List Idx
  | _, [] => []
  | k, n :: ns => (List.range n).map (fun s => (k, s)) ++ validPairsFrom (k + 1) ns

theorem validPairsFrom_length : ∀ (k : Nat) (ns : List Nat), (validPairsFrom k ns).length = ns.sum := by
  intro k ns
  induction ns generalizing k with
  | nil => rfl
  | cons n ns ih => simp [validPairsFrom, ih]

theorem mem_validPairsFrom : ∀ (ns : List Nat) (k : Nat) (p : Idx) (n : Nat),
    k ≤ p.1 → ns[p.1 - k]? = some n → p.2 < n → p ∈ validPairsFrom k ns := by
  intro ns
  induction ns with
  | nil => intro k p n _ h; simp at h
  | cons m ms ih =>
    intro k p n hk h hlt
    unfold validPairsFrom
    rw [List.mem_append]
    by_cases h0 : p.1 = k
    · left
      rw [h0] at h; simp at h; subst h
      rw [List.mem_map]; exact ⟨p.2, by simpa using hlt, by rw [← h0]⟩
    · right
      apply ih (k + 1) p n (by omega) _ hlt
      have : p.1 - k = (p.1 - (k + 1)) + 1 := by omega
      rw [this] at h; simpa using h

theorem validIdx_mem (lens : List Nat) (p : Idx) (h : validIdx lens p) : p ∈ validPairsFrom 0 lens := by
  obtain ⟨n, h1, h2⟩ := h
  exact mem_validPairsFrom lens 0 p n (Nat.zero_le _) (by simpa using h1) h2

/-- pigeonhole: a duplicate-free list of existing segments is not longer than the number of segments -/
theorem nodup_valid_length_le (lens : List Nat) (m : List Idx) (hn : m.Nodup)
    (hv : ∀ p ∈ m, validIdx lens p) : m.length ≤ lens.sum := by
  have := List.Nodup.length_le_of_subset hn (fun p hp => validIdx_mem lens p (hv p hp))
  rwa [validPairsFrom_length] at this

/-- curve `j` exists and has at least one segment (so that l.178 `index_segment %= len(...)` does not raise) -/
def CurveOK (lens : List Nat) (j : Nat) : Prop := ∃ n, lens[j]? = some n ∧ 0 < n

/-- hypothesis on the oracle: from an existing segment, `possibles[0]` designates an existing non-empty curve -/
def JumpOK (lens : List Nat) (jump : Jump) : Prop :=
  ∀ j s j' os, validIdx lens (j, s) → jump j s = some (j', os) → CurveOK lens j'

theorem validIdx_curveOK {lens : List Nat} {p : Idx} (h : validIdx lens p) : CurveOK lens p.1 := by
  obtain ⟨n, h1, h2⟩ := h
  exact ⟨n, h1, by omega⟩

theorem normIdx_valid {lens : List Nat} {p : Idx} (h : CurveOK lens p.1) :
    validIdx lens (normIdx lens p) := by
  obtain ⟨n, h1, h2⟩ := h
  refine ⟨n, by simp [normIdx, h1], ?_⟩
  simp only [normIdx, h1, Option.getD_some]
  exact Nat.mod_lt _ h2

theorem pursueNext_curveOK {lens : List Nat} {jump : Jump} (hj : JumpOK lens jump) {cur : Idx}
    (h : validIdx lens cur) : CurveOK lens (pursueNext jump cur).1 := by
  unfold pursueNext
  split
  · exact validIdx_curveOK (p := cur) h
  · rename_i j' s' he; exact hj cur.1 cur.2 j' (some s') h he
  · rename_i j' he; exact hj cur.1 cur.2 j' none h he

theorem pursueStep_valid {lens : List Nat} {jump : Jump} (hj : JumpOK lens jump) {cur : Idx}
    (h : validIdx lens cur) : validIdx lens (pursueStep lens jump cur) :=
  normIdx_valid (pursueNext_curveOK hj h)

/-- the loop invariant of `pursue_path` on the list built so far -/
structure PursueInv (lens : List Nat) (jump : Jump) (matrix : List Idx) : Prop where
  nodup : matrix.Nodup
  valid : ∀ p ∈ matrix, validIdx lens p
  chain : List.IsChain (fun a b => b = pursueStep lens jump a) matrix

theorem PursueInv.nil (lens : List Nat) (jump : Jump) : PursueInv lens jump [] :=
  ⟨List.nodup_nil, by simp, by simp⟩

theorem pursuePathFuel_succ (lens : List Nat) (jump : Jump) (fuel : Nat) (p : Idx) (matrix : List Idx) :
    pursuePathFuel lens jump (fuel + 1) p matrix =
      match lens[p.1]? with
      | none => .error .indexError
      | some n =>
        if n = 0 then .error .zeroDivision
        else if (p.1, p.2 % n) ∈ matrix then .ok matrix
        else pursuePathFuel lens jump fuel (pursueNext jump (p.1, p.2 % n)) (matrix ++ [(p.1, p.2 % n)]) := rfl

/-- more fuel never changes a run that did not run out of fuel -/
theorem pursuePathFuel_mono (lens : List Nat) (jump : Jump) :
    ∀ (fuel : Nat) (p : Idx) (matrix : List Idx) (k : Nat),
      pursuePathFuel lens jump fuel p matrix ≠ .error .outOfFuel →
      pursuePathFuel lens jump (fuel + k) p matrix = pursuePathFuel lens jump fuel p matrix := by
  intro fuel
  induction fuel with
  | zero => intro p matrix k h; simp [pursuePathFuel] at h
  | succ f ih =>
    intro p matrix k h
    have e : f + 1 + k = (f + k) + 1 := by omega
    rw [e, pursuePathFuel_succ, pursuePathFuel_succ]
    rw [pursuePathFuel_succ] at h
    split
    · rfl
    · rename_i n hn
      simp only [hn] at h
      split
      · rfl
      · rename_i hn0
        simp only [hn0, if_false] at h
        split
        · rfl
        · rename_i hmem
          simp only [hmem, if_false] at h
          exact ih _ _ k h

/-- the result extends the list built so far -/
theorem pursuePathFuel_prefix (lens : List Nat) (jump : Jump) :
    ∀ (fuel : Nat) (p : Idx) (matrix r : List Idx),
      pursuePathFuel lens jump fuel p matrix = .ok r → matrix <+: r := by
  intro fuel
  induction fuel with
  | zero => intro p matrix r h; simp [pursuePathFuel] at h
  | succ f ih =>
    intro p matrix r h
    rw [pursuePathFuel_succ] at h
    split at h
    · cases h
    · split at h
      · cases h
      · split at h
        · cases h; exact List.prefix_refl _
        · exact (List.prefix_append _ _).trans (ih _ _ _ h)

/-- the pair tested at l.180 designates an existing segment whenever l.178–179 did not raise -/
theorem cur_valid {lens : List Nat} {p : Idx} {n : Nat} (hn : lens[p.1]? = some n) (hn0 : ¬ n = 0) :
    (p.1, p.2 % n) = normIdx lens p ∧ validIdx lens (p.1, p.2 % n) :=
  ⟨by simp [normIdx, hn], n, hn, Nat.mod_lt _ (by omega)⟩

theorem PursueInv.snoc {lens : List Nat} {jump : Jump} {matrix : List Idx} {cur : Idx}
    (inv : PursueInv lens jump matrix) (hv : validIdx lens cur) (hmem : cur ∉ matrix)
    (hlast : ∀ l, l ∈ matrix.getLast? → cur = pursueStep lens jump l) :
    PursueInv lens jump (matrix ++ [cur]) := by
  refine ⟨?_, ?_, ?_⟩
  · rw [List.nodup_append]; refine ⟨inv.nodup, by simp, ?_⟩
    intro a ha b hb; simp at hb; subst hb; intro hab; subst hab; exact hmem ha
  · intro q hq; rw [List.mem_append] at hq
    rcases hq with hq | hq
    · exact inv.valid q hq
    · simp at hq; subst hq; exact hv
  · rw [List.isChain_append]
    refine ⟨inv.chain, by simp, ?_⟩
    intro x hx y hy; simp at hy; subst hy; exact hlast x hx

/-- FOR EVERY ORACLE: whenever the loop returns, the invariant holds for the result, the result starts with the
normalised start pair, and the step from its last entry falls back into it -/
theorem pursuePathFuel_inv (lens : List Nat) (jump : Jump) :
    ∀ (fuel : Nat) (p : Idx) (matrix r : List Idx),
      pursuePathFuel lens jump fuel p matrix = .ok r →
      PursueInv lens jump matrix →
      (∀ l, l ∈ matrix.getLast? → p = pursueNext jump l) →
      PursueInv lens jump r ∧ (matrix = [] → r.head? = some (normIdx lens p)) ∧
        (∃ l, r.getLast? = some l ∧ pursueStep lens jump l ∈ r) := by
  intro fuel
  induction fuel with
  | zero => intro p matrix r h; simp [pursuePathFuel] at h
  | succ f ih =>
    intro p matrix r h inv hlast
    rw [pursuePathFuel_succ] at h
    split at h
    · cases h
    · rename_i n hn
      split at h
      · cases h
      · rename_i hn0
        obtain ⟨hcur, hv⟩ := cur_valid hn hn0
        have hlast' : ∀ l, l ∈ matrix.getLast? → (p.1, p.2 % n) = pursueStep lens jump l := by
          intro l hl; rw [hcur, hlast l hl]; rfl
        split at h
        · rename_i hmem
          cases h
          refine ⟨inv, ?_, ?_⟩
          · intro he; subst he; simp at hmem
          · cases hl : matrix.getLast? with
            | none => rw [List.getLast?_eq_none_iff] at hl; subst hl; simp at hmem
            | some l => exact ⟨l, rfl, by rw [← hlast' l (by simp [hl])]; exact hmem⟩
        · rename_i hmem
          obtain ⟨h2, _, h5⟩ := ih _ _ _ h (inv.snoc hv hmem hlast')
            (by intro l hl; simp at hl; subst hl; rfl)
          refine ⟨h2, ?_, h5⟩
          intro he; subst he
          obtain ⟨t, ht⟩ := pursuePathFuel_prefix lens jump _ _ _ _ h
          simp at ht; rw [← ht, ← hcur]; rfl

/-- FOR EVERY ORACLE: with `fuel + len(matrix) > total number of segments` the fuel is not exhausted — the
`while True` loop of `pursue_path` always ends (by `break` or by an exception of l.178–179) -/
theorem pursuePathFuel_noHang (lens : List Nat) (jump : Jump) :
    ∀ (fuel : Nat) (p : Idx) (matrix : List Idx),
      PursueInv lens jump matrix →
      (∀ l, l ∈ matrix.getLast? → p = pursueNext jump l) →
      lens.sum + 1 ≤ matrix.length + fuel →
      pursuePathFuel lens jump fuel p matrix ≠ .error .outOfFuel := by
  intro fuel
  induction fuel with
  | zero =>
    intro p matrix inv _ hf
    have := nodup_valid_length_le lens matrix inv.nodup inv.valid
    omega
  | succ f ih =>
    intro p matrix inv hlast hf
    rw [pursuePathFuel_succ]
    split
    · intro h; cases h
    · rename_i n hn
      split
      · intro h; cases h
      · rename_i hn0
        obtain ⟨hcur, hv⟩ := cur_valid hn hn0
        split
        · intro h; cases h
        · rename_i hmem
          apply ih
          · exact inv.snoc hv hmem (by intro l hl; rw [hcur, hlast l hl]; rfl)
          · intro l hl; simp at hl; subst hl; rfl
          · simp; omega

/-- under `JumpOK`, from a current pair on an existing non-empty curve, l.178–179 never raise -/
theorem pursuePathFuel_noRaise {lens : List Nat} {jump : Jump} (hj : JumpOK lens jump) :
    ∀ (fuel : Nat) (p : Idx) (matrix : List Idx) (e : LoopErr), CurveOK lens p.1 →
      pursuePathFuel lens jump fuel p matrix = .error e → e = .outOfFuel := by
  intro fuel
  induction fuel with
  | zero => intro p matrix e _ h; simp [pursuePathFuel] at h; exact h.symm
  | succ f ih =>
    intro p matrix e hp h
    obtain ⟨n, hn, hpos⟩ := hp
    have hn0 : ¬ n = 0 := by omega
    rw [pursuePathFuel_succ] at h
    simp only [hn, hn0, if_false] at h
    obtain ⟨_, hv⟩ := cur_valid hn hn0
    split at h
    · cases h
    · exact ih _ _ e (pursueNext_curveOK hj hv) h

/-- exact iteration count: a run that returns `r` from the empty matrix makes `len(r)` appends and one last,
successful, `in matrix` test -/
theorem pursuePathFuel_exact (lens : List Nat) (jump : Jump) :
    ∀ (fuel : Nat) (p : Idx) (matrix r : List Idx),
      pursuePathFuel lens jump fuel p matrix = .ok r →
      pursuePathFuel lens jump (r.length - matrix.length + 1) p matrix = .ok r := by
  intro fuel
  induction fuel with
  | zero => intro p matrix r h; simp [pursuePathFuel] at h
  | succ f ih =>
    intro p matrix r h
    have hpre := pursuePathFuel_prefix lens jump _ _ _ _ h
    rw [pursuePathFuel_succ] at h
    rw [pursuePathFuel_succ]
    split at h
    · cases h
    · rename_i n hn
      split at h
      · cases h
      · rename_i hn0
        simp only [hn0, if_false]
        split at h
        · rename_i hmem; simp only [hmem, if_true]; exact h
        · rename_i hmem
          simp only [hmem, if_false]
          have hpre' := pursuePathFuel_prefix lens jump _ _ _ _ h
          have hlen := hpre'.length_le
          simp at hlen
          have := ih _ _ _ h
          simp at this
          have e : r.length - matrix.length = (r.length - (matrix.length + 1)) + 1 := by omega
          rw [e]; exact this

/-- if the step is injective on existing segments, a chain that closes on itself closes at its FIRST entry -/
theorem closes_at_head {lens : List Nat} {jump : Jump} {r : List Idx} (inv : PursueInv lens jump r)
    (hinj : ∀ a b, validIdx lens a → validIdx lens b →
      pursueStep lens jump a = pursueStep lens jump b → a = b)
    {l : Idx} (hl : r.getLast? = some l) (hc : pursueStep lens jump l ∈ r) :
    r.head? = some (pursueStep lens jump l) := by
  obtain ⟨i, hi, hget⟩ := List.getElem_of_mem hc
  have hne : r ≠ [] := by intro h; subst h; simp at hl
  have hlast : l = r[r.length - 1]'(by have := List.length_pos_of_ne_nil hne; omega) := by
    rw [List.getLast?_eq_getElem?] at hl
    have hlt : r.length - 1 < r.length := by have := List.length_pos_of_ne_nil hne; omega
    rw [List.getElem?_eq_getElem hlt] at hl
    exact (Option.some.inj hl).symm
  cases i with
  | zero =>
    rw [← hget]
    cases r with
    | nil => exact absurd rfl hne
    | cons x xs => rfl
  | succ k =>
    exfalso
    have hch := List.IsChain.getElem inv.chain k hi
    have heq : pursueStep lens jump l = pursueStep lens jump r[k] := by rw [← hget, hch]
    have hk : k < r.length := by omega
    have := hinj l r[k] (by rw [hlast]; exact inv.valid _ (List.getElem_mem _))
      (inv.valid _ (List.getElem_mem _)) heq
    rw [hlast] at this
    have := (List.Nodup.getElem_inj_iff inv.nodup).1 this
    omega

/-! ## B. `is_rotation` -/

/-- the comparison loop of l.219–222 succeeds iff `b` is `a` rotated by `rot` -/
theorem rotCheck_iff {α} [DecidableEq α] (a b : List α) (rot : Nat) (hlen : a.length = b.length) :
    ((List.range b.length).all fun i => decide (b[i]? = a[(i + rot) % b.length]?)) = true ↔
      b = a.rotate rot := by
  rw [List.all_eq_true]
  constructor
  · intro h
    apply List.ext_getElem?
    intro i
    by_cases hi : i < b.length
    · have := h i (List.mem_range.2 hi)
      rw [decide_eq_true_iff] at this
      rw [this, List.getElem?_rotate (by omega), hlen]
    · rw [List.getElem?_eq_none (by omega), List.getElem?_eq_none (by rw [List.length_rotate]; omega)]
  · intro h i hi
    rw [List.mem_range] at hi
    rw [decide_eq_true_iff]
    conv_lhs => rw [h]
    rw [List.getElem?_rotate (by omega), hlen]

/-- exactly what `is_rotation` computes -/
theorem isRotation_eq_true_iff {α} [DecidableEq α] (a b : List α) :
    isRotation a b = true ↔
      a.length = b.length ∧ ∃ b0 t, b = b0 :: t ∧ a.idxOf b0 < a.length ∧ b = a.rotate (a.idxOf b0) := by
  unfold isRotation
  by_cases hlen : a.length = b.length
  · rw [if_neg (not_not.2 hlen)]
    rw [and_iff_right hlen]
    cases b with
    | nil => simp
    | cons b0 t =>
      dsimp only
      by_cases hr : a.idxOf b0 < a.length
      · rw [if_pos hr, rotCheck_iff a (b0 :: t) _ hlen]
        constructor
        · intro h; exact ⟨b0, t, rfl, hr, h⟩
        · rintro ⟨b0', t', h1, _, h⟩
          rw [List.cons.injEq] at h1; obtain ⟨h1, _⟩ := h1; subst h1; exact h
      · rw [if_neg hr]
        constructor
        · intro h; cases h
        · rintro ⟨b0', t', h1, h3, _⟩
          rw [List.cons.injEq] at h1; obtain ⟨h1, _⟩ := h1; subst h1; exact absurd h3 hr
  · simp [hlen]

theorem isRotation_sound {α} [DecidableEq α] {a b : List α} (h : isRotation a b = true) :
    a.length = b.length ∧ b ≠ [] ∧ ∃ k, k < a.length ∧ b = a.rotate k := by
  obtain ⟨h1, b0, t, h2, h3, h4⟩ := (isRotation_eq_true_iff a b).1 h
  exact ⟨h1, by rw [h2]; simp, _, h3, h4⟩

theorem isRotation_complete {α} [DecidableEq α] {a : List α} (hn : a.Nodup) (hne : a ≠ []) (k : Nat) :
    isRotation a (a.rotate k) = true := by
  rw [isRotation_eq_true_iff]
  refine ⟨(List.length_rotate a k).symm, ?_⟩
  have hpos : 0 < a.length := List.length_pos_of_ne_nil hne
  have hk : k % a.length < a.length := Nat.mod_lt _ hpos
  have h0 : (a.rotate k)[0]? = some a[k % a.length] := by
    rw [List.getElem?_rotate hpos, Nat.zero_add, List.getElem?_eq_getElem hk]
  cases hb : a.rotate k with
  | nil => rw [hb] at h0; simp at h0
  | cons b0 t =>
    rw [hb] at h0; simp at h0; subst h0
    have hidx : a.idxOf a[k % a.length] = k % a.length := hn.idxOf_getElem _ hk
    refine ⟨_, t, rfl, by rw [hidx]; exact hk, ?_⟩
    rw [hidx, List.rotate_mod, hb]

theorem isRotation_refl {α} [DecidableEq α] {a : List α} (hne : a ≠ []) : isRotation a a = true := by
  rw [isRotation_eq_true_iff]
  cases a with
  | nil => exact absurd rfl hne
  | cons x xs =>
    refine ⟨rfl, x, xs, rfl, ?_, ?_⟩
    · rw [List.idxOf_cons_self]; simp
    · rw [List.idxOf_cons_self, List.rotate_zero]

/-- being a rotation is symmetric -/
theorem rotate_symm {α} {a b : List α} {k : Nat} (h : b = a.rotate k) : ∃ k', a = b.rotate k' := by
  have : a ~r b := ⟨k, h.symm⟩
  obtain ⟨k', hk'⟩ := this.symm
  exact ⟨k', hk'.symm⟩

/-! ## C. `filter_rotations` -/

/-- the body of the loop of l.235–240 -/
def filterStep {α} [DecidableEq α] (filtered : List (List α)) (line : List α) : List (List α) :=
  if filtered.any (fun fline => isRotation line fline) then filtered else filtered ++ [line]

theorem filterRotations_eq {α} [DecidableEq α] (matrix : List (List α)) :
    filterRotations matrix = matrix.foldl filterStep [] := rfl

theorem filterFold_spec {α} [DecidableEq α] (matrix : List (List α)) :
    ∀ acc : List (List α), acc.Pairwise (fun x y => isRotation y x = false) →
      let r := matrix.foldl filterStep acc
      acc <+: r ∧ r.Sublist (acc ++ matrix) ∧ r.Pairwise (fun x y => isRotation y x = false) ∧
      ∀ line ∈ matrix, line ∈ r ∨ ∃ m ∈ r, isRotation line m = true := by
  induction matrix with
  | nil => intro acc h; simp [h]
  | cons line rest ih =>
    intro acc hacc
    simp only [List.foldl_cons]
    have hstep : (filterStep acc line).Pairwise (fun x y => isRotation y x = false) := by
      unfold filterStep
      split
      · exact hacc
      · rename_i hany
        rw [List.pairwise_append]
        refine ⟨hacc, by simp, ?_⟩
        intro x hx y hy; simp at hy; subst hy
        cases hxy : isRotation y x with
        | false => rfl
        | true => exact absurd (List.any_eq_true.2 ⟨x, hx, hxy⟩) hany
    have hpre : acc <+: filterStep acc line := by
      unfold filterStep; split
      · exact List.prefix_refl _
      · exact List.prefix_append _ _
    have hsub : (filterStep acc line).Sublist (acc ++ [line]) := by
      unfold filterStep; split
      · exact List.sublist_append_left _ _
      · exact List.Sublist.refl _
    have hline : line ∈ filterStep acc line ∨ ∃ m ∈ filterStep acc line, isRotation line m = true := by
      unfold filterStep; split
      · rename_i hany
        obtain ⟨x, hx, hxy⟩ := List.any_eq_true.1 hany
        exact Or.inr ⟨x, hx, hxy⟩
      · left; simp
    obtain ⟨h1, h2, h3, h4⟩ := ih (filterStep acc line) hstep
    refine ⟨hpre.trans h1, ?_, h3, ?_⟩
    · refine h2.trans ?_
      have := List.Sublist.append_right hsub rest
      simpa using this
    · intro l hl
      rw [List.mem_cons] at hl
      rcases hl with rfl | hl
      · rcases hline with h | ⟨m, hm, hr⟩
        · exact Or.inl (h1.subset h)
        · exact Or.inr ⟨m, h1.subset hm, hr⟩
      · exact h4 l hl

/-! ## D. `DivideConnecteds` -/

section Divide
variable {α β : Type} [LE β] [DecidableRel (α := β) (· ≤ ·)] (key : α → β) (compatible : α → α → Bool)

theorem popMax_perm : ∀ (l : List α) (m : α) (rest : List α),
    popMax key l = some (m, rest) → l.Perm (m :: rest) := by
  intro l
  induction l with
  | nil => intro m rest h; simp [popMax] at h
  | cons x xs ih =>
    intro m rest h
    unfold popMax at h
    split at h
    · rename_i hnone
      have := (popMax_eq_none key xs).1 hnone; subst this
      simp at h; obtain ⟨rfl, rfl⟩ := h; exact List.Perm.refl _
    · rename_i y ys hy
      split at h
      · simp at h; obtain ⟨rfl, rfl⟩ := h; exact List.Perm.refl _
      · simp at h; obtain ⟨rfl, rfl⟩ := h
        exact ((ih y ys hy).cons x).trans (List.Perm.swap _ _ _)

/-- `popMax` returns an item of maximal key (for a total, transitive order on the keys) -/
theorem popMax_max (htotal : ∀ a b : β, a ≤ b ∨ b ≤ a) (htrans : ∀ a b c : β, a ≤ b → b ≤ c → a ≤ c) :
    ∀ (l : List α) (m : α) (rest : List α), popMax key l = some (m, rest) → ∀ x ∈ l, key x ≤ key m := by
  intro l
  induction l with
  | nil => intro m rest h; simp [popMax] at h
  | cons x xs ih =>
    intro m rest h
    unfold popMax at h
    split at h
    · rename_i hnone
      have := (popMax_eq_none key xs).1 hnone; subst this
      simp at h; obtain ⟨rfl, rfl⟩ := h
      intro z hz; simp at hz; subst hz; exact (htotal _ _).elim id id
    · rename_i y ys hy
      have ihy := ih y ys hy
      split at h
      · rename_i hle
        simp at h; obtain ⟨rfl, rfl⟩ := h
        intro z hz; rw [List.mem_cons] at hz
        rcases hz with rfl | hz
        · exact (htotal _ _).elim id id
        · exact htrans _ _ _ (ihy z hz) hle
      · rename_i hle
        simp at h; obtain ⟨rfl, rfl⟩ := h
        intro z hz; rw [List.mem_cons] at hz
        rcases hz with rfl | hz
        · exact (htotal _ _).resolve_right hle
        · exact ihy z hz

theorem splitInternal_perm (connected simples : List α) :
    ((splitInternal compatible connected simples).1 ++
      (splitInternal compatible connected simples).2).Perm simples := by
  unfold splitInternal
  rw [List.partition_eq_filter_filter]
  exact List.filter_append_perm _ _

theorem splitInternal_fst (connected simples : List α) :
    ∀ x ∈ (splitInternal compatible connected simples).1,
      x ∈ simples ∧ ∀ c ∈ connected, compatible x c = true := by
  unfold splitInternal
  rw [List.partition_eq_filter_filter]
  intro x hx
  simp only [List.mem_filter, List.all_eq_true] at hx
  exact hx

theorem splitInternal_snd (connected simples : List α) :
    ∀ x ∈ (splitInternal compatible connected simples).2,
      x ∈ simples ∧ ∃ c ∈ connected, compatible x c = false := by
  unfold splitInternal
  rw [List.partition_eq_filter_filter]
  intro x hx
  simp only [List.mem_filter, Function.comp, Bool.not_eq_true', List.all_eq_false] at hx
  obtain ⟨h1, c, hc, h2⟩ := hx
  exact ⟨h1, c, hc, by simpa using h2⟩

/-- the outer loop keeps every item: `connected ++ externals` at the end is a permutation of
`connected ++ externals ++ simples` at the start -/
theorem grow_perm (simples connected externals : List α) :
    ((grow key compatible simples connected externals).1 ++
      (grow key compatible simples connected externals).2).Perm (connected ++ externals ++ simples) := by
  classical
  induction simples, connected, externals using grow.induct key compatible with
  | case1 simples connected externals h =>
    rw [grow_none _ _ _ _ _ h]
    have := (popMax_eq_none key simples).1 h
    subst this; simp
  | case2 simples connected externals m rest h ih =>
    rw [grow_some _ _ _ _ _ m rest h]
    have h1 := popMax_perm key simples m rest h
    have h2 := splitInternal_perm compatible (connected ++ [m]) rest
    rw [List.perm_iff_count] at ih h1 h2 ⊢
    intro a
    have e1 := ih a; have e2 := h1 a; have e3 := h2 a
    simp only [List.count_append, List.count_cons, List.count_nil] at e1 e2 e3 ⊢
    omega

/-- `connected` and `externals` only grow -/
theorem grow_prefix (simples connected externals : List α) :
    connected <+: (grow key compatible simples connected externals).1 ∧
    externals <+: (grow key compatible simples connected externals).2 := by
  induction simples, connected, externals using grow.induct key compatible with
  | case1 simples connected externals h =>
    rw [grow_none _ _ _ _ _ h]; exact ⟨List.prefix_refl _, List.prefix_refl _⟩
  | case2 simples connected externals m rest h ih =>
    rw [grow_some _ _ _ _ _ m rest h]
    exact ⟨(List.prefix_append _ _).trans ih.1, (List.prefix_append _ _).trans ih.2⟩

/-- members of a group are pairwise compatible (later with earlier), and what was sent to `externals` is
incompatible with some member of the group -/
theorem grow_group (simples connected externals : List α)
    (hc : connected.Pairwise (fun a b => compatible b a = true))
    (hs : ∀ x ∈ simples, ∀ c ∈ connected, compatible x c = true) :
    (grow key compatible simples connected externals).1.Pairwise (fun a b => compatible b a = true) ∧
    ∀ x ∈ (grow key compatible simples connected externals).2, x ∈ externals ∨
      ∃ c ∈ (grow key compatible simples connected externals).1, compatible x c = false := by
  induction simples, connected, externals using grow.induct key compatible with
  | case1 simples connected externals h =>
    rw [grow_none _ _ _ _ _ h]
    exact ⟨hc, fun x hx => Or.inl hx⟩
  | case2 simples connected externals m rest h ih =>
    rw [grow_some _ _ _ _ _ m rest h]
    have h1 := popMax_perm key simples m rest h
    have hm : m ∈ simples := h1.symm.subset (List.mem_cons_self)
    have hpw : (connected ++ [m]).Pairwise (fun a b => compatible b a = true) := by
      rw [List.pairwise_append]
      refine ⟨hc, by simp, ?_⟩
      intro a ha b hb; simp at hb; subst hb; exact hs b hm a ha
    obtain ⟨i1, i2⟩ := ih hpw (fun x hx c hc' => (splitInternal_fst compatible _ _ x hx).2 c hc')
    refine ⟨i1, ?_⟩
    intro x hx
    rcases i2 x hx with hx' | hx'
    · rw [List.mem_append] at hx'
      rcases hx' with hx' | hx'
      · exact Or.inl hx'
      · right
        obtain ⟨_, c, hc', hcx⟩ := splitInternal_snd compatible _ _ x hx'
        exact ⟨c, (grow_prefix key compatible _ _ _).1.subset hc', hcx⟩
    · exact Or.inr hx'

end Divide

section Divide2
variable {α β : Type} [LE β] [DecidableRel (α := β) (· ≤ ·)] (key : α → β) (compatible : α → α → Bool)

theorem divideConnecteds_nil : divideConnecteds key compatible ([] : List α) = [] := by
  rw [divideConnecteds]; simp

theorem divideConnecteds_ne_nil {l : List α} (h : l ≠ []) :
    divideConnecteds key compatible l =
      (grow key compatible l [] []).1 :: divideConnecteds key compatible (grow key compatible l [] []).2 := by
  rw [divideConnecteds]; simp [h]

/-- the first group is not empty and `externals` is shorter than the input -/
theorem grow_top {l : List α} (h : l ≠ []) :
    (grow key compatible l [] []).1 ≠ [] ∧ (grow key compatible l [] []).2.length < l.length := by
  have h1 := grow_length key compatible l [] []
  have h2 := h1.2.1 h
  have h3 := h1.1
  simp only [List.length_nil] at h2 h3
  exact ⟨List.ne_nil_of_length_pos h2, by omega⟩

theorem divideConnecteds_spec : ∀ (n : Nat) (l : List α), l.length ≤ n →
    (divideConnecteds key compatible l).flatten.Perm l ∧
    (∀ g ∈ divideConnecteds key compatible l, g ≠ []) ∧
    (divideConnecteds key compatible l).length ≤ l.length ∧
    (∀ g ∈ divideConnecteds key compatible l, g.Pairwise (fun a b => compatible b a = true)) := by
  intro n
  induction n with
  | zero =>
    intro l hl
    have : l = [] := List.eq_nil_of_length_eq_zero (by omega)
    subst this; rw [divideConnecteds_nil]; simp
  | succ n ih =>
    intro l hl
    by_cases h : l = []
    · subst h; rw [divideConnecteds_nil]; simp
    · rw [divideConnecteds_ne_nil key compatible h]
      obtain ⟨t1, t2⟩ := grow_top key compatible h
      obtain ⟨i1, i2, i3, i4⟩ := ih (grow key compatible l [] []).2 (by omega)
      have hp := grow_perm key compatible l [] []
      have hg := (grow_group key compatible l [] [] List.Pairwise.nil (by simp)).1
      refine ⟨?_, ?_, ?_, ?_⟩
      · rw [List.flatten_cons]
        refine (List.Perm.append_left _ i1).trans ?_
        simpa using hp
      · intro g hg'; rw [List.mem_cons] at hg'
        rcases hg' with rfl | hg'
        · exact t1
        · exact i2 g hg'
      · rw [List.length_cons]; omega
      · intro g hg'; rw [List.mem_cons] at hg'
        rcases hg' with rfl | hg'
        · exact hg
        · exact i4 g hg'

theorem growFuel_eq : ∀ (fuel : Nat) (simples connected externals : List α), simples.length + 1 ≤ fuel →
    growFuel key compatible fuel simples connected externals =
      some (grow key compatible simples connected externals) := by
  intro fuel
  induction fuel with
  | zero => intro s c e h; omega
  | succ f ih =>
    intro s c e h
    unfold growFuel
    cases hp : popMax key s with
    | none => simp only []; rw [grow_none _ _ _ _ _ hp]
    | some mr =>
      obtain ⟨m, rest⟩ := mr
      simp only []
      rw [grow_some _ _ _ _ _ m rest hp]
      apply ih
      have h1 := popMax_length key s m rest hp
      have h2 := splitInternal_length compatible (c ++ [m]) rest
      omega

theorem divideConnectedsFuel_eq : ∀ (fuel : Nat) (l : List α), l.length + 1 ≤ fuel →
    divideConnectedsFuel key compatible fuel l = some (divideConnecteds key compatible l) := by
  intro fuel
  induction fuel with
  | zero => intro l h; omega
  | succ f ih =>
    intro l h
    unfold divideConnectedsFuel
    by_cases hl : l = []
    · subst hl; simp [divideConnecteds_nil]
    · have he : l.isEmpty = false := by cases l <;> simp_all
      rw [he]
      simp only [Bool.false_eq_true, if_false]
      rw [growFuel_eq key compatible _ _ _ _ (Nat.le_refl _)]
      simp only []
      obtain ⟨_, t2⟩ := grow_top key compatible hl
      rw [ih _ (by omega), divideConnecteds_ne_nil key compatible hl]

/-- the first group starts with the item `popMax` selects (the first one of maximal |area|) -/
theorem divideConnecteds_head {l : List α} {m : α} {rest : List α} (h : popMax key l = some (m, rest)) :
    ∃ t gs, divideConnecteds key compatible l = (m :: t) :: gs := by
  have hl : l ≠ [] := by
    intro hl; rw [(popMax_eq_none key l).2 hl] at h; cases h
  rw [divideConnecteds_ne_nil key compatible hl, grow_some _ _ _ _ _ m rest h]
  obtain ⟨t, ht⟩ := (grow_prefix key compatible (splitInternal compatible ([] ++ [m]) rest).1 ([] ++ [m])
    ([] ++ (splitInternal compatible ([] ++ [m]) rest).2)).1
  exact ⟨t, _, by rw [← ht]; rfl⟩

end Divide2

/-! ## E. `JordanCurve.clean` -/

/-- the union `segments[i] | segments[(i+1) % n]` is possible -/
def CanUnite {σ} (unite : σ → σ → Option σ) (segs : List σ) (i : Nat) : Prop :=
  ∃ a b u, segs[i]? = some a ∧ segs[(i + 1) % segs.length]? = some b ∧ unite a b = some u

theorem findUnionFrom_spec {σ} (unite : σ → σ → Option σ) (segs : List σ) :
    ∀ (todo i : Nat),
      (∀ k u, findUnionFrom unite segs todo i = some (k, u) →
        i ≤ k ∧ k < i + todo ∧
        (∃ a b, segs[k]? = some a ∧ segs[(k + 1) % segs.length]? = some b ∧ unite a b = some u) ∧
        ∀ i', i ≤ i' → i' < k → ¬ CanUnite unite segs i') ∧
      (findUnionFrom unite segs todo i = none → ∀ i', i ≤ i' → i' < i + todo → ¬ CanUnite unite segs i') := by
  intro todo
  induction todo with
  | zero =>
    intro i
    refine ⟨fun k u h => by simp [findUnionFrom] at h, fun _ i' h1 h2 => by omega⟩
  | succ t ih =>
    intro i
    obtain ⟨ih1, ih2⟩ := ih (i + 1)
    unfold findUnionFrom
    split
    · rename_i seg0 seg1 h0 h1
      split
      · rename_i u hu
        refine ⟨?_, fun h => by cases h⟩
        intro k u' h; simp at h; obtain ⟨rfl, rfl⟩ := h
        exact ⟨Nat.le_refl _, by omega, ⟨seg0, seg1, h0, h1, hu⟩, fun i' h1 h2 => by omega⟩
      · rename_i hu
        have hi : ¬ CanUnite unite segs i := by
          rintro ⟨a, b, u, e1, e2, e3⟩
          rw [h0] at e1; rw [h1] at e2; cases e1; cases e2; rw [hu] at e3; cases e3
        refine ⟨?_, ?_⟩
        · intro k u h
          obtain ⟨a1, a2, a3, a4⟩ := ih1 k u h
          refine ⟨by omega, by omega, a3, ?_⟩
          intro i' b1 b2
          by_cases e : i' = i
          · subst e; exact hi
          · exact a4 i' (by omega) b2
        · intro h i' b1 b2
          by_cases e : i' = i
          · subst e; exact hi
          · exact ih2 h i' (by omega) (by omega)
    · rename_i hnn
      have hi : ¬ CanUnite unite segs i := by
        rintro ⟨a, b, u, e1, e2, e3⟩
        exact hnn a b e1 e2
      refine ⟨?_, ?_⟩
      · intro k u h
        obtain ⟨a1, a2, a3, a4⟩ := ih1 k u h
        refine ⟨by omega, by omega, a3, ?_⟩
        intro i' b1 b2
        by_cases e : i' = i
        · subst e; exact hi
        · exact a4 i' (by omega) b2
      · intro h i' b1 b2
        by_cases e : i' = i
        · subst e; exact hi
        · exact ih2 h i' (by omega) (by omega)

theorem findUnion_some {σ} (unite : σ → σ → Option σ) (segs : List σ) (k : Nat) (u : σ)
    (h : findUnion unite segs = some (k, u)) :
    k < segs.length ∧
    (∃ a b, segs[k]? = some a ∧ segs[(k + 1) % segs.length]? = some b ∧ unite a b = some u) ∧
    ∀ i', i' < k → ¬ CanUnite unite segs i' := by
  obtain ⟨_, h2, h3, h4⟩ := (findUnionFrom_spec unite segs segs.length 0).1 k u h
  exact ⟨by omega, h3, fun i' hi => h4 i' (Nat.zero_le _) hi⟩

theorem findUnion_none {σ} (unite : σ → σ → Option σ) (segs : List σ)
    (h : findUnion unite segs = none) : ∀ i, i < segs.length → ¬ CanUnite unite segs i := by
  intro i hi
  exact (findUnionFrom_spec unite segs segs.length 0).2 h i (Nat.zero_le _) (by omega)

/-- one union: `segments[i] = segment; segments.pop(j)` shortens the list by exactly one -/
theorem length_after_union {σ} (segs : List σ) (i : Nat) (u : σ) (hi : i < segs.length) :
    ((segs.set i u).eraseIdx ((i + 1) % segs.length)).length + 1 = segs.length := by
  have : (i + 1) % segs.length < segs.length := Nat.mod_lt _ (by omega)
  rw [List.length_eraseIdx, List.length_set, if_pos this]; omega

theorem cleanLoopFuel_spec {σ} (unite : σ → σ → Option σ) :
    ∀ (fuel : Nat) (segs : List σ) (k : Nat), segs.length + 1 ≤ fuel →
      ∃ r k', cleanLoopFuel unite fuel segs k = some (r, k') ∧ k ≤ k' ∧
        r.length + (k' - k) = segs.length ∧ (∀ i, i < r.length → ¬ CanUnite unite r i) ∧
        ((∀ s, unite s s = none) → segs ≠ [] → r ≠ []) := by
  intro fuel
  induction fuel with
  | zero => intro segs k h; omega
  | succ f ih =>
    intro segs k h
    unfold cleanLoopFuel
    cases hf : findUnion unite segs with
    | none =>
      simp only []
      exact ⟨segs, k, rfl, Nat.le_refl _, by omega, findUnion_none unite segs hf, fun _ h => h⟩
    | some iu =>
      obtain ⟨i, u⟩ := iu
      simp only []
      obtain ⟨hi, ⟨a, b, ha, hb, hab⟩, _⟩ := findUnion_some unite segs i u hf
      have hlen := length_after_union segs i u hi
      obtain ⟨r, k', e1, e2, e3, e4, e5⟩ :=
        ih ((segs.set i u).eraseIdx ((i + 1) % segs.length)) (k + 1) (by omega)
      refine ⟨r, k', e1, by omega, by omega, e4, ?_⟩
      intro hself hne
      apply e5 hself
      intro hnil
      rw [hnil] at hlen
      simp at hlen
      -- a union on a one-segment list unites the segment with itself
      have h1 : segs.length = 1 := by omega
      have hi0 : i = 0 := by omega
      subst hi0
      rw [h1] at hb
      simp at hb
      rw [ha] at hb; cases hb
      rw [hself a] at hab; cases hab

theorem cleanLoopFuel_mono {σ} (unite : σ → σ → Option σ) :
    ∀ (fuel : Nat) (segs : List σ) (k d : Nat) (x : List σ × Nat),
      cleanLoopFuel unite fuel segs k = some x → cleanLoopFuel unite (fuel + d) segs k = some x := by
  intro fuel
  induction fuel with
  | zero => intro segs k d x h; simp [cleanLoopFuel] at h
  | succ f ih =>
    intro segs k d x h
    have e : f + 1 + d = (f + d) + 1 := by omega
    rw [e]
    unfold cleanLoopFuel at h ⊢
    cases hf : findUnion unite segs with
    | none => rw [hf] at h; exact h
    | some iu => rw [hf] at h; exact ih _ _ d x h

/-! ## F. `follow_path` -/

theorem pursuePath_ne_outOfFuel (lens : List Nat) (jump : Jump) (start : Idx) :
    pursuePath lens jump start ≠ .error .outOfFuel :=
  pursuePathFuel_noHang lens jump _ start [] (PursueInv.nil lens jump) (by simp) (by simp)

theorem pursuePath_ok {lens : List Nat} {jump : Jump} (hj : JumpOK lens jump) {start : Idx}
    (hs : CurveOK lens start.1) : ∃ r, pursuePath lens jump start = .ok r := by
  cases h : pursuePath lens jump start with
  | ok r => exact ⟨r, rfl⟩
  | error e =>
    have := pursuePathFuel_noRaise hj _ _ _ e hs h
    subst this
    exact absurd h (pursuePath_ne_outOfFuel lens jump start)

theorem pursuePath_inv {lens : List Nat} {jump : Jump} {start : Idx} {r : List Idx}
    (h : pursuePath lens jump start = .ok r) :
    PursueInv lens jump r ∧ r.head? = some (normIdx lens start) ∧
      (∃ l, r.getLast? = some l ∧ pursueStep lens jump l ∈ r) := by
  obtain ⟨h1, h2, h3⟩ := pursuePathFuel_inv lens jump _ _ _ _ h (PursueInv.nil lens jump) (by simp)
  exact ⟨h1, h2 rfl, h3⟩

theorem pursueAll_ok_iff (lens : List Nat) (jump : Jump) : ∀ (starts : List Idx) (ms : List (List Idx)),
    pursueAll lens jump starts = .ok ms ↔
      List.Forall₂ (fun p m => pursuePath lens jump p = .ok m) starts ms := by
  intro starts
  induction starts with
  | nil =>
    intro ms
    constructor
    · intro h; simp [pursueAll] at h; subst h; exact List.Forall₂.nil
    · intro h; cases h; rfl
  | cons p ps ih =>
    intro ms
    unfold pursueAll
    constructor
    · intro h
      split at h
      · cases h
      · rename_i m hm
        split at h
        · cases h
        · rename_i ms' hms'
          cases h
          exact List.Forall₂.cons hm ((ih ms').1 hms')
    · intro h
      cases h with
      | cons h1 h2 =>
        rw [h1]; simp only []
        rw [(ih _).2 h2]

theorem pursueAll_error (lens : List Nat) (jump : Jump) : ∀ (starts : List Idx) (e : LoopErr),
    pursueAll lens jump starts = .error e → ∃ p ∈ starts, pursuePath lens jump p = .error e := by
  intro starts
  induction starts with
  | nil => intro e h; simp [pursueAll] at h
  | cons p ps ih =>
    intro e h
    unfold pursueAll at h
    split at h
    · rename_i e' he; cases h; exact ⟨p, List.mem_cons_self, he⟩
    · split at h
      · rename_i e' he; cases h
        obtain ⟨q, hq, hqe⟩ := ih _ he
        exact ⟨q, List.mem_cons_of_mem _ hq, hqe⟩
      · cases h

theorem followPath_ok_iff (lens : List Nat) (jump : Jump) (starts : List Idx) (res : List (List Idx)) :
    followPath lens jump starts = .ok res ↔
      ∃ ms, List.Forall₂ (fun p m => pursuePath lens jump p = .ok m) starts ms ∧
        res = filterRotations ms := by
  unfold followPath
  constructor
  · intro h
    split at h
    · cases h
    · rename_i ms hms; cases h
      exact ⟨ms, (pursueAll_ok_iff lens jump starts ms).1 hms, rfl⟩
  · rintro ⟨ms, h1, rfl⟩
    rw [(pursueAll_ok_iff lens jump starts ms).2 h1]

theorem followPath_error (lens : List Nat) (jump : Jump) (starts : List Idx) (e : LoopErr)
    (h : followPath lens jump starts = .error e) : ∃ p ∈ starts, pursuePath lens jump p = .error e := by
  unfold followPath at h
  split at h
  · rename_i e' he; cases h; exact pursueAll_error lens jump starts _ he
  · cases h

end ShapeVerif.Follow
