/- helper lemmas for the properties C20 (plotting), C17 (constructors), C05 (measures), C11 (crash safety) -/
import ShapeVerif.Model.Plot
import ShapeVerif.Model.Crash
import ShapeVerif.Proofs.Geom
import ShapeVerif.Proofs.Heap
import ShapeVerif.Proofs.Quadrature
import ShapeVerif.Props.C15
import Mathlib.Algebra.BigOperators.Group.List.Basic
import Mathlib.Tactic.FieldSimp

namespace ShapeVerif.Misc
open ShapeVerif

/-! ## C20 — path encoding / decoding -/

/-- a closed chain with EXACT junctions: non-empty, every segment non-empty, every end point IS the
next start point, cyclically (`Geom.ExactClosed`) -/
def ClosedExact (j : Jordan) : Prop :=
  j ≠ [] ∧ (∀ s ∈ j, s ≠ []) ∧ Geom.ExactClosed j

/-- the segments start at `c` and each one starts where the previous one ends -/
def Linked : Pt → List Seg → Prop
  | _, [] => True
  | c, s :: rest => s.head? = some c ∧ Linked (s.getLastD c) rest

/-- the point reached after running through the chain from `c` -/
def endPt : Pt → List Seg → Pt
  | c, [] => c
  | c, s :: rest => endPt (s.getLastD c) rest

theorem decodeGo_seg (s : Seg) (c : Pt) (hs : s.head? = some c)
    (hd : s.length = 2 ∨ s.length = 3 ∨ s.length = 4)
    (tail : List (Pt × PCode)) (cur : Jordan) (acc : List Jordan) :
    decodeGo (patchSegment s ++ tail) (some c) cur acc
      = decodeGo tail (some (s.getLastD c)) (cur ++ [s]) acc := by
  rcases hd with h | h | h
  · obtain ⟨p, q, rfl⟩ := List.length_eq_two.mp h
    simp only [List.head?_cons, Option.some.injEq] at hs
    subst hs
    simp [patchSegment, Seg.degree, patchCode, decodeGo]
  · obtain ⟨p, q, r, rfl⟩ := List.length_eq_three.mp h
    simp only [List.head?_cons, Option.some.injEq] at hs
    subst hs
    simp [patchSegment, Seg.degree, patchCode, decodeGo]
  · obtain ⟨p, q, r, u, rfl⟩ := seg_len4 h
    simp only [List.head?_cons, Option.some.injEq] at hs
    subst hs
    simp [patchSegment, Seg.degree, patchCode, decodeGo]

theorem decodeGo_chain : ∀ (j : List Seg) (c : Pt), Linked c j →
    (∀ s ∈ j, s.length = 2 ∨ s.length = 3 ∨ s.length = 4) →
    ∀ (tail : List (Pt × PCode)) (cur : Jordan) (acc : List Jordan),
    decodeGo (j.flatMap patchSegment ++ tail) (some c) cur acc
      = decodeGo tail (some (endPt c j)) (cur ++ j) acc
  | [], c, _, _, tail, cur, acc => by simp [endPt]
  | s :: rest, c, hl, hd, tail, cur, acc => by
    simp only [List.flatMap_cons, List.append_assoc]
    rw [decodeGo_seg s c hl.1 (hd s (by simp))]
    rw [decodeGo_chain rest _ hl.2 (fun s hs => hd s (List.mem_cons_of_mem _ hs))]
    simp [endPt]

theorem getLastD_indep {l : List Pt} (h : l ≠ []) (a b : Pt) : l.getLastD a = l.getLastD b := by
  rw [List.getLastD_eq_getLast?, List.getLastD_eq_getLast?, List.getLast?_eq_some_getLast h]; rfl

/-- consecutive exact junctions give a linked chain -/
theorem linked_of_zip : ∀ (l : List Seg) (s z : Seg), (∀ t ∈ s :: l, t ≠ []) →
    (∀ ab ∈ (s :: l).zip (l ++ [z]), ab.1.getLastD Pt.zero = ab.2.headD Pt.zero) →
    Linked (s.headD Pt.zero) (s :: l)
  | [], s, z, hne, _ => by
    have := hne s (by simp)
    cases s with
    | nil => exact absurd rfl this
    | cons a t => simp [Linked]
  | y :: l, s, z, hne, h => by
    have hs := hne s (by simp)
    have hy := hne y (by simp)
    have h1 := h (s, y) (by simp)
    have ih := linked_of_zip l y z (fun t ht => hne t (List.mem_cons_of_mem _ ht)) (fun ab hab => h ab (by
      simp only [List.cons_append, List.zip_cons_cons, List.mem_cons] at hab ⊢
      exact Or.inr hab))
    cases s with
    | nil => exact absurd rfl hs
    | cons a t =>
      refine ⟨by simp, ?_⟩
      have e : (a :: t).getLastD a = (a :: t).getLastD Pt.zero := getLastD_indep hs _ _
      simp only [List.headD_cons] at *
      rw [e, h1]
      exact ih

theorem linked_of_closedExact {j : Jordan} (h : ClosedExact j) :
    ∃ s0 rest, j = s0 :: rest ∧ Linked (s0.headD Pt.zero) j := by
  obtain ⟨hne, hs, hc⟩ := h
  cases j with
  | nil => exact absurd rfl hne
  | cons s0 rest =>
    refine ⟨s0, rest, rfl, linked_of_zip rest s0 s0 hs ?_⟩
    simpa [Geom.ExactClosed] using hc

/-- one closed curve is read back, whatever follows and whatever was read before -/
theorem decodeGo_jordan {j : Jordan} (hc : ClosedExact j)
    (hd : ∀ s ∈ j, s.length = 2 ∨ s.length = 3 ∨ s.length = 4)
    (tail : List (Pt × PCode)) (o : Option Pt) (acc : List Jordan) :
    decodeGo (encodeJordan j ++ tail) o [] acc = decodeGo tail none [] (j :: acc) := by
  obtain ⟨s0, rest, rfl, hl⟩ := linked_of_closedExact hc
  simp only [encodeJordan, List.cons_append, List.append_assoc]
  rw [decodeGo, decodeGo_chain _ _ hl hd]
  simp [decodeGo]

theorem decodeGo_component : ∀ (js : List Jordan), (∀ j ∈ js, ClosedExact j) →
    (∀ j ∈ js, ∀ s ∈ j, s.length = 2 ∨ s.length = 3 ∨ s.length = 4) →
    ∀ (tail : List (Pt × PCode)) (o : Option Pt) (acc : List Jordan),
    decodeGo (encodeComponent js ++ tail) o [] acc = decodeGo tail (if js = [] then o else none) [] (js.reverse ++ acc)
  | [], _, _, tail, o, acc => by simp [encodeComponent]
  | j :: js, hc, hd, tail, o, acc => by
    simp only [encodeComponent, List.flatMap_cons, List.append_assoc]
    rw [decodeGo_jordan (hc j (by simp)) (hd j (by simp))]
    have := decodeGo_component js (fun j hj => hc j (List.mem_cons_of_mem _ hj))
      (fun j hj => hd j (List.mem_cons_of_mem _ hj)) tail none (j :: acc)
    simp only [encodeComponent] at this
    rw [this]
    simp

/-! ### the code sequence -/

def codes (path : List (Pt × PCode)) : List PCode := path.map (·.2)

theorem codes_patchSegment (s : Seg) (hd : s.length = 2 ∨ s.length = 3 ∨ s.length = 4) :
    (codes (patchSegment s)).length = s.degree := by
  rcases hd with h | h | h
  · obtain ⟨p, q, rfl⟩ := List.length_eq_two.mp h; rfl
  · obtain ⟨p, q, r, rfl⟩ := List.length_eq_three.mp h; rfl
  · obtain ⟨p, q, r, u, rfl⟩ := seg_len4 h; rfl

theorem length_flatMap_patch : ∀ (j : Jordan), (∀ s ∈ j, s.length = 2 ∨ s.length = 3 ∨ s.length = 4) →
    (j.flatMap patchSegment).length = (List.map Seg.degree j).sum
  | [], _ => rfl
  | s :: j, hd => by
    simp only [List.flatMap_cons, List.length_append, List.map_cons, List.sum_cons]
    rw [length_flatMap_patch j (fun s hs => hd s (List.mem_cons_of_mem _ hs))]
    have := codes_patchSegment s (hd s (by simp))
    simp only [codes, List.length_map] at this
    omega

theorem verts_patchSegment (s : Seg) (hd : s.length = 2 ∨ s.length = 3 ∨ s.length = 4) :
    (patchSegment s).map (·.1) = s.tail := by
  rcases hd with h | h | h
  · obtain ⟨p, q, rfl⟩ := List.length_eq_two.mp h; rfl
  · obtain ⟨p, q, r, rfl⟩ := List.length_eq_three.mp h; rfl
  · obtain ⟨p, q, r, u, rfl⟩ := seg_len4 h; rfl

theorem verts_flatMap_patch : ∀ (j : Jordan), (∀ s ∈ j, s.length = 2 ∨ s.length = 3 ∨ s.length = 4) →
    (j.flatMap patchSegment).map (·.1) = j.flatMap List.tail
  | [], _ => rfl
  | s :: j, hd => by
    simp only [List.flatMap_cons, List.map_append]
    rw [verts_flatMap_patch j (fun s hs => hd s (List.mem_cons_of_mem _ hs)),
      verts_patchSegment s (hd s (by simp))]

/-- the codes emitted for a segment are neither MOVETO nor CLOSEPOLY -/
theorem codes_patchSegment_inner (s : Seg) : ∀ pc ∈ patchSegment s, pc.2 ≠ .moveto ∧ pc.2 ≠ .closepoly := by
  intro pc hpc
  unfold patchSegment at hpc
  split at hpc
  · rename_i c hc
    simp only [List.mem_map] at hpc
    obtain ⟨p, _, rfl⟩ := hpc
    simp only
    unfold patchCode at hc
    split at hc <;> first | (cases hc; exact ⟨by decide, by decide⟩) | cases hc
  · simp at hpc

/-! ## C17 — constructors -/

theorem tol9_pos : (0 : Rat) < tol9 := by decide +kernel

/-- `Point2D.__eq__` is reflexive -/
theorem eqTol_refl (p : Pt) : Pt.eqTol p p = true := by
  have h : ¬ ((0 : Rat) > tol9) := by
    have := tol9_pos
    intro h'; exact absurd (lt_trans this h') (lt_irrefl _)
  simp [Pt.eqTol, absR, h]

/-- the repair step of `from_segments` on one junction -/
def weld (ab : Seg × Seg) : Seg := ab.1.dropLast ++ [ab.2.headD Pt.zero]

theorem fromSegments_cons (s0 : Seg) (rest : Jordan) :
    Jordan.fromSegments (s0 :: rest) =
      if Jordan.closedChain (s0 :: rest) then some (((s0 :: rest).zip (rest ++ [s0])).map weld) else none := rfl

theorem closedChain_cons (s0 : Seg) (rest : Jordan) :
    Jordan.closedChain (s0 :: rest) = ((s0 :: rest).zip (rest ++ [s0])).all fun ab =>
      match ab.1.getLast?, ab.2.head? with
      | some e, some s => Pt.eqTol e s
      | _, _ => false := rfl

theorem dropLast_concat_getLastD {l : List Pt} (h : l ≠ []) : l.dropLast ++ [l.getLastD Pt.zero] = l := by
  rw [List.getLastD_eq_getLast?, List.getLast?_eq_some_getLast h]
  exact List.dropLast_concat_getLast h

/-- an exactly closed chain is accepted by `from_segments` and returned unchanged -/
theorem fromSegments_of_closedExact {j : Jordan} (h : ClosedExact j) : Jordan.fromSegments j = some j := by
  obtain ⟨hne, hs, hc⟩ := h
  cases j with
  | nil => exact absurd rfl hne
  | cons s0 rest =>
    have hc' : ∀ ab ∈ (s0 :: rest).zip (rest ++ [s0]), ab.1.getLastD Pt.zero = ab.2.headD Pt.zero := by
      simpa [Geom.ExactClosed] using hc
    have hmem : ∀ ab ∈ (s0 :: rest).zip (rest ++ [s0]), ab.1 ≠ [] ∧ ab.2 ≠ [] := by
      intro ab hab
      have h1 := (List.of_mem_zip hab).1
      have h2 := (List.of_mem_zip hab).2
      refine ⟨hs _ h1, hs _ ?_⟩
      simp only [List.mem_append, List.mem_cons] at h2 ⊢
      tauto
    have hcc : Jordan.closedChain (s0 :: rest) = true := by
      rw [closedChain_cons, List.all_eq_true]
      intro ab hab
      obtain ⟨h1, h2⟩ := hmem ab hab
      have e := hc' ab hab
      obtain ⟨a, b⟩ := ab
      simp only at h1 h2 e ⊢
      rw [List.getLast?_eq_some_getLast h1, List.head?_eq_some_head h2]
      simp only
      rw [List.getLastD_eq_getLast?, List.getLast?_eq_some_getLast h1, List.headD_eq_head?_getD,
        List.head?_eq_some_head h2] at e
      simp only [Option.getD_some] at e
      rw [e]; exact eqTol_refl _
    rw [fromSegments_cons, if_pos hcc]
    congr 1
    have : ((s0 :: rest).zip (rest ++ [s0])).map weld = ((s0 :: rest).zip (rest ++ [s0])).map Prod.fst := by
      apply List.map_congr_left
      intro ab hab
      unfold weld
      rw [← hc' ab hab]
      exact dropLast_concat_getLastD (hmem ab hab).1
    rw [this, List.map_fst_zip]
    simp

theorem fromVertices_ne_nil {vs : List Pt} (h : vs ≠ []) : Jordan.fromVertices vs ≠ [] := by
  cases vs with
  | nil => exact absurd rfl h
  | cons v t => cases t <;> simp [Jordan.fromVertices]

theorem fromVertices_len2 (vs : List Pt) : ∀ s ∈ Jordan.fromVertices vs, s.length = 2 := by
  simpa [Jordan.isPolygon] using Geom.fromVertices_polygon vs

theorem closedExact_fromVertices {vs : List Pt} (h : vs ≠ []) : ClosedExact (Jordan.fromVertices vs) := by
  refine ⟨fromVertices_ne_nil h, ?_, Geom.exactClosed_fromVertices vs⟩
  intro s hs e
  have := fromVertices_len2 vs s hs
  rw [e] at this; simp at this

/-- the welded chain `x → l → z` -/
def weldChain (s : Seg) (l : List Seg) (z : Seg) : List Seg := ((s :: l).zip (l ++ [z])).map weld

theorem weldChain_nil (s z : Seg) : weldChain s [] z = [weld (s, z)] := rfl
theorem weldChain_cons (s y : Seg) (l : List Seg) (z : Seg) :
    weldChain s (y :: l) z = weld (s, y) :: weldChain y l z := rfl

theorem weldChain_head (y : Seg) (l : List Seg) (z : Seg) : ∃ n T, weldChain y l z = weld (y, n) :: T := by
  cases l with
  | nil => exact ⟨z, [], rfl⟩
  | cons a l => exact ⟨a, _, rfl⟩

theorem weld_getLastD (a b : Seg) : (weld (a, b)).getLastD Pt.zero = b.headD Pt.zero := by
  simp [weld, List.getLastD_eq_getLast?]

theorem weld_headD (a b : Seg) (h : 2 ≤ a.length) : (weld (a, b)).headD Pt.zero = a.headD Pt.zero := by
  match a, h with
  | p :: q :: t, _ => simp [weld, List.dropLast]

theorem weld_length (a b : Seg) (h : a ≠ []) : (weld (a, b)).length = a.length := by
  cases a with
  | nil => exact absurd rfl h
  | cons p t => simp [weld]

theorem weldChain_closed : ∀ (l : List Seg) (s z w : Seg), (∀ t ∈ l, 2 ≤ t.length) →
    w.headD Pt.zero = z.headD Pt.zero →
    ∀ ab ∈ (weldChain s l z).zip ((weldChain s l z).tail ++ [w]), ab.1.getLastD Pt.zero = ab.2.headD Pt.zero
  | [], s, z, w, _, hw => by
    intro ab hab
    simp only [weldChain_nil, List.tail_cons, List.nil_append, List.zip_cons_cons, List.zip_nil_right,
      List.mem_singleton] at hab
    subst hab
    simp only [weld_getLastD, hw]
  | y :: l, s, z, w, hl, hw => by
    intro ab hab
    obtain ⟨n, T, hT⟩ := weldChain_head y l z
    have ih := weldChain_closed l y z w (fun t ht => hl t (List.mem_cons_of_mem _ ht)) hw
    rw [weldChain_cons, List.tail_cons] at hab
    rw [hT] at hab ih
    simp only [List.cons_append, List.zip_cons_cons, List.mem_cons, List.tail_cons] at hab ih
    rcases hab with rfl | hab
    · simp only [weld_getLastD]
      rw [weld_headD _ _ (hl y (by simp))]
    · exact ih ab hab

theorem closedChain_nonempty {s0 : Seg} {rest : Jordan} (h : Jordan.closedChain (s0 :: rest) = true) :
    ∀ ab ∈ (s0 :: rest).zip (rest ++ [s0]), ab.1 ≠ [] := by
  rw [closedChain_cons, List.all_eq_true] at h
  intro ab hab e
  have := h ab hab
  rw [e] at this
  simp at this

/-- every point of the list is in its bounding box -/
theorem ofPts_contains {ps : List Pt} {p : Pt} (hp : p ∈ ps) : (Box.ofPts ps).contains p = true := by
  have h1 : listMin (ps.map (·.x)) ≤ p.x := listMin_le (List.mem_map.mpr ⟨p, hp, rfl⟩)
  have h2 : p.x ≤ listMax (ps.map (·.x)) := le_listMax (List.mem_map.mpr ⟨p, hp, rfl⟩)
  have h3 : listMin (ps.map (·.y)) ≤ p.y := listMin_le (List.mem_map.mpr ⟨p, hp, rfl⟩)
  have h4 : p.y ≤ listMax (ps.map (·.y)) := le_listMax (List.mem_map.mpr ⟨p, hp, rfl⟩)
  simp [Box.contains, Box.ofPts, h1, h2, h3, h4]

theorem contains_iff (b : Box) (p : Pt) :
    b.contains p = true ↔ b.lo.x ≤ p.x ∧ p.x ≤ b.hi.x ∧ b.lo.y ≤ p.y ∧ p.y ≤ b.hi.y := by
  simp [Box.contains, and_assoc]

/-! ### reversing the vertex order -/

/-- sum of an antisymmetric edge functional along the open vertex path `x → l → z` -/
def pathSum (F : Pt → Pt → Rat) : Pt → List Pt → Pt → Rat
  | x, [], z => F x z
  | x, y :: l, z => F x y + pathSum F y l z

theorem pathSum_concat (F : Pt → Pt → Rat) : ∀ (l : List Pt) (x y z : Pt),
    pathSum F x (l ++ [y]) z = pathSum F x l y + F y z
  | [], x, y, z => rfl
  | a :: l, x, y, z => by
    simp only [List.cons_append, pathSum, pathSum_concat F l a y z]; ring

theorem pathSum_reverse (F : Pt → Pt → Rat) (hF : ∀ a b, F b a = - F a b) : ∀ (l : List Pt) (x z : Pt),
    pathSum F z l.reverse x = - pathSum F x l z
  | [], x, z => by simp [pathSum, hF x z]
  | a :: l, x, z => by
    rw [List.reverse_cons, pathSum_concat, pathSum_reverse F hF l a z, hF x a]
    simp only [pathSum]; ring

theorem sum_segsOf (G : Seg → Rat) : ∀ (l : List Pt) (x z : Pt),
    ((Geom.segsOf x l z).map G).sum = pathSum (fun a b => G [a, b]) x l z
  | [], x, z => by simp [Geom.segsOf, pathSum]
  | y :: l, x, z => by simp [Geom.segsOf, pathSum, sum_segsOf G l y z]

theorem sum_fromVertices_cons (G : Seg → Rat) (v0 : Pt) (t : List Pt) :
    (List.map G (Jordan.fromVertices (v0 :: t))).sum = pathSum (fun a b => G [a, b]) v0 t v0 := by
  rw [Geom.fromVertices_cons, Geom.segsOf_eq, sum_segsOf]

/-- an edge functional that changes sign with the direction of the edge changes sign when the
polygon is traversed in the opposite order -/
theorem sum_fromVertices_reverse (G : Seg → Rat) (hG : ∀ a b, G [b, a] = - G [a, b]) (vs : List Pt) :
    (List.map G (Jordan.fromVertices vs.reverse)).sum = - (List.map G (Jordan.fromVertices vs)).sum := by
  cases vs with
  | nil => simp [Jordan.fromVertices]
  | cons v0 t =>
    rcases List.eq_nil_or_concat t with rfl | ⟨t', u, rfl⟩
    · simp only [List.reverse_singleton, sum_fromVertices_cons, pathSum]
      exact hG v0 v0
    · simp only [List.concat_eq_append]
      rw [sum_fromVertices_cons]
      have e : (v0 :: (t' ++ [u])).reverse = u :: (t'.reverse ++ [v0]) := by simp
      rw [e, sum_fromVertices_cons, pathSum_concat, pathSum_concat,
        pathSum_reverse _ (fun a b => hG a b) t' v0 u, hG u v0]
      ring

theorem jev_fromVertices_reverse (vs : List Pt) (a b : Nat) (h : a + b ≤ 15) :
    jordanExactVertical (Jordan.fromVertices vs.reverse) a b
      = - jordanExactVertical (Jordan.fromVertices vs) a b := by
  unfold jordanExactVertical
  exact sum_fromVertices_reverse (fun s => exactVertical s a b)
    (fun p q => exactVertical_reverse_line p q a b (by unfold symN; omega)) vs

/-! ## C05 — measures as sums over boundary pieces -/

theorem sum_jev_flatten (js : List (List Seg)) (a b : Nat) :
    (js.map fun j => jordanExactVertical j a b).sum = jordanExactVertical js.flatten a b := by
  induction js with
  | nil => simp [jordanExactVertical]
  | cons j js ih => simp only [List.map_cons, List.sum_cons, List.flatten_cons, jordanExactVertical_append, ih]

theorem shapeExactMoment_eq (js : List (List Seg)) (a b : Nat) :
    shapeExactMoment js a b = jordanExactVertical js.flatten (a + 1) b / ((a + 1 : Nat) : Rat) := by
  unfold shapeExactMoment
  rw [sum_jev_flatten, Nat.add_comm 1 a]

theorem jev_perm {L L' : List Seg} (h : L.Perm L') (a b : Nat) :
    jordanExactVertical L a b = jordanExactVertical L' a b := by
  unfold jordanExactVertical
  exact (h.map _).sum_eq

/-- a list of pieces followed by the same pieces reversed contributes nothing -/
theorem jev_cancel (X : List Seg) (hX : ∀ s ∈ X, DegLe3 s) (a b : Nat) (h : a + b ≤ 4) :
    jordanExactVertical (X ++ X.map List.reverse) a b = 0 := by
  rw [jordanExactVertical_append]
  induction X with
  | nil => simp [jordanExactVertical]
  | cons s X ih =>
    have ih := ih (fun s hs => hX s (List.mem_cons_of_mem _ hs))
    simp only [jordanExactVertical, List.map_cons, List.sum_cons, List.map_map] at ih ⊢
    rw [exactVertical_reverse s (hX s (by simp)) a b h]
    linarith

/-! ## C11 — the heap-level split of a polygon is the value-level split -/

/-- the segments joining consecutive elements of a list -/
def chainSegs {α : Type} (pts : List α) : List (List α) := (pts.zip pts.tail).map fun xy => [xy.1, xy.2]

theorem chainSegs_cons_cons {α : Type} (a b : α) (l : List α) :
    chainSegs (a :: b :: l) = [a, b] :: chainSegs (b :: l) := rfl

theorem chainSegs_map {α β : Type} (f : α → β) (l : List α) :
    (chainSegs l).map (List.map f) = chainSegs (l.map f) := by
  unfold chainSegs
  rw [← List.map_tail, List.zip_map, List.map_map, List.map_map]
  rfl

theorem chainSegs_len2 {α : Type} (l : List α) : ∀ s ∈ chainSegs l, s.length = 2 := by
  intro s hs
  simp only [chainSegs, List.mem_map] at hs
  obtain ⟨_, _, rfl⟩ := hs; rfl

theorem chainSegs_mem {α : Type} (l : List α) : ∀ s ∈ chainSegs l, ∀ i ∈ s, i ∈ l := by
  intro s hs i hi
  simp only [chainSegs, List.mem_map] at hs
  obtain ⟨xy, hxy, rfl⟩ := hs
  simp only [List.mem_cons, List.not_mem_nil, or_false] at hi
  rcases hi with rfl | rfl
  · exact (List.of_mem_zip hxy).1
  · exact List.mem_of_mem_tail (List.of_mem_zip hxy).2

theorem lerp_lerp (P Q : Pt) (prev n : Rat) (h : prev ≠ 1) :
    lerp (lerp P Q prev) Q ((n - prev) / (1 - prev)) = lerp P Q n := by
  have h' : 1 - prev ≠ 0 := fun e => h (by linarith)
  apply Geom.Pt.ext' <;> simp only [lerp] <;> field_simp <;> ring

/-- `splitMany` on a straight segment: the cut points are the points of the ORIGINAL segment at the
(absolute) node parameters -/
theorem splitMany_line_abs : ∀ (nodes : List Rat) (prev : Rat) (P Q : Pt), prev ≠ 1 →
    (∀ n ∈ nodes, n ≠ 1) →
    splitMany [lerp P Q prev, Q] prev nodes = chainSegs (lerp P Q prev :: nodes.map (lerp P Q) ++ [Q])
  | [], prev, P, Q, _, _ => rfl
  | n :: rest, prev, P, Q, hp, hn => by
    simp only [splitMany, Geom.splitAt_line, lerp_lerp P Q prev n hp]
    rw [splitMany_line_abs rest n P Q (hn n (by simp)) (fun m hm => hn m (List.mem_cons_of_mem _ hm))]
    rfl

theorem keepNode_ne_one {t : Rat} (h : keepNode t = true) : t ≠ 1 := by
  intro e; subst e
  have : keepNode 1 = false := by decide +kernel
  rw [this] at h; cases h

theorem dedupNodes_nil : dedupNodes [] = [] := by simp [dedupNodes]

/-- what `JordanCurve.split` does to a straight segment `[p, q]` given its kept nodes -/
theorem splitSeg_line_chain (p q : Pt) (ns : List Rat) (h : ∀ t ∈ ns, keepNode t = true) :
    (if ns.isEmpty then [[p, q]] else splitSeg [p, q] ns)
      = chainSegs (p :: (dedupNodes (sortRat ns)).map (lerp p q) ++ [q]) := by
  have hne : ∀ n ∈ dedupNodes (sortRat ns), n ≠ 1 := fun n hn =>
    keepNode_ne_one (h n ((Geom.sortRat_mem ns n).mp ((Geom.dedupNodes_sublist _).subset hn)))
  have key := splitMany_line_abs (dedupNodes (sortRat ns)) 0 p q (by decide) hne
  rw [Geom.lerp_zero] at key
  split
  · rename_i he
    have : ns = [] := List.isEmpty_iff.mp he
    subst this
    simp [sortRat, dedupNodes_nil, chainSegs]
  · rw [Geom.splitSeg_line_eq, key]

/-- `JordanCurve.split` from segment index `k` on -/
def valueSplit (pairs : List (Nat × Rat)) (j : Jordan) (k : Nat) : Jordan :=
  ((j.zipIdx k).map fun (si : Seg × Nat) =>
    if (Geom.nodesFor pairs si.2).isEmpty then [si.1] else splitSeg si.1 (Geom.nodesFor pairs si.2)).flatten

theorem jordanSplit_eq (j : Jordan) (pairs : List (Nat × Rat)) : Jordan.split j pairs = valueSplit pairs j 0 := rfl

theorem valueSplit_cons (pairs : List (Nat × Rat)) (s : Seg) (j : Jordan) (k : Nat) :
    valueSplit pairs (s :: j) k =
      (if (Geom.nodesFor pairs k).isEmpty then [s] else splitSeg s (Geom.nodesFor pairs k))
        ++ valueSplit pairs j (k + 1) := by
  simp [valueSplit, List.zipIdx_cons]

theorem range_map_getD (M : List Pt) : (List.range M.length).map (fun i => M.getD i Pt.zero) = M := by
  apply List.ext_getElem
  · simp
  · intro i h1 h2
    simp at h1
    simp [h1]

/-- cell lookup in a list of cells -/
def cellOf (cells : List Pt) (i : Nat) : Pt := cells.getD i Pt.zero

theorem cellOf_append_lt (l m : List Pt) (i : Nat) (hi : i < l.length) : cellOf (l ++ m) i = cellOf l i :=
  getD_append_lt l m i Pt.zero hi

theorem map_cellOf_append (l m : List Pt) (S : List (List Nat)) (hS : ∀ s ∈ S, ∀ i ∈ s, i < l.length) :
    S.map (List.map (cellOf (l ++ m))) = S.map (List.map (cellOf l)) := by
  apply List.map_congr_left
  intro s hs
  apply List.map_congr_left
  intro i hi
  exact cellOf_append_lt l m i (hS s hs i hi)

/-- the sorted, de-duplicated nodes the heap split uses on segment `k` -/
def nodesOf (kept : List (Nat × Rat)) (k : Nat) : List Rat :=
  dedupNodes (sortRat ((kept.filter fun (x : Nat × Rat) => x.1 == k).map (·.2)))

/-- one step of the heap split on a straight segment -/
theorem splitStep_line (kept : List (Nat × Rat)) (H : Heap) (S : List (List Nat)) (a b k : Nat) :
    Heap.splitStep kept (H, S) ([a, b], k) =
      (⟨H.cells ++ (nodesOf kept k).map (fun t => lerp (cellOf H.cells a) (cellOf H.cells b) t), H.vars⟩,
       S ++ chainSegs (a :: (List.range (nodesOf kept k).length).map (H.cells.length + ·) ++ [b])) := rfl

theorem nodesOf_kept (pairs : List (Nat × Rat)) (k : Nat) :
    nodesOf (pairs.filter fun (_, t) => keepNode t) k = dedupNodes (sortRat (Geom.nodesFor pairs k)) := rfl

theorem mids_cells (cells M : List Pt) :
    (List.range M.length).map (cellOf (cells ++ M) ∘ (cells.length + ·)) = M := by
  have : (cellOf (cells ++ M) ∘ (cells.length + ·)) = fun i => M.getD i Pt.zero := by
    funext i; exact getD_append_ge cells M i Pt.zero
  rw [this, range_map_getD]

/-- the fold of the heap split over the straight segments `L` (numbered from `k`): cells are only
appended, and the new id-segments denote the value-level split of the old geometry -/
theorem splitFold_geom_aux (pairs kept : List (Nat × Rat))
    (hk : ∀ i, nodesOf kept i = dedupNodes (sortRat (Geom.nodesFor pairs i))) :
    ∀ (L : List (List Nat)) (k : Nat) (H : Heap) (S : List (List Nat)),
    (∀ s ∈ L, s.length = 2) → (∀ s ∈ L, ∀ i ∈ s, i < H.cells.length) →
    ∃ E N, (L.zipIdx k).foldl (Heap.splitStep kept) (H, S) = (⟨H.cells ++ E, H.vars⟩, S ++ N)
      ∧ (∀ s ∈ N, ∀ i ∈ s, i < (H.cells ++ E).length)
      ∧ N.map (List.map (cellOf (H.cells ++ E)))
          = valueSplit pairs (L.map (List.map (cellOf H.cells))) k
  | [], k, H, S, _, _ => ⟨[], [], by simp, by simp, by simp [valueSplit]⟩
  | s :: L', k, H, S, hlen, hb => by
    obtain ⟨a, b, rfl⟩ := List.length_eq_two.mp (hlen s (by simp))
    have ha : a < H.cells.length := hb [a, b] (by simp) a (by simp)
    have hbb : b < H.cells.length := hb [a, b] (by simp) b (by simp)
    rw [List.zipIdx_cons, List.foldl_cons, splitStep_line]
    generalize hM : (nodesOf kept k).map (fun t => lerp (cellOf H.cells a) (cellOf H.cells b) t) = M
    have hML : (nodesOf kept k).length = M.length := by rw [← hM]; simp
    rw [hML]
    obtain ⟨E', N', hf, hbN, hg⟩ := splitFold_geom_aux pairs kept hk L' (k + 1) ⟨H.cells ++ M, H.vars⟩
      (S ++ chainSegs (a :: (List.range M.length).map (H.cells.length + ·) ++ [b]))
      (fun s hs => hlen s (List.mem_cons_of_mem _ hs))
      (fun s hs i hi => by
        have := hb s (List.mem_cons_of_mem _ hs) i hi
        simp only [List.length_append]; omega)
    -- ids of the new pieces
    have hbN1 : ∀ s ∈ chainSegs (a :: (List.range M.length).map (H.cells.length + ·) ++ [b]),
        ∀ i ∈ s, i < (H.cells ++ M).length := by
      intro s hs i hi
      have := chainSegs_mem _ s hs i hi
      simp only [List.cons_append, List.mem_cons, List.mem_append, List.mem_map, List.mem_range,
        List.not_mem_nil, or_false] at this
      simp only [List.length_append]
      rcases this with rfl | ⟨x, hx, rfl⟩ | rfl <;> omega
    refine ⟨M ++ E', chainSegs (a :: (List.range M.length).map (H.cells.length + ·) ++ [b]) ++ N', ?_, ?_, ?_⟩
    · rw [hf]; simp only [List.append_assoc]
    · intro s hs i hi
      rcases List.mem_append.mp hs with h1 | h1
      · have := hbN1 s h1 i hi
        simp only [List.length_append] at this ⊢; omega
      · have := hbN s h1 i hi
        simp only [List.length_append] at this ⊢; omega
    · rw [List.map_append, ← List.append_assoc H.cells M E', hg,
        map_cellOf_append (H.cells ++ M) E' _ hbN1,
        map_cellOf_append H.cells M L' (fun s hs i hi => hb s (List.mem_cons_of_mem _ hs) i hi),
        List.map_cons, valueSplit_cons, chainSegs_map]
      congr 1
      have e1 : List.map (cellOf H.cells) [a, b] = [cellOf H.cells a, cellOf H.cells b] := rfl
      rw [e1, splitSeg_line_chain _ _ _ (fun t ht => (Geom.nodesFor_mem pairs k t ht).2), ← hk k, hM]
      congr 1
      simp only [List.cons_append, List.map_cons, List.map_append, List.map_map, List.map_nil]
      rw [mids_cells, cellOf_append_lt _ _ _ ha, cellOf_append_lt _ _ _ hbb]

theorem polygon_segs {h : Heap} {c : HCurve} (hp : (h.geom c).isPolygon = true) :
    ∀ s ∈ c.segs, s.length = 2 := by
  intro s hs
  have := hp
  simp only [Jordan.isPolygon, Heap.geom, List.all_eq_true, List.mem_map, forall_exists_index, and_imp,
    forall_apply_eq_imp_iff₂, List.length_map, beq_iff_eq] at this
  exact this s hs

/-- for a polygon, the geometry after the heap-level `split` IS `JordanCurve.split` of the geometry before -/
theorem geom_splitFold {h : Heap} (hw : h.WF) {v : Nat} {c : HCurve} (hl : h.lookup v = some c)
    (hp : (h.geom c).isPolygon = true) (pairs : List (Nat × Rat)) :
    (Heap.splitFold h c pairs).1.geom ⟨(Heap.splitFold h c pairs).2, none⟩
      = Jordan.split (h.geom c) pairs := by
  obtain ⟨E, N, hf, _, hg⟩ := splitFold_geom_aux pairs (pairs.filter fun (_, t) => keepNode t)
    (nodesOf_kept pairs) c.segs 0 h [] (polygon_segs hp)
    (fun s hs i hi => hw.bound v c (Heap.lookup_mem hl) i (List.mem_flatten.mpr ⟨s, hs, hi⟩))
  unfold Heap.splitFold
  rw [hf, jordanSplit_eq]
  simp only [List.nil_append]
  exact hg

theorem step_split_lookup {h : Heap} {v : Nat} {c : HCurve} (hl : h.lookup v = some c)
    (pairs : List (Nat × Rat)) :
    (h.step (.split v pairs)).1 = (Heap.splitFold h c pairs).1.setVar v ⟨(Heap.splitFold h c pairs).2, none⟩ := by
  rw [Heap.step_split, hl]

/-- the split of a polygon is a polygon -/
theorem valueSplit_polygon (pairs : List (Nat × Rat)) : ∀ (j : Jordan) (k : Nat), j.isPolygon = true →
    (valueSplit pairs j k).isPolygon = true
  | [], _, _ => rfl
  | s :: j, k, h => by
    obtain ⟨⟨p, q, rfl⟩, hj⟩ := Geom.polygon_cons h
    rw [valueSplit_cons, splitSeg_line_chain _ _ _ (fun t ht => (Geom.nodesFor_mem pairs k t ht).2)]
    have ih := valueSplit_polygon pairs j (k + 1) hj
    simp only [Jordan.isPolygon, List.all_append, Bool.and_eq_true, List.all_eq_true, beq_iff_eq] at ih ⊢
    exact ⟨fun s hs => chainSegs_len2 _ s hs, ih⟩

theorem jordanSplit_polygon (j : Jordan) (hj : j.isPolygon = true) (pairs : List (Nat × Rat)) :
    (Jordan.split j pairs).isPolygon = true := valueSplit_polygon pairs j 0 hj

/-! ### refinements that denote the same region -/

/-- `j'` is a polygon with the same crossing numbers, membership, area and moments (order ≤ 2) as `j` -/
structure SameRegion (j j' : Jordan) : Prop where
  poly : j'.isPolygon = true
  wind : ∀ r, wind j'.edges r = wind j.edges r
  mem : ∀ r, memW j' r = memW j r
  area : Jordan.area j' = Jordan.area j
  moment : ∀ a b, a + b ≤ 2 → Jordan.moment j' a b = Jordan.moment j a b

theorem SameRegion.refl {j : Jordan} (hj : j.isPolygon = true) : SameRegion j j :=
  ⟨hj, fun _ => rfl, fun _ => rfl, rfl, fun _ _ _ => rfl⟩

theorem SameRegion.trans {j j' j'' : Jordan} (h1 : SameRegion j j') (h2 : SameRegion j' j'') :
    SameRegion j j'' :=
  ⟨h2.poly, fun r => (h2.wind r).trans (h1.wind r), fun r => (h2.mem r).trans (h1.mem r),
    h2.area.trans h1.area, fun a b hab => (h2.moment a b hab).trans (h1.moment a b hab)⟩

theorem SameRegion.split {j : Jordan} (hj : j.isPolygon = true) (pairs : List (Nat × Rat))
    (h : ∀ it ∈ pairs, 0 ≤ it.2 ∧ it.2 ≤ 1) : SameRegion j (Jordan.split j pairs) :=
  ⟨jordanSplit_polygon j hj pairs, C15.jordanSplit_wind j hj pairs h, C15.jordanSplit_memW j hj pairs h,
    C15.jordanSplit_area j hj pairs, C15.jordanSplit_moment j hj pairs⟩

/-- one query effect keeps the region of every polygon variable -/
theorem step_effect {h : Heap} (I : h.Inv) (op : HeapOp) (hq : op.isQueryEffect = true)
    (hn : op.nodesInUnit) {w : Nat} {c : HCurve} (hl : h.lookup w = some c)
    (hp : (h.geom c).isPolygon = true) :
    ∃ c', (h.step op).1.lookup w = some c' ∧ SameRegion (h.geom c) ((h.step op).1.geom c') := by
  by_cases e : op.target = w
  · cases op with
    | len v =>
      simp only [HeapOp.target] at e; subst e
      cases hg : c.cache with
      | some g =>
        refine ⟨c, ?_, ?_⟩ <;> simp only [Heap.step, hl, hg]
        · exact SameRegion.refl hp
      | none =>
        refine ⟨{ c with cache := some (h.geom c) }, ?_, ?_⟩ <;> simp only [Heap.step, hl, hg]
        · exact Heap.lookup_setVar_self _ _ _
        · exact SameRegion.refl hp
    | split v pairs =>
      simp only [HeapOp.target] at e; subst e
      refine ⟨⟨(Heap.splitFold h c pairs).2, none⟩, ?_, ?_⟩
      · rw [step_split_lookup hl]; exact Heap.lookup_setVar_self _ _ _
      · rw [step_split_lookup hl, Heap.geom_setVar, geom_splitFold I.wf hl hp]
        exact SameRegion.split hp pairs hn
    | _ => cases hq
  · have hf := Heap.frame_step I.wf I.sep op e
    rw [hl, Option.map_some] at hf
    obtain ⟨c', hc', hgc⟩ := Option.map_eq_some_iff.mp hf
    exact ⟨c', hc', by rw [hgc]; exact SameRegion.refl hp⟩

theorem runOps_effects : ∀ (ops : List HeapOp) {h : Heap}, h.Inv →
    (∀ op ∈ ops, op.isQueryEffect = true) → (∀ op ∈ ops, op.nodesInUnit) →
    ∀ {w : Nat} {c : HCurve}, h.lookup w = some c → (h.geom c).isPolygon = true →
    ∃ c', (h.runOps ops).lookup w = some c' ∧ SameRegion (h.geom c) ((h.runOps ops).geom c')
  | [], _, _, _, _, _, c, hl, hp => ⟨c, hl, SameRegion.refl hp⟩
  | op :: rest, h, I, hq, hn, w, c, hl, hp => by
    obtain ⟨c1, hl1, s1⟩ := step_effect I op (hq op (by simp)) (hn op (by simp)) hl hp
    obtain ⟨c2, hl2, s2⟩ := runOps_effects rest (Heap.inv_step I op)
      (fun o ho => hq o (List.mem_cons_of_mem _ ho)) (fun o ho => hn o (List.mem_cons_of_mem _ ho)) hl1 s1.poly
    exact ⟨c2, hl2, s1.trans s2⟩

/-- a query effect that is not a split of `w` leaves the geometry of `w` EXACTLY as it was (any degree) -/
theorem step_effect_exact {h : Heap} (I : h.Inv) (op : HeapOp) (hq : op.isQueryEffect = true)
    {w : Nat} (hns : ∀ pairs, op ≠ .split w pairs) {c : HCurve} (hl : h.lookup w = some c) :
    ∃ c', (h.step op).1.lookup w = some c' ∧ (h.step op).1.geom c' = h.geom c := by
  by_cases e : op.target = w
  · cases op with
    | len v =>
      simp only [HeapOp.target] at e; subst e
      cases hg : c.cache with
      | some g => refine ⟨c, ?_, ?_⟩ <;> simp only [Heap.step, hl, hg]
      | none =>
        refine ⟨{ c with cache := some (h.geom c) }, ?_, ?_⟩ <;> simp only [Heap.step, hl, hg]
        · exact Heap.lookup_setVar_self _ _ _
        · rfl
    | split v pairs =>
      simp only [HeapOp.target] at e; subst e
      exact absurd rfl (hns pairs)
    | _ => cases hq
  · have hf := Heap.frame_step I.wf I.sep op e
    rw [hl, Option.map_some] at hf
    obtain ⟨c', hc', hgc⟩ := Option.map_eq_some_iff.mp hf
    exact ⟨c', hc', hgc⟩

theorem runOps_effects_exact : ∀ (ops : List HeapOp) {h : Heap}, h.Inv →
    (∀ op ∈ ops, op.isQueryEffect = true) → ∀ {w : Nat}, (∀ op ∈ ops, ∀ pairs, op ≠ .split w pairs) →
    ∀ {c : HCurve}, h.lookup w = some c →
    ∃ c', (h.runOps ops).lookup w = some c' ∧ (h.runOps ops).geom c' = h.geom c
  | [], _, _, _, _, _, c, hl => ⟨c, hl, rfl⟩
  | op :: rest, h, I, hq, w, hns, c, hl => by
    obtain ⟨c1, hl1, g1⟩ := step_effect_exact I op (hq op (by simp)) (hns op (by simp)) hl
    obtain ⟨c2, hl2, g2⟩ := runOps_effects_exact rest (Heap.inv_step I op)
      (fun o ho => hq o (List.mem_cons_of_mem _ ho)) (fun o ho => hns o (List.mem_cons_of_mem _ ho)) hl1
    exact ⟨c2, hl2, g2.trans g1⟩

end ShapeVerif.Misc
