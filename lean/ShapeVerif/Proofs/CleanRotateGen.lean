/-
`jordan == jordan` does not depend on the start vertex, also when the polygon has removable
(collinear) vertices.  `cleanCycle` with enough fuel returns the list of NON-removable vertices
(`keepers`), "non-removable" is a cyclic notion, hence the cleaned cycle of a rotated polygon is
a rotation of the cleaned cycle, and `canonCycle` does not see rotations.
-/
import ShapeVerif.Proofs.Algebra
import Mathlib.Tactic.Ring
import Mathlib.Tactic.Linarith

namespace ShapeVerif
open ShapeVerif.Alg ShapeVerif.Geom

/-- the test of `cleanStep` on three consecutive vertices `u, v, w`: `v` is dropped -/
def removable3 (u v w : Pt) : Bool :=
  decide (Pt.cross (v - u) (w - v) = 0) && decide (0 < Pt.inner (v - u) (w - v))

/-- vertex `i` of the cycle `vs` satisfies the test of `cleanStep` -/
def removableAt (vs : List Pt) (i : Nat) : Bool :=
  let n := vs.length
  removable3 (vs.getD ((i + n - 1) % n) Pt.zero) (vs.getD i Pt.zero) (vs.getD ((i + 1) % n) Pt.zero)

/-- the non-removable vertices, in order -/
def keepers (vs : List Pt) : List Pt :=
  ((List.range vs.length).filter fun i => !removableAt vs i).map fun i => vs.getD i Pt.zero

/-- `removableAt` is the test used by `cleanStep` (and is `Alg.removable`) -/
theorem removableAt_eq_removable (vs : List Pt) (i : Nat) : removableAt vs i = removable vs i := rfl

theorem cleanStep_eq (vs : List Pt) : cleanStep vs =
    if vs.length < 3 then none else ((List.range vs.length).find? (removableAt vs)).map vs.eraseIdx := rfl

section tests
/-- a 3×3 square with two extra vertices on the bottom side and one on the right side -/
private def sq : List Pt := [⟨0,0⟩, ⟨1,0⟩, ⟨2,0⟩, ⟨3,0⟩, ⟨3,1⟩, ⟨3,3⟩, ⟨0,3⟩]
example : keepers sq = [⟨0,0⟩, ⟨3,0⟩, ⟨3,3⟩, ⟨0,3⟩] := by decide +kernel
example : ((List.range 8).all fun k =>
    cleanCycle (rotateL sq k).length (rotateL sq k) == keepers (rotateL sq k)) = true := by decide +kernel
example : ((List.range 8).all fun k =>
    eqJ (Jordan.fromVertices (rotateL sq k)) (Jordan.fromVertices sq)) = true := by decide +kernel
end tests

namespace CleanRot

def keep1 (b : Bool) (v : Pt) : List Pt := bif b then [] else [v]

/-- linear form: the non-removable vertices of the path `u, l, w` (`u` before, `w` after) -/
def kl (u : Pt) : List Pt → Pt → List Pt
  | [], _ => []
  | v :: t, w => keep1 (removable3 u v (t.headD w)) v ++ kl v t w

/-! ### the geometric fact: dropping a removable vertex does not change its neighbours' status -/

theorem scale_iff (n m X Y X' Y' : Rat) (hn : 0 < n) (hm : 0 < m) (e1 : n * X' = m * X)
    (e2 : n * Y' = m * Y) : (X = 0 ∧ 0 < Y) ↔ (X' = 0 ∧ 0 < Y') := by
  constructor
  · rintro ⟨hx, hy⟩
    refine ⟨?_, ?_⟩
    · have : n * X' = 0 := by rw [e1, hx, mul_zero]
      exact (mul_eq_zero.mp this).resolve_left hn.ne'
    · have : 0 < n * Y' := by rw [e2]; exact mul_pos hm hy
      exact (mul_pos_iff_of_pos_left hn).mp this
  · rintro ⟨hx, hy⟩
    refine ⟨?_, ?_⟩
    · have : m * X = 0 := by rw [← e1, hx, mul_zero]
      exact (mul_eq_zero.mp this).resolve_left hm.ne'
    · have : 0 < m * Y := by rw [← e2]; exact mul_pos hn hy
      exact (mul_pos_iff_of_pos_left hm).mp this

theorem norm_pos_of_inner_pos (a1 a2 b1 b2 : Rat) (h : 0 < a1 * b1 + a2 * b2) : 0 < b1 * b1 + b2 * b2 := by
  have hb : b1 ≠ 0 ∨ b2 ≠ 0 := by
    by_contra hc
    push Not at hc
    rw [hc.1, hc.2] at h
    simp at h
  rcases hb with hb | hb
  · have := mul_self_pos.mpr hb
    have := mul_self_nonneg b2
    linarith
  · have := mul_self_pos.mpr hb
    have := mul_self_nonneg b1
    linarith

/-- `a ∥ b` same direction: `(a + b, c)` passes the test iff `(b, c)` does -/
theorem alg1 (a1 a2 b1 b2 c1 c2 : Rat) (h0 : a1 * b2 - a2 * b1 = 0) (h1 : 0 < a1 * b1 + a2 * b2) :
    (b1 * c2 - b2 * c1 = 0 ∧ 0 < b1 * c1 + b2 * c2) ↔
    ((a1 + b1) * c2 - (a2 + b2) * c1 = 0 ∧ 0 < (a1 + b1) * c1 + (a2 + b2) * c2) := by
  have hn := norm_pos_of_inner_pos a1 a2 b1 b2 h1
  apply scale_iff (b1 * b1 + b2 * b2) (a1 * b1 + a2 * b2 + (b1 * b1 + b2 * b2)) _ _ _ _ hn (by linarith)
  · have : (b1 * b1 + b2 * b2) * ((a1 + b1) * c2 - (a2 + b2) * c1)
        = (a1 * b1 + a2 * b2 + (b1 * b1 + b2 * b2)) * (b1 * c2 - b2 * c1)
          + (a1 * b2 - a2 * b1) * (b1 * c1 + b2 * c2) := by ring
    rw [this, h0, zero_mul, add_zero]
  · have : (b1 * b1 + b2 * b2) * ((a1 + b1) * c1 + (a2 + b2) * c2)
        = (a1 * b1 + a2 * b2 + (b1 * b1 + b2 * b2)) * (b1 * c1 + b2 * c2)
          - (a1 * b2 - a2 * b1) * (b1 * c2 - b2 * c1) := by ring
    rw [this, h0, zero_mul, sub_zero]

/-- `b ∥ c` same direction: `(a, b + c)` passes the test iff `(a, b)` does -/
theorem alg2 (a1 a2 b1 b2 c1 c2 : Rat) (h0 : b1 * c2 - b2 * c1 = 0) (h1 : 0 < b1 * c1 + b2 * c2) :
    (a1 * b2 - a2 * b1 = 0 ∧ 0 < a1 * b1 + a2 * b2) ↔
    (a1 * (b2 + c2) - a2 * (b1 + c1) = 0 ∧ 0 < a1 * (b1 + c1) + a2 * (b2 + c2)) := by
  have hn := norm_pos_of_inner_pos c1 c2 b1 b2 (by linarith)
  apply scale_iff (b1 * b1 + b2 * b2) (b1 * c1 + b2 * c2 + (b1 * b1 + b2 * b2)) _ _ _ _ hn (by linarith)
  · have : (b1 * b1 + b2 * b2) * (a1 * (b2 + c2) - a2 * (b1 + c1))
        = (b1 * c1 + b2 * c2 + (b1 * b1 + b2 * b2)) * (a1 * b2 - a2 * b1)
          + (b1 * c2 - b2 * c1) * (a1 * b1 + a2 * b2) := by ring
    rw [this, h0, zero_mul, add_zero]
  · have : (b1 * b1 + b2 * b2) * (a1 * (b1 + c1) + a2 * (b2 + c2))
        = (b1 * c1 + b2 * c2 + (b1 * b1 + b2 * b2)) * (a1 * b1 + a2 * b2)
          - (b1 * c2 - b2 * c1) * (a1 * b2 - a2 * b1) := by ring
    rw [this, h0, zero_mul, sub_zero]

theorem removable3_eq_true (u v w : Pt) : removable3 u v w = true ↔
    ((v.x - u.x) * (w.y - v.y) - (v.y - u.y) * (w.x - v.x) = 0 ∧
      0 < (v.x - u.x) * (w.x - v.x) + (v.y - u.y) * (w.y - v.y)) := by
  unfold removable3
  rw [Bool.and_eq_true, decide_eq_true_iff, decide_eq_true_iff]
  simp only [Pt.cross, Pt.inner, Pt.sub_x, Pt.sub_y]

/-- `u` between `t` and `v` is dropped: the status of `v` does not change (new predecessor `t`) -/
theorem removable3_pred {t u v : Pt} (h : removable3 t u v = true) (w : Pt) : removable3 u v w = removable3 t v w := by
  rw [Bool.eq_iff_iff, removable3_eq_true, removable3_eq_true]
  rw [removable3_eq_true] at h
  have ex : v.x - t.x = (u.x - t.x) + (v.x - u.x) := by ring
  have ey : v.y - t.y = (u.y - t.y) + (v.y - u.y) := by ring
  rw [ex, ey]
  exact alg1 _ _ _ _ _ _ h.1 h.2

/-- `v` between `u` and `w` is dropped: the status of `u` does not change (new successor `w`) -/
theorem removable3_succ {u v w : Pt} (h : removable3 u v w = true) (t : Pt) : removable3 t u v = removable3 t u w := by
  rw [Bool.eq_iff_iff, removable3_eq_true, removable3_eq_true]
  rw [removable3_eq_true] at h
  have ex : w.x - u.x = (v.x - u.x) + (w.x - v.x) := by ring
  have ey : w.y - u.y = (v.y - u.y) + (w.y - v.y) := by ring
  rw [ex, ey]
  exact alg2 _ _ _ _ _ _ h.1 h.2

/-! ### the linear form `kl` -/

theorem kl_nil (u w : Pt) : kl u [] w = [] := rfl
theorem kl_cons (u v : Pt) (t : List Pt) (w : Pt) :
    kl u (v :: t) w = keep1 (removable3 u v (t.headD w)) v ++ kl v t w := rfl

theorem headD_append {α} (t l : List α) (w : α) : (t ++ l).headD w = t.headD (l.headD w) := by
  cases t <;> rfl

theorem kl_append (u : Pt) (l1 l2 : List Pt) (w : Pt) :
    kl u (l1 ++ l2) w = kl u l1 (l2.headD w) ++ kl (l1.getLastD u) l2 w := by
  induction l1 generalizing u with
  | nil => rfl
  | cons v t ih =>
    rw [List.cons_append, kl_cons, kl_cons, ih, List.append_assoc, headD_append, List.getLastD_cons]

theorem kl_sublist (u : Pt) (l : List Pt) (w : Pt) : (kl u l w).Sublist l := by
  induction l generalizing u with
  | nil => simp [kl_nil]
  | cons v t ih =>
    rw [kl_cons]
    cases removable3 u v (t.headD w)
    · exact (ih v).cons_cons v
    · exact (ih v).trans (List.sublist_cons_self v t)

/-- only the first vertex looks at the left context -/
theorem kl_left (u u' v : Pt) (t : List Pt) (w : Pt) (h : ∀ x, removable3 u v x = removable3 u' v x) :
    kl u (v :: t) w = kl u' (v :: t) w := by
  rw [kl_cons, kl_cons, h]

/-- only the last vertex looks at the right context -/
theorem kl_right (u : Pt) (q : List Pt) (z w w' : Pt) (h : ∀ p, removable3 p z w = removable3 p z w') :
    kl u (q ++ [z]) w = kl u (q ++ [z]) w' := by
  rw [kl_append, kl_append, kl_cons, kl_cons]
  show _ ++ (keep1 (removable3 _ z w) z ++ _) = _ ++ (keep1 (removable3 _ z w') z ++ _)
  rw [h]
  rfl

/-! ### index form = linear form -/

theorem getD_length_cons (v : Pt) (t : List Pt) (d : Pt) : (v :: t).getD t.length d = t.getLastD v := by
  induction t generalizing v with
  | nil => rfl
  | cons a t ih => rw [List.length_cons, List.getD_cons_succ, ih, List.getLastD_cons]

theorem getD_append_length (l1 : List Pt) (v : Pt) (t : List Pt) (d : Pt) :
    (l1 ++ v :: t).getD l1.length d = v := by
  induction l1 with
  | nil => rfl
  | cons a q ih => rw [List.cons_append, List.length_cons, List.getD_cons_succ, ih]

theorem eq_nil_or_snoc {α} (l : List α) : l = [] ∨ ∃ q a, l = q ++ [a] := by
  rcases List.eq_nil_or_concat l with h | ⟨q, a, h⟩
  · exact Or.inl h
  · exact Or.inr ⟨q, a, by rw [h, List.concat_eq_append]⟩

theorem pred_eq (l1 : List Pt) (v : Pt) (t : List Pt) (d : Pt) :
    (t ++ l1).getLastD v = l1.getLastD ((l1 ++ v :: t).getLastD d) := by
  rcases eq_nil_or_snoc l1 with rfl | ⟨q, a, rfl⟩
  · rw [List.append_nil, List.nil_append, List.getLastD_nil, List.getLastD_cons]
  · rw [← List.append_assoc, List.getLastD_concat, List.getLastD_concat]

theorem succ_eq (l1 : List Pt) (v : Pt) (t : List Pt) (d : Pt) :
    (t ++ l1).headD v = t.headD ((l1 ++ v :: t).headD d) := by
  rw [headD_append, headD_append]; rfl

/-- the index test of `cleanStep` at position `l1.length`, in terms of the cyclic neighbours -/
theorem removableAt_split (l1 : List Pt) (v : Pt) (t : List Pt) :
    removableAt (l1 ++ v :: t) l1.length = removable3 ((t ++ l1).getLastD v) v ((t ++ l1).headD v) := by
  have hn : (l1 ++ v :: t).length = l1.length + t.length + 1 := by
    rw [List.length_append, List.length_cons]; omega
  have e2 : (l1 ++ v :: t).getD l1.length Pt.zero = v := getD_append_length l1 v t _
  have e1 : (l1 ++ v :: t).getD ((l1.length + (l1 ++ v :: t).length - 1) % (l1 ++ v :: t).length) Pt.zero
      = (t ++ l1).getLastD v := by
    rw [hn]
    rcases eq_nil_or_snoc l1 with rfl | ⟨q, a, rfl⟩
    · have : ([] : List Pt).length + (([] : List Pt).length + t.length + 1) - 1 = t.length := by
        simp
      rw [this, Nat.mod_eq_of_lt (by simp), List.nil_append, List.append_nil, getD_length_cons]
    · have : (q ++ [a]).length + ((q ++ [a]).length + t.length + 1) - 1
          = q.length + ((q ++ [a]).length + t.length + 1) := by
        rw [List.length_append, List.length_singleton]; omega
      rw [this, Nat.add_mod_right, Nat.mod_eq_of_lt (by rw [List.length_append]; omega),
        List.append_assoc, List.singleton_append, getD_append_length, ← List.append_assoc,
        List.getLastD_concat]
  have e3 : (l1 ++ v :: t).getD ((l1.length + 1) % (l1 ++ v :: t).length) Pt.zero = (t ++ l1).headD v := by
    rw [hn]
    cases t with
    | nil =>
      rw [List.length_nil, Nat.add_zero, Nat.mod_self, List.nil_append]
      cases l1 <;> rfl
    | cons b t' =>
      rw [Nat.mod_eq_of_lt (by rw [List.length_cons]; omega)]
      have := getD_append_length (l1 ++ [v]) b t' Pt.zero
      rw [List.append_assoc, List.singleton_append, List.length_append, List.length_singleton] at this
      rw [this]; rfl
  simp only [removableAt]
  rw [e1, e2, e3]

theorem filt_eq_kl (l2 l1 : List Pt) :
    ((List.range' l1.length l2.length).filter fun i => !removableAt (l1 ++ l2) i).map
        (fun i => (l1 ++ l2).getD i Pt.zero)
      = kl (l1.getLastD ((l1 ++ l2).getLastD Pt.zero)) l2 ((l1 ++ l2).headD Pt.zero) := by
  induction l2 generalizing l1 with
  | nil => rfl
  | cons v t ih =>
    have ih' := ih (l1 ++ [v])
    rw [List.append_assoc, List.singleton_append, List.length_append, List.length_singleton,
      List.getLastD_concat] at ih'
    rw [List.length_cons, List.range'_succ, List.filter_cons, removableAt_split, kl_cons,
      ← pred_eq, ← succ_eq]
    cases removable3 ((t ++ l1).getLastD v) v ((t ++ l1).headD v)
    · simp only [Bool.not_false, if_true, List.map_cons, getD_append_length, ih']
      rfl
    · simp only [Bool.not_true, Bool.false_eq_true, if_false, ih']
      rfl

theorem keepers_eq_kl (vs : List Pt) :
    keepers vs = kl (vs.getLastD Pt.zero) vs (vs.headD Pt.zero) := by
  have := filt_eq_kl vs []
  simp only [List.nil_append, List.length_nil, List.getLastD_nil] at this
  rw [← this, keepers, List.range_eq_range']

/-! ### rotation -/

theorem getLastD_append_cons {α} (l : List α) (b : α) (r : List α) (d : α) :
    (l ++ b :: r).getLastD d = r.getLastD b := by
  induction l generalizing d with
  | nil => rw [List.nil_append, List.getLastD_cons]
  | cons a l ih => rw [List.cons_append, List.getLastD_cons, ih]

theorem rotateL_append_length {α} (A B : List α) : rotateL (A ++ B) A.length = B ++ A := by
  simp [rotateL]

theorem rotateL_zero {α} (A : List α) : rotateL A 0 = A := by simp [rotateL]

theorem keepers_swap (l1 l2 : List Pt) :
    ∃ m, m ≤ (keepers (l1 ++ l2)).length ∧ keepers (l2 ++ l1) = rotateL (keepers (l1 ++ l2)) m := by
  cases l1 with
  | nil => exact ⟨0, Nat.zero_le _, by rw [List.append_nil, List.nil_append, rotateL_zero]⟩
  | cons a q =>
    cases l2 with
    | nil => exact ⟨0, Nat.zero_le _, by rw [List.append_nil, List.nil_append, rotateL_zero]⟩
    | cons b r =>
      have e1 : keepers ((a :: q) ++ b :: r)
          = kl (r.getLastD b) (a :: q) b ++ kl (q.getLastD a) (b :: r) a := by
        rw [keepers_eq_kl, kl_append, getLastD_append_cons, List.getLastD_cons]; rfl
      have e2 : keepers ((b :: r) ++ a :: q)
          = kl (q.getLastD a) (b :: r) a ++ kl (r.getLastD b) (a :: q) b := by
        rw [keepers_eq_kl, kl_append, getLastD_append_cons, List.getLastD_cons]; rfl
      rw [e1, e2]
      exact ⟨_, by rw [List.length_append]; exact Nat.le_add_right _ _, (rotateL_append_length _ _).symm⟩

theorem keepers_rotate_aux (vs : List Pt) (k : Nat) :
    ∃ m, m ≤ (keepers vs).length ∧ keepers (rotateL vs k) = rotateL (keepers vs) m := by
  have := keepers_swap (vs.take k) (vs.drop k)
  rwa [List.take_append_drop] at this

/-! ### erasing a removable vertex -/

theorem keep1_true (v : Pt) : keep1 true v = [] := rfl

theorem kl_erase_mid (L H : Pt) (q : List Pt) (z v y : Pt) (r : List Pt) (h : removable3 z v y = true) :
    kl L ((q ++ [z]) ++ v :: y :: r) H = kl L ((q ++ [z]) ++ y :: r) H := by
  rw [kl_append L (q ++ [z]) (v :: y :: r), kl_append L (q ++ [z]) (y :: r), List.getLastD_concat,
    kl_cons z v]
  show kl L (q ++ [z]) v ++ (keep1 (removable3 z v y) v ++ kl v (y :: r) H)
    = kl L (q ++ [z]) y ++ kl z (y :: r) H
  rw [h, keep1_true, List.nil_append, kl_right L q z v y (fun p => removable3_succ h p),
    kl_left v z y r H (fun x => removable3_pred h x)]

theorem kl_erase_ends (v y z : Pt) (q : List Pt) (h : removable3 z v y = true) :
    kl v ((y :: q) ++ [z]) v = kl z ((y :: q) ++ [z]) y := by
  rw [kl_right v (y :: q) z v y (fun p => removable3_succ h p)]
  exact kl_left v z y (q ++ [z]) y (fun x => removable3_pred h x)

theorem keepers_erase (l1 : List Pt) (v : Pt) (l2 : List Pt)
    (hrem : removable3 ((l2 ++ l1).getLastD v) v ((l2 ++ l1).headD v) = true)
    (hlen : 2 ≤ l1.length + l2.length) :
    keepers (l1 ++ l2) = keepers (l1 ++ v :: l2) := by
  rcases eq_nil_or_snoc l1 with rfl | ⟨q, z, rfl⟩
  · -- the first vertex is erased
    cases l2 with
    | nil => simp at hlen
    | cons y r =>
      rcases eq_nil_or_snoc r with rfl | ⟨q, z, rfl⟩
      · simp at hlen
      · have hrem' : removable3 z v y = true := by
          rw [List.append_nil, ← List.cons_append, List.getLastD_concat] at hrem; exact hrem
        have hL1 : (y :: (q ++ [z])).getLastD Pt.zero = z := by
          show ((y :: q) ++ [z]).getLastD _ = z
          exact List.getLastD_concat
        have hL2 : (v :: y :: (q ++ [z])).getLastD Pt.zero = z := by
          show ((v :: y :: q) ++ [z]).getLastD _ = z
          exact List.getLastD_concat
        rw [List.nil_append, List.nil_append, keepers_eq_kl, keepers_eq_kl, hL1, hL2]
        show kl z ((y :: q) ++ [z]) y = keep1 (removable3 z v y) v ++ kl v ((y :: q) ++ [z]) v
        rw [hrem', keep1_true, List.nil_append, kl_erase_ends v y z q hrem']
  · cases l2 with
    | nil =>
      -- the last vertex is erased
      cases q with
      | nil => simp at hlen
      | cons a q =>
        have hrem' : removable3 z v a = true := by
          rw [List.nil_append, List.getLastD_concat] at hrem; exact hrem
        rw [List.append_nil, keepers_eq_kl, keepers_eq_kl, List.getLastD_concat, List.getLastD_concat,
          kl_append v ((a :: q) ++ [z]) [v], List.getLastD_concat]
        show kl z ((a :: q) ++ [z]) a = kl v ((a :: q) ++ [z]) v ++ (keep1 (removable3 z v a) v ++ [])
        rw [hrem', keep1_true, List.append_nil, List.append_nil, kl_erase_ends v a z q hrem']
    | cons y r =>
      have hrem' : removable3 z v y = true := by
        rw [← List.append_assoc, List.getLastD_concat] at hrem; exact hrem
      have e : (q ++ [z] ++ v :: y :: r).getLastD Pt.zero = r.getLastD y := by
        rw [show q ++ [z] ++ v :: y :: r = (q ++ [z] ++ [v]) ++ y :: r by simp, getLastD_append_cons]
      have eh : (q ++ [z] ++ v :: y :: r).headD Pt.zero = (q ++ [z] ++ y :: r).headD Pt.zero := by
        cases q <;> rfl
      rw [keepers_eq_kl, keepers_eq_kl, getLastD_append_cons, e, eh]
      exact (kl_erase_mid _ _ q z v y r hrem').symm

/-! ### `cleanCycle` computes `keepers` -/

theorem cleanStep_some (vs vs' : List Pt) (h : cleanStep vs = some vs') :
    ∃ i, i < vs.length ∧ removableAt vs i = true ∧ vs' = vs.eraseIdx i := by
  unfold cleanStep at h
  simp only at h
  split at h
  · exact absurd h (by simp)
  · rw [Option.map_eq_some_iff] at h
    obtain ⟨i, hi, rfl⟩ := h
    have hmem := List.mem_of_find?_eq_some hi
    have hp := List.find?_some hi
    exact ⟨i, List.mem_range.mp hmem, hp, rfl⟩

theorem map_getD_range (vs : List Pt) (d : Pt) :
    (List.range vs.length).map (fun i => vs.getD i d) = vs := by
  apply List.ext_getElem
  · simp
  · intro i h1 h2
    simp [List.getD_eq_getElem?_getD, List.getElem?_eq_getElem h2]

theorem keepers_of_none (vs : List Pt) (h : cleanStep vs = none) (h3 : 3 ≤ vs.length) :
    keepers vs = vs := by
  rw [cleanStep_none_iff] at h
  rcases h with h | h
  · omega
  · unfold keepers
    rw [List.filter_eq_self.mpr, map_getD_range]
    intro i hi
    have := h i (List.mem_range.mp hi)
    show (!removable vs i) = true
    rw [this]; rfl

theorem keepers_length_le (vs : List Pt) : (keepers vs).length ≤ vs.length := by
  rw [keepers_eq_kl]; exact (kl_sublist _ _ _).length_le

theorem eraseIdx_append_length (l1 : List Pt) (v : Pt) (l2 : List Pt) :
    (l1 ++ v :: l2).eraseIdx l1.length = l1 ++ l2 := by
  induction l1 with
  | nil => rfl
  | cons a q ih => rw [List.cons_append, List.length_cons, List.eraseIdx_cons_succ, ih]; rfl

theorem keepers_eraseIdx (vs : List Pt) (i : Nat) (hi : i < vs.length) (hr : removableAt vs i = true)
    (hlen : 3 ≤ vs.length) : keepers (vs.eraseIdx i) = keepers vs := by
  obtain ⟨l1, v, l2, rfl, rfl⟩ : ∃ l1 v l2, vs = l1 ++ v :: l2 ∧ l1.length = i :=
    ⟨vs.take i, vs[i], vs.drop (i + 1),
      by rw [← List.drop_eq_getElem_cons hi, List.take_append_drop],
      by rw [List.length_take]; omega⟩
  rw [removableAt_split] at hr
  rw [eraseIdx_append_length]
  apply keepers_erase l1 v l2 hr
  rw [List.length_append, List.length_cons] at hlen
  omega

theorem cleanCycle_keepers_aux (fuel : Nat) (vs : List Pt)
    (hf : vs.length ≤ fuel + (keepers vs).length) (h3 : 3 ≤ (keepers vs).length) :
    cleanCycle fuel vs = keepers vs := by
  have hle := keepers_length_le vs
  induction fuel generalizing vs with
  | zero =>
    show vs = keepers vs
    cases hc : cleanStep vs with
    | none => exact (keepers_of_none vs hc (by omega)).symm
    | some vs' =>
      obtain ⟨i, hi, hr, rfl⟩ := cleanStep_some _ _ hc
      have hk := keepers_eraseIdx vs i hi hr (by omega)
      have := keepers_length_le (vs.eraseIdx i)
      rw [hk, List.length_eraseIdx_of_lt hi] at this
      omega
  | succ fuel ih =>
    show (match cleanStep vs with | none => vs | some vs' => cleanCycle fuel vs') = _
    cases hc : cleanStep vs with
    | none => exact (keepers_of_none vs hc (by omega)).symm
    | some vs' =>
      obtain ⟨i, hi, hr, rfl⟩ := cleanStep_some _ _ hc
      have hk := keepers_eraseIdx vs i hi hr (by omega)
      show cleanCycle fuel (vs.eraseIdx i) = _
      rw [← hk]
      apply ih
      · rw [hk, List.length_eraseIdx_of_lt hi]; omega
      · rw [hk]; exact h3
      · exact keepers_length_le _

end CleanRot
open CleanRot

/-! ### the targets -/

set_option linter.unusedVariables false in
theorem cleanCycle_eq_keepers (vs : List Pt) (hnd : vs.Nodup) (h3 : 3 ≤ (keepers vs).length) :
    cleanCycle vs.length vs = keepers vs :=
  cleanCycle_keepers_aux vs.length vs (Nat.le_add_right _ _) h3

set_option linter.unusedVariables false in
theorem keepers_rotate (vs : List Pt) (hnd : vs.Nodup) (k : Nat) (hk : k ≤ vs.length) :
    ∃ m, m ≤ (keepers vs).length ∧ keepers (rotateL vs k) = rotateL (keepers vs) m :=
  keepers_rotate_aux vs k

theorem keepers_nodup (vs : List Pt) (hnd : vs.Nodup) : (keepers vs).Nodup := by
  rw [keepers_eq_kl]; exact (kl_sublist _ _ _).nodup hnd

theorem CleanRot.length_fromVertices (vs : List Pt) : (Jordan.fromVertices vs).length = vs.length := by
  have := congrArg List.length (cycle_fromVertices vs)
  rw [← this, Jordan.cycle, Jordan.points0, List.length_map]

theorem canonJ_fromVertices_keepers (vs : List Pt) (hnd : vs.Nodup) (h3 : 3 ≤ (keepers vs).length) :
    canonJ (Jordan.fromVertices vs) = canonCycle (keepers vs) := by
  unfold canonJ
  rw [cycle_fromVertices, length_fromVertices, cleanCycle_eq_keepers vs hnd h3]

theorem eqJ_rotate_all (vs : List Pt) (hnd : vs.Nodup) (h3 : 3 ≤ (keepers vs).length) (k : Nat)
    (hk : k ≤ vs.length) :
    eqJ (Jordan.fromVertices (rotateL vs k)) (Jordan.fromVertices vs) = true := by
  obtain ⟨m, hm, hrot⟩ := keepers_rotate vs hnd k hk
  have hnd' : (rotateL vs k).Nodup := by
    unfold rotateL
    rw [List.nodup_append_comm, List.take_append_drop]; exact hnd
  have h3' : 3 ≤ (keepers (rotateL vs k)).length := by
    rw [hrot, rotateL_length _ _ hm]; exact h3
  rw [eqJ_iff, canonJ_fromVertices_keepers _ hnd' h3', canonJ_fromVertices_keepers _ hnd h3, hrot,
    canonCycle_rotate _ (keepers_nodup vs hnd) m hm]

end ShapeVerif
