/- Closed curves with pieces of EVERY degree: the first moments `∬ x`, `∬ y` (Green: `∮ x²/2 dy`, `∮ x y dy`)
of the enclosed region move with the shape: `M10(j + d) = M10(j) + d.x · area`, `M01(j + d) = M01(j) + d.y · area`.
For one piece with coordinate polynomials `X, Y` the moved piece has `X + d.x`, `Y + d.y`; the integrands
expand binomially, and `∫ Y Y' = [Y²/2]` depends only on the END POINTS, so it telescopes around a closed chain. -/
import ShapeVerif.Model.Jordan
import ShapeVerif.Proofs.Quadrature
import ShapeVerif.Proofs.QuadGen
import ShapeVerif.Proofs.AffineGen
import ShapeVerif.Proofs.TranslateGen
import ShapeVerif.Proofs.SplitIntGen
import ShapeVerif.Proofs.RotateGen
import Mathlib.Algebra.Polynomial.Derivative
import Mathlib.Tactic.Ring
import Mathlib.Tactic.Linarith

open Polynomial

namespace ShapeVerif

/-! ### the coordinate polynomials of a translated piece -/

theorem toPoly_xs_move (s : Seg) (hs : s ≠ []) (d : Pt) :
    toPoly (coordPoly (Seg.xs (s.map (·.move d)))) = toPoly (coordPoly s.xs) + C d.x := by
  apply Polynomial.funext
  intro r
  rw [← evalSeg_x_eq, evalSeg_map_move s hs, eval_add, eval_C, ← evalSeg_x_eq]
  rfl

theorem toPoly_ys_move (s : Seg) (hs : s ≠ []) (d : Pt) :
    toPoly (coordPoly (Seg.ys (s.map (·.move d)))) = toPoly (coordPoly s.ys) + C d.y := by
  apply Polynomial.funext
  intro r
  rw [← evalSeg_y_eq, evalSeg_map_move s hs, eval_add, eval_C, ← evalSeg_y_eq]
  rfl

private theorem ne_nil_of_two_le {s : Seg} (hs : 2 ≤ s.length) : s ≠ [] := by
  intro h; rw [h] at hs; simp at hs

/-! ### `∫ y dy = [y²/2]` -/

theorem y_dy_integrand (Y : Rat[X]) : Y * derivative Y = derivative (C (1 / 2 : Rat) * Y ^ 2) := by
  have h2 : (C (1 / 2 : Rat) : Rat[X]) * C 2 = 1 := by
    rw [← C_mul, ← C_1]; congr 1; norm_num
  simp only [derivative_mul, derivative_C, derivative_pow, zero_mul, zero_add, Nat.cast_ofNat,
    Nat.add_one_sub_one, pow_one]
  have e : (C (1 / 2 : Rat) : Rat[X]) * (C 2 * Y * derivative Y)
      = (C (1 / 2 : Rat) * C 2) * (Y * derivative Y) := by ring
  rw [e, h2, one_mul]

theorem exactVertical_y_dy (s : Seg) (hs : 2 ≤ s.length) :
    exactVertical s 0 1 = ((s.getLastD Pt.zero).y ^ 2 - (s.headD Pt.zero).y ^ 2) / 2 := by
  have hne : s ≠ [] := ne_nil_of_two_le hs
  rw [exactVertical_eq_Iint]
  simp only [pow_one, pow_zero, one_mul]
  rw [y_dy_integrand, Iint_derivative]
  simp only [eval_mul, eval_C, eval_pow, ← evalSeg_y_eq]
  rw [evalSeg_one s hne, evalSeg_zero s hne]
  ring

/-! ### translation of one piece -/

theorem exactVertical_move_20 (s : Seg) (hs : 2 ≤ s.length) (d : Pt) :
    exactVertical (s.map (·.move d)) 2 0
      = exactVertical s 2 0 + 2 * d.x * exactVertical s 1 0 + d.x ^ 2 * exactVertical s 0 0 := by
  have hne : s ≠ [] := ne_nil_of_two_le hs
  rw [exactVertical_eq_Iint, exactVertical_eq_Iint, exactVertical_eq_Iint, exactVertical_eq_Iint,
    toPoly_xs_move s hne, toPoly_ys_move s hne]
  simp only [pow_one, pow_zero, mul_one, one_mul, derivative_add, derivative_C, add_zero]
  rw [← Iint_C_mul, ← Iint_C_mul, ← map_add, ← map_add]
  congr 1
  simp only [C_mul, C_pow]
  have e2 : (C (2 : Rat) : Rat[X]) = 2 := by
    rw [show (2 : Rat) = ((2 : Nat) : Rat) by norm_num, C_eq_natCast]; norm_num
  rw [e2]
  ring

theorem exactVertical_move_11 (s : Seg) (hs : 2 ≤ s.length) (d : Pt) :
    exactVertical (s.map (·.move d)) 1 1
      = exactVertical s 1 1 + d.y * exactVertical s 1 0 + d.x * exactVertical s 0 1
        + d.x * d.y * exactVertical s 0 0 := by
  have hne : s ≠ [] := ne_nil_of_two_le hs
  rw [exactVertical_eq_Iint, exactVertical_eq_Iint, exactVertical_eq_Iint, exactVertical_eq_Iint,
    exactVertical_eq_Iint, toPoly_xs_move s hne, toPoly_ys_move s hne]
  simp only [pow_one, pow_zero, mul_one, one_mul, derivative_add, derivative_C, add_zero]
  rw [← Iint_C_mul, ← Iint_C_mul, ← Iint_C_mul, ← map_add, ← map_add, ← map_add]
  congr 1
  simp only [C_mul]
  ring

/-! ### summing over a curve -/

theorem jordanExactVertical_move_20 (j : Jordan) (hj : ∀ s ∈ j, 2 ≤ s.length) (d : Pt) :
    jordanExactVertical (j.map (·.move d)) 2 0
      = jordanExactVertical j 2 0 + 2 * d.x * jordanExactVertical j 1 0
        + d.x ^ 2 * jordanExactVertical j 0 0 := by
  unfold Jordan.map jordanExactVertical
  induction j with
  | nil => simp
  | cons s j ih =>
    simp only [List.map_cons, List.sum_cons]
    rw [ih (fun s hs => hj s (List.mem_cons_of_mem _ hs)), exactVertical_move_20 s (hj s (by simp)) d]
    ring

theorem jordanExactVertical_move_11 (j : Jordan) (hj : ∀ s ∈ j, 2 ≤ s.length) (d : Pt) :
    jordanExactVertical (j.map (·.move d)) 1 1
      = jordanExactVertical j 1 1 + d.y * jordanExactVertical j 1 0 + d.x * jordanExactVertical j 0 1
        + d.x * d.y * jordanExactVertical j 0 0 := by
  unfold Jordan.map jordanExactVertical
  induction j with
  | nil => simp
  | cons s j ih =>
    simp only [List.map_cons, List.sum_cons]
    rw [ih (fun s hs => hj s (List.mem_cons_of_mem _ hs)), exactVertical_move_11 s (hj s (by simp)) d]
    ring

/-- `∮ y dy = 0` around a closed chain -/
theorem closed_chain_y_dy (j : Jordan) (hj : ∀ s ∈ j, 2 ≤ s.length)
    (hchain : ∀ p ∈ j.zip (j.tail ++ j.take 1), p.1.getLastD Pt.zero = p.2.headD Pt.zero) :
    jordanExactVertical j 0 1 = 0 := by
  have h := closed_chain_pot (fun p : Pt => p.y ^ 2 / 2) j hchain
  unfold jordanExactVertical
  rw [List.map_congr_left fun s hs => exactVertical_y_dy s (hj s hs)]
  rw [← h]
  congr 1
  apply List.map_congr_left
  intro s _
  ring

theorem closed_chain_dy_pt (j : Jordan) (hj : ∀ s ∈ j, 2 ≤ s.length)
    (hchain : ∀ p ∈ j.zip (j.tail ++ j.take 1), p.1.getLastD Pt.zero = p.2.headD Pt.zero) :
    jordanExactVertical j 0 0 = 0 :=
  closed_chain_dy j hj (fun p hp => by rw [hchain p hp])

/-! ### the first moments of a closed curve -/

theorem moment10_move_closed (j : Jordan) (hj : ∀ s ∈ j, 2 ≤ s.length)
    (hchain : ∀ p ∈ j.zip (j.tail ++ j.take 1), p.1.getLastD Pt.zero = p.2.headD Pt.zero) (d : Pt) :
    Jordan.moment (j.map (·.move d)) 1 0 = Jordan.moment j 1 0 + d.x * Jordan.area j := by
  unfold Jordan.moment Jordan.area
  rw [jordanExactVertical_move_20 j hj d, closed_chain_dy_pt j hj hchain]
  norm_num
  ring

theorem moment01_move_closed (j : Jordan) (hj : ∀ s ∈ j, 2 ≤ s.length)
    (hchain : ∀ p ∈ j.zip (j.tail ++ j.take 1), p.1.getLastD Pt.zero = p.2.headD Pt.zero) (d : Pt) :
    Jordan.moment (j.map (·.move d)) 0 1 = Jordan.moment j 0 1 + d.y * Jordan.area j := by
  unfold Jordan.moment Jordan.area
  rw [jordanExactVertical_move_11 j hj d, closed_chain_dy_pt j hj hchain,
    closed_chain_y_dy j hj hchain]
  norm_num

end ShapeVerif
