/-
Helper lemmas for the "algebraic" claims C02, C03, C06, C07, C19: winding-number algebra (append,
permutation, reversal, `Jordan.invert`), the axis-parallel rectangle as ground truth, the boundary rule,
the meaning of `wfProblems`, equivalence properties of `eqJ`/`regionEq`, canonical rotation, and the
directly constructed composites of `Model/Compose.lean`.
Namespace `ShapeVerif.Alg` (no clash with `Proofs/Slab.lean`, `Proofs/Geom.lean`).
-/
import ShapeVerif.Proofs.Slab
import ShapeVerif.Proofs.Geom
import ShapeVerif.Proofs.Quadrature
import ShapeVerif.Model.Compose
import Mathlib.Tactic.Ring
import Mathlib.Tactic.Linarith
import Mathlib.Data.List.Perm.Basic
import Mathlib.Data.List.Rotate
import Mathlib.Algebra.BigOperators.Group.List.Basic

namespace ShapeVerif.Alg
open ShapeVerif ShapeVerif.Geom

/-! ### winding-number algebra -/

theorem wind_nil (r : Pt) : wind [] r = 0 := rfl

theorem wind_cons (e : Edge) (es : List Edge) (r : Pt) : wind (e :: es) r = contrib e r + wind es r := by
  simp [wind, contrib]

theorem wind_append (l1 l2 : List Edge) (r : Pt) : wind (l1 ++ l2) r = wind l1 r + wind l2 r := by
  simp [wind, List.map_append, List.sum_append]

theorem wind_perm {l1 l2 : List Edge} (h : l1.Perm l2) (r : Pt) : wind l1 r = wind l2 r := by
  unfold wind
  exact (h.map _).sum_eq

theorem wind_reverse (es : List Edge) (r : Pt) : wind es.reverse r = wind es r :=
  wind_perm (List.reverse_perm es) r

/-- the edge travelled the other way -/
def rev (e : Edge) : Edge := ⟨e.q, e.p⟩

theorem cross_rev (p q r : Pt) : Pt.cross (p - q) (r - q) = - Pt.cross (q - p) (r - p) := by
  simp only [Pt.cross, Pt.sub_x, Pt.sub_y]; ring

theorem contrib_rev (e : Edge) (r : Pt) : contrib (rev e) r = - contrib e r := by
  obtain ⟨p, q⟩ := e
  simp only [rev]
  rw [contrib_cross q p r, contrib_cross p q r, cross_rev p q r]
  rcases lt_trichotomy p.x q.x with h | h | h
  · have h' : ¬ q.x < p.x := not_lt.mpr (le_of_lt h)
    simp only [if_pos h, if_neg h']
    by_cases hc : p.x ≤ r.x ∧ r.x < q.x ∧ 0 < Pt.cross (q - p) (r - p)
    · rw [if_pos hc, if_pos ⟨hc.1, hc.2.1, by linarith [hc.2.2]⟩]
    · rw [if_neg hc, if_neg]; · rfl
      intro hh; exact hc ⟨hh.1, hh.2.1, by linarith [hh.2.2]⟩
  · have h1 : ¬ q.x < p.x := by rw [h]; exact lt_irrefl _
    have h2 : ¬ p.x < q.x := by rw [h]; exact lt_irrefl _
    simp only [if_neg h1, if_neg h2]; rfl
  · have h' : ¬ p.x < q.x := not_lt.mpr (le_of_lt h)
    simp only [if_pos h, if_neg h']
    by_cases hc : q.x ≤ r.x ∧ r.x < p.x ∧ Pt.cross (q - p) (r - p) < 0
    · rw [if_pos hc, if_pos ⟨hc.1, hc.2.1, by linarith [hc.2.2]⟩]; rfl
    · rw [if_neg hc, if_neg]; · rfl
      intro hh; exact hc ⟨hh.1, hh.2.1, by linarith [hh.2.2]⟩

theorem wind_map_rev (es : List Edge) (r : Pt) : wind (es.map rev) r = - wind es r := by
  induction es with
  | nil => rfl
  | cons e t ih => rw [List.map_cons, wind_cons, wind_cons, ih, contrib_rev]; ring

theorem chord_reverse (s : Seg) : Seg.chord s.reverse = rev (Seg.chord s) := by
  cases s with
  | nil => rfl
  | cons a t => simp [Seg.chord, rev, List.getLastD_eq_getLast?, List.headD_eq_head?_getD, List.getLast?_cons]

theorem edges_invert (j : Jordan) : j.invert.edges = (j.edges.map rev).reverse := by
  simp only [Jordan.invert, Jordan.edges, List.map_reverse, List.map_map]
  congr 1
  apply List.map_congr_left
  intro s _
  exact chord_reverse s

/-- holds for every curve (for a non-polygon `edges` are the chords of the segments) -/
theorem wind_invert (j : Jordan) (r : Pt) : wind j.invert.edges r = - wind j.edges r := by
  rw [edges_invert, wind_reverse, wind_map_rev]

/-! ### ground truth: the axis-parallel rectangle -/

def rect (x0 y0 x1 y1 : Rat) : Jordan := Jordan.fromVertices [⟨x0, y0⟩, ⟨x1, y0⟩, ⟨x1, y1⟩, ⟨x0, y1⟩]

theorem rect_wind_inside (x0 y0 x1 y1 : Rat) (r : Pt) (_hx : x0 < x1) (_hy : y0 < y1)
    (hx1 : x0 < r.x) (hx2 : r.x < x1) (hy1 : y0 < r.y) (hy2 : r.y < y1) :
    wind (rect x0 y0 x1 y1).edges r = 1 := by
  simp only [rect, wind_fromVertices4]
  have e1 := contrib_up ⟨x0, y0⟩ ⟨x1, y0⟩ r (by simpa using _hx) (by simpa using le_of_lt hx1) (by simpa using hx2)
    (by simp only [Pt.cross, Pt.sub_x, Pt.sub_y]; nlinarith [mul_pos (sub_pos.mpr _hx) (sub_pos.mpr hy1)])
  have e2 := contrib_vertical ⟨x1, y0⟩ ⟨x1, y1⟩ r rfl
  have e3 := contrib_down_zero ⟨x1, y1⟩ ⟨x0, y1⟩ r (by simpa using _hx)
    (by simp only [Pt.cross, Pt.sub_x, Pt.sub_y]; nlinarith [mul_pos (sub_pos.mpr _hx) (sub_pos.mpr hy2)])
  have e4 := contrib_vertical ⟨x0, y1⟩ ⟨x0, y0⟩ r rfl
  rw [e1, e2, e3, e4]; rfl

theorem rect_wind_outside (x0 y0 x1 y1 : Rat) (r : Pt) (_hx : x0 < x1) (_hy : y0 < y1)
    (h : r.x < x0 ∨ x1 < r.x ∨ r.y < y0 ∨ y1 < r.y) :
    wind (rect x0 y0 x1 y1).edges r = 0 := by
  simp only [rect, wind_fromVertices4]
  have e2 := contrib_vertical ⟨x1, y0⟩ ⟨x1, y1⟩ r rfl
  have e4 := contrib_vertical ⟨x0, y1⟩ ⟨x0, y0⟩ r rfl
  rw [e2, e4]
  by_cases hin : x0 ≤ r.x ∧ r.x < x1
  · obtain ⟨h0, h1⟩ := hin
    rcases h with h | h | h | h
    · exact absurd h (not_lt.mpr h0)
    · exact absurd h (not_lt.mpr (le_of_lt h1))
    · have e1 := contrib_up_zero ⟨x0, y0⟩ ⟨x1, y0⟩ r (by simpa using _hx)
        (by simp only [Pt.cross, Pt.sub_x, Pt.sub_y]; nlinarith [mul_pos (sub_pos.mpr _hx) (sub_pos.mpr h)])
      have e3 := contrib_down_zero ⟨x1, y1⟩ ⟨x0, y1⟩ r (by simpa using _hx)
        (by simp only [Pt.cross, Pt.sub_x, Pt.sub_y]
            nlinarith [mul_pos (sub_pos.mpr _hx) (sub_pos.mpr (lt_trans h _hy))])
      rw [e1, e3]; rfl
    · have e1 := contrib_up ⟨x0, y0⟩ ⟨x1, y0⟩ r (by simpa using _hx) (by simpa using h0) (by simpa using h1)
        (by simp only [Pt.cross, Pt.sub_x, Pt.sub_y]
            nlinarith [mul_pos (sub_pos.mpr _hx) (sub_pos.mpr (lt_trans _hy h))])
      have e3 := contrib_down ⟨x1, y1⟩ ⟨x0, y1⟩ r (by simpa using _hx) (by simpa using h0) (by simpa using h1)
        (by simp only [Pt.cross, Pt.sub_x, Pt.sub_y]; nlinarith [mul_pos (sub_pos.mpr _hx) (sub_pos.mpr h)])
      rw [e1, e3]; rfl
  · have hout : r.x < x0 ∨ x1 ≤ r.x := by
      by_cases h0 : x0 ≤ r.x
      · right; exact not_lt.mp (fun h1 => hin ⟨h0, h1⟩)
      · left; exact not_le.mp h0
    have e1 : contrib ⟨⟨x0, y0⟩, ⟨x1, y0⟩⟩ r = 0 := by
      apply contrib_outside
      rcases hout with h' | h'
      · left; exact ⟨h', lt_trans h' _hx⟩
      · right; exact ⟨le_trans (le_of_lt _hx) h', h'⟩
    have e3 : contrib ⟨⟨x1, y1⟩, ⟨x0, y1⟩⟩ r = 0 := by
      apply contrib_outside
      rcases hout with h' | h'
      · left; exact ⟨lt_trans h' _hx, h'⟩
      · right; exact ⟨h', le_trans (le_of_lt _hx) h'⟩
    rw [e1, e3]; rfl

/-! ### the boundary rule (C02) -/

theorem memJ_on_boundary (j : Jordan) (r : Pt) (b : Bool) (h : j.onBoundary r = true) : memJ j r b = b := by
  unfold memJ windHalves simpleTable
  rw [if_pos h]
  cases j.ccw <;> cases b <;> decide

theorem memJ_closed_off_boundary (j : Jordan) (r : Pt) (h : j.onBoundary r = false)
    (hw : wind j.edges r = 0 ∨ wind j.edges r = (if j.ccw then 1 else -1)) :
    memJ j r true = memW j r := by
  unfold memJ memW windHalves simpleTable
  simp only [h, Bool.false_eq_true, if_false, if_true]
  cases hc : j.ccw
  · simp only [hc, Bool.false_eq_true, if_false] at hw ⊢
    rcases hw with hw | hw <;> rw [hw] <;> decide
  · simp only [hc, if_true] at hw ⊢
    rcases hw with hw | hw <;> rw [hw] <;> decide

/-! ### the meaning of `simpleJ`, `wfConnected`, `wfProblems` (C06) -/

theorem simpleJ_polygon {j : Jordan} (h : simpleJ j = true) : j.isPolygon = true := by
  simp only [simpleJ, Bool.and_eq_true] at h
  exact h.1.1.1

theorem simpleJ_length {j : Jordan} (h : simpleJ j = true) : 3 ≤ j.length := by
  simp only [simpleJ, Bool.and_eq_true, decide_eq_true_eq] at h
  simpa [Jordan.edges] using h.1.1.2

/-- consecutive edges (cyclically) are chained and no edge has zero length -/
theorem simpleJ_chain {j : Jordan} (h : simpleJ j = true) :
    ∀ ef ∈ j.edges.zip (j.edges.tail ++ j.edges.take 1), ef.1.q = ef.2.p ∧ ef.1.p ≠ ef.1.q := by
  simp only [simpleJ, Bool.and_eq_true] at h
  have h2 := h.1.2
  rw [List.all_eq_true] at h2
  intro ef hef
  have := h2 ef hef
  simpa using this

/-- non-adjacent edges have no common point -/
theorem simpleJ_nonadjacent {j : Jordan} (h : simpleJ j = true) (i k : Nat) (e f : Edge)
    (he : (e, i) ∈ j.edges.zipIdx) (hf : (f, k) ∈ j.edges.zipIdx)
    (hik : i + 1 < k) (hwrap : ¬ (i = 0 ∧ k = j.edges.length - 1)) : edgesMeet e f = false := by
  simp only [simpleJ, Bool.and_eq_true] at h
  have h3 := h.2
  rw [List.all_eq_true] at h3
  have h4 := h3 (e, i) he
  rw [List.all_eq_true] at h4
  have h5 := h4 (f, k) hf
  have h1 : ¬ k ≤ i := by omega
  have h2 : ¬ (k = i + 1 ∨ (i = 0 ∧ k = j.edges.length - 1)) := by
    intro hh; rcases hh with hh | hh
    · omega
    · exact hwrap hh
  simp only [h1, h2, if_false] at h5
  simpa using h5

theorem append_eq_nil' {α} {a b : List α} (h : a ++ b = []) : a = [] ∧ b = [] := List.append_eq_nil_iff.mp h

theorem wfConnected_nil {js : List Jordan} (h : wfConnected js = []) :
    2 ≤ js.length ∧ (∀ j ∈ js, curveOK j = true) ∧ (js.filter Jordan.ccw).length ≤ 1 ∧
    (∀ o ∈ js.filter Jordan.ccw, ∀ hl ∈ js.filter (fun j => !j.ccw),
        (curveRel hl o).2.1 = 0 ∧ (curveRel hl o).2.2 = 0) ∧
    (∀ hi ∈ (js.filter (fun j => !j.ccw)).zipIdx, ∀ hk ∈ (js.filter (fun j => !j.ccw)).zipIdx,
        hi.2 ≠ hk.2 → (curveRel hi.1 hk.1).1 = 0 ∧ (curveRel hi.1 hk.1).2.2 = 0) := by
  unfold wfConnected at h
  simp only [List.append_eq_nil_iff] at h
  obtain ⟨⟨⟨⟨h1, h2⟩, h3⟩, h4⟩, h7⟩ := h
  refine ⟨?_, ?_, ?_, ?_, ?_⟩
  · by_cases hl : js.length < 2
    · simp [hl] at h1
    · omega
  · by_cases ha : js.all curveOK = true
    · exact fun j hj => (List.all_eq_true.mp ha) j hj
    · simp [ha] at h2
  · by_cases hc : (js.filter Jordan.ccw).length ≤ 1
    · exact hc
    · simp [hc] at h3
  · intro o ho hl hhl
    rw [List.flatMap_eq_nil_iff] at h4
    have h5 := h4 o ho
    rw [List.flatMap_eq_nil_iff] at h5
    have h6 := h5 hl hhl
    simp only [List.append_eq_nil_iff] at h6
    constructor
    · by_cases hz : (curveRel hl o).2.1 = 0
      · exact hz
      · have := h6.1; simp [hz] at this
    · by_cases hz : (curveRel hl o).2.2 = 0
      · exact hz
      · have := h6.2; simp [hz] at this
  · intro hi hhi hk hhk hne
    rw [List.flatMap_eq_nil_iff] at h7
    have h8 := h7 hi hhi
    rw [List.flatMap_eq_nil_iff] at h8
    have h9 := h8 hk hhk
    simp only [hne, if_false, List.append_eq_nil_iff] at h9
    constructor
    · by_cases hz : (curveRel hi.1 hk.1).1 = 0
      · exact hz
      · have := h9.1; simp [hz] at this
    · by_cases hz : (curveRel hi.1 hk.1).2.2 = 0
      · exact hz
      · have := h9.2; simp [hz] at this

theorem wfProblems_simple {j : Jordan} (h : wfProblems (.simple j) = []) : curveOK j = true := by
  unfold wfProblems at h
  by_cases hs : curveOK j = true
  · exact hs
  · simp [hs] at h

theorem wfProblems_connected {js : List Jordan} (h : wfProblems (.connected js) = []) :
    wfConnected js = [] := h

theorem wfProblems_disjoint {cs : List (List Jordan)} (h : wfProblems (.disjoint cs) = []) :
    2 ≤ cs.length ∧ componentsDisjoint cs = true ∧
    (∀ c ∈ cs, c ≠ []) ∧
    (∀ c ∈ cs, ∀ j, c = [j] → curveOK j = true) ∧
    (∀ c ∈ cs, 2 ≤ c.length → wfConnected c = []) := by
  unfold wfProblems at h
  simp only [List.append_eq_nil_iff] at h
  obtain ⟨⟨h1, h2⟩, h3⟩ := h
  rw [List.flatMap_eq_nil_iff] at h2
  refine ⟨?_, ?_, ?_, ?_, ?_⟩
  · by_cases hl : cs.length < 2
    · simp [hl] at h1
    · omega
  · by_cases hc : componentsDisjoint cs = true
    · exact hc
    · simp [hc] at h3
  · intro c hc hnil
    have := h2 c hc
    rw [hnil] at this
    simp at this
  · intro c hc j hj
    have := h2 c hc
    rw [hj] at this
    by_cases hs : curveOK j = true
    · exact hs
    · simp [hs] at this
  · intro c hc hlen
    have := h2 c hc
    match c, hlen, this with
    | a :: b :: t, _, this => exact this

/-! ### `==` (C07) -/

theorem regionEq_refl (A : Shape) : regionEq A A = true := by
  unfold regionEq slabCheck
  rw [List.all_eq_true]
  intro s _
  exact beq_self_eq_true _

theorem eqJ_iff (a b : Jordan) : eqJ a b = true ↔ canonJ a = canonJ b := by
  unfold eqJ; exact beq_iff_eq

theorem eqJ_refl (a : Jordan) : eqJ a a = true := (eqJ_iff a a).mpr rfl
theorem eqJ_symm {a b : Jordan} (h : eqJ a b = true) : eqJ b a = true :=
  (eqJ_iff b a).mpr ((eqJ_iff a b).mp h).symm
theorem eqJ_trans {a b c : Jordan} (h1 : eqJ a b = true) (h2 : eqJ b c = true) : eqJ a c = true :=
  (eqJ_iff a c).mpr (((eqJ_iff a b).mp h1).trans ((eqJ_iff b c).mp h2))
theorem eqJ_comm (a b : Jordan) : eqJ a b = eqJ b a := by
  cases h : eqJ b a
  · cases h' : eqJ a b
    · rfl
    · rw [eqJ_symm h'] at h; exact absurd h (by decide)
  · exact eqJ_symm h

/-! ### sorting is a permutation; composites (C19) -/

theorem insertBy_perm {α} (lt : α → α → Bool) (x : α) (l : List α) : (insertBy lt x l).Perm (x :: l) := by
  induction l with
  | nil => exact List.Perm.refl _
  | cons a t ih =>
    unfold insertBy
    by_cases h : lt a x = true
    · rw [if_pos h]
      exact (List.Perm.cons a ih).trans (List.Perm.swap x a t)
    · rw [if_neg h]

theorem sortBy_perm {α} (lt : α → α → Bool) (l : List α) : (sortBy lt l).Perm l := by
  induction l with
  | nil => exact List.Perm.refl _
  | cons a t ih =>
    show (insertBy lt a (sortBy lt t)).Perm (a :: t)
    exact (insertBy_perm lt a _).trans (List.Perm.cons a ih)

theorem all_perm {α} {l1 l2 : List α} (h : l1.Perm l2) (f : α → Bool) : l1.all f = l2.all f := by
  induction h with
  | nil => rfl
  | cons x _ ih => simp [ih]
  | swap x y l => simp only [List.all_cons]; rw [← Bool.and_assoc, Bool.and_comm (f y), Bool.and_assoc]
  | trans _ _ ih1 ih2 => exact ih1.trans ih2

theorem any_perm {α} {l1 l2 : List α} (h : l1.Perm l2) (f : α → Bool) : l1.any f = l2.any f := by
  induction h with
  | nil => rfl
  | cons x _ ih => simp [ih]
  | swap x y l => simp only [List.any_cons]; rw [← Bool.or_assoc, Bool.or_comm (f y), Bool.or_assoc]
  | trans _ _ ih1 ih2 => exact ih1.trans ih2

theorem shapeExactMoment_perm {l1 l2 : List Jordan} (h : l1.Perm l2) (a b : Nat) :
    shapeExactMoment l1 a b = shapeExactMoment l2 a b := by
  unfold shapeExactMoment
  rw [(h.map _).sum_eq]

theorem shapeExactMoment_nil (a b : Nat) : shapeExactMoment [] a b = 0 := by
  simp [shapeExactMoment]

theorem shapeExactMoment_flatten (cs : List (List Jordan)) (a b : Nat) :
    shapeExactMoment cs.flatten a b = (cs.map fun c => shapeExactMoment c a b).sum := by
  induction cs with
  | nil => simp [shapeExactMoment_nil]
  | cons c t ih => rw [List.flatten_cons, shapeExactMoment_append, ih, List.map_cons, List.sum_cons]

theorem connectedNew_mem (js : List Jordan) (r : Pt) (b : Bool) :
    (connectedNew js).mem r b = js.all (fun j => memJ j r b) :=
  all_perm (sortBy_perm _ js) _

theorem connectedNew_memW (js : List Jordan) (r : Pt) :
    (connectedNew js).memW r = js.all (fun j => memW j r) :=
  all_perm (sortBy_perm _ js) _

theorem connectedNew_moment (js : List Jordan) (a b : Nat) :
    (connectedNew js).moment a b = shapeExactMoment js a b :=
  shapeExactMoment_perm (sortBy_perm _ js) a b

theorem connectedNew_jordans_perm (js : List Jordan) : (connectedNew js).jordans.Perm js :=
  sortBy_perm _ js

theorem compArea_eq (c : List Jordan) : compArea c = (Shape.connected c).area := by
  simp [compArea, Shape.area, Shape.moment, Shape.jordans, shapeExactMoment]
  rfl

/-! #### `disjointNew` -/

/-- the entries that survive the removal of `EmptyShape()` -/
def nonEmpty (cs : List Shape) : List Shape := cs.filter (fun s => !s.isEmptyS)

theorem disjointNew_nil : disjointNew [] = .empty := rfl

theorem disjointNew_cons_empty (cs : List Shape) : disjointNew (.empty :: cs) = disjointNew cs := by
  simp [disjointNew, Shape.isEmptyS]

theorem disjointNew_all_empty (cs : List Shape) (h : ∀ s ∈ cs, s = .empty) : disjointNew cs = .empty := by
  induction cs with
  | nil => rfl
  | cons a t ih =>
    have ha : a = .empty := h a (by simp)
    rw [ha, disjointNew_cons_empty]
    exact ih (fun s hs => h s (by simp [hs]))

theorem disjointNew_single (s : Shape) (h : s.isComp = true) : disjointNew [s] = s := by
  cases s <;> simp_all [disjointNew, Shape.isEmptyS, Shape.isComp]

theorem mem_compOf (s : Shape) (h : s.isComp = true) (r : Pt) (b : Bool) :
    (s.compOf.all fun j => memJ j r b) = s.mem r b := by
  cases s <;> simp_all [Shape.isComp, Shape.compOf, Shape.mem]

theorem memW_compOf (s : Shape) (h : s.isComp = true) (r : Pt) :
    (s.compOf.all fun j => memW j r) = s.memW r := by
  cases s <;> simp_all [Shape.isComp, Shape.compOf, Shape.memW]

theorem moment_compOf (s : Shape) (h : s.isComp = true) (a b : Nat) :
    shapeExactMoment s.compOf a b = s.moment a b := by
  cases s <;> simp_all [Shape.isComp, Shape.compOf, Shape.moment, Shape.jordans]

theorem any_map_congr {l : List Shape} (f : List Jordan → Bool) (g : Shape → Bool)
    (h : ∀ s ∈ l, f s.compOf = g s) : (l.map Shape.compOf).any f = l.any g := by
  rw [List.any_map]
  exact any_congr_mem h

/-- the three cases of `disjointNew` in terms of the surviving entries -/
theorem disjointNew_eq (cs : List Shape) (hv : ∀ s ∈ nonEmpty cs, s.isComp = true) :
    (nonEmpty cs = [] ∧ disjointNew cs = .empty) ∨
    (∃ s, nonEmpty cs = [s] ∧ disjointNew cs = s) ∨
    (2 ≤ (nonEmpty cs).length ∧
      disjointNew cs = .disjoint (sortBy compLt ((nonEmpty cs).map Shape.compOf))) := by
  unfold nonEmpty at *
  unfold disjointNew
  generalize cs.filter (fun s => !s.isEmptyS) = l at hv ⊢
  match l, hv with
  | [], _ => left; exact ⟨rfl, rfl⟩
  | [s], hv =>
    right; left
    have : s.isComp = true := hv s (by simp)
    exact ⟨s, rfl, by simp only [this, if_true]⟩
  | a :: b :: t, hv =>
    right; right
    have : (a :: b :: t).all Shape.isComp = true := by
      rw [List.all_eq_true]; intro s hs; exact hv s hs
    refine ⟨by simp, ?_⟩
    simp only [this, if_true]

theorem disjointNew_mem (cs : List Shape) (hv : ∀ s ∈ nonEmpty cs, s.isComp = true) (r : Pt) (b : Bool) :
    (disjointNew cs).mem r b = (nonEmpty cs).any (fun s => s.mem r b) := by
  rcases disjointNew_eq cs hv with ⟨h1, h2⟩ | ⟨s, h1, h2⟩ | ⟨_, h2⟩
  · rw [h1, h2]; rfl
  · rw [h1, h2]; simp
  · rw [h2]
    show (sortBy compLt _).any _ = _
    rw [any_perm (sortBy_perm _ _)]
    exact any_map_congr _ _ (fun s hs => mem_compOf s (hv s hs) r b)

theorem disjointNew_memW (cs : List Shape) (hv : ∀ s ∈ nonEmpty cs, s.isComp = true) (r : Pt) :
    (disjointNew cs).memW r = (nonEmpty cs).any (fun s => s.memW r) := by
  rcases disjointNew_eq cs hv with ⟨h1, h2⟩ | ⟨s, h1, h2⟩ | ⟨_, h2⟩
  · rw [h1, h2]; rfl
  · rw [h1, h2]; simp
  · rw [h2]
    show (sortBy compLt _).any _ = _
    rw [any_perm (sortBy_perm _ _)]
    exact any_map_congr _ _ (fun s hs => memW_compOf s (hv s hs) r)

theorem disjoint_moment (cs : List (List Jordan)) (a b : Nat) :
    (Shape.disjoint cs).moment a b = (cs.map fun c => (Shape.connected c).moment a b).sum :=
  shapeExactMoment_flatten cs a b

theorem disjointNew_moment (cs : List Shape) (hv : ∀ s ∈ nonEmpty cs, s.isComp = true) (a b : Nat) :
    (disjointNew cs).moment a b = ((nonEmpty cs).map fun s => s.moment a b).sum := by
  rcases disjointNew_eq cs hv with ⟨h1, h2⟩ | ⟨s, h1, h2⟩ | ⟨_, h2⟩
  · rw [h1, h2]; simp [Shape.moment, Shape.jordans, shapeExactMoment_nil]
  · rw [h1, h2]; simp
  · rw [h2, disjoint_moment]
    show ((sortBy compLt _).map fun c => shapeExactMoment c a b).sum = _
    rw [((sortBy_perm compLt _).map _).sum_eq, List.map_map]
    congr 1
    apply List.map_congr_left
    intro s hs
    exact moment_compOf s (hv s hs) a b

/-- empty entries contribute nothing to the moment: the sum may be taken over all entries -/
theorem moment_sum_nonEmpty (cs : List Shape) (a b : Nat) :
    ((nonEmpty cs).map fun s => s.moment a b).sum = (cs.map fun s => s.moment a b).sum := by
  induction cs with
  | nil => rfl
  | cons s t ih =>
    unfold nonEmpty at *
    cases s <;> simp_all [Shape.isEmptyS, Shape.moment, Shape.jordans, shapeExactMoment_nil]

theorem nonEmpty_perm {cs cs' : List Shape} (h : cs.Perm cs') : (nonEmpty cs).Perm (nonEmpty cs') :=
  h.filter _

/-! ### canonical rotation (C07) -/

theorem ptlt_irrefl (p : Pt) : p.lt p = false := by
  simp [Pt.lt]

theorem ptlt_total {p q : Pt} (h : p ≠ q) : p.lt q = true ∨ q.lt p = true := by
  obtain ⟨px, py⟩ := p
  obtain ⟨qx, qy⟩ := q
  simp only [Pt.lt, Bool.or_eq_true, Bool.and_eq_true, decide_eq_true_eq]
  rcases lt_trichotomy px qx with h1 | h1 | h1
  · left; left; exact h1
  · rcases lt_trichotomy py qy with h2 | h2 | h2
    · left; right; exact ⟨h1, h2⟩
    · exact absurd (by rw [h1, h2]) h
    · right; right; exact ⟨h1.symm, h2⟩
  · right; left; exact h1

theorem ptlt_trans {p q r : Pt} (h1 : p.lt q = true) (h2 : q.lt r = true) : p.lt r = true := by
  simp only [Pt.lt, Bool.or_eq_true, Bool.and_eq_true, decide_eq_true_eq] at *
  rcases h1 with h1 | ⟨h1, h1'⟩ <;> rcases h2 with h2 | ⟨h2, h2'⟩
  · left; exact lt_trans h1 h2
  · left; rw [← h2]; exact h1
  · left; rw [h1]; exact h2
  · right; exact ⟨h1.trans h2, lt_trans h1' h2'⟩

/-- the fold of `canonCycle` -/
def bestIdx (l : List Pt) (n : Nat) (acc : Nat × Pt) : Nat × Pt :=
  (l.zipIdx n).foldl (fun (acc : Nat × Pt) (v, i) => if v.lt acc.2 then (i, v) else acc) acc

theorem canonCycle_eq (v0 : Pt) (t : List Pt) :
    canonCycle (v0 :: t) = rotateL (v0 :: t) (bestIdx (v0 :: t) 0 (0, v0)).1 := rfl

theorem bestIdx_nil (n : Nat) (acc : Nat × Pt) : bestIdx [] n acc = acc := rfl
theorem bestIdx_cons (v : Pt) (l : List Pt) (n : Nat) (acc : Nat × Pt) :
    bestIdx (v :: l) n acc = bestIdx l (n + 1) (if v.lt acc.2 then (n, v) else acc) := by
  simp [bestIdx, List.zipIdx_cons]

theorem bestIdx_append (l1 l2 : List Pt) (n : Nat) (acc : Nat × Pt) :
    bestIdx (l1 ++ l2) n acc = bestIdx l2 (n + l1.length) (bestIdx l1 n acc) := by
  induction l1 generalizing n acc with
  | nil => simp [bestIdx_nil]
  | cons a t ih => rw [List.cons_append, bestIdx_cons, bestIdx_cons, ih]; congr 1; simp; omega

theorem bestIdx_noChange (l : List Pt) (n : Nat) (acc : Nat × Pt) (h : ∀ v ∈ l, v.lt acc.2 = false) :
    bestIdx l n acc = acc := by
  induction l generalizing n with
  | nil => rfl
  | cons a t ih =>
    rw [bestIdx_cons, h a (by simp)]
    exact ih _ (fun v hv => h v (by simp [hv]))

theorem bestIdx_inv (P : Pt → Prop) (l : List Pt) (n : Nat) (acc : Nat × Pt) (h0 : P acc.2) (h : ∀ v ∈ l, P v) :
    P (bestIdx l n acc).2 := by
  induction l generalizing n acc with
  | nil => exact h0
  | cons a t ih =>
    rw [bestIdx_cons]
    apply ih
    · by_cases ha : a.lt acc.2 = true
      · rw [if_pos ha]; exact h a (by simp)
      · rw [if_neg ha]; exact h0
    · exact fun v hv => h v (by simp [hv])

theorem bestIdx_hit (l1 l2 : List Pt) (m : Pt) (n : Nat) (acc : Nat × Pt)
    (h0 : m.lt acc.2 = true) (h1 : ∀ v ∈ l1, m.lt v = true) (h2 : ∀ v ∈ l2, v.lt m = false) :
    bestIdx (l1 ++ m :: l2) n acc = (n + l1.length, m) := by
  rw [bestIdx_append, bestIdx_cons]
  have : m.lt (bestIdx l1 n acc).2 = true := bestIdx_inv (fun v => m.lt v = true) l1 n acc h0 h1
  rw [if_pos this]
  exact bestIdx_noChange l2 _ _ h2

/-- with the (unique) least vertex `m` at position `l1.length`, the canonical cycle starts at `m` -/
theorem canonCycle_decomp (l1 l2 : List Pt) (m : Pt) (hm : m ∉ l1)
    (hmin : ∀ v ∈ l1 ++ m :: l2, v.lt m = false) : canonCycle (l1 ++ m :: l2) = m :: l2 ++ l1 := by
  have hl1 : ∀ v ∈ l1, m.lt v = true := by
    intro v hv
    have hne : m ≠ v := fun h => hm (h ▸ hv)
    rcases ptlt_total hne with h | h
    · exact h
    · rw [hmin v (by simp [hv])] at h; exact Bool.noConfusion h
  have hl2 : ∀ v ∈ l2, v.lt m = false := fun v hv => hmin v (by simp [hv])
  cases l1 with
  | nil =>
    rw [List.nil_append, canonCycle_eq, bestIdx_noChange _ _ _ (fun v hv => hmin v (by simpa using hv))]
    simp [rotateL]
  | cons v0 t =>
    rw [List.cons_append, canonCycle_eq, ← List.cons_append,
      bestIdx_hit (v0 :: t) l2 m 0 (0, v0) (hl1 v0 (by simp)) hl1 hl2]
    simp [rotateL]

theorem exists_ptMin (vs : List Pt) (hne : vs ≠ []) : ∃ m ∈ vs, ∀ v ∈ vs, v.lt m = false := by
  induction vs with
  | nil => exact absurd rfl hne
  | cons a t ih =>
    by_cases ht : t = []
    · subst ht
      exact ⟨a, by simp, fun v hv => by simp at hv; rw [hv]; exact ptlt_irrefl a⟩
    · obtain ⟨m, hm, hmin⟩ := ih ht
      by_cases ha : a.lt m = true
      · refine ⟨a, by simp, ?_⟩
        intro v hv
        rcases List.mem_cons.mp hv with rfl | hv
        · exact ptlt_irrefl _
        · cases hva : v.lt a
          · rfl
          · rw [← hmin v hv]; exact (ptlt_trans hva ha).symm
      · refine ⟨m, by simp [hm], ?_⟩
        intro v hv
        rcases List.mem_cons.mp hv with rfl | hv
        · simpa using ha
        · exact hmin v hv

theorem rotateL_nil {α} (k : Nat) : rotateL ([] : List α) k = [] := by simp [rotateL]

/-- the canonical cycle does not depend on the start vertex -/
theorem canonCycle_rotate (vs : List Pt) (hnd : vs.Nodup) (k : Nat) (hk : k ≤ vs.length) :
    canonCycle (rotateL vs k) = canonCycle vs := by
  by_cases hne : vs = []
  · subst hne; rw [rotateL_nil]
  obtain ⟨m, hm, hmin⟩ := exists_ptMin vs hne
  obtain ⟨l1, l2, rfl⟩ := List.append_of_mem hm
  have hnd' := hnd
  rw [List.nodup_append] at hnd'
  obtain ⟨_, hnd2, hdis⟩ := hnd'
  have hm1 : m ∉ l1 := fun h => hdis m h m (by simp) rfl
  have hm2 : m ∉ l2 := (List.nodup_cons.mp hnd2).1
  rw [canonCycle_decomp l1 l2 m hm1 hmin]
  by_cases hk1 : k ≤ l1.length
  · have e : rotateL (l1 ++ m :: l2) k = l1.drop k ++ m :: (l2 ++ l1.take k) := by
      simp [rotateL, List.drop_append_of_le_length hk1, List.take_append_of_le_length hk1]
    rw [e, canonCycle_decomp _ _ m (fun h => hm1 (List.mem_of_mem_drop h))]
    · simp
    · intro v hv
      apply hmin v
      simp only [List.mem_append, List.mem_cons] at hv ⊢
      rcases hv with hv | hv | hv | hv
      · left; exact List.mem_of_mem_drop hv
      · right; left; exact hv
      · right; right; exact hv
      · left; exact List.mem_of_mem_take hv
  · obtain ⟨k', rfl⟩ : ∃ k', k = l1.length + 1 + k' := ⟨k - (l1.length + 1), by omega⟩
    have e : rotateL (l1 ++ m :: l2) (l1.length + 1 + k') = (l2.drop k' ++ l1) ++ m :: l2.take k' := by
      unfold rotateL
      rw [show l1.length + 1 + k' = l1.length + (k' + 1) by omega, List.drop_length_add_append,
        List.take_length_add_append]
      simp
    rw [e, canonCycle_decomp _ _ m]
    · rw [List.cons_append, ← List.append_assoc, List.take_append_drop]; rfl
    · intro h
      rcases List.mem_append.mp h with h | h
      · exact hm2 (List.mem_of_mem_drop h)
      · exact hm1 h
    · intro v hv
      apply hmin v
      simp only [List.mem_append, List.mem_cons] at hv ⊢
      rcases hv with (hv | hv) | hv | hv
      · right; right; exact List.mem_of_mem_drop hv
      · left; exact hv
      · right; left; exact hv
      · right; right; exact List.mem_of_mem_take hv

/-! #### cleaning commutes with rotation when nothing is removable -/

/-- vertex `i` would be dropped by `JordanCurve.clean` -/
def removable (vs : List Pt) (i : Nat) : Bool :=
  let n := vs.length
  let u := vs.getD ((i + n - 1) % n) Pt.zero
  let v := vs.getD i Pt.zero
  let w := vs.getD ((i + 1) % n) Pt.zero
  decide (Pt.cross (v - u) (w - v) = 0) && decide (0 < Pt.inner (v - u) (w - v))

theorem cleanStep_none_iff (vs : List Pt) :
    cleanStep vs = none ↔ (vs.length < 3 ∨ ∀ i < vs.length, removable vs i = false) := by
  unfold cleanStep
  by_cases h : vs.length < 3
  · simp [h]
  · simp only [h, if_false, Option.map_eq_none_iff, List.find?_eq_none, List.mem_range, false_or]
    constructor
    · intro hh i hi
      have := hh i hi
      simpa [removable] using this
    · intro hh i hi
      have := hh i hi
      simpa [removable] using this

theorem rotateL_length {α} (l : List α) (k : Nat) (hk : k ≤ l.length) : (rotateL l k).length = l.length := by
  simp [rotateL]; omega

theorem rotateL_getD (vs : List Pt) (k : Nat) (hk : k ≤ vs.length) (i : Nat) (hi : i < vs.length) :
    (rotateL vs k).getD i Pt.zero = vs.getD ((i + k) % vs.length) Pt.zero := by
  have hr : rotateL vs k = vs.rotate k := by
    unfold rotateL; rw [List.rotate_eq_drop_append_take hk]
  have hi' : i < (vs.rotate k).length := by simpa using hi
  have hm : (i + k) % vs.length < vs.length := Nat.mod_lt _ (by omega)
  rw [hr, (List.getElem_eq_getD (h := hi') Pt.zero).symm, (List.getElem_eq_getD (h := hm) Pt.zero).symm,
    List.getElem_rotate]

theorem removable_rotate (vs : List Pt) (k : Nat) (hk : k ≤ vs.length) (i : Nat) (hi : i < vs.length) :
    removable (rotateL vs k) i = removable vs ((i + k) % vs.length) := by
  have hn : 0 < vs.length := by omega
  unfold removable
  simp only [rotateL_length vs k hk]
  rw [rotateL_getD vs k hk _ (Nat.mod_lt _ hn), rotateL_getD vs k hk _ hi,
    rotateL_getD vs k hk _ (Nat.mod_lt _ hn)]
  have e1 : ((i + vs.length - 1) % vs.length + k) % vs.length
      = ((i + k) % vs.length + vs.length - 1) % vs.length := by
    rw [Nat.mod_add_mod]
    have : (i + k) % vs.length + vs.length - 1 = (i + k) % vs.length + (vs.length - 1) := by omega
    rw [this, Nat.mod_add_mod]
    congr 1; omega
  have e2 : ((i + 1) % vs.length + k) % vs.length = ((i + k) % vs.length + 1) % vs.length := by
    rw [Nat.mod_add_mod, Nat.mod_add_mod]; congr 1; omega
  rw [e1, e2]

theorem cleanStep_rotate (vs : List Pt) (k : Nat) (hk : k ≤ vs.length) (h : cleanStep vs = none) :
    cleanStep (rotateL vs k) = none := by
  rw [cleanStep_none_iff] at h ⊢
  rw [rotateL_length vs k hk]
  rcases h with h | h
  · left; exact h
  · right
    intro i hi
    rw [removable_rotate vs k hk i hi]
    exact h _ (Nat.mod_lt _ (by omega))

theorem cleanCycle_of_none (n : Nat) (vs : List Pt) (h : cleanStep vs = none) : cleanCycle n vs = vs := by
  cases n with
  | zero => rfl
  | succ n => simp [cleanCycle, h]

theorem cycle_fromVertices (vs : List Pt) : (Jordan.fromVertices vs).cycle = vs := by
  cases vs with
  | nil => rfl
  | cons v0 t =>
    simp only [Jordan.cycle, Jordan.points0, Jordan.fromVertices, List.map_map]
    have : ((fun s : Seg => s.headD Pt.zero) ∘ fun (x : Pt × Pt) => [x.1, x.2]) = Prod.fst := by
      funext x; rfl
    rw [this]
    exact List.map_fst_zip (by simp)

theorem canonJ_fromVertices (vs : List Pt) (h : cleanStep vs = none) :
    canonJ (Jordan.fromVertices vs) = canonCycle vs := by
  unfold canonJ
  rw [cycle_fromVertices, cleanCycle_of_none _ _ h]

/-- `jordan == jordan` does not depend on the start vertex -/
theorem eqJ_rotate (vs : List Pt) (hnd : vs.Nodup) (hclean : cleanStep vs = none) (k : Nat) (hk : k ≤ vs.length) :
    eqJ (Jordan.fromVertices (rotateL vs k)) (Jordan.fromVertices vs) = true := by
  rw [eqJ_iff, canonJ_fromVertices _ hclean, canonJ_fromVertices _ (cleanStep_rotate vs k hk hclean),
    canonCycle_rotate vs hnd k hk]

/-! #### more on composites -/
theorem disjointNew_invalid (cs : List Shape) (h : ¬ ∀ s ∈ nonEmpty cs, s.isComp = true) :
    disjointNew cs = .empty := by
  unfold nonEmpty at h
  unfold disjointNew
  generalize cs.filter (fun s => !s.isEmptyS) = l at h ⊢
  match l, h with
  | [], _ => rfl
  | [s], h =>
    have : ¬ s.isComp = true := fun hs => h (fun t ht => by simp at ht; rw [ht]; exact hs)
    show (if _ then _ else _) = _
    rw [if_neg this]
  | a :: b :: t, h =>
    have : ¬ (a :: b :: t).all Shape.isComp = true := by
      intro hall; exact h (fun s hs => (List.all_eq_true.mp hall) s hs)
    show (if _ then _ else _) = _
    rw [if_neg this]

theorem valid_perm {cs cs' : List Shape} (h : cs.Perm cs') :
    (∀ s ∈ nonEmpty cs, s.isComp = true) ↔ (∀ s ∈ nonEmpty cs', s.isComp = true) := by
  have hp := nonEmpty_perm h
  exact ⟨fun hv s hs => hv s (hp.mem_iff.mpr hs), fun hv s hs => hv s (hp.mem_iff.mp hs)⟩

theorem disjointNew_mem_perm {cs cs' : List Shape} (h : cs.Perm cs') (r : Pt) (b : Bool) :
    (disjointNew cs).mem r b = (disjointNew cs').mem r b := by
  by_cases hv : ∀ s ∈ nonEmpty cs, s.isComp = true
  · rw [disjointNew_mem cs hv, disjointNew_mem cs' ((valid_perm h).mp hv)]
    exact any_perm (nonEmpty_perm h) _
  · rw [disjointNew_invalid cs hv, disjointNew_invalid cs' (fun hv' => hv ((valid_perm h).mpr hv'))]

theorem disjointNew_memW_perm {cs cs' : List Shape} (h : cs.Perm cs') (r : Pt) :
    (disjointNew cs).memW r = (disjointNew cs').memW r := by
  by_cases hv : ∀ s ∈ nonEmpty cs, s.isComp = true
  · rw [disjointNew_memW cs hv, disjointNew_memW cs' ((valid_perm h).mp hv)]
    exact any_perm (nonEmpty_perm h) _
  · rw [disjointNew_invalid cs hv, disjointNew_invalid cs' (fun hv' => hv ((valid_perm h).mpr hv'))]

theorem disjointNew_moment_perm {cs cs' : List Shape} (h : cs.Perm cs') (a b : Nat) :
    (disjointNew cs).moment a b = (disjointNew cs').moment a b := by
  by_cases hv : ∀ s ∈ nonEmpty cs, s.isComp = true
  · rw [disjointNew_moment cs hv, disjointNew_moment cs' ((valid_perm h).mp hv)]
    exact ((nonEmpty_perm h).map _).sum_eq
  · rw [disjointNew_invalid cs hv, disjointNew_invalid cs' (fun hv' => hv ((valid_perm h).mpr hv'))]

theorem any_nonEmpty (cs : List Shape) (f : Shape → Bool) (hf : f .empty = false) :
    (nonEmpty cs).any f = cs.any f := by
  induction cs with
  | nil => rfl
  | cons s t ih =>
    unfold nonEmpty at *
    cases s <;> simp_all [Shape.isEmptyS]

theorem not_all (l : List α) (f : α → Bool) : (!(l.all f)) = l.any (fun x => !f x) := by
  induction l with
  | nil => rfl
  | cons a t ih => simp [ih]

theorem not_any (l : List α) (f : α → Bool) : (!(l.any f)) = l.all (fun x => !f x) := by
  induction l with
  | nil => rfl
  | cons a t ih => simp [ih]

/-! #### the sort is sorted -/
theorem insertBy_area_sorted (x : Jordan) (l : List Jordan)
    (h : l.Pairwise (fun a b => b.area ≤ a.area)) :
    (insertBy (fun a b => decide (b.area < a.area)) x l).Pairwise (fun a b => b.area ≤ a.area) := by
  induction l with
  | nil => simp [insertBy]
  | cons a t ih =>
    unfold insertBy
    rw [List.pairwise_cons] at h
    by_cases hc : decide (x.area < a.area) = true
    · rw [if_pos hc, List.pairwise_cons]
      refine ⟨?_, ih h.2⟩
      intro y hy
      rcases List.mem_cons.mp ((insertBy_perm _ x t).mem_iff.mp hy) with rfl | hy
      · exact le_of_lt (by simpa using hc)
      · exact h.1 y hy
    · rw [if_neg hc, List.pairwise_cons]
      have hxa : a.area ≤ x.area := by simpa using hc
      refine ⟨?_, List.pairwise_cons.mpr h⟩
      intro y hy
      rcases List.mem_cons.mp hy with rfl | hy
      · exact hxa
      · exact le_trans (h.1 y hy) hxa

theorem sortBy_area_sorted (l : List Jordan) :
    (sortBy (fun a b => decide (b.area < a.area)) l).Pairwise (fun a b => b.area ≤ a.area) := by
  induction l with
  | nil => exact List.Pairwise.nil
  | cons a t ih => exact insertBy_area_sorted a _ ih

theorem shapeExactMoment_sum (js : List Jordan) (a b : Nat) :
    shapeExactMoment js a b = (js.map fun j => shapeExactMoment [j] a b).sum := by
  induction js with
  | nil => simp [shapeExactMoment_nil]
  | cons j t ih =>
    rw [show j :: t = [j] ++ t from rfl, shapeExactMoment_append, ih]
    simp

end ShapeVerif.Alg
