/- Ground truth for EVERY moment of an axis-parallel rectangle: the exact boundary integral
`∫ x^a y^b dy` of a horizontal edge vanishes, that of a vertical edge is `x^a (q.y^(b+1) − p.y^(b+1))/(b+1)`
(fundamental theorem of calculus on `Polynomial ℚ`), hence the Green moment of `rect x0 y0 x1 y1` is the
iterated integral `∫_{x0}^{x1} x^a dx · ∫_{y0}^{y1} y^b dy` for ALL exponents and all rational corners. -/
import ShapeVerif.Proofs.SplitIntGen
import ShapeVerif.Proofs.ChordCutGen
import Mathlib.Tactic.Ring
import Mathlib.Tactic.FieldSimp

open Polynomial

namespace ShapeVerif

/-- the power-basis coefficients of a straight edge coordinate -/
theorem coordPoly_two (a b : Rat) : coordPoly [a, b] = [a, b - a] := by
  have h1 : caractEntry 1 0 1 = 1 := by decide
  have h2 : caractEntry 1 1 1 = 0 := by decide
  have h3 : caractEntry 1 0 0 = -1 := by decide
  have h4 : caractEntry 1 1 0 = 1 := by decide
  simp [coordPoly, canonCoefs, canonCoef, List.range_succ, h1, h2, h3, h4]
  ring

theorem toPoly_coordPoly_two (a b : Rat) : toPoly (coordPoly [a, b]) = C a + C (b - a) * X := by
  rw [coordPoly_two, toPoly_cons, toPoly_cons, toPoly_nil]
  ring

theorem edge_xs (p q : Pt) : Seg.xs [p, q] = [p.x, q.x] := rfl
theorem edge_ys (p q : Pt) : Seg.ys [p, q] = [p.y, q.y] := rfl

/-- the boundary integral of a straight edge in `Polynomial ℚ` -/
theorem exactVertical_edge_eq_Iint (p q : Pt) (a b : Nat) :
    exactVertical [p, q] a b
      = Iint ((C p.x + C (q.x - p.x) * X) ^ a * (C p.y + C (q.y - p.y) * X) ^ b * C (q.y - p.y)) := by
  rw [exactVertical_eq_Iint, edge_xs, edge_ys, toPoly_coordPoly_two, toPoly_coordPoly_two]
  congr 2
  simp

theorem exactVertical_horizontal_edge (p q : Pt) (h : p.y = q.y) (a b : Nat) : exactVertical [p, q] a b = 0 := by
  rw [exactVertical_edge_eq_Iint, h, sub_self, C_0, mul_zero, map_zero]

theorem exactVertical_vertical_edge (p q : Pt) (h : p.x = q.x) (a b : Nat) :
    exactVertical [p, q] a b = p.x ^ a * (q.y ^ (b + 1) - p.y ^ (b + 1)) / ((b + 1 : Nat) : Rat) := by
  have hb : (((b + 1 : Nat) : Rat)) ≠ 0 := Nat.cast_ne_zero.mpr (Nat.succ_ne_zero b)
  rw [exactVertical_edge_eq_Iint, h, sub_self, C_0, zero_mul, add_zero]
  have e : (C q.x : Rat[X]) ^ a * (C p.y + C (q.y - p.y) * X) ^ b * C (q.y - p.y)
      = C (q.x ^ a / ((b + 1 : Nat) : Rat)) * derivative ((C p.y + C (q.y - p.y) * X) ^ (b + 1)) := by
    rw [derivative_pow]
    simp only [derivative_add, derivative_C, derivative_mul, derivative_X, zero_mul, zero_add, mul_one,
      Nat.add_sub_cancel]
    have : (C (q.x ^ a / ((b + 1 : Nat) : Rat)) : Rat[X]) * (C (((b + 1 : Nat) : Rat))) = C q.x ^ a := by
      rw [← C_mul, ← C_pow]; congr 1; field_simp
    rw [← this]
    push_cast
    ring
  rw [e, Iint_C_mul, Iint_derivative]
  simp only [eval_pow, eval_add, eval_C, eval_mul, eval_X, mul_one, mul_zero, add_zero]
  have : p.y + (q.y - p.y) = q.y := by ring
  rw [this]
  field_simp

theorem rect_moment_all (x0 y0 x1 y1 : Rat) (a b : Nat) :
    Jordan.moment (rect x0 y0 x1 y1) a b
      = (x1 ^ (a + 1) - x0 ^ (a + 1)) / ((a + 1 : Nat) : Rat) * ((y1 ^ (b + 1) - y0 ^ (b + 1)) / ((b + 1 : Nat) : Rat)) := by
  unfold Jordan.moment rect
  rw [jev_fromVertices_cons]
  simp only [Misc.pathSum]
  rw [exactVertical_horizontal_edge ⟨x0, y0⟩ ⟨x1, y0⟩ rfl, exactVertical_vertical_edge ⟨x1, y0⟩ ⟨x1, y1⟩ rfl,
    exactVertical_horizontal_edge ⟨x1, y1⟩ ⟨x0, y1⟩ rfl, exactVertical_vertical_edge ⟨x0, y1⟩ ⟨x0, y0⟩ rfl]
  ring

end ShapeVerif
