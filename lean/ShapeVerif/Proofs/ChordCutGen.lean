/- Green anchors: second moments of triangles, and additivity of EVERY boundary integral (hence of every
moment) when a polygon is cut along a chord: the chord is traversed once in each direction by the two
parts and cancels (`exactVertical_reverse_all`), for every exponent pair and every degenerate case
(empty sides, coinciding end points). -/
import ShapeVerif.Proofs.Quadrature
import ShapeVerif.Proofs.Misc
import ShapeVerif.Proofs.ReverseGen
import Mathlib.Tactic.Ring

namespace ShapeVerif

/-! ### second moments of a triangle -/

theorem triangle_moment_20 (p q r : Pt) :
    Jordan.moment (Jordan.fromVertices [p, q, r]) 2 0
      = triCross p q r / 12 * (p.x ^ 2 + q.x ^ 2 + r.x ^ 2 + p.x * q.x + q.x * r.x + r.x * p.x) := by
  unfold triCross; quad_unfold; ring

theorem triangle_moment_02 (p q r : Pt) :
    Jordan.moment (Jordan.fromVertices [p, q, r]) 0 2
      = triCross p q r / 12 * (p.y ^ 2 + q.y ^ 2 + r.y ^ 2 + p.y * q.y + q.y * r.y + r.y * p.y) := by
  unfold triCross; quad_unfold; ring

theorem triangle_moment_11 (p q r : Pt) :
    Jordan.moment (Jordan.fromVertices [p, q, r]) 1 1
      = triCross p q r / 24 * (2 * (p.x * p.y + q.x * q.y + r.x * r.y) + p.x * q.y + q.x * p.y + q.x * r.y + r.x * q.y + r.x * p.y + p.x * r.y) := by
  unfold triCross; quad_unfold; ring

/-! ### cutting a polygon along a chord -/

/-- an open vertex path through a marked vertex `y` is the path to `y` followed by the path from `y` -/
theorem pathSum_split (F : Pt → Pt → Rat) : ∀ (l1 l2 : List Pt) (x y z : Pt),
    Misc.pathSum F x (l1 ++ y :: l2) z = Misc.pathSum F x l1 y + Misc.pathSum F y l2 z
  | [], l2, x, y, z => rfl
  | a :: l1, l2, x, y, z => by
    simp only [List.cons_append, Misc.pathSum, pathSum_split F l1 l2 a y z]; ring

/-- the edge functional ∫ x^a y^b dy changes sign with the direction of the edge, for ALL exponents -/
theorem exactVertical_edge_swap (p q : Pt) (a b : Nat) :
    exactVertical [q, p] a b = - exactVertical [p, q] a b :=
  exactVertical_reverse_all [p, q] (by simp) a b

/-- the boundary integral of the closed polygon `v0, t…` as a path sum -/
theorem jev_fromVertices_cons (v0 : Pt) (t : List Pt) (a b : Nat) :
    jordanExactVertical (Jordan.fromVertices (v0 :: t)) a b
      = Misc.pathSum (fun u v => exactVertical [u, v] a b) v0 t v0 := by
  unfold jordanExactVertical
  exact Misc.sum_fromVertices_cons (fun s => exactVertical s a b) v0 t

theorem chord_cut_additive (l1 l2 : List Pt) (p q : Pt) (a b : Nat) :
    jordanExactVertical (Jordan.fromVertices (p :: l1 ++ q :: l2)) a b
      = jordanExactVertical (Jordan.fromVertices (p :: l1 ++ [q])) a b + jordanExactVertical (Jordan.fromVertices (q :: l2 ++ [p])) a b := by
  simp only [List.cons_append]
  rw [jev_fromVertices_cons, jev_fromVertices_cons, jev_fromVertices_cons, pathSum_split,
    Misc.pathSum_concat, Misc.pathSum_concat]
  simp only [exactVertical_edge_swap p q a b]
  ring

theorem chord_cut_moment (l1 l2 : List Pt) (p q : Pt) (a b : Nat) :
    Jordan.moment (Jordan.fromVertices (p :: l1 ++ q :: l2)) a b
      = Jordan.moment (Jordan.fromVertices (p :: l1 ++ [q])) a b + Jordan.moment (Jordan.fromVertices (q :: l2 ++ [p])) a b := by
  unfold Jordan.moment
  rw [chord_cut_additive, add_div]

end ShapeVerif
