/- splitting a boundary piece (de Casteljau, `splitAt`) does not change its boundary integrals
`∫ x^a y^b dy` — for EVERY degree, EVERY split parameter and ALL exponents.
The list polynomials are mapped to `Polynomial ℚ` (`toPoly`); the two pieces are the compositions of
the coordinate polynomials with `t0·X` and `t0 + (1−t0)·X`; the integral over `[0,1]` (`Iint`) is
additive under these two substitutions (`Iint_affine_split`, by the fundamental theorem of calculus
for polynomials: `Iint (derivative F) = F(1) − F(0)`). -/
import ShapeVerif.Props.C18b
import ShapeVerif.Proofs.QuadGen
import ShapeVerif.Proofs.ReverseGen
import Mathlib.Algebra.Polynomial.Derivative
import Mathlib.Algebra.Polynomial.Roots

open Polynomial

namespace ShapeVerif

/-! ### the fundamental theorem of calculus for `Iint` -/

/-- `∫₀¹ F' = F(1) − F(0)` -/
theorem Iint_derivative (F : Rat[X]) : Iint (derivative F) = F.eval 1 - F.eval 0 := by
  induction F using Polynomial.induction_on' with
  | add p q hp hq => rw [map_add, map_add, hp, hq, eval_add, eval_add]; ring
  | monomial n a =>
    rw [derivative_monomial, Iint_monomial, eval_monomial, eval_monomial]
    cases n with
    | zero => simp
    | succ n =>
      have h1 : ((n : Rat) + 1) ≠ 0 := by positivity
      simp only [Nat.add_sub_cancel, Nat.cast_add, Nat.cast_one, one_pow, mul_one, ne_eq,
        Nat.add_eq_zero_iff, one_ne_zero, and_false, not_false_eq_true, zero_pow, mul_zero, sub_zero]
      field_simp

/-- every rational polynomial has an antiderivative -/
theorem exists_antiderivative (q : Rat[X]) : ∃ A : Rat[X], derivative A = q := by
  induction q using Polynomial.induction_on' with
  | add p q hp hq =>
    obtain ⟨A, hA⟩ := hp
    obtain ⟨B, hB⟩ := hq
    exact ⟨A + B, by rw [derivative_add, hA, hB]⟩
  | monomial n a =>
    refine ⟨monomial (n + 1) (a / ((n : Rat) + 1)), ?_⟩
    rw [derivative_monomial]
    have h1 : ((n : Rat) + 1) ≠ 0 := by positivity
    simp only [Nat.add_sub_cancel, Nat.cast_add, Nat.cast_one]
    congr 1
    field_simp

/-- the affine substitution rule: `b · ∫₀¹ q(a + b u) du = A(a + b) − A(a)` for an antiderivative `A` -/
theorem Iint_comp_affine (A q : Rat[X]) (hA : derivative A = q) (a b : Rat) :
    b * Iint (q.comp (C a + C b * X)) = A.eval (a + b) - A.eval a := by
  have hd : derivative (A.comp (C a + C b * X)) = C b * q.comp (C a + C b * X) := by
    rw [derivative_comp, hA]
    congr 1
    simp
  rw [← Iint_C_mul, ← hd, Iint_derivative]
  simp [eval_comp]

theorem Iint_affine_split (q : Polynomial Rat) (t0 : Rat) :
    t0 * Iint (q.comp (Polynomial.C t0 * Polynomial.X)) + (1 - t0) * Iint (q.comp (Polynomial.C t0 + Polynomial.C (1 - t0) * Polynomial.X)) = Iint q := by
  obtain ⟨A, hA⟩ := exists_antiderivative q
  have h1 := Iint_comp_affine A q hA 0 t0
  have h2 := Iint_comp_affine A q hA t0 (1 - t0)
  have e : (C (0 : Rat) + C t0 * X : Rat[X]) = C t0 * X := by simp
  have e1 : t0 + (1 - t0) = 1 := by ring
  rw [e, zero_add] at h1
  rw [e1] at h2
  rw [h1, h2, ← hA, Iint_derivative]
  ring

/-! ### bridge lemmas `List Rat → Rat[X]` -/

theorem toPoly_eq_of_peval {p : List Rat} {Q : Rat[X]} (h : ∀ r, peval p r = Q.eval r) : toPoly p = Q := by
  apply Polynomial.funext
  intro r
  rw [← peval_eq_eval, h r]

theorem toPoly_pmul (p q : List Rat) : toPoly (pmul p q) = toPoly p * toPoly q :=
  toPoly_eq_of_peval fun r => by rw [peval_pmul, eval_mul, peval_eq_eval, peval_eq_eval]

theorem toPoly_ppow (p : List Rat) (k : Nat) : toPoly (ppow p k) = toPoly p ^ k :=
  toPoly_eq_of_peval fun r => by rw [peval_ppow, eval_pow, peval_eq_eval]

theorem toPoly_pderiv_shift (p : List Rat) (j : Nat) :
    toPoly ((p.zipIdx j).map fun (ck : Rat × Nat) => ((ck.2 + 1 : Nat) : Rat) * ck.1)
      = C ((j : Rat) + 1) * toPoly p + X * derivative (toPoly p) := by
  induction p generalizing j with
  | nil => simp [toPoly_nil]
  | cons c p ih =>
    rw [List.zipIdx_cons, List.map_cons, toPoly_cons, ih (j + 1), toPoly_cons]
    simp only [derivative_add, derivative_C, derivative_mul, derivative_X, Nat.cast_add,
      Nat.cast_one, C_mul, C_add, C_1]
    ring

theorem toPoly_pderiv (p : List Rat) : toPoly (pderiv p) = derivative (toPoly p) := by
  cases p with
  | nil => simp [pderiv, toPoly_nil]
  | cons a p =>
    have := toPoly_pderiv_shift p 0
    simp only [Nat.cast_zero, zero_add, C_1, one_mul] at this
    show toPoly ((p.zipIdx).map fun (ck : Rat × Nat) => ((ck.2 + 1 : Nat) : Rat) * ck.1) = _
    rw [this, toPoly_cons]
    simp only [derivative_add, derivative_C, derivative_mul, derivative_X]
    ring

/-- the exact boundary integral in `Polynomial ℚ` -/
theorem exactVertical_eq_Iint (s : Seg) (a b : Nat) :
    exactVertical s a b
      = Iint (toPoly (coordPoly s.xs) ^ a * toPoly (coordPoly s.ys) ^ b
          * derivative (toPoly (coordPoly s.ys))) := by
  rw [exactVertical_eq, ← Iint_toPoly]
  unfold integrandPoly
  rw [toPoly_pmul, toPoly_pmul, toPoly_ppow, toPoly_ppow, toPoly_pderiv]

/-! ### the coordinate polynomials of the two pieces -/

theorem evalSeg_x_eq (s : Seg) (t : Rat) : (evalSeg s t).x = (toPoly (coordPoly s.xs)).eval t := by
  rw [← peval_eq_eval, peval_coordPoly]; rfl

theorem evalSeg_y_eq (s : Seg) (t : Rat) : (evalSeg s t).y = (toPoly (coordPoly s.ys)).eval t := by
  rw [← peval_eq_eval, peval_coordPoly]; rfl

theorem coordPoly_comp_of_eval (s l : Seg) (L : Rat[X]) (h : ∀ u, evalSeg l u = evalSeg s (L.eval u)) :
    toPoly (coordPoly l.xs) = (toPoly (coordPoly s.xs)).comp L ∧
    toPoly (coordPoly l.ys) = (toPoly (coordPoly s.ys)).comp L := by
  constructor
  · apply Polynomial.funext
    intro r
    rw [← evalSeg_x_eq, h r, evalSeg_x_eq, eval_comp]
  · apply Polynomial.funext
    intro r
    rw [← evalSeg_y_eq, h r, evalSeg_y_eq, eval_comp]

/-- the boundary integral of a reparametrised piece `l(u) = s(α + β u)` -/
theorem exactVertical_of_affine (s l : Seg) (α β : Rat)
    (h : ∀ u, evalSeg l u = evalSeg s ((C α + C β * X : Rat[X]).eval u)) (a b : Nat) :
    exactVertical l a b
      = β * Iint ((toPoly (coordPoly s.xs) ^ a * toPoly (coordPoly s.ys) ^ b
          * derivative (toPoly (coordPoly s.ys))).comp (C α + C β * X)) := by
  obtain ⟨hx, hy⟩ := coordPoly_comp_of_eval s l _ h
  rw [exactVertical_eq_Iint, hx, hy, derivative_comp, ← Iint_C_mul]
  congr 1
  simp only [mul_comp, pow_comp, derivative_add, derivative_C, derivative_mul, derivative_X, zero_mul,
    zero_add, mul_one]
  ring

theorem exactVertical_split (s : Seg) (hs : 2 ≤ s.length) (t0 : Rat) (a b : Nat) :
    exactVertical (splitAt s t0).1 a b + exactVertical (splitAt s t0).2 a b = exactVertical s a b := by
  have hne : s ≠ [] := by
    intro h; rw [h] at hs; simp at hs
  have hl : ∀ u, evalSeg (splitAt s t0).1 u = evalSeg s ((C 0 + C t0 * X : Rat[X]).eval u) := by
    intro u
    rw [C18.split_left_all s hne t0 u]
    simp
  have hr : ∀ u, evalSeg (splitAt s t0).2 u = evalSeg s ((C t0 + C (1 - t0) * X : Rat[X]).eval u) := by
    intro u
    rw [C18.split_right_all s hne t0 u]
    congr 1
    simp only [eval_add, eval_C, eval_mul, eval_X]
    ring
  rw [exactVertical_of_affine s _ 0 t0 hl a b, exactVertical_of_affine s _ t0 (1 - t0) hr a b,
    exactVertical_eq_Iint s a b]
  have e : (C (0 : Rat) + C t0 * X : Rat[X]) = C t0 * X := by simp
  rw [e]
  exact Iint_affine_split _ t0

theorem area_split (s : Seg) (hs : 2 ≤ s.length) (t0 : Rat) :
    exactVertical (splitAt s t0).1 1 0 + exactVertical (splitAt s t0).2 1 0 = exactVertical s 1 0 :=
  exactVertical_split s hs t0 1 0

end ShapeVerif
