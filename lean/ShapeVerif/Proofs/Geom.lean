/- helper lemmas for the geometric claims C12–C16 (points, straight intersection, edges, areas) -/
import ShapeVerif.Model.Intersect
import ShapeVerif.Model.Primitive
import ShapeVerif.Proofs.Bezier
import Mathlib.Tactic.Ring
import Mathlib.Tactic.Linarith
import Mathlib.Tactic.NormNum
import Mathlib.Tactic.FieldSimp
import Mathlib.Tactic.Positivity
import Mathlib.Tactic.LinearCombination

namespace ShapeVerif.Geom

/-! ### points -/
@[simp] theorem Pt.sub_x (p q : Pt) : (p - q).x = p.x - q.x := rfl
@[simp] theorem Pt.sub_y (p q : Pt) : (p - q).y = p.y - q.y := rfl
@[simp] theorem Pt.add_x (p q : Pt) : (p + q).x = p.x + q.x := rfl
@[simp] theorem Pt.add_y (p q : Pt) : (p + q).y = p.y + q.y := rfl

theorem Pt.ext' {p q : Pt} (hx : p.x = q.x) (hy : p.y = q.y) : p = q := by
  cases p; cases q; simp_all

theorem Pt.move_sub_move (p q d : Pt) : p.move d - q.move d = p - q := by
  apply Pt.ext' <;> simp [Pt.move]

theorem Pt.scale_sub_scale (p q : Pt) (sx sy : Rat) : p.scale sx sy - q.scale sx sy = (p - q).scale sx sy := by
  apply Pt.ext' <;> simp [Pt.scale] <;> ring

theorem Pt.rot_sub_rot (p q : Pt) (c s : Rat) : p.rot c s - q.rot c s = (p - q).rot c s := by
  apply Pt.ext' <;> simp [Pt.rot] <;> ring

theorem Pt.cross_scale (p q : Pt) (sx sy : Rat) :
    Pt.cross (p.scale sx sy) (q.scale sx sy) = sx * sy * Pt.cross p q := by
  simp [Pt.cross, Pt.scale]; ring

theorem Pt.cross_rot (p q : Pt) (c s : Rat) :
    Pt.cross (p.rot c s) (q.rot c s) = (c * c + s * s) * Pt.cross p q := by
  simp [Pt.cross, Pt.rot]; ring

/-! ### `Intersection.lines` -/

/-- clearing one denominator in an affine identity -/
theorem div_affine_aux (ax bx vx wx n m D : Rat) (hD : D ≠ 0) (h : D*ax + n*vx = D*bx + m*wx) :
    ax + n/D*vx = bx + m/D*wx := by
  field_simp
  linarith

/-- the parameters computed by `linesInter`, as functions of the end points -/
def liU (a0 a1 b0 b1 : Pt) : Rat := Pt.cross (b0 - a0) (b1 - b0) / Pt.cross (a1 - a0) (b1 - b0)
def liV (a0 a1 b0 b1 : Pt) : Rat := Pt.cross (b0 - a0) (a1 - a0) / Pt.cross (a1 - a0) (b1 - b0)

/-- `linesInter` in closed form -/
theorem linesInter_eq (a0 a1 b0 b1 : Pt) :
    linesInter a0 a1 b0 b1 =
      if Pt.cross (a1 - a0) (b1 - b0) ≠ 0 ∧ 0 ≤ liU a0 a1 b0 b1 ∧ liU a0 a1 b0 b1 ≤ 1
          ∧ 0 ≤ liV a0 a1 b0 b1 ∧ liV a0 a1 b0 b1 ≤ 1
      then some (liU a0 a1 b0 b1, liV a0 a1 b0 b1) else none := by
  unfold linesInter
  show (if Pt.cross (a1 - a0) (b1 - b0) ≠ 0 then
      if liU a0 a1 b0 b1 < 0 ∨ 1 < liU a0 a1 b0 b1 then none
      else if liV a0 a1 b0 b1 < 0 ∨ 1 < liV a0 a1 b0 b1 then none
      else some (liU a0 a1 b0 b1, liV a0 a1 b0 b1)
    else none) = _
  generalize liU a0 a1 b0 b1 = u
  generalize liV a0 a1 b0 b1 = v
  generalize Pt.cross (a1 - a0) (b1 - b0) = D
  split_ifs <;> grind

/-- with a nonzero determinant the computed parameters give a common point of the two lines -/
theorem li_point (a0 a1 b0 b1 : Pt) (hD : Pt.cross (a1 - a0) (b1 - b0) ≠ 0) :
    lerp a0 a1 (liU a0 a1 b0 b1) = lerp b0 b1 (liV a0 a1 b0 b1) := by
  unfold liU liV lerp
  simp only [Pt.cross, Pt.sub_x, Pt.sub_y, Pt.mk.injEq] at hD ⊢
  constructor
  · apply div_affine_aux _ _ _ _ _ _ _ hD; ring
  · apply div_affine_aux _ _ _ _ _ _ _ hD; ring

/-- … and they are the only such parameters -/
theorem li_unique (a0 a1 b0 b1 : Pt) (u v : Rat) (hD : Pt.cross (a1 - a0) (b1 - b0) ≠ 0)
    (h : lerp a0 a1 u = lerp b0 b1 v) : liU a0 a1 b0 b1 = u ∧ liV a0 a1 b0 b1 = v := by
  unfold liU liV
  simp only [lerp, Pt.mk.injEq] at h
  obtain ⟨hx, hy⟩ := h
  constructor
  · rw [div_eq_iff hD]
    simp only [Pt.cross, Pt.sub_x, Pt.sub_y]
    linear_combination -(b1.y - b0.y) * hx + (b1.x - b0.x) * hy
  · rw [div_eq_iff hD]
    simp only [Pt.cross, Pt.sub_x, Pt.sub_y]
    linear_combination -(a1.y - a0.y) * hx + (a1.x - a0.x) * hy

theorem liU_swap (a0 a1 b0 b1 : Pt) : liU b0 b1 a0 a1 = liV a0 a1 b0 b1 := by
  unfold liU liV
  have h1 : Pt.cross (a0 - b0) (a1 - a0) = -Pt.cross (b0 - a0) (a1 - a0) := by
    simp [Pt.cross]; ring
  have h2 : Pt.cross (b1 - b0) (a1 - a0) = -Pt.cross (a1 - a0) (b1 - b0) := by
    simp [Pt.cross]; ring
  rw [h1, h2, neg_div_neg_eq]

theorem liV_swap (a0 a1 b0 b1 : Pt) : liV b0 b1 a0 a1 = liU a0 a1 b0 b1 := by
  unfold liU liV
  have h1 : Pt.cross (a0 - b0) (b1 - b0) = -Pt.cross (b0 - a0) (b1 - b0) := by
    simp [Pt.cross]; ring
  have h2 : Pt.cross (b1 - b0) (a1 - a0) = -Pt.cross (a1 - a0) (b1 - b0) := by
    simp [Pt.cross]; ring
  rw [h1, h2, neg_div_neg_eq]

theorem cross_swap_ne (a0 a1 b0 b1 : Pt) :
    Pt.cross (b1 - b0) (a1 - a0) ≠ 0 ↔ Pt.cross (a1 - a0) (b1 - b0) ≠ 0 := by
  have h2 : Pt.cross (b1 - b0) (a1 - a0) = -Pt.cross (a1 - a0) (b1 - b0) := by
    simp [Pt.cross]; ring
  rw [h2]; simp

/-! ### the crossing list of two curves -/

/-- the entry produced for a pair of segments -/
def crossingOf (i k : Nat) (s t : Seg) : Option Crossing :=
  match segAnd s t with
  | .nothing => none
  | .equal => some ⟨i, k, none⟩
  | .at u v => some ⟨i, k, some (u, v)⟩

/-- exact description of the raw crossing list: one entry per pair of segments that `&` reports -/
theorem mem_jordanInterRaw (A B : Jordan) (c : Crossing) :
    c ∈ jordanInterRaw A B ↔
      ∃ s t, A[c.a]? = some s ∧ B[c.b]? = some t ∧ crossingOf c.a c.b s t = some c := by
  unfold jordanInterRaw
  simp only [List.mem_flatMap, List.mem_filterMap, Prod.exists, List.mem_zipIdx_iff_getElem?]
  constructor
  · rintro ⟨s, i, hs, t, k, ht, h⟩
    have hc : c.a = i ∧ c.b = k := by
      cases hseg : segAnd s t <;> rw [hseg] at h <;> simp at h <;> subst h <;> simp
    obtain ⟨rfl, rfl⟩ := hc
    exact ⟨s, t, hs, ht, h⟩
  · rintro ⟨s, t, hs, ht, h⟩
    exact ⟨s, c.a, hs, t, c.b, ht, h⟩


/-! ### exact integrals of one straight segment -/
macro "ev_unfold" : tactic => `(tactic|
  simp [exactVertical, coordPoly, Seg.xs, Seg.ys, canonCoefs, canonCoef, caractEntry, comb, pint01, pmul, ppow,
    pderiv, padd, pscale, pmulX, List.range_succ, List.zipIdx_cons])

theorem ev_line_10 (p q : Pt) : exactVertical [p, q] 1 0 = (p.x + q.x) * (q.y - p.y) / 2 := by
  ev_unfold; ring
theorem ev_line_00 (p q : Pt) : exactVertical [p, q] 0 0 = q.y - p.y := by
  ev_unfold; ring

/-! ### edges under translation and positive axis scaling -/
def mapE (f : Pt → Pt) (e : Edge) : Edge := ⟨f e.p, f e.q⟩

/-- contribution of one edge to the crossing number -/
def contrib (e : Edge) (r : Pt) : Int := if e.below r then e.dir else 0

theorem wind_eq (es : List Edge) (r : Pt) : wind es r = (es.map fun e => contrib e r).sum := rfl

theorem below_iff (e : Edge) (r : Pt) :
    e.below r = true ↔ e.lo ≤ r.x ∧ r.x < e.hi ∧ e.level r.x < r.y := by
  simp [Edge.below, Edge.inRange, and_assoc]

theorem lo_move (e : Edge) (d : Pt) : (mapE (·.move d) e).lo = e.lo + d.x := by
  simp only [Edge.lo, mapE, Pt.move, add_le_add_iff_right]; split_ifs <;> rfl
theorem hi_move (e : Edge) (d : Pt) : (mapE (·.move d) e).hi = e.hi + d.x := by
  simp only [Edge.hi, mapE, Pt.move, add_le_add_iff_right]; split_ifs <;> rfl
theorem slope_move (e : Edge) (d : Pt) : (mapE (·.move d) e).slope = e.slope := by
  simp [Edge.slope, mapE, Pt.move]
theorem level_move (e : Edge) (d : Pt) (x : Rat) :
    (mapE (·.move d) e).level (x + d.x) = e.level x + d.y := by
  unfold Edge.level Edge.icept; rw [slope_move]; simp [mapE, Pt.move]; ring
theorem dir_move (e : Edge) (d : Pt) : (mapE (·.move d) e).dir = e.dir := by
  simp [Edge.dir, mapE, Pt.move]

theorem below_move (e : Edge) (d r : Pt) : (mapE (·.move d) e).below (r.move d) = e.below r := by
  rw [Bool.eq_iff_iff, below_iff, below_iff, lo_move, hi_move]
  have : (r.move d).x = r.x + d.x := rfl
  rw [this, level_move]
  simp [Pt.move]

theorem contrib_move (e : Edge) (d r : Pt) : contrib (mapE (·.move d) e) (r.move d) = contrib e r := by
  unfold contrib; rw [below_move, dir_move]


theorem mul_le_mul_pos_iff {a b k : Rat} (hk : 0 < k) : a * k ≤ b * k ↔ a ≤ b :=
  ⟨fun h => le_of_mul_le_mul_right h hk, fun h => mul_le_mul_of_nonneg_right h (le_of_lt hk)⟩
theorem mul_lt_mul_pos_iff {a b k : Rat} (hk : 0 < k) : a * k < b * k ↔ a < b :=
  ⟨fun h => lt_of_mul_lt_mul_right h (le_of_lt hk), fun h => mul_lt_mul_of_pos_right h hk⟩

theorem lo_scale (e : Edge) (sx sy : Rat) (hx : 0 < sx) : (mapE (·.scale sx sy) e).lo = e.lo * sx := by
  simp only [Edge.lo, mapE, Pt.scale, mul_le_mul_pos_iff hx]; split_ifs <;> rfl
theorem hi_scale (e : Edge) (sx sy : Rat) (hx : 0 < sx) : (mapE (·.scale sx sy) e).hi = e.hi * sx := by
  simp only [Edge.hi, mapE, Pt.scale, mul_le_mul_pos_iff hx]; split_ifs <;> rfl
theorem slope_scale (e : Edge) (sx sy : Rat) : (mapE (·.scale sx sy) e).slope = sy / sx * e.slope := by
  simp only [Edge.slope, mapE, Pt.scale]
  rw [← sub_mul, ← sub_mul, div_mul_div_comm, mul_comm sy, mul_comm sx]
theorem level_scale (e : Edge) (sx sy : Rat) (hx : sx ≠ 0) (x : Rat) :
    (mapE (·.scale sx sy) e).level (x * sx) = e.level x * sy := by
  unfold Edge.level Edge.icept; rw [slope_scale]; simp only [mapE, Pt.scale]
  field_simp
theorem dir_scale (e : Edge) (sx sy : Rat) (hx : 0 < sx) : (mapE (·.scale sx sy) e).dir = e.dir := by
  simp [Edge.dir, mapE, Pt.scale, mul_lt_mul_pos_iff hx]

theorem below_scale (e : Edge) (sx sy : Rat) (hx : 0 < sx) (hy : 0 < sy) (r : Pt) :
    (mapE (·.scale sx sy) e).below (r.scale sx sy) = e.below r := by
  rw [Bool.eq_iff_iff, below_iff, below_iff, lo_scale _ _ _ hx, hi_scale _ _ _ hx]
  have h1 : (r.scale sx sy).x = r.x * sx := rfl
  have h2 : (r.scale sx sy).y = r.y * sy := rfl
  rw [h1, h2, level_scale _ _ _ (ne_of_gt hx), mul_le_mul_pos_iff hx, mul_lt_mul_pos_iff hx, mul_lt_mul_pos_iff hy]

theorem contrib_scale (e : Edge) (sx sy : Rat) (hx : 0 < sx) (hy : 0 < sy) (r : Pt) :
    contrib (mapE (·.scale sx sy) e) (r.scale sx sy) = contrib e r := by
  unfold contrib; rw [below_scale _ _ _ hx hy, dir_scale _ _ _ hx]

/-- a map that preserves every edge contribution preserves the crossing number -/
theorem wind_map (f : Pt → Pt) (es : List Edge) (r : Pt)
    (h : ∀ e, contrib (mapE f e) (f r) = contrib e r) : wind (es.map (mapE f)) (f r) = wind es r := by
  simp [wind_eq, List.map_map, Function.comp_def, h]

theorem chord_map (f : Pt → Pt) (s : Seg) (hs : s ≠ []) : Seg.chord (s.map f) = mapE f (Seg.chord s) := by
  cases s with
  | nil => exact absurd rfl hs
  | cons a t =>
    simp only [Seg.chord, mapE, List.map_cons, List.headD_cons, Edge.mk.injEq, true_and]
    rw [← List.map_cons, List.getLastD_eq_getLast?, List.getLastD_eq_getLast?, List.getLast?_map]
    cases h : (a :: t).getLast? with
    | none => simp at h
    | some v => simp

theorem edges_map (f : Pt → Pt) (j : Jordan) (hj : ∀ s ∈ j, s ≠ []) :
    (Jordan.map f j).edges = j.edges.map (mapE f) := by
  simp only [Jordan.edges, Jordan.map, List.map_map]
  apply List.map_congr_left
  intro s hs
  exact chord_map f s (hj s hs)

theorem polygon_nonempty (j : Jordan) (hj : j.isPolygon = true) : ∀ s ∈ j, s ≠ [] := by
  intro s hs h
  have := (List.all_eq_true.mp hj) s hs
  subst h; simp at this


/-! ### areas of polygons -/

/-- a polygon is a list of two-point segments: induction principle -/
theorem polygon_cons {s : Seg} {j : Jordan} (h : Jordan.isPolygon (s :: j) = true) :
    (∃ p q, s = [p, q]) ∧ Jordan.isPolygon j = true := by
  simp only [Jordan.isPolygon, List.all_cons, Bool.and_eq_true, beq_iff_eq] at h
  refine ⟨?_, h.2⟩
  match s, h.1 with
  | [p, q], _ => exact ⟨p, q, rfl⟩

/-- the sum over the segments of `G end − G start`: the integral of the exact differential `dG` -/
def bdry (G : Pt → Rat) (j : Jordan) : Rat :=
  (List.map (fun s : Seg => G (s.getLastD Pt.zero) - G (s.headD Pt.zero)) j).sum

/-- a point map that multiplies the `∫ x dy` of every straight segment by `k` up to an exact
differential `G q − G p` does the same to a polygon -/
theorem jev_map_poly (f : Pt → Pt) (k : Rat) (G : Pt → Rat)
    (hseg : ∀ p q, exactVertical [f p, f q] 1 0 = k * exactVertical [p, q] 1 0 + (G q - G p)) :
    ∀ (j : Jordan), j.isPolygon = true →
      jordanExactVertical (Jordan.map f j) 1 0
        = k * jordanExactVertical j 1 0 + bdry G j
  | [], _ => by simp [jordanExactVertical, Jordan.map, bdry]
  | s :: j, h => by
    obtain ⟨⟨p, q, rfl⟩, hj⟩ := polygon_cons h
    have ih := jev_map_poly f k G hseg j hj
    simp only [jordanExactVertical, Jordan.map, List.map_cons, List.map_nil, List.sum_cons, bdry] at ih ⊢
    rw [ih, hseg]
    simp
    ring

theorem area_scale_poly (j : Jordan) (hj : j.isPolygon = true) (sx sy : Rat) :
    Jordan.area (Jordan.map (·.scale sx sy) j) = sx * sy * Jordan.area j := by
  have := jev_map_poly (·.scale sx sy) (sx * sy) (fun _ => 0)
    (by intro p q; rw [ev_line_10, ev_line_10]; simp [Pt.scale]; ring) j hj
  simpa [Jordan.area, bdry] using this

/-- `∮ dy` written with the model's integrator -/
theorem bdry_y_poly (c : Rat) : ∀ (j : Jordan), j.isPolygon = true →
    bdry (fun v => c * v.y) j = c * jordanExactVertical j 0 0
  | [], _ => by simp [jordanExactVertical, bdry]
  | s :: j, h => by
    obtain ⟨⟨p, q, rfl⟩, hj⟩ := polygon_cons h
    have ih := bdry_y_poly c j hj
    simp only [jordanExactVertical, List.map_cons, List.sum_cons, bdry] at ih ⊢
    rw [ih, ev_line_00]; simp; ring

/-- translation: the area changes by `d.x · ∮ dy`, which vanishes for a closed curve -/
theorem area_move_poly (j : Jordan) (hj : j.isPolygon = true) (d : Pt) :
    Jordan.area (Jordan.map (·.move d) j) = Jordan.area j + d.x * jordanExactVertical j 0 0 := by
  have h := jev_map_poly (·.move d) 1 (fun v => d.x * v.y)
    (by intro p q; rw [ev_line_10, ev_line_10]; simp [Pt.move]; ring) j hj
  simp only [Jordan.area]
  rw [h, bdry_y_poly d.x j hj]; ring


/-! ### closed polygons given by their vertices -/

theorem fromVertices_cons (v0 : Pt) (t : List Pt) :
    Jordan.fromVertices (v0 :: t) = ((v0 :: t).zip (t ++ [v0])).map fun ab => [ab.1, ab.2] := rfl

theorem segsOfPairs_polygon (L : List (Pt × Pt)) :
    Jordan.isPolygon (L.map fun ab => [ab.1, ab.2]) = true := by
  simp [Jordan.isPolygon]

theorem fromVertices_polygon (vs : List Pt) : (Jordan.fromVertices vs).isPolygon = true := by
  cases vs with
  | nil => rfl
  | cons v0 t => rw [fromVertices_cons]; exact segsOfPairs_polygon _

theorem fromVertices_map (f : Pt → Pt) (vs : List Pt) :
    Jordan.map f (Jordan.fromVertices vs) = Jordan.fromVertices (vs.map f) := by
  cases vs with
  | nil => rfl
  | cons v0 t =>
    rw [List.map_cons, fromVertices_cons, fromVertices_cons, Jordan.map, ← List.map_cons,
      show List.map f t ++ [f v0] = List.map f (t ++ [v0]) by simp, List.zip_map, List.map_map, List.map_map]
    rfl

/-- telescoping along an open chain of vertices -/
theorem bdry_chain (G : Pt → Rat) : ∀ (l : List Pt) (x z : Pt),
    bdry G (((x :: l).zip (l ++ [z])).map fun ab => [ab.1, ab.2]) = G z - G x
  | [], x, z => by simp [bdry]
  | y :: l, x, z => by
    have ih := bdry_chain G l y z
    simp only [bdry, List.cons_append, List.zip_cons_cons, List.map_cons, List.sum_cons] at ih ⊢
    rw [ih]; simp

/-- the integral of an exact differential over a closed polygon vanishes -/
theorem bdry_fromVertices (G : Pt → Rat) (vs : List Pt) : bdry G (Jordan.fromVertices vs) = 0 := by
  cases vs with
  | nil => rfl
  | cons v0 t => rw [fromVertices_cons, bdry_chain]; ring

theorem closed_dy_fromVertices (vs : List Pt) : jordanExactVertical (Jordan.fromVertices vs) 0 0 = 0 := by
  have h := bdry_y_poly 1 _ (fromVertices_polygon vs)
  rw [bdry_fromVertices] at h; linarith

theorem ev_line_rot (p q : Pt) (c s : Rat) :
    exactVertical [p.rot c s, q.rot c s] 1 0 = (c * c + s * s) * exactVertical [p, q] 1 0
      + ((fun v : Pt => c * s / 2 * (v.x * v.x - v.y * v.y) - s * s * (v.x * v.y)) q
         - (fun v : Pt => c * s / 2 * (v.x * v.x - v.y * v.y) - s * s * (v.x * v.y)) p) := by
  rw [ev_line_10, ev_line_10]; simp [Pt.rot]; ring

theorem area_rot_fromVertices (vs : List Pt) (c s : Rat) :
    Jordan.area (Jordan.fromVertices (vs.map (·.rot c s)))
      = (c * c + s * s) * Jordan.area (Jordan.fromVertices vs) := by
  rw [← fromVertices_map]
  have h := jev_map_poly (·.rot c s) (c * c + s * s) _ (fun p q => ev_line_rot p q c s) _
    (fromVertices_polygon vs)
  rw [bdry_fromVertices] at h
  simpa [Jordan.area] using h


/-! ### inserting a vertex on an edge -/
theorem contrib_eq (e : Edge) (r : Pt) :
    contrib e r = if e.lo ≤ r.x ∧ r.x < e.hi ∧ e.level r.x < r.y then e.dir else 0 := by
  unfold contrib
  by_cases h : e.lo ≤ r.x ∧ r.x < e.hi ∧ e.level r.x < r.y
  · rw [if_pos h, if_pos ((below_iff e r).mpr h)]
  · rw [if_neg h, if_neg (fun hb => h ((below_iff e r).mp hb))]

theorem slope_sub1 (p q : Pt) (t : Rat) (ht : t ≠ 0) : (⟨p, lerp p q t⟩ : Edge).slope = (⟨p, q⟩ : Edge).slope := by
  simp only [Edge.slope, lerp]
  rw [show p.y + t * (q.y - p.y) - p.y = t * (q.y - p.y) by ring,
    show p.x + t * (q.x - p.x) - p.x = t * (q.x - p.x) by ring, mul_div_mul_left _ _ ht]

theorem slope_sub2 (p q : Pt) (t : Rat) (ht : 1 - t ≠ 0) : (⟨lerp p q t, q⟩ : Edge).slope = (⟨p, q⟩ : Edge).slope := by
  simp only [Edge.slope, lerp]
  rw [show q.y - (p.y + t * (q.y - p.y)) = (1 - t) * (q.y - p.y) by ring,
    show q.x - (p.x + t * (q.x - p.x)) = (1 - t) * (q.x - p.x) by ring, mul_div_mul_left _ _ ht]

theorem level_sub1 (p q : Pt) (t x : Rat) (ht : t ≠ 0) :
    (⟨p, lerp p q t⟩ : Edge).level x = (⟨p, q⟩ : Edge).level x := by
  unfold Edge.level Edge.icept; rw [slope_sub1 p q t ht]

theorem level_sub2 (p q : Pt) (t x : Rat) (ht : 1 - t ≠ 0) (hpq : q.x - p.x ≠ 0) :
    (⟨lerp p q t, q⟩ : Edge).level x = (⟨p, q⟩ : Edge).level x := by
  unfold Edge.level Edge.icept; rw [slope_sub2 p q t ht]
  have h : (⟨p, q⟩ : Edge).slope * (q.x - p.x) = q.y - p.y := by
    simp only [Edge.slope]; exact div_mul_cancel₀ _ hpq
  simp only [lerp]
  linear_combination (-t) * h

/-- the two pieces of an edge cut at an interior point contribute together what the edge contributes -/
theorem contrib_split (p q r : Pt) (t : Rat) (h0 : 0 < t) (h1 : t < 1) :
    contrib ⟨p, lerp p q t⟩ r + contrib ⟨lerp p q t, q⟩ r = contrib ⟨p, q⟩ r := by
  rw [contrib_eq, contrib_eq, contrib_eq]
  rcases lt_trichotomy p.x q.x with hlt | heq | hgt
  · have hm1 : p.x < (lerp p q t).x := by simp only [lerp]; nlinarith
    have hm2 : (lerp p q t).x < q.x := by simp only [lerp]; nlinarith
    rw [level_sub1 p q t _ (ne_of_gt h0), level_sub2 p q t _ (by linarith) (by linarith)]
    generalize (⟨p, q⟩ : Edge).level r.x = L
    simp only [Edge.lo, Edge.hi, Edge.dir]
    generalize (lerp p q t).x = mx at hm1 hm2 ⊢
    split_ifs <;> grind
  · have hm : (lerp p q t).x = p.x := by simp only [lerp]; rw [heq]; ring
    generalize (⟨p, lerp p q t⟩ : Edge).level r.x = L1
    generalize (⟨lerp p q t, q⟩ : Edge).level r.x = L2
    generalize (⟨p, q⟩ : Edge).level r.x = L
    simp only [Edge.lo, Edge.hi, Edge.dir]
    rw [hm, heq]
    split_ifs <;> grind
  · have hm1 : (lerp p q t).x < p.x := by simp only [lerp]; nlinarith
    have hm2 : q.x < (lerp p q t).x := by simp only [lerp]; nlinarith
    rw [level_sub1 p q t _ (ne_of_gt h0), level_sub2 p q t _ (by linarith) (by linarith)]
    generalize (⟨p, q⟩ : Edge).level r.x = L
    simp only [Edge.lo, Edge.hi, Edge.dir]
    generalize (lerp p q t).x = mx at hm1 hm2 ⊢
    split_ifs <;> grind

/-- also at the ends `t = 0`, `t = 1` (a degenerate piece contributes nothing) -/
theorem contrib_degenerate (p r : Pt) : contrib ⟨p, p⟩ r = 0 := by
  rw [contrib_eq]; simp only [Edge.lo, Edge.hi, le_refl, if_true]
  rw [if_neg]; intro h; linarith [h.1, h.2.1]

theorem lerp_zero (a b : Pt) : lerp a b 0 = a := by simp [lerp]
theorem lerp_one (a b : Pt) : lerp a b 1 = b := by simp [lerp]

theorem contrib_split_closed (p q r : Pt) (t : Rat) (h0 : 0 ≤ t) (h1 : t ≤ 1) :
    contrib ⟨p, lerp p q t⟩ r + contrib ⟨lerp p q t, q⟩ r = contrib ⟨p, q⟩ r := by
  rcases eq_or_lt_of_le h0 with rfl | h0'
  · rw [lerp_zero, contrib_degenerate]; simp
  rcases eq_or_lt_of_le h1 with rfl | h1'
  · rw [lerp_one, contrib_degenerate]; simp
  exact contrib_split p q r t h0' h1'

/-- the crossing number of an edge list does not change when a vertex is inserted on an edge -/
theorem wind_insert (l1 l2 : List Edge) (p q r : Pt) (t : Rat) (h0 : 0 ≤ t) (h1 : t ≤ 1) :
    wind (l1 ++ [⟨p, lerp p q t⟩, ⟨lerp p q t, q⟩] ++ l2) r = wind (l1 ++ [⟨p, q⟩] ++ l2) r := by
  simp only [wind_eq, List.map_append, List.sum_append, List.map_cons, List.map_nil, List.sum_cons, List.sum_nil]
  rw [← contrib_split_closed p q r t h0 h1]; ring

/-! ### the split of a straight segment at one parameter -/
theorem splitAt_line (p q : Pt) (t : Rat) : splitAt [p, q] t = ([p, lerp p q t], [lerp p q t, q]) := by
  simp [splitAt, dcLevels, dcStep]

theorem splitSeg_line (p q : Pt) (t : Rat) : splitSeg [p, q] [t] = [[p, lerp p q t], [lerp p q t, q]] := by
  simp [splitSeg, sortRat, insertSorted, dedupNodes, splitMany, splitAt_line, cleanSeg]


/-! ### integrals over a cut straight segment -/
theorem ev_split_10 (p q : Pt) (t : Rat) :
    exactVertical [p, lerp p q t] 1 0 + exactVertical [lerp p q t, q] 1 0 = exactVertical [p, q] 1 0 := by
  ev_unfold; simp [lerp]; ring
theorem ev_split_20 (p q : Pt) (t : Rat) :
    exactVertical [p, lerp p q t] 2 0 + exactVertical [lerp p q t, q] 2 0 = exactVertical [p, q] 2 0 := by
  ev_unfold; simp [lerp]; ring
theorem ev_split_11 (p q : Pt) (t : Rat) :
    exactVertical [p, lerp p q t] 1 1 + exactVertical [lerp p q t, q] 1 1 = exactVertical [p, q] 1 1 := by
  ev_unfold; simp [lerp]; ring
theorem ev_split_30 (p q : Pt) (t : Rat) :
    exactVertical [p, lerp p q t] 3 0 + exactVertical [lerp p q t, q] 3 0 = exactVertical [p, q] 3 0 := by
  ev_unfold; simp [lerp]; ring
theorem ev_split_21 (p q : Pt) (t : Rat) :
    exactVertical [p, lerp p q t] 2 1 + exactVertical [lerp p q t, q] 2 1 = exactVertical [p, q] 2 1 := by
  ev_unfold; simp [lerp]; ring
theorem ev_split_12 (p q : Pt) (t : Rat) :
    exactVertical [p, lerp p q t] 1 2 + exactVertical [lerp p q t, q] 1 2 = exactVertical [p, q] 1 2 := by
  ev_unfold; simp [lerp]; ring
theorem ev_split_00 (p q : Pt) (t : Rat) :
    exactVertical [p, lerp p q t] 0 0 + exactVertical [lerp p q t, q] 0 0 = exactVertical [p, q] 0 0 := by
  rw [ev_line_00, ev_line_00, ev_line_00]; ring

/-- every relative cut parameter `(n − prev)/(1 − prev)` used by `splitMany` satisfies `P` -/
def relOK (P : Rat → Prop) : Rat → List Rat → Prop
  | _, [] => True
  | prev, n :: rest => P ((n - prev) / (1 - prev)) ∧ relOK P n rest

/-- `segment.split(nodes)` of a straight segment: an additive quantity of straight segments that is
unchanged by one cut is unchanged by the whole split -/
theorem splitMany_line_sum {α : Type} [AddCommMonoid α] (F : Seg → α) (P : Rat → Prop)
    (hF : ∀ p q t, P t → F [p, lerp p q t] + F [lerp p q t, q] = F [p, q]) :
    ∀ (nodes : List Rat) (prev : Rat) (p q : Pt), relOK P prev nodes →
      ((splitMany [p, q] prev nodes).map F).sum = F [p, q]
  | [], prev, p, q, _ => by simp [splitMany]
  | n :: rest, prev, p, q, h => by
    simp only [splitMany, splitAt_line, List.map_cons, List.sum_cons]
    rw [splitMany_line_sum F P hF rest n _ q h.2]
    exact hF p q _ h.1

/-- every piece of a split straight segment is a straight segment -/
theorem splitMany_line_lengths : ∀ (nodes : List Rat) (prev : Rat) (p q : Pt),
    ∀ s ∈ splitMany [p, q] prev nodes, s.length = 2
  | [], _, p, q => by simp [splitMany]
  | n :: rest, prev, p, q => by
    intro s hs
    simp only [splitMany, splitAt_line, List.mem_cons] at hs
    rcases hs with rfl | hs
    · rfl
    · exact splitMany_line_lengths rest n _ q s hs

/-- sorted nodes in `[prev, 1]` -/
def nodesOK : Rat → List Rat → Prop
  | _, [] => True
  | prev, n :: rest => prev ≤ n ∧ n ≤ 1 ∧ nodesOK n rest

theorem rel_range {prev n : Rat} (h1 : prev ≤ n) (h2 : n ≤ 1) :
    0 ≤ (n - prev) / (1 - prev) ∧ (n - prev) / (1 - prev) ≤ 1 := by
  rcases eq_or_lt_of_le (le_trans h1 h2) with h | h
  · subst h; simp
  · have hp : 0 < 1 - prev := by linarith
    exact ⟨div_nonneg (by linarith) (le_of_lt hp), by rw [div_le_one hp]; linarith⟩

theorem nodesOK_rel : ∀ (nodes : List Rat) (prev : Rat), nodesOK prev nodes →
    relOK (fun t => 0 ≤ t ∧ t ≤ 1) prev nodes
  | [], _, _ => trivial
  | n :: rest, _, h => ⟨rel_range h.1 h.2.1, nodesOK_rel rest n h.2.2⟩


theorem dedupNodes_sublist (l : List Rat) : (dedupNodes l).Sublist l := by
  induction l using dedupNodes.induct with
  | case1 a b t h ih =>
    rw [dedupNodes, if_pos h]
    exact ih.trans (List.Sublist.cons_cons a (List.sublist_cons_self b t))
  | case2 a b t h ih =>
    rw [dedupNodes, if_neg h]
    exact List.Sublist.cons_cons a ih
  | case3 l hl =>
    rw [dedupNodes]; exact hl

theorem dedupNodes_head (a : Rat) (t : List Rat) : ∃ t', dedupNodes (a :: t) = a :: t' := by
  generalize hl : a :: t = l
  induction l using dedupNodes.induct generalizing a t with
  | case1 a' b t' h ih =>
    obtain ⟨rfl, rfl⟩ := List.cons.inj hl
    rw [dedupNodes, if_pos h]; exact ih a t' rfl
  | case2 a' b t' h ih =>
    obtain ⟨rfl, rfl⟩ := List.cons.inj hl
    rw [dedupNodes, if_neg h]; exact ⟨_, rfl⟩
  | case3 l hl' =>
    subst hl
    rw [dedupNodes]
    · exact ⟨_, rfl⟩
    · exact hl'

/-- consecutive elements are at least `1e-6` apart -/
def Spaced : List Rat → Prop
  | a :: b :: t => tol6 ≤ absR (b - a) ∧ Spaced (b :: t)
  | _ => True

/-- after `dedupNodes`, consecutive parameters are at least `1e-6` apart -/
theorem dedupNodes_spaced (l : List Rat) : Spaced (dedupNodes l) := by
  induction l using dedupNodes.induct with
  | case1 a b t h ih => rw [dedupNodes, if_pos h]; exact ih
  | case2 a b t h ih =>
    rw [dedupNodes, if_neg h]
    obtain ⟨t', ht'⟩ := dedupNodes_head b t
    rw [ht'] at ih ⊢
    exact ⟨not_lt.mp h, ih⟩
  | case3 l hl =>
    rw [dedupNodes]
    · match l, hl with
      | [], _ => trivial
      | [_], _ => trivial
      | a :: b :: t, hl => exact absurd rfl (hl a b t)
    · exact hl

theorem insertSorted_mem (x : Rat) (l : List Rat) (y : Rat) : y ∈ insertSorted x l ↔ y = x ∨ y ∈ l := by
  induction l with
  | nil => simp [insertSorted]
  | cons a t ih =>
    simp only [insertSorted]; split_ifs
    · simp
    · simp [ih]; tauto

theorem insertSorted_sorted (x : Rat) (l : List Rat) (h : l.Pairwise (· ≤ ·)) :
    (insertSorted x l).Pairwise (· ≤ ·) := by
  induction l with
  | nil => simp [insertSorted]
  | cons a t ih =>
    simp only [insertSorted]; split_ifs with hx
    · rw [List.pairwise_cons] at h ⊢
      refine ⟨?_, List.pairwise_cons.mpr h⟩
      intro y hy
      rcases List.mem_cons.mp hy with rfl | hy
      · exact hx
      · exact le_trans hx (h.1 y hy)
    · rw [List.pairwise_cons] at h ⊢
      refine ⟨?_, ih h.2⟩
      intro y hy
      rcases (insertSorted_mem x t y).mp hy with rfl | hy
      · exact le_of_lt (not_le.mp hx)
      · exact h.1 y hy

theorem sortRat_mem (l : List Rat) (y : Rat) : y ∈ sortRat l ↔ y ∈ l := by
  induction l with
  | nil => simp [sortRat]
  | cons a t ih =>
    have : sortRat (a :: t) = insertSorted a (sortRat t) := rfl
    rw [this, insertSorted_mem, ih]; simp

theorem sortRat_sorted (l : List Rat) : (sortRat l).Pairwise (· ≤ ·) := by
  induction l with
  | nil => simp [sortRat]
  | cons a t ih =>
    have : sortRat (a :: t) = insertSorted a (sortRat t) := rfl
    rw [this]; exact insertSorted_sorted a _ ih


theorem nodesOK_of_sorted : ∀ (l : List Rat) (prev : Rat),
    (prev :: l).Pairwise (· ≤ ·) → (∀ n ∈ l, n ≤ 1) → nodesOK prev l
  | [], _, _, _ => trivial
  | n :: rest, prev, hs, hb => by
    rw [List.pairwise_cons] at hs
    exact ⟨hs.1 n (by simp), hb n (by simp),
      nodesOK_of_sorted rest n hs.2 (fun m hm => hb m (List.mem_cons_of_mem _ hm))⟩

theorem nodesOK_dedup_sort (nodes : List Rat) (h : ∀ n ∈ nodes, 0 ≤ n ∧ n ≤ 1) :
    nodesOK 0 (dedupNodes (sortRat nodes)) := by
  have hsub := dedupNodes_sublist (sortRat nodes)
  have hmem : ∀ n ∈ dedupNodes (sortRat nodes), 0 ≤ n ∧ n ≤ 1 :=
    fun n hn => h n ((sortRat_mem nodes n).mp (hsub.subset hn))
  apply nodesOK_of_sorted
  · rw [List.pairwise_cons]
    exact ⟨fun n hn => (hmem n hn).1, (sortRat_sorted nodes).sublist hsub⟩
  · exact fun n hn => (hmem n hn).2

theorem cleanSeg_line (s : Seg) (h : s.length = 2) : cleanSeg s = s := by
  unfold cleanSeg; rw [h]; rfl

theorem splitSeg_line_eq (p q : Pt) (nodes : List Rat) :
    splitSeg [p, q] nodes = splitMany [p, q] 0 (dedupNodes (sortRat nodes)) := by
  unfold splitSeg
  conv_rhs => rw [← List.map_id (splitMany [p, q] 0 (dedupNodes (sortRat nodes)))]
  apply List.map_congr_left
  intro s hs
  exact cleanSeg_line s (splitMany_line_lengths _ _ _ _ s hs)

/-- `split` of a straight segment, any number of nodes: an additive quantity unchanged by one cut
(for cut parameters satisfying `P`) is unchanged -/
theorem splitSeg_line_sum {α : Type} [AddCommMonoid α] (F : Seg → α) (P : Rat → Prop)
    (hF : ∀ p q t, P t → F [p, lerp p q t] + F [lerp p q t, q] = F [p, q])
    (p q : Pt) (nodes : List Rat) (h : relOK P 0 (dedupNodes (sortRat nodes))) :
    ((splitSeg [p, q] nodes).map F).sum = F [p, q] := by
  rw [splitSeg_line_eq]; exact splitMany_line_sum F P hF _ 0 p q h

theorem relOK_true : ∀ (l : List Rat) (prev : Rat), relOK (fun _ => True) prev l
  | [], _ => trivial
  | _ :: rest, _ => ⟨trivial, relOK_true rest _⟩


/-- the node list `JordanCurve.split` hands to segment `i` -/
def nodesFor (pairs : List (Nat × Rat)) (i : Nat) : List Rat :=
  ((pairs.filter fun (_, t) => keepNode t).filter fun (k, _) => k == i).map (·.2)

theorem nodesFor_mem (pairs : List (Nat × Rat)) (i : Nat) (t : Rat) (h : t ∈ nodesFor pairs i) :
    (i, t) ∈ pairs ∧ keepNode t = true := by
  simp only [nodesFor, List.mem_map, List.mem_filter] at h
  obtain ⟨⟨k, t'⟩, ⟨⟨hm, hk⟩, hi⟩, rfl⟩ := h
  simp only [beq_iff_eq] at hi
  subst hi
  exact ⟨hm, hk⟩

/-- `JordanCurve.split` of a polygon: an additive quantity of straight segments that no split of a
single segment changes is not changed by the split of the curve -/
theorem jordanSplit_sum_aux {α : Type} [AddCommMonoid α] (F : Seg → α) (pairs : List (Nat × Rat))
    (hF : ∀ p q i, ((splitSeg [p, q] (nodesFor pairs i)).map F).sum = F [p, q]) :
    ∀ (j : Jordan) (k : Nat), j.isPolygon = true →
      ((((j.zipIdx k).map fun (si : Seg × Nat) =>
          if (nodesFor pairs si.2).isEmpty then [si.1] else splitSeg si.1 (nodesFor pairs si.2)).flatten).map F).sum
        = (List.map F j).sum
  | [], _, _ => by simp
  | s :: j, k, h => by
    obtain ⟨⟨p, q, rfl⟩, hj⟩ := polygon_cons h
    have ih := jordanSplit_sum_aux F pairs hF j (k + 1) hj
    simp only [List.zipIdx_cons, List.map_cons, List.flatten_cons, List.map_append, List.sum_append,
      List.sum_cons] at ih ⊢
    rw [ih]
    congr 1
    split_ifs
    · simp
    · exact hF p q k

theorem jordanSplit_sum {α : Type} [AddCommMonoid α] (F : Seg → α) (pairs : List (Nat × Rat))
    (hF : ∀ p q i, ((splitSeg [p, q] (nodesFor pairs i)).map F).sum = F [p, q])
    (j : Jordan) (hj : j.isPolygon = true) :
    (List.map F (Jordan.split j pairs)).sum = (List.map F j).sum := by
  exact jordanSplit_sum_aux F pairs hF j 0 hj


/-! ### division-free form of the ray-crossing predicate -/
theorem level_mul (p q : Pt) (x : Rat) (h : q.x - p.x ≠ 0) :
    (⟨p, q⟩ : Edge).level x * (q.x - p.x) = p.y * (q.x - p.x) + (q.y - p.y) * (x - p.x) := by
  simp only [Edge.level, Edge.icept, Edge.slope]
  field_simp; ring

theorem level_lt_iff_pos (p q r : Pt) (hlt : p.x < q.x) :
    (⟨p, q⟩ : Edge).level r.x < r.y ↔ 0 < Pt.cross (q - p) (r - p) := by
  have hd : 0 < q.x - p.x := by linarith
  have hL := level_mul p q r.x (ne_of_gt hd)
  simp only [Pt.cross, Pt.sub_x, Pt.sub_y]
  rw [← mul_lt_mul_pos_iff hd, hL]; constructor <;> intro h <;> linarith

theorem level_lt_iff_neg (p q r : Pt) (hgt : q.x < p.x) :
    (⟨p, q⟩ : Edge).level r.x < r.y ↔ Pt.cross (q - p) (r - p) < 0 := by
  have hd : 0 < p.x - q.x := by linarith
  have hL := level_mul p q r.x (by intro h; linarith)
  simp only [Pt.cross, Pt.sub_x, Pt.sub_y]
  rw [← mul_lt_mul_pos_iff hd]; constructor <;> intro h <;> nlinarith

theorem contrib_cross (p q r : Pt) :
    contrib ⟨p, q⟩ r =
      if p.x < q.x then (if p.x ≤ r.x ∧ r.x < q.x ∧ 0 < Pt.cross (q - p) (r - p) then 1 else 0)
      else if q.x < p.x then (if q.x ≤ r.x ∧ r.x < p.x ∧ Pt.cross (q - p) (r - p) < 0 then -1 else 0)
      else 0 := by
  rw [contrib_eq]
  rcases lt_trichotomy p.x q.x with hlt | heq | hgt
  · simp only [Edge.lo, Edge.hi, Edge.dir, if_pos hlt, if_pos (le_of_lt hlt), level_lt_iff_pos p q r hlt]
  · have h1 : ¬ p.x < q.x := by rw [heq]; exact lt_irrefl _
    have h2 : ¬ q.x < p.x := by rw [heq]; exact lt_irrefl _
    simp only [Edge.lo, Edge.hi, if_neg h1, if_neg h2, if_pos (le_of_eq heq)]
    rw [if_neg]; intro h; linarith [h.1, h.2.1]
  · have h1 : ¬ p.x < q.x := not_lt.mpr (le_of_lt hgt)
    have h2 : ¬ p.x ≤ q.x := not_le.mpr hgt
    simp only [Edge.lo, Edge.hi, Edge.dir, if_neg h1, if_neg h2, if_pos hgt, level_lt_iff_neg p q r hgt]


/-! ### primitives -/
theorem wind_fromVertices4 (a b c d r : Pt) :
    wind (Jordan.fromVertices [a, b, c, d]).edges r
      = contrib ⟨a, b⟩ r + contrib ⟨b, c⟩ r + contrib ⟨c, d⟩ r + contrib ⟨d, a⟩ r := by
  simp [wind_eq, Jordan.fromVertices, Jordan.edges, Seg.chord]; ring
theorem wind_fromVertices3 (a b c r : Pt) :
    wind (Jordan.fromVertices [a, b, c]).edges r
      = contrib ⟨a, b⟩ r + contrib ⟨b, c⟩ r + contrib ⟨c, a⟩ r := by
  simp [wind_eq, Jordan.fromVertices, Jordan.edges, Seg.chord]; ring
theorem area_fromVertices4 (a b c d : Pt) :
    Jordan.area (Jordan.fromVertices [a, b, c, d])
      = ((a.x + b.x) * (b.y - a.y) + (b.x + c.x) * (c.y - b.y) + (c.x + d.x) * (d.y - c.y)
          + (d.x + a.x) * (a.y - d.y)) / 2 := by
  simp [Jordan.area, jordanExactVertical, Jordan.fromVertices, ev_line_10]; ring
theorem area_fromVertices3 (a b c : Pt) :
    Jordan.area (Jordan.fromVertices [a, b, c])
      = ((a.x + b.x) * (b.y - a.y) + (b.x + c.x) * (c.y - b.y) + (c.x + a.x) * (a.y - c.y)) / 2 := by
  simp [Jordan.area, jordanExactVertical, Jordan.fromVertices, ev_line_10]; ring

theorem square_area (s : Rat) (c : Pt) : Jordan.area (Jordan.fromVertices (Primitive.square s c)) = s * s := by
  simp only [Primitive.square, area_fromVertices4, Pt.add_x, Pt.add_y]; ring
theorem triangle_area (s : Rat) (c : Pt) :
    Jordan.area (Jordan.fromVertices (Primitive.triangle s c)) = s * s / 2 := by
  simp only [Primitive.triangle, area_fromVertices3, Pt.add_x, Pt.add_y]; ring
theorem regular4_area (r : Rat) (c : Pt) :
    Jordan.area (Jordan.fromVertices (Primitive.regular4 r c)) = 2 * r * r := by
  simp only [Primitive.regular4, area_fromVertices4, Pt.add_x, Pt.add_y]; ring

theorem contrib_up (p q r : Pt) (h : p.x < q.x) (h1 : p.x ≤ r.x) (h2 : r.x < q.x)
    (h3 : 0 < Pt.cross (q - p) (r - p)) : contrib ⟨p, q⟩ r = 1 := by
  rw [contrib_cross, if_pos h, if_pos ⟨h1, h2, h3⟩]
theorem contrib_down (p q r : Pt) (h : q.x < p.x) (h1 : q.x ≤ r.x) (h2 : r.x < p.x)
    (h3 : Pt.cross (q - p) (r - p) < 0) : contrib ⟨p, q⟩ r = -1 := by
  rw [contrib_cross, if_neg (not_lt.mpr (le_of_lt h)), if_pos h, if_pos ⟨h1, h2, h3⟩]
theorem contrib_vertical (p q r : Pt) (h : p.x = q.x) : contrib ⟨p, q⟩ r = 0 := by
  rw [contrib_cross, if_neg (by rw [h]; exact lt_irrefl _), if_neg (by rw [h]; exact lt_irrefl _)]
/-- the point is on the left of (or on) the directed line: edges travelled right-to-left pass above it,
edges travelled left-to-right would pass below it -/
theorem contrib_down_zero (p q r : Pt) (h : q.x < p.x) (h3 : 0 ≤ Pt.cross (q - p) (r - p)) :
    contrib ⟨p, q⟩ r = 0 := by
  rw [contrib_cross, if_neg (not_lt.mpr (le_of_lt h)), if_pos h, if_neg]
  intro hh; linarith [hh.2.2]
theorem contrib_up_zero (p q r : Pt) (h : p.x < q.x) (h3 : Pt.cross (q - p) (r - p) ≤ 0) :
    contrib ⟨p, q⟩ r = 0 := by
  rw [contrib_cross, if_pos h, if_neg]
  intro hh; linarith [hh.2.2]
theorem contrib_outside (p q r : Pt) (h : (r.x < p.x ∧ r.x < q.x) ∨ (p.x ≤ r.x ∧ q.x ≤ r.x)) :
    contrib ⟨p, q⟩ r = 0 := by
  rw [contrib_cross]
  split_ifs with h1 h2 h3 h4 <;> first | rfl | (exfalso; rcases h with h | h <;> linarith [h.1, h.2, h2.1, h2.2.1]) | (exfalso; rcases h with h | h <;> linarith [h.1, h.2, h4.1, h4.2.1])

/-- arithmetic side goals about concrete vertices -/
macro "geo" : tactic => `(tactic|
  (try simp only [Pt.cross, Pt.add_x, Pt.add_y, Pt.sub_x, Pt.sub_y]) <;> first | linarith | nlinarith)

theorem square_wind_inside (s : Rat) (c r : Pt) (hs : 0 < s)
    (hx1 : c.x - s / 2 < r.x) (hx2 : r.x < c.x + s / 2) (hy1 : c.y - s / 2 < r.y) (hy2 : r.y < c.y + s / 2) :
    wind (Jordan.fromVertices (Primitive.square s c)).edges r = 1 := by
  simp only [Primitive.square, wind_fromVertices4]
  have e1 := contrib_down_zero (c + ⟨s / 2, s / 2⟩) (c + ⟨-(s / 2), s / 2⟩) r (by geo) (by geo)
  have e2 := contrib_vertical (c + ⟨-(s / 2), s / 2⟩) (c + ⟨-(s / 2), -(s / 2)⟩) r rfl
  have e3 := contrib_up (c + ⟨-(s / 2), -(s / 2)⟩) (c + ⟨s / 2, -(s / 2)⟩) r (by geo) (by geo) (by geo) (by geo)
  have e4 := contrib_vertical (c + ⟨s / 2, -(s / 2)⟩) (c + ⟨s / 2, s / 2⟩) r rfl
  rw [e1, e2, e3, e4]; rfl

theorem regular4_wind_inside (ρ : Rat) (c r : Pt)
    (h1 : (r.x - c.x) + (r.y - c.y) < ρ) (h2 : -(r.x - c.x) + (r.y - c.y) < ρ)
    (h3 : -(r.x - c.x) - (r.y - c.y) < ρ) (h4 : (r.x - c.x) - (r.y - c.y) < ρ) :
    wind (Jordan.fromVertices (Primitive.regular4 ρ c)).edges r = 1 := by
  have hρ : 0 < ρ := by linarith
  simp only [Primitive.regular4, wind_fromVertices4]
  rcases lt_or_ge r.x c.x with hx | hx
  · have e1 := contrib_outside (c + ⟨ρ, 0⟩) (c + ⟨0, ρ⟩) r (Or.inl ⟨by geo, by geo⟩)
    have e2 := contrib_down_zero (c + ⟨0, ρ⟩) (c + ⟨-ρ, 0⟩) r (by geo) (by geo)
    have e3 := contrib_up (c + ⟨-ρ, 0⟩) (c + ⟨0, -ρ⟩) r (by geo) (by geo) (by geo) (by geo)
    have e4 := contrib_outside (c + ⟨0, -ρ⟩) (c + ⟨ρ, 0⟩) r (Or.inl ⟨by geo, by geo⟩)
    rw [e1, e2, e3, e4]; rfl
  · have e1 := contrib_down_zero (c + ⟨ρ, 0⟩) (c + ⟨0, ρ⟩) r (by geo) (by geo)
    have e2 := contrib_outside (c + ⟨0, ρ⟩) (c + ⟨-ρ, 0⟩) r (Or.inr ⟨by geo, by geo⟩)
    have e3 := contrib_outside (c + ⟨-ρ, 0⟩) (c + ⟨0, -ρ⟩) r (Or.inr ⟨by geo, by geo⟩)
    have e4 := contrib_up (c + ⟨0, -ρ⟩) (c + ⟨ρ, 0⟩) r (by geo) (by geo) (by geo) (by geo)
    rw [e1, e2, e3, e4]; rfl

theorem triangle_wind_inside (s : Rat) (c r : Pt)
    (h1 : c.x < r.x) (h2 : c.y < r.y) (h3 : (r.x - c.x) + (r.y - c.y) < s) :
    wind (Jordan.fromVertices (Primitive.triangle s c)).edges r = 1 := by
  have hs : 0 < s := by linarith
  simp only [Primitive.triangle, wind_fromVertices3]
  have e1 := contrib_up (c + ⟨0, 0⟩) (c + ⟨s, 0⟩) r (by geo) (by geo) (by geo) (by geo)
  have e2 := contrib_down_zero (c + ⟨s, 0⟩) (c + ⟨0, s⟩) r (by geo) (by geo)
  have e3 := contrib_vertical (c + ⟨0, s⟩) (c + ⟨0, 0⟩) r rfl
  rw [e1, e2, e3]; rfl

open Primitive

theorem one_add_sq_pos (h : Rat) : 0 < 1 + h * h := by nlinarith [mul_self_nonneg h]
theorem one_add_sq_ne (h : Rat) : 1 + h * h ≠ 0 := ne_of_gt (one_add_sq_pos h)

theorem cosH_sq_add_sinH_sq (h : Rat) : cosH h * cosH h + sinH h * sinH h = 1 := by
  have := one_add_sq_ne h
  unfold cosH sinH; field_simp; ring

theorem firstArc_eval (r h t : Rat) :
    evalSeg (firstArc r h) t
      = ⟨r * (1 - 2 * (h * h) * (t * t) / (1 + h * h)), 2 * r * h * t * (1 - (h * h) * t / (1 + h * h))⟩ := by
  have := one_add_sq_ne h
  simp only [firstArc, cosH, sinH]
  bez_unfold
  constructor <;> (field_simp; ring)

/-- the deviation of the quadratic arc from the circle -/
theorem firstArc_radius (r h t : Rat) :
    (evalSeg (firstArc r h) t).x ^ 2 + (evalSeg (firstArc r h) t).y ^ 2 - r ^ 2
      = 4 * h ^ 4 * r ^ 2 * t ^ 2 * (1 - t) ^ 2 / (1 + h ^ 2) := by
  have : 1 + h ^ 2 ≠ 0 := by have := one_add_sq_ne h; rwa [← sq] at this
  have h2 := one_add_sq_ne h
  rw [firstArc_eval]
  field_simp; ring


theorem firstArc_outside (r h t : Rat) :
    r ^ 2 ≤ (evalSeg (firstArc r h) t).x ^ 2 + (evalSeg (firstArc r h) t).y ^ 2 := by
  have e := firstArc_radius r h t
  have hp : 0 < 1 + h ^ 2 := by have := one_add_sq_pos h; rwa [← sq] at this
  have : 0 ≤ 4 * h ^ 4 * r ^ 2 * t ^ 2 * (1 - t) ^ 2 / (1 + h ^ 2) := by positivity
  linarith

theorem firstArc_band (r h t : Rat) (h0 : 0 ≤ t) (h1 : t ≤ 1) :
    (evalSeg (firstArc r h) t).x ^ 2 + (evalSeg (firstArc r h) t).y ^ 2
      ≤ r ^ 2 * (1 + h ^ 4 / (4 * (1 + h ^ 2))) := by
  have e := firstArc_radius r h t
  have hp : 0 < 1 + h ^ 2 := by have := one_add_sq_pos h; rwa [← sq] at this
  have ht : t ^ 2 * (1 - t) ^ 2 ≤ 1 / 16 := by
    have a : 0 ≤ t * (1 - t) := mul_nonneg h0 (by linarith)
    have b : t * (1 - t) ≤ 1 / 4 := by nlinarith [sq_nonneg (t - 1 / 2)]
    have : (t * (1 - t)) ^ 2 ≤ (1 / 4) ^ 2 := by
      apply pow_le_pow_left₀ a b
    calc t ^ 2 * (1 - t) ^ 2 = (t * (1 - t)) ^ 2 := by ring
      _ ≤ (1 / 4) ^ 2 := this
      _ = 1 / 16 := by norm_num
  have hk : 0 ≤ 4 * h ^ 4 * r ^ 2 / (1 + h ^ 2) := by positivity
  have : 4 * h ^ 4 * r ^ 2 * t ^ 2 * (1 - t) ^ 2 / (1 + h ^ 2)
      ≤ r ^ 2 * (h ^ 4 / (4 * (1 + h ^ 2))) := by
    have e1 : 4 * h ^ 4 * r ^ 2 * t ^ 2 * (1 - t) ^ 2 / (1 + h ^ 2)
        = 4 * h ^ 4 * r ^ 2 / (1 + h ^ 2) * (t ^ 2 * (1 - t) ^ 2) := by ring
    have e2 : r ^ 2 * (h ^ 4 / (4 * (1 + h ^ 2))) = 4 * h ^ 4 * r ^ 2 / (1 + h ^ 2) * (1 / 16) := by
      field_simp; ring
    rw [e1, e2]; exact mul_le_mul_of_nonneg_left ht hk
  linarith

/-! the other arcs are exact rotations of the first -/
theorem evalSeg_rot3 (a b d : Pt) (c s t : Rat) :
    evalSeg [a.rot c s, b.rot c s, d.rot c s] t = (evalSeg [a, b, d] t).rot c s := by
  simp only [Pt.rot]; bez_unfold; constructor <;> ring

theorem evalSeg_rotK3 (a b d : Pt) (c s t : Rat) : ∀ k : Nat,
    evalSeg [rotK c s k a, rotK c s k b, rotK c s k d] t = rotK c s k (evalSeg [a, b, d] t)
  | 0 => rfl
  | k + 1 => by
    simp only [rotK]; rw [evalSeg_rot3, evalSeg_rotK3 a b d c s t k]

theorem arc_eval (r h : Rat) (k : Nat) (t : Rat) :
    evalSeg (arc r h k) t = rotK (cosH h) (sinH h) k (evalSeg (firstArc r h) t) := by
  have : arc r h k = [rotK (cosH h) (sinH h) k ⟨r, 0⟩, rotK (cosH h) (sinH h) k ⟨r, r * h⟩,
      rotK (cosH h) (sinH h) k ⟨r * cosH h, r * sinH h⟩] := rfl
  rw [this, evalSeg_rotK3]; rfl

theorem rot_norm (p : Pt) (c s : Rat) (hcs : c * c + s * s = 1) :
    (p.rot c s).x ^ 2 + (p.rot c s).y ^ 2 = p.x ^ 2 + p.y ^ 2 := by
  simp only [Pt.rot]
  linear_combination (p.x ^ 2 + p.y ^ 2) * hcs

theorem rotK_norm (p : Pt) (c s : Rat) (hcs : c * c + s * s = 1) : ∀ k : Nat,
    (rotK c s k p).x ^ 2 + (rotK c s k p).y ^ 2 = p.x ^ 2 + p.y ^ 2
  | 0 => rfl
  | k + 1 => by simp only [rotK]; rw [rot_norm _ c s hcs, rotK_norm p c s hcs k]

theorem arc_radius (r h : Rat) (k : Nat) (t : Rat) :
    (evalSeg (arc r h k) t).x ^ 2 + (evalSeg (arc r h k) t).y ^ 2 - r ^ 2
      = 4 * h ^ 4 * r ^ 2 * t ^ 2 * (1 - t) ^ 2 / (1 + h ^ 2) := by
  rw [arc_eval, rotK_norm _ _ _ (cosH_sq_add_sinH_sq h), firstArc_radius]

/-- consecutive arcs share their junction exactly -/
theorem firstArc_start (r h : Rat) : evalSeg (firstArc r h) 0 = ⟨r, 0⟩ := by
  simp only [firstArc]; bez_unfold
theorem firstArc_end (r h : Rat) : evalSeg (firstArc r h) 1 = (⟨r, 0⟩ : Pt).rot (cosH h) (sinH h) := by
  simp only [firstArc, Pt.rot]; bez_unfold; constructor <;> ring

theorem rotK_succ' (c s : Rat) (p : Pt) : ∀ k : Nat, rotK c s (k + 1) p = rotK c s k (p.rot c s)
  | 0 => rfl
  | k + 1 => by
    have := rotK_succ' c s p k
    simp only [rotK] at this ⊢
    rw [this]

theorem arc_chain (r h : Rat) (k : Nat) : evalSeg (arc r h k) 1 = evalSeg (arc r h (k + 1)) 0 := by
  rw [arc_eval, arc_eval, firstArc_start, firstArc_end, rotK_succ']

/-- `∫ x dy` along the first arc -/
theorem firstArc_xdy (r h : Rat) :
    exactVertical (firstArc r h) 1 0 = 2 * r ^ 2 * h * (3 + h ^ 2 + h ^ 4) / (3 * (1 + h ^ 2) ^ 2) := by
  have h2 := one_add_sq_ne h
  have : 1 + h ^ 2 ≠ 0 := by rwa [← sq] at h2
  simp only [firstArc, cosH, sinH]
  ev_unfold
  field_simp; ring

/-- the circular sector (centre, arc, back to the centre) approximated by one quadratic arc -/
theorem sector_area (r h : Rat) :
    Jordan.area [[⟨0, 0⟩, ⟨r, 0⟩], firstArc r h, [⟨r * cosH h, r * sinH h⟩, ⟨0, 0⟩]]
      = h * r ^ 2 * (2 * h ^ 2 + 3) / (3 * (1 + h ^ 2)) := by
  have h2 := one_add_sq_ne h
  have : 1 + h ^ 2 ≠ 0 := by rwa [← sq] at h2
  simp only [Jordan.area, jordanExactVertical, List.map_cons, List.map_nil, List.sum_cons, List.sum_nil,
    firstArc_xdy, ev_line_10, cosH, sinH]
  field_simp; ring


/-- the sector spanned by the centre and a quadratic arc `a b d` -/
def sectorOf (a b d : Pt) : Jordan := [[⟨0, 0⟩, a], [a, b, d], [d, ⟨0, 0⟩]]

theorem ev_quad_10 (a b d : Pt) :
    exactVertical [a, b, d] 1 0
      = (a.x * (-3 * a.y + 2 * b.y + d.y) + 2 * b.x * (d.y - a.y) + d.x * (3 * d.y - 2 * b.y - a.y)) / 6 := by
  ev_unfold; ring

theorem sectorOf_area (a b d : Pt) :
    Jordan.area (sectorOf a b d) = exactVertical [a, b, d] 1 0 + (a.x * a.y - d.x * d.y) / 2 := by
  simp only [sectorOf, Jordan.area, jordanExactVertical, List.map_cons, List.map_nil, List.sum_cons,
    List.sum_nil, ev_line_10]
  ring

theorem sectorOf_area_rot (a b d : Pt) (c s : Rat) :
    Jordan.area (sectorOf (a.rot c s) (b.rot c s) (d.rot c s)) = (c * c + s * s) * Jordan.area (sectorOf a b d) := by
  rw [sectorOf_area, sectorOf_area, ev_quad_10, ev_quad_10]
  simp only [Pt.rot]; ring

theorem sectorOf_area_rotK (a b d : Pt) (c s : Rat) (hcs : c * c + s * s = 1) : ∀ k : Nat,
    Jordan.area (sectorOf (rotK c s k a) (rotK c s k b) (rotK c s k d)) = Jordan.area (sectorOf a b d)
  | 0 => rfl
  | k + 1 => by
    simp only [rotK]; rw [sectorOf_area_rot, hcs, one_mul, sectorOf_area_rotK a b d c s hcs k]

/-- every one of the sectors of `Primitive.circle` has the same area -/
theorem sector_area_k (r h : Rat) (k : Nat) :
    Jordan.area (sectorOf (rotK (cosH h) (sinH h) k ⟨r, 0⟩) (rotK (cosH h) (sinH h) k ⟨r, r * h⟩)
        (rotK (cosH h) (sinH h) k ⟨r * cosH h, r * sinH h⟩))
      = h * r ^ 2 * (2 * h ^ 2 + 3) / (3 * (1 + h ^ 2)) := by
  rw [sectorOf_area_rotK _ _ _ _ _ (cosH_sq_add_sinH_sq h)]
  exact sector_area r h

/-- four arcs (`h = tan(π/4) = 1`) close up exactly and enclose `10 r²/3` -/
theorem circle4_closed (r : Rat) : evalSeg (arc r 1 3) 1 = evalSeg (arc r 1 0) 0 := by
  simp [arc, firstArc, rotK, cosH, sinH, Pt.rot]; bez_unfold; constructor <;> ring
theorem circle4_area (r : Rat) : Jordan.area [arc r 1 0, arc r 1 1, arc r 1 2, arc r 1 3] = 10 / 3 * r ^ 2 := by
  simp [Jordan.area, jordanExactVertical, arc, firstArc, rotK, cosH, sinH, Pt.rot, ev_quad_10]; ring


/-! ### `Fraction.limit_denominator` -/

/-- loop invariant of `limit_denominator` after its first step -/
def LdInv (maxd q0 q1 n d : Int) : Prop := 0 ≤ q0 ∧ 1 ≤ q1 ∧ q1 ≤ maxd ∧ 0 ≤ d ∧ d < n

theorem ldLoop_inv (maxd : Int) : ∀ (fuel : Nat) (p0 q0 p1 q1 n d : Int), LdInv maxd q0 q1 n d →
    0 ≤ (ldLoop maxd fuel p0 q0 p1 q1 n d).2.1 ∧ 1 ≤ (ldLoop maxd fuel p0 q0 p1 q1 n d).2.2.2.1
      ∧ (ldLoop maxd fuel p0 q0 p1 q1 n d).2.2.2.1 ≤ maxd
  | 0, p0, q0, p1, q1, n, d, h => by
    simp only [ldLoop]; exact ⟨h.1, h.2.1, h.2.2.1⟩
  | fuel + 1, p0, q0, p1, q1, n, d, h => by
    simp only [ldLoop]
    split_ifs with hd hq
    · exact ⟨h.1, h.2.1, h.2.2.1⟩
    · exact ⟨h.1, h.2.1, h.2.2.1⟩
    · apply ldLoop_inv maxd fuel
      obtain ⟨h0, h1, h2, h3, h4⟩ := h
      have hdpos : 0 < d := lt_of_le_of_ne h3 (Ne.symm hd)
      have ha : 1 ≤ n / d := Int.le_ediv_of_mul_le hdpos (by linarith)
      refine ⟨by linarith, ?_, not_lt.mp hq, ?_, ?_⟩
      · nlinarith
      · have := Int.emod_nonneg n hd
        rw [Int.emod_def] at this; linarith [mul_comm d (n / d)]
      · have := Int.emod_lt_of_pos n hdpos
        rw [Int.emod_def] at this; linarith [mul_comm d (n / d)]


theorem den_div_le (a b : Int) (hb : 0 < b) : (((a : Rat) / (b : Rat)).den : Int) ≤ b := by
  have h : ((a : Rat) / (b : Rat)) = Rat.divInt a b := (Rat.divInt_eq_div a b).symm
  rw [h]
  exact Int.le_of_dvd hb (Rat.den_dvd a b)

theorem ldLoop_first (maxd : Int) (h1 : 1 ≤ maxd) (fuel : Nat) (num den : Int) (hden : 0 < den) :
    ldLoop maxd (fuel + 1) 0 1 1 0 num den
      = ldLoop maxd fuel 1 0 (0 + num / den * 1) (1 + num / den * 0) den (num - num / den * den) := by
  simp only [ldLoop]
  rw [if_neg (ne_of_gt hden), if_neg]
  simp only [mul_zero, add_zero]; exact not_lt.mpr h1

theorem limitDenominator_den_le (r : Rat) (maxd : Nat) (h1 : 1 ≤ maxd) :
    (limitDenominator r maxd).den ≤ maxd := by
  unfold limitDenominator
  split_ifs with h
  · exact h
  · have hden : (0 : Int) < (r.den : Int) := by exact_mod_cast r.den_pos
    have hm : (1 : Int) ≤ (maxd : Int) := by exact_mod_cast h1
    have hinv : LdInv (maxd : Int) 0 (1 + r.num / (r.den : Int) * 0) (r.den : Int)
        (r.num - r.num / (r.den : Int) * (r.den : Int)) := by
      refine ⟨le_refl _, by simp, by simpa using hm, ?_, ?_⟩
      · have := Int.emod_nonneg r.num (ne_of_gt hden)
        rw [Int.emod_def] at this; linarith [mul_comm (r.den : Int) (r.num / (r.den : Int))]
      · have := Int.emod_lt_of_pos r.num hden
        rw [Int.emod_def] at this; linarith [mul_comm (r.den : Int) (r.num / (r.den : Int))]
    have hexit := ldLoop_inv (maxd : Int) (r.den + 1) 1 0 (0 + r.num / (r.den : Int) * 1) _ _ _ hinv
    rw [← ldLoop_first (maxd : Int) hm (r.den + 1) r.num (r.den : Int) hden] at hexit
    generalize ldLoop (maxd : Int) (r.den + 2) 0 1 1 0 r.num (r.den : Int) = res at hexit ⊢
    obtain ⟨p0, q0, p1, q1, n, d⟩ := res
    simp only at hexit ⊢
    obtain ⟨hq0, hq1, hq1m⟩ := hexit
    have hq1pos : 0 < q1 := by linarith
    split_ifs
    · have := den_div_le p1 q1 hq1pos
      have : ((( (p1 : Rat) / (q1 : Rat)).den : Nat) : Int) ≤ (maxd : Int) := le_trans this hq1m
      exact_mod_cast this
    · have hk1 : ((maxd : Int) - q0) / q1 * q1 ≤ (maxd : Int) - q0 := Int.ediv_mul_le _ (ne_of_gt hq1pos)
      have hk2 : (maxd : Int) - q0 < (((maxd : Int) - q0) / q1 + 1) * q1 :=
        Int.lt_ediv_add_one_mul_self _ hq1pos
      have hpos : 0 < q0 + ((maxd : Int) - q0) / q1 * q1 := by nlinarith
      have := den_div_le (p0 + ((maxd : Int) - q0) / q1 * p1) (q0 + ((maxd : Int) - q0) / q1 * q1) hpos
      have : ((((((p0 + ((maxd : Int) - q0) / q1 * p1 : Int) : Rat)
          / ((q0 + ((maxd : Int) - q0) / q1 * q1 : Int) : Rat)).den : Nat)) : Int) ≤ (maxd : Int) := by
        linarith
      exact_mod_cast this


/-! ### exactly closed chains -/

/-- exact closedness of a chain of segments: every end point IS the next start point, cyclically -/
def ExactClosed (j : Jordan) : Prop :=
  ∀ ab ∈ List.zip j (j.tail ++ j.take 1), ab.1.getLastD Pt.zero = ab.2.headD Pt.zero

theorem bdry_chain_segs (G : Pt → Rat) : ∀ (l : List Seg) (s z : Seg),
    (∀ ab ∈ (s :: l).zip (l ++ [z]), ab.1.getLastD Pt.zero = ab.2.headD Pt.zero) →
    bdry G (s :: l) = G (z.headD Pt.zero) - G (s.headD Pt.zero)
  | [], s, z, h => by
    have := h (s, z) (by simp)
    simp only at this
    simp only [bdry, List.map_cons, List.map_nil, List.sum_cons, List.sum_nil]
    rw [this]; ring
  | y :: l, s, z, h => by
    have h1 := h (s, y) (by simp)
    have ih := bdry_chain_segs G l y z (fun ab hab => h ab (by
      simp only [List.cons_append, List.zip_cons_cons, List.mem_cons] at hab ⊢
      exact Or.inr hab))
    simp only at h1
    simp only [bdry, List.map_cons, List.sum_cons] at ih ⊢
    rw [ih, h1]; ring

theorem bdry_exactClosed (G : Pt → Rat) (j : Jordan) (h : ExactClosed j) : bdry G j = 0 := by
  cases j with
  | nil => rfl
  | cons s0 t => rw [bdry_chain_segs G t s0 s0 h]; ring

theorem closed_dy_exactClosed (j : Jordan) (hj : j.isPolygon = true) (h : ExactClosed j) :
    jordanExactVertical j 0 0 = 0 := by
  have h1 := bdry_y_poly 1 j hj
  rw [bdry_exactClosed _ j h] at h1; linarith

/-- the segments `x→l₁→…→z` of an open vertex chain -/
def segsOf : Pt → List Pt → Pt → List Seg
  | x, [], z => [[x, z]]
  | x, y :: l, z => [x, y] :: segsOf y l z

theorem segsOf_eq : ∀ (l : List Pt) (x z : Pt),
    ((x :: l).zip (l ++ [z])).map (fun ab : Pt × Pt => [ab.1, ab.2]) = segsOf x l z
  | [], _, _ => rfl
  | y :: l, x, z => by
    simp only [List.cons_append, List.zip_cons_cons, List.map_cons, segsOf]
    rw [← segsOf_eq l y z]

theorem segsOf_head (x : Pt) (l : List Pt) (z : Pt) :
    ∃ v S, segsOf x l z = [x, v] :: S := by
  cases l with
  | nil => exact ⟨z, [], rfl⟩
  | cons y l => exact ⟨y, _, rfl⟩

theorem segsOf_chain : ∀ (l : List Pt) (x z : Pt) (w : Seg), w.headD Pt.zero = z →
    ∀ ab ∈ (segsOf x l z).zip ((segsOf x l z).tail ++ [w]), ab.1.getLastD Pt.zero = ab.2.headD Pt.zero
  | [], x, z, w, hw => by
    intro ab hab
    simp only [segsOf, List.tail_cons, List.nil_append, List.zip_cons_cons, List.zip_nil_right,
      List.mem_singleton] at hab
    subst hab; simpa using hw.symm
  | y :: l, x, z, w, hw => by
    intro ab hab
    obtain ⟨v, S, hS⟩ := segsOf_head y l z
    have ih := segsOf_chain l y z w hw
    simp only [segsOf, List.tail_cons] at hab
    rw [hS] at hab ih
    simp only [List.cons_append, List.zip_cons_cons, List.mem_cons, List.tail_cons] at hab ih
    rcases hab with rfl | hab
    · simp
    · exact ih ab hab

theorem exactClosed_fromVertices (vs : List Pt) : ExactClosed (Jordan.fromVertices vs) := by
  cases vs with
  | nil => intro ab hab; simp [Jordan.fromVertices] at hab
  | cons v0 t =>
    rw [fromVertices_cons, segsOf_eq]
    obtain ⟨v, S, hS⟩ := segsOf_head v0 t v0
    have := segsOf_chain t v0 v0 [v0, v] rfl
    unfold ExactClosed
    rw [hS] at this ⊢
    simpa using this

theorem area_rot_closed (j : Jordan) (hj : j.isPolygon = true) (h : ExactClosed j) (c s : Rat) :
    Jordan.area (Jordan.map (·.rot c s) j) = (c * c + s * s) * Jordan.area j := by
  have h1 := jev_map_poly (·.rot c s) (c * c + s * s) _ (fun p q => ev_line_rot p q c s) j hj
  rw [bdry_exactClosed _ j h] at h1
  simpa [Jordan.area] using h1

end ShapeVerif.Geom
