/- de Casteljau for every degree: value = Bernstein sum, the two pieces of `splitAt` reparametrise the
segment (LP1b) -/
import ShapeVerif.Model.Bezier
import Mathlib.Data.Nat.Choose.Sum
import Mathlib.Data.Nat.Choose.Basic
import Mathlib.Algebra.Module.LinearMap.End
import Mathlib.Algebra.Algebra.Basic
import Mathlib.Algebra.BigOperators.Group.Finset.Basic
import Mathlib.Tactic.Ring
import Mathlib.Tactic.Linarith
import Mathlib.Tactic.NormNum
import Mathlib.Tactic.Module

namespace ShapeVerif

open Finset

/-! ### `comb` is the binomial coefficient -/

private theorem foldl_prod_asc (a i : Nat) :
    (List.range i).foldl (fun v k => v * (a + k)) 1 = a.ascFactorial i := by
  induction i with
  | zero => simp
  | succ i ih =>
    rw [List.range_succ, List.foldl_append, ih, Nat.ascFactorial_succ]
    simp [Nat.mul_comm]

private theorem foldl_div_fact (m v0 : Nat) :
    (List.range m).foldl (fun v k => v / (k + 2)) v0 = v0 / (m + 1).factorial := by
  induction m with
  | zero => simp
  | succ m ih =>
    rw [List.range_succ, List.foldl_append, ih]
    simp only [List.foldl_cons, List.foldl_nil]
    rw [Nat.div_div_eq_div_mul, Nat.factorial_succ (m + 1), Nat.mul_comm]

theorem comb_eq_choose_cas {n i : Nat} (h : i ≤ n) : comb n i = n.choose i := by
  unfold comb
  simp only
  rw [foldl_div_fact, foldl_prod_asc]
  cases i with
  | zero => simp
  | succ j =>
    have e : j + 1 - 1 + 1 = j + 1 := by omega
    rw [e, Nat.ascFactorial_eq_factorial_mul_choose (n - (j + 1)) (j + 1)]
    have e2 : n - (j + 1) + (j + 1) = n := by omega
    rw [e2, Nat.mul_div_cancel_left _ (Nat.factorial_pos _)]

/-! ### the operator `(1 - t) + t E` on sequences -/

/-- the shift on sequences -/
def shiftE : Module.End ℚ (ℕ → ℚ) where
  toFun f := fun i => f (i + 1)
  map_add' _ _ := rfl
  map_smul' _ _ := rfl

/-- one de Casteljau step on sequences -/
def Dl (t : ℚ) : Module.End ℚ (ℕ → ℚ) := (1 - t) • 1 + t • shiftE

theorem shiftE_apply (f : ℕ → ℚ) (j : ℕ) : shiftE f j = f (j + 1) := rfl

theorem Dl_apply (t : ℚ) (f : ℕ → ℚ) (j : ℕ) : Dl t f j = (1 - t) * f j + t * f (j + 1) := by
  simp [Dl, shiftE_apply]

theorem shiftE_pow_apply (m : ℕ) (f : ℕ → ℚ) (j : ℕ) : (shiftE ^ m) f j = f (j + m) := by
  induction m generalizing j with
  | zero => simp
  | succ m ih =>
    rw [pow_succ', Module.End.mul_apply, shiftE_apply, ih]
    congr 1; omega

theorem natCast_end (c : ℕ) : (c : Module.End ℚ (ℕ → ℚ)) = (c : ℚ) • 1 := by
  rw [Nat.cast_smul_eq_nsmul, nsmul_one]

theorem Dl_pow_apply_zero (t : ℚ) (n : ℕ) (f : ℕ → ℚ) :
    ((Dl t) ^ n) f 0 = ∑ i ∈ range (n + 1), (n.choose i : ℚ) * t ^ i * (1 - t) ^ (n - i) * f i := by
  have hc : Commute (t • shiftE) ((1 - t) • (1 : Module.End ℚ (ℕ → ℚ))) :=
    ((Commute.one_right shiftE).smul_right (1 - t)).smul_left t
  have e : Dl t = t • shiftE + (1 - t) • 1 := by rw [Dl, add_comm]
  rw [e, hc.add_pow]
  simp [natCast_end, smul_pow, shiftE_pow_apply]
  exact Finset.sum_congr rfl fun i _ => by ring

theorem commute_shiftE_Dl (t : ℚ) : Commute shiftE (Dl t) :=
  ((Commute.one_right shiftE).smul_right (1 - t)).add_right ((Commute.refl shiftE).smul_right t)

/-- Bernstein combination of the de Casteljau values of the initial sub-polygons -/
theorem Dl_left (t0 u : ℚ) (n : ℕ) (f : ℕ → ℚ) :
    ∑ k ∈ range (n + 1), (n.choose k : ℚ) * u ^ k * (1 - u) ^ (n - k) * ((Dl t0) ^ k) f 0
      = ((Dl (t0 * u)) ^ n) f 0 := by
  have hc : Commute (u • Dl t0) ((1 - u) • (1 : Module.End ℚ (ℕ → ℚ))) :=
    ((Commute.one_right (Dl t0)).smul_right (1 - u)).smul_left u
  have e : Dl (t0 * u) = u • Dl t0 + (1 - u) • 1 := by
    simp only [Dl]; module
  rw [e, hc.add_pow]
  simp [natCast_end, smul_pow]
  exact Finset.sum_congr rfl fun i _ => by ring

theorem Dl_right (t0 u : ℚ) (n : ℕ) (f : ℕ → ℚ) :
    ∑ m ∈ range (n + 1), (n.choose m : ℚ) * u ^ m * (1 - u) ^ (n - m) * ((Dl t0) ^ (n - m)) f m
      = ((Dl (t0 + u * (1 - t0))) ^ n) f 0 := by
  have hc : Commute (u • shiftE) ((1 - u) • Dl t0) :=
    ((commute_shiftE_Dl t0).smul_right (1 - u)).smul_left u
  have e : Dl (t0 + u * (1 - t0)) = u • shiftE + (1 - u) • Dl t0 := by
    simp only [Dl]; module
  rw [e, hc.add_pow]
  simp [natCast_end, smul_pow, Module.End.mul_apply, shiftE_pow_apply]
  exact Finset.sum_congr rfl fun i _ => by ring

/-! ### the de Casteljau triangle as iterates of `dcStep` -/

theorem dcStep_length (t : ℚ) : ∀ ps : List Pt, (dcStep t ps).length = ps.length - 1
  | [] => rfl
  | [_] => rfl
  | _ :: b :: rest => by simp [dcStep, dcStep_length t (b :: rest)]

theorem dcStep_getD (t : ℚ) : ∀ (ps : List Pt) (j : ℕ), j + 1 < ps.length →
    (dcStep t ps).getD j Pt.zero = lerp (ps.getD j Pt.zero) (ps.getD (j + 1) Pt.zero) t
  | [], j, h => by simp at h
  | [_], j, h => by simp at h
  | _ :: _ :: _, 0, _ => by simp [dcStep]
  | _ :: b :: rest, j + 1, h => by
    simp only [dcStep, List.getD_cons_succ]
    exact dcStep_getD t (b :: rest) j (by simpa using h)

theorem dcIter_length (t : ℚ) (k : ℕ) (ps : List Pt) :
    ((dcStep t)^[k] ps).length = ps.length - k := by
  induction k with
  | zero => simp
  | succ k ih => rw [Function.iterate_succ_apply', dcStep_length, ih]; omega

/-- a coordinate of a point of the triangle is an iterate of `Dl` on the coordinates of the polygon -/
theorem dcIter_getD (c : Pt → ℚ) (hc : ∀ a b t, c (lerp a b t) = (1 - t) * c a + t * c b) (t : ℚ)
    (ps : List Pt) (k : ℕ) : ∀ j : ℕ, j + k < ps.length →
    c (((dcStep t)^[k] ps).getD j Pt.zero) = ((Dl t) ^ k) (fun i => c (ps.getD i Pt.zero)) j := by
  induction k with
  | zero => intro j _; simp
  | succ k ih =>
    intro j h
    rw [Function.iterate_succ_apply', dcStep_getD _ _ _ (by rw [dcIter_length]; omega), hc,
      ih j (by omega), ih (j + 1) (by omega), pow_succ', Module.End.mul_apply, Dl_apply]

theorem dcLevels_eq (t : ℚ) : ∀ (fuel : ℕ) (ps : List Pt),
    dcLevels t fuel ps = (List.range (min fuel ps.length)).map (fun k => (dcStep t)^[k] ps)
  | 0, _ => by simp [dcLevels]
  | fuel + 1, [] => by simp [dcLevels]
  | fuel + 1, a :: rest => by
    have e : min (fuel + 1) (a :: rest).length = min fuel (dcStep t (a :: rest)).length + 1 := by
      rw [dcStep_length]; simp
    have e2 : dcLevels t (fuel + 1) (a :: rest)
        = (a :: rest) :: dcLevels t fuel (dcStep t (a :: rest)) := by simp [dcLevels]
    rw [e, List.range_succ_eq_map, e2, dcLevels_eq t fuel (dcStep t (a :: rest))]
    simp [Function.iterate_succ_apply]

theorem filterMap_eq_map_of_some {α β : Type} (f : α → Option β) (g : α → β) :
    ∀ l : List α, (∀ x ∈ l, f x = some (g x)) → l.filterMap f = l.map g
  | [], _ => rfl
  | a :: l, h => by
    rw [List.filterMap_cons, h a (by simp), List.map_cons,
      filterMap_eq_map_of_some f g l (fun x hx => h x (List.mem_cons_of_mem _ hx))]

theorem head?_eq_getD {l : List Pt} (h : l ≠ []) : l.head? = some (l.getD 0 Pt.zero) := by
  cases l with
  | nil => exact absurd rfl h
  | cons a r => simp

theorem getLast?_eq_getD {l : List Pt} (h : l ≠ []) :
    l.getLast? = some (l.getD (l.length - 1) Pt.zero) := by
  have hl : l.length - 1 < l.length := by
    cases l with
    | nil => exact absurd rfl h
    | cons a r => simp
  rw [List.getLast?_eq_getElem?, List.getD_eq_getElem?_getD, List.getElem?_eq_getElem hl]
  rfl

theorem dcIter_ne_nil (t : ℚ) (s : Seg) {k : ℕ} (hk : k < s.length) : (dcStep t)^[k] s ≠ [] := by
  intro h
  have := dcIter_length t k s
  rw [h] at this
  simp at this
  omega

/-- the left piece: the first points of the levels -/
theorem splitAt_fst (s : Seg) (t : ℚ) :
    (splitAt s t).1 = (List.range s.length).map (fun k => ((dcStep t)^[k] s).getD 0 Pt.zero) := by
  unfold splitAt
  simp only
  rw [dcLevels_eq, Nat.min_self, List.filterMap_map]
  apply filterMap_eq_map_of_some
  intro k hk
  exact head?_eq_getD (dcIter_ne_nil t s (List.mem_range.mp hk))

/-- the right piece before the reversal: the last points of the levels -/
theorem splitAt_snd (s : Seg) (t : ℚ) :
    (splitAt s t).2 = ((List.range s.length).map
      (fun k => ((dcStep t)^[k] s).getD (s.length - 1 - k) Pt.zero)).reverse := by
  unfold splitAt
  simp only
  rw [dcLevels_eq, Nat.min_self, List.filterMap_map]
  congr 1
  apply filterMap_eq_map_of_some
  intro k hk
  have := getLast?_eq_getD (dcIter_ne_nil t s (List.mem_range.mp hk))
  rw [dcIter_length, Nat.sub_right_comm] at this
  exact this

theorem splitAt_lengths (s : Seg) (t0 : Rat) :
    (splitAt s t0).1.length = s.length ∧ (splitAt s t0).2.length = s.length := by
  rw [splitAt_fst, splitAt_snd]
  simp

theorem splitAt_fst_getLast? (s : Seg) (hs : s ≠ []) (t : ℚ) :
    (splitAt s t).1.getLast? = some (((dcStep t)^[s.length - 1] s).getD 0 Pt.zero) := by
  have hne : s.length ≠ 0 := fun h => hs (List.length_eq_zero_iff.mp h)
  rw [splitAt_fst, List.getLast?_map, List.getLast?_range, if_neg hne]
  rfl

theorem dcEval_eq_iter (s : Seg) (hs : s ≠ []) (t : ℚ) :
    dcEval s t = ((dcStep t)^[s.length - 1] s).getD 0 Pt.zero := by
  unfold dcEval
  rw [splitAt_fst_getLast? s hs]
  rfl

theorem splitAt_endpoints (s : Seg) (hs : s ≠ []) (t0 : Rat) :
    (splitAt s t0).1.head? = s.head? ∧ (splitAt s t0).2.getLast? = s.getLast? ∧
    (splitAt s t0).1.getLast? = (splitAt s t0).2.head? ∧ (splitAt s t0).1.getLast? = some (dcEval s t0) := by
  have hne : s.length ≠ 0 := fun h => hs (List.length_eq_zero_iff.mp h)
  refine ⟨?_, ?_, ?_, ?_⟩
  · rw [splitAt_fst, List.head?_map, List.head?_range, if_neg hne, head?_eq_getD hs]
    rfl
  · rw [splitAt_snd, List.getLast?_reverse, List.head?_map, List.head?_range, if_neg hne,
      getLast?_eq_getD hs]
    rfl
  · rw [splitAt_fst_getLast? s hs, splitAt_snd, List.head?_reverse, List.getLast?_map,
      List.getLast?_range, if_neg hne]
    simp
  · rw [splitAt_fst_getLast? s hs, dcEval_eq_iter s hs]

/-! ### the Bernstein sum as a `Finset` sum -/

theorem zipIdx_map_sum (g : ℚ × ℕ → ℚ) : ∀ (cs : List ℚ) (k : ℕ),
    ((cs.zipIdx k).map g).sum = ∑ i ∈ range cs.length, g (cs.getD i 0, k + i)
  | [], k => by simp
  | a :: r, k => by
    rw [List.zipIdx_cons, List.map_cons, List.sum_cons, zipIdx_map_sum g r (k + 1),
      List.length_cons, Finset.sum_range_succ', add_comm]
    congr 1
    apply Finset.sum_congr rfl
    intro i _
    rw [List.getD_cons_succ]
    congr 2
    omega

theorem bernsteinCoord_eq_sum_cas (cs : List ℚ) (n : ℕ) (g : ℕ → ℚ) (hlen : cs.length = n + 1)
    (hg : ∀ i, i ≤ n → cs.getD i 0 = g i) (t : ℚ) :
    bernsteinCoord cs t = ∑ i ∈ range (n + 1), (n.choose i : ℚ) * t ^ i * (1 - t) ^ (n - i) * g i := by
  unfold bernsteinCoord
  simp only
  rw [zipIdx_map_sum, hlen]
  apply Finset.sum_congr rfl
  intro i hi
  have hi' : i ≤ n := by have := Finset.mem_range.mp hi; omega
  simp only [Nat.add_sub_cancel, Nat.zero_add]
  rw [comb_eq_choose_cas hi', hg i hi']

theorem bernsteinCoord_eq_Dl (cs : List ℚ) (n : ℕ) (f : ℕ → ℚ) (hlen : cs.length = n + 1)
    (hf : ∀ i, i ≤ n → cs.getD i 0 = f i) (t : ℚ) :
    bernsteinCoord cs t = ((Dl t) ^ n) f 0 := by
  rw [bernsteinCoord_eq_sum_cas cs n f hlen hf, Dl_pow_apply_zero]

theorem getD_map_range {α : Type} (G : ℕ → α) (d : α) {m i : ℕ} (h : i < m) :
    ((List.range m).map G).getD i d = G i := by
  simp [List.getD_eq_getElem?_getD, h]

theorem getD_map_coord (c : Pt → ℚ) (hc0 : c Pt.zero = 0) (s : Seg) (i : ℕ) :
    (s.map c).getD i 0 = c (s.getD i Pt.zero) := by
  rw [← hc0]
  simp only [List.getD_eq_getElem?_getD, List.getElem?_map, Option.getD_map]

/-! ### the coordinate statements -/

section coord
variable (c : Pt → ℚ) (hc : ∀ a b t, c (lerp a b t) = (1 - t) * c a + t * c b) (hc0 : c Pt.zero = 0)
include hc hc0

theorem coord_eval (s : Seg) (hs : s ≠ []) (t : ℚ) :
    bernsteinCoord (s.map c) t = c (dcEval s t) := by
  obtain ⟨n, hn⟩ := Nat.exists_eq_succ_of_ne_zero (fun h => hs (List.length_eq_zero_iff.mp h))
  rw [dcEval_eq_iter s hs, hn, Nat.succ_sub_one, dcIter_getD c hc t s n 0 (by omega)]
  exact bernsteinCoord_eq_Dl (s.map c) n _ (by simp [hn]) (fun i _ => getD_map_coord c hc0 s i) t

theorem coord_left (s : Seg) (hs : s ≠ []) (t0 u : ℚ) :
    bernsteinCoord ((splitAt s t0).1.map c) u = bernsteinCoord (s.map c) (t0 * u) := by
  obtain ⟨n, hn⟩ := Nat.exists_eq_succ_of_ne_zero (fun h => hs (List.length_eq_zero_iff.mp h))
  rw [bernsteinCoord_eq_Dl (s.map c) n _ (by simp [hn]) (fun i _ => getD_map_coord c hc0 s i) (t0 * u),
    ← Dl_left]
  apply bernsteinCoord_eq_sum_cas _ n (fun k => ((Dl t0) ^ k) (fun i => c (s.getD i Pt.zero)) 0)
  · simp [(splitAt_lengths s t0).1, hn]
  · intro i hi
    rw [getD_map_coord c hc0, splitAt_fst, getD_map_range _ _ (by omega),
      dcIter_getD c hc t0 s i 0 (by omega)]

theorem coord_right (s : Seg) (hs : s ≠ []) (t0 u : ℚ) :
    bernsteinCoord ((splitAt s t0).2.map c) u = bernsteinCoord (s.map c) (t0 + u * (1 - t0)) := by
  obtain ⟨n, hn⟩ := Nat.exists_eq_succ_of_ne_zero (fun h => hs (List.length_eq_zero_iff.mp h))
  rw [bernsteinCoord_eq_Dl (s.map c) n _ (by simp [hn]) (fun i _ => getD_map_coord c hc0 s i)
    (t0 + u * (1 - t0)), ← Dl_right]
  apply bernsteinCoord_eq_sum_cas _ n (fun m => ((Dl t0) ^ (n - m)) (fun i => c (s.getD i Pt.zero)) m)
  · simp [(splitAt_lengths s t0).2, hn]
  · intro i hi
    rw [getD_map_coord c hc0, splitAt_snd, List.getD_eq_getElem?_getD,
      List.getElem?_reverse (by simp; omega), ← List.getD_eq_getElem?_getD, List.length_map,
      List.length_range, getD_map_range _ _ (by omega)]
    have e1 : s.length - 1 - i = n - i := by omega
    have e2 : s.length - 1 - (n - i) = i := by omega
    rw [e1, e2, dcIter_getD c hc t0 s (n - i) i (by omega)]

end coord

theorem lerp_x (a b : Pt) (t : ℚ) : (lerp a b t).x = (1 - t) * a.x + t * b.x := by
  simp only [lerp]; ring

theorem lerp_y (a b : Pt) (t : ℚ) : (lerp a b t).y = (1 - t) * a.y + t * b.y := by
  simp only [lerp]; ring

/-! ### the targets -/

theorem dcEval_eq_bernsteinSeg (s : Seg) (hs : s ≠ []) (t : Rat) : dcEval s t = bernsteinSeg s t := by
  unfold bernsteinSeg Seg.xs Seg.ys
  rw [coord_eval (·.x) lerp_x rfl s hs t, coord_eval (·.y) lerp_y rfl s hs t]

theorem splitAt_left_bernstein (s : Seg) (hs : s ≠ []) (t0 u : Rat) :
    bernsteinSeg (splitAt s t0).1 u = bernsteinSeg s (t0 * u) := by
  unfold bernsteinSeg Seg.xs Seg.ys
  rw [coord_left (·.x) lerp_x rfl s hs t0 u, coord_left (·.y) lerp_y rfl s hs t0 u]

theorem splitAt_right_bernstein (s : Seg) (hs : s ≠ []) (t0 u : Rat) :
    bernsteinSeg (splitAt s t0).2 u = bernsteinSeg s (t0 + u * (1 - t0)) := by
  unfold bernsteinSeg Seg.xs Seg.ys
  rw [coord_right (·.x) lerp_x rfl s hs t0 u, coord_right (·.y) lerp_y rfl s hs t0 u]

end ShapeVerif
