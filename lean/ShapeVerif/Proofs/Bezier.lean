/- helper lemmas about the Bézier model (M1) -/
import ShapeVerif.Model.Quadrature
import Mathlib.Tactic.Ring
import Mathlib.Tactic.Linarith
import Mathlib.Tactic.NormNum

namespace ShapeVerif

/-- unfolding set used to evaluate the model on a control polygon of literal length -/
macro "bez_unfold" : tactic => `(tactic|
  simp [evalSeg, bernsteinSeg, Seg.xs, Seg.ys, evalCoord, canonCoefs, canonCoef, horner, caractEntry, comb,
    bernsteinCoord, List.range_succ, List.zipIdx_cons])

/-- a convex combination of two numbers stays between any bounds of both -/
theorem lerp_bounds {a b lo hi t : Rat} (ha : lo ≤ a ∧ a ≤ hi) (hb : lo ≤ b ∧ b ≤ hi)
    (ht : 0 ≤ t ∧ t ≤ 1) : lo ≤ a + t * (b - a) ∧ a + t * (b - a) ≤ hi := by
  have e : a + t * (b - a) = (1 - t) * a + t * b := by ring
  rw [e]
  have h1 : 0 ≤ 1 - t := by linarith [ht.2]
  constructor
  · have := mul_le_mul_of_nonneg_left ha.1 h1
    have := mul_le_mul_of_nonneg_left hb.1 ht.1
    nlinarith
  · have := mul_le_mul_of_nonneg_left ha.2 h1
    have := mul_le_mul_of_nonneg_left hb.2 ht.1
    nlinarith

/-- "every point of the list lies in the rectangle" -/
def InRect (lo hi : Pt) (ps : List Pt) : Prop :=
  ∀ p ∈ ps, lo.x ≤ p.x ∧ p.x ≤ hi.x ∧ lo.y ≤ p.y ∧ p.y ≤ hi.y

theorem dcStep_inRect {lo hi : Pt} {t : Rat} (ht : 0 ≤ t ∧ t ≤ 1) :
    ∀ ps : List Pt, InRect lo hi ps → InRect lo hi (dcStep t ps)
  | [], _ => by intro p hp; simp [dcStep] at hp
  | [_], _ => by intro p hp; simp [dcStep] at hp
  | a :: b :: rest, h => by
    intro p hp
    simp only [dcStep, List.mem_cons] at hp
    rcases hp with hp | hp
    · subst hp
      have ha := h a (by simp)
      have hb := h b (by simp)
      have hx := lerp_bounds (t := t) ⟨ha.1, ha.2.1⟩ ⟨hb.1, hb.2.1⟩ ht
      have hy := lerp_bounds (t := t) ⟨ha.2.2.1, ha.2.2.2⟩ ⟨hb.2.2.1, hb.2.2.2⟩ ht
      exact ⟨hx.1, hx.2, hy.1, hy.2⟩
    · have : InRect lo hi (b :: rest) := fun q hq => h q (List.mem_cons_of_mem _ hq)
      exact dcStep_inRect ht (b :: rest) this p hp

theorem dcLevels_inRect {lo hi : Pt} {t : Rat} (ht : 0 ≤ t ∧ t ≤ 1) :
    ∀ (fuel : Nat) (ps : List Pt), InRect lo hi ps → ∀ l ∈ dcLevels t fuel ps, InRect lo hi l
  | 0, _, _ => by intro l hl; simp [dcLevels] at hl
  | fuel + 1, ps, h => by
    intro l hl
    cases ps with
    | nil => simp [dcLevels] at hl
    | cons a rest =>
      simp only [dcLevels, List.mem_cons] at hl
      rcases hl with hl | hl
      · subst hl; exact h
      · exact dcLevels_inRect ht fuel _ (dcStep_inRect ht _ h) l hl

end ShapeVerif

namespace ShapeVerif

theorem foldl_min_le (l : List Rat) (a : Rat) :
    l.foldl (fun m v => if v < m then v else m) a ≤ a ∧
    ∀ v ∈ l, l.foldl (fun m v => if v < m then v else m) a ≤ v := by
  induction l generalizing a with
  | nil => simp
  | cons b t ih =>
    simp only [List.foldl_cons, List.mem_cons]
    obtain ⟨h1, h2⟩ := ih (if b < a then b else a)
    have hle : (if b < a then b else a) ≤ a ∧ (if b < a then b else a) ≤ b := by
      split
      · rename_i h; exact ⟨le_of_lt h, le_refl _⟩
      · rename_i h; exact ⟨le_refl _, not_lt.mp h⟩
    refine ⟨le_trans h1 hle.1, ?_⟩
    intro v hv
    rcases hv with hv | hv
    · subst hv; exact le_trans h1 hle.2
    · exact h2 v hv

theorem foldl_max_ge (l : List Rat) (a : Rat) :
    a ≤ l.foldl (fun m v => if m < v then v else m) a ∧
    ∀ v ∈ l, v ≤ l.foldl (fun m v => if m < v then v else m) a := by
  induction l generalizing a with
  | nil => simp
  | cons b t ih =>
    simp only [List.foldl_cons, List.mem_cons]
    obtain ⟨h1, h2⟩ := ih (if a < b then b else a)
    have hle : a ≤ (if a < b then b else a) ∧ b ≤ (if a < b then b else a) := by
      split
      · rename_i h; exact ⟨le_of_lt h, le_refl _⟩
      · rename_i h; exact ⟨le_refl _, not_lt.mp h⟩
    refine ⟨le_trans hle.1 h1, ?_⟩
    intro v hv
    rcases hv with hv | hv
    · subst hv; exact le_trans hle.2 h1
    · exact h2 v hv

theorem listMin_le {l : List Rat} {v : Rat} (hv : v ∈ l) : listMin l ≤ v := by
  cases l with
  | nil => simp at hv
  | cons a t =>
    simp only [listMin]
    rcases List.mem_cons.mp hv with h | h
    · subst h; exact (foldl_min_le t v).1
    · exact (foldl_min_le t a).2 v h

theorem le_listMax {l : List Rat} {v : Rat} (hv : v ∈ l) : v ≤ listMax l := by
  cases l with
  | nil => simp at hv
  | cons a t =>
    simp only [listMax]
    rcases List.mem_cons.mp hv with h | h
    · subst h; exact (foldl_max_ge t v).1
    · exact (foldl_max_ge t a).2 v h

/-- every control point lies in the box of the control polygon -/
theorem inRect_box (s : Seg) : InRect (Seg.box s).lo (Seg.box s).hi s := by
  intro p hp
  simp only [Seg.box, Box.ofPts]
  refine ⟨listMin_le ?_, le_listMax ?_, listMin_le ?_, le_listMax ?_⟩ <;>
    exact List.mem_map.mpr ⟨p, hp, rfl⟩

/-- the de Casteljau value is one of the points of the de Casteljau triangle -/
theorem dcEval_mem_levels (s : Seg) (t : Rat) (hs : s ≠ []) :
    ∃ l ∈ dcLevels t s.length s, dcEval s t ∈ l := by
  unfold dcEval splitAt
  simp only
  have hne : (dcLevels t s.length s).filterMap List.head? ≠ [] := by
    cases s with
    | nil => exact absurd rfl hs
    | cons a rest => simp [dcLevels]
  obtain ⟨x, hx⟩ := List.getLast?_eq_some_getLast hne ▸ (⟨_, rfl⟩ : ∃ x, some (List.getLast _ hne) = some x)
  have hmem : ((dcLevels t s.length s).filterMap List.head?).getLast hne ∈ (dcLevels t s.length s).filterMap List.head? :=
    List.getLast_mem hne
  rw [List.getLast?_eq_some_getLast hne]
  simp only [Option.getD_some]
  obtain ⟨l, hl, hh⟩ := List.mem_filterMap.mp hmem
  exact ⟨l, hl, List.mem_of_mem_head? hh⟩

/-- de Casteljau evaluation stays in the box of the control points, for every degree -/
theorem dcEval_in_box (s : Seg) (t : Rat) (hs : s ≠ []) (ht : 0 ≤ t ∧ t ≤ 1) :
    (Seg.box s).contains (dcEval s t) = true := by
  obtain ⟨l, hl, hmem⟩ := dcEval_mem_levels s t hs
  have h := dcLevels_inRect ht s.length s (inRect_box s) l hl _ hmem
  simp [Box.contains, h.1, h.2.1, h.2.2.1, h.2.2.2]

end ShapeVerif
