/- The open Newton–Cotes rule of the model (`quad`) is exact for EVERY number of nodes:
the weights are the integrals of the Lagrange basis on the (pairwise distinct) nodes, and Lagrange
interpolation is exact on polynomials of degree `< n`.  List polynomials are mapped to Mathlib's
`Polynomial ℚ`; the integral over `[0,1]` is the linear functional `Iint`. -/
import ShapeVerif.Proofs.Quadrature
import Mathlib.LinearAlgebra.Lagrange
import Mathlib.Tactic.FieldSimp

open Polynomial

namespace ShapeVerif

/-! ### list polynomials as `Polynomial ℚ` -/

/-- the Mathlib polynomial of a coefficient list (low degree first) -/
noncomputable def toPoly : List Rat → Rat[X]
  | [] => 0
  | a :: p => C a + X * toPoly p

theorem toPoly_nil : toPoly [] = 0 := rfl
theorem toPoly_cons (a : Rat) (p : List Rat) : toPoly (a :: p) = C a + X * toPoly p := rfl

theorem peval_eq_eval (p : List Rat) (t : Rat) : peval p t = (toPoly p).eval t := by
  induction p with
  | nil => simp [peval_nil, toPoly_nil]
  | cons a p ih => simp [peval_cons, toPoly_cons, ih]

theorem toPoly_padd (p q : List Rat) : toPoly (padd p q) = toPoly p + toPoly q := by
  induction p generalizing q with
  | nil => simp [padd, toPoly_nil]
  | cons a p ih =>
    cases q with
    | nil => simp [padd, toPoly_nil]
    | cons b q => simp only [padd, toPoly_cons, ih, C_add]; ring

theorem toPoly_pscale (k : Rat) (p : List Rat) : toPoly (pscale k p) = C k * toPoly p := by
  induction p with
  | nil => simp [pscale, toPoly_nil]
  | cons a p ih =>
    have : pscale k (a :: p) = (k * a) :: pscale k p := rfl
    rw [this, toPoly_cons, toPoly_cons, ih, C_mul]; ring

theorem toPoly_pmulX (p : List Rat) : toPoly (pmulX p) = X * toPoly p := by
  simp [pmulX, toPoly_cons]

theorem toPoly_pmulLin (p : List Rat) (r : Rat) : toPoly (pmulLin p r) = toPoly p * (X - C r) := by
  simp only [pmulLin, toPoly_padd, toPoly_pmulX, toPoly_pscale, C_neg]; ring

theorem degree_toPoly_lt (p : List Rat) : (toPoly p).degree < (p.length : WithBot Nat) := by
  induction p with
  | nil => simp [toPoly_nil]
  | cons a p ih =>
    rw [toPoly_cons]
    refine lt_of_le_of_lt (degree_add_le _ _) (max_lt ?_ ?_)
    · refine lt_of_le_of_lt degree_C_le ?_
      exact_mod_cast Nat.succ_pos p.length
    · by_cases h : toPoly p = 0
      · simp [h]
      · rw [degree_mul, degree_X]
        rw [degree_eq_natDegree h] at ih ⊢
        have : (toPoly p).natDegree < p.length := by exact_mod_cast ih
        simp only [List.length_cons]
        have h2 : (toPoly p).natDegree + 1 < p.length + 1 := by omega
        rw [add_comm]
        exact_mod_cast h2


/-! ### the integral over `[0,1]` as a linear functional -/

/-- `∫₀¹ q = Σ_k q_k / (k+1)` -/
noncomputable def Iint : Rat[X] →ₗ[Rat] Rat :=
  Polynomial.lsum fun k => ((1 : Rat) / ((k : Rat) + 1)) • LinearMap.id

theorem Iint_monomial (k : Nat) (a : Rat) : Iint (monomial k a) = a / ((k : Rat) + 1) := by
  unfold Iint
  rw [lsum_apply, sum_monomial_index]
  · simp [div_eq_mul_inv, mul_comm]
  · simp

theorem Iint_C_mul (a : Rat) (q : Rat[X]) : Iint (C a * q) = a * Iint q := by
  rw [← smul_eq_C_mul, map_smul, smul_eq_mul]

theorem Iint_X_pow (k : Nat) : Iint (X ^ k) = 1 / ((k : Rat) + 1) := by
  rw [← monomial_one_right_eq_X_pow, Iint_monomial]

theorem Iint_toPoly_shift (p : List Rat) (j : Nat) : Iint (X ^ j * toPoly p) = pintFrom j p := by
  induction p generalizing j with
  | nil => simp [toPoly_nil, pintFrom]
  | cons a p ih =>
    have e : X ^ j * toPoly (a :: p) = C a * X ^ j + X ^ (j + 1) * toPoly p := by
      rw [toPoly_cons]; ring
    rw [e, map_add, ih, Iint_C_mul, Iint_X_pow]
    simp only [pintFrom, List.zipIdx_cons, List.map_cons, List.sum_cons]
    push_cast; ring

theorem Iint_toPoly (p : List Rat) : Iint (toPoly p) = pint01 p := by
  have := Iint_toPoly_shift p 0
  simpa [pintFrom_zero] using this

/-! ### the model's nodes and weights as finset expressions -/

/-- node `i` of the `n`-node rule -/
def nodeV (n i : Nat) : Rat := ((2 * i + 1 : Nat) : Rat) / ((2 * n : Nat) : Rat)

theorem openNodes_eq (n : Nat) : openNodes n = (List.range n).map (nodeV n) := rfl

theorem zipIdx_map_range (v : Nat → Rat) (m : Nat) :
    ((List.range m).map v).zipIdx = (List.range m).map fun j => (v j, j) := by
  induction m with
  | zero => rfl
  | succ m ih => rw [List.range_succ, List.map_append, List.zipIdx_append, ih]; simp

theorem sum_map_range (g : Nat → Rat) (m : Nat) :
    ((List.range m).map g).sum = ∑ i ∈ Finset.range m, g i := by
  induction m with
  | zero => simp
  | succ m ih => rw [List.range_succ, List.map_append, List.sum_append, ih, Finset.sum_range_succ]; simp

theorem prod_ite_eq_prod_erase {M : Type} [CommMonoid M] (s : Finset Nat) (i : Nat) (f : Nat → M) :
    (∏ j ∈ s, if j = i then 1 else f j) = ∏ j ∈ s.erase i, f j := by
  rw [← Finset.filter_ne' s i, Finset.prod_filter]
  apply Finset.prod_congr rfl
  intro j _
  by_cases h : j = i <;> simp [h]

theorem toPoly_lagrangeNum (v : Nat → Rat) (m i : Nat) :
    toPoly (lagrangeNum ((List.range m).map v) i)
      = ∏ j ∈ Finset.range m, if j = i then 1 else (X - C (v j)) := by
  unfold lagrangeNum
  rw [zipIdx_map_range]
  induction m with
  | zero => simp [toPoly]
  | succ m ih =>
    rw [List.range_succ, List.map_append, List.foldl_append, Finset.prod_range_succ, ← ih]
    by_cases h : m = i <;> simp [h, toPoly_pmulLin]

theorem lagrangeDen_eq (v : Nat → Rat) (m i : Nat) (hi : i < m) :
    lagrangeDen ((List.range m).map v) i
      = ∏ j ∈ Finset.range m, if j = i then 1 else (v i - v j) := by
  have hx : ((List.range m).map v).getD i 0 = v i := by
    simp [List.getD_eq_getElem?_getD, hi]
  unfold lagrangeDen
  dsimp only
  rw [hx, zipIdx_map_range]
  generalize v i = xi
  clear hx hi
  induction m with
  | zero => simp
  | succ m ih =>
    rw [List.range_succ, List.map_append, List.foldl_append, Finset.prod_range_succ, ← ih]
    by_cases h : m = i <;> simp [h]

theorem quad_eq_finsum (n : Nat) (f : Rat → Rat) :
    quad n f = ∑ i ∈ Finset.range n,
      pint01 (lagrangeNum (openNodes n) i) / lagrangeDen (openNodes n) i * f (nodeV n i) := by
  rw [quad_eq_sum]
  unfold openWeights
  dsimp only
  conv_lhs => rw [openNodes_eq]
  rw [List.zip_map', List.map_map, sum_map_range]
  rfl

theorem nodeV_injective (n : Nat) (h1 : 1 ≤ n) : Function.Injective (nodeV n) := by
  intro i j h
  unfold nodeV at h
  have hn : ((2 * n : Nat) : Rat) ≠ 0 := by
    have : 2 * n ≠ 0 := by omega
    exact_mod_cast this
  rw [div_left_inj' hn] at h
  have : 2 * i + 1 = 2 * j + 1 := by exact_mod_cast h
  omega

theorem weight_eq (n i : Nat) (hi : i < n) :
    pint01 (lagrangeNum (openNodes n) i) / lagrangeDen (openNodes n) i
      = Iint (Lagrange.basis (Finset.range n) (nodeV n) i) := by
  rw [openNodes_eq, ← Iint_toPoly, toPoly_lagrangeNum, lagrangeDen_eq _ _ _ hi,
    prod_ite_eq_prod_erase, prod_ite_eq_prod_erase]
  unfold Lagrange.basis
  simp_rw [Lagrange.basisDivisor]
  rw [Finset.prod_mul_distrib, ← map_prod, Iint_C_mul, Finset.prod_inv_distrib]
  rw [div_eq_inv_mul]

/-- the `n`-node rule integrates every polynomial of degree `< n` exactly -/
theorem quad_eval_poly (n : Nat) (h1 : 1 ≤ n) (q : Rat[X]) (hq : q.degree < (n : WithBot Nat)) :
    quad n (fun t => q.eval t) = Iint q := by
  rw [quad_eq_finsum]
  have hinj : Set.InjOn (nodeV n) (Finset.range n : Finset Nat) := (nodeV_injective n h1).injOn
  have hq' : q.degree < ((Finset.range n).card : WithBot Nat) := by simpa using hq
  conv_rhs => rw [Lagrange.eq_interpolate hinj hq', Lagrange.interpolate_apply, map_sum]
  apply Finset.sum_congr rfl
  intro i hi
  rw [Iint_C_mul, weight_eq n i (Finset.mem_range.mp hi)]; ring

theorem quad_exact_monomial (n : Nat) (h1 : 1 ≤ n) (k : Nat) (hk : k < n) :
    quad n (fun x => x ^ k) = 1 / ((k : Rat) + 1) := by
  have h := quad_eval_poly n h1 (X ^ k) (by rw [degree_X_pow]; exact_mod_cast hk)
  rw [Iint_X_pow] at h
  rw [← h]
  apply quad_congr
  intro t; simp

theorem quad_exact_poly_all (n : Nat) (h1 : 1 ≤ n) (p : List Rat) (hp : p.length ≤ n) :
    quad n (peval p) = pint01 p := by
  have h := quad_eval_poly n h1 (toPoly p)
    (lt_of_lt_of_le (degree_toPoly_lt p) (by exact_mod_cast hp))
  rw [Iint_toPoly] at h
  rw [← h]
  apply quad_congr
  intro t; exact peval_eq_eval p t

/-! ### symmetry of the rule about 1/2 -/

/-- the Beta integrals `∫₀¹ x^j (1-x)^k = j! k! / (j+k+1)!` -/
theorem Iint_beta (k j : Nat) :
    Iint (X ^ j * (1 - X) ^ k)
      = ((j.factorial : Rat) * (k.factorial : Rat)) / (((j + k + 1).factorial : Nat) : Rat) := by
  induction k generalizing j with
  | zero =>
    have hj : ((j.factorial : Nat) : Rat) ≠ 0 := Nat.cast_ne_zero.mpr (Nat.factorial_ne_zero _)
    have hj1 : ((j : Rat) + 1) ≠ 0 := by positivity
    simp only [pow_zero, mul_one, Iint_X_pow, Nat.factorial_zero, Nat.cast_one, add_zero,
      Nat.factorial_succ, Nat.cast_mul, Nat.cast_add]
    field_simp
  | succ k ih =>
    have e : (X : Rat[X]) ^ j * (1 - X) ^ (k + 1) = X ^ j * (1 - X) ^ k - X ^ (j + 1) * (1 - X) ^ k := by
      ring
    rw [e, map_sub, ih j, ih (j + 1)]
    have e1 : j + 1 + k + 1 = (j + k + 1) + 1 := by omega
    have e2 : j + (k + 1) + 1 = (j + k + 1) + 1 := by omega
    rw [e1, e2]
    have h0 : (((j + k + 1).factorial : Nat) : Rat) ≠ 0 := Nat.cast_ne_zero.mpr (Nat.factorial_ne_zero _)
    have h1 : ((j : Rat) + k + 1 + 1) ≠ 0 := by positivity
    simp only [Nat.factorial_succ, Nat.cast_mul, Nat.cast_add, Nat.cast_one]
    field_simp
    ring

/-- `∫₀¹ q(1-x) dx = ∫₀¹ q(x) dx` -/
theorem Iint_comp_reflect (q : Rat[X]) : Iint (q.comp (1 - X)) = Iint q := by
  induction q using Polynomial.induction_on' with
  | add p q hp hq => rw [add_comp, map_add, map_add, hp, hq]
  | monomial k a =>
    rw [monomial_comp, Iint_C_mul, Iint_monomial]
    have := Iint_beta k 0
    rw [pow_zero, one_mul] at this
    rw [this]
    have h0 : ((k.factorial : Nat) : Rat) ≠ 0 := Nat.cast_ne_zero.mpr (Nat.factorial_ne_zero _)
    have h1 : ((k : Rat) + 1) ≠ 0 := by positivity
    simp only [Nat.factorial_zero, Nat.cast_one, one_mul, zero_add, Nat.factorial_succ, Nat.cast_mul,
      Nat.cast_add]
    field_simp

theorem nodeV_reflect (n i : Nat) (hi : i < n) : nodeV n (n - 1 - i) = 1 - nodeV n i := by
  unfold nodeV
  have hn : ((2 * n : Nat) : Rat) ≠ 0 := by
    have : 2 * n ≠ 0 := by omega
    exact_mod_cast this
  have h : (2 * (n - 1 - i) + 1) + (2 * i + 1) = 2 * n := by omega
  rw [eq_sub_iff_add_eq, ← add_div, div_eq_one_iff_eq hn]
  exact_mod_cast h

/-- weight `i` of the `n`-node rule -/
noncomputable def weightV (n i : Nat) : Rat := Iint (Lagrange.basis (Finset.range n) (nodeV n) i)

theorem quad_eq_weightV (n : Nat) (f : Rat → Rat) :
    quad n f = ∑ i ∈ Finset.range n, weightV n i * f (nodeV n i) := by
  rw [quad_eq_finsum]
  apply Finset.sum_congr rfl
  intro i hi
  rw [weight_eq n i (Finset.mem_range.mp hi)]; rfl

theorem natDegree_one_sub_X_le : (1 - X : Rat[X]).natDegree ≤ 1 := by
  have : (1 - X : Rat[X]) = -(X - C 1) := by simp
  rw [this, natDegree_neg, natDegree_X_sub_C]

theorem weightV_reflect (n i : Nat) (hi : i < n) : weightV n (n - 1 - i) = weightV n i := by
  have h1 : 1 ≤ n := by omega
  have hinj : Set.InjOn (nodeV n) (Finset.range n : Finset Nat) := (nodeV_injective n h1).injOn
  have hmem : i ∈ Finset.range n := Finset.mem_range.mpr hi
  have hdeg : ((Lagrange.basis (Finset.range n) (nodeV n) i).comp (1 - X)).degree < (n : WithBot Nat) := by
    refine lt_of_le_of_lt degree_le_natDegree ?_
    have h2 := natDegree_comp_le (p := Lagrange.basis (Finset.range n) (nodeV n) i) (q := (1 - X : Rat[X]))
    rw [Lagrange.natDegree_basis hinj hmem, Finset.card_range] at h2
    have h3 := natDegree_one_sub_X_le
    have h4 : (n - 1) * (1 - X : Rat[X]).natDegree ≤ (n - 1) * 1 := Nat.mul_le_mul_left _ h3
    have h5 : ((Lagrange.basis (Finset.range n) (nodeV n) i).comp (1 - X)).natDegree < n := by omega
    exact_mod_cast h5
  have h := quad_eval_poly n h1 _ hdeg
  rw [Iint_comp_reflect, quad_eq_weightV] at h
  rw [show weightV n i = Iint (Lagrange.basis (Finset.range n) (nodeV n) i) from rfl, ← h]
  have hri : n - 1 - i ∈ Finset.range n := Finset.mem_range.mpr (by omega)
  rw [Finset.sum_eq_single_of_mem (n - 1 - i) hri]
  · rw [eval_comp, eval_sub, eval_one, eval_X, ← nodeV_reflect n _ (by omega)]
    have : n - 1 - (n - 1 - i) = i := by omega
    rw [this, Lagrange.eval_basis_self hinj hmem, mul_one]
  · intro j hj hne
    have hj' : j < n := Finset.mem_range.mp hj
    rw [eval_comp, eval_sub, eval_one, eval_X, ← nodeV_reflect n j hj',
      Lagrange.eval_basis_of_ne (by omega) (Finset.mem_range.mpr (by omega)), mul_zero]

/-- the rule is symmetric about 1/2 -/
theorem quad_reflect_all (n : Nat) (f : Rat → Rat) : quad n (fun t => f (1 - t)) = quad n f := by
  rw [quad_eq_weightV, quad_eq_weightV, ← Finset.sum_range_reflect (fun i => weightV n i * f (nodeV n i)) n]
  apply Finset.sum_congr rfl
  intro i hi
  have hi' : i < n := Finset.mem_range.mp hi
  rw [weightV_reflect n i hi', nodeV_reflect n i hi']

/-- a symmetric rule on an odd number of nodes gains one degree -/
theorem quad_exact_monomial_odd (n : Nat) (h1 : 1 ≤ n) (hodd : n % 2 = 1) (k : Nat) (hk : k ≤ n) :
    quad n (fun x => x ^ k) = 1 / ((k : Rat) + 1) := by
  rcases Nat.lt_or_ge k n with hlt | hge
  · exact quad_exact_monomial n h1 k hlt
  · have hkn : k = n := le_antisymm hk hge
    subst hkn
    have hoddk : Odd k := Nat.odd_iff.mpr hodd
    have hhalf : (C (1 / 2 : Rat) : Rat[X]) + C (1 / 2) = 1 := by rw [← C_add]; norm_num
    -- the odd part `q = (X - 1/2)^k`
    have hcomp : ((X - C (1 / 2 : Rat)) ^ k).comp (1 - X) = -((X - C (1 / 2 : Rat)) ^ k) := by
      rw [pow_comp, sub_comp, X_comp, C_comp, ← hoddk.neg_pow]
      congr 1
      rw [← hhalf]; ring
    have hI : Iint ((X - C (1 / 2 : Rat)) ^ k) = 0 := by
      have := Iint_comp_reflect ((X - C (1 / 2 : Rat)) ^ k)
      rw [hcomp, map_neg] at this
      linarith
    have hQ : quad k (fun t => ((X - C (1 / 2 : Rat)) ^ k).eval t) = 0 := by
      have := quad_reflect_all k (fun t => ((X - C (1 / 2 : Rat)) ^ k).eval t)
      have e : ∀ t : Rat, ((X - C (1 / 2 : Rat)) ^ k).eval (1 - t) = -((X - C (1 / 2 : Rat)) ^ k).eval t := by
        intro t
        simp only [eval_pow, eval_sub, eval_X, eval_C]
        rw [← hoddk.neg_pow]; congr 1; ring
      rw [quad_congr k e, quad_neg] at this
      linarith
    -- the remainder has degree `< k`
    have hr : (X ^ k - (X - C (1 / 2 : Rat)) ^ k).degree < (k : WithBot Nat) := by
      have hd : (X ^ k : Rat[X]).degree = ((X - C (1 / 2 : Rat)) ^ k).degree := by
        rw [degree_X_pow, degree_pow, degree_X_sub_C, nsmul_one]
      have := degree_sub_lt_left hd (pow_ne_zero k X_ne_zero)
        (by rw [(monic_X_pow k).leadingCoeff, ((monic_X_sub_C (1 / 2 : Rat)).pow k).leadingCoeff])
      rwa [degree_X_pow] at this
    have hR := quad_eval_poly k h1 _ hr
    rw [map_sub, hI, sub_zero, Iint_X_pow] at hR
    rw [← hR, ← add_zero (quad k fun t => eval t (X ^ k - (X - C (1 / 2 : Rat)) ^ k)), ← hQ, ← quad_add]
    apply quad_congr
    intro t
    simp only [eval_sub, eval_pow, eval_X, eval_C]; ring

/-! ### bonus: the polynomial form of the odd-`n` gain (not a required target) -/

theorem quad_shift_of_monomials (n m : Nat)
    (hm : ∀ k, k < m → quad n (fun x => x ^ k) = 1 / ((k : Rat) + 1)) (p : List Rat) (j : Nat)
    (hp : j + p.length ≤ m) : quad n (fun t => t ^ j * peval p t) = pintFrom j p := by
  induction p generalizing j with
  | nil =>
    have := quad_smul n 0 (fun _ => 0)
    simp [peval_nil, pintFrom] at this ⊢
    exact this
  | cons c p ih =>
    have e : ∀ t : Rat, t ^ j * peval (c :: p) t = c * t ^ j + t ^ (j + 1) * peval p t := by
      intro t; rw [peval_cons]; ring
    rw [quad_congr n e, quad_add, quad_smul, ih (j + 1) (by simp at hp; omega),
      hm j (by simp at hp; omega)]
    simp only [pintFrom, List.zipIdx_cons, List.map_cons, List.sum_cons]
    push_cast; ring

/-- for odd `n` the rule integrates every polynomial with at most `n + 1` coefficients exactly -/
theorem quad_exact_poly_odd_all (n : Nat) (h1 : 1 ≤ n) (hodd : n % 2 = 1) (p : List Rat)
    (hp : p.length ≤ n + 1) : quad n (peval p) = pint01 p := by
  have := quad_shift_of_monomials n (n + 1)
    (fun k hk => quad_exact_monomial_odd n h1 hodd k (by omega)) p 0 (by omega)
  simpa [pintFrom_zero] using this

end ShapeVerif
