/-
Soundness of the slab-decomposition decision procedure `slabCheck` of `Model/Region.lean` (M8) and of the
region checkers built on it.

Main results
  * `slabCheck_sound`    : a predicate that depends on a point only through its below-pattern over `U` and
                           passes `slabCheck U` holds at EVERY point whose abscissa is not critical and which is
                           on no supporting line of an edge whose x-range contains it;
  * `offLines_of_not_onEdge`, `slabCheck_complete`, `slabFind_eq_none_iff`;
  * `wind_congr`, `memW_congr`, `shape_memW_congr` (for ALL edge lists / curves / shapes);
  * `regionCheck_sound`, `regionEq_sound`, `regionSubset_sound`, `regionCompl_sound`, `regionEmpty_sound`,
    `regionWhole_sound`, `componentsDisjoint_sound`, `exprCheck_sound`.

Remarks on the model's corner cases (none of them needed a change of the requested statements):
  * a vertical edge has `lo = hi`, so `inRange` is never true and `below` is constantly false, whatever the
    junk value `slope = _/0 = 0` is; its two (equal) end abscissae are still critical;
  * `Edge.meetX` is only used under the guard `e.slope ≠ f.slope`, so no division by zero is involved;
  * `criticalXs U = []` forces `U = []` (every edge contributes `lo` and `hi`), and then every below-pattern is
    vacuous, so the junk values `listMin [] = listMax [] = 0` are harmless.
-/
import ShapeVerif.Model.Region
import Mathlib.Tactic.Ring
import Mathlib.Tactic.Linarith
import Mathlib.Tactic.FieldSimp
import Mathlib.Tactic.Push

namespace ShapeVerif

/-! ### Bool / Prop bridges -/

theorem Edge.inRange_iff (e : Edge) (x : Rat) : e.inRange x = true ↔ (e.lo ≤ x ∧ x < e.hi) := by
  simp only [Edge.inRange, Bool.and_eq_true, decide_eq_true_eq]

theorem Edge.spans_iff (e : Edge) (a b : Rat) : e.spans a b = true ↔ (e.lo ≤ a ∧ b ≤ e.hi) := by
  simp only [Edge.spans, Bool.and_eq_true, decide_eq_true_eq]

theorem Edge.below_iff (e : Edge) (r : Pt) :
    e.below r = true ↔ ((e.lo ≤ r.x ∧ r.x < e.hi) ∧ e.level r.x < r.y) := by
  simp only [Edge.below, Edge.inRange, Bool.and_eq_true, decide_eq_true_eq]

theorem Edge.below_eq_false_of_not_inRange (e : Edge) (r : Pt) (h : ¬ (e.lo ≤ r.x ∧ r.x < e.hi)) :
    e.below r = false := by
  cases hb : e.below r with
  | false => rfl
  | true => exact absurd ((e.below_iff r).1 hb).1 h

/-! ### lists of rationals: `dedupRat`, `listMin`, `listMax`, maxima -/

theorem mem_dedupRat (l : List Rat) (c : Rat) : c ∈ dedupRat l ↔ c ∈ l := by
  unfold dedupRat
  induction l with
  | nil => simp
  | cons a t ih =>
    simp only [List.foldr_cons, List.mem_cons]
    split
    · rename_i hc
      rw [ih]
      constructor
      · intro h; exact Or.inr h
      · rintro (h | h)
        · subst h
          rw [List.contains_iff_mem] at hc
          exact ih.1 hc
        · exact h
    · rw [List.mem_cons, ih]

theorem slab_foldl_min_le (t : List Rat) : ∀ m : Rat,
    (t.foldl (fun m v => if v < m then v else m) m ≤ m) ∧
    ∀ v ∈ t, t.foldl (fun m v => if v < m then v else m) m ≤ v := by
  induction t with
  | nil => intro m; exact ⟨le_refl _, by intro v hv; cases hv⟩
  | cons v0 t ih =>
    intro m
    rw [List.foldl_cons]
    obtain ⟨h1, h2⟩ := ih (if v0 < m then v0 else m)
    have hm : (if v0 < m then v0 else m) ≤ m ∧ (if v0 < m then v0 else m) ≤ v0 := by
      split
      · rename_i h; exact ⟨le_of_lt h, le_refl _⟩
      · rename_i h; push Not at h; exact ⟨le_refl _, h⟩
    refine ⟨le_trans h1 hm.1, ?_⟩
    intro v hv
    rcases List.mem_cons.mp hv with h | h
    · subst h; exact le_trans h1 hm.2
    · exact h2 v h

theorem slab_foldl_max_ge (t : List Rat) : ∀ m : Rat,
    (m ≤ t.foldl (fun m v => if m < v then v else m) m) ∧
    ∀ v ∈ t, v ≤ t.foldl (fun m v => if m < v then v else m) m := by
  induction t with
  | nil => intro m; exact ⟨le_refl _, by intro v hv; cases hv⟩
  | cons v0 t ih =>
    intro m
    rw [List.foldl_cons]
    obtain ⟨h1, h2⟩ := ih (if m < v0 then v0 else m)
    have hm : m ≤ (if m < v0 then v0 else m) ∧ v0 ≤ (if m < v0 then v0 else m) := by
      split
      · rename_i h; exact ⟨le_of_lt h, le_refl _⟩
      · rename_i h; push Not at h; exact ⟨le_refl _, h⟩
    refine ⟨le_trans hm.1 h1, ?_⟩
    intro v hv
    rcases List.mem_cons.mp hv with h | h
    · subst h; exact le_trans hm.2 h1
    · exact h2 v h

theorem slab_listMin_le (l : List Rat) : ∀ c ∈ l, listMin l ≤ c := by
  cases l with
  | nil => intro c hc; cases hc
  | cons a t =>
    intro c hc
    unfold listMin
    rcases List.mem_cons.mp hc with h | h
    · subst h; exact (slab_foldl_min_le t c).1
    · exact (slab_foldl_min_le t a).2 c h

theorem slab_le_listMax (l : List Rat) : ∀ c ∈ l, c ≤ listMax l := by
  cases l with
  | nil => intro c hc; cases hc
  | cons a t =>
    intro c hc
    unfold listMax
    rcases List.mem_cons.mp hc with h | h
    · subst h; exact (slab_foldl_max_ge t c).1
    · exact (slab_foldl_max_ge t a).2 c h

theorem exists_max_rat (l : List Rat) (hne : l ≠ []) : ∃ m ∈ l, ∀ c ∈ l, c ≤ m := by
  induction l with
  | nil => exact absurd rfl hne
  | cons a t ih =>
    by_cases ht : t = []
    · subst ht
      exact ⟨a, by simp, by intro c hc; simp at hc; subst hc; exact le_refl _⟩
    · obtain ⟨m, hm, hmax⟩ := ih ht
      by_cases hc : m ≤ a
      · refine ⟨a, by simp, ?_⟩
        intro c hc'
        rcases List.mem_cons.mp hc' with h | h
        · subst h; exact le_refl _
        · exact le_trans (hmax c h) hc
      · refine ⟨m, List.mem_cons_of_mem _ hm, ?_⟩
        intro c hc'
        rcases List.mem_cons.mp hc' with h | h
        · subst h; push Not at hc; exact le_of_lt hc
        · exact hmax c h

/-! ### `nextCrit` and `slabs` -/

/-- the folding step of `nextCrit` -/
def ncStep (a : Rat) : Option Rat → Rat → Option Rat :=
  fun best c => if a < c then (match best with
    | none => some c
    | some b => if c < b then some c else some b) else best

theorem nextCrit_eq (crit : List Rat) (a : Rat) : nextCrit crit a = crit.foldl (ncStep a) none := rfl

theorem ncStep_of_not_lt {a c : Rat} (best : Option Rat) (h : ¬ a < c) : ncStep a best c = best := by
  simp only [ncStep, if_neg h]

theorem ncStep_none {a c : Rat} (h : a < c) : ncStep a none c = some c := by
  simp only [ncStep, if_pos h]

theorem ncStep_some_lt {a c b0 : Rat} (h : a < c) (h' : c < b0) : ncStep a (some b0) c = some c := by
  simp only [ncStep, if_pos h, if_pos h']

theorem ncStep_some_ge {a c b0 : Rat} (h : a < c) (h' : ¬ c < b0) : ncStep a (some b0) c = some b0 := by
  simp only [ncStep, if_pos h, if_neg h']

theorem ncStep_fold_sound (a : Rat) : ∀ (l : List Rat) (best : Option Rat) (b : Rat),
    l.foldl (ncStep a) best = some b →
    (best = some b ∨ (b ∈ l ∧ a < b)) ∧ (∀ c ∈ l, a < c → b ≤ c) ∧ (∀ b0, best = some b0 → b ≤ b0) := by
  intro l
  induction l with
  | nil =>
    intro best b h
    simp only [List.foldl_nil] at h
    subst h
    refine ⟨Or.inl rfl, ?_, ?_⟩
    · intro c hc; cases hc
    · intro b0 h0; cases h0; exact le_refl _
  | cons c t ih =>
    intro best b h
    rw [List.foldl_cons] at h
    obtain ⟨h1, h2, h3⟩ := ih _ b h
    by_cases hac : a < c
    · cases best with
      | none =>
        rw [ncStep_none hac] at h1 h3
        have hbc : b ≤ c := h3 c rfl
        refine ⟨?_, ?_, ?_⟩
        · right
          rcases h1 with h1 | ⟨h1, h1'⟩
          · cases h1; exact ⟨List.mem_cons_self, hac⟩
          · exact ⟨List.mem_cons_of_mem _ h1, h1'⟩
        · intro c' hc' hac'
          rcases List.mem_cons.mp hc' with e | e
          · subst e; exact hbc
          · exact h2 c' e hac'
        · intro b0 h0; cases h0
      | some b0 =>
        by_cases hcb : c < b0
        · rw [ncStep_some_lt hac hcb] at h1 h3
          have hbc : b ≤ c := h3 c rfl
          refine ⟨?_, ?_, ?_⟩
          · right
            rcases h1 with h1 | ⟨h1, h1'⟩
            · cases h1; exact ⟨List.mem_cons_self, hac⟩
            · exact ⟨List.mem_cons_of_mem _ h1, h1'⟩
          · intro c' hc' hac'
            rcases List.mem_cons.mp hc' with e | e
            · subst e; exact hbc
            · exact h2 c' e hac'
          · intro b1 h1'; cases h1'; exact le_trans hbc (le_of_lt hcb)
        · rw [ncStep_some_ge hac hcb] at h1 h3
          have hbb : b ≤ b0 := h3 b0 rfl
          push Not at hcb
          refine ⟨?_, ?_, ?_⟩
          · rcases h1 with h1 | ⟨h1, h1'⟩
            · exact Or.inl h1
            · exact Or.inr ⟨List.mem_cons_of_mem _ h1, h1'⟩
          · intro c' hc' hac'
            rcases List.mem_cons.mp hc' with e | e
            · subst e; exact le_trans hbb hcb
            · exact h2 c' e hac'
          · intro b1 h1'; cases h1'; exact hbb
    · rw [ncStep_of_not_lt best hac] at h1 h3
      refine ⟨?_, ?_, h3⟩
      · rcases h1 with h1 | ⟨h1, h1'⟩
        · exact Or.inl h1
        · exact Or.inr ⟨List.mem_cons_of_mem _ h1, h1'⟩
      · intro c' hc' hac'
        rcases List.mem_cons.mp hc' with e | e
        · subst e; exact absurd hac' hac
        · exact h2 c' e hac'

theorem ncStep_fold_some (a : Rat) : ∀ (l : List Rat) (b0 : Rat), ∃ b, l.foldl (ncStep a) (some b0) = some b := by
  intro l
  induction l with
  | nil => intro b0; exact ⟨b0, rfl⟩
  | cons c t ih =>
    intro b0
    rw [List.foldl_cons]
    by_cases hac : a < c
    · by_cases hcb : c < b0
      · rw [ncStep_some_lt hac hcb]; exact ih c
      · rw [ncStep_some_ge hac hcb]; exact ih b0
    · rw [ncStep_of_not_lt _ hac]; exact ih b0

theorem ncStep_fold_exists (a : Rat) : ∀ (l : List Rat), (∃ c ∈ l, a < c) →
    ∃ b, l.foldl (ncStep a) none = some b := by
  intro l
  induction l with
  | nil => rintro ⟨c, hc, _⟩; cases hc
  | cons c t ih =>
    rintro ⟨c', hc', hac'⟩
    rw [List.foldl_cons]
    by_cases hac : a < c
    · rw [ncStep_none hac]; exact ncStep_fold_some a t c
    · rw [ncStep_of_not_lt _ hac]
      rcases List.mem_cons.mp hc' with e | e
      · subst e; exact absurd hac' hac
      · exact ih ⟨c', e, hac'⟩

/-- specification of `nextCrit`: the least element of `crit` strictly above `a` -/
theorem nextCrit_spec {crit : List Rat} {a b : Rat} (h : nextCrit crit a = some b) :
    b ∈ crit ∧ a < b ∧ ∀ c ∈ crit, a < c → b ≤ c := by
  rw [nextCrit_eq] at h
  obtain ⟨h1, h2, _⟩ := ncStep_fold_sound a crit none b h
  rcases h1 with h1 | ⟨h1, h1'⟩
  · cases h1
  · exact ⟨h1, h1', h2⟩

theorem nextCrit_exists {crit : List Rat} {a : Rat} (h : ∃ c ∈ crit, a < c) : ∃ b, nextCrit crit a = some b := by
  rw [nextCrit_eq]; exact ncStep_fold_exists a crit h

/-- `(a, b)` is an open interval free of critical values -/
def IsSlab (crit : List Rat) (a b : Rat) : Prop := a < b ∧ ∀ c ∈ crit, c ≤ a ∨ b ≤ c

theorem mem_slabs {crit : List Rat} {a b : Rat} : (a, b) ∈ slabs crit ↔ (a ∈ crit ∧ nextCrit crit a = some b) := by
  unfold slabs
  rw [List.mem_filterMap]
  constructor
  · rintro ⟨a', ha', h⟩
    rw [Option.map_eq_some_iff] at h
    obtain ⟨b', hb', hp⟩ := h
    cases hp
    exact ⟨ha', hb'⟩
  · rintro ⟨ha, hb⟩
    exact ⟨a, ha, by rw [hb]; rfl⟩

theorem slabs_isSlab {crit : List Rat} {a b : Rat} (h : (a, b) ∈ slabs crit) : IsSlab crit a b := by
  obtain ⟨_, hn⟩ := mem_slabs.1 h
  obtain ⟨_, hab, hmin⟩ := nextCrit_spec hn
  refine ⟨hab, ?_⟩
  intro c hc
  by_cases hac : a < c
  · exact Or.inr (hmin c hc hac)
  · push Not at hac; exact Or.inl hac

/-- the bounded slabs cover every non-critical abscissa between two critical values -/
theorem slabs_cover (crit : List Rat) (x : Rat) (hx : x ∉ crit)
    (hlo : ∃ c ∈ crit, c < x) (hhi : ∃ c ∈ crit, x < c) :
    ∃ a b, (a, b) ∈ slabs crit ∧ a < x ∧ x < b := by
  obtain ⟨c0, hc0, hc0x⟩ := hlo
  obtain ⟨c1, hc1, hc1x⟩ := hhi
  have hne : crit.filter (fun c => decide (c < x)) ≠ [] := by
    intro hc
    have : c0 ∈ crit.filter (fun c => decide (c < x)) := by
      rw [List.mem_filter]; exact ⟨hc0, by simpa using hc0x⟩
    rw [hc] at this; cases this
  obtain ⟨a, ha, hmax⟩ := exists_max_rat _ hne
  rw [List.mem_filter] at ha
  obtain ⟨hac, hax⟩ := ha
  have hax : a < x := by simpa using hax
  obtain ⟨b, hb⟩ := nextCrit_exists (crit := crit) (a := a) ⟨c1, hc1, lt_trans hax hc1x⟩
  obtain ⟨hbc, hab, hmin⟩ := nextCrit_spec hb
  refine ⟨a, b, mem_slabs.2 ⟨hac, hb⟩, hax, ?_⟩
  rcases lt_trichotomy b x with h | h | h
  · have : b ∈ crit.filter (fun c => decide (c < x)) := by
      rw [List.mem_filter]; exact ⟨hbc, by simpa using h⟩
    have := hmax b this
    linarith
  · subst h; exact absurd hbc hx
  · exact h

/-! ### critical abscissae -/

/-- `crit` contains every range end and every in-range intersection abscissa of two supporting lines -/
structure CritOK (U : List Edge) (crit : List Rat) : Prop where
  ends : ∀ e ∈ U, e.lo ∈ crit ∧ e.hi ∈ crit
  inter : ∀ e ∈ U, ∀ f ∈ U, e.slope ≠ f.slope →
    (e.lo ≤ e.meetX f ∧ e.meetX f < e.hi) → (f.lo ≤ e.meetX f ∧ e.meetX f < f.hi) → e.meetX f ∈ crit

theorem criticalXs_critOK (U : List Edge) : CritOK U (criticalXs U) := by
  constructor
  · intro e he
    unfold criticalXs
    rw [mem_dedupRat, mem_dedupRat]
    constructor
    · apply List.mem_append_left
      rw [List.mem_flatMap]
      exact ⟨e, he, by simp⟩
    · apply List.mem_append_left
      rw [List.mem_flatMap]
      exact ⟨e, he, by simp⟩
  · intro e he f hf hm h1 h2
    unfold criticalXs
    rw [mem_dedupRat]
    apply List.mem_append_right
    rw [List.mem_flatMap]
    refine ⟨e, he, ?_⟩
    rw [List.mem_filterMap]
    refine ⟨f, hf, ?_⟩
    rw [if_pos]
    exact ⟨hm, (e.inRange_iff _).2 h1, (f.inRange_iff _).2 h2⟩

/-! ### the combinatorial core: inside a slab the below-pattern of a point is that of a sample -/

theorem range_const {U : List Edge} {crit : List Rat} {a b : Rat} (h : CritOK U crit) (hs : IsSlab crit a b)
    {e : Edge} (he : e ∈ U) {x : Rat} (hx : a < x ∧ x < b) :
    (e.lo ≤ x ∧ x < e.hi) ↔ (e.lo ≤ a ∧ b ≤ e.hi) := by
  obtain ⟨hlo, hhi⟩ := h.ends e he
  constructor
  · rintro ⟨h1, h2⟩
    constructor
    · rcases hs.2 _ hlo with h' | h'
      · exact h'
      · linarith [hx.2]
    · rcases hs.2 _ hhi with h' | h'
      · linarith [hx.1]
      · exact h'
  · rintro ⟨h1, h2⟩
    exact ⟨by linarith [hx.1], by linarith [hx.2]⟩

theorem level_order_const (m1 c1 m2 c2 a b x x' : Rat)
    (hx : a < x ∧ x < b) (hx' : a < x' ∧ x' < b)
    (hcrit : m1 ≠ m2 → ((c2 - c1) / (m1 - m2) ≤ a ∨ b ≤ (c2 - c1) / (m1 - m2))) :
    (m1 * x + c1 < m2 * x + c2) ↔ (m1 * x' + c1 < m2 * x' + c2) := by
  by_cases hm : m1 = m2
  · subst hm; constructor <;> intro h <;> linarith
  · have hd : m1 - m2 ≠ 0 := sub_ne_zero.mpr hm
    set xs := (c2 - c1) / (m1 - m2) with hxs
    have key : ∀ z : Rat, m1 * z + c1 - (m2 * z + c2) = (m1 - m2) * (z - xs) := by
      intro z; rw [hxs]; field_simp; ring
    have hk := key x; have hk' := key x'
    rcases lt_or_gt_of_ne hd with hneg | hpos
    · rcases hcrit hm with h | h
      · have h1 : 0 < x - xs := by linarith [hx.1]
        have h2 : 0 < x' - xs := by linarith [hx'.1]
        have e1 : (m1 - m2) * (x - xs) < 0 := mul_neg_of_neg_of_pos hneg h1
        have e2 : (m1 - m2) * (x' - xs) < 0 := mul_neg_of_neg_of_pos hneg h2
        constructor <;> intro _ <;> linarith
      · have h1 : x - xs < 0 := by linarith [hx.2]
        have h2 : x' - xs < 0 := by linarith [hx'.2]
        have e1 : 0 < (m1 - m2) * (x - xs) := mul_pos_of_neg_of_neg hneg h1
        have e2 : 0 < (m1 - m2) * (x' - xs) := mul_pos_of_neg_of_neg hneg h2
        constructor <;> intro _ <;> linarith
    · rcases hcrit hm with h | h
      · have h1 : 0 < x - xs := by linarith [hx.1]
        have h2 : 0 < x' - xs := by linarith [hx'.1]
        have e1 : 0 < (m1 - m2) * (x - xs) := mul_pos hpos h1
        have e2 : 0 < (m1 - m2) * (x' - xs) := mul_pos hpos h2
        constructor <;> intro _ <;> linarith
      · have h1 : x - xs < 0 := by linarith [hx.2]
        have h2 : x' - xs < 0 := by linarith [hx'.2]
        have e1 : (m1 - m2) * (x - xs) < 0 := mul_neg_of_pos_of_neg hpos h1
        have e2 : (m1 - m2) * (x' - xs) < 0 := mul_neg_of_pos_of_neg hpos h2
        constructor <;> intro _ <;> linarith

/-- two edges spanning the slab keep their order of levels throughout the slab -/
theorem span_order_const {U : List Edge} {crit : List Rat} {a b : Rat} (h : CritOK U crit) (hs : IsSlab crit a b)
    {e f : Edge} (he : e ∈ U) (hf : f ∈ U) (hes : e.lo ≤ a ∧ b ≤ e.hi) (hfs : f.lo ≤ a ∧ b ≤ f.hi)
    {x x' : Rat} (hx : a < x ∧ x < b) (hx' : a < x' ∧ x' < b) :
    (e.level x < f.level x) ↔ (e.level x' < f.level x') := by
  unfold Edge.level
  apply level_order_const _ _ _ _ a b x x' hx hx'
  intro hm
  by_contra hcon
  push Not at hcon
  obtain ⟨h1, h2⟩ := hcon
  have hmem := h.inter e he f hf hm
    (by unfold Edge.meetX; exact ⟨by linarith [hes.1], by linarith [hes.2]⟩)
    (by unfold Edge.meetX; exact ⟨by linarith [hfs.1], by linarith [hfs.2]⟩)
  unfold Edge.meetX at hmem
  rcases hs.2 _ hmem with h' | h'
  · linarith
  · linarith

theorem exists_max_level (l : List Edge) (x : Rat) (hne : l ≠ []) :
    ∃ e ∈ l, ∀ e' ∈ l, e'.level x ≤ e.level x := by
  induction l with
  | nil => exact absurd rfl hne
  | cons a t ih =>
    by_cases ht : t = []
    · subst ht; exact ⟨a, by simp, by intro e' he'; simp at he'; subst he'; exact le_refl _⟩
    · obtain ⟨e, he, hmax⟩ := ih ht
      by_cases hc : e.level x ≤ a.level x
      · refine ⟨a, by simp, ?_⟩
        intro e' he'
        rcases List.mem_cons.mp he' with h | h
        · subst h; exact le_refl _
        · exact le_trans (hmax e' h) hc
      · refine ⟨e, List.mem_cons_of_mem _ he, ?_⟩
        intro e' he'
        rcases List.mem_cons.mp he' with h | h
        · subst h; push Not at hc; exact le_of_lt hc
        · exact hmax e' h

theorem exists_min_level (l : List Edge) (x : Rat) (hne : l ≠ []) :
    ∃ e ∈ l, ∀ e' ∈ l, e.level x ≤ e'.level x := by
  induction l with
  | nil => exact absurd rfl hne
  | cons a t ih =>
    by_cases ht : t = []
    · subst ht; exact ⟨a, by simp, by intro e' he'; simp at he'; subst he'; exact le_refl _⟩
    · obtain ⟨e, he, hmin⟩ := ih ht
      by_cases hc : a.level x ≤ e.level x
      · refine ⟨a, by simp, ?_⟩
        intro e' he'
        rcases List.mem_cons.mp he' with h | h
        · subst h; exact le_refl _
        · exact le_trans hc (hmin e' h)
      · refine ⟨e, List.mem_cons_of_mem _ he, ?_⟩
        intro e' he'
        rcases List.mem_cons.mp he' with h | h
        · subst h; push Not at hc; exact le_of_lt hc
        · exact hmin e' h

/-- Main combinatorial lemma: every point of the slab that is off the spanning lines has the same
below-pattern as one of the samples of the slab. -/
theorem pattern_has_sample {U : List Edge} {crit : List Rat} {a b : Rat} (h : CritOK U crit) (hs : IsSlab crit a b)
    (S : List Edge) (hS : ∀ e, e ∈ S ↔ (e ∈ U ∧ (e.lo ≤ a ∧ b ≤ e.hi)))
    {x y : Rat} (hx : a < x ∧ x < b) (hoff : ∀ e ∈ S, e.level x ≠ y) :
    ∃ ys ∈ sampleYs S ((a + b) / 2), ∀ e ∈ U,
      (((e.lo ≤ x ∧ x < e.hi) ∧ e.level x < y) ↔
        ((e.lo ≤ (a + b) / 2 ∧ (a + b) / 2 < e.hi) ∧ e.level ((a + b) / 2) < ys)) := by
  have hab := hs.1
  have hm : a < (a + b) / 2 ∧ (a + b) / 2 < b := ⟨by linarith, by linarith⟩
  -- reduce the statement about all of U to a statement about S
  suffices hsuff : ∃ ys ∈ sampleYs S ((a + b) / 2), ∀ e ∈ S, (e.level x < y ↔ e.level ((a + b) / 2) < ys) by
    obtain ⟨ys, hys, hpat⟩ := hsuff
    refine ⟨ys, hys, ?_⟩
    intro e he
    rw [range_const h hs he hx, range_const h hs he hm]
    constructor
    · rintro ⟨hsp, hl⟩; exact ⟨hsp, (hpat e ((hS e).2 ⟨he, hsp⟩)).1 hl⟩
    · rintro ⟨hsp, hl⟩; exact ⟨hsp, (hpat e ((hS e).2 ⟨he, hsp⟩)).2 hl⟩
  set xm := (a + b) / 2 with hxm
  let L := S.filter (fun e => decide (e.level x < y))
  let R := S.filter (fun e => decide (y < e.level x))
  have hL : ∀ e, e ∈ L ↔ (e ∈ S ∧ e.level x < y) := by intro e; simp [L]
  have hR : ∀ e, e ∈ R ↔ (e ∈ S ∧ y < e.level x) := by intro e; simp [R]
  have hsplit : ∀ e ∈ S, e ∈ L ∨ e ∈ R := by
    intro e he
    rcases lt_or_gt_of_ne (hoff e he) with h' | h'
    · exact Or.inl ((hL e).2 ⟨he, h'⟩)
    · exact Or.inr ((hR e).2 ⟨he, h'⟩)
  have hord : ∀ e ∈ S, ∀ f ∈ S, (e.level x < f.level x ↔ e.level xm < f.level xm) := by
    intro e he f hf
    exact span_order_const h hs ((hS e).1 he).1 ((hS f).1 hf).1 ((hS e).1 he).2 ((hS f).1 hf).2 hx hm
  by_cases hLe : L = []
  · -- nothing below: take a sample under the lowest level
    by_cases hSe : S = []
    · refine ⟨0, by simp [sampleYs], ?_⟩
      intro e he; rw [hSe] at he; simp at he
    · obtain ⟨e0, he0, hmin⟩ := exists_min_level S xm hSe
      refine ⟨e0.level xm - 1, ?_, ?_⟩
      · simp only [sampleYs, List.mem_cons, List.mem_append, List.mem_flatMap]
        right; left; exact ⟨e0, he0, by simp⟩
      · intro e he
        have hnl : ¬ e.level x < y := by
          intro hc; have : e ∈ L := (hL e).2 ⟨he, hc⟩; rw [hLe] at this; simp at this
        constructor
        · intro hc; exact absurd hc hnl
        · intro hc; have := hmin e he; linarith
  · by_cases hRe : R = []
    · obtain ⟨e1, he1, hmax⟩ := exists_max_level S xm (by
        intro hc; apply hLe; apply List.eq_nil_iff_forall_not_mem.2; intro e he
        have := ((hL e).1 he).1; rw [hc] at this; simp at this)
      refine ⟨e1.level xm + 1, ?_, ?_⟩
      · simp only [sampleYs, List.mem_cons, List.mem_append, List.mem_flatMap]
        right; left; exact ⟨e1, he1, by simp⟩
      · intro e he
        have hl : e.level x < y := by
          rcases hsplit e he with h' | h'
          · exact ((hL e).1 h').2
          · rw [hRe] at h'; simp at h'
        constructor
        · intro _; have := hmax e he; linarith
        · intro _; exact hl
    · obtain ⟨eL, heL, hmaxL⟩ := exists_max_level L xm hLe
      obtain ⟨eR, heR, hminR⟩ := exists_min_level R xm hRe
      have heLS := ((hL eL).1 heL).1
      have heRS := ((hR eR).1 heR).1
      have hlt : eL.level xm < eR.level xm := by
        apply (hord eL heLS eR heRS).1
        have h1 := ((hL eL).1 heL).2
        have h2 := ((hR eR).1 heR).2
        linarith
      refine ⟨(eL.level xm + eR.level xm) / 2, ?_, ?_⟩
      · simp only [sampleYs, List.mem_cons, List.mem_append, List.mem_flatMap, List.mem_map]
        right; right; exact ⟨eL, heLS, eR, heRS, rfl⟩
      · intro e he
        rcases hsplit e he with h' | h'
        · have h1 := hmaxL e h'
          have hl := ((hL e).1 h').2
          constructor
          · intro _; linarith
          · intro _; exact hl
        · have h1 := hminR e h'
          have hr := ((hR e).1 h').2
          constructor
          · intro hc; linarith
          · intro hc; linarith

/-! ### soundness and completeness of `slabCheck` -/

/-- r lies on no supporting line of an edge whose x-range contains r.x -/
def OffLines (U : List Edge) (r : Pt) : Prop := ∀ e ∈ U, e.inRange r.x = true → e.level r.x ≠ r.y

/-- every admissible point has the below-pattern of some sample point -/
theorem exists_sample_same_pattern (U : List Edge) (r : Pt)
    (hx : r.x ∉ criticalXs U) (hoff : OffLines U r) :
    ∃ s ∈ slabSamples U, ∀ e ∈ U, e.below r = e.below s := by
  have hC := criticalXs_critOK U
  by_cases hlo : ∃ c ∈ criticalXs U, c < r.x
  · by_cases hhi : ∃ c ∈ criticalXs U, r.x < c
    · -- a bounded slab
      obtain ⟨a, b, hab, hax, hxb⟩ := slabs_cover (criticalXs U) r.x hx hlo hhi
      have hs := slabs_isSlab hab
      have hS : ∀ e, e ∈ U.filter (fun e => e.spans a b) ↔ (e ∈ U ∧ (e.lo ≤ a ∧ b ≤ e.hi)) := by
        intro e; rw [List.mem_filter, Edge.spans_iff]
      have hoff' : ∀ e ∈ U.filter (fun e => e.spans a b), e.level r.x ≠ r.y := by
        intro e he
        obtain ⟨heU, hsp⟩ := (hS e).1 he
        exact hoff e heU ((e.inRange_iff _).2 ((range_const hC hs heU ⟨hax, hxb⟩).2 hsp))
      obtain ⟨ys, hys, hpat⟩ := pattern_has_sample hC hs _ hS ⟨hax, hxb⟩ hoff'
      refine ⟨⟨(a + b) / 2, ys⟩, ?_, ?_⟩
      · unfold slabSamples
        apply List.mem_cons_of_mem
        apply List.mem_cons_of_mem
        exact List.mem_flatMap.2 ⟨(a, b), hab, List.mem_map.2 ⟨ys, hys, rfl⟩⟩
      · intro e he
        rw [Bool.eq_iff_iff, Edge.below_iff, Edge.below_iff]
        exact hpat e he
    · -- right of every critical value
      push Not at hhi
      refine ⟨⟨listMax (criticalXs U) + 1, 0⟩, ?_, ?_⟩
      · unfold slabSamples
        apply List.mem_cons_of_mem
        exact List.mem_cons_self
      · intro e he
        have hh := (hC.ends e he).2
        rw [Edge.below_eq_false_of_not_inRange, Edge.below_eq_false_of_not_inRange]
        · rintro ⟨_, h2⟩
          have := slab_le_listMax _ _ hh
          change listMax (criticalXs U) + 1 < e.hi at h2
          linarith
        · rintro ⟨_, h2⟩
          have := hhi _ hh
          linarith
  · -- left of every critical value
    push Not at hlo
    refine ⟨⟨listMin (criticalXs U) - 1, 0⟩, ?_, ?_⟩
    · unfold slabSamples
      exact List.mem_cons_self
    · intro e he
      have hh := (hC.ends e he).1
      rw [Edge.below_eq_false_of_not_inRange, Edge.below_eq_false_of_not_inRange]
      · rintro ⟨h1, _⟩
        have := slab_listMin_le _ _ hh
        change e.lo ≤ listMin (criticalXs U) - 1 at h1
        linarith
      · rintro ⟨h1, _⟩
        have h3 := hlo _ hh
        have : r.x = e.lo := le_antisymm h3 h1
        exact hx (this ▸ hh)

theorem slabCheck_sound (U : List Edge) (P : Pt → Bool)
    (hP : ∀ r r' : Pt, (∀ e ∈ U, e.below r = e.below r') → P r = P r')
    (h : slabCheck U P = true) (r : Pt)
    (hx : r.x ∉ criticalXs U) (hoff : OffLines U r) : P r = true := by
  obtain ⟨s, hs, hpat⟩ := exists_sample_same_pattern U r hx hoff
  rw [hP r s hpat]
  unfold slabCheck at h
  rw [List.all_eq_true] at h
  exact h s hs

theorem slabCheck_complete (U : List Edge) (P : Pt → Bool) (h : slabCheck U P = false) :
    ∃ s ∈ slabSamples U, P s = false := by
  unfold slabCheck at h
  rw [List.all_eq_false] at h
  obtain ⟨s, hs, hp⟩ := h
  exact ⟨s, hs, by simpa using hp⟩

theorem slabFind_eq_none_iff (U : List Edge) (P : Pt → Bool) : slabFind U P = none ↔ slabCheck U P = true := by
  unfold slabFind slabCheck
  rw [List.find?_eq_none, List.all_eq_true]
  constructor
  · intro h s hs; simpa using h s hs
  · intro h s hs; simpa using h s hs

/-! ### points off the closed edges are off the lines -/

/-- the ordinate `py + s (x - px)` of a point of the segment lies between the end ordinates -/
theorem seg_y_range (px py qx qy x s : Rat) (hs : s * (qx - px) = qy - py)
    (h : (px ≤ x ∧ x ≤ qx) ∨ (qx ≤ x ∧ x ≤ px)) :
    (if py ≤ qy then py else qy) ≤ py + s * (x - px) ∧ py + s * (x - px) ≤ (if py ≤ qy then qy else py) := by
  rcases le_total 0 s with hs0 | hs0
  · rcases h with ⟨h1, h2⟩ | ⟨h1, h2⟩
    · have e1 : 0 ≤ s * (x - px) := mul_nonneg hs0 (by linarith)
      have e2 : s * (x - px) ≤ s * (qx - px) := mul_le_mul_of_nonneg_left (by linarith) hs0
      split <;> constructor <;> linarith
    · have e1 : s * (x - px) ≤ 0 := mul_nonpos_of_nonneg_of_nonpos hs0 (by linarith)
      have e2 : s * (qx - px) ≤ s * (x - px) := mul_le_mul_of_nonneg_left (by linarith) hs0
      split <;> constructor <;> linarith
  · rcases h with ⟨h1, h2⟩ | ⟨h1, h2⟩
    · have e1 : s * (x - px) ≤ 0 := mul_nonpos_of_nonpos_of_nonneg hs0 (by linarith)
      have e2 : s * (qx - px) ≤ s * (x - px) := mul_le_mul_of_nonpos_left (by linarith) hs0
      split <;> constructor <;> linarith
    · have e1 : 0 ≤ s * (x - px) := mul_nonneg_of_nonpos_of_nonpos hs0 (by linarith)
      have e2 : s * (x - px) ≤ s * (qx - px) := mul_le_mul_of_nonpos_left (by linarith) hs0
      split <;> constructor <;> linarith

/-- a point of the supporting line whose abscissa is in the half-open x-range is on the closed edge -/
theorem Edge.onEdge_of_inRange_of_level (e : Edge) (r : Pt) (hr : e.inRange r.x = true)
    (hl : e.level r.x = r.y) : e.onEdge r = true := by
  rw [Edge.inRange_iff] at hr
  obtain ⟨h1, h2⟩ := hr
  have hne : e.q.x - e.p.x ≠ 0 := by
    intro h0
    have : e.p.x = e.q.x := by linarith
    unfold Edge.lo at h1
    unfold Edge.hi at h2
    rw [this] at h1 h2
    simp only [le_refl, if_true] at h1 h2
    linarith
  have hs : e.slope * (e.q.x - e.p.x) = e.q.y - e.p.y := by
    unfold Edge.slope; exact div_mul_cancel₀ _ hne
  have hy : r.y = e.p.y + e.slope * (r.x - e.p.x) := by
    rw [← hl]; unfold Edge.level Edge.icept; ring
  have hrange : (e.p.x ≤ r.x ∧ r.x ≤ e.q.x) ∨ (e.q.x ≤ r.x ∧ r.x ≤ e.p.x) := by
    unfold Edge.lo at h1
    unfold Edge.hi at h2
    by_cases hpq : e.p.x ≤ e.q.x
    · rw [if_pos hpq] at h1 h2; exact Or.inl ⟨h1, le_of_lt h2⟩
    · rw [if_neg hpq] at h1 h2; exact Or.inr ⟨h1, le_of_lt h2⟩
  obtain ⟨hy1, hy2⟩ := seg_y_range e.p.x e.p.y e.q.x e.q.y r.x e.slope hs hrange
  rw [← hy] at hy1 hy2
  have hcross : Pt.cross (e.q - e.p) (r - e.p) = 0 := by
    change (e.q.x - e.p.x) * (r.y - e.p.y) - (e.q.y - e.p.y) * (r.x - e.p.x) = 0
    rw [hy, ← hs]; ring
  unfold Edge.onEdge
  simp only [Bool.and_eq_true, decide_eq_true_eq]
  exact ⟨⟨⟨⟨hcross, h1⟩, le_of_lt h2⟩, hy1⟩, hy2⟩

/-- a point that is on no edge (as a closed segment) is off all lines -/
theorem offLines_of_not_onEdge' (U : List Edge) (r : Pt) (h : ∀ e ∈ U, e.onEdge r = false) : OffLines U r := by
  intro e he hr hl
  have := e.onEdge_of_inRange_of_level r hr hl
  rw [h e he] at this
  cases this

/-- a point that is on no edge (as a closed segment) and whose abscissa is not critical is off all lines
(the hypothesis on the abscissa is not needed; it is kept because the two hypotheses are used together) -/
theorem offLines_of_not_onEdge (U : List Edge) (r : Pt) (_hx : r.x ∉ criticalXs U)
    (h : ∀ e ∈ U, e.onEdge r = false) : OffLines U r :=
  offLines_of_not_onEdge' U r h

theorem OffLines.mono {U V : List Edge} {r : Pt} (h : OffLines V r) (hUV : ∀ e ∈ U, e ∈ V) : OffLines U r :=
  fun e he => h e (hUV e he)

/-! ### winding numbers and region membership depend on a point only through its below-pattern -/

theorem wind_congr (es : List Edge) (r r' : Pt) (h : ∀ e ∈ es, e.below r = e.below r') :
    wind es r = wind es r' := by
  unfold wind
  congr 1
  apply List.map_congr_left
  intro e he
  rw [h e he]

theorem memW_congr (j : Jordan) (r r' : Pt) (h : ∀ e ∈ j.edges, e.below r = e.below r') :
    memW j r = memW j r' := by
  unfold memW
  rw [wind_congr _ _ _ h]

theorem all_congr_mem {α : Type} {l : List α} {f g : α → Bool} (h : ∀ x ∈ l, f x = g x) : l.all f = l.all g := by
  induction l with
  | nil => rfl
  | cons a t ih =>
    rw [List.all_cons, List.all_cons, h a List.mem_cons_self, ih (fun x hx => h x (List.mem_cons_of_mem _ hx))]

theorem any_congr_mem {α : Type} {l : List α} {f g : α → Bool} (h : ∀ x ∈ l, f x = g x) : l.any f = l.any g := by
  induction l with
  | nil => rfl
  | cons a t ih =>
    rw [List.any_cons, List.any_cons, h a List.mem_cons_self, ih (fun x hx => h x (List.mem_cons_of_mem _ hx))]

/-- membership in every curve of a list of curves -/
theorem allMemW_congr (c : List Jordan) (r r' : Pt)
    (h : ∀ e ∈ c.flatMap Jordan.edges, e.below r = e.below r') :
    (c.all fun j => memW j r) = (c.all fun j => memW j r') := by
  apply all_congr_mem
  intro j hj
  exact memW_congr j r r' (fun e he => h e (List.mem_flatMap.2 ⟨j, hj, he⟩))

theorem shape_memW_congr (S : Shape) (r r' : Pt) (h : ∀ e ∈ S.edges, e.below r = e.below r') :
    S.memW r = S.memW r' := by
  cases S with
  | empty => rfl
  | whole => rfl
  | simple j =>
    exact memW_congr j r r' (fun e he => h e (List.mem_flatMap.2 ⟨j, List.mem_singleton.2 rfl, he⟩))
  | connected js => exact allMemW_congr js r r' h
  | disjoint cs =>
    change (cs.any fun c => c.all fun j => memW j r) = (cs.any fun c => c.all fun j => memW j r')
    apply any_congr_mem
    intro c hc
    apply allMemW_congr
    intro e he
    obtain ⟨j, hj, hej⟩ := List.mem_flatMap.1 he
    exact h e (List.mem_flatMap.2 ⟨j, List.mem_flatten.2 ⟨c, hc, hj⟩, hej⟩)

/-! ### the region checkers -/

theorem regionCheck_sound (op : BOp) (A B R : Shape) (h : regionCheck op A B R = true) (r : Pt)
    (hx : r.x ∉ criticalXs (A.edges ++ B.edges ++ R.edges))
    (hoff : OffLines (A.edges ++ B.edges ++ R.edges) r) :
    R.memW r = op.eval (A.memW r) (B.memW r) := by
  have key := slabCheck_sound _ (regionOpPred op A B R) ?_ h r hx hoff
  · simpa [regionOpPred] using key
  · intro s s' hs
    unfold regionOpPred
    rw [shape_memW_congr A s s' (fun e he => hs e (by simp [he])),
      shape_memW_congr B s s' (fun e he => hs e (by simp [he])),
      shape_memW_congr R s s' (fun e he => hs e (by simp [he]))]

theorem regionEq_sound (A B : Shape) (h : regionEq A B = true) (r : Pt)
    (hx : r.x ∉ criticalXs (A.edges ++ B.edges)) (hoff : OffLines (A.edges ++ B.edges) r) :
    A.memW r = B.memW r := by
  have key := slabCheck_sound _ (fun r => A.memW r == B.memW r) ?_ h r hx hoff
  · simpa using key
  · intro s s' hs
    rw [shape_memW_congr A s s' (fun e he => hs e (by simp [he])),
      shape_memW_congr B s s' (fun e he => hs e (by simp [he]))]

theorem regionSubset_sound (B A : Shape) (h : regionSubset B A = true) (r : Pt)
    (hx : r.x ∉ criticalXs (A.edges ++ B.edges)) (hoff : OffLines (A.edges ++ B.edges) r) :
    B.memW r = true → A.memW r = true := by
  have key := slabCheck_sound _ (fun r => !(B.memW r) || A.memW r) ?_ h r hx hoff
  · intro hb
    simpa [hb] using key
  · intro s s' hs
    rw [shape_memW_congr A s s' (fun e he => hs e (by simp [he])),
      shape_memW_congr B s s' (fun e he => hs e (by simp [he]))]

theorem regionCompl_sound (A R : Shape) (h : regionCompl A R = true) (r : Pt)
    (hx : r.x ∉ criticalXs (A.edges ++ R.edges)) (hoff : OffLines (A.edges ++ R.edges) r) :
    R.memW r = !(A.memW r) := by
  have key := slabCheck_sound _ (fun r => R.memW r == !(A.memW r)) ?_ h r hx hoff
  · simpa using key
  · intro s s' hs
    rw [shape_memW_congr A s s' (fun e he => hs e (by simp [he])),
      shape_memW_congr R s s' (fun e he => hs e (by simp [he]))]

theorem regionEmpty_sound (A : Shape) (h : regionEmpty A = true) (r : Pt)
    (hx : r.x ∉ criticalXs A.edges) (hoff : OffLines A.edges r) : A.memW r = false := by
  have key := slabCheck_sound _ (fun r => !(A.memW r)) ?_ h r hx hoff
  · simpa using key
  · intro s s' hs
    rw [shape_memW_congr A s s' hs]

theorem regionWhole_sound (A : Shape) (h : regionWhole A = true) (r : Pt)
    (hx : r.x ∉ criticalXs A.edges) (hoff : OffLines A.edges r) : A.memW r = true := by
  refine slabCheck_sound _ (fun r => A.memW r) ?_ h r hx hoff
  intro s s' hs
  exact shape_memW_congr A s s' hs

/-- at most one component contains an admissible point -/
theorem componentsDisjoint_sound (cs : List (List Jordan)) (h : componentsDisjoint cs = true) (r : Pt)
    (hx : r.x ∉ criticalXs (cs.flatten.flatMap Jordan.edges))
    (hoff : OffLines (cs.flatten.flatMap Jordan.edges) r) :
    (cs.filter fun c => c.all fun j => memW j r).length ≤ 1 := by
  have key := slabCheck_sound _
    (fun r => decide (((cs.filter fun c => c.all fun j => ShapeVerif.memW j r).length) ≤ 1)) ?_ h r hx hoff
  · simpa using key
  · intro s s' hs
    have : (cs.filter fun c => c.all fun j => memW j s) = (cs.filter fun c => c.all fun j => memW j s') := by
      apply List.filter_congr
      intro c hc
      apply allMemW_congr
      intro e he
      obtain ⟨j, hj, hej⟩ := List.mem_flatMap.1 he
      exact hs e (List.mem_flatMap.2 ⟨j, List.mem_flatten.2 ⟨c, hc, hj⟩, hej⟩)
    rw [this]

theorem getD_memW_congr (leaves : List Shape) (i : Nat) (r r' : Pt)
    (h : ∀ e ∈ leaves.flatMap Shape.edges, e.below r = e.below r') :
    (leaves.getD i Shape.empty).memW r = (leaves.getD i Shape.empty).memW r' := by
  rw [List.getD_eq_getElem?_getD]
  cases hi : leaves[i]? with
  | none => rfl
  | some S =>
    have hS : S ∈ leaves := List.mem_of_getElem? hi
    exact shape_memW_congr S r r' (fun e he => h e (List.mem_flatMap.2 ⟨S, hS, he⟩))

theorem exprCheck_sound (leaves : List Shape) (e : Expr) (R : Shape) (h : exprCheckFind leaves e R = none) (r : Pt)
    (hx : r.x ∉ criticalXs (leaves.flatMap Shape.edges ++ R.edges))
    (hoff : OffLines (leaves.flatMap Shape.edges ++ R.edges) r) :
    R.memW r = e.evalSpec (fun i => (leaves.getD i Shape.empty).memW r) := by
  unfold exprCheckFind at h
  rw [slabFind_eq_none_iff] at h
  have key := slabCheck_sound _
    (fun r => R.memW r == e.evalSpec fun i => (leaves.getD i Shape.empty).memW r) ?_ h r hx hoff
  · simpa using key
  · intro s s' hs
    have hfun : (fun i => (leaves.getD i Shape.empty).memW s) = (fun i => (leaves.getD i Shape.empty).memW s') := by
      funext i
      exact getD_memW_congr leaves i s s' (fun e he => hs e (by simp [he]))
    rw [hfun, shape_memW_congr R s s' (fun e he => hs e (by simp [he]))]

end ShapeVerif
