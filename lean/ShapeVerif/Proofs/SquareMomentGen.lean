/- The square primitive AS WRITTEN IN THE SOURCE (`Gen.squareVertices`, regenerated from primitive.py)
has exactly the moments of the square `[c.x − s/2, c.x + s/2] × [c.y − s/2, c.y + s/2]`, for all exponents:
two of its edges are horizontal (boundary integral 0), two are vertical (fundamental theorem of calculus). -/
import ShapeVerif.Gen.Tables
import ShapeVerif.Proofs.RectMomentGen
import Mathlib.Tactic.Ring
import Mathlib.Tactic.FieldSimp

namespace ShapeVerif

theorem Pt.add_x' (c p : Pt) : (c + p).x = c.x + p.x := rfl
theorem Pt.add_y' (c p : Pt) : (c + p).y = c.y + p.y := rfl

theorem squareVertices_eq (s : Rat) (c : Pt) :
    Gen.squareVertices s c
      = [c + ⟨s / 2, s / 2⟩, c + ⟨-(s / 2), s / 2⟩, c + ⟨-(s / 2), -(s / 2)⟩, c + ⟨s / 2, -(s / 2)⟩] := rfl

theorem source_square_moment_all (s : Rat) (c : Pt) (a b : Nat) :
    Jordan.moment (Jordan.fromVertices (Gen.squareVertices s c)) a b
      = ((c.x + s / 2) ^ (a + 1) - (c.x - s / 2) ^ (a + 1)) / ((a + 1 : Nat) : Rat)
        * (((c.y + s / 2) ^ (b + 1) - (c.y - s / 2) ^ (b + 1)) / ((b + 1 : Nat) : Rat)) := by
  unfold Jordan.moment
  rw [squareVertices_eq, jev_fromVertices_cons]
  simp only [Misc.pathSum]
  rw [exactVertical_horizontal_edge (c + ⟨s / 2, s / 2⟩) (c + ⟨-(s / 2), s / 2⟩) rfl,
    exactVertical_vertical_edge (c + ⟨-(s / 2), s / 2⟩) (c + ⟨-(s / 2), -(s / 2)⟩) rfl,
    exactVertical_horizontal_edge (c + ⟨-(s / 2), -(s / 2)⟩) (c + ⟨s / 2, -(s / 2)⟩) rfl,
    exactVertical_vertical_edge (c + ⟨s / 2, -(s / 2)⟩) (c + ⟨s / 2, s / 2⟩) rfl]
  simp only [Pt.add_x', Pt.add_y']
  have e1 : c.x + -(s / 2) = c.x - s / 2 := by ring
  have e2 : c.y + -(s / 2) = c.y - s / 2 := by ring
  rw [e1, e2]
  ring

theorem source_square_area (s : Rat) (c : Pt) :
    Jordan.area (Jordan.fromVertices (Gen.squareVertices s c)) = s ^ 2 := by
  have h := source_square_moment_all s c 0 0
  unfold Jordan.moment at h
  unfold Jordan.area
  simp only [Nat.zero_add, Nat.cast_one, div_one, pow_one] at h
  rw [h]
  ring

theorem source_square_centroid (s : Rat) (c : Pt) :
    Jordan.moment (Jordan.fromVertices (Gen.squareVertices s c)) 1 0 = c.x * s ^ 2 ∧
    Jordan.moment (Jordan.fromVertices (Gen.squareVertices s c)) 0 1 = c.y * s ^ 2 := by
  constructor
  · rw [source_square_moment_all]
    norm_num
    ring
  · rw [source_square_moment_all]
    norm_num
    ring

end ShapeVerif
