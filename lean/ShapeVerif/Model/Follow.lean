/-
M8 — control structure of the recombination loops.  Mathlib-free, executable, no geometry: every geometric
question the Python asks is an ORACLE passed as a parameter, so the theorems about these functions hold for
every possible behaviour of the geometric predicates (exact, rounded, or wrong).

Mirrors (line numbers of /repo/src/shapepy/shape.py unless stated otherwise):
 * `pursueNext`, `pursuePathFuel`, `pursuePath`   — `FollowPath.pursue_path`            l.158–198
 * `isRotation`                                    — `FollowPath.is_rotation`            l.201–223
 * `filterRotations`                               — `FollowPath.filter_rotations`       l.226–241
 * `pursueAll`, `followPath`                       — `FollowPath.follow_path`            l.263–281 (index level:
                                                      `indexs_to_jordan` l.244–260 is a table look-up)
 * `startIndexs`                                   — `midpoints_one_shape`/`midpoints_shapes` l.284–324
 * `popMax`, `growFuel`/`grow`, `divideConnectedsFuel`/`divideConnecteds` — `DivideConnecteds` l.1194–1231
 * `findUnion`, `cleanLoopFuel`, `cleanLoop`       — `JordanCurve.clean`, jordancurve.py  l.278–303

Every Python `while` loop is modelled TWICE where useful: with an explicit fuel argument (kernel-reducible, used
by the examples; running out of fuel is reported, never silently absorbed) and/or by well-founded recursion
(totality checked by Lean; the few lemmas below are the termination arguments needed by `decreasing_by`).
The theorems of `Props/C01b.lean` state that the fuel is never exhausted.
-/

namespace ShapeVerif

/-! ## `FollowPath.pursue_path` -/

/-- abnormal ends of a modelled loop -/
inductive LoopErr
  /-- model artefact: the explicit fuel ran out (`pursuePath_terminates` shows it cannot) -/
  | outOfFuel
  /-- `all_segments[index_jordan]` with `index_jordan ≥ len(jordans)` (Python `IndexError`) -/
  | indexError
  /-- `index_segment %= len(all_segments[index_jordan])` with an empty curve (Python `ZeroDivisionError`) -/
  | zeroDivision
deriving DecidableEq, Repr

deriving instance DecidableEq for Except

/-- a pair `(index_jordan, index_segment)` -/
abbrev Idx := Nat × Nat

/-- The geometric oracle of `pursue_path`, asked about the END point `P` of segment `s` of curve `j`
(l.183–197):
 * `none`                — `possibles` is empty: `P` lies on no other curve;
 * `some (j', some s')`  — `j' = possibles[0]` is the first other curve containing `P` and `s'` is the first
                           segment of `j'` whose first control point equals `P` (the `for … break` of l.194–197);
 * `some (j', none)`     — `j' = possibles[0]` but NO segment of `j'` starts at `P` (the `for` of l.194 ends
                           without `break`): the code then keeps the OLD `index_segment`. -/
abbrev Jump := Nat → Nat → Option (Nat × Option Nat)

/-- l.183–197: the pair `(index_jordan, index_segment)` at the end of one iteration, BEFORE the `%=` of the
next one -/
def pursueNext (jump : Jump) (cur : Idx) : Idx :=
  match jump cur.1 cur.2 with
  | none => (cur.1, cur.2 + 1)            -- l.190–192 `index_segment += 1; continue`
  | some (j', some s') => (j', s')        -- l.193, l.196
  | some (j', none) => (j', cur.2)        -- l.193, the loop of l.194 finds nothing

/-- the `while True` loop of l.177–197 with explicit fuel.  `lens[j] = len(jordans[j].segments)`;
`p` = the current `(index_jordan, index_segment)` at the top of the loop; `matrix` = the list built so far. -/
def pursuePathFuel (lens : List Nat) (jump : Jump) : Nat → Idx → List Idx → Except LoopErr (List Idx)
  | 0, _, _ => .error .outOfFuel
  | fuel + 1, p, matrix =>
    match lens[p.1]? with
    | none => .error .indexError                         -- l.178 `all_segments[index_jordan]`
    | some n =>
      if n = 0 then .error .zeroDivision                 -- l.178 `%= 0`
      else
        let cur : Idx := (p.1, p.2 % n)                  -- l.178
        if cur ∈ matrix then .ok matrix                  -- l.180–181
        else pursuePathFuel lens jump fuel (pursueNext jump cur) (matrix ++ [cur])   -- l.182–197

/-- `FollowPath.pursue_path(index_jordan, index_segment, jordans)`; the fuel is the total number of
segments plus one -/
def pursuePath (lens : List Nat) (jump : Jump) (start : Idx) : Except LoopErr (List Idx) :=
  pursuePathFuel lens jump (lens.sum + 1) start []

/-- l.178 alone: the pair after `index_segment %= len(...)` (`s % 0 = s` in Lean; the loop raises instead) -/
def normIdx (lens : List Nat) (p : Idx) : Idx := (p.1, p.2 % lens[p.1]?.getD 0)

/-- one full turn of the loop seen from a normalised pair: l.183–197 followed by l.178 -/
def pursueStep (lens : List Nat) (jump : Jump) (cur : Idx) : Idx := normIdx lens (pursueNext jump cur)

/-- `(j, s)` designates an existing segment -/
def validIdx (lens : List Nat) (p : Idx) : Prop := ∃ n, lens[p.1]? = some n ∧ p.2 < n

instance (lens : List Nat) (p : Idx) : Decidable (validIdx lens p) :=
  match h : lens[p.1]? with
  | none => isFalse (by intro ⟨n, h1, _⟩; simp [h] at h1)
  | some n => if h2 : p.2 < n then isTrue ⟨n, h, h2⟩
              else isFalse (by intro ⟨m, h1, h3⟩; simp [h] at h1; subst h1; exact h2 h3)

/-! ## `FollowPath.is_rotation`, `filter_rotations`, `follow_path` -/

/-- `FollowPath.is_rotation(oneobj, other)` (l.201–223).
`[] , []` gives `false`: the `for elem in oneobj` loop of l.212 ends without `break`, so its `else` returns
`False`. -/
def isRotation {α} [DecidableEq α] (a b : List α) : Bool :=
  if a.length ≠ b.length then false                      -- l.209–210
  else match b with
    | [] => false                                        -- l.212–217 with `oneobj` empty
    | b0 :: _ =>
      let rotation := a.idxOf b0                         -- l.211–215: first index with `elem == other[0]`
      if rotation < a.length then                        -- otherwise l.216–217 `else: return False`
        (List.range b.length).all fun i =>               -- l.219–222
          decide (b[i]? = a[(i + rotation) % b.length]?)
      else false

/-- `FollowPath.filter_rotations` (l.226–241): keep a line unless it is a rotation of an already kept line -/
def filterRotations {α} [DecidableEq α] (matrix : List (List α)) : List (List α) :=
  matrix.foldl (fun filtered line =>
    if filtered.any (fun fline => isRotation line fline) then filtered else filtered ++ [line]) []

/-- l.273–275 of `follow_path`: one `pursue_path` per start pair (the first exception propagates) -/
def pursueAll (lens : List Nat) (jump : Jump) : List Idx → Except LoopErr (List (List Idx))
  | [] => .ok []
  | p :: ps =>
    match pursuePath lens jump p with
    | .error e => .error e
    | .ok m =>
      match pursueAll lens jump ps with
      | .error e => .error e
      | .ok ms => .ok (m :: ms)

/-- `FollowPath.follow_path` at the index level (l.272–276); every returned line is then turned into a curve by
`indexs_to_jordan` -/
def followPath (lens : List Nat) (jump : Jump) (starts : List Idx) : Except LoopErr (List (List Idx)) :=
  match pursueAll lens jump starts with
  | .error e => .error e
  | .ok ms => .ok (filterRotations ms)

/-- `midpoints_shapes` (l.284–324) at the index level: `keep j s` is the oracle "the mid point of segment `s`
of curve `j` (numbered over `shapea.jordans + shapeb.jordans`) is outside the other operand, boundary counted
as inside" (union, l.333) / "inside the other operand, boundary counted as outside" (intersection, l.347). -/
def startIndexs (lens : List Nat) (keep : Nat → Nat → Bool) : List Idx :=
  (List.range lens.length).flatMap fun j =>
    ((List.range (lens[j]?.getD 0)).filter (keep j)).map fun s => (j, s)

/-! ## `DivideConnecteds` -/

/-- `index = absareas.index(max(absareas)); simples.pop(index)` (l.1211–1214): the FIRST item of maximal key
and the list without it -/
def popMax {α β} [LE β] [DecidableRel (α := β) (· ≤ ·)] (key : α → β) : List α → Option (α × List α)
  | [] => none
  | x :: xs =>
    match popMax key xs with
    | none => some (x, [])
    | some (y, ys) => if key y ≤ key x then some (x, xs) else some (y, x :: ys)

/-- the inner `while len(simples)` loop, l.1215–1225: `internal` = the items compatible with EVERY member of
`connected`, the others go to `externals`.  `compatible simple subsimple` stands for
`not (jordan not in subsimple or subjordan not in simple)`. -/
def splitInternal {α} (compatible : α → α → Bool) (connected simples : List α) : List α × List α :=
  simples.partition fun simple => connected.all fun subsimple => compatible simple subsimple

/-- the outer `while len(simples)` loop, l.1210–1226, with fuel: returns `(connected, externals)`;
`none` = out of fuel -/
def growFuel {α β} [LE β] [DecidableRel (α := β) (· ≤ ·)] (key : α → β) (compatible : α → α → Bool) :
    Nat → List α → List α → List α → Option (List α × List α)
  | 0, _, _, _ => none
  | fuel + 1, simples, connected, externals =>
    match popMax key simples with
    | none => some (connected, externals)                                   -- l.1210 `len(simples) == 0`
    | some (m, rest) =>
      let connected' := connected ++ [m]                                    -- l.1214
      let io := splitInternal compatible connected' rest                    -- l.1215–1225
      growFuel key compatible fuel io.1 connected' (externals ++ io.2)      -- l.1226

/-- `DivideConnecteds` (l.1194–1231) with fuel: the list of groups (a group of length 1 is returned by the
Python as the `SimpleShape` itself, a longer one as `ConnectedShape(group)`); `none` = out of fuel -/
def divideConnectedsFuel {α β} [LE β] [DecidableRel (α := β) (· ≤ ·)] (key : α → β)
    (compatible : α → α → Bool) : Nat → List α → Option (List (List α))
  | 0, _ => none
  | fuel + 1, simples =>
    if simples.isEmpty then some []                                         -- l.1205–1206
    else
      match growFuel key compatible (simples.length + 1) simples [] [] with
      | none => none
      | some (connected, externals) =>
        match divideConnectedsFuel key compatible fuel externals with       -- l.1231
        | none => none
        | some groups => some (connected :: groups)

theorem popMax_length {α β} [LE β] [DecidableRel (α := β) (· ≤ ·)] (key : α → β) :
    ∀ (l : List α) (m : α) (rest : List α), popMax key l = some (m, rest) → rest.length + 1 = l.length := by
  intro l
  induction l with
  | nil => intro m rest h; simp [popMax] at h
  | cons x xs ih =>
    intro m rest h
    unfold popMax at h
    split at h
    · simp at h; obtain ⟨_, rfl⟩ := h; simp_all
      cases xs with
      | nil => rfl
      | cons y ys => unfold popMax at *; split at * <;> simp_all <;> split at * <;> simp_all
    · rename_i y ys hy
      split at h
      · simp at h; obtain ⟨_, rfl⟩ := h; simp
      · simp at h; obtain ⟨_, rfl⟩ := h
        have := ih y ys hy
        simp; omega

theorem length_filter_add_not {α} (p : α → Bool) (l : List α) :
    (l.filter p).length + (l.filter (not ∘ p)).length = l.length := by
  induction l with
  | nil => rfl
  | cons x xs ih =>
    simp only [List.filter_cons, Function.comp] at *
    by_cases hp : p x = true <;> simp [hp] <;> omega

theorem splitInternal_length {α} (compatible : α → α → Bool) (connected simples : List α) :
    (splitInternal compatible connected simples).1.length +
      (splitInternal compatible connected simples).2.length = simples.length := by
  unfold splitInternal
  rw [List.partition_eq_filter_filter]
  exact length_filter_add_not _ _

/-- the outer loop of l.1210–1226 by well-founded recursion: `internal` is shorter than `simples` because the
maximal item was popped -/
def grow {α β} [LE β] [DecidableRel (α := β) (· ≤ ·)] (key : α → β) (compatible : α → α → Bool)
    (simples connected externals : List α) : List α × List α :=
  match _h : popMax key simples with
  | none => (connected, externals)
  | some (m, rest) =>
    grow key compatible (splitInternal compatible (connected ++ [m]) rest).1 (connected ++ [m])
      (externals ++ (splitInternal compatible (connected ++ [m]) rest).2)
termination_by simples.length
decreasing_by
  have h1 := popMax_length key simples m rest _h
  have h2 := splitInternal_length compatible (connected ++ [m]) rest
  omega

theorem grow_none {α β} [LE β] [DecidableRel (α := β) (· ≤ ·)] (key : α → β) (compatible : α → α → Bool)
    (simples connected externals : List α) (h : popMax key simples = none) :
    grow key compatible simples connected externals = (connected, externals) := by
  rw [grow]; split
  · rfl
  · simp_all

theorem grow_some {α β} [LE β] [DecidableRel (α := β) (· ≤ ·)] (key : α → β) (compatible : α → α → Bool)
    (simples connected externals : List α) (m : α) (rest : List α) (h : popMax key simples = some (m, rest)) :
    grow key compatible simples connected externals =
      grow key compatible (splitInternal compatible (connected ++ [m]) rest).1 (connected ++ [m])
        (externals ++ (splitInternal compatible (connected ++ [m]) rest).2) := by
  rw [grow]; split
  · simp_all
  · rename_i m' rest' h'; rw [h] at h'; cases h'; rfl

theorem popMax_eq_none {α β} [LE β] [DecidableRel (α := β) (· ≤ ·)] (key : α → β) (l : List α) :
    popMax key l = none ↔ l = [] := by
  cases l with
  | nil => simp [popMax]
  | cons x xs => unfold popMax; split <;> simp; split <;> simp

theorem grow_length {α β} [LE β] [DecidableRel (α := β) (· ≤ ·)] (key : α → β) (compatible : α → α → Bool)
    (simples connected externals : List α) :
    (grow key compatible simples connected externals).1.length +
      (grow key compatible simples connected externals).2.length
      = simples.length + connected.length + externals.length ∧
    (simples ≠ [] → connected.length <
      (grow key compatible simples connected externals).1.length) ∧
    connected.length ≤ (grow key compatible simples connected externals).1.length := by
  induction simples, connected, externals using grow.induct key compatible with
  | case1 simples connected externals h =>
    rw [grow_none _ _ _ _ _ h]
    have := (popMax_eq_none key simples).1 h
    subst this; simp
  | case2 simples connected externals m rest h ih =>
    rw [grow_some _ _ _ _ _ m rest h]
    have h1 := popMax_length key simples m rest h
    have h2 := splitInternal_length compatible (connected ++ [m]) rest
    simp only [List.length_append, List.length_cons, List.length_nil] at ih
    refine ⟨by omega, fun _ => by omega, by omega⟩

/-- `DivideConnecteds` (l.1194–1231) by well-founded recursion on `len(simples)`:
`len(externals) < len(simples)` because `connected` received at least the maximal item -/
def divideConnecteds {α β} [LE β] [DecidableRel (α := β) (· ≤ ·)] (key : α → β)
    (compatible : α → α → Bool) (simples : List α) : List (List α) :=
  if _h : simples = [] then []
  else
    (grow key compatible simples [] []).1 ::
      divideConnecteds key compatible (grow key compatible simples [] []).2
termination_by simples.length
decreasing_by
  have h1 := grow_length key compatible simples [] []
  have h2 := h1.2.1 _h
  have h3 := h1.1
  simp only [List.length_nil] at h2 h3
  omega

/-! ## `JordanCurve.clean` -/

/-- the `for i in range(nsegments)` scan of jordancurve.py l.281–300, from index `i` with `todo` indices left:
the first `i` at which `segments[i] | segments[(i+1) % nsegments]` succeeds, with the united segment.
`unite seg0 seg1 = none` stands for `seg0.degree != seg1.degree` (l.285) or `ValueError` (l.299). -/
def findUnionFrom {σ} (unite : σ → σ → Option σ) (segs : List σ) : Nat → Nat → Option (Nat × σ)
  | 0, _ => none                                                           -- l.301 `else:` of the `for`
  | todo + 1, i =>
    match segs[i]?, segs[(i + 1) % segs.length]? with
    | some seg0, some seg1 =>
      match unite seg0 seg1 with
      | some u => some (i, u)                                              -- l.290–298 `break`
      | none => findUnionFrom unite segs todo (i + 1)                      -- l.286 / l.299–300
    | _, _ => findUnionFrom unite segs todo (i + 1)                        -- unreachable: both indices < n

/-- `for i in range(nsegments)` -/
def findUnion {σ} (unite : σ → σ → Option σ) (segs : List σ) : Option (Nat × σ) :=
  findUnionFrom unite segs segs.length 0

/-- the `while True` loop of `JordanCurve.clean` (jordancurve.py l.279–302) with fuel; returns the final
segment list and the number of unions performed; `none` = out of fuel -/
def cleanLoopFuel {σ} (unite : σ → σ → Option σ) : Nat → List σ → Nat → Option (List σ × Nat)
  | 0, _, _ => none
  | fuel + 1, segs, k =>
    match findUnion unite segs with
    | none => some (segs, k)                                               -- l.301–302 `else: break`
    | some (i, u) =>                                                       -- l.296–298
      cleanLoopFuel unite fuel ((segs.set i u).eraseIdx ((i + 1) % segs.length)) (k + 1)

/-- `JordanCurve.clean` on the segment list: fuel = number of segments + 1 -/
def cleanLoop {σ} (unite : σ → σ → Option σ) (segs : List σ) : Option (List σ × Nat) :=
  cleanLoopFuel unite (segs.length + 1) segs 0

end ShapeVerif
