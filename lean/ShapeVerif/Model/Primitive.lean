/-
M9b — primitive factories.  Mirrors `Primitive.square/triangle/regular_polygon(nsides=4)/polygon`
and the circle construction parameterised by h = tan(θ/2): cos θ = (1−h²)/(1+h²), sin θ = 2h/(1+h²).
-/
import ShapeVerif.Model.Plot

namespace ShapeVerif
namespace Primitive

/-- vertices of `Primitive.square(side, center)` in the code's order -/
def square (side : Rat) (c : Pt) : List Pt :=
  let s := side / 2
  [c + ⟨s, s⟩, c + ⟨-s, s⟩, c + ⟨-s, -s⟩, c + ⟨s, -s⟩]

/-- vertices of `Primitive.triangle(side, center)` -/
def triangle (side : Rat) (c : Pt) : List Pt := [c + ⟨0, 0⟩, c + ⟨side, 0⟩, c + ⟨0, side⟩]

/-- vertices of `Primitive.regular_polygon(4, radius, center)` -/
def regular4 (r : Rat) (c : Pt) : List Pt := [c + ⟨r, 0⟩, c + ⟨0, r⟩, c + ⟨-r, 0⟩, c + ⟨0, -r⟩]

/-- the validation of `square`, `triangle`, `regular_polygon`, `circle` on numeric arguments -/
def validSize (s : Rat) : Bool := decide (0 < s)
def validRegular (n : Nat) (r : Rat) : Bool := decide (3 ≤ n) && decide (0 < r)
def validCircle (r : Rat) (ndiv : Nat) : Bool := decide (0 < r) && decide (4 ≤ ndiv)

def cosH (h : Rat) : Rat := (1 - h * h) / (1 + h * h)
def sinH (h : Rat) : Rat := 2 * h / (1 + h * h)

/-- first quadratic arc of `Primitive.circle(radius)`: start (r,0), middle r·(1,h), end = start rotated by θ -/
def firstArc (r h : Rat) : Seg := [⟨r, 0⟩, ⟨r, r * h⟩, ⟨r * cosH h, r * sinH h⟩]

/-- the k-th arc: the first arc rotated k times by θ -/
def rotK (c s : Rat) : Nat → Pt → Pt
  | 0, p => p
  | k + 1, p => (rotK c s k p).rot c s
def arc (r h : Rat) (k : Nat) : Seg := (firstArc r h).map (rotK (cosH h) (sinH h) k)

end Primitive
end ShapeVerif
