/-
M6 — object-graph model: identity-shared mutable `Point2D` cells, curves as lists of cell ids, the
cached signed length, deep copies, in-place transformations and in-place splitting.
Mirrors the aliasing behaviour of `Point2D.__new__` (returns its argument), `JordanCurve.from_segments`
(junction objects shared between neighbours), `JordanCurve.__deepcopy__`, `JordanCurve.vertices`
(id-deduplicated), `move/scale/rotate/invert`, the `segments` setter (resets the cache) and
`__float__` (fills the cache).
-/
import ShapeVerif.Model.Wf

namespace ShapeVerif

structure HCurve where
  segs : List (List Nat)
  /-- geometry at the time the signed length was computed and cached (`__lenght`) -/
  cache : Option Jordan
deriving Repr

structure Heap where
  cells : List Pt
  vars : List (Nat × HCurve)
deriving Repr

inductive HeapOp
  | poly (v : Nat) (vs : List Pt)
  | move (v : Nat) (d : Pt)
  | scale (v : Nat) (sx sy : Rat)
  | rot (v : Nat) (c s : Rat)
  | invert (v : Nat)
  | copy (dst src : Nat)
  | adopt (dst src : Nat)
  | len (v : Nat)
  | split (v : Nat) (pairs : List (Nat × Rat))
deriving Repr

namespace Heap
def init : Heap := ⟨[], []⟩

def lookup (h : Heap) (v : Nat) : Option HCurve := (h.vars.find? fun p => p.1 == v).map (·.2)
def setVar (h : Heap) (v : Nat) (c : HCurve) : Heap :=
  { h with vars := (v, c) :: h.vars.filter fun p => p.1 != v }

def cell (h : Heap) (i : Nat) : Pt := h.cells.getD i Pt.zero
def geom (h : Heap) (c : HCurve) : Jordan := c.segs.map fun s => s.map h.cell

def dedupNat (l : List Nat) : List Nat := l.foldl (fun acc i => if acc.contains i then acc else acc ++ [i]) []
/-- `JordanCurve.vertices`: ids in order of first occurrence -/
def ids (c : HCurve) : List Nat := dedupNat c.segs.flatten

/-- apply `f` to every cell of the id list, each exactly once -/
def mapCells (h : Heap) (is : List Nat) (f : Pt → Pt) : Heap :=
  { h with cells := is.foldl (fun cs i => cs.set i (f (cs.getD i Pt.zero))) h.cells }

/-- allocate fresh cells for the given values; returns the new heap and the first new id -/
def alloc (h : Heap) (ps : List Pt) : Heap × Nat := ({ h with cells := h.cells ++ ps }, h.cells.length)

/-- deep copy: one fresh cell per distinct id, same sharing pattern (`__deepcopy__`) -/
def copyCurve (h : Heap) (c : HCurve) : Heap × HCurve :=
  let is := ids c
  let (h', base) := h.alloc (is.map h.cell)
  let ren := fun i => base + (is.idxOf i)
  (h', ⟨c.segs.map fun s => s.map ren, none⟩)

def step (h : Heap) : HeapOp → Heap × String
  | .poly v vs =>
    let n := vs.length
    let (h', base) := h.alloc vs
    let segs := (List.range n).map fun i => [base + i, base + (i + 1) % n]
    (h'.setVar v ⟨segs, none⟩, "ok")
  | .move v d => match h.lookup v with
    | none => (h, "novar")
    | some c => ((h.mapCells (ids c) fun p => p.move d).setVar v { c with cache := none }, "ok")
  | .scale v sx sy => match h.lookup v with
    | none => (h, "novar")
    | some c => ((h.mapCells (ids c) fun p => p.scale sx sy).setVar v { c with cache := none }, "ok")
  | .rot v cs sn => match h.lookup v with
    | none => (h, "novar")
    | some c => ((h.mapCells (ids c) fun p => p.rot cs sn).setVar v { c with cache := none }, "ok")
  | .invert v => match h.lookup v with
    | none => (h, "novar")
    | some c => (h.setVar v ⟨(c.segs.map List.reverse).reverse, none⟩, "ok")
  | .copy d s => match h.lookup s with
    | none => (h, "novar")
    | some c => let (h', c') := h.copyCurve c; (h'.setVar d c', "ok")
  | .adopt d s => match h.lookup s with
    | none => (h, "novar")
    | some c => let (h', c') := h.copyCurve c; (h'.setVar d c', "ok")
  | .len v => match h.lookup v with
    | none => (h, "novar")
    | some c => match c.cache with
      | some _ => (h, "cached")
      | none => (h.setVar v { c with cache := some (h.geom c) }, "computed")
  | .split v pairs => match h.lookup v with
    | none => (h, "novar")
    | some c =>
      -- polygons: every kept parameter of edge i creates one fresh junction cell on that edge
      let kept := pairs.filter fun (_, t) => keepNode t
      let (h', segs) := c.segs.zipIdx.foldl (fun (acc : Heap × List (List Nat)) (s, i) =>
        let ns := dedupNodes (sortRat ((kept.filter fun (k, _) => k == i).map (·.2)))
        match s with
        | [a, b] =>
          let pa := acc.1.cell a; let pb := acc.1.cell b
          let (hh, base) := acc.1.alloc (ns.map fun t => lerp pa pb t)
          let mids := (List.range ns.length).map (base + ·)
          let chain := a :: mids ++ [b]
          (hh, acc.2 ++ (chain.zip chain.tail).map fun (x, y) => [x, y])
        | _ => (acc.1, acc.2 ++ [s])) (h, [])
      (h'.setVar v ⟨segs, none⟩, "ok")

/-- the signed-length query answers with the cached geometry when there is one -/
def lenAnswer (h : Heap) (v : Nat) : Option Jordan :=
  (h.lookup v).map fun c => match c.cache with
    | some g => g
    | none => h.geom c

def runOps (h : Heap) : List HeapOp → Heap
  | [] => h
  | op :: rest => runOps (h.step op).1 rest

/-- distinct variables own disjoint cells -/
def sep (h : Heap) : Bool :=
  h.vars.all fun (v, c) => h.vars.all fun (w, d) => v == w || (ids c).all fun i => !(ids d).contains i

/-- a cached length is the length of the current geometry -/
def cacheOK (h : Heap) : Bool :=
  h.vars.all fun (_, c) => match c.cache with
    | none => true
    | some g => g == h.geom c
end Heap

end ShapeVerif
