/-
M2 — open Newton–Cotes quadrature and exact polynomial integration.
Mirrors `Math.open_linspace`, `pynurbs.heavy.IntegratorArray.open_newton_cotes` (weights obtained by
integrating the Lagrange basis exactly; the correspondence check compares them with pynurbs on every
run), `IntegratePlanar.vertical`, `IntegrateJordan.vertical`, `IntegrateShape.polynomial`.
`exactVertical` is the truth: ∫₀¹ x(t)^a y(t)^b y'(t) dt by polynomial arithmetic on coefficient lists.
-/
import ShapeVerif.Model.Bezier

namespace ShapeVerif

/-- `Math.open_linspace(n)`: (2i+1)/(2n) -/
def openNodes (n : Nat) : List Rat :=
  (List.range n).map fun i => ((2 * i + 1 : Nat) : Rat) / ((2 * n : Nat) : Rat)

/-! polynomials as coefficient lists, low degree first -/
def padd : List Rat → List Rat → List Rat
  | [], q => q
  | p, [] => p
  | a :: p, b :: q => (a + b) :: padd p q
def pscale (k : Rat) (p : List Rat) : List Rat := p.map (k * ·)
def pmulX (p : List Rat) : List Rat := 0 :: p
def pmul : List Rat → List Rat → List Rat
  | [], _ => []
  | a :: p, q => padd (pscale a q) (pmulX (pmul p q))
def ppow (p : List Rat) : Nat → List Rat
  | 0 => [1]
  | k + 1 => pmul p (ppow p k)
def peval (p : List Rat) (t : Rat) : Rat := p.foldr (fun c acc => c + t * acc) 0
def pderiv : List Rat → List Rat
  | [] => []
  | _ :: p => (p.zipIdx.map fun (c, k) => ((k + 1 : Nat) : Rat) * c)
/-- ∫₀¹ p -/
def pint01 (p : List Rat) : Rat := (p.zipIdx.map fun (c, k) => c / ((k + 1 : Nat) : Rat)).sum
/-- p · (X − r) -/
def pmulLin (p : List Rat) (r : Rat) : List Rat := padd (pmulX p) (pscale (-r) p)

def lagrangeNum (nodes : List Rat) (i : Nat) : List Rat :=
  nodes.zipIdx.foldl (fun acc (x, j) => if j = i then acc else pmulLin acc x) [1]
def lagrangeDen (nodes : List Rat) (i : Nat) : Rat :=
  let xi := nodes.getD i 0
  nodes.zipIdx.foldl (fun acc (x, j) => if j = i then acc else acc * (xi - x)) 1

/-- open Newton–Cotes weights on `openNodes n` -/
def openWeights (n : Nat) : List Rat :=
  let nodes := openNodes n
  (List.range n).map fun i => pint01 (lagrangeNum nodes i) / lagrangeDen nodes i

def quad (n : Nat) (f : Rat → Rat) : Rat :=
  ((openNodes n).zip (openWeights n)).foldl (fun acc (x, w) => acc + w * f x) 0

/-- the power-basis coefficient list (low degree first) of a Bézier coordinate -/
def coordPoly (cs : List Rat) : List Rat := (canonCoefs cs).reverse

/-- `IntegratePlanar.vertical(curve, a, b, nnodes)` with the default `nnodes = 3 + a + b + degree` -/
def verticalN (s : Seg) (a b n : Nat) : Rat :=
  let d := derivSeg s
  quad n fun t => (evalSeg s t).x ^ a * (evalSeg s t).y ^ b * (evalSeg d t).y

def vertical (s : Seg) (a b : Nat) : Rat := verticalN s a b (3 + a + b + s.degree)

/-- the truth: ∫₀¹ x(t)^a y(t)^b y'(t) dt -/
def exactVertical (s : Seg) (a b : Nat) : Rat :=
  let px := coordPoly s.xs
  let py := coordPoly s.ys
  pint01 (pmul (pmul (ppow px a) (ppow py b)) (pderiv py))

/-- `IntegrateJordan.vertical` -/
def jordanVertical (j : List Seg) (a b : Nat) : Rat := (j.map fun s => vertical s a b).sum
def jordanExactVertical (j : List Seg) (a b : Nat) : Rat := (j.map fun s => exactVertical s a b).sum

/-- `IntegrateShape.polynomial(shape, a, b)` over the list of boundary curves -/
def shapePolynomial (js : List (List Seg)) (a b : Nat) : Rat :=
  ((js.map fun j => jordanVertical j (a + 1) b).sum) / ((1 + a : Nat) : Rat)
def shapeExactMoment (js : List (List Seg)) (a b : Nat) : Rat :=
  ((js.map fun j => jordanExactVertical j (a + 1) b).sum) / ((1 + a : Nat) : Rat)

end ShapeVerif
