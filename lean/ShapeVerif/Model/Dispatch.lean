/-
Operator-dispatch layer of `shapepy/shape.py` as DATA: method bodies are terms of `Term`, guarded
short-cut chains are lists of `(Guard, Term)`.  The concrete terms are NOT written here: they are
regenerated from the Python source by `harness/translate.py` into `Gen/Dispatch.lean` on every run,
and `Props/C01.lean`, `Props/C06.lean` prove by `decide` that the regenerated terms have the right
truth tables.  `den` is the pointwise meaning at one point of the plane: `s`, `o` are the
memberships of `self` and `other` there.
-/
namespace ShapeVerif

inductive Term
  | self | other | empty | whole
  | copy (t : Term)
  | inv (t : Term)          -- `~t`
  | neg (t : Term)          -- `-t`
  | or (a b : Term)         -- `a | b`
  | and (a b : Term)        -- `a & b`
  | sub (a b : Term)        -- `a - b`
  | xor (a b : Term)        -- `a ^ b`
  | add (a b : Term)        -- `a + b`
  | mul (a b : Term)        -- `a * b`
deriving DecidableEq, Repr

/-- bodies of the operator methods a class defines in terms of other operators -/
structure Methods where
  neg : Term
  add : Term
  mul : Term
  sub : Term
  xor : Term
deriving DecidableEq, Repr

/-- pointwise meaning; `|`, `&`, `~` are the primitives (union, intersection, complement), every
other operator node is interpreted by unfolding the translated method body (fuel bounds the unfolding:
a body that calls itself forever yields `none`) -/
def Term.den (m : Methods) : Nat → Term → Bool → Bool → Option Bool
  | 0, _, _, _ => none
  | fuel + 1, t, s, o =>
    match t with
    | .self => some s
    | .other => some o
    | .empty => some false
    | .whole => some true
    | .copy t => Term.den m fuel t s o
    | .inv t => (Term.den m fuel t s o).map (!·)
    | .or a b => do let x ← Term.den m fuel a s o; let y ← Term.den m fuel b s o; pure (x || y)
    | .and a b => do let x ← Term.den m fuel a s o; let y ← Term.den m fuel b s o; pure (x && y)
    | .neg t => do let x ← Term.den m fuel t s o; Term.den m fuel m.neg x false
    | .sub a b => do let x ← Term.den m fuel a s o; let y ← Term.den m fuel b s o; Term.den m fuel m.sub x y
    | .xor a b => do let x ← Term.den m fuel a s o; let y ← Term.den m fuel b s o; Term.den m fuel m.xor x y
    | .add a b => do let x ← Term.den m fuel a s o; let y ← Term.den m fuel b s o; Term.den m fuel m.add x y
    | .mul a b => do let x ← Term.den m fuel a s o; let y ← Term.den m fuel b s o; Term.den m fuel m.mul x y

/-- guards of the short-cut chains of `DefinedShape.__or__/__and__/contains_shape` -/
inductive Guard
  | isWhole (t : Term)      -- `isinstance(t, WholeShape)`
  | isEmpty (t : Term)      -- `isinstance(t, EmptyShape)`
  | subset (a b : Term)     -- `a in b`
deriving DecidableEq, Repr

/-- what a guard that evaluated to True says about one point (a sound containment test is assumed:
this is exactly how an error of C03 becomes an error of C01) -/
def Guard.holdsAt : Guard → Bool → Bool → Bool
  | .isWhole .other, _, o => o
  | .isWhole .self, s, _ => s
  | .isEmpty .other, _, o => !o
  | .isEmpty .self, s, _ => !s
  | .subset .other .self, s, o => !o || s
  | .subset .self .other, s, o => !s || o
  | _, _, _ => true

/-- `if g1: return t1 … ; js = FollowPath.<recombine>(self, other); if len(js) == 0: return onEmpty; return ShapeFromJordans(js)` -/
structure Chain where
  guards : List (Guard × Term)
  recombine : String
  onEmpty : Term
deriving DecidableEq, Repr

/-- every short-cut return denotes `spec s o` at every point where its guard's meaning holds -/
def Chain.shortcutsSound (m : Methods) (c : Chain) (spec : Bool → Bool → Bool) : Bool :=
  c.guards.all fun (g, t) =>
    [true, false].all fun s => [true, false].all fun o =>
      !(g.holdsAt s o) || (Term.den m 16 t s o == some (spec s o))

/-- result objects of short-cut returns must be fresh (`copy(…)`) or a singleton -/
def Term.isFresh : Term → Bool
  | .copy _ => true
  | .empty => true
  | .whole => true
  | .inv _ => true
  | .neg _ => true
  | .or _ _ => true | .and _ _ => true | .sub _ _ => true | .xor _ _ => true | .add _ _ => true | .mul _ _ => true
  | .self => false
  | .other => false

/-- quantifier shape of a membership loop -/
inductive Quant | all | any
deriving DecidableEq, Repr

end ShapeVerif
