/-
M1 — Bézier segments over `Rat`.  Mirrors `shapepy/curve.py`:
  `Math.comb`, `Math.bezier_caract_matrix`, `Math.horner_method`, `BezierCurve.eval`,
  `Derivate.non_rational_bezier` (through pynurbs: control points of the derivative),
  `BezierCurve.split` (pynurbs knot insertion = de Casteljau), `PlanarCurve.box`,
  `Operations.degree_decrease` (pynurbs least squares: literal matrices, re-read from pynurbs by the
  correspondence check on every run), `BezierCurve.clean`.
A coordinate polynomial is handled on `List Rat`; a planar segment is a `List Pt`.
-/
import ShapeVerif.Model.Basic

namespace ShapeVerif

/-- `Math.comb`: the product loop followed by the integer-division loop -/
def comb (n i : Nat) : Nat :=
  let num := (List.range i).foldl (fun v k => v * (n - i + 1 + k)) 1
  (List.range (i - 1)).foldl (fun v k => v / (k + 2)) num

/-- entry (i,j) of `Math.bezier_caract_matrix(degree)` -/
def caractEntry (deg i j : Nat) : Int :=
  if j ≤ deg - i then
    let v : Int := (comb deg i * comb (deg - i) j : Nat)
    if (deg + i + j) % 2 = 1 then -v else v
  else 0

def caractMatrix (deg : Nat) : List (List Int) :=
  (List.range (deg + 1)).map fun i => (List.range (deg + 1)).map fun j => caractEntry deg i j

/-- `Math.horner_method(node, coefs)`, coefficients from the highest power down -/
def horner (t : Rat) (coefs : List Rat) : Rat := coefs.foldl (fun v c => v * t + c) 0

/-- dot product of a coordinate list with column `j` of the basis matrix: `np.dot(ctrlpoints, matrix)[j]` -/
def canonCoef (cs : List Rat) (deg j : Nat) : Rat :=
  (cs.zipIdx.map fun (c, i) => c * (caractEntry deg i j : Rat)).sum

def canonCoefs (cs : List Rat) : List Rat :=
  let deg := cs.length - 1
  (List.range (deg + 1)).map (canonCoef cs deg)

/-- `BezierCurve.eval` on one coordinate -/
def evalCoord (cs : List Rat) (t : Rat) : Rat := horner t (canonCoefs cs)

abbrev Seg := List Pt

def Seg.xs (s : Seg) : List Rat := s.map (·.x)
def Seg.ys (s : Seg) : List Rat := s.map (·.y)
def Seg.degree (s : Seg) : Nat := s.length - 1

/-- `PlanarCurve.eval` / `segment(t)` -/
def evalSeg (s : Seg) (t : Rat) : Pt := ⟨evalCoord s.xs t, evalCoord s.ys t⟩

/-- the Bernstein sum of the documentation: Σ C(n,i) t^i (1-t)^(n-i) c_i -/
def bernsteinCoord (cs : List Rat) (t : Rat) : Rat :=
  let n := cs.length - 1
  (cs.zipIdx.map fun (c, i) => (comb n i : Rat) * t ^ i * (1 - t) ^ (n - i) * c).sum

def bernsteinSeg (s : Seg) (t : Rat) : Pt := ⟨bernsteinCoord s.xs t, bernsteinCoord s.ys t⟩

/-- control values of the derivative: n (c_{i+1} - c_i) -/
def derivCoord (cs : List Rat) : List Rat :=
  let n : Rat := ((cs.length - 1 : Nat) : Rat)
  (cs.zip cs.tail).map fun (a, b) => n * (b - a)

/-- `segment.derivate()`; a constant has the zero derivative with one control point, as
`Derivate.non_rational_bezier` returns `((0,…),)` when `degree - times < 0` -/
def derivSeg (s : Seg) : Seg :=
  if s.length ≤ 1 then [Pt.zero] else (s.zip s.tail).map fun (a, b) => Pt.smul ((s.length - 1 : Nat) : Rat) (b - a)

def derivSegK : Nat → Seg → Seg
  | 0, s => s
  | k + 1, s => derivSegK k (derivSeg s)

/-! ### de Casteljau -/
def dcStep (t : Rat) : List Pt → List Pt
  | a :: b :: rest => lerp a b t :: dcStep t (b :: rest)
  | _ => []

/-- the successive de Casteljau levels, starting with the control polygon itself -/
def dcLevels (t : Rat) : Nat → List Pt → List (List Pt)
  | 0, _ => []
  | fuel + 1, ps => match ps with
    | [] => []
    | _ => ps :: dcLevels t fuel (dcStep t ps)

/-- control polygons of the two halves of the segment cut at `t` -/
def splitAt (s : Seg) (t : Rat) : Seg × Seg :=
  let lv := dcLevels t s.length s
  (lv.filterMap List.head?, (lv.filterMap List.getLast?).reverse)

/-- value by de Casteljau (the last level) -/
def dcEval (s : Seg) (t : Rat) : Pt := ((splitAt s t).1.getLast?).getD Pt.zero

/-- `segment.split(nodes)` for sorted nodes in (0,1): pieces over [0,n1],[n1,n2],…,[nk,1].
`prev` is the parameter where the remaining piece starts. -/
def splitMany (s : Seg) (prev : Rat) : List Rat → List Seg
  | [] => [s]
  | n :: rest =>
    let t := (n - prev) / (1 - prev)
    let (l, r) := splitAt s t
    l :: splitMany r n rest

/-- `PlanarCurve.box` -/
def Seg.box (s : Seg) : Box := Box.ofPts s

/-! ### degree reduction (pynurbs `LeastSquare.spline2spline` on Bézier knot vectors) -/
def decT : Nat → Nat → List (List Rat)
  | 2, 1 => [[5/6, 1/3, -1/6], [-1/6, 1/3, 5/6]]
  | 3, 1 => [[19/20, 3/20, -3/20, 1/20], [-1/4, 3/4, 3/4, -1/4], [1/20, -3/20, 3/20, 19/20]]
  | 3, 2 => [[7/10, 2/5, 1/10, -1/5], [-1/5, 1/10, 2/5, 7/10]]
  | _, _ => []
def decE : Nat → Nat → List (List Rat)
  | 2, 1 => [[1/180, -1/90, 1/180], [-1/90, 1/45, -1/90], [1/180, -1/90, 1/180]]
  | 3, 1 => [[1/2800, -3/2800, 3/2800, -1/2800], [-3/2800, 9/2800, -9/2800, 3/2800],
             [3/2800, -9/2800, 9/2800, -3/2800], [-1/2800, 3/2800, -3/2800, 1/2800]]
  | 3, 2 => [[9/700, -19/1400, -2/175, 17/1400], [-19/1400, 11/700, 13/1400, -2/175],
             [-2/175, 13/1400, 11/700, -19/1400], [17/1400, -2/175, -19/1400, 9/700]]
  | _, _ => []

/-- `np.dot(points, np.dot(materror, points))` with `Point2D * Point2D = inner` -/
def decError (s : Seg) (e : List (List Rat)) : Rat :=
  ((s.zip e).map fun (p, row) => ((s.zip row).map fun (q, c) => c * Pt.inner p q).sum).sum

def applyT (t : List (List Rat)) (s : Seg) : Seg :=
  t.map fun row => (s.zip row).foldl (fun acc (p, c) => acc + Pt.smul c p) Pt.zero

/-- `BezierCurve.clean(tolerance=1e-9)` for degree ≤ 3 (higher degrees are returned unchanged: the
literal matrices stop at 3, which is the range of the properties) -/
def cleanSeg (s : Seg) : Seg :=
  match s.length with
  | 3 => if decError s (decE 2 1) > tol9 then s else applyT (decT 2 1) s
  | 4 =>
    if decError s (decE 3 1) > tol9 then s
    else if decError s (decE 3 2) > tol9 then applyT (decT 3 1) s
    else applyT (decT 3 2) s
  | _ => s

end ShapeVerif
