/-
M4b — winding number about a point for boundaries with CURVED pieces, as `IntegratePlanar.winding_number` computes it
(curve.py, the `nnodes is None and degree > 1` branch): a piece is halved (`split((1/2,))` = de Casteljau at 1/2) while the
point lies in the box of its control points (`Box.__contains__`, 1e-6 margins) and fewer than 32 halvings were made; the
remaining pieces contribute the angle subtended by their chord.  For a closed boundary and a point on none of the chords the
angles add up to the crossing number of the closed chord chain, which is what `windCurved` computes exactly.
`offCurveCert` is the same recursion as a decision: `true` iff the subdivision ends everywhere because the point is outside
the (margin) box of the piece, never because the depth ran out — Props/C02b proves that the point is then on no point of the curve.
-/
import ShapeVerif.Model.Jordan

namespace ShapeVerif

/-- the chords summed for one segment (`fuel` = remaining halvings, 32 in the code) -/
def subdivChords (c : Pt) : Nat → Seg → List Edge
  | 0, s => [s.chord]
  | fuel + 1, s =>
    if s.length ≤ 2 then [s.chord]
    else if (Seg.box s).containsTol c then
      subdivChords c fuel (splitAt s (1 / 2)).1 ++ subdivChords c fuel (splitAt s (1 / 2)).2
    else [s.chord]

/-- every terminal piece excludes the point by its box (the depth bound was never the reason to stop) -/
def offCurveCert (c : Pt) : Nat → Seg → Bool
  | 0, s => !(Seg.box s).containsTol c
  | fuel + 1, s =>
    if (Seg.box s).containsTol c then
      if s.length ≤ 2 then false
      else offCurveCert c fuel (splitAt s (1 / 2)).1 && offCurveCert c fuel (splitAt s (1 / 2)).2
    else true

def curvedDepth : Nat := 32

/-- crossing number of the closed chain of chords the code sums -/
def windCurved (j : Jordan) (r : Pt) : Int := wind (j.flatMap (subdivChords r curvedDepth)) r

/-- region membership for a curved boundary by the subdivided winding number (orientation from the exact area) -/
def memCurved (j : Jordan) (r : Pt) : Bool :=
  if j.ccw then decide (windCurved j r = 1) else decide (windCurved j r = 0)

/-- the point is certified to lie on no piece of the boundary -/
def offBoundaryCert (j : Jordan) (r : Pt) : Bool := j.all fun s => offCurveCert r curvedDepth s

end ShapeVerif
