/-
Exact decision of `curve in shape` for polygons (`DefinedShape.contains_jordan(jordan, boundary)`): a closed polygon J lies in
the (closed or open, by `boundary`) region of a polygon shape iff every vertex of J and the midpoint of every piece into which the
boundary curves of the shape cut the edges of J is contained — between two consecutive meeting points an edge stays strictly
inside, strictly outside, or on the boundary.
-/
import ShapeVerif.Model.Wf

namespace ShapeVerif

/-- parameters in [0,1] at which edge `e` meets any boundary curve of the shape -/
def meetParamsShape (e : Edge) (S : Shape) : List Rat := S.jordans.flatMap (meetParams e)

/-- test points of the curve against the shape: all vertices, and the midpoints of all pieces -/
def curveTestPoints (J : Jordan) (S : Shape) : List Pt :=
  J.edges.flatMap fun e =>
    let ts := dedupRat (sortRat (0 :: 1 :: meetParamsShape e S))
    (ts.map fun t => lerp e.p e.q t) ++ (ts.zip ts.tail).map fun (t0, t1) => lerp e.p e.q ((t0 + t1) / 2)

/-- `shape.contains_jordan(J, boundary)` -/
def curveIn (S : Shape) (J : Jordan) (boundary : Bool) : Bool :=
  (curveTestPoints J S).all fun p => S.mem p boundary

end ShapeVerif
