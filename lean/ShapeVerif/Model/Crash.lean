/-
M6b — interrupted calls.  In `shapepy` (after the committed repairs) the only side effects that a
non-mutating operation (boolean operator, containment, `==`, integral) has on its operand curves are
  (i)  filling the cached signed length  (`HeapOp.len v`), and
  (ii) in-place refinement of an operand curve by `split`  (`HeapOp.split v pairs`),
each of which is published atomically.  An exception or interrupt raised at an internal call
boundary therefore leaves a PREFIX of such a sequence executed: `Heap.crashAfter h ops k`.

The pinned tree was different: the old `SimpleShape._contains_shape` inverted its operand in place,
ran the query and inverted it back (`oldContainsShape`); a crash between the two inversions leaves
the operand denoting the complement.
-/
import ShapeVerif.Model.Heap

namespace ShapeVerif

/-- the side effects a non-mutating operation may have on an operand -/
def HeapOp.isQueryEffect : HeapOp → Bool
  | .len _ => true
  | .split _ _ => true
  | _ => false

/-- the parameters of a split request lie in `[0, 1]` (asserted by the code before it splits);
vacuous for every other operation -/
def HeapOp.nodesInUnit : HeapOp → Prop
  | .split _ pairs => ∀ it ∈ pairs, 0 ≤ it.2 ∧ it.2 ≤ 1
  | _ => True

/-- the heap left behind when the effect sequence `ops` is interrupted after `k` effects -/
def Heap.crashAfter (h : Heap) (ops : List HeapOp) (k : Nat) : Heap := h.runOps (ops.take k)

/-- effect sequence of the OLD (pinned tree) `SimpleShape._contains_shape` on its operand `v`:
`invert v`, the query effects, `invert v` again -/
def oldContainsShape (v : Nat) (query : List HeapOp) : List HeapOp :=
  [HeapOp.invert v] ++ query ++ [HeapOp.invert v]

end ShapeVerif
