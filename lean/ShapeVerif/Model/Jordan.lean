/-
M3/M4 — closed curves (`JordanCurve`) as lists of segments, polygon edges, exact crossing-number
winding, signed area and moments, the constructors and in-place operations at the value level.
Mirrors `shapepy/jordancurve.py` (`from_vertices`, `from_ctrlpoints`, `from_segments`, `invert`, `split`,
`box`, `vertices`, `points(0)`, `IntegrateJordan.*`).
-/
import ShapeVerif.Model.Quadrature

namespace ShapeVerif

abbrev Jordan := List Seg

structure Edge where
  p : Pt
  q : Pt
deriving DecidableEq, Repr

namespace Edge
def lo (e : Edge) : Rat := if e.p.x ≤ e.q.x then e.p.x else e.q.x
def hi (e : Edge) : Rat := if e.p.x ≤ e.q.x then e.q.x else e.p.x
def slope (e : Edge) : Rat := (e.q.y - e.p.y) / (e.q.x - e.p.x)
def icept (e : Edge) : Rat := e.p.y - e.slope * e.p.x
/-- ordinate of the supporting line at abscissa `x` -/
def level (e : Edge) (x : Rat) : Rat := e.slope * x + e.icept
def inRange (e : Edge) (x : Rat) : Bool := decide (e.lo ≤ x) && decide (x < e.hi)
/-- the downward vertical ray from `r` meets `e` (half-open in x) strictly below `r` -/
def below (e : Edge) (r : Pt) : Bool := e.inRange r.x && decide (e.level r.x < r.y)
/-- +1 for an edge travelled left-to-right, −1 otherwise -/
def dir (e : Edge) : Int := if e.p.x < e.q.x then 1 else -1
/-- exact "point lies on the closed segment" -/
def onEdge (e : Edge) (r : Pt) : Bool :=
  decide (Pt.cross (e.q - e.p) (r - e.p) = 0)
    && decide (e.lo ≤ r.x) && decide (r.x ≤ e.hi)
    && decide ((if e.p.y ≤ e.q.y then e.p.y else e.q.y) ≤ r.y)
    && decide (r.y ≤ (if e.p.y ≤ e.q.y then e.q.y else e.p.y))
end Edge

/-- signed crossing number of the downward ray: the exact winding number of a closed polygon about `r` -/
def wind (es : List Edge) (r : Pt) : Int := (es.map fun e => if e.below r then e.dir else 0).sum

/-- the chord of a segment (first to last control point) -/
def Seg.chord (s : Seg) : Edge := ⟨s.headD Pt.zero, s.getLastD Pt.zero⟩

namespace Jordan
def edges (j : Jordan) : List Edge := j.map Seg.chord
def isPolygon (j : Jordan) : Bool := j.all fun s => s.length == 2
def maxDegree (j : Jordan) : Nat := j.foldl (fun m s => if m < s.degree then s.degree else m) 0
/-- `from_vertices` -/
def fromVertices (vs : List Pt) : Jordan :=
  match vs with
  | [] => []
  | v0 :: _ => (vs.zip (vs.tail ++ [v0])).map fun (a, b) => [a, b]
/-- the closing assertion of `from_segments`: every end point `==` the next start point (1e-9) -/
def closedChain (j : Jordan) : Bool :=
  match j with
  | [] => false
  | s0 :: _ => (j.zip (j.tail ++ [s0])).all fun (a, b) =>
      match a.getLast?, b.head? with
      | some e, some s => Pt.eqTol e s
      | _, _ => false
/-- `from_segments`: on success each end point is replaced by the next start point (the shared object) -/
def fromSegments (j : Jordan) : Option Jordan :=
  match j with
  | [] => some []
  | s0 :: _ =>
    if closedChain j then
      some ((j.zip (j.tail ++ [s0])).map fun (a, b) => a.dropLast ++ [b.headD Pt.zero])
    else none
/-- `vertices`: every control point once, in order (junctions are shared objects) -/
def vertices (j : Jordan) : List Pt := j.flatMap fun s => s.dropLast
/-- `points(0)`: start point of every segment, closed -/
def points0 (j : Jordan) : List Pt := j.map fun s => s.headD Pt.zero
def box (j : Jordan) : Box := Box.ofPts (j.flatMap id)
/-- `invert`: reverse the list and every control polygon -/
def invert (j : Jordan) : Jordan := (j.map List.reverse).reverse
/-- ∫ x dy over the curve — the enclosed signed area (`IntegrateJordan.area`) -/
def area (j : Jordan) : Rat := jordanExactVertical j 1 0
/-- the moment ∫∫ x^a y^b of the enclosed region (Green) -/
def moment (j : Jordan) (a b : Nat) : Rat := jordanExactVertical j (a + 1) b / ((a + 1 : Nat) : Rat)
/-- `float(jordan) > 0` — counter-clockwise -/
def ccw (j : Jordan) : Bool := decide (0 < j.area)
def map (f : Pt → Pt) (j : Jordan) : Jordan := List.map (List.map f) j
/-- exact "point on the polygon" -/
def onBoundary (j : Jordan) (r : Pt) : Bool := j.edges.any fun e => e.onEdge r
/-- the code's on-boundary test for straight segments: distance to the closed segment `< 1e-6`,
after the box test with its 1e-6 margins -/
def onBoundaryTol (j : Jordan) (r : Pt) : Bool :=
  j.edges.any fun e =>
    let d := e.q - e.p
    let n2 := Pt.norm2 d
    if n2 = 0 then decide (Pt.norm2 (r - e.p) < tol6 * tol6) else
    let t := Pt.inner (r - e.p) d / n2
    let t := if t < 0 then 0 else if 1 < t then 1 else t
    decide (Pt.norm2 (r - lerp e.p e.q t) < tol6 * tol6)
end Jordan

/-- `IntegrateJordan.winding_number` for polygons, in halves: ±1 on the boundary, else 2·wind -/
def windHalves (j : Jordan) (r : Pt) : Int :=
  if j.onBoundary r then (if j.ccw then 1 else -1) else 2 * wind j.edges r

/-- the comparison table of `SimpleShape._contains_point` on twice the winding value -/
def simpleTable (ccw : Bool) (boundary : Bool) (w2 : Int) : Bool :=
  if ccw then (if boundary then decide (w2 > 0) else decide (w2 = 2))
  else (if boundary then decide (w2 > -2) else decide (w2 = 0))

/-- `SimpleShape.contains_point(p, boundary)` for a polygon -/
def memJ (j : Jordan) (r : Pt) (boundary : Bool) : Bool := simpleTable j.ccw boundary (windHalves j r)

/-- membership by the winding number alone (no boundary logic): the region of an oriented polygon -/
def memW (j : Jordan) (r : Pt) : Bool :=
  if j.ccw then decide (wind j.edges r = 1) else decide (wind j.edges r = 0)

/-! ### splitting (value level) -/
/-- `__split_segment` + the end filter of `split`: nodes closer than 1e-6 to 0 or 1 are dropped -/
def keepNode (t : Rat) : Bool := !(decide (absR t < tol6) || decide (absR (t - 1) < tol6))

def insertSorted (x : Rat) : List Rat → List Rat
  | [] => [x]
  | a :: t => if x ≤ a then x :: a :: t else a :: insertSorted x t
def sortRat (l : List Rat) : List Rat := l.foldr insertSorted []

/-- repeated parameters of one segment (closer than 1e-6) are split once -/
def dedupNodes : List Rat → List Rat
  | a :: b :: t => if absR (b - a) < tol6 then dedupNodes (a :: t) else a :: dedupNodes (b :: t)
  | l => l
termination_by l => l.length

/-- split segment `s` at the (kept, sorted) nodes; pieces are cleaned like the code does -/
def splitSeg (s : Seg) (nodes : List Rat) : List Seg :=
  (splitMany s 0 (dedupNodes (sortRat nodes))).map cleanSeg

/-- `JordanCurve.split(indexs, nodes)` -/
def Jordan.split (j : Jordan) (pairs : List (Nat × Rat)) : Jordan :=
  let kept := pairs.filter fun (_, t) => keepNode t
  (j.zipIdx.map fun (s, i) =>
    let ns := (kept.filter fun (k, _) => k == i).map (·.2)
    if ns.isEmpty then [s] else splitSeg s ns).flatten

end ShapeVerif
