/-
C19 — directly constructed composites.  Mirrors, at the value level, the constructors of
`shapepy/shape.py` that a user may call directly:

  * `ConnectedShape(subshapes)`  → `connectedNew`: the `subshapes` setter sorts the simple shapes by
    `float(shape)` (signed area), decreasing.  Python's `sorted(…, reverse=True)` is stable (equal keys
    keep their insertion order), hence the STRICT comparison `b.area < a.area` in `sortBy`
    (`insertBy` puts a new element in front of the first element that is not strictly larger; `sortBy`
    is a `foldr`, so equal areas stay in input order).
  * `DisjointShape(subshapes)`   → `disjointNew`: `__new__` removes every `EmptyShape()`, returns
    `EmptyShape()` if nothing is left, asserts that every remaining entry is a `SimpleShape` or a
    `ConnectedShape`, returns (a copy of) the single entry if exactly one is left, and otherwise builds
    the object whose `subshapes` setter sorts by the key `(float(shape), float(shape.jordans[0]))`,
    decreasing (stable).  An entry that violates the assertion (Whole / Disjoint) is INVALID INPUT: the
    Python code raises `AssertionError`; the model returns `.empty` for it (there is no error value in
    `Shape`), and every theorem about valid inputs carries the hypothesis `isComp`.

Mathlib-free (imported by the executable driver).
-/
import ShapeVerif.Model.Wf

namespace ShapeVerif

/-- `ConnectedShape(subshapes)`: curves sorted by signed area, decreasing, stable -/
def connectedNew (js : List Jordan) : Shape :=
  .connected (sortBy (fun a b => b.area < a.area) js)

namespace Shape
/-- `shape == EmptyShape()` at the value level (Empty is a singleton) -/
def isEmptyS : Shape → Bool
  | .empty => true
  | _ => false

/-- `isinstance(shape, (SimpleShape, ConnectedShape))` -/
def isComp : Shape → Bool
  | .simple _ => true
  | .connected _ => true
  | _ => false

/-- the boundary curves of a component (`[]` for the invalid kinds) -/
def compOf : Shape → List Jordan
  | .simple j => [j]
  | .connected js => js
  | _ => []
end Shape

/-- `float(component)`: the sum of the signed areas of its curves -/
def compArea (c : List Jordan) : Rat := (c.map Jordan.area).sum

/-- the sort key of the `DisjointShape.subshapes` setter: `(float(shape), float(shape.jordans[0]))` -/
def compKey (c : List Jordan) : Rat × Rat := (compArea c, (c.headD []).area)

/-- `a` is sorted strictly before `b`: key of `b` lexicographically smaller (decreasing order) -/
def compLt (a b : List Jordan) : Bool :=
  let ka := compKey a
  let kb := compKey b
  decide (kb.1 < ka.1) || (decide (kb.1 = ka.1) && decide (kb.2 < ka.2))

/-- `DisjointShape(subshapes)` (`__new__` + the `subshapes` setter) -/
def disjointNew (cs : List Shape) : Shape :=
  match cs.filter (fun s => !s.isEmptyS) with
  | [] => .empty
  | [s] => if s.isComp then s else .empty                                  -- else: AssertionError
  | a :: b :: t =>
    if (a :: b :: t).all Shape.isComp then
      .disjoint (sortBy compLt ((a :: b :: t).map Shape.compOf))
    else .empty                                                            -- AssertionError

/-- the statements of `DisjointShape.__new__` in the order the source executes them (regenerated: `Gen.disjointNewSteps`) -/
inductive NewStep
  /-- `while EmptyShape() in subshapes: subshapes.remove(EmptyShape())` (or a filtering comprehension) -/
  | removeEmpty
  /-- `if len(subshapes) == 0: return EmptyShape()` -/
  | zeroIsEmpty
  /-- `if len(subshapes) == 1: return copy(subshapes[0])` -/
  | oneIsCopy
  /-- `instance = super().__new__(cls); instance.subshapes = subshapes; return instance` -/
  | build
deriving DecidableEq, Repr

/-- run the statements on a list of operands; `none` = the constructor falls off its end -/
def runNewSteps : List NewStep → List Shape → Option Shape
  | [], _ => none
  | .removeEmpty :: rest, l => runNewSteps rest (l.filter fun s => !s.isEmptyS)
  | .zeroIsEmpty :: rest, l => if l.isEmpty then some .empty else runNewSteps rest l
  | .oneIsCopy :: rest, l => match l with
    | [s] => some s
    | _ => runNewSteps rest l
  | .build :: _, l => some (.disjoint (sortBy compLt (l.map Shape.compOf)))

end ShapeVerif
