/-
M5 — intersections.  Mirrors `Intersection.lines`, `PlanarCurve.__and__` (straight pairs),
`JordanCurve.__intersection`, `JordanCurve.intersection` (flag filters, sorting) for polygons.
-/
import ShapeVerif.Model.Jordan

namespace ShapeVerif

/-- `Intersection.lines` on the end points `a0 a1` / `b0 b1` -/
def linesInter (a0 a1 b0 b1 : Pt) : Option (Rat × Rat) :=
  let v0 := a1 - a0
  let v1 := b1 - b0
  let d0 := b0 - a0
  let den := Pt.cross v0 v1
  if den ≠ 0 then
    let p0 := Pt.cross d0 v1 / den
    let p1 := Pt.cross d0 v0 / den
    if p0 < 0 ∨ 1 < p0 then none
    else if p1 < 0 ∨ 1 < p1 then none
    else some (p0, p1)
  else none

/-- result of `segment & segment` -/
inductive SegInter
  | nothing                    -- `None`
  | equal                      -- `tuple()`
  | at (u v : Rat)             -- `((u, v),)`
deriving DecidableEq, Repr

def segEqTol (s t : Seg) : Bool := s.length == t.length && (s.zip t).all fun (p, q) => Pt.eqTol p q

/-- `PlanarCurve.__and__` for two straight segments -/
def segAnd (s t : Seg) : SegInter :=
  if Box.disjoint s.box t.box then .nothing
  else if segEqTol s t then .equal
  else match s, t with
    | [a0, a1], [b0, b1] =>
      match linesInter a0 a1 b0 b1 with
      | some (u, v) => .at u v
      | none => .nothing
    | _, _ => .nothing

/-- one entry `(a, b, u, v)`; `uv = none` encodes `(None, None)` -/
structure Crossing where
  a : Nat
  b : Nat
  uv : Option (Rat × Rat)
deriving DecidableEq, Repr

/-- `JordanCurve.__intersection` (as a list in segment order; the code uses a set and sorts later) -/
def jordanInterRaw (A B : Jordan) : List Crossing :=
  (A.zipIdx.flatMap fun (s, i) => B.zipIdx.filterMap fun (t, k) =>
    match segAnd s t with
    | .nothing => none
    | .equal => some ⟨i, k, none⟩
    | .at u v => some ⟨i, k, some (u, v)⟩)

def isEndPair (u v : Rat) : Bool := !((decide (0 < u) && decide (u < 1)) || (decide (0 < v) && decide (v < 1)))

/-- `JordanCurve.intersection(other, equal_beziers, end_points)` before sorting -/
def jordanInter (A B : Jordan) (equalBeziers endPoints : Bool) : List Crossing :=
  let l := jordanInterRaw A B
  let l := if equalBeziers then l else l.filter fun c => c.uv.isSome
  if endPoints then l else l.filter fun c =>
    match c.uv with
    | none => true
    | some (u, v) => !(isEndPair u v)

end ShapeVerif
