/-
M7b — the containment dispatch `B in A` of `shapepy/shape.py` (`DefinedShape.contains_shape` → `_contains_shape` of
SimpleShape / ConnectedShape / DisjointShape) as DATA + an evaluator.

Which loop each `_contains_shape` runs for which kind of operand is NOT written here: `Gen/Contain.lean` is regenerated
from the Python source on every run (`harness/translate.py: contain_rules`) as a table `CKind → CKind → Option CRule`.
`containsShape` interprets such a table over the model's shapes, with the geometric leaf test
(`SimpleShape.__contains_simple`) as a parameter.  `Props/C03b.lean` proves that the interpretation of the REGENERATED
table is sound for every leaf test that is sound.
-/
import ShapeVerif.Model.Shape

namespace ShapeVerif

inductive CKind | simple | connected | disjoint
deriving DecidableEq, Repr

/-- the loop shapes that occur in the three `_contains_shape` methods (`self` contains `other`?) -/
inductive CRule
  /-- `return self.__contains_simple(other)` -/
  | leaf
  /-- `for sub in self.subshapes: if not sub.contains_shape(other): return False` / `return True` -/
  | allSelf
  /-- `for sub in self.subshapes: if other in sub: return True` / `return False` -/
  | anySelf
  /-- `for sub in other.subshapes: if sub not in self: return False` / `return True` -/
  | allOther
  /-- `inverted = ~self` / `for sub in other.subshapes: if inverted in ~sub: return True` / `return False` -/
  | anyComplOther
deriving DecidableEq, Repr

/-- the three constructions of `~shape` that occur in shape.py -/
inductive InvRule
  /-- `self.__class__(~self.jordans[0])` -/
  | simpleOfInvertedCurve
  /-- `DisjointShape([~simple for simple in self.subshapes])` (De Morgan) -/
  | disjointOfInvertedSubs
  /-- `ShapeFromJordans(tuple(~jordan for jordan in self.jordans))`: every curve reversed, then regrouped by nesting -/
  | regroupInvertedCurves
deriving DecidableEq, Repr

namespace Shape

def ckind : Shape → Option CKind
  | simple _ => some .simple
  | connected _ => some .connected
  | disjoint _ => some .disjoint
  | _ => none

/-- a component of a DisjointShape: one curve = SimpleShape, several = ConnectedShape -/
def ofComp (c : List Jordan) : Shape :=
  match c with
  | [j] => simple j
  | _ => connected c

/-- `shape.subshapes` -/
def subs : Shape → List Shape
  | connected js => js.map simple
  | disjoint cs => cs.map ofComp
  | _ => []

/-- `~shape` for the two constructions that need no regrouping (`none`: the regrouping of `ShapeFromJordans` is specified by its
region in `Region`, not constructed here) -/
def invertBy (rule : CKind → InvRule) : Shape → Option Shape
  | empty => some whole
  | whole => some empty
  | simple j => match rule .simple with
    | .simpleOfInvertedCurve => some (simple j.invert)
    | _ => none
  | connected js => match rule .connected with
    | .disjointOfInvertedSubs => some (disjoint (js.map fun j => [j.invert]))
    | _ => none
  | disjoint _ => none

end Shape

/-- `self.contains_shape(other)` interpreted over a rule table; `fuel` bounds the nesting (Disjoint → Connected → Simple →
complemented Simple needs 4) -/
def containsShape (rule : CKind → CKind → Option CRule) (leaf : Jordan → Jordan → Bool) :
    Nat → Shape → Shape → Bool
  | 0, _, _ => false
  | fuel + 1, self, other =>
    match other with
    | .empty => true
    | .whole => false
    | _ =>
      match self.ckind, other.ckind with
      | some ks, some ko =>
        match rule ks ko with
        | some .leaf =>
          match self, other with
          | .simple a, .simple b => leaf a b
          | _, _ => false
        | some .allSelf => self.subs.all fun s => containsShape rule leaf fuel s other
        | some .anySelf => self.subs.any fun s => containsShape rule leaf fuel s other
        | some .allOther => other.subs.all fun o => containsShape rule leaf fuel self o
        | some .anyComplOther =>
          match self with
          | .simple a =>
            other.subs.any fun o =>
              match o with
              | .simple b => containsShape rule leaf fuel (.simple b.invert) (.simple a.invert)
              | _ => false
          | _ => false
        | none => false
      | _, _ => false

end ShapeVerif
