/-
M9a — matplotlib path encoding.  Mirrors `plot.patch_segment`, `path_shape`, `path_jordan`:
codes MOVETO=1, LINETO=2, CURVE3=3, CURVE4=4, CLOSEPOLY=79.  `decodePath` reads a path back with
matplotlib's arities (CURVE3 consumes two vertices, CURVE4 three).
-/
import ShapeVerif.Model.Heap

namespace ShapeVerif

inductive PCode | moveto | lineto | curve3 | curve4 | closepoly
deriving DecidableEq, Repr

def PCode.num : PCode → Nat
  | .moveto => 1 | .lineto => 2 | .curve3 => 3 | .curve4 => 4 | .closepoly => 79

/-- the degree ↦ code table of `patch_segment` (regenerated from the source in `Gen/Plot.lean`) -/
def patchCode : Nat → Option PCode
  | 1 => some .lineto
  | 2 => some .curve3
  | 3 => some .curve4
  | _ => none

/-- `patch_segment`: all control points but the first, each tagged with the segment's code -/
def patchSegment (s : Seg) : List (Pt × PCode) :=
  match patchCode s.degree with
  | some c => s.tail.map fun p => (p, c)
  | none => []

/-- `path_jordan` (without the rounding of the outline copy) -/
def encodeJordan (j : Jordan) : List (Pt × PCode) :=
  match j with
  | [] => []
  | s0 :: _ =>
    let start := s0.headD Pt.zero
    (start, .moveto) :: (j.flatMap patchSegment) ++ [(start, .closepoly)]

/-- `path_shape`: all curves of a component in one path.  (The code closes every sub-path with the
very first vertex of the path; CLOSEPOLY ignores its vertex.) -/
def encodeComponent (js : List Jordan) : List (Pt × PCode) := js.flatMap encodeJordan

/-- read segments back: state = current point, output = list of closed curves -/
def decodeGo : List (Pt × PCode) → Option Pt → Jordan → List Jordan → Option (List Jordan)
  | [], _, [], acc => some acc.reverse
  | [], _, _ :: _, _ => none
  | (p, .moveto) :: rest, _, [], acc => decodeGo rest (some p) [] acc
  | (_, .moveto) :: _, _, _ :: _, _ => none
  | (p, .lineto) :: rest, some c, cur, acc => decodeGo rest (some p) (cur ++ [[c, p]]) acc
  | (p1, .curve3) :: (p2, .curve3) :: rest, some c, cur, acc => decodeGo rest (some p2) (cur ++ [[c, p1, p2]]) acc
  | (p1, .curve4) :: (p2, .curve4) :: (p3, .curve4) :: rest, some c, cur, acc =>
      decodeGo rest (some p3) (cur ++ [[c, p1, p2, p3]]) acc
  | (_, .closepoly) :: rest, some _, cur, acc => decodeGo rest none [] (cur :: acc)
  | _, _, _, _ => none

def decodePath (path : List (Pt × PCode)) : Option (List Jordan) := decodeGo path none [] []

/-- what the plot of a shape must contain: per component one filled path (its curves), per curve one outline -/
def plotPlan : Shape → List (List Jordan)
  | .empty => []
  | .whole => []
  | .simple j => [[j]]
  | .connected js => [js]
  | .disjoint cs => cs

end ShapeVerif
