/-
M7 — shapes.  Mirrors the class hierarchy of `shapepy/shape.py` at the value level:
`EmptyShape`, `WholeShape`, `SimpleShape(jordan)`, `ConnectedShape(simples)`, `DisjointShape(components)`.
A component of a disjoint shape is a non-empty list of curves (one curve = simple, more = connected).
-/
import ShapeVerif.Model.Intersect

namespace ShapeVerif

inductive Shape
  | empty
  | whole
  | simple (j : Jordan)
  | connected (js : List Jordan)
  | disjoint (comps : List (List Jordan))
deriving DecidableEq, Repr

namespace Shape

/-- `shape.jordans` -/
def jordans : Shape → List Jordan
  | empty => []
  | whole => []
  | simple j => [j]
  | connected js => js
  | disjoint cs => cs.flatten

def edges (s : Shape) : List Edge := s.jordans.flatMap Jordan.edges

/-- `contains_point(p, boundary)`: Simple by the table, Connected = all, Disjoint = any -/
def mem (s : Shape) (r : Pt) (boundary : Bool) : Bool :=
  match s with
  | empty => false
  | whole => true
  | simple j => memJ j r boundary
  | connected js => js.all fun j => memJ j r boundary
  | disjoint cs => cs.any fun c => c.all fun j => memJ j r boundary

/-- region membership by winding numbers only (defined for every point; equals `mem` off the boundary) -/
def memW (s : Shape) (r : Pt) : Bool :=
  match s with
  | empty => false
  | whole => true
  | simple j => ShapeVerif.memW j r
  | connected js => js.all fun j => ShapeVerif.memW j r
  | disjoint cs => cs.any fun c => c.all fun j => ShapeVerif.memW j r

/-- `IntegrateShape.polynomial` by exact integration: Σ over all boundary curves -/
def moment (s : Shape) (a b : Nat) : Rat := shapeExactMoment s.jordans a b
def area (s : Shape) : Rat := s.moment 0 0

def kind : Shape → Nat
  | empty => 0 | whole => 1 | simple _ => 2 | connected _ => 3 | disjoint _ => 4

/-- `~shape` at the value level (every curve reversed; the regrouping of the curves is the code's
`ShapeFromJordans`, modelled in `Region` by its specification) -/
def invertCurves (s : Shape) : List Jordan := s.jordans.map Jordan.invert

def map (f : Pt → Pt) : Shape → Shape
  | empty => empty
  | whole => whole
  | simple j => simple (j.map f)
  | connected js => connected (js.map (Jordan.map f))
  | disjoint cs => disjoint (cs.map fun c => c.map (Jordan.map f))

end Shape

/-- the boolean operators as truth functions -/
inductive BOp | or | and | sub | xor
deriving DecidableEq, Repr

def BOp.eval : BOp → Bool → Bool → Bool
  | .or, a, b => a || b
  | .and, a, b => a && b
  | .sub, a, b => a && !b
  | .xor, a, b => a != b

/-- operator expressions over leaves: the "programs" quantifier of C01/C05/C06 -/
inductive Expr
  | leaf (i : Nat)
  | inv (e : Expr)
  | bin (op : BOp) (l r : Expr)
deriving DecidableEq, Repr

/-- the set-theoretic meaning of an expression at a point, given each leaf's membership there -/
def Expr.evalSpec (env : Nat → Bool) : Expr → Bool
  | .leaf i => env i
  | .inv e => !(e.evalSpec env)
  | .bin op l r => op.eval (l.evalSpec env) (r.evalSpec env)

end ShapeVerif
