/-
Appendix A of DESIGN.md — decidable predicates on polygons used to filter generated inputs, to
classify findings and to check well-formedness of results (C06): `simpleJ`, `generalPosition`,
`transversal`, `cleanJ`, `canonShape`, `eqJ`, `wfProblems`.  Polygons only (degree-1 segments).
-/
import ShapeVerif.Model.Region

namespace ShapeVerif

def Pt.lt (p q : Pt) : Bool := decide (p.x < q.x) || (decide (p.x = q.x) && decide (p.y < q.y))

def ptsLt : List Pt → List Pt → Bool
  | [], [] => false
  | [], _ => true
  | _, [] => false
  | a :: s, b :: t => if a.lt b then true else if b.lt a then false else ptsLt s t

/-- vertex cycle of a polygon (start point of every edge) -/
def Jordan.cycle (j : Jordan) : List Pt := j.points0

def rotateL {α} (l : List α) (k : Nat) : List α := l.drop k ++ l.take k

/-- `JordanCurve.clean` on a polygon: repeatedly drop a vertex `v` whose neighbours `u, w` satisfy
cross(v-u, w-v) = 0 and inner(v-u, w-v) > 0 (the merge rule of `PlanarCurve.__or__`) -/
def cleanStep (vs : List Pt) : Option (List Pt) :=
  let n := vs.length
  if n < 3 then none else
  ((List.range n).find? fun i =>
    let u := vs.getD ((i + n - 1) % n) Pt.zero
    let v := vs.getD i Pt.zero
    let w := vs.getD ((i + 1) % n) Pt.zero
    decide (Pt.cross (v - u) (w - v) = 0) && decide (0 < Pt.inner (v - u) (w - v))).map fun i => vs.eraseIdx i

def cleanCycle : Nat → List Pt → List Pt
  | 0, vs => vs
  | fuel + 1, vs => match cleanStep vs with
    | none => vs
    | some vs' => cleanCycle fuel vs'

def cleanJ (j : Jordan) : Jordan := Jordan.fromVertices (cleanCycle j.length j.cycle)

/-- rotate a cycle so that its lexicographically least vertex comes first -/
def canonCycle (vs : List Pt) : List Pt :=
  match vs with
  | [] => []
  | v0 :: _ =>
    let (best, _) := vs.zipIdx.foldl (fun (acc : Nat × Pt) (v, i) => if v.lt acc.2 then (i, v) else acc) (0, v0)
    rotateL vs best

def canonJ (j : Jordan) : List Pt := canonCycle (cleanCycle j.length j.cycle)

/-- `jordan == jordan` for polygons: same oriented point set -/
def eqJ (a b : Jordan) : Bool := canonJ a == canonJ b

def insertBy {α} (lt : α → α → Bool) (x : α) : List α → List α
  | [] => [x]
  | a :: t => if lt a x then a :: insertBy lt x t else x :: a :: t
def sortBy {α} (lt : α → α → Bool) (l : List α) : List α := l.foldr (insertBy lt) []

def cyclesLt : List (List Pt) → List (List Pt) → Bool
  | [], [] => false
  | [], _ => true
  | _, [] => false
  | a :: s, b :: t => if ptsLt a b then true else if ptsLt b a then false else cyclesLt s t

/-- region-level canonical form: cleaned cycles from their least vertex, curves and components sorted -/
def canonShape : Shape → Shape
  | .empty => .empty
  | .whole => .whole
  | .simple j => .simple (Jordan.fromVertices (canonJ j))
  | .connected js => .connected ((sortBy ptsLt (js.map canonJ)).map Jordan.fromVertices)
  | .disjoint cs =>
    .disjoint ((sortBy cyclesLt (cs.map fun c => sortBy ptsLt (c.map canonJ))).map fun c => c.map Jordan.fromVertices)

/-! ### relative position of two closed polygons -/
/-- parameter of `r` along edge `e` (assuming `r` on the supporting line) -/
def Edge.param (e : Edge) (r : Pt) : Rat :=
  let d := e.q - e.p
  Pt.inner (r - e.p) d / Pt.norm2 d

/-- parameters in [0,1] at which edge `e` meets the polygon `B` -/
def meetParams (e : Edge) (B : Jordan) : List Rat :=
  (B.edges.filterMap fun f => (linesInter e.p e.q f.p f.q).map (·.1))
  ++ (B.cycle.filterMap fun v => if e.onEdge v then some (e.param v) else none)

/-- midpoints of the pieces into which `B` cuts the edges of `A` -/
def subEdgeMidpoints (A B : Jordan) : List Pt :=
  A.edges.flatMap fun e =>
    let ts := dedupRat (sortRat (0 :: 1 :: meetParams e B))
    (ts.zip ts.tail).map fun (t0, t1) => lerp e.p e.q ((t0 + t1) / 2)

/-- (#strictly inside the bounded side, #strictly outside, #on) of the pieces of `A` relative to `B` -/
def curveRel (A B : Jordan) : Nat × Nat × Nat :=
  (subEdgeMidpoints A B).foldl (fun (i, o, n) m =>
    if B.onBoundary m then (i, o, n + 1)
    else if wind B.edges m ≠ 0 then (i + 1, o, n) else (i, o + 1, n)) (0, 0, 0)

/-- closed segments `e`, `f` have a common point -/
def edgesMeet (e f : Edge) : Bool :=
  (linesInter e.p e.q f.p f.q).isSome || e.onEdge f.p || e.onEdge f.q || f.onEdge e.p || f.onEdge e.q

/-- simple closed polygon: ≥ 3 edges, closed, no zero-length edge, non-adjacent edges disjoint,
adjacent edges meet only at their junction -/
def simpleJ (j : Jordan) : Bool :=
  let es := j.edges
  let n := es.length
  j.isPolygon && decide (3 ≤ n) &&
  ((es.zip (es.tail ++ es.take 1)).all fun (e, f) => decide (e.q = f.p) && decide (e.p ≠ e.q)) &&
  (es.zipIdx.all fun (e, i) => es.zipIdx.all fun (f, k) =>
    if k ≤ i then true
    else if k = i + 1 ∨ (i = 0 ∧ k = n - 1) then
      -- adjacent: the far end points must not lie on the neighbour
      (if k = i + 1 then !(e.onEdge f.q) && !(f.onEdge e.p) else !(e.onEdge f.p) && !(f.onEdge e.q))
    else !(edgesMeet e f))

/-- two edges overlap along a piece of positive length (collinear, and the open interiors of their common line interval meet) -/
def edgesOverlap (e f : Edge) : Bool :=
  let d := e.q - e.p
  decide (Pt.cross d (f.q - f.p) = 0) && decide (Pt.cross d (f.p - e.p) = 0) && decide (e.p ≠ e.q) && decide (f.p ≠ f.q) &&
    (let n2 := Pt.norm2 d
     let a := Pt.inner (f.p - e.p) d / n2
     let b := Pt.inner (f.q - e.p) d / n2
     let lo := if a ≤ b then a else b
     let hi := if a ≤ b then b else a
     decide ((if lo < 0 then 0 else lo) < (if 1 < hi then 1 else hi)))

/-- the crossing number of the closed polygon takes only the two values of a simple closed curve (0 and the orientation sign) at every
sample point of its own arrangement — by `slabCheck_sound` this holds at EVERY generic point (Props/C06) -/
def windRangeOK (j : Jordan) : Bool :=
  let s : Int := if j.ccw then 1 else -1
  slabCheck j.edges fun p => decide (wind j.edges p = 0) || decide (wind j.edges p = s)

/-- closed polygon that may TOUCH itself at isolated points but does not cross itself and does not retrace a piece: closed chain of ≥ 3
non-degenerate edges, no two distinct edges overlap along a piece, and the winding range of a simple closed curve.  (`A ^ B` of two crossing
shapes, and results computed from it, legitimately have such boundaries: the two lobes meet at the crossing points.) -/
def weaklySimpleJ (j : Jordan) : Bool :=
  let es := j.edges
  j.isPolygon && decide (3 ≤ es.length) &&
  ((es.zip (es.tail ++ es.take 1)).all fun (e, f) => decide (e.q = f.p) && decide (e.p ≠ e.q)) &&
  (es.zipIdx.all fun (e, i) => es.zipIdx.all fun (f, k) => if k ≤ i then true else !(edgesOverlap e f)) &&
  windRangeOK j

/-- what the well-formedness check accepts as a boundary curve -/
def curveOK (j : Jordan) : Bool := simpleJ j || weaklySimpleJ j

def noCollinearTriple (j : Jordan) : Bool :=
  let vs := j.cycle
  let n := vs.length
  (List.range n).all fun i =>
    let u := vs.getD i Pt.zero; let v := vs.getD ((i + 1) % n) Pt.zero; let w := vs.getD ((i + 2) % n) Pt.zero
    decide (Pt.cross (v - u) (w - v) ≠ 0)

/-- pairwise general position of simple polygons (a generator filter; stronger than `transversal`):
no vertex of one on a supporting line of the other, no two parallel edges across curves, no point
on three edges, and every curve simple without collinear consecutive vertices -/
def generalPosition (js : List Jordan) : Bool :=
  (js.all fun j => simpleJ j && noCollinearTriple j) &&
  (js.zipIdx.all fun (a, i) => js.zipIdx.all fun (b, k) =>
    if i = k then true else
    (a.cycle.all fun v => b.edges.all fun f => decide (Pt.cross (f.q - f.p) (v - f.p) ≠ 0)) &&
    (a.edges.all fun e => b.edges.all fun f => decide (Pt.cross (e.q - e.p) (f.q - f.p) ≠ 0))) &&
  -- no three edges of the whole family through one point: crossing points are pairwise distinct
  (let es := js.flatMap Jordan.edges
   let xs := (es.zipIdx.flatMap fun (e, i) => es.zipIdx.filterMap fun (f, k) =>
      if i < k ∧ e.q ≠ f.p ∧ f.q ≠ e.p then
        (linesInter e.p e.q f.p f.q).map fun (u, _) => lerp e.p e.q u
      else none)
   decide (xs.length = (xs.foldr (fun c acc => if acc.contains c then acc else c :: acc) []).length))

/-- operands whose boundaries cross transversally: after cleaning, no vertex of one lies on the
boundary of the other (then every common point is interior to two non-parallel edges) -/
def transversal (A B : Shape) : Bool :=
  let ja := A.jordans.map cleanJ
  let jb := B.jordans.map cleanJ
  (ja.all fun a => jb.all fun b =>
    (a.cycle.all fun v => !(b.onBoundary v)) && (b.cycle.all fun v => !(a.onBoundary v)))

/-! ### well-formedness of results (C06) -/
def wfConnected (js : List Jordan) : List String :=
  let ccws := js.filter Jordan.ccw
  let cws := js.filter fun j => !j.ccw
  (if js.length < 2 then ["connected-needs-2-curves"] else []) ++
  (if js.all curveOK then [] else ["curve-not-simple"]) ++
  (if ccws.length ≤ 1 then [] else ["several-outer-boundaries"]) ++
  (ccws.flatMap fun o => cws.flatMap fun h =>
    let (_, out, on) := curveRel h o
    (if out ≠ 0 then ["hole-outside-outer"] else []) ++ (if on ≠ 0 then ["hole-overlaps-outer"] else [])) ++
  (cws.zipIdx.flatMap fun (h1, i) => cws.zipIdx.flatMap fun (h2, k) =>
    if i = k then [] else
    let (ins, _, on) := curveRel h1 h2
    (if ins ≠ 0 then ["hole-inside-hole"] else []) ++ (if on ≠ 0 then ["holes-overlap"] else []))

def wfProblems : Shape → List String
  | .empty => []
  | .whole => []
  | .simple j => if curveOK j then [] else ["curve-not-simple"]
  | .connected js => wfConnected js
  | .disjoint cs =>
    (if cs.length < 2 then ["disjoint-needs-2-components"] else []) ++
    (cs.flatMap fun c => match c with
      | [] => ["empty-component"]
      | [j] => if curveOK j then [] else ["curve-not-simple"]
      | js => wfConnected js) ++
    (if componentsDisjoint cs then [] else ["components-overlap"])

end ShapeVerif
