/-
M8 — the slab-decomposition decision procedure for polygon regions (DESIGN §4).

`slabCheck U P` evaluates the point predicate `P` at one sample per cell of the arrangement of the
edges `U` (vertical slabs between consecutive critical abscissae × gaps between consecutive levels).
Soundness (Proofs/Slab.lean, Props/C01.lean): if `P` depends on a point only through its
below-pattern over `U`, then `slabCheck U P = true` implies `P r` for EVERY point `r` whose abscissa
is not critical and which lies on no edge.
-/
import ShapeVerif.Model.Shape

namespace ShapeVerif

def dedupRat (l : List Rat) : List Rat := l.foldr (fun c acc => if acc.contains c then acc else c :: acc) []

/-- abscissa where the supporting lines of two non-parallel, non-vertical edges meet -/
def Edge.meetX (e f : Edge) : Rat := (f.icept - e.icept) / (e.slope - f.slope)

/-- end-point abscissae and the in-range line intersections -/
def criticalXs (U : List Edge) : List Rat :=
  dedupRat (U.flatMap (fun e => [e.lo, e.hi]) ++
    U.flatMap fun e => U.filterMap fun f =>
      if e.slope ≠ f.slope ∧ e.inRange (e.meetX f) ∧ f.inRange (e.meetX f) then some (e.meetX f) else none)

/-- least critical value strictly above `a`, if any -/
def nextCrit (crit : List Rat) (a : Rat) : Option Rat :=
  crit.foldl (fun best c => if a < c then (match best with
    | none => some c
    | some b => if c < b then some c else some b) else best) none

/-- the bounded slabs `(a, next a)` -/
def slabs (crit : List Rat) : List (Rat × Rat) :=
  crit.filterMap fun a => (nextCrit crit a).map fun b => (a, b)

/-- sample ordinates at abscissa `xm` for the spanning edges `S` -/
def sampleYs (S : List Edge) (xm : Rat) : List Rat :=
  0 :: (S.flatMap (fun e => [e.level xm - 1, e.level xm + 1])
        ++ S.flatMap (fun e => S.map (fun f => (e.level xm + f.level xm) / 2)))

def Edge.spans (e : Edge) (a b : Rat) : Bool := decide (e.lo ≤ a) && decide (b ≤ e.hi)

/-- all sample points of the arrangement of `U` -/
def slabSamples (U : List Edge) : List Pt :=
  let crit := criticalXs U
  let inner := (slabs crit).flatMap fun (a, b) =>
    let xm := (a + b) / 2
    (sampleYs (U.filter fun e => e.spans a b) xm).map fun y => (⟨xm, y⟩ : Pt)
  let lo := listMin crit
  let hi := listMax crit
  ⟨lo - 1, 0⟩ :: ⟨hi + 1, 0⟩ :: inner

/-- evaluate `P` on every sample; returns the first failing sample -/
def slabFind (U : List Edge) (P : Pt → Bool) : Option Pt := (slabSamples U).find? fun s => !(P s)
def slabCheck (U : List Edge) (P : Pt → Bool) : Bool := (slabSamples U).all P

/-! ### the region checkers -/
def regionOpPred (op : BOp) (A B R : Shape) (r : Pt) : Bool := R.memW r == op.eval (A.memW r) (B.memW r)
def regionCheck (op : BOp) (A B R : Shape) : Bool :=
  slabCheck (A.edges ++ B.edges ++ R.edges) (regionOpPred op A B R)
def regionCheckFind (op : BOp) (A B R : Shape) : Option Pt :=
  slabFind (A.edges ++ B.edges ++ R.edges) (regionOpPred op A B R)

def regionEq (A B : Shape) : Bool := slabCheck (A.edges ++ B.edges) fun r => A.memW r == B.memW r
def regionEqFind (A B : Shape) : Option Pt := slabFind (A.edges ++ B.edges) fun r => A.memW r == B.memW r
/-- `B ⊆ A` off the boundaries -/
def regionSubset (B A : Shape) : Bool := slabCheck (A.edges ++ B.edges) fun r => !(B.memW r) || A.memW r
def regionSubsetFind (B A : Shape) : Option Pt := slabFind (A.edges ++ B.edges) fun r => !(B.memW r) || A.memW r
def regionCompl (A R : Shape) : Bool := slabCheck (A.edges ++ R.edges) fun r => R.memW r == !(A.memW r)
def regionEmpty (A : Shape) : Bool := slabCheck A.edges fun r => !(A.memW r)
def regionWhole (A : Shape) : Bool := slabCheck A.edges fun r => A.memW r
/-- no point belongs to two components -/
def componentsDisjoint (cs : List (List Jordan)) : Bool :=
  slabCheck (cs.flatten.flatMap Jordan.edges) fun r =>
    decide (((cs.filter fun c => c.all fun j => ShapeVerif.memW j r).length) ≤ 1)

/-- n-ary expression check: result `R` against the pointwise meaning of `e` over the leaves -/
def exprCheckFind (leaves : List Shape) (e : Expr) (R : Shape) : Option Pt :=
  slabFind (leaves.flatMap Shape.edges ++ R.edges) fun r =>
    R.memW r == e.evalSpec fun i => (leaves.getD i Shape.empty).memW r

end ShapeVerif
