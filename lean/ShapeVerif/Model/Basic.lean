/-
M0 — exact plane arithmetic over core `Rat` (no imports: `Rat` lives in core Lean).

Mirrors `shapepy/polygon.py`:
  * `Point2D.inner/cross/__add__/__sub__/__mul__/move/scale`   → `Pt.inner` … `Pt.scale`
  * `Point2D.__init__` (`Fraction(x).limit_denominator(10**9)`) → `limitDenominator`, `mkPoint`
  * `Point2D.__eq__` (absolute 1e-9 per coordinate)              → `Pt.eqTol`
  * `Box.__contains__` (1e-6 margins), `Box.__and__`, `Box.__or__` → `Box.*`
The float literals of the code are exact dyadic rationals; they are spelled out here and
re-read from the source by the translator (`Gen/Consts.lean`) on every run.
-/

namespace ShapeVerif

structure Pt where
  x : Rat
  y : Rat
deriving DecidableEq, Repr

namespace Pt
def zero : Pt := ⟨0, 0⟩
def add (p q : Pt) : Pt := ⟨p.x + q.x, p.y + q.y⟩
def sub (p q : Pt) : Pt := ⟨p.x - q.x, p.y - q.y⟩
def smul (k : Rat) (p : Pt) : Pt := ⟨k * p.x, k * p.y⟩
def neg (p : Pt) : Pt := ⟨-p.x, -p.y⟩
def inner (p q : Pt) : Rat := p.x * q.x + p.y * q.y
def cross (p q : Pt) : Rat := p.x * q.y - p.y * q.x
def norm2 (p : Pt) : Rat := inner p p
/-- `Point2D.move` -/
def move (p v : Pt) : Pt := ⟨p.x + v.x, p.y + v.y⟩
/-- `Point2D.scale` -/
def scale (p : Pt) (sx sy : Rat) : Pt := ⟨p.x * sx, p.y * sy⟩
/-- exact rotation by an angle whose cosine/sine are `c`, `s` (`Point2D.rotate` with exact trig) -/
def rot (p : Pt) (c s : Rat) : Pt := ⟨c * p.x - s * p.y, s * p.x + c * p.y⟩
instance : Add Pt := ⟨add⟩
instance : Sub Pt := ⟨sub⟩
instance : Inhabited Pt := ⟨zero⟩
end Pt

/-- a + t (b - a) -/
def lerp (a b : Pt) (t : Rat) : Pt := ⟨a.x + t * (b.x - a.x), a.y + t * (b.y - a.y)⟩
def midpoint (a b : Pt) : Pt := ⟨(a.x + b.x) / 2, (a.y + b.y) / 2⟩

def absR (r : Rat) : Rat := if r < 0 then -r else r

/-! ### the float literals of the source as exact rationals -/
/-- `1e-6` as an IEEE double: 4722366482869645 / 2^72 -/
def tol6 : Rat := (4722366482869645 : Rat) / (4722366482869645213696 : Rat)
/-- `1e-9` as an IEEE double: 4835703278458517 / 2^82 -/
def tol9 : Rat := (4835703278458517 : Rat) / (4835703278458516698824704 : Rat)
def maxDen : Nat := 1000000000

/-- `Point2D.__eq__` -/
def Pt.eqTol (p q : Pt) : Bool := !(decide (absR (p.x - q.x) > tol9)) && !(decide (absR (p.y - q.y) > tol9))

/-! ### `Fraction.limit_denominator` (CPython's continued-fraction algorithm) -/

/-- the loop of `limit_denominator`; state `(p0,q0,p1,q1,n,d)` -/
def ldLoop (maxd : Int) : Nat → Int → Int → Int → Int → Int → Int → (Int × Int × Int × Int × Int × Int)
  | 0, p0, q0, p1, q1, n, d => (p0, q0, p1, q1, n, d)
  | fuel + 1, p0, q0, p1, q1, n, d =>
    if d = 0 then (p0, q0, p1, q1, n, d) else
    let a := n / d
    let q2 := q0 + a * q1
    if q2 > maxd then (p0, q0, p1, q1, n, d)
    else ldLoop maxd fuel p1 q1 (p0 + a * p1) q2 d (n - a * d)

def limitDenominator (r : Rat) (maxd : Nat) : Rat :=
  if r.den ≤ maxd then r else
  let (p0, q0, p1, q1, _n, d) := ldLoop maxd (r.den + 2) 0 1 1 0 r.num r.den
  let k := ((maxd : Int) - q0) / q1
  if 2 * d * (q0 + k * q1) ≤ (r.den : Int) then (p1 : Rat) / (q1 : Rat)
  else ((p0 + k * p1 : Int) : Rat) / ((q0 + k * q1 : Int) : Rat)

/-- `Point2D(x, y)` for int/Fraction coordinates -/
def mkPoint (x y : Rat) : Pt := ⟨limitDenominator x maxDen, limitDenominator y maxDen⟩

/-! ### boxes -/
structure Box where
  lo : Pt
  hi : Pt
deriving DecidableEq, Repr

def listMin : List Rat → Rat
  | [] => 0
  | a :: t => t.foldl (fun m v => if v < m then v else m) a
def listMax : List Rat → Rat
  | [] => 0
  | a :: t => t.foldl (fun m v => if m < v then v else m) a

namespace Box
/-- `PlanarCurve.box` / `JordanCurve.box` on a list of points -/
def ofPts (ps : List Pt) : Box :=
  ⟨⟨listMin (ps.map (·.x)), listMin (ps.map (·.y))⟩, ⟨listMax (ps.map (·.x)), listMax (ps.map (·.y))⟩⟩
/-- `Box.__contains__` with the 1e-6 margins -/
def containsTol (b : Box) (p : Pt) : Bool :=
  !(decide (p.x < b.lo.x - tol6) || decide (p.y < b.lo.y - tol6)
    || decide (b.hi.x + tol6 < p.x) || decide (b.hi.y + tol6 < p.y))
/-- exact containment (no margins) -/
def contains (b : Box) (p : Pt) : Bool :=
  decide (b.lo.x ≤ p.x) && decide (p.x ≤ b.hi.x) && decide (b.lo.y ≤ p.y) && decide (p.y ≤ b.hi.y)
/-- `Box.__and__ is None` -/
def disjoint (a b : Box) : Bool :=
  let xmin := if a.lo.x < b.lo.x then b.lo.x else a.lo.x
  let xmax := if a.hi.x < b.hi.x then a.hi.x else b.hi.x
  let ymin := if a.lo.y < b.lo.y then b.lo.y else a.lo.y
  let ymax := if a.hi.y < b.hi.y then a.hi.y else b.hi.y
  decide (xmax < xmin) || decide (ymax < ymin)
def union (a b : Box) : Box :=
  ⟨⟨if b.lo.x < a.lo.x then b.lo.x else a.lo.x, if b.lo.y < a.lo.y then b.lo.y else a.lo.y⟩,
   ⟨if a.hi.x < b.hi.x then b.hi.x else a.hi.x, if a.hi.y < b.hi.y then b.hi.y else a.hi.y⟩⟩
end Box

end ShapeVerif
