/-
C16c — `Primitive.triangle` and the four-sided `Primitive.regular_polygon` AS WRITTEN IN THE SOURCE (vertex formulas regenerated into
`Gen/Tables.lean` on every run) have the measure of the figures they document: the right triangle with legs `s` at the corner `c` has area
s²/2, centroid c + (s/3, s/3) and second moments of the right triangle; the diamond of circumradius `r` has area 2r², centroid at the requested
centre and second central moments r⁴/3 — for all rational sizes and centres.  A change of one vertex formula in primitive.py that keeps the
polygon simple and counter-clockwise but moves, shears or resizes it breaks these equalities (the area alone does not see a shear).
-/
import ShapeVerif.Props.C16b
import ShapeVerif.Proofs.ChordCutGen
import Mathlib.Tactic.Ring

namespace ShapeVerif.C16
open ShapeVerif

theorem triangleVertices_eq (s : Rat) (c : Pt) :
    Gen.triangleVertices s c = [c + ⟨0, 0⟩, c + ⟨s, 0⟩, c + ⟨0, s⟩] := rfl

theorem regular4Vertices_eq (r : Rat) (c : Pt) :
    Gen.regular4Vertices r c = [c + ⟨r, 0⟩, c + ⟨0, r⟩, c + ⟨-r, 0⟩, c + ⟨0, -r⟩] := rfl

/-! ### the right triangle of primitive.py -/

theorem source_triangle_area (s : Rat) (c : Pt) :
    Jordan.moment (Jordan.fromVertices (Gen.triangleVertices s c)) 0 0 = s ^ 2 / 2 := by
  rw [triangleVertices_eq, triangle_moment_00]
  simp only [triCross, Pt.add_x', Pt.add_y']
  ring

/-- first moments = area × centroid, the centroid being c + (s/3, s/3) -/
theorem source_triangle_centroid (s : Rat) (c : Pt) :
    Jordan.moment (Jordan.fromVertices (Gen.triangleVertices s c)) 1 0 = s ^ 2 / 2 * (c.x + s / 3) ∧
    Jordan.moment (Jordan.fromVertices (Gen.triangleVertices s c)) 0 1 = s ^ 2 / 2 * (c.y + s / 3) := by
  constructor
  · rw [triangleVertices_eq, triangle_moment_10]
    simp only [triCross, Pt.add_x', Pt.add_y']
    ring
  · rw [triangleVertices_eq, triangle_moment_01]
    simp only [triCross, Pt.add_x', Pt.add_y']
    ring

/-- second moments about the corner `c` (taken at c = 0): ∬x² = ∬y² = s⁴/12, ∬xy = s⁴/24 — the right isosceles triangle and no sheared copy of it -/
theorem source_triangle_second_moments (s : Rat) :
    Jordan.moment (Jordan.fromVertices (Gen.triangleVertices s ⟨0, 0⟩)) 2 0 = s ^ 4 / 12 ∧
    Jordan.moment (Jordan.fromVertices (Gen.triangleVertices s ⟨0, 0⟩)) 0 2 = s ^ 4 / 12 ∧
    Jordan.moment (Jordan.fromVertices (Gen.triangleVertices s ⟨0, 0⟩)) 1 1 = s ^ 4 / 24 := by
  refine ⟨?_, ?_, ?_⟩
  · rw [triangleVertices_eq, triangle_moment_20]
    simp only [triCross, Pt.add_x', Pt.add_y']
    ring
  · rw [triangleVertices_eq, triangle_moment_02]
    simp only [triCross, Pt.add_x', Pt.add_y']
    ring
  · rw [triangleVertices_eq, triangle_moment_11]
    simp only [triCross, Pt.add_x', Pt.add_y']
    ring

/-- second moments for every corner position (parallel-axis form) -/
theorem source_triangle_second_moments_at (s : Rat) (c : Pt) :
    Jordan.moment (Jordan.fromVertices (Gen.triangleVertices s c)) 2 0
        = s ^ 2 / 2 * (c.x ^ 2 + 2 * c.x * (s / 3)) + s ^ 4 / 12 ∧
    Jordan.moment (Jordan.fromVertices (Gen.triangleVertices s c)) 0 2
        = s ^ 2 / 2 * (c.y ^ 2 + 2 * c.y * (s / 3)) + s ^ 4 / 12 ∧
    Jordan.moment (Jordan.fromVertices (Gen.triangleVertices s c)) 1 1
        = s ^ 2 / 2 * (c.x * c.y + (c.x + c.y) * (s / 3)) + s ^ 4 / 24 := by
  refine ⟨?_, ?_, ?_⟩
  · rw [triangleVertices_eq, triangle_moment_20]
    simp only [triCross, Pt.add_x', Pt.add_y']
    ring
  · rw [triangleVertices_eq, triangle_moment_02]
    simp only [triCross, Pt.add_x', Pt.add_y']
    ring
  · rw [triangleVertices_eq, triangle_moment_11]
    simp only [triCross, Pt.add_x', Pt.add_y']
    ring

/-! ### the diamond (regular polygon with four sides) of primitive.py: two triangles along the horizontal diagonal -/

theorem quad_two_triangles (p u q w : Pt) (a b : Nat) :
    Jordan.moment (Jordan.fromVertices [p, u, q, w]) a b
      = Jordan.moment (Jordan.fromVertices [p, u, q]) a b + Jordan.moment (Jordan.fromVertices [q, w, p]) a b :=
  chord_cut_moment [u] [w] p q a b

theorem source_regular4_moment_split (r : Rat) (c : Pt) (a b : Nat) :
    Jordan.moment (Jordan.fromVertices (Gen.regular4Vertices r c)) a b
      = Jordan.moment (Jordan.fromVertices [c + ⟨r, 0⟩, c + ⟨0, r⟩, c + ⟨-r, 0⟩]) a b
        + Jordan.moment (Jordan.fromVertices [c + ⟨-r, 0⟩, c + ⟨0, -r⟩, c + ⟨r, 0⟩]) a b := by
  rw [regular4Vertices_eq]
  exact quad_two_triangles _ _ _ _ a b

theorem source_regular4_area (r : Rat) (c : Pt) :
    Jordan.moment (Jordan.fromVertices (Gen.regular4Vertices r c)) 0 0 = 2 * r ^ 2 := by
  rw [source_regular4_moment_split, triangle_moment_00, triangle_moment_00]
  simp only [triCross, Pt.add_x', Pt.add_y']
  ring

/-- the centroid of the diamond is the requested centre -/
theorem source_regular4_centroid_is_centre (r : Rat) (c : Pt) :
    Jordan.moment (Jordan.fromVertices (Gen.regular4Vertices r c)) 1 0 = c.x * (2 * r ^ 2) ∧
    Jordan.moment (Jordan.fromVertices (Gen.regular4Vertices r c)) 0 1 = c.y * (2 * r ^ 2) := by
  constructor
  · rw [source_regular4_moment_split, triangle_moment_10, triangle_moment_10]
    simp only [triCross, Pt.add_x', Pt.add_y']
    ring
  · rw [source_regular4_moment_split, triangle_moment_01, triangle_moment_01]
    simp only [triCross, Pt.add_x', Pt.add_y']
    ring

/-- second central moments: ∬x² = ∬y² = r⁴/3 and ∬xy = 0 about the centre (taken at c = 0) — the diamond is neither stretched nor sheared -/
theorem source_regular4_second_moments (r : Rat) :
    Jordan.moment (Jordan.fromVertices (Gen.regular4Vertices r ⟨0, 0⟩)) 2 0 = r ^ 4 / 3 ∧
    Jordan.moment (Jordan.fromVertices (Gen.regular4Vertices r ⟨0, 0⟩)) 0 2 = r ^ 4 / 3 ∧
    Jordan.moment (Jordan.fromVertices (Gen.regular4Vertices r ⟨0, 0⟩)) 1 1 = 0 := by
  refine ⟨?_, ?_, ?_⟩
  · rw [source_regular4_moment_split, triangle_moment_20, triangle_moment_20]
    simp only [triCross, Pt.add_x', Pt.add_y']
    ring
  · rw [source_regular4_moment_split, triangle_moment_02, triangle_moment_02]
    simp only [triCross, Pt.add_x', Pt.add_y']
    ring
  · rw [source_regular4_moment_split, triangle_moment_11, triangle_moment_11]
    simp only [triCross, Pt.add_x', Pt.add_y']
    ring

example : Jordan.moment (Jordan.fromVertices (Gen.triangleVertices 3 ⟨1, -2⟩)) 1 0 = 9 := by
  rw [(source_triangle_centroid 3 ⟨1, -2⟩).1]; norm_num
example : Jordan.moment (Jordan.fromVertices (Gen.regular4Vertices 2 ⟨5, 7⟩)) 0 1 = 56 := by
  rw [(source_regular4_centroid_is_centre 2 ⟨5, 7⟩).2]; norm_num

end ShapeVerif.C16
