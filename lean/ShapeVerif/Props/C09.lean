/-
C09 — `move/scale/rotate` transform every vertex exactly once although junction points are shared
between neighbouring segments (and although a cell id may occur many times in the segment lists).
Only property theorems here; helper lemmas are in Proofs/Heap.lean.
Quantifiers: ALL well-formed heaps, ALL variables, ALL curves (any sharing pattern of ids inside
`c.segs`), ALL displacements / factors / cosine-sine pairs.
-/
import ShapeVerif.Proofs.Heap

namespace ShapeVerif.C09
open ShapeVerif Heap

/-! ### geometry level: the new geometry is the pointwise image of the old one -/

theorem move_geom {h : Heap} (v : Nat) (d : Pt) (c : HCurve) (hw : h.WF) (hl : h.lookup v = some c) :
    ((h.step (.move v d)).1.lookup v).map (h.step (.move v d)).1.geom
      = some (List.map (List.map fun p => p.move d) (h.geom c)) := by
  rw [step_move h v d c hl]; exact geom_mapCells hw hl _ _ rfl

theorem scale_geom {h : Heap} (v : Nat) (sx sy : Rat) (c : HCurve) (hw : h.WF) (hl : h.lookup v = some c) :
    ((h.step (.scale v sx sy)).1.lookup v).map (h.step (.scale v sx sy)).1.geom
      = some (List.map (List.map fun p => p.scale sx sy) (h.geom c)) := by
  rw [step_scale h v sx sy c hl]; exact geom_mapCells hw hl _ _ rfl

theorem rot_geom {h : Heap} (v : Nat) (cs sn : Rat) (c : HCurve) (hw : h.WF) (hl : h.lookup v = some c) :
    ((h.step (.rot v cs sn)).1.lookup v).map (h.step (.rot v cs sn)).1.geom
      = some (List.map (List.map fun p => p.rot cs sn) (h.geom c)) := by
  rw [step_rot h v cs sn c hl]; exact geom_mapCells hw hl _ _ rfl

/-! ### cell level: an owned cell receives the transformation once, every other cell is untouched -/

/-- the id list handed to the transformation has no duplicates and lists exactly the ids of the curve -/
theorem ids_nodup_complete (c : HCurve) : (ids c).Nodup ∧ ∀ i, i ∈ ids c ↔ i ∈ c.segs.flatten :=
  ⟨nodup_ids c, mem_ids c⟩

theorem transform_owned_cell {h : Heap} (v : Nat) (c : HCurve) (f : Pt → Pt) (i : Nat) (hw : h.WF)
    (hl : h.lookup v = some c) (hi : i ∈ c.segs.flatten) :
    (h.mapCells (ids c) f).cell i = f (h.cell i) :=
  cell_mapCells_mem h c f i hi (hw.bound v c (lookup_mem hl) i hi)

theorem transform_other_cell (h : Heap) (c : HCurve) (f : Pt → Pt) (i : Nat) (hi : i ∉ c.segs.flatten) :
    (h.mapCells (ids c) f).cell i = h.cell i :=
  cell_mapCells_not_mem h c f i hi

/-! ### closed forms: the inverse transformation restores the point -/

theorem move_neg (p d : Pt) : (p.move d).move d.neg = p := by
  cases p; cases d; simp only [Pt.move, Pt.neg, Pt.mk.injEq]; constructor <;> grind

theorem scale_inv (p : Pt) (a b : Rat) (ha : a ≠ 0) (hb : b ≠ 0) : (p.scale a b).scale (1 / a) (1 / b) = p := by
  cases p; simp only [Pt.scale, Pt.mk.injEq]; constructor <;> grind

theorem rot_inv (p : Pt) (c s : Rat) (hcs : c * c + s * s = 1) : (p.rot c s).rot c (-s) = p := by
  cases p; simp only [Pt.rot, Pt.mk.injEq]; constructor <;> grind

/-- heap level: moving by `d` and then by `-d` restores the geometry of the curve exactly -/
theorem move_roundtrip {h : Heap} (v : Nat) (d : Pt) (c : HCurve) (hw : h.WF) (hl : h.lookup v = some c) :
    (((h.step (.move v d)).1.step (.move v d.neg)).1.lookup v).map
        ((h.step (.move v d)).1.step (.move v d.neg)).1.geom = some (h.geom c) := by
  have h1 := move_geom v d c hw hl
  cases hl1 : (h.step (.move v d)).1.lookup v with
  | none => rw [hl1] at h1; cases h1
  | some c1 =>
    rw [hl1] at h1
    simp only [Option.map_some, Option.some.injEq] at h1
    rw [move_geom v d.neg c1 (wf_step hw _) hl1, h1]
    rw [map_map_cancel _ _ (fun p => move_neg p d)]

/-- scaling by `(a, b)` and then by `(1/a, 1/b)` restores the geometry (`a, b ≠ 0`) -/
theorem scale_roundtrip {h : Heap} (v : Nat) (a b : Rat) (c : HCurve) (ha : a ≠ 0) (hb : b ≠ 0) (hw : h.WF)
    (hl : h.lookup v = some c) :
    (((h.step (.scale v a b)).1.step (.scale v (1 / a) (1 / b))).1.lookup v).map
        ((h.step (.scale v a b)).1.step (.scale v (1 / a) (1 / b))).1.geom = some (h.geom c) := by
  have h1 := scale_geom v a b c hw hl
  cases hl1 : (h.step (.scale v a b)).1.lookup v with
  | none => rw [hl1] at h1; cases h1
  | some c1 =>
    rw [hl1] at h1
    simp only [Option.map_some, Option.some.injEq] at h1
    rw [scale_geom v (1 / a) (1 / b) c1 (wf_step hw _) hl1, h1]
    rw [map_map_cancel _ _ (fun p => scale_inv p a b ha hb)]

/-- rotating by the angle with cosine/sine `(cs, sn)` and then by the opposite angle restores the geometry -/
theorem rot_roundtrip {h : Heap} (v : Nat) (cs sn : Rat) (c : HCurve) (hcs : cs * cs + sn * sn = 1)
    (hw : h.WF) (hl : h.lookup v = some c) :
    (((h.step (.rot v cs sn)).1.step (.rot v cs (-sn))).1.lookup v).map
        ((h.step (.rot v cs sn)).1.step (.rot v cs (-sn))).1.geom = some (h.geom c) := by
  have h1 := rot_geom v cs sn c hw hl
  cases hl1 : (h.step (.rot v cs sn)).1.lookup v with
  | none => rw [hl1] at h1; cases h1
  | some c1 =>
    rw [hl1] at h1
    simp only [Option.map_some, Option.some.injEq] at h1
    rw [rot_geom v cs (-sn) c1 (wf_step hw _) hl1, h1]
    rw [map_map_cancel _ _ (fun p => rot_inv p cs sn hcs)]

/-! ### non-vacuity -/

/-- a triangle: 3 cells, 6 id occurrences (every junction is shared by two segments); after the move
every vertex has been displaced once (a double update would give x = 20 at the junctions) -/
example :
    let h := Heap.init.runOps [.poly 0 [⟨0, 0⟩, ⟨4, 0⟩, ⟨0, 4⟩]]
    ((h.lookup 0).map fun c => (c.segs.flatten.length, (ids c).length)) = some (6, 3)
    ∧ ((h.step (.move 0 ⟨10, 0⟩)).1.lookup 0).map (h.step (.move 0 ⟨10, 0⟩)).1.geom
        = some [[⟨10, 0⟩, ⟨14, 0⟩], [⟨14, 0⟩, ⟨10, 4⟩], [⟨10, 4⟩, ⟨10, 0⟩]] := by decide +kernel

/-- deduplication is what makes it "once": mapping over the raw occurrence list instead of `ids c`
displaces every shared junction twice -/
example :
    let h := Heap.init.runOps [.poly 0 [⟨0, 0⟩, ⟨4, 0⟩, ⟨0, 4⟩]]
    (h.lookup 0).map (fun c => (h.mapCells c.segs.flatten fun p => p.move ⟨10, 0⟩).geom c)
      = some [[⟨20, 0⟩, ⟨24, 0⟩], [⟨24, 0⟩, ⟨20, 4⟩], [⟨20, 4⟩, ⟨20, 0⟩]] := by decide +kernel

/-- a longer history: copy, split of the copy (fresh junction cells), scale and quarter-turn rotation;
the results are the pointwise images -/
example :
    let h := Heap.init.runOps [.poly 0 [⟨0, 0⟩, ⟨4, 0⟩, ⟨0, 4⟩], .copy 1 0, .split 1 [(0, 1/2)],
      .scale 1 2 3, .rot 1 0 1, .len 1]
    (h.lookup 1).map h.geom
        = some [[⟨0, 0⟩, ⟨0, 4⟩], [⟨0, 4⟩, ⟨0, 8⟩], [⟨0, 8⟩, ⟨-12, 0⟩], [⟨-12, 0⟩, ⟨0, 0⟩]]
    ∧ (h.lookup 0).map h.geom = some [[⟨0, 0⟩, ⟨4, 0⟩], [⟨4, 0⟩, ⟨0, 4⟩], [⟨0, 4⟩, ⟨0, 0⟩]]
    ∧ h.WF := by
  refine ⟨by decide +kernel, by decide +kernel, (inv_runOps inv_init _).wf⟩

end ShapeVerif.C09
