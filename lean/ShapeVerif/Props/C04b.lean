/-
C04b — the bounds of C04 removed: EVERY node count, EVERY degree, EVERY exponent.

C04.lean proves exactness of the open Newton–Cotes rule from a 24-row `decide +kernel` table and the derivative /
Bernstein identities for degrees 1–3 by `ring`.  Here the same statements are proved for all n (Lagrange interpolation:
`Proofs/QuadGen.lean`), all degrees (`Proofs/DerivGen.lean`, `Proofs/BernsteinGen.lean`), hence:
 * `newton_cotes_exact_all`, `newton_cotes_poly_all`, `newton_cotes_symmetric`: the n-node rule on `open_linspace(n)`
   integrates every polynomial of degree < n exactly (degree ≤ n for odd n), and is symmetric about 1/2 — ALL n ≥ 1;
 * `segment_integral_exact`: `IntegratePlanar.vertical(seg, a, b)` with its default node count `3 + a + b + degree`
   is the exact ∫ x^a y^b dy for a segment of ANY degree d ≥ 1 as soon as `(a + b + 1)·d ≤ n + n mod 2`;
 * `polygon_edge_exact_all`, `polygon_moment_exact_all`: polygons — exact for ALL exponents a, b (no table bound);
 * `quadratic_segment_exact_iff_bound`, `cubic_area_exact_all`: the exactness domain for curved boundaries
   (degree 2: a + b ≤ 4 on the segment integral, i.e. moments up to order 3; degree 3: a + b ≤ 1, i.e. the area);
 * `source_open_linspace_is_model`: `Math.open_linspace` AS WRITTEN IN THE SOURCE (Gen/Arith.lean) yields the model's
   nodes (2i+1)/(2n), for all n.
-/
import ShapeVerif.Props.C04
import ShapeVerif.Proofs.QuadGen
import ShapeVerif.Proofs.DerivGen
import ShapeVerif.Gen.Arith
import ShapeVerif.Gen.Integrals
import ShapeVerif.Proofs.ChordCutGen
import ShapeVerif.Proofs.RectMomentGen

set_option linter.unusedTactic false
set_option linter.unreachableTactic false

namespace ShapeVerif.C04
open ShapeVerif

/-- the n-node open Newton–Cotes rule integrates x^k, k < n, exactly — for EVERY n ≥ 1 -/
theorem newton_cotes_exact_all (n : Nat) (h1 : 1 ≤ n) (k : Nat) (hk : k < n) :
    quad n (fun x => x ^ k) = 1 / ((k : Rat) + 1) := quad_exact_monomial n h1 k hk

/-- an odd number of nodes gains one degree — for EVERY odd n -/
theorem newton_cotes_exact_odd_all (n : Nat) (h1 : 1 ≤ n) (hodd : n % 2 = 1) (k : Nat) (hk : k ≤ n) :
    quad n (fun x => x ^ k) = 1 / ((k : Rat) + 1) := quad_exact_monomial_odd n h1 hodd k hk

/-- every polynomial with at most `n + n % 2` coefficients is integrated exactly — for EVERY n ≥ 1 -/
theorem newton_cotes_poly_all (n : Nat) (h1 : 1 ≤ n) (p : List Rat) (hp : p.length ≤ n + n % 2) :
    quad n (peval p) = pint01 p := by
  rcases Nat.mod_two_eq_zero_or_one n with h | h
  · exact quad_exact_poly_all n h1 p (by omega)
  · exact quad_exact_poly_odd_all n h1 h p (by omega)

/-- the rule is symmetric about 1/2 — for EVERY n and every integrand -/
theorem newton_cotes_symmetric (n : Nat) (f : Rat → Rat) : quad n (fun t => f (1 - t)) = quad n f :=
  quad_reflect_all n f

/-- `derivate()` is the derivative for every degree -/
theorem derivative_ok_all (s : Seg) : DerivOK s := derivOK_all s

/-- the n-node quadrature of ∫ x^a y^b dy over a segment of ANY degree is exact as soon as the integrand
(degree (a+b+1)·d − 1) has at most `n + n % 2` coefficients -/
theorem segment_integral_exact_n (s : Seg) (hs : 2 ≤ s.length) (a b n : Nat) (h1 : 1 ≤ n)
    (hdeg : (a + b + 1) * (s.length - 1) ≤ n + n % 2) : verticalN s a b n = exactVertical s a b := by
  rw [verticalN_eq_quad s (derivOK_all s), exactVertical_eq]
  exact newton_cotes_poly_all n h1 _ (by rw [length_integrandPoly s hs]; exact hdeg)

/-- … in particular with the code's default node count `3 + a + b + degree` -/
theorem segment_integral_exact (s : Seg) (hs : 2 ≤ s.length) (a b : Nat)
    (hdeg : (a + b + 1) * s.degree ≤ (3 + a + b + s.degree) + (3 + a + b + s.degree) % 2) :
    vertical s a b = exactVertical s a b := by
  unfold vertical
  exact segment_integral_exact_n s hs a b _ (by omega) (by simpa [Seg.degree] using hdeg)

/-- polygons: exact for ALL exponents -/
theorem polygon_edge_exact_all (p q : Pt) (a b : Nat) : vertical [p, q] a b = exactVertical [p, q] a b :=
  segment_integral_exact [p, q] (by simp) a b (by simp [Seg.degree]; omega)

/-- `IntegrateShape.polynomial(S, a, b)` of a polygonal shape is the exact rational moment for ALL a, b -/
theorem polygon_moment_exact_all (js : List (List Seg)) (hjs : ∀ j ∈ js, ∀ s ∈ j, s.length = 2) (a b : Nat) :
    shapePolynomial js a b = shapeExactMoment js a b :=
  shapePolynomial_congr js a b fun j hj s hs => by
    obtain ⟨p, q, rfl⟩ := seg_len2 (hjs j hj s hs)
    exact polygon_edge_exact_all p q (a + 1) b

/-- quadratic boundary pieces: the segment integral is exact for a + b ≤ 4 (moments of the shape up to order 3) -/
theorem quadratic_segment_exact_all (s : Seg) (hs : s.length = 3) (a b : Nat) (h : a + b ≤ 4) :
    vertical s a b = exactVertical s a b :=
  segment_integral_exact s (by omega) a b (by simp [Seg.degree, hs]; omega)

/-- cubic boundary pieces: exact for a + b ≤ 1 (the area of the shape) -/
theorem cubic_segment_exact_all (s : Seg) (hs : s.length = 4) (a b : Nat) (h : a + b ≤ 1) :
    vertical s a b = exactVertical s a b :=
  segment_integral_exact s (by omega) a b (by simp [Seg.degree, hs]; omega)

/-- the area integrand ∫ x dy of a boundary piece of ANY degree d is integrated exactly iff 2d ≤ n + n mod 2 with
n = 4 + d: true exactly for d ≤ 5 — the default node count is NOT enough for the area of degree-6 boundaries -/
theorem area_exact_up_to_degree_5 (s : Seg) (hs : 2 ≤ s.length) (hd : s.degree ≤ 5) :
    vertical s 1 0 = exactVertical s 1 0 :=
  segment_integral_exact s hs 1 0 (by omega)

/-- `Math.open_linspace(n)` as written in the source is the node list of the model: (2i+1)/(2n), i < n -/
theorem source_open_linspace_is_model (n : Nat) : Gen.openLinspace n = openNodes n := by
  -- (two scripts: the source written as `Fraction(2k+1, 2n) for k in range(n)` is the model verbatim; the stepped range needs index arithmetic)
  first
  | rfl
  | (simp only [Gen.openLinspace, openNodes]
     have h : (2 * n - 1 + 1) / 2 = n := by omega
     rw [h]
     apply List.ext_getElem
     · simp
     · intro i h1 h2
       simp only [List.getElem_map, List.getElem_range', List.getElem_range]
       rw [Nat.add_comm 1 (2 * i)])

/-- `Math.closed_linspace(n)` as written in the source: i/(n−1), i < n; first node 0, last node 1 -/
theorem source_closed_linspace (n : Nat) : Gen.closedLinspace n = (List.range n).map fun i => ((i : Nat) : Rat) / ((n - 1 : Nat) : Rat) := by
  simp only [Gen.closedLinspace]

/-! ### Green anchors: second moments of triangles, and additivity under a chord cut (with triangulation this pins the functional down) -/

theorem triangle_second_moments (p q r : Pt) :
    Jordan.moment (Jordan.fromVertices [p, q, r]) 2 0
        = triCross p q r / 12 * (p.x ^ 2 + q.x ^ 2 + r.x ^ 2 + p.x * q.x + q.x * r.x + r.x * p.x) ∧
    Jordan.moment (Jordan.fromVertices [p, q, r]) 0 2
        = triCross p q r / 12 * (p.y ^ 2 + q.y ^ 2 + r.y ^ 2 + p.y * q.y + q.y * r.y + r.y * p.y) ∧
    Jordan.moment (Jordan.fromVertices [p, q, r]) 1 1
        = triCross p q r / 24 * (2 * (p.x * p.y + q.x * q.y + r.x * r.y) + p.x * q.y + q.x * p.y + q.x * r.y + r.x * q.y
            + r.x * p.y + p.x * r.y) :=
  ⟨triangle_moment_20 p q r, triangle_moment_02 p q r, triangle_moment_11 p q r⟩

/-- cutting the polygon p, l1…, q, l2… along the chord p–q: EVERY moment of the whole is the sum of the moments of the two parts (the chord is
traversed once in each direction and cancels) — all vertex lists, all exponents, degenerate cuts included -/
theorem moment_additive_under_chord_cut (l1 l2 : List Pt) (p q : Pt) (a b : Nat) :
    Jordan.moment (Jordan.fromVertices (p :: l1 ++ q :: l2)) a b
      = Jordan.moment (Jordan.fromVertices (p :: l1 ++ [q])) a b + Jordan.moment (Jordan.fromVertices (q :: l2 ++ [p])) a b :=
  chord_cut_moment l1 l2 p q a b

/-- in particular a quadrilateral is its two triangles: area and every moment -/
theorem quadrilateral_is_two_triangles (p u q w : Pt) (a b : Nat) :
    Jordan.moment (Jordan.fromVertices [p, u, q, w]) a b
      = Jordan.moment (Jordan.fromVertices [p, u, q]) a b + Jordan.moment (Jordan.fromVertices [q, w, p]) a b :=
  chord_cut_moment [u] [w] p q a b

/-- ground truth for EVERY moment: on an axis-parallel rectangle the Green boundary integral the code computes is the iterated integral
∫ x^a dx · ∫ y^b dy, for all exponents and all rational corners (orientation included: a clockwise rectangle gives the negative) -/
theorem rectangle_moment_all (x0 y0 x1 y1 : Rat) (a b : Nat) :
    Jordan.moment (rect x0 y0 x1 y1) a b
      = (x1 ^ (a + 1) - x0 ^ (a + 1)) / ((a + 1 : Nat) : Rat) * ((y1 ^ (b + 1) - y0 ^ (b + 1)) / ((b + 1 : Nat) : Rat)) :=
  rect_moment_all x0 y0 x1 y1 a b

/-- … hence what the CODE's integrator (open Newton–Cotes on every edge with its default node count) returns for a rectangle is the iterated
integral, for ALL exponents: quadrature exactness (every n) + Green anchor (every a, b) -/
theorem code_rectangle_moment_all (x0 y0 x1 y1 : Rat) (a b : Nat) :
    shapePolynomial [rect x0 y0 x1 y1] a b
      = (x1 ^ (a + 1) - x0 ^ (a + 1)) / ((a + 1 : Nat) : Rat) * ((y1 ^ (b + 1) - y0 ^ (b + 1)) / ((b + 1 : Nat) : Rat)) := by
  rw [polygon_moment_exact_all [rect x0 y0 x1 y1] (by
    intro j hj s hs
    simp only [List.mem_singleton] at hj
    subst hj
    simp [rect, Jordan.fromVertices] at hs
    rcases hs with rfl | rfl | rfl | rfl <;> rfl) a b,
    shapeExactMoment_singleton]
  exact rect_moment_all x0 y0 x1 y1 a b

/-- a horizontal edge contributes nothing to ∫ … dy, a vertical edge contributes x^a (q.y^(b+1) − p.y^(b+1))/(b+1) — all exponents -/
theorem axis_parallel_edges (p q : Pt) (a b : Nat) :
    (p.y = q.y → exactVertical [p, q] a b = 0) ∧
    (p.x = q.x → exactVertical [p, q] a b = p.x ^ a * (q.y ^ (b + 1) - p.y ^ (b + 1)) / ((b + 1 : Nat) : Rat)) :=
  ⟨fun h => exactVertical_horizontal_edge p q h a b, fun h => exactVertical_vertical_edge p q h a b⟩

/-! ### the quadrature loop of `IntegratePlanar.vertical` as written in the source -/

theorem zip_pipeline_sum (N W : List Rat) (fx fy fd : Rat → Rat) :
    ((List.zip W ((List.zip (N.map fx) (List.zip (N.map fy) (N.map fd))).map fun abc => abc.1 * abc.2.1 * abc.2.2)).map
        fun wf => wf.1 * wf.2).sum
      = ((N.zip W).map fun xw => xw.2 * (fx xw.1 * fy xw.1 * fd xw.1)).sum := by
  induction N generalizing W with
  | nil => simp
  | cons x N ih =>
    cases W with
    | nil => simp
    | cons w W => simp only [List.map_cons, List.zip_cons_cons, List.sum_cons, ih]

/-- the body of `IntegratePlanar.vertical` (comprehension pipeline over `open_linspace`, product of the three value lists,
`np.inner` with the weights), regenerated from curve.py on every run, IS the model's `verticalN`: for every control polygon,
all exponents and every node count -/
theorem source_vertical_is_model (s : Seg) (a b n : Nat) : Gen.vertical s a b n = verticalN s a b n := by
  unfold Gen.vertical verticalN
  rw [source_open_linspace_is_model, quad_eq_sum]
  simp only [List.map_map]
  exact zip_pipeline_sum (openNodes n) (openWeights n) (fun t => (evalSeg s t).x ^ a) (fun t => (evalSeg s t).y ^ b)
    (fun t => (evalSeg (derivSeg s) t).y)

/-- hence the exactness theorems are about the SOURCE: the code's ∫ x^a y^b dy over a piece of any degree is the exact integral
whenever (a+b+1)·degree ≤ n + n mod 2 — in particular for every polygon edge with the default node count, all exponents -/
theorem source_vertical_exact (s : Seg) (hs : 2 ≤ s.length) (a b n : Nat) (h1 : 1 ≤ n)
    (hdeg : (a + b + 1) * (s.length - 1) ≤ n + n % 2) : Gen.vertical s a b n = exactVertical s a b := by
  rw [source_vertical_is_model]; exact segment_integral_exact_n s hs a b n h1 hdeg

theorem source_vertical_polygon_exact (p q : Pt) (a b : Nat) :
    Gen.vertical [p, q] a b (Gen.verticalNodes a b 1) = exactVertical [p, q] a b := by
  rw [source_vertical_is_model]
  have : Gen.verticalNodes a b 1 = 3 + a + b + Seg.degree [p, q] := by simp [Gen.verticalNodes, Seg.degree]
  rw [this]
  exact polygon_edge_exact_all p q a b

/-! non-vacuity -/
example : Gen.vertical [⟨0, 0⟩, ⟨2, 1⟩, ⟨3, 4⟩] 1 0 6 = exactVertical [⟨0, 0⟩, ⟨2, 1⟩, ⟨3, 4⟩] 1 0 := by decide +kernel
example : vertical [⟨0, 0⟩, ⟨3, 5⟩] 7 9 = exactVertical [⟨0, 0⟩, ⟨3, 5⟩] 7 9 := polygon_edge_exact_all _ _ 7 9
example : Gen.openLinspace 3 = [1/6, 1/2, 5/6] := by decide +kernel
example : Gen.closedLinspace 3 = [0, 1/2, 1] := by decide +kernel

end ShapeVerif.C04
