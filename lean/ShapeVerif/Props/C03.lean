/-
C03 — `B in A` (shape containment) means "the region of B is a subset of the region of A".

FULL STATEMENT (informal, over the real code): for all shapes A, B: `B in A` is True iff every point of B
is a point of A; it is reflexive and transitive, Empty is in everything, everything is in Whole, Whole is
in nothing else; `B in A` implies `A | B == A` and `A & B == B`; containment in a ConnectedShape is
containment in every sub-shape, a DisjointShape is contained iff all its components are.

What is PROVED here (all quantifiers unbounded):
 1. `subset_certified` / `subset_rejection_has_witness` — the verified checker `regionSubset B A` used by
    the harness to judge the code's answer: if it accepts, then EVERY point `r` that lies on no edge of A, B
    and whose abscissa is not one of the finitely many critical abscissae satisfies `r ∈ B → r ∈ A`; if it
    rejects, it exhibits a sample point in B and not in A (no false alarm).  (`C03_partial` in the sense
    of DESIGN: certification per executed call; `contains_shape` itself — a recursive geometric procedure
    on curves — is not modelled, only its dispatch rules below.)
 2. the order laws at the specification level for arbitrary region predicates `P Q : Pt → Bool`
    (`Sub P Q := ∀ r, P r → Q r`): `sub_refl`, `sub_trans`, `empty_sub`, `sub_whole`, `whole_sub_iff`,
    `sub_absorb` (B ⊆ A ⇒ A ∪ B = A ∧ A ∩ B = B, and conversely `absorb_sub`), and antisymmetry
    `sub_antisymm` (mutual containment = equal regions, the link to C07).
 3. the composition rules the code's dispatch relies on: `sub_all_iff` (contained in a ConnectedShape iff
    contained in every sub-shape), `any_sub_iff` (a DisjointShape is contained iff each component is),
    `all_sub_of_exists` (Connected ⊆ X if SOME sub-shape ⊆ X — sufficient, not necessary: see
    `all_sub_not_necessary`), `sub_any_of_exists` (X ⊆ Disjoint if X ⊆ some component — sufficient; it is
    also necessary only for connected X, which is not expressible pointwise), the complement duality
    `sub_compl_iff` (used for unbounded-in-unbounded), and the instances for the model's `Shape.memW`
    (`connected_sub_iff`, `disjoint_sub_iff`).

NOT proved: the straight-segment lemma of curve-in-shape (skipped), the correctness of `contains_jordan`
for curved boundaries, and the tolerance effects (C04).
-/
import ShapeVerif.Proofs.Algebra

namespace ShapeVerif.C03
open ShapeVerif

/-- region inclusion -/
def Sub (P Q : Pt → Bool) : Prop := ∀ r, P r = true → Q r = true

/-! ### (1) the certified checker -/
theorem subset_certified (B A : Shape) (h : regionSubset B A = true) (r : Pt)
    (hx : r.x ∉ criticalXs (A.edges ++ B.edges))
    (hoff : ∀ e ∈ A.edges ++ B.edges, e.onEdge r = false) :
    B.memW r = true → A.memW r = true :=
  regionSubset_sound B A h r hx (offLines_of_not_onEdge' _ r hoff)

theorem subset_rejection_has_witness (B A : Shape) (h : regionSubset B A = false) :
    ∃ s ∈ slabSamples (A.edges ++ B.edges), B.memW s = true ∧ A.memW s = false := by
  obtain ⟨s, hs, hp⟩ := slabCheck_complete _ _ h
  refine ⟨s, hs, ?_⟩
  cases hb : B.memW s <;> cases ha : A.memW s <;> simp_all

/-- a rejection refutes inclusion of the regions -/
theorem subset_rejection_refutes (B A : Shape) (h : regionSubset B A = false) : ¬ Sub B.memW A.memW := by
  obtain ⟨s, _, hb, ha⟩ := subset_rejection_has_witness B A h
  intro hsub
  rw [hsub s hb] at ha
  exact absurd ha (by decide)

/-- true inclusion is always accepted -/
theorem subset_complete (B A : Shape) (h : Sub B.memW A.memW) : regionSubset B A = true := by
  cases hc : regionSubset B A
  · exact absurd h (subset_rejection_refutes B A hc)
  · rfl

/-! ### (2) order laws -/
theorem sub_refl (P : Pt → Bool) : Sub P P := fun _ h => h
theorem sub_trans {P Q R : Pt → Bool} (h1 : Sub P Q) (h2 : Sub Q R) : Sub P R := fun r h => h2 r (h1 r h)
theorem empty_sub (P : Pt → Bool) : Sub (fun _ => false) P := fun _ h => Bool.noConfusion h
theorem sub_whole (P : Pt → Bool) : Sub P (fun _ => true) := fun _ _ => rfl
theorem whole_sub_iff (P : Pt → Bool) : Sub (fun _ => true) P ↔ ∀ r, P r = true :=
  ⟨fun h r => h r rfl, fun h r _ => h r⟩
theorem sub_empty_iff (P : Pt → Bool) : Sub P (fun _ => false) ↔ ∀ r, P r = false := by
  constructor
  · intro h r
    cases hp : P r
    · rfl
    · exact Bool.noConfusion (h r hp)
  · intro h r hp; rw [h r] at hp; exact Bool.noConfusion hp

/-- `B in A` ⇒ `A | B` is `A` and `A & B` is `B`, pointwise -/
theorem sub_absorb {P Q : Pt → Bool} (h : Sub Q P) :
    (∀ r, (P r || Q r) = P r) ∧ (∀ r, (P r && Q r) = Q r) := by
  constructor <;> intro r <;> have := h r <;> cases hq : Q r <;> cases hp : P r <;> simp_all

/-- and conversely each of the two absorption laws characterises containment -/
theorem absorb_sub {P Q : Pt → Bool} (h : (∀ r, (P r || Q r) = P r) ∨ (∀ r, (P r && Q r) = Q r)) : Sub Q P := by
  intro r hq
  rcases h with h | h <;> have := h r <;> cases hp : P r <;> simp_all

theorem sub_antisymm {P Q : Pt → Bool} (h1 : Sub P Q) (h2 : Sub Q P) : ∀ r, P r = Q r := by
  intro r
  have a := h1 r; have b := h2 r
  cases hp : P r <;> cases hq : Q r <;> simp_all

/-! ### (3) composition rules of the dispatch -/
/-- contained in a ConnectedShape (intersection) iff contained in every sub-shape -/
theorem sub_all_iff (Q : Pt → Bool) (l : List (Pt → Bool)) :
    Sub Q (fun r => l.all (· r)) ↔ ∀ P ∈ l, Sub Q P := by
  constructor
  · intro h P hP r hq
    exact (List.all_eq_true.mp (h r hq)) P hP
  · intro h r hq
    exact List.all_eq_true.mpr (fun P hP => h P hP r hq)

/-- a DisjointShape (union) is contained iff every component is -/
theorem any_sub_iff (P : Pt → Bool) (l : List (Pt → Bool)) :
    Sub (fun r => l.any (· r)) P ↔ ∀ Q ∈ l, Sub Q P := by
  constructor
  · intro h Q hQ r hq
    exact h r (List.any_eq_true.mpr ⟨Q, hQ, hq⟩)
  · intro h r hq
    obtain ⟨Q, hQ, hq'⟩ := List.any_eq_true.mp hq
    exact h Q hQ r hq'

/-- the sufficient rule for Connected-in-X: some sub-shape is already contained -/
theorem all_sub_of_exists (Q : Pt → Bool) (l : List (Pt → Bool)) (h : ∃ P ∈ l, Sub P Q) :
    Sub (fun r => l.all (· r)) Q := by
  obtain ⟨P, hP, hs⟩ := h
  intro r hr
  exact hs r ((List.all_eq_true.mp hr) P hP)

/-- … which is not necessary: the intersection of two half planes `x > 0`, `x < 0` is empty, hence
contained in the empty region, but neither half plane is -/
theorem all_sub_not_necessary :
    ∃ (Q : Pt → Bool) (l : List (Pt → Bool)), Sub (fun r => l.all (· r)) Q ∧ ¬ ∃ P ∈ l, Sub P Q := by
  refine ⟨fun _ => false, [fun r => decide (0 < r.x), fun r => decide (r.x < 0)], ?_, ?_⟩
  · intro r hr
    simp only [List.all_cons, List.all_nil, Bool.and_true, Bool.and_eq_true, decide_eq_true_eq] at hr
    exact absurd (lt_trans hr.1 hr.2) (lt_irrefl _)
  · rintro ⟨P, hP, hs⟩
    simp only [List.mem_cons, List.not_mem_nil, or_false] at hP
    rcases hP with rfl | rfl
    · exact absurd (hs ⟨1, 0⟩ (by decide +kernel)) (by decide)
    · exact absurd (hs ⟨-1, 0⟩ (by decide +kernel)) (by decide)

/-- the sufficient rule for X-in-Disjoint: contained in some component -/
theorem sub_any_of_exists (Q : Pt → Bool) (l : List (Pt → Bool)) (h : ∃ P ∈ l, Sub Q P) :
    Sub Q (fun r => l.any (· r)) := by
  obtain ⟨P, hP, hs⟩ := h
  intro r hr
  exact List.any_eq_true.mpr ⟨P, hP, hs r hr⟩

/-- complement duality: `B ⊆ A` iff `~A ⊆ ~B` -/
theorem sub_compl_iff (P Q : Pt → Bool) : Sub P Q ↔ Sub (fun r => !Q r) (fun r => !P r) := by
  constructor
  · intro h r hq
    have := h r
    cases hp : P r <;> cases hq' : Q r <;> simp_all
  · intro h r hp
    have := h r
    cases hq' : Q r <;> simp_all

/-- instances for the model's shapes -/
theorem connected_sub_iff (Q : Pt → Bool) (js : List Jordan) :
    Sub Q (Shape.connected js).memW ↔ ∀ j ∈ js, Sub Q (Shape.simple j).memW := by
  constructor
  · intro h j hj r hq
    exact (List.all_eq_true.mp (h r hq)) j hj
  · intro h r hq
    exact List.all_eq_true.mpr (fun j hj => h j hj r hq)

theorem disjoint_sub_iff (P : Pt → Bool) (cs : List (List Jordan)) :
    Sub (Shape.disjoint cs).memW P ↔ ∀ c ∈ cs, Sub (Shape.connected c).memW P := by
  constructor
  · intro h c hc r hq
    exact h r (List.any_eq_true.mpr ⟨c, hc, hq⟩)
  · intro h r hq
    obtain ⟨c, hc, hq'⟩ := List.any_eq_true.mp hq
    exact h c hc r hq'

theorem empty_in_every_shape (A : Shape) : Sub Shape.empty.memW A.memW := empty_sub _
theorem every_shape_in_whole (A : Shape) : Sub A.memW Shape.whole.memW := sub_whole _

/-! ### non-vacuity -/
def big : Shape := .simple (Jordan.fromVertices [⟨0,0⟩, ⟨4,0⟩, ⟨4,4⟩, ⟨0,4⟩])
def small : Shape := .simple (Jordan.fromVertices [⟨1,1⟩, ⟨2,1⟩, ⟨2,2⟩, ⟨1,2⟩])
example : regionSubset small big = true ∧ regionSubset big small = false ∧
    regionSubset Shape.empty small = true ∧ regionSubset small Shape.whole = true ∧
    regionSubset Shape.whole small = false := by decide +kernel

end ShapeVerif.C03
