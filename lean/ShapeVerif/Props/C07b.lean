/-
C07b — `jordan == jordan` does not depend on the start vertex, INCLUDING polygons with removable (collinear) vertices.

C07's `eqJ_rotate_partial` needed "no removable vertex".  The missing part was confluence of the cleaning loop (`JordanCurve.clean`: repeatedly drop
the first vertex lying between its neighbours on a straight line) under a change of the start vertex.  Proofs/CleanRotateGen.lean proves it:
 * `clean_keeps_exactly_the_corners` — with enough fuel the loop returns exactly the NON-removable vertices, in order (removability of a vertex does
   not depend on which other removable vertices were already dropped: an exact rational identity);
 * `corners_rotate` — the survivors of a rotated vertex list are a rotation of the survivors;
 * `eqJ_rotate_all` — hence `==` (model) of a polygon and the same polygon started at ANY vertex is True, for every duplicate-free vertex list
   with at least three corners.  Together with C07 (3): `eqJ` is an equivalence that identifies all start vertices and all redundant collinear vertices.
-/
import ShapeVerif.Props.C07
import ShapeVerif.Proofs.CleanRotateGen

namespace ShapeVerif.C07
open ShapeVerif

theorem clean_keeps_exactly_the_corners (vs : List Pt) (hnd : vs.Nodup) (h3 : 3 ≤ (keepers vs).length) :
    cleanCycle vs.length vs = keepers vs := cleanCycle_eq_keepers vs hnd h3

theorem corners_rotate (vs : List Pt) (hnd : vs.Nodup) (k : Nat) (hk : k ≤ vs.length) :
    ∃ m, m ≤ (keepers vs).length ∧ keepers (rotateL vs k) = rotateL (keepers vs) m := keepers_rotate vs hnd k hk

/-- start-vertex independence of `==`, redundant vertices allowed -/
theorem eqJ_rotate_all (vs : List Pt) (hnd : vs.Nodup) (h3 : 3 ≤ (keepers vs).length) (k : Nat) (hk : k ≤ vs.length) :
    eqJ (Jordan.fromVertices (rotateL vs k)) (Jordan.fromVertices vs) = true :=
  ShapeVerif.eqJ_rotate_all vs hnd h3 k hk

/-! non-vacuity: a square with three redundant vertices, started at a redundant one -/
def sq7 : List Pt := [⟨0,0⟩, ⟨1,0⟩, ⟨2,0⟩, ⟨3,0⟩, ⟨3,2⟩, ⟨3,3⟩, ⟨0,3⟩]
example : keepers sq7 = [⟨0,0⟩, ⟨3,0⟩, ⟨3,3⟩, ⟨0,3⟩] ∧ sq7.Nodup := by decide +kernel
example : eqJ (Jordan.fromVertices (rotateL sq7 2)) (Jordan.fromVertices sq7) = true :=
  eqJ_rotate_all sq7 (by decide +kernel) (by decide +kernel) 2 (by decide)

end ShapeVerif.C07
