/-
C04 — `IntegrateShape.polynomial(S, a, b)` is the integral of x^a y^b over the region.
Only property theorems and non-vacuity examples here; helper lemmas are in Proofs/Quadrature.lean.

The code integrates x^(a+1) y^b dy over every boundary segment with the OPEN Newton–Cotes rule on
`nnodes = 3 + (a+1) + b + degree` nodes (`vertical`); the truth is `exactVertical` (exact polynomial
integration of the same integrand).  Quantifiers: every theorem is for ALL rational control points.
Node counts are covered up to `tableN = 24`.
  * polygons: the code's value IS the exact rational for all exponents with a + b ≤ 19;
  * quadratic boundaries: exact for a + b ≤ 3 (area, first, second and third moments);
  * cubic boundaries: the AREA is exact; first moments are in general NOT exact (see the last example):
    this is the "agree to quadrature accuracy" clause.
-/
import ShapeVerif.Proofs.Quadrature
import ShapeVerif.Gen.Tables

namespace ShapeVerif.C04
open ShapeVerif

/-! ### the quadrature rule -/

/-- `open_newton_cotes(n)` on `open_linspace(n)` integrates every monomial x^k, k < n, exactly on [0,1]
(1 ≤ n ≤ 24) -/
theorem newton_cotes_exact_on_monomials (n : Nat) (h1 : 1 ≤ n) (hN : n ≤ 24) (k : Nat) (hk : k < n) :
    quad n (fun x => x ^ k) = 1 / ((k : Rat) + 1) := quad_exact_table n h1 hN k hk

/-- for an odd number of nodes the rule gains one degree (it is symmetric): x^n is integrated exactly too -/
theorem newton_cotes_exact_on_monomials_odd (n : Nat) (h1 : 1 ≤ n) (hN : n ≤ 24) (hodd : n % 2 = 1)
    (k : Nat) (hk : k ≤ n) : quad n (fun x => x ^ k) = 1 / ((k : Rat) + 1) :=
  quad_exact_table' n h1 hN k (by unfold exactCount; omega)

/-- the `n`-node rule integrates every polynomial with at most `n` coefficients (degree < n) exactly -/
theorem newton_cotes_exact_on_polynomials (n : Nat) (h1 : 1 ≤ n) (hN : n ≤ 24) (p : List Rat)
    (hp : p.length ≤ n) : quad n (peval p) = pint01 p := quad_exact_poly n h1 hN p hp

/-- … and with at most `n + 1` coefficients when `n` is odd -/
theorem newton_cotes_exact_on_polynomials_odd (n : Nat) (h1 : 1 ≤ n) (hN : n ≤ 24) (hodd : n % 2 = 1)
    (p : List Rat) (hp : p.length ≤ n + 1) : quad n (peval p) = pint01 p :=
  quad_exact_poly_odd n h1 hN hodd p hp

/-! ### polygons are exact -/

/-- `IntegratePlanar.vertical(edge, a, b)` with its default node count is the exact ∫ x^a y^b dy over a
straight edge, for all vertices and all exponents with a + b ≤ 20 -/
theorem polygon_edge_exact (p q : Pt) (a b : Nat) (h : a + b ≤ 20) :
    vertical [p, q] a b = exactVertical [p, q] a b :=
  vertical_eq_exact_line p q a b (by unfold tableN; omega)

/-- `IntegrateShape.polynomial(S, a, b)` of a polygonal shape (any number of boundary polygons, any
rational vertices) is the exact rational moment, for all exponents with a + b ≤ 19 -/
theorem polygon_moment_exact (js : List (List Seg)) (hjs : ∀ j ∈ js, ∀ s ∈ j, s.length = 2)
    (a b : Nat) (h : a + b ≤ 19) : shapePolynomial js a b = shapeExactMoment js a b :=
  shapePolynomial_congr js a b fun j hj s hs =>
    vertical_eq_exact_deg1 s (hjs j hj s hs) (a + 1) b (by unfold tableN; omega)

/-! ### curved boundaries -/

/-- a quadratic segment: the code's ∫ x^a y^b dy is exact for a + b ≤ 4 -/
theorem quadratic_segment_exact (p0 p1 p2 : Pt) (a b : Nat) (h : a + b ≤ 4) :
    vertical [p0, p1, p2] a b = exactVertical [p0, p1, p2] a b := vertical_eq_exact_quadratic p0 p1 p2 a b h

/-- a cubic segment: the code's ∫ x^a y^b dy is exact for a + b ≤ 1 — in particular `IntegrateShape.area`
(`a = 1, b = 0`) -/
theorem cubic_segment_exact (p0 p1 p2 p3 : Pt) (a b : Nat) (h : a + b ≤ 1) :
    vertical [p0, p1, p2, p3] a b = exactVertical [p0, p1, p2, p3] a b :=
  vertical_eq_exact_cubic p0 p1 p2 p3 a b h

/-- the area integrand of a quadratic segment -/
theorem quadratic_area_exact (p0 p1 p2 : Pt) :
    vertical [p0, p1, p2] 1 0 = exactVertical [p0, p1, p2] 1 0 := quadratic_segment_exact p0 p1 p2 1 0 (by omega)

/-- the area integrand of a cubic segment -/
theorem cubic_area_exact (p0 p1 p2 p3 : Pt) :
    vertical [p0, p1, p2, p3] 1 0 = exactVertical [p0, p1, p2, p3] 1 0 :=
  cubic_segment_exact p0 p1 p2 p3 1 0 (by omega)

/-- `IntegrateShape.polynomial(S, a, b)` is exact for a + b ≤ 3 when every boundary segment has degree ≤ 2 -/
theorem shape_deg2_moment_exact (js : List (List Seg))
    (hjs : ∀ j ∈ js, ∀ s ∈ j, s.length = 2 ∨ s.length = 3) (a b : Nat) (h : a + b ≤ 3) :
    shapePolynomial js a b = shapeExactMoment js a b :=
  shapePolynomial_congr js a b fun j hj s hs => vertical_eq_exact_deg2 s (hjs j hj s hs) (a + 1) b (by omega)

/-- `IntegrateShape.area(S)` is exact when every boundary segment has degree ≤ 3 -/
theorem shape_deg3_area_exact (js : List (List Seg))
    (hjs : ∀ j ∈ js, ∀ s ∈ j, s.length = 2 ∨ s.length = 3 ∨ s.length = 4) :
    shapePolynomial js 0 0 = shapeExactMoment js 0 0 :=
  shapePolynomial_congr js 0 0 fun j hj s hs => vertical_eq_exact_deg3 s (hjs j hj s hs) 1 0 (by omega)

/-! ### Green-theorem anchors: the exact value is the double integral on regions with a known answer -/

/-- ∫∫ x^a y^b over the rectangle [x0,x1]×[y0,y1], a + b ≤ 2 -/
theorem rectangle_moment_00 (x0 y0 x1 y1 : Rat) :
    Jordan.moment (rect x0 y0 x1 y1) 0 0 = (x1 ^ 1 - x0 ^ 1) / 1 * ((y1 ^ 1 - y0 ^ 1) / 1) :=
  rect_moment_00 x0 y0 x1 y1
theorem rectangle_moment_10 (x0 y0 x1 y1 : Rat) :
    Jordan.moment (rect x0 y0 x1 y1) 1 0 = (x1 ^ 2 - x0 ^ 2) / 2 * ((y1 ^ 1 - y0 ^ 1) / 1) :=
  rect_moment_10 x0 y0 x1 y1
theorem rectangle_moment_01 (x0 y0 x1 y1 : Rat) :
    Jordan.moment (rect x0 y0 x1 y1) 0 1 = (x1 ^ 1 - x0 ^ 1) / 1 * ((y1 ^ 2 - y0 ^ 2) / 2) :=
  rect_moment_01 x0 y0 x1 y1
theorem rectangle_moment_20 (x0 y0 x1 y1 : Rat) :
    Jordan.moment (rect x0 y0 x1 y1) 2 0 = (x1 ^ 3 - x0 ^ 3) / 3 * ((y1 ^ 1 - y0 ^ 1) / 1) :=
  rect_moment_20 x0 y0 x1 y1
theorem rectangle_moment_11 (x0 y0 x1 y1 : Rat) :
    Jordan.moment (rect x0 y0 x1 y1) 1 1 = (x1 ^ 2 - x0 ^ 2) / 2 * ((y1 ^ 2 - y0 ^ 2) / 2) :=
  rect_moment_11 x0 y0 x1 y1
theorem rectangle_moment_02 (x0 y0 x1 y1 : Rat) :
    Jordan.moment (rect x0 y0 x1 y1) 0 2 = (x1 ^ 1 - x0 ^ 1) / 1 * ((y1 ^ 3 - y0 ^ 3) / 3) :=
  rect_moment_02 x0 y0 x1 y1

/-- `rect` is `JordanCurve.from_vertices` on the four corners -/
theorem rect_def (x0 y0 x1 y1 : Rat) :
    rect x0 y0 x1 y1 = Jordan.fromVertices [⟨x0, y0⟩, ⟨x1, y0⟩, ⟨x1, y1⟩, ⟨x0, y1⟩] := rfl

/-- the signed area of a triangle is half the cross product of two edge vectors -/
theorem triangle_area (p q r : Pt) :
    Jordan.area (Jordan.fromVertices [p, q, r])
      = ((q.x - p.x) * (r.y - p.y) - (q.y - p.y) * (r.x - p.x)) / 2 := ShapeVerif.triangle_area p q r

/-- first moments of a triangle = area × centroid coordinates -/
theorem triangle_moment_x (p q r : Pt) :
    Jordan.moment (Jordan.fromVertices [p, q, r]) 1 0
      = Jordan.area (Jordan.fromVertices [p, q, r]) * ((p.x + q.x + r.x) / 3) := by
  rw [ShapeVerif.triangle_area]; exact triangle_moment_10 p q r
theorem triangle_moment_y (p q r : Pt) :
    Jordan.moment (Jordan.fromVertices [p, q, r]) 0 1
      = Jordan.area (Jordan.fromVertices [p, q, r]) * ((p.y + q.y + r.y) / 3) := by
  rw [ShapeVerif.triangle_area]; exact triangle_moment_01 p q r

/-- curved anchor (Archimedes): a quadratic arc and its chord enclose 2/3 of the control triangle -/
theorem parabola_segment_area (p0 p1 p2 : Pt) :
    Jordan.area [[p0, p1, p2], [p2, p0]] = 2 / 3 * Jordan.area (Jordan.fromVertices [p0, p1, p2]) := by
  rw [ShapeVerif.triangle_area]; exact ShapeVerif.parabola_segment_area p0 p1 p2

/-! ### orientation reversal and additivity -/

/-- reversing a segment of degree ≤ 3 negates ∫ x^a y^b dy (a + b ≤ 4) -/
theorem segment_reverse_neg (s : Seg) (hs : s.length = 2 ∨ s.length = 3 ∨ s.length = 4) (a b : Nat)
    (h : a + b ≤ 4) : exactVertical s.reverse a b = - exactVertical s a b := exactVertical_reverse s hs a b h

/-- `JordanCurve.invert` negates every moment of order a + b ≤ 3 (curves of degree ≤ 3) -/
theorem invert_neg_moment (j : Jordan) (hj : ∀ s ∈ j, s.length = 2 ∨ s.length = 3 ∨ s.length = 4)
    (a b : Nat) (h : a + b ≤ 3) : Jordan.moment j.invert a b = - Jordan.moment j a b :=
  moment_invert j hj a b h

/-- … in particular the signed area -/
theorem invert_neg_area (j : Jordan) (hj : ∀ s ∈ j, s.length = 2 ∨ s.length = 3 ∨ s.length = 4) :
    Jordan.area j.invert = - Jordan.area j := area_invert j hj

/-- the boundary integral is additive over concatenated segment lists -/
theorem jordan_additive (j₁ j₂ : List Seg) (a b : Nat) :
    jordanExactVertical (j₁ ++ j₂) a b = jordanExactVertical j₁ a b + jordanExactVertical j₂ a b :=
  jordanExactVertical_append j₁ j₂ a b

/-- the moment of a shape is the sum over its boundary curves (outer boundary + holes) -/
theorem shape_additive (js₁ js₂ : List (List Seg)) (a b : Nat) :
    shapeExactMoment (js₁ ++ js₂) a b = shapeExactMoment js₁ a b + shapeExactMoment js₂ a b :=
  shapeExactMoment_append js₁ js₂ a b

/-- the same for the code's value -/
theorem shape_additive_code (js₁ js₂ : List (List Seg)) (a b : Nat) :
    shapePolynomial (js₁ ++ js₂) a b = shapePolynomial js₁ a b + shapePolynomial js₂ a b :=
  shapePolynomial_append js₁ js₂ a b

/-! ### non-vacuity -/

/-- an L-shaped hexagon (area 3, centroid (5/6, 5/6)) -/
def ell : Jordan := Jordan.fromVertices [⟨0, 0⟩, ⟨2, 0⟩, ⟨2, 1⟩, ⟨1, 1⟩, ⟨1, 2⟩, ⟨0, 2⟩]

example : ∀ j ∈ [ell], ∀ s ∈ j, s.length = 2 := by decide
example : Jordan.area ell = 3 := by decide +kernel
/-- the code's own quadrature value -/
example : shapePolynomial [ell] 0 0 = 3 := by decide +kernel
example : shapePolynomial [ell] 1 0 = 5 / 2 ∧ shapeExactMoment [ell] 1 0 = 5 / 2 := by decide +kernel
example : shapePolynomial [ell] 1 1 = shapeExactMoment [ell] 1 1 :=
  polygon_moment_exact [ell] (by decide) 1 1 (by omega)

/-- a region bounded by a quadratic and a cubic arc -/
def lens : Jordan := [[⟨0, 0⟩, ⟨2, -2⟩, ⟨4, 0⟩], [⟨4, 0⟩, ⟨3, 2⟩, ⟨1, 3⟩, ⟨0, 0⟩]]

example : ∀ j ∈ [lens], ∀ s ∈ j, s.length = 2 ∨ s.length = 3 ∨ s.length = 4 := by decide
example : shapePolynomial [lens] 0 0 = 95 / 12 ∧ shapeExactMoment [lens] 0 0 = 95 / 12 := by decide +kernel
example : Jordan.area lens.invert = - (95 / 12) := by decide +kernel

/-- the "quadrature accuracy" clause is real: the first moment of a cubic arc is NOT exact -/
example : vertical [⟨0, 0⟩, ⟨1, 2⟩, ⟨3, 0⟩, ⟨4, 1⟩] 2 0 ≠ exactVertical [⟨0, 0⟩, ⟨1, 2⟩, ⟨3, 0⟩, ⟨4, 1⟩] 2 0 := by
  decide +kernel


/-! ### tie to the source: formulas regenerated from `IntegratePlanar.vertical` and `IntegrateShape.polynomial` on every run -/

/-- the default node count the code uses is the one the exactness theorems above are about (3 + a + b + degree) -/
theorem translated_node_count (a b deg : Nat) : Gen.verticalNodes a b deg = 3 + a + b + deg := by
  unfold Gen.verticalNodes; omega

/-- `IntegrateShape.polynomial(S, a, b)` integrates x^(a+1) y^b dy and divides by a+1 (Green's theorem for the moment) -/
theorem translated_moment_reduction (a b : Nat) :
    Gen.momentExpX a b = a + 1 ∧ Gen.momentExpY a b = b ∧ Gen.momentDivisor a b = a + 1 := by
  unfold Gen.momentExpX Gen.momentExpY Gen.momentDivisor; omega

/-- hence the model's `vertical` is the code's integral with the regenerated node count -/
theorem code_vertical_is_model_vertical (s : Seg) (a b : Nat) :
    verticalN s a b (Gen.verticalNodes a b s.degree) = vertical s a b := by
  rw [translated_node_count]; rfl

end ShapeVerif.C04
