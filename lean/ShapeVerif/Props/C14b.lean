/-
C14b — the SOURCE of `Intersection.lines` (curve.py), regenerated into `Gen/Arith.lean` by the arithmetic
translator on every run, is the function the theorems of C14 are about.

`Gen.linesInter`, `Gen.cross` are compiled from the Python AST (harness/translate_arith.py): straight-line rational
arithmetic, `if … return` chains, `tuple()` ↦ `none`.  `source_lines_is_model` is re-proved against the current source
by `grind` (closed under any rewrite of the source that is propositionally / ring-equal on every input); the
soundness, completeness and symmetry theorems are then stated about the GENERATED function itself.
-/
import ShapeVerif.Props.C14
import ShapeVerif.Gen.Arith
import ShapeVerif.Props.C18b

namespace ShapeVerif.C14
open ShapeVerif

/-- `Point2D.cross` as written in polygon.py is the model's cross product -/
theorem source_cross_is_model : Gen.cross = Pt.cross := by
  funext p q; simp only [Gen.cross, Pt.cross]; try grind

/-- `Intersection.lines` as written in curve.py is the model's `linesInter`, on ALL inputs -/
theorem source_lines_is_model : Gen.linesInter = linesInter := by
  funext a0 a1 b0 b1
  simp only [Gen.linesInter, linesInter, source_cross_is_model]
  grind

/-- soundness of the source: a reported pair is a common point with both parameters in [0,1] -/
theorem source_lines_sound (a0 a1 b0 b1 : Pt) (u v : Rat) (h : Gen.linesInter a0 a1 b0 b1 = some (u, v)) :
    lerp a0 a1 u = lerp b0 b1 v ∧ 0 ≤ u ∧ u ≤ 1 ∧ 0 ≤ v ∧ v ≤ 1 := by
  rw [source_lines_is_model] at h; exact linesInter_sound a0 a1 b0 b1 u v h

/-- completeness and uniqueness of the source on non-parallel pairs -/
theorem source_lines_complete (a0 a1 b0 b1 : Pt) (u v : Rat)
    (hD : Pt.cross (a1 - a0) (b1 - b0) ≠ 0) (h : lerp a0 a1 u = lerp b0 b1 v)
    (hu : 0 ≤ u ∧ u ≤ 1) (hv : 0 ≤ v ∧ v ≤ 1) : Gen.linesInter a0 a1 b0 b1 = some (u, v) := by
  rw [source_lines_is_model]; exact linesInter_complete a0 a1 b0 b1 u v hD h hu hv

/-- exact characterisation of what the source reports -/
theorem source_lines_iff (a0 a1 b0 b1 : Pt) (u v : Rat) :
    Gen.linesInter a0 a1 b0 b1 = some (u, v) ↔
      Pt.cross (a1 - a0) (b1 - b0) ≠ 0 ∧ lerp a0 a1 u = lerp b0 b1 v ∧ 0 ≤ u ∧ u ≤ 1 ∧ 0 ≤ v ∧ v ≤ 1 := by
  rw [source_lines_is_model]; exact linesInter_iff a0 a1 b0 b1 u v

/-- operand symmetry of the source -/
theorem source_lines_swap (a0 a1 b0 b1 : Pt) :
    Gen.linesInter b0 b1 a0 a1 = (Gen.linesInter a0 a1 b0 b1).map (fun p => (p.2, p.1)) := by
  rw [source_lines_is_model]; exact linesInter_swap a0 a1 b0 b1

/-- parallel or degenerate pairs are never reported (they are `PlanarCurve.__and__`'s business) -/
theorem source_lines_parallel (a0 a1 b0 b1 : Pt) (hD : Pt.cross (a1 - a0) (b1 - b0) = 0) :
    Gen.linesInter a0 a1 b0 b1 = none := by
  rw [source_lines_is_model]; exact linesInter_parallel a0 a1 b0 b1 hD

/-! ### the box rejection of `PlanarCurve.__and__` never loses a crossing — every degree -/

/-- a point of the exact box of `a` is not in the exact box of `b` when the boxes are disjoint -/
theorem box_disjoint_excludes (a b : Box) (h : a.disjoint b = true) (p : Pt) (hp : a.contains p = true) : b.contains p = false := by
  unfold Box.disjoint at h
  unfold Box.contains at hp
  simp only [Bool.and_eq_true, decide_eq_true_eq] at hp
  obtain ⟨⟨⟨h1, h2⟩, h3⟩, h4⟩ := hp
  simp only [Bool.or_eq_true, decide_eq_true_eq] at h
  by_contra hcon
  have hb : b.contains p = true := by simpa using hcon
  unfold Box.contains at hb
  simp only [Bool.and_eq_true, decide_eq_true_eq] at hb
  obtain ⟨⟨⟨g1, g2⟩, g3⟩, g4⟩ := hb
  rcases h with h | h
  · by_cases c1 : a.lo.x < b.lo.x <;> by_cases c2 : a.hi.x < b.hi.x <;> simp only [c1, c2, if_true, if_false] at h <;> linarith
  · by_cases c1 : a.lo.y < b.lo.y <;> by_cases c2 : a.hi.y < b.hi.y <;> simp only [c1, c2, if_true, if_false] at h <;> linarith

/-- `if self.box() & other.box() is None: return None` is SOUND for pieces of every degree: when the boxes of the control points do not meet
(the test AS WRITTEN IN THE SOURCE, `Gen.boxDisjoint`), the two pieces have no common point at any pair of parameters in [0,1] -/
theorem source_box_rejection_sound (s t : Seg) (hs : s ≠ []) (ht : t ≠ [])
    (h : Gen.boxDisjoint (Seg.box s).lo (Seg.box s).hi (Seg.box t).lo (Seg.box t).hi = true)
    (u v : Rat) (hu : 0 ≤ u ∧ u ≤ 1) (hv : 0 ≤ v ∧ v ≤ 1) : evalSeg s u ≠ evalSeg t v := by
  have hd : (Seg.box s).disjoint (Seg.box t) = true := by
    have e : Gen.boxDisjoint (Seg.box s).lo (Seg.box s).hi (Seg.box t).lo (Seg.box t).hi = (Seg.box s).disjoint (Seg.box t) := by
      simp only [Gen.boxDisjoint, Box.disjoint]; grind
    rw [← e]; exact h
  intro he
  have h1 := C18.box_contains_curve_all s hs u hu
  have h2 := C18.box_contains_curve_all t ht v hv
  rw [he] at h1
  rw [box_disjoint_excludes _ _ hd _ h1] at h2
  exact Bool.noConfusion h2

/-! non-vacuity: the diagonals of the unit square meet at (1/2, 1/2); touching at an end point is reported -/
example : Gen.linesInter ⟨0, 0⟩ ⟨1, 1⟩ ⟨0, 1⟩ ⟨1, 0⟩ = some (1/2, 1/2) := by decide +kernel
example : Gen.linesInter ⟨0, 0⟩ ⟨2, 0⟩ ⟨2, 0⟩ ⟨2, 5⟩ = some (1, 0) := by decide +kernel
example : Gen.linesInter ⟨0, 0⟩ ⟨1, 0⟩ ⟨0, 1⟩ ⟨1, 1⟩ = none := by decide +kernel

end ShapeVerif.C14
