/-
C14b — the SOURCE of `Intersection.lines` (curve.py), regenerated into `Gen/Arith.lean` by the arithmetic
translator on every run, is the function the theorems of C14 are about.

`Gen.linesInter`, `Gen.cross` are compiled from the Python AST (harness/translate_arith.py): straight-line rational
arithmetic, `if … return` chains, `tuple()` ↦ `none`.  `source_lines_is_model` is re-proved against the current source
by `grind` (closed under any rewrite of the source that is propositionally / ring-equal on every input); the
soundness, completeness and symmetry theorems are then stated about the GENERATED function itself.
-/
import ShapeVerif.Props.C14
import ShapeVerif.Gen.Arith

namespace ShapeVerif.C14
open ShapeVerif

/-- `Point2D.cross` as written in polygon.py is the model's cross product -/
theorem source_cross_is_model : Gen.cross = Pt.cross := by
  funext p q; simp only [Gen.cross, Pt.cross]; try grind

/-- `Intersection.lines` as written in curve.py is the model's `linesInter`, on ALL inputs -/
theorem source_lines_is_model : Gen.linesInter = linesInter := by
  funext a0 a1 b0 b1
  simp only [Gen.linesInter, linesInter, source_cross_is_model]
  grind

/-- soundness of the source: a reported pair is a common point with both parameters in [0,1] -/
theorem source_lines_sound (a0 a1 b0 b1 : Pt) (u v : Rat) (h : Gen.linesInter a0 a1 b0 b1 = some (u, v)) :
    lerp a0 a1 u = lerp b0 b1 v ∧ 0 ≤ u ∧ u ≤ 1 ∧ 0 ≤ v ∧ v ≤ 1 := by
  rw [source_lines_is_model] at h; exact linesInter_sound a0 a1 b0 b1 u v h

/-- completeness and uniqueness of the source on non-parallel pairs -/
theorem source_lines_complete (a0 a1 b0 b1 : Pt) (u v : Rat)
    (hD : Pt.cross (a1 - a0) (b1 - b0) ≠ 0) (h : lerp a0 a1 u = lerp b0 b1 v)
    (hu : 0 ≤ u ∧ u ≤ 1) (hv : 0 ≤ v ∧ v ≤ 1) : Gen.linesInter a0 a1 b0 b1 = some (u, v) := by
  rw [source_lines_is_model]; exact linesInter_complete a0 a1 b0 b1 u v hD h hu hv

/-- exact characterisation of what the source reports -/
theorem source_lines_iff (a0 a1 b0 b1 : Pt) (u v : Rat) :
    Gen.linesInter a0 a1 b0 b1 = some (u, v) ↔
      Pt.cross (a1 - a0) (b1 - b0) ≠ 0 ∧ lerp a0 a1 u = lerp b0 b1 v ∧ 0 ≤ u ∧ u ≤ 1 ∧ 0 ≤ v ∧ v ≤ 1 := by
  rw [source_lines_is_model]; exact linesInter_iff a0 a1 b0 b1 u v

/-- operand symmetry of the source -/
theorem source_lines_swap (a0 a1 b0 b1 : Pt) :
    Gen.linesInter b0 b1 a0 a1 = (Gen.linesInter a0 a1 b0 b1).map (fun p => (p.2, p.1)) := by
  rw [source_lines_is_model]; exact linesInter_swap a0 a1 b0 b1

/-- parallel or degenerate pairs are never reported (they are `PlanarCurve.__and__`'s business) -/
theorem source_lines_parallel (a0 a1 b0 b1 : Pt) (hD : Pt.cross (a1 - a0) (b1 - b0) = 0) :
    Gen.linesInter a0 a1 b0 b1 = none := by
  rw [source_lines_is_model]; exact linesInter_parallel a0 a1 b0 b1 hD

/-! non-vacuity: the diagonals of the unit square meet at (1/2, 1/2); touching at an end point is reported -/
example : Gen.linesInter ⟨0, 0⟩ ⟨1, 1⟩ ⟨0, 1⟩ ⟨1, 0⟩ = some (1/2, 1/2) := by decide +kernel
example : Gen.linesInter ⟨0, 0⟩ ⟨2, 0⟩ ⟨2, 0⟩ ⟨2, 5⟩ = some (1, 0) := by decide +kernel
example : Gen.linesInter ⟨0, 0⟩ ⟨1, 0⟩ ⟨0, 1⟩ ⟨1, 1⟩ = none := by decide +kernel

end ShapeVerif.C14
