/-
C02c — the chords summed by the curved winding number (continuation of C02b): for every query point and every depth they form a path
through points of the curve in parameter order, closed for a closed boundary.  So `windCurved` is always the crossing number of a closed
polygon INSCRIBED in the boundary; C02b's certificate says when the query point is provably off the boundary itself.
-/
import ShapeVerif.Props.C02b
import ShapeVerif.Proofs.ChordPathGen

namespace ShapeVerif.C02
open ShapeVerif

/-- the chords of one piece form a path from its first to its last control point, through points OF THE CURVE taken in parameter order -/
theorem chords_follow_curve (c : Pt) (fuel : Nat) (s : Seg) (hs : s ≠ []) :
    IsPath (subdivChords c fuel s) (s.headD Pt.zero) (s.getLastD Pt.zero) ∧
    ∀ e ∈ subdivChords c fuel s, ∃ t0 t1 : Rat, 0 ≤ t0 ∧ t0 ≤ t1 ∧ t1 ≤ 1 ∧ e.p = evalSeg s t0 ∧ e.q = evalSeg s t1 :=
  ⟨subdivChords_path c fuel s hs, subdivChords_on_curve c fuel s hs⟩

/-- for a closed boundary the chords of all pieces form a CLOSED path: `windCurved` is the crossing number of a closed polygon inscribed in the
boundary (whatever the query point and the depth) -/
theorem chords_closed_path (c : Pt) (fuel : Nat) (s0 : Seg) (rest : Jordan) (hj : ∀ s ∈ s0 :: rest, s ≠ [])
    (hchain : ∀ p ∈ (s0 :: rest).zip ((s0 :: rest).tail ++ (s0 :: rest).take 1), p.1.getLastD Pt.zero = p.2.headD Pt.zero) :
    IsPath ((s0 :: rest).flatMap (subdivChords c fuel)) (s0.headD Pt.zero) (s0.headD Pt.zero) :=
  jordan_chords_closed c fuel (s0 :: rest) hj hchain s0 rest rfl

end ShapeVerif.C02
