/-
C05 — inclusion–exclusion of measures.
Informal property: for shapes A, B and every polynomial weight x^a y^b the integrals
(`IntegrateShape.polynomial`, exact version `Shape.moment`) satisfy
    m(A | B) + m(A & B) = m(A) + m(B),   m(A - B) + m(A & B) = m(A),
    m(A ^ B) = m(A | B) - m(A & B),      m(~A) = - m(A).

What is proved here.  A moment is a boundary integral (Green): it is a SUM over the boundary pieces.
Hence it depends only on the multiset of pieces (`moment_perm`), and
  * `incl_excl_of_cert`: whenever the pieces of two results are a rearrangement of the operands' pieces
    — the conservation certificate that the harness checks on the REAL results of `A | B` and `A & B`
    (after the operands have been refined at their intersection points, which C15 shows changes no
    moment) — the identity m(R1) + m(R2) = m(A) + m(B) holds for EVERY a, b and every degree;
  * `diff_of_cert`: for `A - B`, `A & B` the pieces of B inside A occur once in each direction and cancel
    (`cancel_pair`: ∫ over a reversed piece is the negative; pieces of degree ≤ 3, a + b ≤ 3);
    `incl_excl_of_cert_cancel` is the common generalisation;
  * `moment_compl`: m(~A) = -m(A) for shapes with curves of degree ≤ 3, a + b ≤ 3;
  * `xor_algebra`: the algebraic step from the three identities above to the symmetric difference.
Not proved here: that the real operators produce results satisfying the certificate (that the
follow-path algorithm keeps exactly the right pieces) — this is checked by the harness on every test
input, and the pointwise set identities are C01/C04.  The degree/exponent bounds come from the
reflection symmetry table of Proofs/Quadrature.lean.  Helper lemmas are in Proofs/Misc.lean.
-/
import ShapeVerif.Proofs.Misc

namespace ShapeVerif.C05
open ShapeVerif ShapeVerif.Misc

/-! ### a moment is a sum over the boundary pieces -/

/-- the moment only depends on the list of boundary segments, whatever their grouping into curves -/
theorem moment_eq_sum_segments (js : List Jordan) (a b : Nat) :
    shapeExactMoment js a b
      = ((js.flatten.map fun s => exactVertical s (a + 1) b).sum) / ((a + 1 : Nat) : Rat) :=
  shapeExactMoment_eq js a b

/-- … and not on their order: rearranged pieces give the same moment, for ALL `a b`, every degree -/
theorem moment_perm (js js' : List Jordan) (h : List.Perm js.flatten js'.flatten) (a b : Nat) :
    shapeExactMoment js a b = shapeExactMoment js' a b := by
  rw [shapeExactMoment_eq, shapeExactMoment_eq, jev_perm h]

/-- moments of two shapes add up to the moment of all their curves together -/
theorem moment_add (A B : Shape) (a b : Nat) :
    A.moment a b + B.moment a b = shapeExactMoment (A.jordans ++ B.jordans) a b :=
  (shapeExactMoment_append _ _ a b).symm

/-! ### m(A | B) + m(A & B) = m(A) + m(B) from the conservation certificate -/

theorem incl_excl_of_cert (A B R1 R2 : Shape)
    (cert : (R1.jordans.flatten ++ R2.jordans.flatten).Perm (A.jordans.flatten ++ B.jordans.flatten))
    (a b : Nat) : R1.moment a b + R2.moment a b = A.moment a b + B.moment a b := by
  rw [moment_add, moment_add]
  apply moment_perm
  simpa using cert

/-! ### pieces traversed once in each direction cancel -/

theorem cancel_pair (s : Seg) (hs : DegLe3 s) (a b : Nat) (h : a + b ≤ 3) :
    exactVertical s (a + 1) b + exactVertical s.reverse (a + 1) b = 0 := by
  rw [exactVertical_reverse s hs (a + 1) b (by omega)]; ring

/-- general certificate: the pieces of the results are the pieces `P` plus pieces `X` that occur once
in each direction -/
theorem moment_of_cert_cancel (Rs Ps : List Jordan) (X : List Seg) (hX : ∀ s ∈ X, DegLe3 s)
    (cert : Rs.flatten.Perm (Ps.flatten ++ X ++ X.map List.reverse))
    (a b : Nat) (h : a + b ≤ 3) : shapeExactMoment Rs a b = shapeExactMoment Ps a b := by
  rw [shapeExactMoment_eq, shapeExactMoment_eq, jev_perm cert, List.append_assoc,
    jordanExactVertical_append, jev_cancel X hX (a + 1) b (by omega), add_zero]

/-- m(A | B) + m(A & B) = m(A) + m(B) when, in addition, some pieces occur in both directions -/
theorem incl_excl_of_cert_cancel (A B R1 R2 : Shape) (X : List Seg) (hX : ∀ s ∈ X, DegLe3 s)
    (cert : (R1.jordans.flatten ++ R2.jordans.flatten).Perm
      (A.jordans.flatten ++ B.jordans.flatten ++ X ++ X.map List.reverse))
    (a b : Nat) (h : a + b ≤ 3) : R1.moment a b + R2.moment a b = A.moment a b + B.moment a b := by
  rw [moment_add, moment_add]
  apply moment_of_cert_cancel _ _ X hX _ a b h
  simpa using cert

/-- m(A - B) + m(A & B) = m(A): the pieces of B inside A bound `A - B` in one direction and `A & B`
in the other -/
theorem diff_of_cert (A R1 R2 : Shape) (X : List Seg) (hX : ∀ s ∈ X, DegLe3 s)
    (cert : (R1.jordans.flatten ++ R2.jordans.flatten).Perm (A.jordans.flatten ++ X ++ X.map List.reverse))
    (a b : Nat) (h : a + b ≤ 3) : R1.moment a b + R2.moment a b = A.moment a b := by
  rw [moment_add]
  apply moment_of_cert_cancel _ _ X hX _ a b h
  simpa using cert

/-! ### complement -/

/-- m(~A) = -m(A): inverting every boundary curve negates every moment -/
theorem moment_compl (js : List Jordan) (hjs : ∀ j ∈ js, ∀ s ∈ j, DegLe3 s) (a b : Nat) (h : a + b ≤ 3) :
    shapeExactMoment (js.map Jordan.invert) a b = - shapeExactMoment js a b := by
  induction js with
  | nil => simp [shapeExactMoment]
  | cons j js ih =>
    have e1 : List.map Jordan.invert (j :: js) = [j.invert] ++ js.map Jordan.invert := rfl
    have e2 : j :: js = [j] ++ js := rfl
    rw [e1, shapeExactMoment_append, ih (fun j' hj' => hjs j' (List.mem_cons_of_mem _ hj')),
      shapeExactMoment_singleton, moment_invert j (hjs j (by simp)) a b h]
    conv_rhs => rw [e2, shapeExactMoment_append, shapeExactMoment_singleton]
    ring

theorem shape_moment_compl (A : Shape) (hA : ∀ j ∈ A.jordans, ∀ s ∈ j, DegLe3 s) (a b : Nat)
    (h : a + b ≤ 3) : shapeExactMoment A.invertCurves a b = - A.moment a b :=
  moment_compl A.jordans hA a b h

/-! ### symmetric difference -/

/-- from m(A|B) + m(A&B) = m(A) + m(B), m(A-B) + m(A&B) = m(A), m(B-A) + m(A&B) = m(B):
m(A-B) + m(B-A) = m(A|B) - m(A&B) -/
theorem xor_algebra (u i d d' ma mb : Rat) (h1 : u + i = ma + mb) (h2 : d + i = ma) (h3 : d' + i = mb) :
    d + d' = u - i := by linarith

/-- the three certificates together give m(A-B) + m(B-A) = m(A|B) - m(A&B) -/
theorem xor_of_certs (A B U I D D' : Shape) (X Y : List Seg) (hX : ∀ s ∈ X, DegLe3 s)
    (hY : ∀ s ∈ Y, DegLe3 s)
    (cU : (U.jordans.flatten ++ I.jordans.flatten).Perm (A.jordans.flatten ++ B.jordans.flatten))
    (cD : (D.jordans.flatten ++ I.jordans.flatten).Perm (A.jordans.flatten ++ X ++ X.map List.reverse))
    (cD' : (D'.jordans.flatten ++ I.jordans.flatten).Perm (B.jordans.flatten ++ Y ++ Y.map List.reverse))
    (a b : Nat) (h : a + b ≤ 3) :
    D.moment a b + D'.moment a b = U.moment a b - I.moment a b :=
  xor_algebra _ _ _ _ _ _ (incl_excl_of_cert A B U I cU a b) (diff_of_cert A D I X hX cD a b h)
    (diff_of_cert B D' I Y hY cD' a b h)

/-! ### non-vacuity: two overlapping rectangles, already refined at their crossing points -/

/-- A = [0,2]×[0,2] refined at (2,1) and (1,2) -/
def A : Shape := .simple (Jordan.fromVertices [⟨0,0⟩, ⟨2,0⟩, ⟨2,1⟩, ⟨2,2⟩, ⟨1,2⟩, ⟨0,2⟩])
/-- B = [1,3]×[1,3] refined at (2,1) and (1,2) -/
def B : Shape := .simple (Jordan.fromVertices [⟨1,1⟩, ⟨2,1⟩, ⟨3,1⟩, ⟨3,3⟩, ⟨1,3⟩, ⟨1,2⟩])
def AorB : Shape :=
  .simple (Jordan.fromVertices [⟨0,0⟩, ⟨2,0⟩, ⟨2,1⟩, ⟨3,1⟩, ⟨3,3⟩, ⟨1,3⟩, ⟨1,2⟩, ⟨0,2⟩])
def AandB : Shape := .simple (Jordan.fromVertices [⟨1,1⟩, ⟨2,1⟩, ⟨2,2⟩, ⟨1,2⟩])
def AsubB : Shape := .simple (Jordan.fromVertices [⟨0,0⟩, ⟨2,0⟩, ⟨2,1⟩, ⟨1,1⟩, ⟨1,2⟩, ⟨0,2⟩])

/-- the certificate of `incl_excl_of_cert` holds for them (the two sides have equal piece counts) -/
example : (AorB.jordans.flatten ++ AandB.jordans.flatten).Perm (A.jordans.flatten ++ B.jordans.flatten) :=
  List.isPerm_iff.mp (by decide +kernel)

example : AorB.moment 0 0 + AandB.moment 0 0 = A.moment 0 0 + B.moment 0 0 ∧ AorB.moment 0 0 = 7
    ∧ AandB.moment 0 0 = 1 := by decide +kernel

/-- the certificate of `diff_of_cert`: the pieces of B inside A, (1,2)→(1,1)→(2,1), bound `A - B`
in the opposite direction to `A & B` -/
example : (AsubB.jordans.flatten ++ AandB.jordans.flatten).Perm
    (A.jordans.flatten ++ [[⟨1,2⟩, ⟨1,1⟩], [⟨1,1⟩, ⟨2,1⟩]]
      ++ List.map List.reverse [[⟨1,2⟩, ⟨1,1⟩], [⟨1,1⟩, ⟨2,1⟩]]) :=
  List.isPerm_iff.mp (by decide +kernel)

example : AsubB.moment 1 1 + AandB.moment 1 1 = A.moment 1 1 ∧ A.moment 1 1 = 4 := by decide +kernel

end ShapeVerif.C05
