/-
C19 — directly constructed composites: `ConnectedShape([...])` and `DisjointShape([...])` built by the
user (not by an operator) mean what their documentation says, independently of the order of the arguments.

FULL STATEMENT (informal, over the real code): `ConnectedShape(simples)` is the intersection of the simple
shapes, `DisjointShape(parts)` the union of the parts; the order of the arguments is irrelevant for
membership, area / moments and `==`; `DisjointShape([])` and `DisjointShape([Empty, …])` are `EmptyShape`,
`DisjointShape([S])` is (a copy of) `S`, Empty entries are ignored; the complement of a ConnectedShape is
the union of the complements of its sub-shapes (De Morgan).

The constructors are modelled in `Model/Compose.lean` (`connectedNew`, `disjointNew`), value level:
the `subshapes` setters SORT their argument (by area, decreasing, stable), `DisjointShape.__new__`
filters Empty entries and collapses.  Inputs that make the Python constructor raise `AssertionError`
(a Whole or Disjoint entry) are mapped to `.empty` by the model; theorems about the meaning carry the
validity hypothesis `∀ s ∈ nonEmpty cs, s.isComp`; the permutation theorems hold without it.

What is PROVED here (all quantifiers unbounded):
 1. `sortBy_perm` — the model's insertion sort returns a permutation of its input (any comparison), and
    `connectedNew_sorted`: the curves of `connectedNew js` are in decreasing order of area.
 2. `connectedNew_meaning` — membership (both flags), winding membership and every moment of
    `connectedNew js` are those of the UNSORTED list: `all` over `js`, `shapeExactMoment js`.
 3. `connectedNew_perm_invariant` — a permuted argument list gives the same membership, region and moments.
 4. `disjointNew_collapse` — `[] ↦ Empty`, `[Empty, Empty] ↦ Empty`, all-Empty ↦ Empty, `[S] ↦ S` for
    S simple or connected, `Empty :: cs ↦` same as `cs`.
 5. `disjointNew_meaning` — membership = `any` over the entries (Empty entries contribute nothing),
    moments = sum over the entries; `disjointNew_perm_invariant`.
 6. `disjoint_moment_additive` — `Shape.moment` of any DisjointShape value is the sum over its components
    (and `connected_moment_additive` over the curves of a component).
 7. De Morgan at the predicate level: `complement_connected`, `complement_disjoint`, `not_all_eq_any_not`.

NOT proved: structural equality of the results under permutation (false in general: equal areas keep
their insertion order, as in Python); that the Python sort key `float(shape)` (a float) orders like the
exact rational area (ties/rounding: harness); validity of the user's input (disjointness of the parts,
holes inside the outer curve) is NOT checked by the Python constructors either — `wfProblems` (C06) is the
harness' check.
-/
import ShapeVerif.Proofs.Algebra

namespace ShapeVerif.C19
open ShapeVerif ShapeVerif.Alg

/-! ### (1) sorting -/
theorem sortBy_perm {α : Type} (lt : α → α → Bool) (l : List α) : (sortBy lt l).Perm l := Alg.sortBy_perm lt l

theorem connectedNew_sorted (js : List Jordan) :
    (connectedNew js).jordans.Pairwise (fun a b => b.area ≤ a.area) ∧ (connectedNew js).jordans.Perm js :=
  ⟨sortBy_area_sorted js, connectedNew_jordans_perm js⟩

/-! ### (2), (3) `ConnectedShape(simples)` -/
theorem connectedNew_meaning (js : List Jordan) :
    (∀ (r : Pt) (b : Bool), (connectedNew js).mem r b = js.all (memJ · r b)) ∧
    (∀ r : Pt, (connectedNew js).memW r = js.all (memW · r)) ∧
    (∀ a b : Nat, (connectedNew js).moment a b = shapeExactMoment js a b) :=
  ⟨connectedNew_mem js, connectedNew_memW js, connectedNew_moment js⟩

theorem connectedNew_perm_invariant (js js' : List Jordan) (h : js.Perm js') :
    (∀ (r : Pt) (b : Bool), (connectedNew js).mem r b = (connectedNew js').mem r b) ∧
    (∀ r : Pt, (connectedNew js).memW r = (connectedNew js').memW r) ∧
    (∀ a b : Nat, (connectedNew js).moment a b = (connectedNew js').moment a b) := by
  refine ⟨fun r b => ?_, fun r => ?_, fun a b => ?_⟩
  · rw [connectedNew_mem, connectedNew_mem]; exact all_perm h _
  · rw [connectedNew_memW, connectedNew_memW]; exact all_perm h _
  · rw [connectedNew_moment, connectedNew_moment]; exact shapeExactMoment_perm h a b

/-- the same for shape VALUES that were not built by the constructor -/
theorem connected_perm_invariant (js js' : List Jordan) (h : js.Perm js') :
    (∀ (r : Pt) (b : Bool), (Shape.connected js).mem r b = (Shape.connected js').mem r b) ∧
    (∀ r : Pt, (Shape.connected js).memW r = (Shape.connected js').memW r) ∧
    (∀ a b : Nat, (Shape.connected js).moment a b = (Shape.connected js').moment a b) :=
  ⟨fun _ _ => all_perm h _, fun _ => all_perm h _, fun a b => shapeExactMoment_perm h a b⟩

/-! ### (4), (5) `DisjointShape(parts)` -/
theorem disjointNew_collapse :
    disjointNew [] = .empty ∧ disjointNew [.empty, .empty] = .empty ∧
    (∀ cs : List Shape, (∀ s ∈ cs, s = .empty) → disjointNew cs = .empty) ∧
    (∀ j : Jordan, disjointNew [.simple j] = .simple j) ∧
    (∀ js : List Jordan, disjointNew [.connected js] = .connected js) ∧
    (∀ cs : List Shape, disjointNew (.empty :: cs) = disjointNew cs) :=
  ⟨rfl, rfl, disjointNew_all_empty, fun _ => disjointNew_single _ rfl, fun _ => disjointNew_single _ rfl,
    disjointNew_cons_empty⟩

theorem disjointNew_meaning (cs : List Shape) (hv : ∀ s ∈ nonEmpty cs, s.isComp = true) :
    (∀ (r : Pt) (b : Bool), (disjointNew cs).mem r b = cs.any (·.mem r b)) ∧
    (∀ r : Pt, (disjointNew cs).memW r = cs.any (·.memW r)) ∧
    (∀ a b : Nat, (disjointNew cs).moment a b = (cs.map (·.moment a b)).sum) := by
  refine ⟨fun r b => ?_, fun r => ?_, fun a b => ?_⟩
  · rw [disjointNew_mem cs hv]; exact any_nonEmpty cs _ rfl
  · rw [disjointNew_memW cs hv]; exact any_nonEmpty cs _ rfl
  · rw [disjointNew_moment cs hv]; exact moment_sum_nonEmpty cs a b

/-- two or more parts: the result is a DisjointShape whose components are a permutation of the parts -/
theorem disjointNew_components (cs : List Shape) (hv : ∀ s ∈ nonEmpty cs, s.isComp = true)
    (h2 : 2 ≤ (nonEmpty cs).length) :
    ∃ comps, disjointNew cs = .disjoint comps ∧ comps.Perm ((nonEmpty cs).map Shape.compOf) := by
  rcases disjointNew_eq cs hv with ⟨h1, _⟩ | ⟨s, h1, _⟩ | ⟨_, h⟩
  · rw [h1] at h2; simp at h2
  · rw [h1] at h2; simp at h2
  · exact ⟨_, h, Alg.sortBy_perm _ _⟩

/-- invalid input (the Python constructor raises) is mapped to `.empty` by the model -/
theorem disjointNew_invalid_input (cs : List Shape) (h : ¬ ∀ s ∈ nonEmpty cs, s.isComp = true) :
    disjointNew cs = .empty := disjointNew_invalid cs h

theorem disjointNew_perm_invariant (cs cs' : List Shape) (h : cs.Perm cs') :
    (∀ (r : Pt) (b : Bool), (disjointNew cs).mem r b = (disjointNew cs').mem r b) ∧
    (∀ r : Pt, (disjointNew cs).memW r = (disjointNew cs').memW r) ∧
    (∀ a b : Nat, (disjointNew cs).moment a b = (disjointNew cs').moment a b) :=
  ⟨disjointNew_mem_perm h, disjointNew_memW_perm h, disjointNew_moment_perm h⟩

/-- the same for shape VALUES: the order of the components of a DisjointShape is irrelevant -/
theorem disjoint_perm_invariant (cs cs' : List (List Jordan)) (h : cs.Perm cs') :
    (∀ (r : Pt) (b : Bool), (Shape.disjoint cs).mem r b = (Shape.disjoint cs').mem r b) ∧
    (∀ r : Pt, (Shape.disjoint cs).memW r = (Shape.disjoint cs').memW r) ∧
    (∀ a b : Nat, (Shape.disjoint cs).moment a b = (Shape.disjoint cs').moment a b) := by
  refine ⟨fun _ _ => any_perm h _, fun _ => any_perm h _, fun a b => ?_⟩
  rw [disjoint_moment, disjoint_moment]
  exact (h.map _).sum_eq

/-! ### (6) additivity of the moments -/
theorem disjoint_moment_additive (cs : List (List Jordan)) (a b : Nat) :
    (Shape.disjoint cs).moment a b = (cs.map fun c => (Shape.connected c).moment a b).sum :=
  disjoint_moment cs a b

theorem connected_moment_additive (js : List Jordan) (a b : Nat) :
    (Shape.connected js).moment a b = (js.map fun j => (Shape.simple j).moment a b).sum :=
  shapeExactMoment_sum js a b

/-- the sort key of the constructors is the area of the model -/
theorem compArea_is_area (c : List Jordan) : compArea c = (Shape.connected c).area := compArea_eq c

/-! ### (7) De Morgan -/
theorem not_all_eq_any_not {α : Type} (l : List α) (f : α → Bool) : (!(l.all f)) = l.any (fun x => !f x) :=
  not_all l f
theorem not_any_eq_all_not {α : Type} (l : List α) (f : α → Bool) : (!(l.any f)) = l.all (fun x => !f x) :=
  not_any l f

/-- `~Connected`: outside some sub-shape -/
theorem complement_connected (js : List Jordan) (r : Pt) :
    (!(Shape.connected js).memW r) = js.any (fun j => !(Shape.simple j).memW r) := not_all js _

/-- `~Disjoint`: outside every component -/
theorem complement_disjoint (cs : List (List Jordan)) (r : Pt) :
    (!(Shape.disjoint cs).memW r) = cs.all (fun c => !(Shape.connected c).memW r) := not_any cs _

/-! ### non-vacuity -/
def big : Jordan := Jordan.fromVertices [⟨0,0⟩, ⟨4,0⟩, ⟨4,4⟩, ⟨0,4⟩]
def hole : Jordan := Jordan.fromVertices [⟨1,1⟩, ⟨1,2⟩, ⟨2,2⟩, ⟨2,1⟩]
def far : Jordan := Jordan.fromVertices [⟨6,0⟩, ⟨7,0⟩, ⟨7,1⟩, ⟨6,1⟩]
-- the constructor sorts: the hole (area −1) goes after the outer curve (area 16) whatever the input order
example : connectedNew [hole, big] = .connected [big, hole] ∧ connectedNew [big, hole] = .connected [big, hole] := by
  decide +kernel
example : (connectedNew [hole, big]).mem ⟨3, 3⟩ true = true ∧ (connectedNew [hole, big]).mem ⟨3/2, 3/2⟩ true = false ∧
    (connectedNew [hole, big]).area = 15 := by decide +kernel
example : disjointNew [.simple far, .empty, .connected [big, hole]] = .disjoint [[big, hole], [far]] := by
  decide +kernel
example : disjointNew [.empty, .simple far, .empty] = .simple far ∧ disjointNew [.whole, .simple far] = .empty := by
  decide +kernel
example : (disjointNew [.simple far, .connected [big, hole]]).area = 16 := by decide +kernel

end ShapeVerif.C19
