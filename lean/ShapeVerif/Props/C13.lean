/-
C13 — coordinates are exact rationals: `Point2D(x, y)` stores `Fraction(x).limit_denominator(10**9)`,
which is the identity on every rational of denominator ≤ 10^9, and the affine operations are the exact
rational formulas.  Only property theorems here; helper lemmas are in Proofs/Geom.lean.
-/
import ShapeVerif.Proofs.Geom
import ShapeVerif.Gen.Tables

namespace ShapeVerif.C13
open ShapeVerif ShapeVerif.Geom

/-- `limit_denominator` returns its argument unchanged when the denominator is already small enough -/
theorem limitDenominator_id (r : Rat) (maxd : Nat) (h : r.den ≤ maxd) : limitDenominator r maxd = r := by
  unfold limitDenominator; rw [if_pos h]

/-- the bound is the code's `10**9` -/
theorem maxDen_eq : maxDen = 10 ^ 9 := by decide

/-- coordinates with denominators ≤ 10^9 are stored unchanged -/
theorem mkPoint_id (x y : Rat) (hx : x.den ≤ maxDen) (hy : y.den ≤ maxDen) : mkPoint x y = ⟨x, y⟩ := by
  unfold mkPoint; rw [limitDenominator_id x _ hx, limitDenominator_id y _ hy]

/-- in particular integer coordinates -/
theorem mkPoint_int (m n : Int) : mkPoint (m : Rat) (n : Rat) = ⟨(m : Rat), (n : Rat)⟩ := by
  apply mkPoint_id <;> simp [maxDen]

/-- `limit_denominator` is idempotent on its fixed points, hence so is `mkPoint` on stored points -/
theorem mkPoint_idem (x y : Rat) (hx : x.den ≤ maxDen) (hy : y.den ≤ maxDen) :
    mkPoint (mkPoint x y).x (mkPoint x y).y = mkPoint x y := by
  rw [mkPoint_id x y hx hy, mkPoint_id x y hx hy]

/-- the result of `limit_denominator(maxd)` has a denominator ≤ `maxd` (loop invariants of the
continued-fraction iteration: after the first step `0 ≤ q0`, `1 ≤ q1 ≤ maxd`, `0 ≤ d < n`) -/
theorem limitDenominator_den_le (r : Rat) (maxd : Nat) (h1 : 1 ≤ maxd) :
    (limitDenominator r maxd).den ≤ maxd := Geom.limitDenominator_den_le r maxd h1

/-- every stored coordinate has a denominator ≤ 10^9, whatever rational was passed in -/
theorem mkPoint_den_le (x y : Rat) : (mkPoint x y).x.den ≤ 10 ^ 9 ∧ (mkPoint x y).y.den ≤ 10 ^ 9 := by
  rw [← maxDen_eq]
  exact ⟨Geom.limitDenominator_den_le x maxDen (by decide), Geom.limitDenominator_den_le y maxDen (by decide)⟩

/-- storing is idempotent for EVERY rational input -/
theorem mkPoint_idem_all (x y : Rat) : mkPoint (mkPoint x y).x (mkPoint x y).y = mkPoint x y := by
  have h := mkPoint_den_le x y
  rw [← maxDen_eq] at h
  exact mkPoint_id _ _ h.1 h.2

/-! the exact formulas the code must reproduce -/
theorem lerp_formula (a b : Pt) (t : Rat) : lerp a b t = ⟨a.x + t * (b.x - a.x), a.y + t * (b.y - a.y)⟩ := rfl
theorem move_formula (p v : Pt) : p.move v = ⟨p.x + v.x, p.y + v.y⟩ := rfl
theorem scale_formula (p : Pt) (sx sy : Rat) : p.scale sx sy = ⟨p.x * sx, p.y * sy⟩ := rfl
theorem rot_formula (p : Pt) (c s : Rat) : p.rot c s = ⟨c * p.x - s * p.y, s * p.x + c * p.y⟩ := rfl

theorem lerp_zero (a b : Pt) : lerp a b 0 = a := by simp [lerp]
theorem lerp_one (a b : Pt) : lerp a b 1 = b := by simp [lerp]
theorem lerp_half (a b : Pt) : lerp a b (1/2) = midpoint a b := by
  simp only [lerp, midpoint, Pt.mk.injEq]; constructor <;> ring
/-- the convex-combination form -/
theorem lerp_convex (a b : Pt) (t : Rat) : lerp a b t = ⟨(1 - t) * a.x + t * b.x, (1 - t) * a.y + t * b.y⟩ := by
  simp only [lerp, Pt.mk.injEq]; constructor <;> ring
/-- re-parameterising a straight piece: a point of a sub-segment is a point of the segment -/
theorem lerp_lerp (a b : Pt) (s t u : Rat) : lerp (lerp a b s) (lerp a b t) u = lerp a b (s + u * (t - s)) := by
  simp only [lerp, Pt.mk.injEq]; constructor <;> ring

/-- translations and scalings compose exactly and are exactly invertible: no drift -/
theorem move_move (p d e : Pt) : (p.move d).move e = p.move (d + e) := by
  simp only [Pt.move, Pt.add_x, Pt.add_y, Pt.mk.injEq]; constructor <;> ring
theorem move_back (p d : Pt) : (p.move d).move (Pt.neg d) = p := by
  cases p; simp [Pt.move, Pt.neg]
theorem scale_back (p : Pt) (sx sy : Rat) (hx : sx ≠ 0) (hy : sy ≠ 0) : (p.scale sx sy).scale (1/sx) (1/sy) = p := by
  cases p; simp [Pt.scale, hx, hy]
theorem rot_back (p : Pt) (c s : Rat) (h : c * c + s * s = 1) : (p.rot c s).rot c (-s) = p := by
  cases p with
  | mk x y =>
    simp only [Pt.rot, Pt.mk.injEq]
    constructor
    · linear_combination x * h
    · linear_combination y * h

/-! ### non-vacuity: the continued-fraction branch on concrete numbers (values of CPython) -/
example : limitDenominator (355/113) 100 = 311/99 := by decide +kernel
example : limitDenominator (3141592653589793/1000000000000000) 1000 = 355/113 := by decide +kernel
example : limitDenominator (1/3) 1000000000 = 1/3 := by decide +kernel
example : limitDenominator (1/3 + 1/100000000000) 1000000000 = 1/3 := by decide +kernel
example : mkPoint (1/3) (-7/2) = ⟨1/3, -7/2⟩ := by decide +kernel
example : lerp ⟨0,1⟩ ⟨3,-2⟩ (1/3) = ⟨1, 0⟩ := by decide +kernel


/-- the bound passed to `limit_denominator` in `Point2D.__init__` (regenerated from the source) is the integer 10^9 of the model -/
theorem translated_max_denominator : Gen.maxDenominator = some ((maxDen : Nat) : Rat) := by
  simp [Gen.maxDenominator, maxDen]

end ShapeVerif.C13
