/-
C20 — plotting draws exactly the boundary.
Informal property: the matplotlib path built for a shape (`plot.patch_segment`, `path_jordan`,
`path_shape`) contains, per component, one filled path made of ALL its boundary curves; each curve
starts with MOVETO at its start point, continues with one group of LINETO / CURVE3 / CURVE4 codes per
segment (all control points but the first, code = degree), ends with CLOSEPOLY; reading the path back
with matplotlib's arities gives exactly the closed curves of the component — line, quadratic and
cubic pieces alike, in order.

Proved here (ALL curves with exact junctions and segments of degree 1, 2, 3; ALL lists of such curves):
  * the degree ↦ (first index, code, #codes, #vertices) table REGENERATED from `plot.patch_segment`
    (`Gen.patchTable`) equals the model's `patchCode` with first index 1 and counts = degree, for every
    degree < 8 (degrees 0 and ≥ 4 have no entry, as in the source) — by `decide`, re-checked on every run;
  * `decodePath (encodeJordan j) = some [j]` and `decodePath (encodeComponent js) = some js`;
  * the code sequence: MOVETO first, CLOSEPOLY last, inner codes are drawing codes, length 1 + Σ degree + 1;
    the vertex sequence: start point, every control point but each segment's first, start point again;
  * `plotPlan`: nothing is drawn for Empty/Whole, one filled path per component, every boundary curve
    of the shape is in exactly one path (`(plotPlan s).flatten = s.jordans`), and every planned path is
    read back exactly (`plot_roundtrip`).
Not proved here: the behaviour of matplotlib itself (rasterisation, fill rule), the rounding of the
outline copy, and that the real `path_shape` output equals `encodeComponent` — the harness compares the
real arrays with the model on the test inputs.  Helper lemmas are in Proofs/Misc.lean.
-/
import ShapeVerif.Proofs.Misc
import ShapeVerif.Gen.Tables

namespace ShapeVerif.C20
open ShapeVerif ShapeVerif.Misc

/-! ### the regenerated table of `patch_segment` -/

/-- for every degree `d < 8`: the source has an entry iff the model has a code, the entry starts at
control point 1 (the first one is skipped), uses the model's code, and emits `d` codes and `d` vertices -/
theorem patch_table_matches :
    ∀ d, d < 8 → Gen.patchTable d = (patchCode d).map fun c => (1, c, d, d) := by decide

/-- degrees 1, 2, 3 are LINETO, CURVE3, CURVE4; degrees 0 and 4 have no entry, as the source has it -/
theorem patch_table_rows :
    Gen.patchTable 1 = some (1, .lineto, 1, 1) ∧ Gen.patchTable 2 = some (1, .curve3, 2, 2)
    ∧ Gen.patchTable 3 = some (1, .curve4, 3, 3) ∧ Gen.patchTable 0 = none ∧ Gen.patchTable 4 = none := by
  decide

/-! ### reading a path back -/

/-- a closed curve of line, quadratic and cubic pieces is read back exactly, closed, in order -/
theorem decode_encode (j : Jordan) (hc : ClosedExact j)
    (hd : ∀ s ∈ j, s.length = 2 ∨ s.length = 3 ∨ s.length = 4) :
    decodePath (encodeJordan j) = some [j] := by
  have := decodeGo_jordan hc hd [] none []
  simpa [decodePath, decodeGo] using this

/-- one filled path per component: it contains all the curves of the component, in order -/
theorem decode_encode_component (js : List Jordan) (hc : ∀ j ∈ js, ClosedExact j)
    (hd : ∀ j ∈ js, ∀ s ∈ j, s.length = 2 ∨ s.length = 3 ∨ s.length = 4) :
    decodePath (encodeComponent js) = some js := by
  have := decodeGo_component js hc hd [] none []
  simpa [decodePath, decodeGo] using this

/-! ### the code and vertex sequences of one curve -/

theorem encode_codes (j : Jordan) (hne : j ≠ [])
    (hd : ∀ s ∈ j, s.length = 2 ∨ s.length = 3 ∨ s.length = 4) :
    ((encodeJordan j).map (·.2)).head? = some .moveto
    ∧ ((encodeJordan j).map (·.2)).getLast? = some .closepoly
    ∧ ((encodeJordan j).map (·.2)).length = 1 + (List.map Seg.degree j).sum + 1 := by
  cases j with
  | nil => exact absurd rfl hne
  | cons s0 rest =>
    have e : (encodeJordan (s0 :: rest)).map (·.2)
        = (PCode.moveto :: ((s0 :: rest).flatMap patchSegment).map (·.2)) ++ [PCode.closepoly] := by
      simp [encodeJordan]
    refine ⟨by simp [encodeJordan], by rw [e, List.getLast?_concat], ?_⟩
    simp only [encodeJordan, List.map_cons, List.map_append, List.length_cons, List.length_append,
      List.length_map, List.length_nil]
    rw [length_flatMap_patch _ hd]
    simp only [List.map_cons]
    omega

/-- between MOVETO and CLOSEPOLY there are only drawing codes -/
theorem encode_inner_codes (j : Jordan) :
    ∀ pc ∈ j.flatMap patchSegment, pc.2 ≠ .moveto ∧ pc.2 ≠ .closepoly := by
  intro pc hpc
  obtain ⟨s, _, hs⟩ := List.mem_flatMap.mp hpc
  exact codes_patchSegment_inner s pc hs

/-- the vertices of the path: the start point, then every control point of every segment except its
first one (which is the previous segment's last), then the start point again -/
theorem encode_vertices (s0 : Seg) (rest : Jordan)
    (hd : ∀ s ∈ s0 :: rest, s.length = 2 ∨ s.length = 3 ∨ s.length = 4) :
    (encodeJordan (s0 :: rest)).map (·.1)
      = s0.headD Pt.zero :: (s0 :: rest).flatMap List.tail ++ [s0.headD Pt.zero] := by
  simp only [encodeJordan, List.map_cons, List.map_append, List.map_nil]
  rw [verts_flatMap_patch _ hd]

/-! ### what is drawn for a shape -/

theorem plotPlan_empty : plotPlan .empty = [] := rfl
theorem plotPlan_whole : plotPlan .whole = [] := rfl
theorem plotPlan_simple (j : Jordan) : plotPlan (.simple j) = [[j]] := rfl
theorem plotPlan_connected (js : List Jordan) : plotPlan (.connected js) = [js] := rfl
/-- one filled path per component -/
theorem plotPlan_disjoint (cs : List (List Jordan)) :
    plotPlan (.disjoint cs) = cs ∧ (plotPlan (.disjoint cs)).length = cs.length := ⟨rfl, rfl⟩

/-- every boundary curve of the shape is in exactly one planned path, in order; nothing else is -/
theorem plotPlan_covers (s : Shape) : (plotPlan s).flatten = s.jordans := by
  cases s <;> simp [plotPlan, Shape.jordans]

/-- every planned path of a shape whose curves have exact junctions and degree ≤ 3 is read back as
exactly the curves of its component -/
theorem plot_roundtrip (s : Shape) (hc : ∀ j ∈ s.jordans, ClosedExact j)
    (hd : ∀ j ∈ s.jordans, ∀ sg ∈ j, sg.length = 2 ∨ sg.length = 3 ∨ sg.length = 4) :
    (plotPlan s).map (fun comp => decodePath (encodeComponent comp)) = (plotPlan s).map some := by
  apply List.map_congr_left
  intro comp hcomp
  have hsub : ∀ j ∈ comp, j ∈ s.jordans := by
    intro j hj
    rw [← plotPlan_covers]
    exact List.mem_flatten.mpr ⟨comp, hcomp, hj⟩
  exact decode_encode_component comp (fun j hj => hc j (hsub j hj)) (fun j hj => hd j (hsub j hj))

/-! ### non-vacuity -/

/-- a closed curve made of a line, a quadratic and a cubic piece -/
example : ClosedExact [[⟨0, 0⟩, ⟨4, 0⟩], [⟨4, 0⟩, ⟨5, 2⟩, ⟨4, 4⟩], [⟨4, 4⟩, ⟨3, 5⟩, ⟨1, 5⟩, ⟨0, 0⟩]] := by
  refine ⟨by simp, by simp, ?_⟩
  intro ab hab
  simp at hab
  rcases hab with rfl | rfl | rfl <;> rfl

example :
    encodeJordan [[⟨0, 0⟩, ⟨4, 0⟩], [⟨4, 0⟩, ⟨5, 2⟩, ⟨4, 4⟩], [⟨4, 4⟩, ⟨3, 5⟩, ⟨1, 5⟩, ⟨0, 0⟩]]
      = [(⟨0, 0⟩, .moveto), (⟨4, 0⟩, .lineto), (⟨5, 2⟩, .curve3), (⟨4, 4⟩, .curve3),
         (⟨3, 5⟩, .curve4), (⟨1, 5⟩, .curve4), (⟨0, 0⟩, .curve4), (⟨0, 0⟩, .closepoly)] := by
  decide +kernel

example :
    decodePath (encodeJordan [[⟨0, 0⟩, ⟨4, 0⟩], [⟨4, 0⟩, ⟨5, 2⟩, ⟨4, 4⟩], [⟨4, 4⟩, ⟨3, 5⟩, ⟨1, 5⟩, ⟨0, 0⟩]])
      = some [[[⟨0, 0⟩, ⟨4, 0⟩], [⟨4, 0⟩, ⟨5, 2⟩, ⟨4, 4⟩], [⟨4, 4⟩, ⟨3, 5⟩, ⟨1, 5⟩, ⟨0, 0⟩]]] := by
  decide +kernel

/-- every polygon built from vertices satisfies the hypotheses -/
example (vs : List Pt) (h : vs ≠ []) : ClosedExact (Jordan.fromVertices vs)
    ∧ ∀ s ∈ Jordan.fromVertices vs, s.length = 2 ∨ s.length = 3 ∨ s.length = 4 := by
  have hp := Geom.fromVertices_polygon vs
  have h2 : ∀ s ∈ Jordan.fromVertices vs, s.length = 2 := by
    simpa [Jordan.isPolygon] using hp
  refine ⟨⟨?_, ?_, Geom.exactClosed_fromVertices vs⟩, fun s hs => Or.inl (h2 s hs)⟩
  · cases vs with
    | nil => exact absurd rfl h
    | cons v t => cases t <;> simp [Jordan.fromVertices]
  · intro s hs e
    have := h2 s hs
    rw [e] at this; simp at this

/-- a square with a square hole: one path holding both curves, read back as both -/
example :
    decodePath (encodeComponent [Jordan.fromVertices [⟨0, 0⟩, ⟨4, 0⟩, ⟨4, 4⟩, ⟨0, 4⟩],
        Jordan.fromVertices [⟨1, 1⟩, ⟨1, 3⟩, ⟨3, 3⟩, ⟨3, 1⟩]])
      = some [Jordan.fromVertices [⟨0, 0⟩, ⟨4, 0⟩, ⟨4, 4⟩, ⟨0, 4⟩],
        Jordan.fromVertices [⟨1, 1⟩, ⟨1, 3⟩, ⟨3, 3⟩, ⟨3, 1⟩]] := by
  decide +kernel

/-- the hypothesis on the degrees is needed: a quartic piece has no path code and is not drawn -/
example : decodePath (encodeJordan [[⟨0, 0⟩, ⟨1, 0⟩, ⟨2, 1⟩, ⟨1, 2⟩, ⟨0, 0⟩]]) = some [[]] := by
  decide +kernel

end ShapeVerif.C20
