/-
C13c — how far the constructor of `Point2D` can move a rational coordinate (the quantitative side of finding K5).

`Point2D.__init__` stores `Fraction(x).limit_denominator(10**9)`.  C13 proves: denominators ≤ 10⁹ are stored unchanged and the
stored denominator never exceeds 10⁹.  Here (Proofs/LimitDenGen.lean: loop invariants of CPython's continued-fraction algorithm —
`D = d·q0 + n·q1`, `N·q1 − D·p1 = ∓d`, `N·q0 − D·p0 = ±n`, fuel never exhausted) the ERROR of every other input is bounded:
 * `limit_denominator_error`   |limit_denominator(r, N) − r| ≤ 1/N, all rationals r (negative too), all N ≥ 1;
 * `limit_denominator_error_half`  … ≤ 1/(2q) with q the denominator of the result;
 * `constructor_error`  each stored coordinate is within 1e-9 of the given one;
 * `limit_denominator_not_best_bound` — the classical bound 1/(q·N) for convergents does NOT hold for the semiconvergent the
   algorithm may return (kernel-checked counterexample r = 1/19, N = 10), and holds when the convergent is returned.
So a single constructor call is harmless for `==` (tolerance 1e-9) but, since every `Point2D` arithmetic step constructs a new
point, errors of this ABSOLUTE size accumulate and are relatively large for small drawings — the mechanism of K5 and of the
rounded regime of C12.
-/
import ShapeVerif.Props.C13
import ShapeVerif.Proofs.LimitDenGen

namespace ShapeVerif.C13
open ShapeVerif

theorem limit_denominator_error (r : Rat) (maxd : Nat) (h1 : 1 ≤ maxd) :
    absR (limitDenominator r maxd - r) ≤ 1 / (maxd : Rat) := limitDenominator_error r maxd h1

theorem limit_denominator_error_half (r : Rat) (maxd : Nat) (h1 : 1 ≤ maxd) :
    absR (limitDenominator r maxd - r) * ((limitDenominator r maxd).den : Rat) * 2 ≤ 1 :=
  limitDenominator_error_half r maxd h1

/-- each coordinate stored by `Point2D(x, y)` is within 1e-9 of the coordinate given -/
theorem constructor_error (x y : Rat) :
    absR ((mkPoint x y).x - x) ≤ 1 / 1000000000 ∧ absR ((mkPoint x y).y - y) ≤ 1 / 1000000000 := mkPoint_error x y

/-- the convergent bound 1/(q·N) holds when the algorithm returns the last convergent … -/
theorem limit_denominator_convergent_bound (r : Rat) (maxd : Nat) (h1 : 1 ≤ maxd) (hconv : ldPicksConvergent r maxd) :
    absR (limitDenominator r maxd - r) * ((limitDenominator r maxd).den : Rat) * (maxd : Rat) ≤ 1 :=
  limitDenominator_error_strong_of r maxd h1 hconv

/-- … and fails for the semiconvergent branch: limit_denominator(1/19, 10) = 1/10, error · q · N = 90/19 > 1 -/
theorem limit_denominator_not_best_bound :
    ¬ (absR (limitDenominator (1 / 19) 10 - 1 / 19) * ((limitDenominator (1 / 19) 10).den : Rat) * (10 : Rat) ≤ 1) :=
  limitDenominator_error_strong_counterexample

example : limitDenominator (1 / 19) 10 = 1 / 10 := by decide +kernel
example : limitDenominator (-355 / 113) 10 = -22 / 7 := by decide +kernel

end ShapeVerif.C13
